#!/usr/bin/env python3
"""tools/seed_import.py <PROP> <k> "<breaks>" "<needs>" [checks,comma,separated]
copies $SEED_ROOT(/tmp/seed)/<PROP>/_seed/{patch,demo,notes,verify}<k>.* into /verif/seeded/<PROP>-$SEED_TAG(s)<k>/ with meta.json"""
import os, json, shutil, sys
prop, k, what, needs = sys.argv[1:5]
checks = sys.argv[5].split(",") if len(sys.argv) > 5 else [prop]
sid = f"{prop}-{os.environ.get('SEED_TAG', 's')}{k}"
d = f"/verif/seeded/{sid}"; os.makedirs(d, exist_ok=True)
src = f"{os.environ.get('SEED_ROOT', '/tmp/seed')}/{prop}/_seed"
shutil.copy(f"{src}/patch{k}.diff", d + "/patch.diff")
for ext in ("rs", "sh"):
    if os.path.exists(f"{src}/demo{k}.{ext}"):
        shutil.copy(f"{src}/demo{k}.{ext}", d + "/demo." + ext)
shutil.copy(f"{src}/notes{k}.md", d + "/notes.md")
if os.path.exists(f"{src}/verify{k}.log"):
    shutil.copy(f"{src}/verify{k}.log", d + "/verify.log")
json.dump({"id": sid, "property": prop, "checks": checks,
           "origin": "written by an independent sub-agent that saw only the property text and a scratch worktree of /repo",
           "breaks": what, "needs_to_manifest": needs,
           "confirmed": "tools/seed_verify.sh in the scratch worktree: patch applies to HEAD, the 106 baseline tests (+48 doctests) pass with it, the demonstration fails with the patch and passes without it; see verify.log / notes.md",
           }, open(d + "/meta.json", "w"), indent=1)
print("imported", sid)
