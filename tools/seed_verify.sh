#!/bin/sh
# tools/seed_verify.sh <worktree> <k> [rustflags]     (env DEMO_ARGS: extra cargo test arguments, e.g. --features ffi;
# a demo<k>.sh is run as a shell script from the worktree root instead of a cargo test)
# Confirms a seeded change independently, in the scratch worktree: patch<k>.diff applies to HEAD,
# the existing test suite still passes with it, demo<k>.rs fails with it and passes without it.
# Writes <worktree>/_seed/verify<k>.log ; exit 0 iff all four facts hold.
W="$1"; K="$2"; RF="$3"
cd "$W" || exit 2
export CARGO_NET_OFFLINE=true
L="_seed/verify$K.log"; : > "$L"
git checkout -q -- . ; rm -f tests/seed_demo*.rs
git apply --check "_seed/patch$K.diff" >> "$L" 2>&1 || { echo "patch does not apply" >> "$L"; exit 1; }
git apply "_seed/patch$K.diff"
SUITE=$(cargo test --workspace --no-fail-fast --offline 2>&1 | grep -E "^test result" | tr '\n' ' ')
echo "suite with patch: $SUITE" >> "$L"
echo "$SUITE" | grep -q "FAILED\|[1-9][0-9]* failed" && { echo "SUITE FAILS WITH PATCH" >> "$L"; git checkout -q -- .; exit 1; }
if [ -f "_seed/demo$K.sh" ]; then
  rundemo() { bash "_seed/demo$K.sh"; }
else
  cp "_seed/demo$K.rs" "tests/seed_demo$K.rs"
  rundemo() { RUSTFLAGS="$RF" cargo test --offline $DEMO_ARGS --test "seed_demo$K" ${RF:+--target-dir target_verif}; }
fi
if rundemo >> "$L" 2>&1; then echo "DEMO PASSES WITH PATCH (should fail)" >> "$L"; R1=1; else echo "demo fails with patch: ok" >> "$L"; R1=0; fi
git checkout -q -- .
if rundemo >> "$L" 2>&1; then echo "demo passes without patch: ok" >> "$L"; R2=0; else echo "DEMO FAILS WITHOUT PATCH" >> "$L"; R2=1; fi
rm -f "tests/seed_demo$K.rs"; rm -rf target_verif
[ "$R1" = 0 ] && [ "$R2" = 0 ] && { echo "VERIFIED" >> "$L"; exit 0; }
exit 1
