#!/bin/bash
# tools/runseed.sh <seed-id> <check>... : development aid. Applies seeded/<seed-id>/patch.diff to the
# scratch checkout $SEED_REPO (default /tmp/seedrun, a worktree of /repo), runs the given checks
# against it (RSDD_REPO), reverts.  Serialised by a lock so that several users can share the checkout.
S=$1; shift
R=${SEED_REPO:-/tmp/seedrun}
exec 9>/tmp/seedrun.lock; flock 9
cd $R && git checkout -q -- . && git apply /verif/seeded/$S/patch.diff || exit 9
cd /verif
for c in "$@"; do
  RSDD_REPO=$R ./check $c > /verif/.build/rs_${S}_$c.log 2>&1
  echo "$S / $c: exit $? $(grep -m1 '^VIOLATION' /verif/.build/rs_${S}_$c.log) | $(grep 'oracle violation\|disagree' /verif/.build/rs_${S}_$c.log | tail -1 | cut -c1-250)"
done
cd $R && git checkout -q -- .
