#!/usr/bin/env python3
"""Builds every ocaml/<ID>/driver from the extracted model (used by setup.sh)."""
import os, sys, importlib.machinery, importlib.util
ROOT = os.path.join(os.path.dirname(os.path.abspath(__file__)), "..")
loader = importlib.machinery.SourceFileLoader("check", os.path.join(ROOT, "check"))
spec = importlib.util.spec_from_loader("check", loader); chk = importlib.util.module_from_spec(spec); loader.exec_module(chk)
rc = 0
for d in sorted(os.listdir(os.path.join(ROOT, "ocaml"))):
    if os.path.isdir(os.path.join(ROOT, "ocaml", d)) and os.path.exists(os.path.join(ROOT, "ocaml", d, "driver.ml")):
        exe, err = chk.build_driver(d)
        if exe is None:
            print(f"driver {d}: {err}"); rc = 1
sys.exit(rc)
