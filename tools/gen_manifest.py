#!/usr/bin/env python3
"""Regenerates MANIFEST.json from props/<ID>.json (one per claimed property) and
props/not_applicable.json (reasons for the properties not claimed)."""
import json, os, glob, subprocess
ROOT = os.path.join(os.path.dirname(os.path.abspath(__file__)), "..")
props = [json.loads(l) for l in open(os.path.join(ROOT, "properties.jsonl"))]
cfgs = {}
for p in sorted(glob.glob(os.path.join(ROOT, "props", "C*.json"))):
    c = json.load(open(p))
    if c["id"] in {q["id"] for q in props}:   # sub-engines (e.g. C02S) are run by their parent check
        cfgs[c["id"]] = c
na_reasons = {}
nap = os.path.join(ROOT, "props", "not_applicable.json")
if os.path.exists(nap):
    na_reasons = json.load(open(nap))
hooks_commits = []
try:
    out = subprocess.check_output(["git", "-C", "/repo", "log", "--format=%h %s"], text=True)
    hooks_commits = [l.split()[0] for l in out.splitlines() if "verif hook" in l.lower()]
except Exception:
    pass
checks = []
for pid, c in cfgs.items():
    m = c["manifest"]
    checks.append({
        "property_id": pid,
        "quick_cmd": f"./check {pid} --tier quick",
        "thorough_cmd": f"./check {pid} --tier thorough",
        "evidence_file": f"/verif/evidence/{pid}.json",
        "replay_cmd_template": f"./check {pid} --replay {{path}}",
        "engine": "coq-model+correspondence",
        "level_claimed": {"category": c["level"], "text": m["level_text"], "design_ref": m.get("design_ref", "DESIGN.md §3 " + pid)},
        "level_note": m["level_note"],
        "technique": m["technique"],
    })
manifest = {
    "version": 1,
    "setup_cmd": "./setup.sh",
    "hooks": {
        "guard": "rsdd_verif",
        "enable": "RUSTFLAGS=\"--cfg rsdd_verif\" cargo build --release --offline in /verif/harness (path dependency on /repo); hooks: rsdd::verif::{BackedRobinhoodTable, UniqueTable, TABLE_CAPACITY, LRU_CAPACITY}, SATSolver::verif_model",
        "baseline_off_cmd": "cd /repo && cargo test --workspace --no-fail-fast --offline",
        "source_commits": hooks_commits,
        "add_only": True,
    },
    "engines": [{"name": "coq-model+correspondence", "path": "/verif/check", "serves_properties": sorted(cfgs),
                 "kind_free_text": "Coq 8.16.1 theorems about hand-written Gallina models (coq/theories), extracted to OCaml (ExtrOcamlBasic only) and compared with the implementation on generated cases by a Rust harness that also carries an independent spec oracle; constants re-read from the sources by tools/gen_constants.py on every run"}],
    "checks": checks,
    "not_applicable": [{"property_id": p["id"], "reason": na_reasons.get(p["id"], "check not built yet in this session (work in progress; DESIGN.md §7 build order)")}
                       for p in props if p["id"] not in cfgs],
    "notes": "See DESIGN.md. ./check <ID> [--tier quick|thorough] [--replay file]; known findings in known_findings.txt; seeded mutations in seeded/.",
}
json.dump(manifest, open(os.path.join(ROOT, "MANIFEST.json"), "w"), indent=1)
print("MANIFEST.json:", len(checks), "checks,", len(manifest["not_applicable"]), "not applicable")
