#!/usr/bin/env python3
"""tools/seedtest.py [--all-checks] [--harmless] [seed ids...]
(--harmless: take the behaviour-preserving edits of /verif/harmless/<id>/ instead; there every check must pass)
Runs the registered checks against the seeded changes in /verif/seeded/<id>/ : applies
patch.diff to /repo (git apply), runs the checks named in meta.json ("checks", default: the
property's own check; --all-checks: every claimed check), records exit code and VIOLATION line
in seeded/<id>/result.json, and undoes the change straight afterwards (git checkout -- .).
/repo must be clean and nothing else may be using it while this runs."""
import sys, os, json, subprocess, time, re, fcntl
ROOT = os.path.join(os.path.dirname(os.path.abspath(__file__)), "..")
REPO = os.environ.get("SEED_REPO", "/repo")   # SEED_REPO=<scratch worktree>: try seeds without touching /repo

def sh(cmd, **kw):
    return subprocess.run(cmd, stdout=subprocess.PIPE, stderr=subprocess.STDOUT, text=True, **kw)

def main():
    args = [a for a in sys.argv[1:] if not a.startswith("--")]
    allchecks = "--all-checks" in sys.argv
    SD = "harmless" if "--harmless" in sys.argv else "seeded"
    seeds = args or sorted(d for d in os.listdir(os.path.join(ROOT, SD)) if os.path.exists(os.path.join(ROOT, SD, d, "meta.json")))
    claimed = [c["property_id"] for c in json.load(open(os.path.join(ROOT, "MANIFEST.json")))["checks"]]
    summary = []
    for sid in seeds:
        d = os.path.join(ROOT, SD, sid)
        meta = json.load(open(os.path.join(d, "meta.json")))
        patch = os.path.join(d, meta.get("patch", "patch.diff"))
        checks = claimed if allchecks else meta.get("checks") or [meta["property"]]
        lk = open("/tmp/seedrun.lock", "w"); fcntl.flock(lk, fcntl.LOCK_EX)   # shared with tools/runseed.sh
        if sh(["git", "-C", REPO, "status", "--porcelain", "--untracked-files=no"]).stdout.strip():
            print(f"seedtest: {REPO} has uncommitted changes; refusing"); return 2
        r = sh(["git", "-C", REPO, "apply", patch])
        if r.returncode != 0:
            print(f"{sid}: patch does not apply: {r.stdout[:300]}"); summary.append((sid, "PATCH-FAILED")); lk.close(); continue
        res = {}
        try:
            for c in checks:
                t0 = time.time()
                p = sh([os.path.join(ROOT, "check"), c], cwd=ROOT, timeout=3600, env=dict(os.environ, RSDD_REPO=REPO))
                m = re.search(r"^VIOLATION .*$", p.stdout, re.M)
                res[c] = {"exit": p.returncode, "violation": m.group(0) if m else None, "seconds": round(time.time() - t0, 1),
                          "tail": p.stdout.strip().split("\n")[-3:]}
                print(f"{sid} / {c}: exit {p.returncode} {m.group(0) if m else ''}")
        finally:
            sh(["git", "-C", REPO, "checkout", "--", "."])
            lk.close()
        json.dump({"seed": sid, "results": res, "at": time.strftime("%Y-%m-%dT%H:%M:%SZ", time.gmtime())}, open(os.path.join(d, "result.json"), "w"), indent=1)
        det = [c for c, v in res.items() if v["exit"] == 1 and v["violation"]]
        if meta.get("in_scope") is False:
            bad = [c for c, v in res.items() if v["exit"] != 0]
            summary.append((sid, "out of scope of every property; " + ("REPORTED by " + ",".join(bad) if bad else "not reported (as it should be)")))
        elif meta.get("expect") == "no-failing-input-found":
            hard = [c for c, v in res.items() if v["exit"] != 0 and "no-failing-input-found" not in (v["violation"] or "")]
            soft = [c for c, v in res.items() if v["exit"] != 0 and "no-failing-input-found" in (v["violation"] or "")]
            summary.append((sid, ("FALSE-ALARM (with a failing input!) by " + ",".join(hard)) if hard else ("changes a modelled choice: reported as no-failing-input-found by " + ",".join(soft) if soft else "no alarm")))
        elif meta.get("expect") == "pass":
            bad = [c for c, v in res.items() if v["exit"] != 0]
            summary.append((sid, "FALSE-ALARM by " + ",".join(bad) if bad else "no alarm (as it should be)"))
        else:
            summary.append((sid, "detected by " + ",".join(det) if det else "MISSED"))
    print("\n".join(f"{a}: {b}" for a, b in summary))
    return 0

if __name__ == "__main__":
    sys.exit(main())
