#!/usr/bin/env python3
"""Writes seeded/README.md: which checks catch which seeded change (from meta.json + result.json)."""
import os, json
ROOT = os.path.join(os.path.dirname(os.path.abspath(__file__)), "..")
rows = []
for sid in sorted(os.listdir(os.path.join(ROOT, "seeded"))):
    d = os.path.join(ROOT, "seeded", sid)
    if not os.path.exists(os.path.join(d, "meta.json")):
        continue
    m = json.load(open(os.path.join(d, "meta.json")))
    r = json.load(open(os.path.join(d, "result.json")))["results"] if os.path.exists(os.path.join(d, "result.json")) else {}
    det = []
    for c, v in sorted(r.items()):
        if v["exit"] == 1 and v["violation"]:
            det.append(c + (" (no failing input)" if "no-failing-input-found" in v["violation"] else ""))
    missed = [c for c, v in sorted(r.items()) if v["exit"] == 0]
    what = m.get("breaks") or m.get("origin", "")
    rows.append((sid, m["property"], what, m.get("needs_to_manifest", ""), ", ".join(det) or "—", ", ".join(missed) or "—"))
out = ["# Seeded changes and which checks catch them", "",
       "`<PROP>-s<k>` / `-r<k>` / `-t<k>` / `-u<k>` / `-v<k>` (rounds one to five): written by independent sub-agents that saw only the property text",
       "(from the second round on also the list of earlier mechanisms to avoid) and a scratch worktree;",
       "`D<nn>`: the pinned snapshot's own defects (reverse of the `fix:` commits). Every change compiles and passes the",
       "106 baseline tests; each was confirmed with `tools/seed_verify.sh` (demo fails with / passes without the patch).",
       "Results from `tools/seedtest.py` (quick tier, seed 1).", "",
       "| seed | property | change | needs to manifest | caught by | also run, not caught |", "|---|---|---|---|---|---|"]
for r in rows:
    out.append("| " + " | ".join(x.replace("|", "/").replace("\n", " ") for x in r) + " |")
open(os.path.join(ROOT, "seeded", "README.md"), "w").write("\n".join(out) + "\n")
print(len(rows), "seeds")
