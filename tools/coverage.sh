#!/bin/bash
# tools/coverage.sh [n]: development aid (not part of any check). Builds every harness binary with
# source-based coverage (nightly llvm-tools), runs each generator for n cases (default 2000, quick
# tier, plus the corpus) and prints, for /repo/src and /repo/bin, the functions and line ranges
# that no harness executed.  Output: /tmp/cov/report.txt, /tmp/cov/uncovered_functions.txt
N=${1:-2000}
T=~/.rustup/toolchains/nightly-x86_64-unknown-linux-gnu/lib/rustlib/x86_64-unknown-linux-gnu/bin
mkdir -p /tmp/cov/prof && rm -f /tmp/cov/prof/*.profraw
cd /verif/harness
RUSTFLAGS="--cfg rsdd_verif -C instrument-coverage" CARGO_NET_OFFLINE=true CARGO_TARGET_DIR=/tmp/cov/target cargo +nightly build --release --offline --bins 2>&1 | tail -1
OBJS=""
for f in src/bin/*.rs; do
  b=$(basename $f .rs); ID=$(echo $b | tr a-z A-Z)
  [ -f /verif/props/$ID.json ] || continue
  C=""; [ -f /verif/corpus/$ID.txt ] && C="--cases /verif/corpus/$ID.txt"
  LLVM_PROFILE_FILE=/tmp/cov/prof/$b-%p.profraw RSDD_CLI_BIN_DIR=/verif/.build/cli_target/debug timeout 900 /tmp/cov/target/release/$b $ID gen --seed 3 --n $N --tier quick --out /tmp/cov/run_$b $C > /dev/null 2>&1
  echo "$b exit=$?"
  OBJS="$OBJS -object /tmp/cov/target/release/$b"
done
$T/llvm-profdata merge -sparse /tmp/cov/prof/*.profraw -o /tmp/cov/all.profdata
FIRST=/tmp/cov/target/release/c01
$T/llvm-cov report $FIRST -instr-profile=/tmp/cov/all.profdata $OBJS /repo/src /repo/bin > /tmp/cov/report.txt
$T/llvm-cov export $FIRST -format=lcov -instr-profile=/tmp/cov/all.profdata $OBJS /repo/src /repo/bin > /tmp/cov/all.lcov
python3 - <<'PY'
import re,collections
fn=collections.OrderedDict(); cur=None
for l in open('/tmp/cov/all.lcov'):
    l=l.strip()
    if l.startswith('SF:'): cur=l[3:]
    elif l.startswith('FNDA:'):
        c,name=l[5:].split(',',1); fn.setdefault((cur,name),0); fn[(cur,name)]+=int(c)
out=open('/tmp/cov/uncovered_functions.txt','w')
for (f,n),c in fn.items():
    if c==0 and '/repo/' in f: out.write(f"{f.replace('/repo/','')} {n}\n")
PY
wc -l /tmp/cov/uncovered_functions.txt; tail -3 /tmp/cov/report.txt
