#!/bin/sh
# Run once after a fresh restore, offline: pre-builds the whole Coq development (full .vo), the
# extracted model drivers and the Rust harness binaries from files on disk only.  It is a
# best-effort warm-up: every check rebuilds exactly what it needs and reports a failure itself,
# so one file that does not build must not stop the others from being prepared.
cd "$(dirname "$0")"
export CARGO_NET_OFFLINE=true
python3 tools/gen_constants.py || exit 1
COQMAKE_TIMEOUT=3000 tools/coqmake -k > .build_coq.log 2>&1 || { echo "setup: some Coq files did not build (see .build_coq.log):"; grep -B2 -A6 "^Error" .build_coq.log | head -40; }
[ -f harness/Cargo.lock ] || cp /repo/Cargo.lock harness/Cargo.lock
: > .build_cargo.log
(cd harness && RUSTFLAGS="--cfg rsdd_verif" timeout 3000 cargo build --release --offline --lib >> ../.build_cargo.log 2>&1) || { tail -30 .build_cargo.log; exit 1; }
for f in harness/src/bin/*.rs harness/src/bin/*/main.rs; do
  [ -f "$f" ] || continue
  b=$(basename "$f" .rs); [ "$b" = "main" ] && b=$(basename "$(dirname "$f")")
  (cd harness && RUSTFLAGS="--cfg rsdd_verif" timeout 3000 cargo build --release --offline --bin "$b" >> ../.build_cargo.log 2>&1) || echo "setup: harness binary $b did not build (see .build_cargo.log)"
done
(cd /repo && CARGO_TARGET_DIR=/verif/.build/cli_target timeout 3000 cargo build --offline --features cli --bins >> /verif/.build_cargo.log 2>&1) || echo "setup: the CLI binaries did not build"
python3 tools/build_drivers.py || echo "setup: some model drivers did not build"
echo "setup ok"
