#!/bin/sh
# Run once after a fresh restore, offline: builds the whole Coq development (full .vo),
# the extracted model drivers and the Rust harness from files on disk only.
set -e
cd "$(dirname "$0")"
export CARGO_NET_OFFLINE=true
python3 tools/gen_constants.py


COQMAKE_TIMEOUT=3000 tools/coqmake > .build_coq.log 2>&1 || { tail -50 .build_coq.log; exit 1; }

[ -f harness/Cargo.lock ] || cp /repo/Cargo.lock harness/Cargo.lock
(cd harness && RUSTFLAGS="--cfg rsdd_verif" timeout 3000 cargo build --release --offline --bins) > .build_cargo.log 2>&1 || { tail -50 .build_cargo.log; exit 1; }
python3 tools/build_drivers.py
echo "setup ok"
