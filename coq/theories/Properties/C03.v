(* C03 -- SDD operations compute exactly the Boolean function they name.  Property theorems only:
   each is closed by [exact] (or a short intros/apply), the main one is pinned by [Check], all are
   followed by [Print Assumptions].

   Vocabulary.  [sden p a] is the value of the SDD pointer p under the assignment a (a complement
   bit negates the disjunction of the prime/sub conjunctions).  [under t 0 p] is the builder
   invariant that holds in both configurations (compression on and off): p is a constant, a
   literal of a leaf of t, or a decision node normalised for an internal vtree node whose primes
   lie under the left child, whose subs lie under the right child and whose primes form a partition
   (SddInv.v).  [cache_sound t cache]: whatever the apply cache answers for a pair of operands
   inside a sub-vtree lies inside that sub-vtree and denotes their conjunction; the shipped cache
   (a HashMap that only ever holds earlier results of the same pure function) is one such oracle,
   the empty cache another.  Fuel [S (vheight t)] always suffices: no OutOfFuel, no Panic. *)
From Coq Require Import Bool NArith List Lia Arith Permutation.
Import ListNotations.
From RsddV Require Import Base.Bdd Model.SddVtree Model.SddOps.
From RsddV Require Model.Compile.
From RsddV Require Import Proofs.SddBase Proofs.SddVtree Proofs.SddInv Proofs.SddLoops Proofs.SddNode
  Proofs.SddAnd Proofs.SddCond Proofs.SddProg.

(* negation: the complement bit *)
Theorem C03_sdd_neg_correct : forall t p,
  under t 0 p -> under t 0 (sneg p) /\ forall a, sden (sneg p) a = negb (sden p a).
Proof. intros t p H. split; [apply under_sneg; exact H | intros a; apply sden_sneg]. Qed.
Print Assumptions C03_sdd_neg_correct.

(* conjunction: every vtree (any shape, any labelling with distinct leaves), compression on or off,
   every sound apply cache, all operands satisfying the invariant -- all four apply cases
   (and_cartesian, and_sub_desc, and_prime_desc, and_indep), compress and canonicalize included *)
Definition C03_sdd_and_correct_statement : Prop :=
  forall (t : vtree) (compress_on : bool) (cache : sdd -> sdd -> option sdd) (a b : sdd),
  NoDup (vleaves t) -> cache_sound t cache -> under t 0 a -> under t 0 b ->
  exists r, and_m t compress_on cache (S (vheight t)) a b = Ok r /\ under t 0 r /\
            forall s, sden r s = sden a s && sden b s.
Theorem C03_sdd_and_correct : C03_sdd_and_correct_statement.
Proof.
  intros t cm cache a b ND CS Ha Hb.
  apply (and_m_good t ND cm cache CS (S (vheight t)) t 0 (occurs_refl t 0) (Nat.lt_succ_diag_r _) a b Ha Hb).
Qed.
Check C03_sdd_and_correct : forall (t : vtree) (compress_on : bool) (cache : sdd -> sdd -> option sdd) (a b : sdd),
  NoDup (vleaves t) -> cache_sound t cache -> under t 0 a -> under t 0 b ->
  exists r, and_m t compress_on cache (S (vheight t)) a b = Ok r /\ under t 0 r /\
            forall s, sden r s = sden a s && sden b s.
Print Assumptions C03_sdd_and_correct.

(* the same inside any sub-vtree u of t (operands below u give a result below u), with any fuel
   above the height of u: this is the induction that was proved *)
Theorem C03_sdd_and_correct_local : forall t compress_on cache fuel u off a b,
  NoDup (vleaves t) -> cache_sound t cache -> occurs t 0 u off -> vheight u < fuel ->
  under u off a -> under u off b ->
  exists r, and_m t compress_on cache fuel a b = Ok r /\ under u off r /\ forall s, sden r s = sden a s && sden b s.
Proof. intros t cm cache fuel u off a b ND CS Ho Hf Ha Hb. apply (and_m_good t ND cm cache CS fuel u off Ho Hf a b Ha Hb). Qed.
Print Assumptions C03_sdd_and_correct_local.

(* the empty cache is sound: what the correspondence driver runs *)
Theorem C03_no_cache_sound : forall t, cache_sound t no_cache.
Proof. intros t a b x H. discriminate. Qed.
Print Assumptions C03_no_cache_sound.

Theorem C03_sdd_or_correct : forall t compress_on cache a b,
  NoDup (vleaves t) -> cache_sound t cache -> under t 0 a -> under t 0 b ->
  exists r, or_m t compress_on cache (S (vheight t)) a b = Ok r /\ under t 0 r /\
            forall s, sden r s = sden a s || sden b s.
Proof. intros t cm cache a b ND CS. apply (or_ok_u t ND cm cache CS (S (vheight t)) (Nat.lt_succ_diag_r _)). Qed.
Print Assumptions C03_sdd_or_correct.

(* conditioning f | v = b *)
Theorem C03_sdd_condition_correct : forall t compress_on cache f v b,
  NoDup (vleaves t) -> cache_sound t cache -> under t 0 f ->
  exists r, condition_m t compress_on cache (S (vheight t)) f v b = Ok r /\ under t 0 r /\
            forall s, sden r s = sden f (upd s v b).
Proof. intros t cm cache f v b ND CS. apply (condition_ok_u t ND cm cache CS (S (vheight t)) (Nat.lt_succ_diag_r _)). Qed.
Print Assumptions C03_sdd_condition_correct.

(* the model's pending-negation flag is the code's recursion on sub.neg() *)
Theorem C03_cond_flip : forall t cm cache fuel lbl value flip f,
  cond_m t cm cache fuel lbl value flip f = cond_m t cm cache fuel lbl value false (if flip then sneg f else f).
Proof. exact cond_m_flip. Qed.
Print Assumptions C03_cond_flip.

(* Ite::new over SDD pointers: for EVERY relation passed as the order closure *)
Theorem C03_ite_std_sound : forall order f g h a,
  sden_ite (s_ite_new order f g h) a = if sden f a then sden g a else sden h a.
Proof. exact s_ite_std_sound. Qed.
Print Assumptions C03_ite_std_sound.

(* VTreeManager::is_prime panics on constant pointers; Ite::new never consults the order closure on
   one: two closures that agree on non-constant pointers give the same standard triple, so the
   total closure of the model stands for the partial one of the code *)
Theorem C03_ite_order_never_on_constants : forall (o1 o2 : sdd -> sdd -> bool) f g h,
  (forall a b, s_is_const a = false -> s_is_const b = false -> o1 a b = o2 a b) ->
  s_ite_new o1 f g h = s_ite_new o2 f g h.
Proof. exact s_ite_new_order_irrelevant_on_consts. Qed.
Print Assumptions C03_ite_order_never_on_constants.

(* ite behind the standard-triple cache (and with it iff = ite f g !g, xor = ite f !g g) *)
Theorem C03_sdd_ite_correct : forall t compress_on cache ic f g h,
  NoDup (vleaves t) -> cache_sound t cache -> ic_sound (under t 0) ic -> under t 0 f -> under t 0 g -> under t 0 h ->
  exists r ic', ite_m t compress_on cache (S (vheight t)) ic f g h = Ok (r, ic') /\ ic_sound (under t 0) ic' /\ under t 0 r /\
            forall s, sden r s = if sden f s then sden g s else sden h s.
Proof. intros t cm cache ic f g h ND CS. apply (ite_ok_u t ND cm cache CS (S (vheight t)) (Nat.lt_succ_diag_r _)). Qed.
Print Assumptions C03_sdd_ite_correct.

Theorem C03_sdd_exists_correct : forall t compress_on cache f v,
  NoDup (vleaves t) -> cache_sound t cache -> under t 0 f ->
  exists r, exists_m t compress_on cache (S (vheight t)) f v = Ok r /\ under t 0 r /\
            forall s, sden r s = sden f (upd s v true) || sden f (upd s v false).
Proof. intros t cm cache f v ND CS. apply (exists_ok_u t ND cm cache CS (S (vheight t)) (Nat.lt_succ_diag_r _)). Qed.
Print Assumptions C03_sdd_exists_correct.

(* compose as documented in builder/mod.rs: exists v. (v <=> g) /\ f *)
Theorem C03_sdd_compose_correct : forall t compress_on cache ic f v g,
  NoDup (vleaves t) -> cache_sound t cache -> ic_sound (under t 0) ic -> In v (vleaves t) -> under t 0 f -> under t 0 g ->
  exists r ic', compose_m t compress_on cache (S (vheight t)) ic f v g = Ok (r, ic') /\ ic_sound (under t 0) ic' /\ under t 0 r /\
    forall s, sden r s =
      (Bool.eqb (upd s v true v) (sden g (upd s v true)) && sden f (upd s v true)) ||
      (Bool.eqb (upd s v false v) (sden g (upd s v false)) && sden f (upd s v false)).
Proof. intros t cm cache ic f v g ND CS. apply (compose_ok_u t ND cm cache CS (S (vheight t)) (Nat.lt_succ_diag_r _)). Qed.
Print Assumptions C03_sdd_compose_correct.

(* compile_cnf (C05 link).  The clause order after the code's sort_by is not determined (non-total
   comparator): the theorem holds for EVERY permutation [sorted] of the clauses.  Covers the empty
   formula (true), an empty clause (false), unit clauses, repeated and complementary literals:
   there is no hypothesis on the clauses beyond "literals name leaves of the vtree". *)
Theorem C03_sdd_compile_cnf_correct : forall t compress_on cache (f sorted : Compile.cnf),
  NoDup (vleaves t) -> cache_sound t cache -> Permutation sorted f ->
  Forall (Forall (fun l : Compile.literal => In (fst l) (vleaves t))) f ->
  exists r, compile_cnf_m t compress_on cache (S (vheight t)) f sorted = Ok r /\ under t 0 r /\
            forall a, sden r a = Compile.cnf_eval f a.
Proof. intros t cm cache f sorted ND CS. apply (compile_cnf_ok_u t ND cm cache CS (S (vheight t)) (Nat.lt_succ_diag_r _)). Qed.
Print Assumptions C03_sdd_compile_cnf_correct.

(* operation programs: every pool entry of the model run -- looked at after the LAST operation --
   satisfies the invariant and denotes the value of the corresponding specification program *)
Theorem C03_sdd_ops_correct : forall t compress_on cache ops,
  NoDup (vleaves t) -> cache_sound t cache -> Forall (op_wf t) ops ->
  exists pool ic, run_m t compress_on cache (S (vheight t)) ([], []) ops = Ok (pool, ic) /\
    Forall2 (denotes (under t 0)) pool (spec_run [] ops).
Proof.
  intros t cm cache ops ND CS Hw.
  destruct (run_ok_u t ND cm cache CS (S (vheight t)) (Nat.lt_succ_diag_r _) ops [] [] [])
    as (pool & ic & E & Hp & _); try constructor; auto.
  exists pool, ic. split; auto.
Qed.
Print Assumptions C03_sdd_ops_correct.

(* exactly the function the correspondence driver calls *)
Theorem C03_run_prog_correct : forall t compress_on ops,
  NoDup (vleaves t) -> Forall (op_wf t) ops ->
  exists pool, run_prog t compress_on ops = Ok pool /\ Forall2 (denotes (under t 0)) pool (spec_run [] ops).
Proof.
  intros t cm ops ND Hw. unfold run_prog.
  destruct (C03_sdd_ops_correct t cm no_cache ops ND (C03_no_cache_sound t) Hw) as (pool & ic & E & H).
  exists pool. rewrite E. split; auto.
Qed.
Print Assumptions C03_run_prog_correct.

(* non-vacuity: a balanced vtree over four variables, a program that reaches general decision
   nodes, complemented nodes, every apply case, conditioning and compose; the hypotheses hold and
   the model run is the stated pool *)
Example C03_nonvacuous :
  let t := VNode (VNode (VLeaf 2%N) (VLeaf 0%N)) (VNode (VLeaf 3%N) (VLeaf 1%N)) in
  let ops := [OVar 0%N true; OVar 3%N false; OVar 2%N true; OVar 1%N true; OOr 0 1; OAnd 4 2; OXor 5 3;
              OIte 4 5 6; OCond 7 3%N true; OCompose 6 1%N 4] in
  NoDup (vleaves t) /\ Forall (op_wf t) ops /\
  exists pool, run_prog t true ops = Ok pool /\ length pool = 10 /\
    (exists els, nth 6 pool SF = SOr true 3 els /\ length els = 3) /\
    (exists els, nth 7 pool SF = SOr false 3 els /\ length els = 4).
Proof.
  cbv zeta. split; [simpl; repeat (apply NoDup_cons; [simpl; intuition discriminate|]); apply NoDup_nil|].
  split; [repeat (apply Forall_cons; [simpl; auto 10|]); apply Forall_nil|].
  eexists. split; [vm_compute; reflexivity|]. split; [reflexivity|].
  split; eexists; (split; [reflexivity|reflexivity]).
Qed.
