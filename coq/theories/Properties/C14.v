(* C14 — orders, dtrees and vtrees derived from a formula are well formed.  Property theorems
   only: each is closed by [exact] (or a short intros/apply), and followed by [Print Assumptions].
   Models: Model/VarOrder.v, Model/VTree.v, Model/DTree.v ([None] = the code panics / diverges). *)
From Coq Require Import Bool List Lia Arith Permutation.
Import ListNotations.
From RsddV Require Import Model.VarOrder Model.VTree Model.DTree
  Proofs.VarOrder Proofs.VTreeBase Proofs.VTreeTrav Proofs.VTree Proofs.DTree Proofs.Orders.

(* ================= VarOrder ================= *)

(* VarOrder::new on a permutation of 0..n-1 succeeds and yields mutually inverse maps *)
Theorem C14_order_new_wf : forall o n, Permutation o (seq 0 n) ->
  exists r, order_new o = Some r /\ wf_order r /\ pos_to_var r = o /\ num_vars r = n.
Proof. exact order_new_wf. Qed.
Check C14_order_new_wf : forall o n, Permutation o (seq 0 n) ->
  exists r, order_new o = Some r /\ wf_order r /\ pos_to_var r = o /\ num_vars r = n.
Print Assumptions C14_order_new_wf.

(* the guard is real: a label >= len makes VarOrder::new panic *)
Theorem C14_order_new_panics : forall o x, In x o -> length o <= x -> order_new o = None.
Proof. exact order_new_panics. Qed.
Print Assumptions C14_order_new_panics.

Theorem C14_linear_wf : forall n, exists r, linear_order n = Some r /\ wf_order r /\ num_vars r = n /\
  (forall v, v < n -> get r v = Some v /\ var_at_level r v = Some v).
Proof. exact linear_wf. Qed.
Print Assumptions C14_linear_wf.

(* run-time extension keeps well-formedness, every old position and level; new label is last *)
Theorem C14_new_last_wf : forall r, wf_order r ->
  let n := num_vars r in
  let r' := fst (new_last r) in
  wf_order r' /\ snd (new_last r) = n /\ num_vars r' = S n /\
  (forall v, v < n -> get r' v = get r v /\ var_at_level r' v = var_at_level r v) /\
  get r' n = Some n /\ var_at_level r' n = Some n.
Proof. exact new_last_wf. Qed.
Print Assumptions C14_new_last_wf.

(* lt is the strict order of positions, total on the labels of a well-formed order *)
Theorem C14_lt_total : forall r a b, wf_order r -> a < num_vars r -> b < num_vars r ->
  exists pa pb, get r a = Some pa /\ get r b = Some pb /\ lt r a b = Some (pa <? pb) /\
                (pa = pb <-> a = b).
Proof. exact lt_total. Qed.
Print Assumptions C14_lt_total.

(* first_essential returns the variable of one of its arguments, minimal in position *)
Theorem C14_first_essential_min : forall (T : Type) (var : T -> option nat) r a b c v,
  first_essential var r a b c = Some v ->
  (var a = Some v \/ var b = Some v \/ var c = Some v) /\
  forall pv, get r v = Some pv ->
    forall x w pw, In x [a; b; c] -> var x = Some w -> get r w = Some pw -> pv <= pw.
Proof. intros T. exact (@first_essential_min T). Qed.
Print Assumptions C14_first_essential_min.

(* ================= heuristic orders ================= *)

(* min-fill: a permutation of 0..n-1 for EVERY way of choosing the node to eliminate *)
Theorem C14_minfill_perm : forall pick cls, valid_pick pick ->
  let n := cnf_num_vars cls in
  exists ord r, min_fill_elim pick cls = Some ord /\ Permutation ord (seq 0 n) /\
                min_fill_order pick cls = Some r /\ wf_order r /\ pos_to_var r = ord /\ num_vars r = n.
Proof. exact minfill_perm. Qed.
Print Assumptions C14_minfill_perm.

(* ... in particular for the code's choice (first node of minimal fill-in, swap-remove order) *)
Theorem C14_pick_minfill_valid : valid_pick pick_minfill.
Proof. exact pick_minfill_valid. Qed.
Print Assumptions C14_pick_minfill_valid.

(* FORCE: for every key type, comparison, key oracle (the f64 centres of gravity) and iteration
   count, on a non-empty clause list without an empty clause next to variables, the result is a
   well-formed order; it is VarOrder::new of the computed label->position map, i.e. the inverse
   of the placement the heuristic computed *)
Theorem C14_force_perm : forall (K : Type) (leb : K -> K -> bool) (key : nat -> list nat -> nat -> K) cls extra,
  force_guard cls ->
  let n := cnf_num_vars cls in
  exists placement r, force_placement K leb key cls extra = Some placement /\
    Permutation placement (seq 0 n) /\
    force_order K leb key cls extra = Some r /\ wf_order r /\ num_vars r = n /\
    pos_to_var r = placement /\
    (forall v, v < n -> get r (nth v placement 0) = Some v).
Proof. exact force_perm. Qed.
Print Assumptions C14_force_perm.

(* guard: the loop of force_order never ends on the empty clause list (NaN < 1.0 is false) *)
Theorem C14_force_empty_diverges : forall K leb key extra, force_order K leb key [] extra = None.
Proof. exact force_empty_diverges. Qed.
Print Assumptions C14_force_empty_diverges.

(* ================= dtrees ================= *)

(* guard: DTree::from_cnf panics on the empty clause list, for every elimination order *)
Theorem C14_from_cnf_empty_panics : forall elim, from_cnf [] elim = None.
Proof. exact from_cnf_empty_panics. Qed.
Print Assumptions C14_from_cnf_empty_panics.

(* the leaves are exactly the CNF's clauses (as a multiset), for any elimination order *)
Theorem C14_dtree_leaves : forall cls elim, cls <> [] ->
  exists d, from_cnf cls elim = Some d /\ Permutation (leaves d) cls.
Proof. exact dtree_leaves. Qed.
Print Assumptions C14_dtree_leaves.

(* vars(n) = vars(l) U vars(r) at every node, a leaf's vars are its clause's variables, and the
   root's set is the set of variables occurring in the CNF (code as repaired by cec595a) *)
Theorem C14_dtree_vars : forall cls elim d, from_cnf cls elim = Some d ->
  vars_ok d /\ forall x, In x (get_vars d) <-> exists cl, In cl cls /\ In x (clause_vars cl).
Proof. exact dtree_vars. Qed.
Print Assumptions C14_dtree_vars.

(* the pinned code (no init_vars on the tree joining the independent subtrees) violates it *)
Theorem C14_dtree_vars_refuted_pinned :
  exists cls elim d, from_cnf_gen true cls elim = Some d /\ ~ vars_ok d.
Proof. exact dtree_vars_refuted_pinned. Qed.
Print Assumptions C14_dtree_vars_refuted_pinned.

(* cutset(n) = (vars(l) /\ vars(r)) \ ancestors' cutsets, for leaves vars \ ancestors' cutsets,
   with the variable sets recomputed from the clauses below each node *)
Theorem C14_dtree_cutset : forall cls elim d, from_cnf cls elim = Some d ->
  cut_ok (fun _ => False) d /\ cuts_nodup d.
Proof. exact dtree_cutset. Qed.
Print Assumptions C14_dtree_cutset.

(* the vtree of the dtree has every variable occurring in a clause as exactly one leaf; variables
   that occur in no clause (unused indices) are not in the vtree; None iff no variable occurs *)
Theorem C14_vtree_of_dtree_leaves : forall cls elim d, from_cnf cls elim = Some d ->
  match from_dtree d with
  | Some vt => NoDup (flatten vt) /\
               forall x, In x (flatten vt) <-> exists cl, In cl cls /\ In x (clause_vars cl)
  | None => forall cl, In cl cls -> clause_vars cl = []
  end.
Proof. exact vtree_of_dtree_leaves. Qed.
Print Assumptions C14_vtree_of_dtree_leaves.

(* ================= VTreeManager ================= *)

(* VTreeManager::new succeeds exactly on trees without a repeated label *)
Theorem C14_manager_new_total : forall t, NoDup (flatten t) <-> exists m, manager_new t = Some m.
Proof. exact manager_new_total. Qed.
Print Assumptions C14_manager_new_total.

(* indices are the in-order numbering [idx] (left subtree, node, right subtree): the subtree table
   and the label table agree with it *)
Theorem C14_vtree_index_inorder : forall t m, manager_new t = Some m ->
  length (m_index_lookup m) = size t /\
  (forall p s, subtree t p = Some s -> mgr_vtree m (idx t p) = Some s) /\
  (forall p v, subtree t p = Some (VLeaf v) -> var_index m v = Some (idx t p)).
Proof. exact vtree_index_inorder. Qed.
Print Assumptions C14_vtree_index_inorder.

(* Euler tour + range minimum over breadth-first indices = least common ancestor (the node at
   the longest common prefix of the two paths); segment_tree::query = min of the half-open slice *)
Theorem C14_lca_correct : forall t m p q, manager_new t = Some m -> valid t p -> valid t q ->
  mgr_lca m (idx t p) (idx t q) = Some (idx t (lcp p q)).
Proof. exact lca_correct. Qed.
Print Assumptions C14_lca_correct.

(* is_prime_index i j  <=>  with a = lca: i is a or below a's left child, j is a or below a's
   right child, and i <> j *)
Theorem C14_is_prime_iff : forall t p q, valid t p -> valid t q ->
  (is_prime_index (idx t p) (idx t q) = true <-> prime_rel p q).
Proof. exact is_prime_iff. Qed.
Print Assumptions C14_is_prime_iff.

(* num_vars (as repaired by f828b19) is the number of leaves = the number of variables *)
Theorem C14_num_vars_count : forall t m, manager_new t = Some m ->
  mgr_num_vars m = length (flatten t) /\
  forall n, Permutation (flatten t) (seq 0 n) -> mgr_num_vars m = n.
Proof. exact num_vars_count. Qed.
Print Assumptions C14_num_vars_count.

(* the constructors keep the given order of the labels *)
Theorem C14_constructors_flatten : forall o t,
  (right_linear o = Some t -> flatten t = o) /\ (left_linear o = Some t -> flatten t = o) /\
  (forall k, even_split o k = Some t -> flatten t = o) /\
  (forall choose fuel, rand_split choose fuel o = Some t -> flatten t = o).
Proof.
  intros o t. repeat split.
  - apply right_linear_flatten.
  - apply left_linear_flatten.
  - intros k. apply even_split_flatten.
  - intros choose fuel. apply rand_split_flatten.
Qed.
Print Assumptions C14_constructors_flatten.

(* ================= non-vacuity ================= *)
(* (x0 v -x1) & (x1 v x2) & (x2 v x3) & (x5): two components, index 4 unused; min-fill order by
   the code's choice; dtree; vtree; manager; an lca and a prime test *)
Example C14_nonvacuous :
  let cls := [[(0, true); (1, false)]; [(1, true); (2, true)]; [(2, true); (3, true)]; [(5, true)]] in
  match min_fill_order pick_minfill cls with
  | Some r =>
    match from_cnf cls (pos_to_var r) with
    | Some d =>
      match from_dtree d with
      | Some vt =>
        match manager_new vt, subtree vt [false], subtree vt [true; true] with
        | Some m, Some _, Some _ =>
          (length (leaves d) =? 4) && (if list_eq_dec Nat.eq_dec (flatten vt) [5; 1; 0; 2; 3] then true else false)
          && (mgr_num_vars m =? 5)
          && match mgr_lca m (idx vt [false]) (idx vt [true; true]) with
             | Some a => a =? idx vt [] | None => false end
          && is_prime_index (idx vt [false]) (idx vt [true; true])
        | _, _, _ => false
        end
      | None => false
      end
    | None => false
    end
  | None => false
  end = true.
Proof. vm_compute. reflexivity. Qed.

(* a well-formed order to extend (hypothesis of C14_new_last_wf), and FORCE's guard *)
Example C14_nonvacuous_order :
  (exists r, order_new [2; 0; 1] = Some r /\ wf_order r) /\
  force_guard [[(0, true); (1, false)]; [(1, true)]].
Proof.
  split.
  - destruct (C14_order_new_wf [2; 0; 1] 3) as (r & E & W & _).
    + apply (Permutation_cons_append [0; 1] 2).
    + exists r. split; assumption.
  - split; [discriminate|]. right. intros cl [<-|[<-|[]]]; discriminate.
Qed.
