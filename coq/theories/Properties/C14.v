(* C14 — orders, dtrees and vtrees derived from a formula are well formed.  Property theorems
   only: each is closed by [exact], and followed by [Print Assumptions]. *)
From Coq Require Import Bool List Lia Arith Permutation.
Import ListNotations.
From RsddV Require Import Model.VarOrder Model.VTree Model.DTree
  Proofs.VarOrder Proofs.VTreeBase Proofs.VTreeTrav Proofs.VTree.

(* ---------- VarOrder ---------- *)
Theorem C14_order_new_wf : forall o n, Permutation o (seq 0 n) ->
  exists r, order_new o = Some r /\ wf_order r /\ pos_to_var r = o /\ num_vars r = n.
Proof. exact order_new_wf. Qed.
Print Assumptions C14_order_new_wf.
