(* C11 — semantic hashing is denotational; hash-identified builders stay correct.
   Property theorems only.  Model: Model/SemHash.v; proofs: Proofs/SemHash.v.

   Reading guide.
   * [hash_m m P w p : option N] is DDNNFPtr::semantic_hash on the BddPtr whose unfolding is [p],
     in FiniteField<P> with the arithmetic exactly as coded (Model/Semirings.v; [m] = build mode
     with or without overflow checks; [None] = the Rust code panics) and the weight map [w]
     (entry v = (low, high) of variable v).  The weights are inputs: create_semantic_hash_map
     draws them from ChaCha8, the harness reads the real ones; [weights_ok P w] is the model's
     check of what that function establishes (2 <= high < P, low = (P - high + 1) mod P).
   * [zhash P w p] is the C07 fold in plain integer arithmetic modulo P, [fhash P w vars f x] the
     defining sum  sum_{a in {0,1}^vars} [f a] * prod_v w_v(a v)  mod P.
   * [free_bdd p]: no path tests a variable twice -- ordered BDDs under ANY order
     (C07_ordered_is_free), decision-DNNF results, smoothed diagrams.  [vars_in p w]: every
     variable tested has an entry in the map (var_weight panics otherwise).
   * P is never assumed prime (U32_TINY = 101 * 9901 is not): ring laws only (C13).
   * SDD pointers (second half of this file, theorems C11_sdd_...): both hashes of an SddPtr are modelled
     (Model/SddSemHash.v) -- [sdd_hash_m] = DDNNFPtr::semantic_hash = the C07S fold in
     FiniteField<P>, [sdd_cached_hash] = SddPtr::cached_semantic_hash with the per-node caches --
     and proved equal to the defining sum for every SDD satisfying the builder invariant
     [under t 0 p] (C03: every result of the compressing / non-compressing SDD builder).
   * The unconditional sentence of the property ("over the 64-bit field the returned diagrams
     denote the correct function") is NOT a theorem and cannot be one (2^(2^n) functions, fewer
     than 2^64 hash values): it is decided by exploration in the harness.  What is proved is
     the conditional [C11_semantic_correct_if_injective]. *)
From Coq Require Import Bool NArith List Lia.
Import ListNotations.
From RsddV Require Import Base.Bdd Model.Wmc Proofs.BddCanon Proofs.Wmc Proofs.Smooth Model.Semirings Proofs.Semirings
  Model.SemHash Proofs.SemHashSdd Proofs.SemHash Generated.Constants.

Local Open Scope N_scope.

(* ------------------------------------------------------------------------------------- *)
(* the weights: l = FiniteField::new(P - h + 1) and h add up to one, for every exported prime,
   both build modes, without overflow or panic *)
Theorem C11_weights_sum_one : forall (m : mode) (P h : N), In P exported_primes -> 2 <= h -> h < P ->
  exists l, bind (u_sub m P h) (fun t => bind (u_add m t 1) (fun s => ff_new P s)) = Some l /\
            l = P - h + 1 /\ 2 <= l /\ l < P /\ ff_add m P l h = Some 1.
Proof. intros m P h HP H2 Hh. apply (weights_sum_one_gen m P h (exported_primes_ok P HP) H2 Hh). Qed.
Print Assumptions C11_weights_sum_one.

(* what the model's check of the supplied weights guarantees *)
Theorem C11_weights_ok_sound : forall (P : N) (w : wmap), In P exported_primes -> weights_ok P w = true ->
  forall lh, In lh w -> fst lh < P /\ snd lh < P /\ (fst lh + snd lh) mod P = 1.
Proof. intros P w HP HW. exact (proj2 (exported_ok_range P w HP HW)). Qed.
Print Assumptions C11_weights_ok_sound.

(* ------------------------------------------------------------------------------------- *)
(* hash_is_wmc: the hash as coded never panics and is the C07 fold in Z/P -- EVERY diagram *)
Theorem C11_hash_is_wmc : forall (m : mode) (P : N) (w : wmap) (p : bdd),
  In P exported_primes -> weights_ok P w = true -> vars_in p w ->
  hash_m m P w p = Some (zhash P w p) /\ zhash P w p < P.
Proof.
  intros m P w p HP HW V. destruct (exported_ok_range P w HP HW) as [OK WR].
  split; [apply (hash_c_exact m P OK w WR p V) | apply (zhash_c_lt P OK w WR)].
Qed.
Print Assumptions C11_hash_is_wmc.

(* ... and for free diagrams it is the defining sum over the models of the denoted function *)
Theorem C11_hash_is_sum : forall (m : mode) (P : N) (w : wmap) (p : bdd) (vars : list var) (x : asg),
  In P exported_primes -> weights_ok P w = true -> vars_in p w ->
  free_bdd p -> NoDup vars -> incl (support p) vars ->
  hash_m m P w p = Some (fhash P w vars (den p) x) /\ fhash P w vars (den p) x < P.
Proof.
  intros m P w p vars x HP HW V F ND I. destruct (exported_ok_range P w HP HW) as [OK WR].
  apply hash_is_sum_m; assumption.
Qed.
Print Assumptions C11_hash_is_sum.

(* ------------------------------------------------------------------------------------- *)
(* MAIN: hash_denotational.  Two free diagrams -- BDDs under any orders, complement edges,
   sharing, decision-DNNF results -- that denote the same function hash equally, in every
   exported field, both build modes. *)
Theorem C11_main : forall (m : mode) (P : N) (w : wmap) (p q : bdd),
  In P exported_primes -> weights_ok P w = true ->
  free_bdd p -> free_bdd q -> vars_in p w -> vars_in q w ->
  (forall a, den p a = den q a) ->
  hash_m m P w p = hash_m m P w q.
Proof.
  intros m P w p q HP HW Fp Fq Vp Vq E. destruct (exported_ok_range P w HP HW) as [OK WR].
  apply (hash_denotational m P OK w WR); assumption.
Qed.
Check C11_main : forall (m : mode) (P : N) (w : wmap) (p q : bdd),
  In P exported_primes -> weights_ok P w = true ->
  free_bdd p -> free_bdd q -> vars_in p w -> vars_in q w ->
  (forall a, den p a = den q a) ->
  hash_m m P w p = hash_m m P w q.
Print Assumptions C11_main.

(* the same spelled out for ordered BDDs under two arbitrary, different orders *)
Theorem C11_hash_order_independent : forall (m : mode) (P : N) (w : wmap)
  (level1 level2 : var -> nat) (k1 k2 : nat) (p q : bdd),
  In P exported_primes -> weights_ok P w = true ->
  wfb level1 k1 p -> wfb level2 k2 q -> vars_in p w -> vars_in q w ->
  (forall a, den p a = den q a) ->
  hash_m m P w p = hash_m m P w q.
Proof.
  intros m P w l1 l2 k1 k2 p q HP HW W1 W2 Vp Vq E. destruct (exported_ok_range P w HP HW) as [OK WR].
  apply (hash_denotational m P OK w WR); try assumption; eapply wfb_free; eassumption.
Qed.
Print Assumptions C11_hash_order_independent.

(* ------------------------------------------------------------------------------------- *)
(* hash_neg: hash (neg p) = negate (hash p) = 1 - hash p  (mod P) -- EVERY diagram *)
Theorem C11_hash_neg : forall (m : mode) (P : N) (w : wmap) (p : bdd),
  In P exported_primes -> weights_ok P w = true -> vars_in p w ->
  hash_m m P w (neg p) = hneg m P (hash_m m P w p) /\
  hash_m m P w (neg p) = Some ((1 + P - zhash P w p) mod P).
Proof.
  intros m P w p HP HW V. destruct (exported_ok_range P w HP HW) as [OK WR].
  apply (hash_neg m P OK w WR p V).
Qed.
Print Assumptions C11_hash_neg.

(* ------------------------------------------------------------------------------------- *)
(* cached_hash_eq: for a FIXED P and map, from any cache state that is sound for that P and map
   (every stored value is the hash of its node), a cached hash equals the recomputed one, the
   cache stays sound and loses nothing -- any diagram, any sharing, regular or complemented *)
Definition cache_sound_for (P : N) (w : wmap) (s : hcache) : Prop :=
  forall v lo hi h, hc_get (BN false v lo hi) s = Some h -> h = zhash P w (BN false v lo hi).

Theorem C11_cached_hash_eq : forall (m : mode) (P : N) (w : wmap) (p : bdd) (s : hcache),
  In P exported_primes -> weights_ok P w = true -> vars_in p w -> cache_sound_for P w s ->
  exists r s', cached_hash m P w p s = Some (r, s') /\ hash_m m P w p = Some r /\
               cache_sound_for P w s' /\ (forall k h, hc_get k s = Some h -> hc_get k s' = Some h).
Proof.
  intros m P w p s HP HW V CS. destruct (exported_ok_range P w HP HW) as [OK WR].
  destruct (cached_hash_eq m P OK w WR p V s CS) as (s' & E & CS' & L).
  exists (zhash P w p), s'. split; [exact E|]. split; [apply (hash_c_exact m P OK w WR p V)|]. split; assumption.
Qed.
Print Assumptions C11_cached_hash_eq.

(* any sequence of cached queries on diagrams sharing nodes, starting from fresh nodes *)
Theorem C11_cached_hashes_eq : forall (m : mode) (P : N) (w : wmap) (ps : list bdd),
  In P exported_primes -> weights_ok P w = true -> (forall p, In p ps -> vars_in p w) ->
  exists s', cached_hashes m P w ps [] = Some (map (zhash P w) ps, s') /\
             (forall p, In p ps -> hash_m m P w p = Some (zhash P w p)).
Proof.
  intros m P w ps HP HW V. destruct (exported_ok_range P w HP HW) as [OK WR].
  destruct (cached_hashes_eq m P OK w WR ps V [] (cache_sound_nil P w)) as (s' & E & _ & _).
  exists s'. split; [exact E|]. intros p Hp. apply (hash_c_exact m P OK w WR p (V p Hp)).
Qed.
Print Assumptions C11_cached_hashes_eq.

(* outside the property's "for a fixed field and weight map": the node cache stores a bare u128;
   asked again with another field or another map it answers the stale value (5 instead of 7) *)
Theorem C11_cache_reused_with_other_field_is_stale :
  let p := BN false 0 BF BT in
  let w1 := [(prime_U32_TINY - 4, 5)] in let w2 := [(prime_U32_SMALL - 6, 7)] in
  weights_ok prime_U32_TINY w1 = true /\ weights_ok prime_U32_SMALL w2 = true /\
  exists s, cached_hash Checked prime_U32_TINY w1 p [] = Some (5, s) /\
            cached_hash Checked prime_U32_SMALL w2 p s = Some (5, s) /\
            hash_m Checked prime_U32_SMALL w2 p = Some 7.
Proof. exact cache_reused_with_other_field. Qed.
Print Assumptions C11_cache_reused_with_other_field_is_stale.

Theorem C11_cache_reused_with_other_map_is_stale :
  let p := BN false 0 BF BT in
  let w1 := [(prime_U32_TINY - 4, 5)] in let w2 := [(prime_U32_TINY - 6, 7)] in
  weights_ok prime_U32_TINY w1 = true /\ weights_ok prime_U32_TINY w2 = true /\
  exists s, cached_hash Checked prime_U32_TINY w1 p [] = Some (5, s) /\
            cached_hash Checked prime_U32_TINY w2 p s = Some (5, s) /\
            hash_m Checked prime_U32_TINY w2 p = Some 7.
Proof. exact cache_reused_with_other_map. Qed.
Print Assumptions C11_cache_reused_with_other_map_is_stale.

(* ------------------------------------------------------------------------------------- *)
(* semantic_never_splits: a builder that identifies nodes by hash (sdd_eq) or by hash-or-negated-
   hash (check_cached_hash_and_neg) never judges two diagrams of equal functions different, and
   finds a function's negation under the negated hash *)
Theorem C11_semantic_never_splits : forall (m : mode) (P : N) (w : wmap) (p q : bdd),
  In P exported_primes -> weights_ok P w = true ->
  free_bdd p -> free_bdd q -> vars_in p w -> vars_in q w ->
  (feq (den p) (den q) -> hash_m m P w p = hash_m m P w q) /\
  (feq (den p) (fnot (den q)) -> hash_m m P w p = hneg m P (hash_m m P w q)) /\
  (feq (den p) (den q) \/ feq (den p) (fnot (den q)) ->
   hash_match m P (hash_m m P w p) (hash_m m P w q) = true).
Proof.
  intros m P w p q HP HW Fp Fq Vp Vq. destruct (exported_ok_range P w HP HW) as [OK WR].
  apply (semantic_never_splits m P OK w WR); assumption.
Qed.
Print Assumptions C11_semantic_never_splits.

(* semantic_correct_if_injective (CONDITIONAL): on any negation-closed set D of diagrams on which
   the hash is injective, "same hash" decides "same function", "hash = negate(hash)" decides
   "negated function", and the builders' lookup test decides "same or negated function" *)
Theorem C11_semantic_correct_if_injective : forall (m : mode) (P : N) (w : wmap) (D : bdd -> Prop),
  In P exported_primes -> weights_ok P w = true ->
  (forall p, D p -> free_bdd p /\ vars_in p w) ->
  (forall p, D p -> D (neg p)) ->
  (forall p q, D p -> D q -> hash_m m P w p = hash_m m P w q -> feq (den p) (den q)) ->
  forall p q, D p -> D q ->
  (hash_m m P w p = hash_m m P w q <-> feq (den p) (den q)) /\
  (hash_m m P w p = hneg m P (hash_m m P w q) <-> feq (den p) (fnot (den q))) /\
  (hash_match m P (hash_m m P w p) (hash_m m P w q) = true <->
   (feq (den p) (den q) \/ feq (den p) (fnot (den q)))).
Proof.
  intros m P w D HP HW. destruct (exported_ok_range P w HP HW) as [OK WR].
  apply (semantic_correct_if_injective m P OK w WR).
Qed.
Print Assumptions C11_semantic_correct_if_injective.

(* the same on functions, for the defining sum over a fixed variable list (representation-free) *)
Theorem C11_semantic_correct_if_injective_fn : forall (m : mode) (P : N) (w : wmap) (vars : list var) (x : asg)
  (F : (asg -> bool) -> Prop),
  In P exported_primes -> weights_ok P w = true ->
  (forall f, F f -> F (fnot f)) ->
  (forall f g, F f -> F g -> fhash P w vars f x = fhash P w vars g x -> feq f g) ->
  forall f g, F f -> F g ->
  (fhash P w vars f x = fhash P w vars g x <-> feq f g) /\
  (fhash P w vars f x = (1 + P - fhash P w vars g x) mod P <-> feq f (fnot g)) /\
  (hash_match m P (Some (fhash P w vars f x)) (Some (fhash P w vars g x)) = true <-> (feq f g \/ feq f (fnot g))).
Proof.
  intros m P w vars x F HP HW. destruct (exported_ok_range P w HP HW) as [OK WR].
  apply (semantic_correct_if_injective_fn m P OK w WR).
Qed.
Print Assumptions C11_semantic_correct_if_injective_fn.

(* why SDD decision nodes hash to the defining sum too (function level; the statements about
   SddPtr itself are the C11_sdd_... theorems at the end of this file): for pairwise exclusive primes, and primes / subs
   on disjoint variables, the defining sum of  \/_i prime_i /\ sub_i  is
   sum_i H(prime_i) * H(sub_i)  -- what SddOr::semantic_hash and SddAnd::semantic_hash compute *)
Theorem C11_sdd_node_hash_fn : forall (P : N) (w : wmap) (vars : list var)
  (els : list ((asg -> bool) * (asg -> bool))) (x : asg),
  In P exported_primes -> weights_ok P w = true -> NoDup vars -> excl_primes els ->
  (forall p s, In (p, s) els -> ext_fun p /\ ext_fun s /\ forall v, In v vars -> ignores p v \/ ignores s v) ->
  fhash P w vars (den_pairs els) x = zsum_pairs P w vars els x.
Proof.
  intros P w vars els x HP HW. destruct (exported_ok_range P w HP HW) as [OK WR].
  apply (fhash_sdd_node P OK w WR).
Qed.
Print Assumptions C11_sdd_node_hash_fn.

(* the hypothesis of the conditional theorem is not vacuous-by-default: injectivity FAILS for
   admissible weights in an exported field (zero divisors of Z/1000001: x0 /\ x1 hashes like
   False), so the unconditional builder-correctness claim is not a theorem of this model *)
Definition C11_hash_injective_statement : Prop :=
  forall (m : mode) (P : N) (w : wmap) (p q : bdd), In P exported_primes -> weights_ok P w = true ->
  free_bdd p -> free_bdd q -> vars_in p w -> vars_in q w ->
  hash_m m P w p = hash_m m P w q -> forall a, den p a = den q a.
Theorem C11_hash_injective_refuted : ~ C11_hash_injective_statement.
Proof.
  intros H. destruct hash_not_injective_tiny as (HW & F & V & VF & E & NE).
  apply NE. apply (H Checked _ _ _ BF (or_introl eq_refl) HW F I V VF E).
Qed.
Print Assumptions C11_hash_injective_refuted.

(* ------------------------------------------------------------------------------------- *)
(* non-vacuity: x0 /\ not x1 as an ordered BDD under x0 < x1 (complemented root) and under
   x1 < x0, in the 64-bit field with admissible weights: all hypotheses of C11_main hold and the
   common hash is a non-trivial residue *)
Example C11_nonvacuous :
  let P := prime_U64_LARGEST in
  let w := [(P - 12345678901234567 + 1, 12345678901234567); (P - 98765432109876543 + 1, 98765432109876543)] in
  let p := BN true 0 BT (BN false 1 BF BT) in
  let q := BN false 1 (BN false 0 BF BT) BF in
  In P exported_primes /\ weights_ok P w = true /\ free_bdd p /\ free_bdd q /\ vars_in p w /\ vars_in q w /\
  (forall a, den p a = den q a) /\ p <> q /\
  hash_m Checked P w p = Some 12155579529353939533 /\ hash_m Checked P w q = Some 12155579529353939533.
Proof.
  cbv zeta. split; [vm_compute; tauto|]. split; [vm_compute; reflexivity|].
  split; [simpl; intuition discriminate|]. split; [simpl; intuition discriminate|].
  split; [intros v Hv; simpl in Hv; destruct Hv as [<-|[<-|[]]]; simpl; lia|].
  split; [intros v Hv; simpl in Hv; destruct Hv as [<-|[<-|[]]]; simpl; lia|].
  split; [intros a; simpl; destruct (a 0), (a 1); reflexivity|].
  split; [discriminate|]. split; vm_compute; reflexivity.
Qed.

(* ===================================================================================== *)
(* SDD POINTERS.  Model: Model/SddSemHash.v; proofs: Proofs/SddSemHash.v, derived from C07S
   (C07S_sdd_wmc_correct instantiated in the ring Z/P as a type).
   * [sdd_hash_m m P w p : option N] is DDNNFPtr::semantic_hash on the SddPtr whose unfolding is
     [p] -- literally unsmoothed_wmc in FiniteField<P>, i.e. the fold of Model/SddWmc.v with the
     finite-field operations as coded; [szhash P w p] is that fold in integer arithmetic mod P.
   * [sdd_cached_hash m P w p s] is SddPtr::cached_semantic_hash (sdd.rs:64, binary_sdd.rs:66,
     sdd_or.rs:45/212): the dedicated recursion of the semantic SDD builder with one cache field
     per node ([s]: finite map node -> stored u128), complemented pointer = negate() of the
     regular one, an SddOr = FiniteField::new of the RAW u128 sum of the element products.
   * [under t 0 p] is the builder invariant (Proofs/SddInv.v) that C03 proves of every result of
     the SDD builder in both compression modes; [sdd_vars_in p w]: every label has an entry in
     the map; [sdd_width_ok P p]: (largest number of elements of a reachable SddOr) * P <= 2^128,
     the guard under which the raw sum cannot overflow (for U64_LARGEST: up to 2^64 elements). *)
From RsddV Require Import Model.SddVtree Model.SddOps Model.SddWmc Model.SddSemHash.
From RsddV Require Import Proofs.SddBase Proofs.SddInv Proofs.SddProg Proofs.SddWmcLink Proofs.SddScratch Proofs.SddSemHash.

(* the hash as coded never panics and is the C07S fold in Z/P -- EVERY unfolding, regular or
   complemented, whose labels are in the map (no invariant needed) *)
Theorem C11_sdd_hash_is_wmc : forall (m : mode) (P : N) (w : wmap) (p : sdd),
  In P exported_primes -> weights_ok P w = true -> sdd_vars_in p w ->
  sdd_hash_m m P w p = Some (szhash P w p) /\ szhash P w p < P.
Proof.
  intros m P w p HP HW V. destruct (exported_ok_range P w HP HW) as [OK WR].
  apply (sdd_hash_is_wmc_ok m P OK w WR p V).
Qed.
Print Assumptions C11_sdd_hash_is_wmc.

(* the exact characterisation: under the builder invariant the hash is the defining sum over the
   models of the denoted function (the same [fhash] as for BDDs) *)
Theorem C11_sdd_hash_is_sum : forall (m : mode) (P : N) (w : wmap) (t : vtree) (p : sdd) (vars : list var) (x : asg),
  In P exported_primes -> weights_ok P w = true ->
  NoDup (vleaves t) -> under t 0 p -> sdd_vars_in p w -> NoDup vars -> incl (vleaves t) vars ->
  sdd_hash_m m P w p = Some (fhash P w vars (sden p) x) /\ fhash P w vars (sden p) x < P.
Proof.
  intros m P w t p vars x HP HW ND U V NDV INC. destruct (exported_ok_range P w HP HW) as [OK WR].
  apply (sdd_hash_is_sum_ok m P OK w WR t p vars x); assumption.
Qed.
Print Assumptions C11_sdd_hash_is_sum.

(* SDD MAIN: denotationality.  Two SDD pointers satisfying the builder invariant -- under the same
   or different vtrees, compressed or not, regular or complemented, any sharing -- that denote
   the same function hash equally, in every exported field, both build modes. *)
Theorem C11_sdd_main : forall (m : mode) (P : N) (w : wmap) (t1 t2 : vtree) (p q : sdd),
  In P exported_primes -> weights_ok P w = true ->
  NoDup (vleaves t1) -> NoDup (vleaves t2) -> under t1 0 p -> under t2 0 q ->
  sdd_vars_in p w -> sdd_vars_in q w ->
  (forall a, sden p a = sden q a) ->
  sdd_hash_m m P w p = sdd_hash_m m P w q.
Proof.
  intros m P w t1 t2 p q HP HW ND1 ND2 U1 U2 V1 V2 E. destruct (exported_ok_range P w HP HW) as [OK WR].
  apply (sdd_hash_denotational_ok m P OK w WR t1 t2); assumption.
Qed.
Check C11_sdd_main : forall (m : mode) (P : N) (w : wmap) (t1 t2 : vtree) (p q : sdd),
  In P exported_primes -> weights_ok P w = true ->
  NoDup (vleaves t1) -> NoDup (vleaves t2) -> under t1 0 p -> under t2 0 q ->
  sdd_vars_in p w -> sdd_vars_in q w ->
  (forall a, sden p a = sden q a) ->
  sdd_hash_m m P w p = sdd_hash_m m P w q.
Print Assumptions C11_sdd_main.

(* across representations: an SDD and a free BDD (any order, decision-DNNF result) of one function *)
Theorem C11_sdd_bdd_hash_agree : forall (m : mode) (P : N) (w : wmap) (t : vtree) (p : sdd) (q : bdd),
  In P exported_primes -> weights_ok P w = true ->
  NoDup (vleaves t) -> under t 0 p -> free_bdd q -> sdd_vars_in p w -> vars_in q w ->
  (forall a, sden p a = den q a) ->
  sdd_hash_m m P w p = hash_m m P w q.
Proof.
  intros m P w t p q HP HW ND U F V1 V2 E. destruct (exported_ok_range P w HP HW) as [OK WR].
  apply (sdd_bdd_hash_agree_ok m P OK w WR t); assumption.
Qed.
Print Assumptions C11_sdd_bdd_hash_agree.

(* hash (neg p) = negate (hash p) = 1 - hash p.  Unlike for BDDs this needs the invariant: the fold
   counts a complemented node as the node with all subs negated, which is the complement only
   when the primes partition *)
Theorem C11_sdd_hash_neg : forall (m : mode) (P : N) (w : wmap) (t : vtree) (p : sdd),
  In P exported_primes -> weights_ok P w = true ->
  NoDup (vleaves t) -> under t 0 p -> sdd_vars_in p w ->
  sdd_hash_m m P w (sneg p) = hneg m P (sdd_hash_m m P w p) /\
  sdd_hash_m m P w (sneg p) = Some ((1 + P - szhash P w p) mod P).
Proof.
  intros m P w t p HP HW ND U V. destruct (exported_ok_range P w HP HW) as [OK WR].
  apply (sdd_hash_neg_ok m P OK w WR t p ND U V).
Qed.
Print Assumptions C11_sdd_hash_neg.

(* the dedicated recursion SddPtr::cached_semantic_hash: for a FIXED P and map, from any cache
   state that is sound for them, the cached hash of a pointer -- regular or complemented -- equals
   DDNNFPtr::semantic_hash of it, the cache stays sound and loses nothing *)
Definition sdd_cache_sound_for (P : N) (w : wmap) (s : shcache) : Prop :=
  forall k h, shc_get k s = Some h -> h = szhash P w k.

Theorem C11_sdd_cached_hash_eq : forall (m : mode) (P : N) (w : wmap) (t : vtree) (p : sdd) (s : shcache),
  In P exported_primes -> weights_ok P w = true ->
  NoDup (vleaves t) -> under t 0 p -> sdd_vars_in p w -> sdd_width_ok P p -> sdd_cache_sound_for P w s ->
  exists r s', sdd_cached_hash m P w p s = Some (r, s') /\ sdd_hash_m m P w p = Some r /\
               sdd_cache_sound_for P w s' /\ (forall k h, shc_get k s = Some h -> shc_get k s' = Some h).
Proof.
  intros m P w t p s HP HW ND U V W CS. destruct (exported_ok_range P w HP HW) as [OK WR].
  apply (sdd_cached_hash_eq_ok m P OK w WR t p s); assumption.
Qed.
Print Assumptions C11_sdd_cached_hash_eq.

(* any sequence of cached queries on pointers of one builder sharing nodes, from fresh nodes *)
Theorem C11_sdd_cached_hashes_eq : forall (m : mode) (P : N) (w : wmap) (t : vtree) (ps : list sdd),
  In P exported_primes -> weights_ok P w = true -> NoDup (vleaves t) ->
  (forall p, In p ps -> under t 0 p /\ sdd_vars_in p w /\ sdd_width_ok P p) ->
  exists s', sdd_cached_hashes m P w ps [] = Some (map (szhash P w) ps, s') /\
             (forall p, In p ps -> sdd_hash_m m P w p = Some (szhash P w p)).
Proof.
  intros m P w t ps HP HW ND H. destruct (exported_ok_range P w HP HW) as [OK WR].
  apply (sdd_cached_hashes_eq_ok m P OK w WR t ps ND H).
Qed.
Print Assumptions C11_sdd_cached_hashes_eq.

(* the public DDNNFPtr::semantic_hash runs through the per-node scratch slots (C07S): from empty
   slots it answers what the plain recursion answers and leaves the slots empty *)
Theorem C11_sdd_hash_public : forall (m : mode) (P : N) (w : wmap) (p : sdd) (s : sscratch hv),
  sall_empty hv s ->
  fst (sdd_hash_public m P w p s) = sdd_hash_m m P w p /\ sall_empty hv (snd (sdd_hash_public m P w p s)).
Proof. intros m P w p s E. apply (sdd_fold_public_pure hv); exact E. Qed.
Print Assumptions C11_sdd_hash_public.

(* hash-identification never splits equal functions: by semantic_hash (any two vtrees) ... *)
Theorem C11_sdd_semantic_never_splits : forall (m : mode) (P : N) (w : wmap) (t1 t2 : vtree) (p q : sdd),
  In P exported_primes -> weights_ok P w = true ->
  NoDup (vleaves t1) -> NoDup (vleaves t2) -> under t1 0 p -> under t2 0 q -> sdd_vars_in p w -> sdd_vars_in q w ->
  (feq (sden p) (sden q) -> sdd_hash_m m P w p = sdd_hash_m m P w q) /\
  (feq (sden p) (fnot (sden q)) -> sdd_hash_m m P w p = hneg m P (sdd_hash_m m P w q)) /\
  (feq (sden p) (sden q) \/ feq (sden p) (fnot (sden q)) ->
   hash_match m P (sdd_hash_m m P w p) (sdd_hash_m m P w q) = true).
Proof.
  intros m P w t1 t2 p q HP HW ND1 ND2 U1 U2 V1 V2. destruct (exported_ok_range P w HP HW) as [OK WR].
  apply (sdd_semantic_never_splits m P OK w WR t1 t2); assumption.
Qed.
Print Assumptions C11_sdd_semantic_never_splits.

(* ... and by SemanticSddBuilder::sdd_eq (h1 == h2 on the cached hashes of two pointers of one
   builder, evaluated one after the other on the shared node caches): equal functions compare
   equal, a negated function is found under negate() *)
Theorem C11_sdd_eq_never_splits : forall (m : mode) (P : N) (w : wmap) (t : vtree) (p q : sdd) (s : shcache),
  In P exported_primes -> weights_ok P w = true -> NoDup (vleaves t) ->
  under t 0 p -> under t 0 q -> sdd_vars_in p w -> sdd_vars_in q w -> sdd_width_ok P p -> sdd_width_ok P q ->
  sdd_cache_sound_for P w s ->
  exists h1 s1 h2 s2, sdd_cached_hash m P w p s = Some (h1, s1) /\ sdd_cached_hash m P w q s1 = Some (h2, s2) /\
    ((forall a, sden p a = sden q a) -> h1 = h2) /\
    ((forall a, sden p a = negb (sden q a)) -> ff_negate m P h2 = Some h1).
Proof.
  intros m P w t p q s HP HW ND Up Uq Vp Vq Wp Wq CS. destruct (exported_ok_range P w HP HW) as [OK WR].
  apply (sdd_eq_never_splits_ok m P OK w WR t p q s); assumption.
Qed.
Print Assumptions C11_sdd_eq_never_splits.

(* CONDITIONAL, as for BDDs: on a negation-closed set of SDD pointers of one vtree on which the
   hash is injective, hash-or-negated-hash equality decides equal-or-negated function *)
Theorem C11_sdd_semantic_correct_if_injective : forall (m : mode) (P : N) (w : wmap) (t : vtree) (D : sdd -> Prop),
  In P exported_primes -> weights_ok P w = true -> NoDup (vleaves t) ->
  (forall p, D p -> under t 0 p /\ sdd_vars_in p w) ->
  (forall p, D p -> D (sneg p)) ->
  (forall p q, D p -> D q -> sdd_hash_m m P w p = sdd_hash_m m P w q -> feq (sden p) (sden q)) ->
  forall p q, D p -> D q ->
  (sdd_hash_m m P w p = sdd_hash_m m P w q <-> feq (sden p) (sden q)) /\
  (sdd_hash_m m P w p = hneg m P (sdd_hash_m m P w q) <-> feq (sden p) (fnot (sden q))) /\
  (hash_match m P (sdd_hash_m m P w p) (sdd_hash_m m P w q) = true <->
   (feq (sden p) (sden q) \/ feq (sden p) (fnot (sden q)))).
Proof.
  intros m P w t D HP HW ND. destruct (exported_ok_range P w HP HW) as [OK WR].
  apply (sdd_semantic_correct_if_injective m P OK w WR t D ND).
Qed.
Print Assumptions C11_sdd_semantic_correct_if_injective.

(* the link to the builder (C03): every pool entry of every operation program on the SDD builder
   model, compression on or off, whose vtree's variables are in the map, hashes to the defining
   sum of its function, its negation to 1 - that, and the cached recursion from fresh nodes
   returns the same value -- exactly the model run the correspondence drives *)
Theorem C11_sdd_run_prog_hashed : forall (m : mode) (P : N) (w : wmap) (t : vtree) (compress_on : bool) (ops : list sop),
  In P exported_primes -> weights_ok P w = true ->
  NoDup (vleaves t) -> Forall (op_wf t) ops -> (forall v, In v (vleaves t) -> (N.to_nat v < length w)%nat) ->
  exists pool, run_prog t compress_on ops = Ok pool /\
    forall p, In p pool -> forall vars x, NoDup vars -> incl (vleaves t) vars ->
      sdd_hash_m m P w p = Some (fhash P w vars (sden p) x) /\
      sdd_hash_m m P w (sneg p) = hneg m P (sdd_hash_m m P w p) /\
      (sdd_width_ok P p -> exists s', sdd_cached_hash m P w p [] = Some (fhash P w vars (sden p) x, s')).
Proof.
  intros m P w t cm ops HP HW ND Hwf Hw. destruct (exported_ok_range P w HP HW) as [OK WR].
  destruct (run_prog_under t cm ops ND Hwf) as (pool & E & HU). exists pool. split; [exact E|].
  intros p Hin vars x NDV INC. rewrite Forall_forall in HU. specialize (HU p Hin).
  pose proof (under_vars_in t p w HU Hw) as V.
  destruct (sdd_hash_is_sum_ok m P OK w WR t p vars x ND HU V NDV INC) as [ES _].
  split; [exact ES|]. split; [apply (sdd_hash_neg_ok m P OK w WR t p ND HU V)|].
  intros W. destruct (sdd_cached_hash_eq_ok m P OK w WR t p [] ND HU V W (scache_sound_nil P w)) as (r & s' & EC & EH & _).
  exists s'. rewrite EC. rewrite ES in EH. injection EH as <-. reflexivity.
Qed.
Print Assumptions C11_sdd_run_prog_hashed.

(* non-vacuity: the program x0 \/ !x3, /\ x2, xor x1 on the SDD builder model under a balanced and
   under a right-linear vtree over four variables, in the 64-bit field with admissible weights.
   Under the balanced vtree the result is a COMPLEMENTED general decision node with three elements
   whose second element has a complemented prime and a complemented sub; under the right-linear
   vtree it is a chain of BinarySDDs.  All hypotheses of C11_sdd_main / _hash_neg / _cached_hash_eq
   hold, the two structurally different pointers denote one function and hash to the same
   non-trivial residue, through the fold and through the cached recursion; the negation hashes to
   1 - that *)
Example C11_sdd_nonvacuous :
  let P := prime_U64_LARGEST in
  let w := [(P - 12345678901234567 + 1, 12345678901234567); (P - 98765432109876543 + 1, 98765432109876543);
            (P - 5 + 1, 5); (P - 18446744073709551590 + 1, 18446744073709551590)] in
  let t1 := VNode (VNode (VLeaf 2) (VLeaf 0)) (VNode (VLeaf 3) (VLeaf 1)) in
  let t2 := VNode (VLeaf 0) (VNode (VLeaf 1) (VNode (VLeaf 2) (VLeaf 3))) in
  let ops := [SddOps.OVar 0 true; SddOps.OVar 3 false; SddOps.OVar 2 true; SddOps.OVar 1 true;
              SddOps.OOr 0 1; SddOps.OAnd 4 2; SddOps.OXor 5 3] in
  In P exported_primes /\ weights_ok P w = true /\ NoDup (vleaves t1) /\ NoDup (vleaves t2) /\
  exists pool1 pool2 p q, run_prog t1 true ops = Ok pool1 /\ run_prog t2 true ops = Ok pool2 /\
    nth 6 pool1 SF = p /\ nth 6 pool2 SF = q /\
    (exists els pr sb, p = SOr true 3 els /\ length els = 3%nat /\ nth 1 els (SF, SF) = (pr, sb) /\
                       s_is_neg pr = true /\ s_is_neg sb = true) /\
    under t1 0 p /\ under t2 0 q /\ sdd_vars_in p w /\ sdd_vars_in q w /\ sdd_width_ok P p /\ sdd_width_ok P q /\
    (forall a, sden p a = sden q a) /\ p <> q /\
    sdd_hash_m Checked P w p = Some 5756598406845984335 /\
    sdd_hash_m Checked P w q = Some 5756598406845984335 /\
    option_map fst (sdd_cached_hash Checked P w p []) = Some 5756598406845984335 /\
    option_map fst (sdd_cached_hash Checked P w (sneg p) []) = Some 12690145666863567257 /\
    sdd_hash_m Checked P w (sneg p) = Some 12690145666863567257.
Proof.
  cbv zeta.
  assert (ND1 : NoDup (vleaves (VNode (VNode (VLeaf 2) (VLeaf 0)) (VNode (VLeaf 3) (VLeaf 1))))).
  { simpl; repeat (apply NoDup_cons; [simpl; intuition discriminate|]); apply NoDup_nil. }
  assert (ND2 : NoDup (vleaves (VNode (VLeaf 0) (VNode (VLeaf 1) (VNode (VLeaf 2) (VLeaf 3)))))).
  { simpl; repeat (apply NoDup_cons; [simpl; intuition discriminate|]); apply NoDup_nil. }
  assert (WF1 : Forall (op_wf (VNode (VNode (VLeaf 2) (VLeaf 0)) (VNode (VLeaf 3) (VLeaf 1))))
                 [SddOps.OVar 0 true; SddOps.OVar 3 false; SddOps.OVar 2 true; SddOps.OVar 1 true;
                  SddOps.OOr 0 1; SddOps.OAnd 4 2; SddOps.OXor 5 3]).
  { repeat (apply Forall_cons; [simpl; auto 10|]); apply Forall_nil. }
  assert (WF2 : Forall (op_wf (VNode (VLeaf 0) (VNode (VLeaf 1) (VNode (VLeaf 2) (VLeaf 3)))))
                 [SddOps.OVar 0 true; SddOps.OVar 3 false; SddOps.OVar 2 true; SddOps.OVar 1 true;
                  SddOps.OOr 0 1; SddOps.OAnd 4 2; SddOps.OXor 5 3]).
  { repeat (apply Forall_cons; [simpl; auto 10|]); apply Forall_nil. }
  split; [vm_compute; tauto|]. split; [vm_compute; reflexivity|]. split; [exact ND1|]. split; [exact ND2|].
  destruct (run_prog_under _ true _ ND1 WF1) as (pool1 & E1 & HU1).
  destruct (run_prog_under _ true _ ND2 WF2) as (pool2 & E2 & HU2).
  exists pool1, pool2, (nth 6 pool1 SF), (nth 6 pool2 SF).
  split; [exact E1|]. split; [exact E2|]. split; [reflexivity|]. split; [reflexivity|].
  assert (U1 : under (VNode (VNode (VLeaf 2) (VLeaf 0)) (VNode (VLeaf 3) (VLeaf 1))) 0 (nth 6 pool1 SF)).
  { apply Forall_nth_in; [exact HU1|]. vm_compute in E1. injection E1 as <-. simpl. lia. }
  assert (U2 : under (VNode (VLeaf 0) (VNode (VLeaf 1) (VNode (VLeaf 2) (VLeaf 3)))) 0 (nth 6 pool2 SF)).
  { apply Forall_nth_in; [exact HU2|]. vm_compute in E2. injection E2 as <-. simpl. lia. }
  split; [|split; [exact U1|split; [exact U2|]]].
  - clear - E1. vm_compute in E1. injection E1 as <-. do 3 eexists. repeat split; reflexivity.
  - split; [apply (under_vars_in _ _ _ U1); intros v Hv; simpl in Hv; simpl; intuition (subst; simpl; lia)|].
    split; [apply (under_vars_in _ _ _ U2); intros v Hv; simpl in Hv; simpl; intuition (subst; simpl; lia)|].
    clear HU1 HU2 U1 U2. vm_compute in E1. injection E1 as <-. vm_compute in E2. injection E2 as <-.
    split; [unfold sdd_width_ok; vm_compute; discriminate|]. split; [unfold sdd_width_ok; vm_compute; discriminate|].
    split; [intros a; cbn; destruct (a 0), (a 1), (a 2), (a 3); reflexivity|].
    split; [cbn; discriminate|].
    repeat split; vm_compute; reflexivity.
Qed.

(* ===================================================================================== *)
(* SemanticSddBuilder (src/builder/sdd/semantic.rs).  Model: Model/SddSemBuilder.v -- the generic
   SddBuilder trait methods (unique_or / unique_bdd / the four apply cases / and / condition /
   exists / compile_cnf, shared with CompressionSddBuilder through the trait) with the hooks of
   semantic.rs: sdd_eq / is_true / is_false by hash, canonicalize = unique_or, no compression,
   get_or_insert_bdd / _sdd answering from the node stored under the hash or -- complemented --
   under the negated hash, the apply cache keyed by hash(a) * hash(b); ite / iff / xor (and
   compose) are todo!() = Panic unless Ite::new resolves the triple to a constant.
   Proofs: Proofs/SddSemBuilder*.v.  Reading guide.
   * [shash P w p : N] is SddPtr::cached_semantic_hash in Z/P (C11_semb_hash_as_coded: it is what
     the recursion as coded returns, for every pointer); [app_key P (shash P w) a b] the apply-cache key.
   * [swf t p] is the SEMANTIC builder invariant: decision nodes sit at internal vtree nodes,
     their primes form a partition and depend only on the variables of the left sub-vtree, their
     subs only on those of the right one.  It contains C03's structural invariant
     (C11_semb_under_swf) but, unlike it, says nothing about where primes and subs are
     normalised: a hash-identified store answers a request with the FIRST node created for that
     function, which may sit at a higher vtree node (e.g. the untrimmed node that condition() builds),
     so results of the semantic builder do NOT satisfy [under] in general -- even without any collision.
   * [sem_inj P w D K]: D is closed under negation, contains PtrFalse, and the hash is injective on
     D up to denotation; K contains (True, True), (False, False) and the product key is injective
     on K up to the denoted conjunction.  [Forall (evok D K) log]: every pointer whose hash the
     run compared or requested is in D and every pair that keyed the apply cache is in K ([log] = the ghost
     output of the model run).  The hypothesis on K is genuinely additional: hash(a) * hash(b) is
     not the hash of a /\ b when a and b share variables, and app_cache_get answers PtrFalse /
     PtrTrue whenever the product is 0 / 1.
   * The conditional theorems are about runs that RETURN ([= Ok ..]): absence of panics (e.g.
     b.low() in and_cartesian) and termination within a given fuel are not proved
     (C11_semb_ops_total_statement); the harness explores them. *)
From Coq Require Import Permutation.
From RsddV Require Model.Compile.
From RsddV Require Import Model.SddSemBuilder Proofs.SddVtree Proofs.SddSemBuilderBase Proofs.SddSemBuilderStore
  Proofs.SddSemBuilderHash Proofs.SddSemBuilder Proofs.SddSemBuilderCheck Proofs.SddSemBuilderUnder
  Proofs.SddSemBuilderCoded.

(* the model's hash value is what SddPtr::cached_semantic_hash as coded (Model/SddSemHash.v, per-node
   caches, checked u128 arithmetic) returns -- EVERY pointer, no invariant *)
Theorem C11_semb_hash_as_coded : forall (m : mode) (P : N) (w : wmap) (p : sdd) (s : shcache),
  In P exported_primes -> weights_ok P w = true -> sdd_vars_in p w -> sdd_width_ok P p ->
  hcache_sound P w s ->
  exists s', sdd_cached_hash m P w p s = Some (shash P w p, s') /\ hcache_sound P w s' /\
             (forall k h, shc_get k s = Some h -> shc_get k s' = Some h).
Proof.
  intros m P w p s HP HW V W CS. destruct (exported_ok_range P w HP HW) as [OK WR].
  apply (sdd_cached_hash_coded m P OK w WR p V W s CS).
Qed.
Print Assumptions C11_semb_hash_as_coded.

(* hash (neg p) = negate (hash p), negate is an involution on residues: EVERY pointer *)
Theorem C11_semb_hash_neg : forall (P : N) (w : wmap) (p : sdd),
  In P exported_primes -> weights_ok P w = true ->
  shash P w (sneg p) = negP P (shash P w p) /\ shash P w p < P /\ negP P (negP P (shash P w p)) = shash P w p.
Proof.
  intros P w p HP HW. destruct (exported_ok_range P w HP HW) as [OK WR].
  split; [apply (shash_sneg P OK w WR)|]. split; [apply (shash_lt P OK w WR)|].
  apply (negP_invol P OK). apply (shash_lt P OK w WR).
Qed.
Print Assumptions C11_semb_hash_neg.

(* C03's invariant is contained in the semantic one *)
Theorem C11_semb_under_swf : forall (t : vtree) (p : sdd), under t 0 p -> swf t p.
Proof. intros t p H. apply (under_swf t t 0 p (occurs_refl t 0) H). Qed.
Print Assumptions C11_semb_under_swf.

(* ---- UNCONDITIONAL half: no hypothesis about collisions ---- *)
(* on well-formed pointers the builder's hash is the defining sum over the models *)
Theorem C11_semb_hash_is_sum : forall (P : N) (w : wmap) (t : vtree) (p : sdd) (vars : list var) (x : asg),
  In P exported_primes -> weights_ok P w = true ->
  NoDup (vleaves t) -> swf t p -> NoDup vars -> incl (vleaves t) vars ->
  shash P w p = fhash P w vars (sden p) x.
Proof.
  intros P w t p vars x HP HW ND Wp NDV INC. destruct (exported_ok_range P w HP HW) as [OK WR].
  apply (shash_is_sum t ND P OK w WR vars NDV INC x p Wp).
Qed.
Print Assumptions C11_semb_hash_is_sum.

(* SemanticSddBuilder::sdd_eq NEVER judges two equal functions different, and finds a negated
   function under negate(): equal functions have equal hashes *)
Theorem C11_semb_eq_never_splits : forall (P : N) (w : wmap) (t : vtree) (a b : sdd) (st : sst),
  In P exported_primes -> weights_ok P w = true -> NoDup (vleaves t) -> swf t a -> swf t b ->
  ((forall x, sden a x = sden b x) -> eqS (shash P w) a b st = Ok (true, st, [EPtr a; EPtr b])) /\
  ((forall x, sden a x = negb (sden b x)) -> shash P w a = negP P (shash P w b)).
Proof.
  intros P w t a b st HP HW ND Wa Wb. destruct (exported_ok_range P w HP HW) as [OK WR]. split.
  - apply (eqS_never_splits t ND P OK w WR a b st Wa Wb).
  - apply (shash_denotational_neg t ND P OK w WR a b Wa Wb).
Qed.
Print Assumptions C11_semb_eq_never_splits.

(* get_or_insert_bdd / get_or_insert_sdd never store a second node for a function that is stored
   already, nor for the negation of one: the request is answered from the tables, unchanged *)
Theorem C11_semb_store_never_splits : forall (P : N) (w : wmap) (t : vtree) (n : sdd) (st : sst) (h : N) (p : sdd),
  In P exported_primes -> weights_ok P w = true -> NoDup (vleaves t) ->
  store_wf t P w st -> swf t n -> tbl_get (s_tbl st) h = Some p ->
  ((forall a, sden p a = sden n a) \/ (forall a, sden p a = negb (sden n a))) ->
  exists r, get_or_insert P (shash P w) n st = Ok (r, st, [EReq n]).
Proof.
  intros P w t n st h p HP HW ND Hst Wn Hg E. destruct (exported_ok_range P w HP HW) as [OK WR].
  apply (get_or_insert_never_splits t ND P OK w WR n st h p Hst Wn Hg E).
Qed.
Print Assumptions C11_semb_store_never_splits.

(* ---- CONDITIONAL half: IF the hash is injective on the requested nodes ---- *)
(* (a) the node store: lookup by hash, then by negated hash (complemented pointer), else insert --
   the returned pointer denotes the requested node and the store invariant is kept *)
Theorem C11_semb_get_or_insert_correct : forall (P : N) (w : wmap) (t : vtree) (D : sdd -> Prop) (K : sdd -> sdd -> Prop)
  (n : sdd) (st : sst) r st' log,
  In P exported_primes -> weights_ok P w = true -> sem_inj P w D K ->
  inv t P w D K st -> swf t n ->
  get_or_insert P (shash P w) n st = Ok (r, st', log) -> Forall (evok D K) log ->
  inv t P w D K st' /\ swf t r /\ forall a, sden r a = sden n a.
Proof.
  intros P w t D K n st r st' log HP HW HI. destruct (exported_ok_range P w HP HW) as [OK WR].
  apply (sem_get_or_insert_correct t P OK w WR D K HI).
Qed.
Print Assumptions C11_semb_get_or_insert_correct.

(* (b) and (all four apply cases, the apply cache, unique_or / unique_bdd), or; every fuel *)
Theorem C11_semb_and_correct_partial : forall (P : N) (w : wmap) (t : vtree) (D : sdd -> Prop) (K : sdd -> sdd -> Prop)
  (fuel : nat) (a b : sdd) (st : sst),
  In P exported_primes -> weights_ok P w = true -> sem_inj P w D K ->
  inv t P w D K st -> swf t a -> swf t b ->
  (forall r st' log, and_m t P (shash P w) fuel a b st = Ok (r, st', log) -> Forall (evok D K) log ->
     inv t P w D K st' /\ swf t r /\ forall x, sden r x = sden a x && sden b x) /\
  (forall r st' log, or_m t P (shash P w) fuel a b st = Ok (r, st', log) -> Forall (evok D K) log ->
     inv t P w D K st' /\ swf t r /\ forall x, sden r x = sden a x || sden b x).
Proof.
  intros P w t D K fuel a b st HP HW HI Hinv Wa Wb. destruct (exported_ok_range P w HP HW) as [OK WR]. split.
  - intros r st' log. apply (sem_and_correct t P OK w WR D K HI fuel a b st r st' log Hinv Wa Wb).
  - intros r st' log. apply (sem_or_correct t P OK w WR D K HI fuel a b st r st' log Hinv Wa Wb).
Qed.
Print Assumptions C11_semb_and_correct_partial.

(* condition, exists, compile_cnf (any clause order after the code's sort_by) *)
Theorem C11_semb_operations_correct_partial : forall (P : N) (w : wmap) (t : vtree) (D : sdd -> Prop) (K : sdd -> sdd -> Prop)
  (fuel : nat) (f : sdd) (st : sst),
  In P exported_primes -> weights_ok P w = true -> sem_inj P w D K -> inv t P w D K st -> swf t f ->
  (forall v b r st' log, condition_m P (shash P w) f v b st = Ok (r, st', log) -> Forall (evok D K) log ->
     inv t P w D K st' /\ swf t r /\ forall x, sden r x = sden f (upd x v b)) /\
  (forall v r st' log, exists_m t P (shash P w) fuel f v st = Ok (r, st', log) -> Forall (evok D K) log ->
     inv t P w D K st' /\ swf t r /\ forall x, sden r x = sden f (upd x v true) || sden f (upd x v false)) /\
  (forall (cnf sorted : Compile.cnf) r st' log, Permutation sorted cnf ->
     Forall (Forall (fun l : Compile.literal => In (fst l) (vleaves t))) cnf ->
     compile_cnf_m t P (shash P w) fuel cnf sorted st = Ok (r, st', log) -> Forall (evok D K) log ->
     inv t P w D K st' /\ swf t r /\ forall a, sden r a = Compile.cnf_eval cnf a).
Proof.
  intros P w t D K fuel f st HP HW HI Hinv Wf. destruct (exported_ok_range P w HP HW) as [OK WR].
  split; [|split].
  - intros v b r st' log. apply (sem_condition_correct t P OK w WR D K HI f v b st r st' log Hinv Wf).
  - intros v r st' log. apply (sem_exists_correct t P OK w WR D K HI fuel f v st r st' log Hinv Wf).
  - intros cnf sorted r st' log Pm Hv. apply (sem_compile_cnf_correct t P OK w WR D K HI fuel cnf sorted st r st' log Hinv Pm Hv).
Qed.
Print Assumptions C11_semb_operations_correct_partial.

(* (c) operation programs on a fresh builder: true / false / var / negate / and / or / condition /
   exists / compile_cnf (and ite / iff / xor / compose on the triples that do not reach todo!()):
   IF the run returns and the hash is injective on what it requested, every pool entry satisfies
   the invariant and denotes the value of the specification program (C03's [spec_run]) *)
Theorem C11_semb_ops_correct_partial : forall (P : N) (w : wmap) (t : vtree) (D : sdd -> Prop) (K : sdd -> sdd -> Prop)
  (fuel : nat) (ops : list sop) pool st log,
  In P exported_primes -> weights_ok P w = true -> sem_inj P w D K -> Forall (op_wf t) ops ->
  run_prog_sem t P w fuel ops = Ok (pool, st, log) -> Forall (evok D K) log ->
  Forall2 (denotes (swf t)) pool (spec_run [] ops) /\ inv t P w D K st.
Proof.
  intros P w t D K fuel ops pool st log HP HW HI. destruct (exported_ok_range P w HP HW) as [OK WR].
  apply (sem_run_correct t P OK w WR D K HI).
Qed.
Print Assumptions C11_semb_ops_correct_partial.

(* what is NOT proved: that under the injectivity hypothesis (here: on ALL well-formed pointers and
   pairs) a run returns at all -- no panic (b.low() on a non-BinarySDD, node[0] on an empty
   vector), enough fuel.  Explored by the harness, never observed to fail. *)
Definition C11_semb_ops_total_statement : Prop :=
  forall (P : N) (w : wmap) (t : vtree) (ops : list sop),
  In P exported_primes -> weights_ok P w = true -> NoDup (vleaves t) ->
  (forall v, In v (vleaves t) -> (N.to_nat v < length w)%nat) ->
  sem_inj P w (swf t) (fun a b => swf t a /\ swf t b) -> Forall (op_wf t) ops ->
  Forall (fun o => match o with OXor _ _ | OIff _ _ | OIte _ _ _ | OCompose _ _ _ => False | _ => True end) ops ->
  exists fuel pool st log, run_prog_sem t P w fuel ops = Ok (pool, st, log) /\
    Forall2 (denotes (swf t)) pool (spec_run [] ops).

(* sdd_eq decides semantic equality EXACTLY on results: eq(pool[i], pool[j]) answers whether the
   specification functions are equal -- "true => equal" by injectivity, "equal => true" unconditionally *)
Theorem C11_semb_eq_exact : forall (P : N) (w : wmap) (t : vtree) (D : sdd -> Prop) (K : sdd -> sdd -> Prop)
  (fuel : nat) (ops : list sop) pool st log (i j : nat) r st' log',
  In P exported_primes -> weights_ok P w = true -> sem_inj P w D K -> NoDup (vleaves t) -> Forall (op_wf t) ops ->
  run_prog_sem t P w fuel ops = Ok (pool, st, log) -> Forall (evok D K) log ->
  (i < length pool)%nat -> (j < length pool)%nat ->
  pool_eq (shash P w) pool i j st = Ok (r, st', log') -> Forall (evok D K) log' ->
  (r = true <-> forall x, fget (spec_run [] ops) i x = fget (spec_run [] ops) j x).
Proof.
  intros P w t D K fuel ops pool st log i j r st' log' HP HW HI. destruct (exported_ok_range P w HP HW) as [OK WR].
  apply (sem_pool_eq_exact t P OK w WR D K HI).
Qed.
Print Assumptions C11_semb_eq_exact.

(* a cached apply result is, up to denotation, what the computation gives with an empty apply cache *)
Theorem C11_semb_cache_transparent : forall (P : N) (w : wmap) (t : vtree) (D : sdd -> Prop) (K : sdd -> sdd -> Prop)
  (fuel fuel' : nat) (a b : sdd) (st : sst) r1 s1 l1 r2 s2 l2,
  In P exported_primes -> weights_ok P w = true -> sem_inj P w D K ->
  inv t P w D K st -> swf t a -> swf t b ->
  and_m t P (shash P w) fuel a b st = Ok (r1, s1, l1) -> Forall (evok D K) l1 ->
  and_m t P (shash P w) fuel' a b (mkSst (s_tbl st) []) = Ok (r2, s2, l2) -> Forall (evok D K) l2 ->
  forall x, sden r1 x = sden r2 x.
Proof.
  intros P w t D K fuel fuel' a b st r1 s1 l1 r2 s2 l2 HP HW HI. destruct (exported_ok_range P w HP HW) as [OK WR].
  apply (sem_cache_transparent t P OK w WR D K HI).
Qed.
Print Assumptions C11_semb_cache_transparent.

(* every pool entry hashes to the defining sum of its specification function (what the harness
   compares: the sem= field and the oracle's defining sum) *)
Theorem C11_semb_pool_hashed : forall (P : N) (w : wmap) (t : vtree) (D : sdd -> Prop) (K : sdd -> sdd -> Prop)
  (fuel : nat) (ops : list sop) pool st log (vars : list var) (x : asg),
  In P exported_primes -> weights_ok P w = true -> sem_inj P w D K ->
  NoDup (vleaves t) -> NoDup vars -> incl (vleaves t) vars -> Forall (op_wf t) ops ->
  run_prog_sem t P w fuel ops = Ok (pool, st, log) -> Forall (evok D K) log ->
  Forall2 (fun p f => shash P w p = fhash P w vars f x) pool (spec_run [] ops).
Proof.
  intros P w t D K fuel ops pool st log vars x HP HW HI. destruct (exported_ok_range P w HP HW) as [OK WR].
  apply (sem_pool_hashed t P OK w WR D K HI).
Qed.
Print Assumptions C11_semb_pool_hashed.

(* non-vacuity: vtree ((x0 x1) x2) in the 64-bit field with admissible weights; the program builds
   x0 <-> x2 (a BinarySDD at the root, stored regular), then x0 xor x2 as
   (!x0 /\ x1 /\ x2) \/ (!x0 /\ !x1 /\ x2) \/ (x0 /\ !x2): the last disjunction requests the
   three-element decision node {(!x0 /\ x1, x2), (!x0 /\ !x1, x2), (x0, !x2)}, whose hash is not in the
   tables but whose NEGATED hash is that of the stored node: complement hit, pool[15] = !pool[8].
   D / K = the pointers / pairs of the run's ghost log ([dset_of] / [kset_of]: 28 pointers with
   negations and constants, 19 pairs); every hypothesis of the conditional theorems holds, injectivity checked pair by pair
   on hashes and truth tables (Proofs/SddSemBuilderCheck.v, by vm_compute) *)
Definition semb_P : N := prime_U64_LARGEST.
Definition semb_w : wmap := [(semb_P - 12345678901234567 + 1, 12345678901234567);
  (semb_P - 98765432109876543 + 1, 98765432109876543); (semb_P - 5 + 1, 5)].
Definition semb_t : vtree := VNode (VNode (VLeaf 0) (VLeaf 1)) (VLeaf 2).
Definition semb_ops : list sop :=
  [SddOps.OVar 0 true; SddOps.OVar 2 true; SddOps.OVar 1 true; SddOps.ONeg 0; SddOps.ONeg 1; SddOps.ONeg 2;
   SddOps.OAnd 0 1; SddOps.OAnd 3 4; SddOps.OOr 6 7;
   SddOps.OAnd 3 2; SddOps.OAnd 9 1; SddOps.OAnd 3 5; SddOps.OAnd 11 1; SddOps.OAnd 0 4;
   SddOps.OOr 10 12; SddOps.OOr 14 13].
Definition semb_req : sdd :=
  SOr false 3 [(SBdd true 0 1 (SVar 1 false) ST, SVar 2 true); (SBdd true 0 1 (SVar 1 true) ST, SVar 2 true);
               (SVar 0 true, SVar 2 false)].
Example C11_semb_nonvacuous :
  In semb_P exported_primes /\ weights_ok semb_P semb_w = true /\ NoDup (vleaves semb_t) /\ Forall (op_wf semb_t) semb_ops /\
  exists pool st log, run_prog_sem semb_t semb_P semb_w 10 semb_ops = Ok (pool, st, log) /\
    let D := fun p => In p (dset_of log) in
    let K := fun a b => In (a, b) (kset_of log) in
    sem_inj semb_P semb_w D K /\ Forall (evok D K) log /\
    length (dset_of log) = 28%nat /\ length (kset_of log) = 19%nat /\
    length pool = 16%nat /\ length (s_tbl st) = 9%nat /\
    nth 8 pool SF = SBdd false 0 3 (SVar 2 false) (SVar 2 true) /\ nth 15 pool SF = sneg (nth 8 pool SF) /\
    In (EReq semb_req) log /\ tbl_get (s_tbl st) (shash semb_P semb_w semb_req) = None /\
    tbl_get (s_tbl st) (negP semb_P (shash semb_P semb_w semb_req)) = Some (nth 8 pool SF) /\
    (forall x, sden semb_req x = xorb (x 0) (x 2)).
Proof.
  split; [vm_compute; tauto|]. split; [vm_compute; reflexivity|].
  split; [simpl; repeat (apply NoDup_cons; [simpl; intuition discriminate|]); apply NoDup_nil|].
  split; [repeat (apply Forall_cons; [simpl; auto 10|]); apply Forall_nil|].
  eexists. eexists. eexists. split; [vm_compute; reflexivity|]. cbv zeta.
  split; [apply (check_sound semb_P semb_w [0; 1; 2]); vm_compute; reflexivity|].
  split; [apply logcheck_sound; vm_compute; reflexivity|].
  split; [vm_compute; reflexivity|]. split; [vm_compute; reflexivity|].
  split; [vm_compute; reflexivity|]. split; [vm_compute; reflexivity|].
  split; [vm_compute; reflexivity|]. split; [vm_compute; reflexivity|].
  split; [apply ev_mem_sound; vm_compute; reflexivity|].
  split; [vm_compute; reflexivity|]. split; [vm_compute; reflexivity|].
  intros x. cbn. destruct (x 0), (x 1), (x 2); reflexivity.
Qed.

(* the model's total weight lookup never uses its default on builder pointers: the labels of a
   well-formed pointer are leaves of the vtree, which the map of SemanticSddBuilder::new covers --
   so C11_semb_hash_as_coded applies to every result of a (collision-free) run *)
Theorem C11_semb_swf_vars_in : forall (t : vtree) (p : sdd) (w : wmap),
  swf t p -> (forall v, In v (vleaves t) -> (N.to_nat v < length w)%nat) -> sdd_vars_in p w.
Proof. exact swf_vars_in. Qed.
Print Assumptions C11_semb_swf_vars_in.
