(* C11 — semantic hashing is denotational; hash-identified builders stay correct.
   Property theorems only.  Model: Model/SemHash.v; proofs: Proofs/SemHash.v.

   Reading guide.
   * [hash_m m P w p : option N] is DDNNFPtr::semantic_hash on the BddPtr whose unfolding is [p],
     in FiniteField<P> with the arithmetic exactly as coded (Model/Semirings.v; [m] = build mode
     with or without overflow checks; [None] = the Rust code panics) and the weight map [w]
     (entry v = (low, high) of variable v).  The weights are inputs: create_semantic_hash_map
     draws them from ChaCha8, the harness reads the real ones; [weights_ok P w] is the model's
     check of what that function establishes (2 <= high < P, low = (P - high + 1) mod P).
   * [zhash P w p] is the C07 fold in plain integer arithmetic modulo P, [fhash P w vars f x] the
     defining sum  sum_{a in {0,1}^vars} [f a] * prod_v w_v(a v)  mod P.
   * [free_bdd p]: no path tests a variable twice -- ordered BDDs under ANY order
     (C07_ordered_is_free), decision-DNNF results, smoothed diagrams.  [vars_in p w]: every
     variable tested has an entry in the map (var_weight panics otherwise).
   * P is never assumed prime (U32_TINY = 101 * 9901 is not): ring laws only (C13).
   * SDD pointers are outside the Coq model: their hashes are tied to the defining sum by the
     correspondence/oracle only.
   * The unconditional sentence of the property ("over the 64-bit field the returned diagrams
     denote the correct function") is NOT a theorem and cannot be one (2^(2^n) functions, fewer
     than 2^64 hash values): it is decided by exploration in the harness.  What is proved is
     the conditional [C11_semantic_correct_if_injective]. *)
From Coq Require Import Bool NArith List Lia.
Import ListNotations.
From RsddV Require Import Base.Bdd Model.Wmc Proofs.BddCanon Proofs.Wmc Proofs.Smooth Model.Semirings Proofs.Semirings
  Model.SemHash Proofs.SemHashSdd Proofs.SemHash Generated.Constants.

Local Open Scope N_scope.

(* ------------------------------------------------------------------------------------- *)
(* the weights: l = FiniteField::new(P - h + 1) and h add up to one, for every exported prime,
   both build modes, without overflow or panic *)
Theorem C11_weights_sum_one : forall (m : mode) (P h : N), In P exported_primes -> 2 <= h -> h < P ->
  exists l, bind (u_sub m P h) (fun t => bind (u_add m t 1) (fun s => ff_new P s)) = Some l /\
            l = P - h + 1 /\ 2 <= l /\ l < P /\ ff_add m P l h = Some 1.
Proof. intros m P h HP H2 Hh. apply (weights_sum_one_gen m P h (exported_primes_ok P HP) H2 Hh). Qed.
Print Assumptions C11_weights_sum_one.

(* what the model's check of the supplied weights guarantees *)
Theorem C11_weights_ok_sound : forall (P : N) (w : wmap), In P exported_primes -> weights_ok P w = true ->
  forall lh, In lh w -> fst lh < P /\ snd lh < P /\ (fst lh + snd lh) mod P = 1.
Proof. intros P w HP HW. exact (proj2 (exported_ok_range P w HP HW)). Qed.
Print Assumptions C11_weights_ok_sound.

(* ------------------------------------------------------------------------------------- *)
(* hash_is_wmc: the hash as coded never panics and is the C07 fold in Z/P -- EVERY diagram *)
Theorem C11_hash_is_wmc : forall (m : mode) (P : N) (w : wmap) (p : bdd),
  In P exported_primes -> weights_ok P w = true -> vars_in p w ->
  hash_m m P w p = Some (zhash P w p) /\ zhash P w p < P.
Proof.
  intros m P w p HP HW V. destruct (exported_ok_range P w HP HW) as [OK WR].
  split; [apply (hash_c_exact m P OK w WR p V) | apply (zhash_c_lt P OK w WR)].
Qed.
Print Assumptions C11_hash_is_wmc.

(* ... and for free diagrams it is the defining sum over the models of the denoted function *)
Theorem C11_hash_is_sum : forall (m : mode) (P : N) (w : wmap) (p : bdd) (vars : list var) (x : asg),
  In P exported_primes -> weights_ok P w = true -> vars_in p w ->
  free_bdd p -> NoDup vars -> incl (support p) vars ->
  hash_m m P w p = Some (fhash P w vars (den p) x) /\ fhash P w vars (den p) x < P.
Proof.
  intros m P w p vars x HP HW V F ND I. destruct (exported_ok_range P w HP HW) as [OK WR].
  apply hash_is_sum_m; assumption.
Qed.
Print Assumptions C11_hash_is_sum.

(* ------------------------------------------------------------------------------------- *)
(* MAIN: hash_denotational.  Two free diagrams -- BDDs under any orders, complement edges,
   sharing, decision-DNNF results -- that denote the same function hash equally, in every
   exported field, both build modes. *)
Theorem C11_main : forall (m : mode) (P : N) (w : wmap) (p q : bdd),
  In P exported_primes -> weights_ok P w = true ->
  free_bdd p -> free_bdd q -> vars_in p w -> vars_in q w ->
  (forall a, den p a = den q a) ->
  hash_m m P w p = hash_m m P w q.
Proof.
  intros m P w p q HP HW Fp Fq Vp Vq E. destruct (exported_ok_range P w HP HW) as [OK WR].
  apply (hash_denotational m P OK w WR); assumption.
Qed.
Check C11_main : forall (m : mode) (P : N) (w : wmap) (p q : bdd),
  In P exported_primes -> weights_ok P w = true ->
  free_bdd p -> free_bdd q -> vars_in p w -> vars_in q w ->
  (forall a, den p a = den q a) ->
  hash_m m P w p = hash_m m P w q.
Print Assumptions C11_main.

(* the same spelled out for ordered BDDs under two arbitrary, different orders *)
Theorem C11_hash_order_independent : forall (m : mode) (P : N) (w : wmap)
  (level1 level2 : var -> nat) (k1 k2 : nat) (p q : bdd),
  In P exported_primes -> weights_ok P w = true ->
  wfb level1 k1 p -> wfb level2 k2 q -> vars_in p w -> vars_in q w ->
  (forall a, den p a = den q a) ->
  hash_m m P w p = hash_m m P w q.
Proof.
  intros m P w l1 l2 k1 k2 p q HP HW W1 W2 Vp Vq E. destruct (exported_ok_range P w HP HW) as [OK WR].
  apply (hash_denotational m P OK w WR); try assumption; eapply wfb_free; eassumption.
Qed.
Print Assumptions C11_hash_order_independent.

(* ------------------------------------------------------------------------------------- *)
(* hash_neg: hash (neg p) = negate (hash p) = 1 - hash p  (mod P) -- EVERY diagram *)
Theorem C11_hash_neg : forall (m : mode) (P : N) (w : wmap) (p : bdd),
  In P exported_primes -> weights_ok P w = true -> vars_in p w ->
  hash_m m P w (neg p) = hneg m P (hash_m m P w p) /\
  hash_m m P w (neg p) = Some ((1 + P - zhash P w p) mod P).
Proof.
  intros m P w p HP HW V. destruct (exported_ok_range P w HP HW) as [OK WR].
  apply (hash_neg m P OK w WR p V).
Qed.
Print Assumptions C11_hash_neg.

(* ------------------------------------------------------------------------------------- *)
(* cached_hash_eq: for a FIXED P and map, from any cache state that is sound for that P and map
   (every stored value is the hash of its node), a cached hash equals the recomputed one, the
   cache stays sound and loses nothing -- any diagram, any sharing, regular or complemented *)
Definition cache_sound_for (P : N) (w : wmap) (s : hcache) : Prop :=
  forall v lo hi h, hc_get (BN false v lo hi) s = Some h -> h = zhash P w (BN false v lo hi).

Theorem C11_cached_hash_eq : forall (m : mode) (P : N) (w : wmap) (p : bdd) (s : hcache),
  In P exported_primes -> weights_ok P w = true -> vars_in p w -> cache_sound_for P w s ->
  exists r s', cached_hash m P w p s = Some (r, s') /\ hash_m m P w p = Some r /\
               cache_sound_for P w s' /\ (forall k h, hc_get k s = Some h -> hc_get k s' = Some h).
Proof.
  intros m P w p s HP HW V CS. destruct (exported_ok_range P w HP HW) as [OK WR].
  destruct (cached_hash_eq m P OK w WR p V s CS) as (s' & E & CS' & L).
  exists (zhash P w p), s'. split; [exact E|]. split; [apply (hash_c_exact m P OK w WR p V)|]. split; assumption.
Qed.
Print Assumptions C11_cached_hash_eq.

(* any sequence of cached queries on diagrams sharing nodes, starting from fresh nodes *)
Theorem C11_cached_hashes_eq : forall (m : mode) (P : N) (w : wmap) (ps : list bdd),
  In P exported_primes -> weights_ok P w = true -> (forall p, In p ps -> vars_in p w) ->
  exists s', cached_hashes m P w ps [] = Some (map (zhash P w) ps, s') /\
             (forall p, In p ps -> hash_m m P w p = Some (zhash P w p)).
Proof.
  intros m P w ps HP HW V. destruct (exported_ok_range P w HP HW) as [OK WR].
  destruct (cached_hashes_eq m P OK w WR ps V [] (cache_sound_nil P w)) as (s' & E & _ & _).
  exists s'. split; [exact E|]. intros p Hp. apply (hash_c_exact m P OK w WR p (V p Hp)).
Qed.
Print Assumptions C11_cached_hashes_eq.

(* outside the property's "for a fixed field and weight map": the node cache stores a bare u128;
   asked again with another field or another map it answers the stale value (5 instead of 7) *)
Theorem C11_cache_reused_with_other_field_is_stale :
  let p := BN false 0 BF BT in
  let w1 := [(prime_U32_TINY - 4, 5)] in let w2 := [(prime_U32_SMALL - 6, 7)] in
  weights_ok prime_U32_TINY w1 = true /\ weights_ok prime_U32_SMALL w2 = true /\
  exists s, cached_hash Checked prime_U32_TINY w1 p [] = Some (5, s) /\
            cached_hash Checked prime_U32_SMALL w2 p s = Some (5, s) /\
            hash_m Checked prime_U32_SMALL w2 p = Some 7.
Proof. exact cache_reused_with_other_field. Qed.
Print Assumptions C11_cache_reused_with_other_field_is_stale.

Theorem C11_cache_reused_with_other_map_is_stale :
  let p := BN false 0 BF BT in
  let w1 := [(prime_U32_TINY - 4, 5)] in let w2 := [(prime_U32_TINY - 6, 7)] in
  weights_ok prime_U32_TINY w1 = true /\ weights_ok prime_U32_TINY w2 = true /\
  exists s, cached_hash Checked prime_U32_TINY w1 p [] = Some (5, s) /\
            cached_hash Checked prime_U32_TINY w2 p s = Some (5, s) /\
            hash_m Checked prime_U32_TINY w2 p = Some 7.
Proof. exact cache_reused_with_other_map. Qed.
Print Assumptions C11_cache_reused_with_other_map_is_stale.

(* ------------------------------------------------------------------------------------- *)
(* semantic_never_splits: a builder that identifies nodes by hash (sdd_eq) or by hash-or-negated-
   hash (check_cached_hash_and_neg) never judges two diagrams of equal functions different, and
   finds a function's negation under the negated hash *)
Theorem C11_semantic_never_splits : forall (m : mode) (P : N) (w : wmap) (p q : bdd),
  In P exported_primes -> weights_ok P w = true ->
  free_bdd p -> free_bdd q -> vars_in p w -> vars_in q w ->
  (feq (den p) (den q) -> hash_m m P w p = hash_m m P w q) /\
  (feq (den p) (fnot (den q)) -> hash_m m P w p = hneg m P (hash_m m P w q)) /\
  (feq (den p) (den q) \/ feq (den p) (fnot (den q)) ->
   hash_match m P (hash_m m P w p) (hash_m m P w q) = true).
Proof.
  intros m P w p q HP HW Fp Fq Vp Vq. destruct (exported_ok_range P w HP HW) as [OK WR].
  apply (semantic_never_splits m P OK w WR); assumption.
Qed.
Print Assumptions C11_semantic_never_splits.

(* semantic_correct_if_injective (CONDITIONAL): on any negation-closed set D of diagrams on which
   the hash is injective, "same hash" decides "same function", "hash = negate(hash)" decides
   "negated function", and the builders' lookup test decides "same or negated function" *)
Theorem C11_semantic_correct_if_injective : forall (m : mode) (P : N) (w : wmap) (D : bdd -> Prop),
  In P exported_primes -> weights_ok P w = true ->
  (forall p, D p -> free_bdd p /\ vars_in p w) ->
  (forall p, D p -> D (neg p)) ->
  (forall p q, D p -> D q -> hash_m m P w p = hash_m m P w q -> feq (den p) (den q)) ->
  forall p q, D p -> D q ->
  (hash_m m P w p = hash_m m P w q <-> feq (den p) (den q)) /\
  (hash_m m P w p = hneg m P (hash_m m P w q) <-> feq (den p) (fnot (den q))) /\
  (hash_match m P (hash_m m P w p) (hash_m m P w q) = true <->
   (feq (den p) (den q) \/ feq (den p) (fnot (den q)))).
Proof.
  intros m P w D HP HW. destruct (exported_ok_range P w HP HW) as [OK WR].
  apply (semantic_correct_if_injective m P OK w WR).
Qed.
Print Assumptions C11_semantic_correct_if_injective.

(* the same on functions, for the defining sum over a fixed variable list (representation-free) *)
Theorem C11_semantic_correct_if_injective_fn : forall (m : mode) (P : N) (w : wmap) (vars : list var) (x : asg)
  (F : (asg -> bool) -> Prop),
  In P exported_primes -> weights_ok P w = true ->
  (forall f, F f -> F (fnot f)) ->
  (forall f g, F f -> F g -> fhash P w vars f x = fhash P w vars g x -> feq f g) ->
  forall f g, F f -> F g ->
  (fhash P w vars f x = fhash P w vars g x <-> feq f g) /\
  (fhash P w vars f x = (1 + P - fhash P w vars g x) mod P <-> feq f (fnot g)) /\
  (hash_match m P (Some (fhash P w vars f x)) (Some (fhash P w vars g x)) = true <-> (feq f g \/ feq f (fnot g))).
Proof.
  intros m P w vars x F HP HW. destruct (exported_ok_range P w HP HW) as [OK WR].
  apply (semantic_correct_if_injective_fn m P OK w WR).
Qed.
Print Assumptions C11_semantic_correct_if_injective_fn.

(* why SDD decision nodes hash to the defining sum too (function level; SddPtr itself is tied to
   the defining sum by the correspondence only): for pairwise exclusive primes, and primes / subs
   on disjoint variables, the defining sum of  \/_i prime_i /\ sub_i  is
   sum_i H(prime_i) * H(sub_i)  -- what SddOr::semantic_hash and SddAnd::semantic_hash compute *)
Theorem C11_sdd_node_hash_fn : forall (P : N) (w : wmap) (vars : list var)
  (els : list ((asg -> bool) * (asg -> bool))) (x : asg),
  In P exported_primes -> weights_ok P w = true -> NoDup vars -> excl_primes els ->
  (forall p s, In (p, s) els -> ext_fun p /\ ext_fun s /\ forall v, In v vars -> ignores p v \/ ignores s v) ->
  fhash P w vars (den_pairs els) x = zsum_pairs P w vars els x.
Proof.
  intros P w vars els x HP HW. destruct (exported_ok_range P w HP HW) as [OK WR].
  apply (fhash_sdd_node P OK w WR).
Qed.
Print Assumptions C11_sdd_node_hash_fn.

(* the hypothesis of the conditional theorem is not vacuous-by-default: injectivity FAILS for
   admissible weights in an exported field (zero divisors of Z/1000001: x0 /\ x1 hashes like
   False), so the unconditional builder-correctness claim is not a theorem of this model *)
Definition C11_hash_injective_statement : Prop :=
  forall (m : mode) (P : N) (w : wmap) (p q : bdd), In P exported_primes -> weights_ok P w = true ->
  free_bdd p -> free_bdd q -> vars_in p w -> vars_in q w ->
  hash_m m P w p = hash_m m P w q -> forall a, den p a = den q a.
Theorem C11_hash_injective_refuted : ~ C11_hash_injective_statement.
Proof.
  intros H. destruct hash_not_injective_tiny as (HW & F & V & VF & E & NE).
  apply NE. apply (H Checked _ _ _ BF (or_introl eq_refl) HW F I V VF E).
Qed.
Print Assumptions C11_hash_injective_refuted.

(* ------------------------------------------------------------------------------------- *)
(* non-vacuity: x0 /\ not x1 as an ordered BDD under x0 < x1 (complemented root) and under
   x1 < x0, in the 64-bit field with admissible weights: all hypotheses of C11_main hold and the
   common hash is a non-trivial residue *)
Example C11_nonvacuous :
  let P := prime_U64_LARGEST in
  let w := [(P - 12345678901234567 + 1, 12345678901234567); (P - 98765432109876543 + 1, 98765432109876543)] in
  let p := BN true 0 BT (BN false 1 BF BT) in
  let q := BN false 1 (BN false 0 BF BT) BF in
  In P exported_primes /\ weights_ok P w = true /\ free_bdd p /\ free_bdd q /\ vars_in p w /\ vars_in q w /\
  (forall a, den p a = den q a) /\ p <> q /\
  hash_m Checked P w p = Some 12155579529353939533 /\ hash_m Checked P w q = Some 12155579529353939533.
Proof.
  cbv zeta. split; [vm_compute; tauto|]. split; [vm_compute; reflexivity|].
  split; [simpl; intuition discriminate|]. split; [simpl; intuition discriminate|].
  split; [intros v Hv; simpl in Hv; destruct Hv as [<-|[<-|[]]]; simpl; lia|].
  split; [intros v Hv; simpl in Hv; destruct Hv as [<-|[<-|[]]]; simpl; lia|].
  split; [intros a; simpl; destruct (a 0), (a 1); reflexivity|].
  split; [discriminate|]. split; vm_compute; reflexivity.
Qed.
