(* C07S -- the SDD half of C07 (weighted model counts equal the semiring sum over models) and of C10
   (queries are pure) : property theorems only.  Model: Model/SddWmc.v (DDNNFPtr::fold for SddPtr
   as coded, unsmoothed_wmc, evaluate, count_nodes, the per-node scratch slot and clear_scratch).
   The invariant [under t 0 p] is what every operation of the SDD builder maintains in both
   compression modes (C03_sdd_ops_correct / C03_run_prog_correct). *)
From Coq Require Import Bool NArith List Lia Arith.
Import ListNotations.
From RsddV Require Import Base.Bdd Model.SddVtree Model.SddOps Model.Wmc Model.SddWmc.
From RsddV Require Import Proofs.SddBase Proofs.SddVtree Proofs.SddInv Proofs.SddProg Proofs.Wmc Proofs.SddWmc Proofs.SddWmcLink Proofs.SddScratch Proofs.SddScratchCount.

(* The model's recursion (with the pending negation as a flag) is literally the loop of the code:
   for a node pointer, fold(ptr) = the loop over ptr.node_iter() of
   or_v = f(Or(or_v, f(And(fold(prime), fold(if ptr.is_neg() { sub.neg() } else { sub }))))) *)
Theorem C07S_fold_is_the_coded_loop : forall (T : Type) fTrue fFalse fLit fAnd fOr p els,
  elems p = Some els ->
  sdd_fold T fTrue fFalse fLit fAnd fOr p =
  fold_left (fun or_v e => fOr or_v (fAnd (sdd_fold T fTrue fFalse fLit fAnd fOr (fst e))
                                          (sdd_fold T fTrue fFalse fLit fAnd fOr (adj (s_is_neg p) (snd e)))))
            els fFalse.
Proof. exact sdd_fold_node_eq. Qed.
Print Assumptions C07S_fold_is_the_coded_loop.

(* For every commutative semiring (the laws are hypotheses; the shipped weight types satisfy them by
   C13), every vtree with distinct leaves, every SDD satisfying the builder invariant, regular or
   complemented ([fl]: count the negated pointer), any sharing (the unfolding forgets it), every
   duplicate-free variable list covering the vtree's variables and weights with lo + hi = one: the
   fold equals the sum over all assignments of those variables of the product of the chosen
   literal weights, restricted to the models -- the SAME specification sum as C07_wmc_correct. *)
Theorem C07S_sdd_wmc_correct : forall (S : Type) (add mul : S -> S -> S) (zero one : S),
  (forall a b, add a b = add b a) -> (forall a b c, add (add a b) c = add a (add b c)) ->
  (forall a b c, mul (mul a b) c = mul a (mul b c)) -> (forall a b, mul a b = mul b a) ->
  (forall a, mul a one = a) -> (forall a, mul a zero = zero) -> (forall a, add a zero = a) ->
  (forall a b c, mul a (add b c) = add (mul a b) (mul a c)) ->
  forall (wlo whi : var -> S), (forall v, add (wlo v) (whi v) = one) ->
  forall t p fl vars x, NoDup (vleaves t) -> under t 0 p -> NoDup vars -> incl (vleaves t) vars ->
  sdd_wmc_c S add mul zero one wlo whi fl p =
  wmc_spec S add mul zero one wlo whi vars (fun a => xorb fl (sden p a)) x.
Proof. exact sdd_wmc_correct. Qed.
Check C07S_sdd_wmc_correct : forall (S : Type) (add mul : S -> S -> S) (zero one : S),
  (forall a b, add a b = add b a) -> (forall a b c, add (add a b) c = add a (add b c)) ->
  (forall a b c, mul (mul a b) c = mul a (mul b c)) -> (forall a b, mul a b = mul b a) ->
  (forall a, mul a one = a) -> (forall a, mul a zero = zero) -> (forall a, add a zero = a) ->
  (forall a b c, mul a (add b c) = add (mul a b) (mul a c)) ->
  forall (wlo whi : var -> S), (forall v, add (wlo v) (whi v) = one) ->
  forall t p fl vars x, NoDup (vleaves t) -> under t 0 p -> NoDup vars -> incl (vleaves t) vars ->
  sdd_wmc_c S add mul zero one wlo whi fl p =
  wmc_spec S add mul zero one wlo whi vars (fun a => xorb fl (sden p a)) x.
Print Assumptions C07S_sdd_wmc_correct.

(* the public entry point on the negated pointer p.neg() *)
Theorem C07S_sdd_wmc_neg_correct : forall (S : Type) (add mul : S -> S -> S) (zero one : S),
  (forall a b, add a b = add b a) -> (forall a b c, add (add a b) c = add a (add b c)) ->
  (forall a b c, mul (mul a b) c = mul a (mul b c)) -> (forall a b, mul a b = mul b a) ->
  (forall a, mul a one = a) -> (forall a, mul a zero = zero) -> (forall a, add a zero = a) ->
  (forall a b c, mul a (add b c) = add (mul a b) (mul a c)) ->
  forall (wlo whi : var -> S), (forall v, add (wlo v) (whi v) = one) ->
  forall t p vars x, NoDup (vleaves t) -> under t 0 p -> NoDup vars -> incl (vleaves t) vars ->
  sdd_wmc_m S add mul zero one wlo whi (sneg p) =
  wmc_spec S add mul zero one wlo whi vars (fun a => negb (sden p a)) x.
Proof. exact sdd_wmc_neg_correct. Qed.
Print Assumptions C07S_sdd_wmc_neg_correct.

(* the same inside any sub-vtree (the induction that was proved) *)
Theorem C07S_sdd_wmc_correct_local : forall (S : Type) (add mul : S -> S -> S) (zero one : S),
  (forall a b, add a b = add b a) -> (forall a b c, add (add a b) c = add a (add b c)) ->
  (forall a b c, mul (mul a b) c = mul a (mul b c)) -> (forall a b, mul a b = mul b a) ->
  (forall a, mul a one = a) -> (forall a, mul a zero = zero) -> (forall a, add a zero = a) ->
  (forall a b c, mul a (add b c) = add (mul a b) (mul a c)) ->
  forall (wlo whi : var -> S), (forall v, add (wlo v) (whi v) = one) ->
  forall vars, NoDup vars -> forall t, NoDup (vleaves t) -> incl (vleaves t) vars ->
  forall p fl u off x, occurs t 0 u off -> under u off p ->
  sdd_wmc_c S add mul zero one wlo whi fl p =
  wmc_spec S add mul zero one wlo whi vars (fun a => xorb fl (sden p a)) x.
Proof. exact sdd_wmc_correct_local. Qed.
Print Assumptions C07S_sdd_wmc_correct_local.

(* an SDD (any vtree, compression on or off) and a free BDD (any order; top-down results; smoothed
   diagrams) of the same function have the same count: corollary with C07_wmc_correct *)
Theorem C07S_sdd_bdd_wmc_agree : forall (S : Type) (add mul : S -> S -> S) (zero one : S),
  (forall a b, add a b = add b a) -> (forall a b c, add (add a b) c = add a (add b c)) ->
  (forall a b c, mul (mul a b) c = mul a (mul b c)) -> (forall a b, mul a b = mul b a) ->
  (forall a, mul a one = a) -> (forall a, mul a zero = zero) -> (forall a, add a zero = a) ->
  (forall a b c, mul a (add b c) = add (mul a b) (mul a c)) ->
  forall (wlo whi : var -> S), (forall v, add (wlo v) (whi v) = one) ->
  forall t p q, NoDup (vleaves t) -> under t 0 p -> free_bdd q -> (forall a, sden p a = den q a) ->
  sdd_wmc_m S add mul zero one wlo whi p = wmc_m S add mul zero one wlo whi q.
Proof. exact sdd_bdd_wmc_agree. Qed.
Print Assumptions C07S_sdd_bdd_wmc_agree.

(* two SDDs of one function under different vtrees / compression modes have the same count *)
Theorem C07S_sdd_structure_independent : forall (S : Type) (add mul : S -> S -> S) (zero one : S),
  (forall a b, add a b = add b a) -> (forall a b c, add (add a b) c = add a (add b c)) ->
  (forall a b c, mul (mul a b) c = mul a (mul b c)) -> (forall a b, mul a b = mul b a) ->
  (forall a, mul a one = a) -> (forall a, mul a zero = zero) -> (forall a, add a zero = a) ->
  (forall a b c, mul a (add b c) = add (mul a b) (mul a c)) ->
  forall (wlo whi : var -> S), (forall v, add (wlo v) (whi v) = one) ->
  forall t1 t2 p1 p2, NoDup (vleaves t1) -> NoDup (vleaves t2) -> under t1 0 p1 -> under t2 0 p2 ->
  (forall a, sden p1 a = sden p2 a) ->
  sdd_wmc_m S add mul zero one wlo whi p1 = sdd_wmc_m S add mul zero one wlo whi p2.
Proof. exact sdd_wmc_structure_independent. Qed.
Print Assumptions C07S_sdd_structure_independent.

(* the key step on its own: a decision node whose primes form a partition, primes and subs over
   disjoint sub-vtrees: the loop of the fold (sum of count(prime) * count(sub), subs negated for a
   complemented pointer) is the sum over the models of the (complemented) node *)
Theorem C07S_node_sum : forall (S : Type) (add mul : S -> S -> S) (zero one : S),
  (forall a b, add a b = add b a) -> (forall a b c, add (add a b) c = add a (add b c)) ->
  (forall a b c, mul (mul a b) c = mul a (mul b c)) -> (forall a b, mul a b = mul b a) ->
  (forall a, mul a one = a) -> (forall a, mul a zero = zero) -> (forall a, add a zero = a) ->
  (forall a b c, mul a (add b c) = add (mul a b) (mul a c)) ->
  forall (wlo whi : var -> S), (forall v, add (wlo v) (whi v) = one) ->
  forall vars, NoDup vars -> forall l r offl offr els ng x,
  (forall v, In v (vleaves l) -> In v (vleaves r) -> False) ->
  okl (under l offl) (under r offr) els -> part els ->
  Forall (fun e => sdd_wmc_c S add mul zero one wlo whi false (fst e) =
                     wmc_spec S add mul zero one wlo whi vars (fun a => xorb false (sden (fst e) a)) x /\
                   sdd_wmc_c S add mul zero one wlo whi ng (snd e) =
                     wmc_spec S add mul zero one wlo whi vars (fun a => xorb ng (sden (snd e) a)) x) els ->
  fold_left (fun acc e => add acc (mul (sdd_wmc_c S add mul zero one wlo whi false (fst e))
                                       (sdd_wmc_c S add mul zero one wlo whi ng (snd e)))) els zero =
  wmc_spec S add mul zero one wlo whi vars (fun a => xorb ng (den_els els a)) x.
Proof. exact node_sum. Qed.
Print Assumptions C07S_node_sum.

(* Boolean evaluation = denotation, for every SDD whose general nodes have partitioned primes
   (no vtree condition), in particular for every builder result *)
Theorem C07S_sdd_evaluate_correct : forall p a, parts p -> sdd_evaluate_m p a = sden p a.
Proof. exact sdd_evaluate_correct. Qed.
Print Assumptions C07S_sdd_evaluate_correct.
Theorem C07S_sdd_evaluate_correct_under : forall t p a, under t 0 p -> sdd_evaluate_m p a = sden p a.
Proof. exact sdd_evaluate_correct_under. Qed.
Print Assumptions C07S_sdd_evaluate_correct_under.
(* ... and, unlike for BDDs (C07_evaluate_correct), NOT for every unfolding: the code evaluates a
   complemented general node as "a prime holds and its sub fails", which is the negation only when
   the primes are exhaustive and exclusive.  No builder operation creates such a node (C03). *)
Definition C07S_sdd_evaluate_every_unfolding_statement : Prop := forall p a, sdd_evaluate_m p a = sden p a.
Theorem C07S_sdd_evaluate_every_unfolding_refuted : ~ C07S_sdd_evaluate_every_unfolding_statement.
Proof. intros H. destruct sdd_evaluate_all_unfoldings_refuted as (p & a & Hne). apply Hne, H. Qed.
Print Assumptions C07S_sdd_evaluate_every_unfolding_refuted.

(* ---- C10 for the SDD scratch ---- *)
(* memoised fold = plain recursion, from any scratch state satisfying the fold invariant; scratch
   changes only on reachable nodes and all of them are marked afterwards *)
Theorem C07S_sdd_fold_memo_eq : forall (T : Type) fTrue fFalse fLit fAnd fOr p fl (s : sscratch T),
  sfinv T fTrue fFalse fLit fAnd fOr s ->
  let '(r, s') := sdd_fold_memo T fTrue fFalse fLit fAnd fOr fl p s in
  r = sdd_fold_c T fTrue fFalse fLit fAnd fOr fl p /\ sfinv T fTrue fFalse fLit fAnd fOr s' /\
  (forall n, ~ In n (sdd_nodes p) -> s' n = s n).
Proof. exact sdd_fold_memo_spec. Qed.
Print Assumptions C07S_sdd_fold_memo_eq.

(* the unconditional recursive clear_scratch empties exactly the reachable nodes *)
Theorem C07S_sdd_clear_spec : forall (T : Type) p (s : sscratch T),
  (forall n, In n (sdd_nodes p) -> sdd_clear T p s n = None) /\
  (forall n, ~ In n (sdd_nodes p) -> sdd_clear T p s n = s n).
Proof. exact sdd_clear_spec. Qed.
Print Assumptions C07S_sdd_clear_spec.

(* a public fold (unsmoothed_wmc in any semiring, evaluate, semantic_hash) maps the all-empty
   scratch state to the all-empty scratch state and answers what the plain recursion answers *)
Theorem C07S_sdd_query_pure : forall (T : Type) fTrue fFalse fLit fAnd fOr p (s : sscratch T),
  sall_empty T s ->
  fst (sdd_fold_public T fTrue fFalse fLit fAnd fOr p s) = sdd_fold T fTrue fFalse fLit fAnd fOr p /\
  sall_empty T (snd (sdd_fold_public T fTrue fFalse fLit fAnd fOr p s)).
Proof. exact sdd_fold_public_pure. Qed.
Print Assumptions C07S_sdd_query_pure.

(* any sequence of public folds with any closures on any pointers (sharing any sub-structure)
   returns, call by call, the answers of the plain recursion and ends all-empty *)
Theorem C07S_sdd_queries_commute : forall (T : Type) (qs : list (squery T)) (s : sscratch T),
  sall_empty T s ->
  fst (srun_queries T qs s) = map (squery_pure T) qs /\ sall_empty T (snd (srun_queries T qs s)).
Proof. exact sdd_queries_commute. Qed.
Print Assumptions C07S_sdd_queries_commute.

(* count_nodes (top-down marking with a usize in the scratch slot): from an all-empty scratch state
   it returns 2 per distinct reachable BinarySDD plus the number of elements per distinct reachable
   SddOr ([node_weight]) and leaves every slot empty again *)
Theorem C07S_sdd_count_nodes_pure : forall (T : Type) p (s : sscratch T), sall_empty T s ->
  sall_empty T (snd (sdd_count_public T p s)) /\
  exists L, NoDup L /\ (forall n, In n L <-> In n (sdd_nodes p)) /\
            fst (sdd_count_public T p s) = list_sum (map node_weight L).
Proof. exact sdd_count_public_pure. Qed.
Print Assumptions C07S_sdd_count_nodes_pure.

(* the link to the builder (C03): every pool entry of every operation program, compression on or
   off, is counted and evaluated correctly -- exactly the model run the correspondence drives *)
Theorem C07S_run_prog_counted : forall (S : Type) (add mul : S -> S -> S) (zero one : S),
  (forall a b, add a b = add b a) -> (forall a b c, add (add a b) c = add a (add b c)) ->
  (forall a b c, mul (mul a b) c = mul a (mul b c)) -> (forall a b, mul a b = mul b a) ->
  (forall a, mul a one = a) -> (forall a, mul a zero = zero) -> (forall a, add a zero = a) ->
  (forall a b c, mul a (add b c) = add (mul a b) (mul a c)) ->
  forall (wlo whi : var -> S), (forall v, add (wlo v) (whi v) = one) ->
  forall t compress_on ops, NoDup (vleaves t) -> Forall (op_wf t) ops ->
  exists pool, run_prog t compress_on ops = Ok pool /\
    forall p, In p pool -> forall fl vars x a, NoDup vars -> incl (vleaves t) vars ->
      sdd_wmc_c S add mul zero one wlo whi fl p =
        wmc_spec S add mul zero one wlo whi vars (fun a => xorb fl (sden p a)) x /\
      sdd_evaluate_m p a = sden p a /\ sdd_evaluate_m (sneg p) a = negb (sden p a).
Proof.
  intros S add mul zero one Hac Haa Hma Hmc Hm1 Hm0 Ha0 Hd wlo whi Hn t cm ops ND Hw.
  destruct (run_prog_under t cm ops ND Hw) as (pool & E & HU). exists pool. split; [exact E|].
  intros p Hin fl vars x a NDV INC. rewrite Forall_forall in HU. specialize (HU p Hin). split; [|split].
  - apply (sdd_wmc_correct S add mul zero one Hac Haa Hma Hmc Hm1 Hm0 Ha0 Hd wlo whi Hn t p fl vars x ND HU NDV INC).
  - apply (sdd_evaluate_correct_under t p a HU).
  - rewrite (sdd_evaluate_correct_under t (sneg p) a (under_sneg _ _ _ HU)). apply sden_sneg.
Qed.
Print Assumptions C07S_run_prog_counted.

(* non-vacuity: a balanced vtree over four variables, a program whose last result is a complemented
   general decision node with three elements; the hypotheses of the theorems hold for it; with the
   (normalised) indicator weights of the assignment x0 = x2 = 1, x1 = x3 = 0 over N the count is 1
   for the pointer (the assignment is a model) and 0 for its negation, through the plain recursion
   and through the scratch slots, which are empty afterwards; count_nodes = 3 elements + 2 * 3
   binary nodes *)
Example C07S_nonvacuous :
  let t := VNode (VNode (VLeaf 2%N) (VLeaf 0%N)) (VNode (VLeaf 3%N) (VLeaf 1%N)) in
  let ops := [OVar 0%N true; OVar 3%N false; OVar 2%N true; OVar 1%N true; OOr 0 1; OAnd 4 2; OXor 5 3] in
  let hi := fun v : var => if N.eqb v 0 || N.eqb v 2 then 1%N else 0%N in
  let lo := fun v : var => (1 - hi v)%N in
  NoDup (vleaves t) /\ Forall (op_wf t) ops /\
  exists pool p, run_prog t true ops = Ok pool /\ nth 6 pool SF = p /\
    (exists els, p = SOr true 3 els /\ length els = 3) /\
    under t 0 p /\ parts p /\
    (forall v, (lo v + hi v = 1)%N) /\
    sdd_wmc_m N N.add N.mul 0%N 1%N lo hi p = 1%N /\
    sdd_wmc_m N N.add N.mul 0%N 1%N lo hi (sneg p) = 0%N /\
    fst (sdd_wmc_public N N.add N.mul 0%N 1%N lo hi p (sempty N)) = 1%N /\
    sdd_all_cleared (snd (sdd_wmc_public N N.add N.mul 0%N 1%N lo hi p (sempty N))) p = true /\
    fst (sdd_count_public N p (sempty N)) = 9.
Proof.
  cbv zeta.
  assert (ND : NoDup (vleaves (VNode (VNode (VLeaf 2%N) (VLeaf 0%N)) (VNode (VLeaf 3%N) (VLeaf 1%N))))).
  { simpl; repeat (apply NoDup_cons; [simpl; intuition discriminate|]); apply NoDup_nil. }
  assert (WF : Forall (op_wf (VNode (VNode (VLeaf 2%N) (VLeaf 0%N)) (VNode (VLeaf 3%N) (VLeaf 1%N))))
                 [OVar 0%N true; OVar 3%N false; OVar 2%N true; OVar 1%N true; OOr 0 1; OAnd 4 2; OXor 5 3]).
  { repeat (apply Forall_cons; [simpl; auto 10|]); apply Forall_nil. }
  split; [exact ND|]. split; [exact WF|].
  destruct (run_prog_under _ true _ ND WF) as (pool & E & HU).
  exists pool, (nth 6 pool SF). split; [exact E|]. split; [reflexivity|].
  assert (HU6 : under (VNode (VNode (VLeaf 2%N) (VLeaf 0%N)) (VNode (VLeaf 3%N) (VLeaf 1%N))) 0 (nth 6 pool SF)).
  { apply Forall_nth_in; [exact HU|]. vm_compute in E. injection E as <-. simpl. lia. }
  split; [|split; [exact HU6|split; [eapply under_parts; exact HU6|]]];
    clear HU HU6; vm_compute in E; injection E as <-.
  - eexists. split; reflexivity.
  - split; [intros v; destruct (N.eqb v 0 || N.eqb v 2); reflexivity|].
    vm_compute. repeat split; reflexivity.
Qed.
