(* C18 — the C ABI is a faithful wrapper of the Rust operations.
   What can be a theorem: the C API's operation language (var / new_var / and / or / ite / negate /
   compose / true / false, eq, model count, weighted counts), interpreted in the tree model, computes
   the functions the operations name -- corollaries of C01 / C02 / C07 / C08.  What cannot: pointer
   casts, Box ownership, repr(C) layout, CString -- runtime behaviour, tied by correspondence only
   (the harness calls the exported symbols and compares with the native API call by call). *)
From Coq Require Import Bool NArith List Lia Arith.
Import ListNotations.
From RsddV Require Import Base.Bdd Model.IteStd Model.BddOps Model.BddProg Model.Wmc Proofs.BddCanon Proofs.BddIte
  Proofs.BddOps Proofs.BddProg Proofs.BddCanonProg Proofs.Wmc Proofs.Smooth Proofs.SmoothProg.

(* the operations the C API exports *)
Definition capi_op (op : bop) : bool :=
  match op with
  | OConst _ | OVar _ _ | ONewVar _ | ONeg _ | OAnd _ _ | OOr _ _ | OIte _ _ _ | OCompose _ _ _ => true
  | _ => false
  end.

(* diagrams built through the C interface denote the functions the operations name *)
Theorem C18_capi_ops_correct : forall (ops : list bop) n st',
  forallb capi_op ops = true ->
  run_prog (fun _ => true) (bstate_init (seq 0 n)) ops = Some st' ->
  Forall2 (fun p f => WF (level_of (bord st')) (length (bord st')) 0 p /\ forall x, den p x = f x)
          (bpool st') (snd (spec_prog n [] ops)).
Proof.
  intros ops n st' _ R.
  assert (WO : wf_order (seq 0 n)).
  { split; [apply seq_NoDup|]. intros x Hx. apply in_seq in Hx. rewrite seq_length. lia. }
  pose proof (ops_correct _ _ _ _ WO R) as H. rewrite seq_length in H. exact H.
Qed.
Check C18_capi_ops_correct : forall (ops : list bop) n st',
  forallb capi_op ops = true ->
  run_prog (fun _ => true) (bstate_init (seq 0 n)) ops = Some st' ->
  Forall2 (fun p f => WF (level_of (bord st')) (length (bord st')) 0 p /\ forall x, den p x = f x)
          (bpool st') (snd (spec_prog n [] ops)).
Print Assumptions C18_capi_ops_correct.

(* bdd_eq: equal under the C equality call exactly when they denote the same function *)
Theorem C18_capi_eq : forall (ops : list bop) n st' i j,
  run_prog (fun _ => true) (bstate_init (seq 0 n)) ops = Some st' ->
  i < length (bpool st') -> j < length (bpool st') ->
  (nth i (bpool st') BF = nth j (bpool st') BF <->
   forall x, den (nth i (bpool st') BF) x = den (nth j (bpool st') BF) x).
Proof.
  intros ops n st' i j R. apply eq_iff_equiv with (remember := fun _ => true) (o := seq 0 n) (ops := ops); auto.
  split; [apply seq_NoDup|]. intros x Hx. apply in_seq in Hx. rewrite seq_length. lia.
Qed.
Print Assumptions C18_capi_eq.

(* robdd_model_count: smoothing over all variables + unit weights = number of models *)
Theorem C18_capi_model_count : forall (ops : list bop) n st' i x,
  run_prog (fun _ => true) (bstate_init (seq 0 n)) ops = Some st' ->
  let o := bord st' in let p := nth i (bpool st') BF in
  wmc_m N N.add N.mul 0%N 1%N (fun _ => 1%N) (fun _ => 1%N) (smooth_m (var_at o) p (length o)) =
  N.of_nat (length (filter (den p) (all_asgs (level_vars (var_at o) (length o) 0) x))).
Proof.
  intros ops n st' i x R o p.
  assert (WO : wf_order (seq 0 n)).
  { split; [apply seq_NoDup|]. intros y Hy. apply in_seq in Hy. rewrite seq_length. lia. }
  pose proof (ops_correct _ _ _ _ WO R) as P.
  assert (WO' : wf_order o) by (unfold o; rewrite (run_prog_bord _ _ _ _ R); apply wf_order_final; exact WO).
  destruct (pool_get _ _ _ i P) as [W _].
  rewrite (smooth_wmc_exact (level_of o) (level_of_inj o WO') (length o) (var_at o) (level_var_at_of o WO')
             N N.add N.mul 0%N 1%N _ _ p x W).
  apply wmc_spec_unit_count.
Qed.
Print Assumptions C18_capi_model_count.

Example C18_nonvacuous :
  let ops := [OVar 0%N true; OVar 1%N false; OOr 0 1; ONewVar true; OIte 2 3 0; OCompose 4 0%N 1; ONeg 5] in
  forallb capi_op ops = true /\
  match run_prog (fun _ => true) (bstate_init (seq 0 2)) ops with Some st => length (bpool st) = 7 | None => False end.
Proof. split; vm_compute; reflexivity. Qed.
