(* C06 — top-down CNF compilation to decision-DNNF is exact; conditioning is restriction.
   Property theorems only.  The model (Model/TopDown.v) is the code as it is NOW; the pinned
   variants (cond_helper: D8, root loop of compile_cnf_topdown: D9) are boolean-selected and
   refuted by vm_compute witnesses.  The solver is the repaired unit propagator of C09
   (pinned_up = false: the base case `level >= num_vars => true` needs C09's fix-point theorem). *)
From Coq Require Import Bool NArith List Arith Lia Permutation.
Import ListNotations.
From RsddV Require Import Base.Bdd Model.UnitProp Model.TopDown Model.Wmc Proofs.Wmc Proofs.TopDown.
From RsddV Require Import Proofs.UnitProp Proofs.UnitPropHash Proofs.TopDownSem.
From RsddV Require Import Model.TopDownStore Proofs.TopDownSemStore.
From RsddV Require Import Model.Semirings Model.SemHash Proofs.SemHash Generated.Constants.
From RsddV Require Model.Compile.

(* ---- conditioning ---- *)
(* for EVERY diagram in which no path tests a variable twice -- regular or complemented root, any
   shape, no ordering -- and every literal: cond_helper (as it is now) denotes the restriction *)
Theorem C06_cond_nnf_correct : forall p, free_bdd p -> forall v b x,
  den (condition false p v b) x = den p (upd x v b).
Proof. exact cond_nnf_correct. Qed.
Print Assumptions C06_cond_nnf_correct.

Theorem C06_cond_nnf_free : forall p v b, free_bdd p -> free_bdd (condition false p v b).
Proof. intros p v b. exact (cond_free p v b). Qed.
Print Assumptions C06_cond_nnf_free.

(* D8: the pinned cond_helper (complement-adjusted low()/high() and a second negation) is wrong
   already on the negated literal !x0 conditioned on x0 = true, and on the DESIGN replay
   (-x2)(x1)(-x1 v x3), negated, x1 := false *)
Theorem C06_cond_nnf_refuted_pinned :
  (free_bdd (BN true 0%N BF BT) /\
   cond_helper_m true (BN true 0%N BF BT) 0%N true = BT /\
   den (BN true 0%N BF BT) (upd (fun _ => false) 0%N true) = false /\
   cond_helper_m false (BN true 0%N BF BT) 0%N true = BF) /\
  match compile_raw false [0; 1; 2; 3] false true d8_raw with
  | Some r => cond_check true (neg r) 1%N false 4 = false /\ cond_check false (neg r) 1%N false 4 = true
  | None => False
  end.
Proof. split; [exact cond_nnf_refuted_pinned_min|exact d8_pinned]. Qed.
Print Assumptions C06_cond_nnf_refuted_pinned.

(* ---- building blocks ---- *)
Theorem C06_conjoin_implied_sem : forall lits sub x,
  den (conjoin_implied lits sub) x = forallb (lit_evalN x) lits && den sub x.
Proof. exact conjoin_implied_sem. Qed.
Print Assumptions C06_conjoin_implied_sem.

Theorem C06_conjoin_implied_false : forall lits sub, conjoin_implied lits sub = BF <-> sub = BF.
Proof. exact conjoin_implied_false_iff. Qed.
Print Assumptions C06_conjoin_implied_false.

Theorem C06_decision_node_sem : forall v low high x,
  den (decision_node v low high) x = if x v then den high x else den low x.
Proof. exact decision_node_sem. Qed.
Print Assumptions C06_decision_node_sem.

(* equal residual formulas => the same conditioned CNF (what a component-cache hit needs) *)
Theorem C06_cache_hit_sound : forall cls m1 m2,
  residual (sat_clauses_of cls) m1 = residual (sat_clauses_of cls) m2 ->
  forall a, cnf_holds (ov m1 a) cls = cnf_holds (ov m2 a) cls.
Proof. exact residual_sem. Qed.
Print Assumptions C06_cache_hit_sound.

(* ---- the compiler ---- *)
(* the cache-less algorithm (every lookup misses), which needs no guard at all: for every CNF and every order that is a
   permutation of its variables the compiler returns (never out of fuel), the false constant
   exactly when the CNF is unsatisfiable, a diagram denoting exactly the CNF, in which no path
   decides a variable twice.  No further hypothesis. *)
Theorem C06_topdown_correct_nocache : forall order raw,
  Permutation order (seq 0 (cnf_num_vars (cnf_new raw))) ->
  exists r, compile_raw false order false false raw = Some r /\
    (r = BF <-> forall x, Compile.cnf_eval (cnfN raw) x = false) /\
    (forall x, den r x = Compile.cnf_eval (cnfN raw) x) /\ free_bdd r.
Proof. exact topdown_correct_nocache. Qed.
Print Assumptions C06_topdown_correct_nocache.

(* MAIN.  WITH the component cache, as coded -- the FULL statement: under C09's guard (0 < product of the
   literal primes < 2^128, which makes "equal hash => equal residual formula" a theorem,
   C09_hash_injective) the compiler returns, the false constant exactly for unsatisfiable CNFs,
   the result denotes exactly the CNF, and no path decides a variable twice.  Freeness with the
   cache rests on: every returned diagram tests only variables of the residual formula of the
   state it was built in (unset in every state with that residual), because a decision on a
   variable outside the residual propagates nothing, leaves hash and satisfied flag unchanged,
   and its second arm hits the entry the first arm stored -- pointer-equal arms, no node. *)
Theorem C06_main : forall order raw,
  Permutation order (seq 0 (cnf_num_vars (cnf_new raw))) -> hash_guard raw ->
  exists r, compile_raw false order false true raw = Some r /\
    (r = BF <-> forall x, Compile.cnf_eval (cnfN raw) x = false) /\
    (forall x, den r x = Compile.cnf_eval (cnfN raw) x) /\ free_bdd r.
Proof. exact topdown_correct. Qed.
Check C06_main : forall order raw,
  Permutation order (seq 0 (cnf_num_vars (cnf_new raw))) -> hash_guard raw ->
  exists r, compile_raw false order false true raw = Some r /\
    (r = BF <-> forall x, Compile.cnf_eval (cnfN raw) x = false) /\
    (forall x, den r x = Compile.cnf_eval (cnfN raw) x) /\ free_bdd r.
Print Assumptions C06_main.

(* the same with cache soundness as an explicit hypothesis about the solver model's cur_hash
   (any clause list with labels in range and C09's rem_adj_ok) *)
Theorem C06_topdown_correct_hyp : forall order cls nvars,
  lits_in_range nvars cls -> rem_adj_ok cls -> Permutation order (seq 0 nvars) ->
  (forall s0, sat_new false cls nvars = NewSome s0 -> hash_ok s0) ->
  exists r, compile_cnf_topdown false order false true cls nvars = Some r /\
    (r = BF <-> forall x, Compile.cnf_eval (cnfN cls) x = false) /\
    (forall x, den r x = Compile.cnf_eval (cnfN cls) x) /\ free_bdd r.
Proof. exact topdown_correct_hyp. Qed.
Print Assumptions C06_topdown_correct_hyp.

(* no cache hit ever returns a diagram that tests a variable assigned at the time of the hit: the
   ghost flag of the instrumented compiler (compile_raw_g, erased by C06_ghost_erasure) stays true *)
Theorem C06_no_stale_cache_hit : forall order uc raw,
  Permutation order (seq 0 (cnf_num_vars (cnf_new raw))) -> (uc = true -> hash_guard raw) ->
  exists r, compile_raw_g order uc raw = Some (r, true).
Proof. exact no_stale_hit. Qed.
Print Assumptions C06_no_stale_cache_hit.

Theorem C06_ghost_erasure : forall order uc raw,
  compile_raw false order false uc raw = option_map fst (compile_raw_g order uc raw).
Proof. exact compile_raw_g_erase. Qed.
Print Assumptions C06_ghost_erasure.

(* the two operational facts about the propagator behind it *)
Theorem C06_implied_literals_in_residual : forall cls fuel w m a w' m1,
  w_ok (length cls) w -> up_decide false cls fuel w m a = URes w' (Some m1) ->
  forall v, pm_get m v = None -> pm_get m1 v <> None -> v = lvar a \/ inresb cls m v = true.
Proof. intros cls fuel. exact (proj1 (up_new_in_res cls fuel)). Qed.
Print Assumptions C06_implied_literals_in_residual.

Theorem C06_second_arm_replays : forall order fuel L s c fl r s' c' fl',
  topdown_hg order true fuel s L c fl = Some (r, s', c', fl') -> sat_is_sat s = false ->
  forall sb flb, s_nvars sb = s_nvars s -> sat_is_sat sb = false -> sat_cur_hash sb = sat_cur_hash s ->
  (forall l, L <= l -> l < s_nvars s -> sat_is_set sb (nth l order 0) = sat_is_set s (nth l order 0)) ->
  exists flb', topdown_hg order true fuel sb L c' flb = Some (r, sb, c', flb').
Proof. exact replay. Qed.
Print Assumptions C06_second_arm_replays.

(* ---- the semantic-hash node store (CONDITIONAL on hash injectivity, C11) ---- *)
(* get_or_insert of SemanticDecisionNNFBuilder ("the node stored under this hash, or the complement
   of the node stored under the negated hash, else store it") returns a pointer denoting the
   requested node, provided the hash is injective on the set D of requested nodes (closed under
   negation; its members free with variables in the weight map): C11_semantic_correct_if_injective *)
Theorem C06_sem_get_or_insert_correct : forall (m : mode) (P : N) (w : wmap) (D : bdd -> Prop),
  In P exported_primes -> weights_ok P w = true ->
  (forall p, D p -> free_bdd p /\ vars_in p w) -> (forall p, D p -> D (neg p)) ->
  (forall p q, D p -> D q -> hash_m m P w p = hash_m m P w q -> feq (den p) (den q)) ->
  forall st v lo hi r st',
  sem_inv m P w st -> sem_get_or_insert m P w st v lo hi = Some (r, st') -> sem_good D st' ->
  feq (den r) (den (BN false v lo hi)) /\ sem_inv m P w st' /\ r <> BF.
Proof. intros m P w D HP HW Hwf Hneg Hinj. exact (sem_get_or_insert_correct m P w HP HW D Hwf Hneg Hinj). Qed.
Print Assumptions C06_sem_get_or_insert_correct.

(* hence the top-down compiler over the semantic store (Model/TopDownStore.v: the same algorithm
   with get_or_insert abstracted, instantiated with sem_get_or_insert) returns the false constant
   exactly for unsatisfiable CNFs and otherwise a diagram denoting the CNF -- IF the hash is
   injective on the nodes the run requested (ss_log) and their negations, and under C09's guard
   for the component cache.  The unconditional claim over the 64-bit field is NOT a theorem
   (C11_hash_injective_refuted); it is C11's exploration half and this check's truth-table oracle.
   Nothing is claimed about path freeness for this store. *)
Theorem C06_semantic_store_correct_if_injective :
  forall (m : mode) (P : N) (w : wmap) (D : bdd -> Prop) order raw rx st,
  In P exported_primes -> weights_ok P w = true ->
  (forall p, D p -> free_bdd p /\ vars_in p w) -> (forall p, D p -> D (neg p)) ->
  (forall p q, D p -> D q -> hash_m m P w p = hash_m m P w q -> feq (den p) (den q)) ->
  Permutation order (seq 0 (cnf_num_vars (cnf_new raw))) -> hash_guard raw ->
  compile_raw_sem m P w order raw = Some (rx, st) ->
  (forall p, In p (ss_log st) -> D p) ->
  (rx = BF <-> forall x, Compile.cnf_eval (cnfN raw) x = false) /\
  (forall x, den rx x = Compile.cnf_eval (cnfN raw) x).
Proof.
  intros m P w D order raw rx st HP HW Hwf Hneg Hinj.
  exact (semantic_store_correct_if_injective m P w HP HW D Hwf Hneg Hinj order raw rx st).
Qed.
Print Assumptions C06_semantic_store_correct_if_injective.

(* generic form: ANY node store whose get_or_insert keeps an invariant, only grows, never returns
   a constant and (in a good final store) returns a pointer denoting the requested node simulates
   the standard store: same solver run, denotationally equal results, same false constants *)
Theorem C06_any_store_simulates_standard : forall (St : Type) mk order (inv good : St -> Prop) (mono : St -> St -> Prop),
  (forall st, mono st st) -> (forall a b c, mono a b -> mono b c -> mono a c) ->
  (forall a b, mono a b -> good b -> good a) ->
  (forall st v lo hi r st', inv st -> mk st v lo hi = Some (r, st') -> inv st' /\ mono st st' /\ r <> BF) ->
  (forall st v lo hi r st', inv st -> mk st v lo hi = Some (r, st') -> good st' ->
     forall x, den r x = if x v then den hi x else den lo x) ->
  forall cls nvars st0 rx st', inv st0 -> compile_x St mk order cls nvars st0 = Some (rx, st') -> good st' ->
  exists r, compile_cnf_topdown false order false true cls nvars = Some r /\ rel r rx.
Proof. exact compile_x_rel. Qed.
Print Assumptions C06_any_store_simulates_standard.

(* non-vacuity of the semantic-store theorem: (x0 v x1)(-x0 v -x1) in the 64-bit field; the run
   requests three nodes, the second one ((1 F T)) is answered by the COMPLEMENT of the first
   ((1 T F)) through the negated hash; D = the three requested nodes and their negations satisfies
   every hypothesis (injectivity checked pair by pair) *)
Definition sP : N := prime_U64_LARGEST.
Definition sw : wmap := [((sP - 12345678901234567 + 1)%N, 12345678901234567%N); ((sP - 98765432109876543 + 1)%N, 98765432109876543%N)].
Definition sraw : list clause := [[(0, true); (1, true)]; [(0, false); (1, false)]].
Definition slog : list bdd := [BN false 0%N (BN true 1%N BT BF) (BN false 1%N BT BF); BN false 1%N BF BT; BN false 1%N BT BF].
Definition sD (p : bdd) : Prop := In p (slog ++ map neg slog).
Example C06_semantic_nonvacuous :
  In sP exported_primes /\ weights_ok sP sw = true /\
  (forall p, sD p -> free_bdd p /\ vars_in p sw) /\ (forall p, sD p -> sD (neg p)) /\
  (forall p q, sD p -> sD q -> hash_m Checked sP sw p = hash_m Checked sP sw q -> feq (den p) (den q)) /\
  match compile_raw_sem Checked sP sw [0; 1] sraw with
  | Some (r, st) => ss_log st = slog /\ r = BN false 0%N (BN true 1%N BT BF) (BN false 1%N BT BF) /\
                    length (ss_tbl st) = 2
  | None => False
  end.
Proof.
  split; [vm_compute; tauto|split; [vm_compute; reflexivity|split; [|split; [|split]]]].
  - intros p Hp. unfold sD in Hp. cbn [slog map app neg negb] in Hp.
    assert (G : forall q, (free_bdd q /\ forallb (fun v => Nat.ltb (N.to_nat v) 2) (support q) = true) ->
                          free_bdd q /\ vars_in q sw).
    { intros q [A B]. split; [exact A|]. intros v Hv. rewrite forallb_forall in B. apply Nat.ltb_lt. apply B. exact Hv. }
    repeat (destruct Hp as [<-|Hp]; [apply G; split; [simpl; intuition discriminate|reflexivity]|]); destruct Hp.
  - intros p Hp. unfold sD in *. cbn [slog map app neg negb] in *.
    repeat (destruct Hp as [<-|Hp]; [simpl; tauto|]); destruct Hp.
  - intros p q Hp Hq. unfold sD in Hp, Hq. cbn [slog map app neg negb] in Hp, Hq.
    repeat (destruct Hp as [<-|Hp]; [|]); try destruct Hp;
    repeat (destruct Hq as [<-|Hq]; [|]); try destruct Hq;
    intros E; try (vm_compute in E; discriminate E); intros a; simpl; destruct (a 0%N), (a 1%N); reflexivity.
  - vm_compute. repeat split.
Qed.

(* D9: with the pinned root loop an unsatisfiable CNF with a root-implied literal compiled to the
   node (2 F F) instead of the false constant; the code as it is now returns the constant *)
Theorem C06_false_const_refuted_pinned :
  compile_raw false [0; 1; 2] true true d9_raw = Some (BN false 2%N BF BF) /\
  compile_raw false [0; 1; 2] false true d9_raw = Some BF /\
  forallb (fun k => negb (cnf_holds (fun v => Nat.testbit k v) d9_raw)) (seq 0 8) = true.
Proof. exact d9_pinned. Qed.
Print Assumptions C06_false_const_refuted_pinned.

(* non-vacuity: a permutation that is not the linear order, the hash guard, a run with a
   component-cache hit (both values of x1 leave the residual (x2 v x3); the harness counts 1 hit in
   3 lookups on this case) whose ghost flag stays true, a result with decision nodes, equal to the
   cache-less compiler's *)
Definition nv_raw : list clause := [[(0, true); (1, true)]; [(2, true); (3, true)]; [(0, false); (1, false)]].
Example C06_nonvacuous :
  Permutation [1; 0; 3; 2] (seq 0 (cnf_num_vars (cnf_new nv_raw))) /\ hash_guard nv_raw /\
  match compile_raw_g [1; 0; 3; 2] true nv_raw with
  | Some (r, fl) => fl = true /\ r <> BF /\ r <> BT /\
                    compile_raw false [1; 0; 3; 2] false false nv_raw = Some r
  | None => False
  end.
Proof.
  split; [|split].
  - vm_compute. apply perm_trans with [0; 1; 3; 2]; [apply perm_swap|].
    do 2 apply perm_skip. apply perm_swap.
  - unfold hash_guard. vm_compute. split; reflexivity.
  - vm_compute. repeat split; discriminate.
Qed.
