(* C06 — top-down CNF compilation to decision-DNNF is exact; conditioning is restriction.
   Property theorems only.  The model (Model/TopDown.v) is the code as it is NOW; the pinned
   variants (cond_helper: D8, root loop of compile_cnf_topdown: D9) are boolean-selected and
   refuted by vm_compute witnesses.  The solver is the repaired unit propagator of C09
   (pinned_up = false: the base case `level >= num_vars => true` needs C09's fix-point theorem). *)
From Coq Require Import Bool NArith List Arith Lia Permutation.
Import ListNotations.
From RsddV Require Import Base.Bdd Model.UnitProp Model.TopDown Model.Wmc Proofs.Wmc Proofs.TopDown.
From RsddV Require Import Proofs.UnitProp Proofs.UnitPropHash Proofs.TopDownSem.
From RsddV Require Model.Compile.

(* ---- conditioning ---- *)
(* for EVERY diagram in which no path tests a variable twice -- regular or complemented root, any
   shape, no ordering -- and every literal: cond_helper (as it is now) denotes the restriction *)
Theorem C06_cond_nnf_correct : forall p, free_bdd p -> forall v b x,
  den (condition false p v b) x = den p (upd x v b).
Proof. exact cond_nnf_correct. Qed.
Print Assumptions C06_cond_nnf_correct.

Theorem C06_cond_nnf_free : forall p v b, free_bdd p -> free_bdd (condition false p v b).
Proof. intros p v b. exact (cond_free p v b). Qed.
Print Assumptions C06_cond_nnf_free.

(* D8: the pinned cond_helper (complement-adjusted low()/high() and a second negation) is wrong
   already on the negated literal !x0 conditioned on x0 = true, and on the DESIGN replay
   (-x2)(x1)(-x1 v x3), negated, x1 := false *)
Theorem C06_cond_nnf_refuted_pinned :
  (free_bdd (BN true 0%N BF BT) /\
   cond_helper_m true (BN true 0%N BF BT) 0%N true = BT /\
   den (BN true 0%N BF BT) (upd (fun _ => false) 0%N true) = false /\
   cond_helper_m false (BN true 0%N BF BT) 0%N true = BF) /\
  match compile_raw false [0; 1; 2; 3] false true d8_raw with
  | Some r => cond_check true (neg r) 1%N false 4 = false /\ cond_check false (neg r) 1%N false 4 = true
  | None => False
  end.
Proof. split; [exact cond_nnf_refuted_pinned_min|exact d8_pinned]. Qed.
Print Assumptions C06_cond_nnf_refuted_pinned.

(* ---- building blocks ---- *)
Theorem C06_conjoin_implied_sem : forall lits sub x,
  den (conjoin_implied lits sub) x = forallb (lit_evalN x) lits && den sub x.
Proof. exact conjoin_implied_sem. Qed.
Print Assumptions C06_conjoin_implied_sem.

Theorem C06_conjoin_implied_false : forall lits sub, conjoin_implied lits sub = BF <-> sub = BF.
Proof. exact conjoin_implied_false_iff. Qed.
Print Assumptions C06_conjoin_implied_false.

Theorem C06_decision_node_sem : forall v low high x,
  den (decision_node v low high) x = if x v then den high x else den low x.
Proof. exact decision_node_sem. Qed.
Print Assumptions C06_decision_node_sem.

(* equal residual formulas => the same conditioned CNF (what a component-cache hit needs) *)
Theorem C06_cache_hit_sound : forall cls m1 m2,
  residual (sat_clauses_of cls) m1 = residual (sat_clauses_of cls) m2 ->
  forall a, cnf_holds (ov m1 a) cls = cnf_holds (ov m2 a) cls.
Proof. exact residual_sem. Qed.
Print Assumptions C06_cache_hit_sound.

(* ---- the compiler ---- *)
(* MAIN (cache-less algorithm: every lookup misses): for every CNF and every order that is a
   permutation of its variables the compiler returns (never out of fuel), the false constant
   exactly when the CNF is unsatisfiable, a diagram denoting exactly the CNF, in which no path
   decides a variable twice.  No further hypothesis. *)
Theorem C06_main : forall order raw,
  Permutation order (seq 0 (cnf_num_vars (cnf_new raw))) ->
  exists r, compile_raw false order false false raw = Some r /\
    (r = BF <-> forall x, Compile.cnf_eval (cnfN raw) x = false) /\
    (forall x, den r x = Compile.cnf_eval (cnfN raw) x) /\ free_bdd r.
Proof. exact topdown_correct_nocache. Qed.
Check C06_main : forall order raw,
  Permutation order (seq 0 (cnf_num_vars (cnf_new raw))) ->
  exists r, compile_raw false order false false raw = Some r /\
    (r = BF <-> forall x, Compile.cnf_eval (cnfN raw) x = false) /\
    (forall x, den r x = Compile.cnf_eval (cnfN raw) x) /\ free_bdd r.
Print Assumptions C06_main.

(* WITH the component cache, as coded: under C09's guard (0 < product of the literal primes <
   2^128, which makes "equal hash => equal residual formula" a theorem, C09_hash_injective) the
   compiler returns, the false constant exactly for unsatisfiable CNFs, and the result denotes
   exactly the CNF: caching and unit propagation never change the denoted function. *)
Theorem C06_topdown_correct : forall order raw,
  Permutation order (seq 0 (cnf_num_vars (cnf_new raw))) -> hash_guard raw ->
  exists r, compile_raw false order false true raw = Some r /\
    (r = BF <-> forall x, Compile.cnf_eval (cnfN raw) x = false) /\
    (forall x, den r x = Compile.cnf_eval (cnfN raw) x).
Proof. exact topdown_correct. Qed.
Print Assumptions C06_topdown_correct.

(* the same with cache soundness as an explicit hypothesis about the solver model's cur_hash
   (any clause list with labels in range and C09's rem_adj_ok) *)
Theorem C06_topdown_correct_hyp : forall order cls nvars,
  lits_in_range nvars cls -> rem_adj_ok cls -> Permutation order (seq 0 nvars) ->
  (forall s0, sat_new false cls nvars = NewSome s0 -> hash_ok s0) ->
  exists r, compile_cnf_topdown false order false true cls nvars = Some r /\
    (r = BF <-> forall x, Compile.cnf_eval (cnfN cls) x = false) /\
    (forall x, den r x = Compile.cnf_eval (cnfN cls) x).
Proof. exact topdown_correct_hyp. Qed.
Print Assumptions C06_topdown_correct_hyp.

(* PARTIAL: "no path decides a variable twice" for the cached compiler.  Full statement: *)
Definition C06_full_statement : Prop := topdown_full_statement.
(* proved: for every run whose ghost flag stays true, i.e. in which no cache hit returned a diagram
   that tests a variable assigned at the time of the hit (compile_raw_g is compile_raw plus that
   flag; the flag is evaluated by the extracted driver on every correspondence case, and the
   harness oracle checks the paths of the real diagrams). *)
Theorem C06_topdown_free_partial : forall order raw,
  Permutation order (seq 0 (cnf_num_vars (cnf_new raw))) -> hash_guard raw ->
  exists r fl, compile_raw_g order true raw = Some (r, fl) /\
    compile_raw false order false true raw = Some r /\ (fl = true -> free_bdd r).
Proof. exact topdown_free_partial. Qed.
Print Assumptions C06_topdown_free_partial.

Theorem C06_ghost_erasure : forall order uc raw,
  compile_raw false order false uc raw = option_map fst (compile_raw_g order uc raw).
Proof. exact compile_raw_g_erase. Qed.
Print Assumptions C06_ghost_erasure.

(* D9: with the pinned root loop an unsatisfiable CNF with a root-implied literal compiled to the
   node (2 F F) instead of the false constant; the code as it is now returns the constant *)
Theorem C06_false_const_refuted_pinned :
  compile_raw false [0; 1; 2] true true d9_raw = Some (BN false 2%N BF BF) /\
  compile_raw false [0; 1; 2] false true d9_raw = Some BF /\
  forallb (fun k => negb (cnf_holds (fun v => Nat.testbit k v) d9_raw)) (seq 0 8) = true.
Proof. exact d9_pinned. Qed.
Print Assumptions C06_false_const_refuted_pinned.

(* non-vacuity: a permutation that is not the linear order, the hash guard, a run with a
   component-cache hit (both values of x1 leave the residual (x2 v x3); the harness counts 1 hit in
   3 lookups on this case) whose ghost flag stays true, a result with decision nodes, equal to the
   cache-less compiler's *)
Definition nv_raw : list clause := [[(0, true); (1, true)]; [(2, true); (3, true)]; [(0, false); (1, false)]].
Example C06_nonvacuous :
  Permutation [1; 0; 3; 2] (seq 0 (cnf_num_vars (cnf_new nv_raw))) /\ hash_guard nv_raw /\
  match compile_raw_g [1; 0; 3; 2] true nv_raw with
  | Some (r, fl) => fl = true /\ r <> BF /\ r <> BT /\
                    compile_raw false [1; 0; 3; 2] false false nv_raw = Some r
  | None => False
  end.
Proof.
  split; [|split].
  - vm_compute. apply perm_trans with [0; 1; 3; 2]; [apply perm_swap|].
    do 2 apply perm_skip. apply perm_swap.
  - unfold hash_guard. vm_compute. split; reflexivity.
  - vm_compute. repeat split; discriminate.
Qed.
