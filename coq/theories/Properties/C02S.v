(* C02S — store layer of C02: "equal functions are the same BDD node ... remains true after the
   node table has grown any number of times".  The unique table
   (rsdd::backing_store::bump_table::BackedRobinhoodTable, model: Model/RobinHood.v) refines a
   finite set with stable identities over an append-only arena.
   Property theorems only: each is closed by [exact], pinned by [Check] (main theorem) and
   followed by [Print Assumptions]. *)
From Coq Require Import Bool NArith List Lia Arith.
Import ListNotations.
From RsddV Require Import Generated.Constants Model.RobinHood Proofs.RobinHood.

(* The full statement (DESIGN §3 C02, T): for every hash function H on elements (all collision
   patterns), every initial capacity >= 1 and every list es of calls
   get_or_insert_by_hash (H e) e false on the code as it is now ([run true]): if no call hits
   the u8 psl overflow (the run returns Ok), then
   - one id per call, and id_i = id_j <-> e_i = e_j;
   - in the final arena every returned id denotes the element it was returned for;
   - num_nodes (= len) and the arena length are the number of distinct elements;
   - hits = number of calls that found an existing element;
   through any number of growths (the capacity is unbounded, the history arbitrary). *)
Definition C02S_rh_refines_set_statement : Prop :=
  forall (H : N -> N) (c : nat) (es : list N) (ids : list nat) (t' : table),
  1 <= c -> run true H (new_table c) es = Ok (ids, t') ->
  length ids = length es /\
  (forall i j, i < length es -> j < length es ->
     (nth i ids 0 = nth j ids 0 <-> nth i es 0%N = nth j es 0%N)) /\
  (forall i, i < length es -> nth (nth i ids 0) (arena t') 0%N = nth i es 0%N) /\
  num_nodes t' = length (nodup N.eq_dec es) /\
  length (arena t') = length (nodup N.eq_dec es) /\
  hits t' + length (nodup N.eq_dec es) = length es.

Theorem C02S_rh_refines_set : C02S_rh_refines_set_statement.
Proof. exact rh_refines_set. Qed.
Check C02S_rh_refines_set : forall (H : N -> N) (c : nat) (es : list N) (ids : list nat) (t' : table),
  1 <= c -> run true H (new_table c) es = Ok (ids, t') ->
  length ids = length es /\
  (forall i j, i < length es -> j < length es ->
     (nth i ids 0 = nth j ids 0 <-> nth i es 0%N = nth j es 0%N)) /\
  (forall i, i < length es -> nth (nth i ids 0) (arena t') 0%N = nth i es 0%N) /\
  num_nodes t' = length (nodup N.eq_dec es) /\
  length (arena t') = length (nodup N.eq_dec es) /\
  hits t' + length (nodup N.eq_dec es) = length es.
Print Assumptions C02S_rh_refines_set.

(* The error branch excluded above is only the psl overflow: the probing loop and propagate
   never run out of fuel (a free slot always exists because len < cap by the load factor), for
   every hash function, capacity and history. *)
Theorem C02S_rh_never_out_of_fuel : forall (H : N -> N) (c : nat) (es : list N),
  1 <= c -> run true H (new_table c) es <> OutOfFuel.
Proof. exact rh_never_out_of_fuel. Qed.
Print Assumptions C02S_rh_never_out_of_fuel.

(* ... and the psl guard itself is vacuous for histories with at most 255 distinct elements
   (a probe distance is smaller than the number of stored elements): every call returns. *)
Theorem C02S_rh_total_small : forall (H : N -> N) (c : nat) (es : list N),
  1 <= c -> length (nodup N.eq_dec es) <= 255 ->
  exists ids t', run true H (new_table c) es = Ok (ids, t').
Proof. exact rh_total_small. Qed.
Print Assumptions C02S_rh_total_small.

(* arena_append_only: split any history in two; every id handed out in the first part denotes
   its element when it is handed out (arena of the intermediate table t1) and still denotes it
   in the arena of every later table t', which extends t1's arena. *)
Theorem C02S_arena_append_only : forall (H : N -> N) (c : nat) (es1 es2 : list N) (ids : list nat) (t' : table),
  1 <= c -> run true H (new_table c) (es1 ++ es2) = Ok (ids, t') ->
  exists ids1 t1 ids2,
    run true H (new_table c) es1 = Ok (ids1, t1) /\ ids = ids1 ++ ids2 /\
    (exists suf, arena t' = arena t1 ++ suf) /\
    forall k, k < length es1 ->
      nth k ids 0 = nth k ids1 0 /\ nth k ids1 0 < length (arena t1) /\
      nth (nth k ids1 0) (arena t1) 0%N = nth k es1 0%N /\
      nth (nth k ids1 0) (arena t') 0%N = nth k es1 0%N.
Proof. exact arena_append_only. Qed.
Print Assumptions C02S_arena_append_only.

(* One call never rewrites the arena: for either grow, any table (no invariant needed), any
   hash, element and equality mode. *)
Theorem C02S_arena_append_only_step : forall fixed t h e b id t',
  get_or_insert_by_hash fixed t h e b = Ok (id, t') -> exists suf, arena t' = arena t ++ suf.
Proof. exact arena_append_only_step. Qed.
Print Assumptions C02S_arena_append_only_step.

(* get_by_hash on any table reached by such a history: never out of fuel; an id comes back
   only for a stored element whose hash is the argument (and the table is unchanged but for the
   hit counter); None only if no inserted element has that hash. *)
Theorem C02S_rh_get_by_hash_spec : forall (H : N -> N) (c : nat) (es : list N) (ids : list nat) (t : table) (h : N),
  1 <= c -> run true H (new_table c) es = Ok (ids, t) ->
  get_by_hash t h <> OutOfFuel /\
  (forall id t', get_by_hash t h = Ok (Some id, t') ->
     id < length (arena t) /\ In (nth id (arena t) 0%N) es /\ H (nth id (arena t) 0%N) = h /\
     arena t' = arena t /\ tbl t' = tbl t) /\
  (forall t', get_by_hash t h = Ok (None, t') -> t' = t /\ forall x, In x es -> H x <> h).
Proof. exact rh_get_by_hash_spec. Qed.
Print Assumptions C02S_rh_get_by_hash_spec.

(* D1: with the pinned grow (every slot re-inserted, ghosts included, old psl kept) the same
   model refutes the statement: capacity 2, elements 0 and 1 hashed to 0 and 1, both
   re-requested -- the second request of element 1 gets a new id and num_nodes is 3. *)
Theorem C02S_rh_refuted_pinned :
  exists ids t', run false (fun e => e) (new_table 2) [0; 1; 0; 1]%N = Ok (ids, t') /\
    nth 1 [0; 1; 0; 1]%N 0%N = nth 3 [0; 1; 0; 1]%N 0%N /\ nth 1 ids 0 <> nth 3 ids 0 /\
    num_nodes t' = 3.
Proof. exact rh_refuted_pinned. Qed.
Print Assumptions C02S_rh_refuted_pinned.

(* non-vacuity: the hypothesis [run ... = Ok _] is satisfiable on a history with colliding and
   wrapping homes (hash = e mod 3 at capacity 2, 4, 8, 16), robin-hood swaps, three growths and
   re-requests; the ids are the first-occurrence indices of the distinct elements. *)
Example C02S_nonvacuous :
  let H := fun e => (e mod 3)%N in
  let es := [7; 4; 1; 7; 10; 2; 4; 13; 5; 8; 1; 11; 10; 2]%N in
  exists t', run true H (new_table 2) es = Ok ([0; 1; 2; 0; 3; 4; 1; 5; 6; 7; 2; 8; 3; 4], t') /\
             num_nodes t' = 9 /\ cap t' = 16 /\ hits t' = 5.
Proof. eexists. split; [vm_compute; reflexivity|]. vm_compute. auto. Qed.

(* the load test of the model with the constants read from the source today *)
Example C02S_load_factor_lt_one : load_num < load_den.
Proof. unfold load_num, load_den. lia. Qed.
