(* C10B — bdd_fold (the fold behind marginal MAP / MEU / branch and bound) and decision-DNNF
   conditioning are pure w.r.t. the per-node scratch; any interleaving of the scratch-using public
   queries of repr/bdd.rs answers like the pure functions.  Sub-engine of C10.

   Model/ScratchFold.v: one scratch state [cscratch T] = node -> option payload, payloads
   [CPair ty a b] (the (Option<X>, Option<X>) of bdd_fold_h AND of the DDNNF fold, [ty] = TypeId of
   X), [CCount] (usize), [CPtr b] (BddPtr), [COther]; [bdd_fold_h] as coded (four match arms,
   fold_helper, set_scratch by polarity), [bdd_fold_public] = bdd_fold_h then clear_scratch;
   [cfold_public] / [ccount_public] = the DDNNF fold / count_nodes of Model/Scratch.v over this state;
   [dnnf_condition_s] = decision-DNNF cond_helper (reads scratch::<BddPtr>(), never writes) then
   clear_scratch. *)
From Coq Require Import Bool NArith List Lia Arith.
Import ListNotations.
From RsddV Require Import Base.Bdd Model.Wmc Model.Scratch Model.TopDown Model.Optim Model.ScratchFold
  Proofs.Scratch Proofs.ScratchFold.

(* the plain recursion the theorems below speak about is the bdd_fold of Model/Optim.v, i.e. the
   one C12's marginal MAP / MEU / bb theorems are about *)
Theorem C10B_plain_is_optim : forall (T : Type) (f : var -> T -> T -> T) (low_v high_v : T) c0 p,
  bdd_fold_plain T f low_v high_v c0 p = bdd_fold_c f low_v high_v c0 p.
Proof. exact bdd_fold_plain_eq_optim. Qed.
Print Assumptions C10B_plain_is_optim.

(* bdd_fold_memo_eq: from ANY scratch state in which the entries of this result type hold plain
   values and marks are closed under descendants (entries of any other type are arbitrary), the
   memoised bdd_fold_h returns the plain recursion's value, keeps the invariant, changes scratch
   only on reachable nodes, marks all of them, and never empties a slot. *)
Theorem C10B_bdd_fold_memo_eq : forall (T : Type) (ty : tyid) (f : var -> T -> T -> T) (low_v high_v : T)
    p c0 (s : cscratch T),
  binv T ty f low_v high_v s ->
  let '(r, s') := bdd_fold_h T ty f low_v high_v c0 p s in
  r = bdd_fold_plain T f low_v high_v c0 p /\ binv T ty f low_v high_v s' /\
  (forall n, ~ In n (nodes p) -> s' n = s n) /\
  (forall n, In n (nodes p) -> s' n <> None) /\
  (forall n, s n <> None -> s' n <> None).
Proof. exact bdd_fold_h_spec. Qed.
Print Assumptions C10B_bdd_fold_memo_eq.

(* clear_scratch with its short-circuit, over the common scratch *)
Theorem C10B_clear_spec : forall (T : Type) p (s : cscratch T),
  (forall v lo hi, In (v, lo, hi) (nodes p) -> s (v, lo, hi) = None -> forall m, In m (nodes lo ++ nodes hi) -> s m = None) ->
  (forall n, In n (nodes p) -> cclear T p s n = None) /\
  (forall n, ~ In n (nodes p) -> cclear T p s n = s n) /\
  (forall n, s n = None -> cclear T p s n = None).
Proof. exact cclear_spec. Qed.
Print Assumptions C10B_clear_spec.

(* bdd_fold_public_pure (MAIN): all-empty scratch in => plain value out and all-empty scratch *)
Theorem C10B_main : forall (T : Type) (ty : tyid) (f : var -> T -> T -> T) (low_v high_v : T) p (s : cscratch T),
  call_empty T s ->
  fst (bdd_fold_public T ty f low_v high_v p s) = bdd_fold_plain T f low_v high_v false p /\
  call_empty T (snd (bdd_fold_public T ty f low_v high_v p s)).
Proof. exact bdd_fold_public_pure. Qed.
Check C10B_main : forall (T : Type) (ty : tyid) (f : var -> T -> T -> T) (low_v high_v : T) p (s : cscratch T),
  call_empty T s ->
  fst (bdd_fold_public T ty f low_v high_v p s) = bdd_fold_plain T f low_v high_v false p /\
  call_empty T (snd (bdd_fold_public T ty f low_v high_v p s)).
Print Assumptions C10B_main.

(* the same from any state satisfying the invariant (e.g. littered with descendant-closed entries
   of other types): right answer, the diagram emptied, nothing empty becomes full *)
Theorem C10B_bdd_fold_public_from_inv : forall (T : Type) (ty : tyid) (f : var -> T -> T -> T) (low_v high_v : T)
    p (s : cscratch T),
  binv T ty f low_v high_v s ->
  fst (bdd_fold_public T ty f low_v high_v p s) = bdd_fold_plain T f low_v high_v false p /\
  (forall n, In n (nodes p) -> snd (bdd_fold_public T ty f low_v high_v p s) n = None) /\
  (forall n, s n = None -> snd (bdd_fold_public T ty f low_v high_v p s) n = None).
Proof. exact bdd_fold_public_from_inv. Qed.
Print Assumptions C10B_bdd_fold_public_from_inv.

(* bdd_fold_queries_commute: any sequence of bdd_fold queries of one result type -- different node
   functions, different base values, diagrams sharing any sub-structure (slots are keyed by node) --
   answers, call by call, like the plain recursion, and ends all-empty *)
Theorem C10B_bdd_fold_queries_commute : forall (T : Type) (ty : tyid) (qs : list (bquery T)) (s : cscratch T),
  call_empty T s ->
  fst (run_bqueries T ty qs s) =
    map (fun q => let '(f, lo, hi, p) := q in bdd_fold_plain T f lo hi false p) qs /\
  call_empty T (snd (run_bqueries T ty qs s)).
Proof. exact bdd_fold_queries_commute. Qed.
Print Assumptions C10B_bdd_fold_queries_commute.

(* the DDNNF fold and count_nodes over the common scratch: simulated by Model/Scratch.v's, hence
   pure by C10's theorems *)
Theorem C10B_ddnnf_fold_sim : forall (T : Type) (ty : tyid) add mul zero one wlo whi p c0
    (cs : cscratch T) (s : scratch T),
  sim T ty cs s ->
  fst (cfold_memo T ty add mul zero one wlo whi c0 p cs) = fst (fold_memo T add mul zero one wlo whi c0 p s) /\
  sim T ty (snd (cfold_memo T ty add mul zero one wlo whi c0 p cs)) (snd (fold_memo T add mul zero one wlo whi c0 p s)).
Proof. exact cfold_sim. Qed.
Print Assumptions C10B_ddnnf_fold_sim.

Theorem C10B_count_sim : forall (T : Type) (ty : tyid) p (cs : cscratch T) (s : scratch T) k,
  sim T ty cs s ->
  snd (ccount_h T p (cs, k)) = snd (count_h T p (s, k)) /\
  sim T ty (fst (ccount_h T p (cs, k))) (fst (count_h T p (s, k))).
Proof. exact ccount_sim. Qed.
Print Assumptions C10B_count_sim.

Theorem C10B_ddnnf_fold_public_pure : forall (T : Type) (ty : tyid) add mul zero one wlo whi p (cs : cscratch T),
  call_empty T cs ->
  fst (cfold_public T ty add mul zero one wlo whi p cs) = wmc_c T add mul zero one wlo whi false p /\
  call_empty T (snd (cfold_public T ty add mul zero one wlo whi p cs)).
Proof. exact cfold_public_pure. Qed.
Print Assumptions C10B_ddnnf_fold_public_pure.

Theorem C10B_count_public_pure : forall (T : Type) p (cs : cscratch T),
  call_empty T cs ->
  fst (ccount_public T p cs) = count_pure p /\ call_empty T (snd (ccount_public T p cs)).
Proof. exact ccount_public_pure. Qed.
Print Assumptions C10B_count_public_pure.

(* dnnf_condition_scratch_pure: decision-DNNF condition leaves an all-empty scratch all-empty and
   returns the scratch-free cond_helper of Model/TopDown.v (the one C06's theorems are about) *)
Theorem C10B_dnnf_condition_scratch_pure : forall (T : Type) p lbl value (s : cscratch T),
  call_empty T s ->
  fst (dnnf_condition_s T p lbl value s) = cond_helper p lbl value /\
  call_empty T (snd (dnnf_condition_s T p lbl value s)).
Proof. exact dnnf_condition_scratch_pure. Qed.
Print Assumptions C10B_dnnf_condition_scratch_pure.

(* ... and its result depends on the scratch only through BddPtr-typed entries of reachable nodes:
   whatever else is there (fold pairs, counts, other types) is not seen *)
Theorem C10B_dnnf_condition_reads_only_ptr : forall (T : Type) p lbl value (s : cscratch T),
  (forall n, In n (nodes p) -> read_ptr T s n = None) ->
  fst (dnnf_condition_s T p lbl value s) = cond_helper p lbl value.
Proof. exact dnnf_condition_reads_only_ptr. Qed.
Print Assumptions C10B_dnnf_condition_reads_only_ptr.

(* mixed_queries_commute: any sequence mixing the DDNNF fold (any semiring operations, any weights,
   any TypeId -- including the one a bdd_fold in the sequence uses), count_nodes, bdd_fold (any node
   function / base values / TypeId) and decision-DNNF conditioning, on diagrams sharing any
   sub-structure, answers call by call like the pure functions and ends all-empty *)
Theorem C10B_mixed_queries_commute : forall (T : Type) (qs : list (mquery T)) (s : cscratch T),
  call_empty T s ->
  fst (run_mixed T qs s) = map (pure_answer T) qs /\ call_empty T (snd (run_mixed T qs s)).
Proof. exact mixed_queries_commute. Qed.
Print Assumptions C10B_mixed_queries_commute.

(* non-vacuity: diagrams sharing the node (2, F, T), which ex_p reaches in both polarities (so its
   (compl, reg) pair is filled on both sides and then hit); three different node functions and two
   pairs of base values; a weighted count with the SAME TypeId as the bdd_folds around it and a
   bdd_fold with another one; a count and a conditioning in between *)
Example C10B_nonvacuous :
  fst (run_mixed N ex_qs (cempty N)) = map (pure_answer N) ex_qs
  /\ map (pure_answer N) ex_qs =
       [AVal 6%N; AVal 15%N; AVal 0%N; ANat 3; AVal 4%N; APtr (BN true 0%N (BN false 2%N BF BT) BT); AVal 10%N]
  /\ map (snd (bdd_fold_h N 0%N ex_f1 0%N 1%N false ex_p (cempty N))) (nodes ex_p) =
       [Some (CPair 0%N (Some 6%N) None); Some (CPair 0%N (Some 4%N) (Some 5%N));
        Some (CPair 0%N (Some 4%N) None); Some (CPair 0%N (Some 4%N) (Some 5%N))].
Proof. exact ex_nonvacuous. Qed.

(* the invariant of C10B_bdd_fold_memo_eq holds in a non-empty state (the one above, mid-query) and
   in a state littered with another query's garbage: a count mark left on the shared node
   (2, F, T), from which a bdd_fold on ex_p still answers 6 and empties its diagram *)
Example C10B_nonvacuous_inv :
  binv N 0%N ex_f1 0%N 1%N (snd (bdd_fold_h N 0%N ex_f1 0%N 1%N false ex_p (cempty N))).
Proof. exact ex_nonvacuous_inv. Qed.
Example C10B_nonvacuous_garbage :
  let n2 : node := (2%N, BF, BT) in
  let s := cset N (cempty N) n2 (Some CCount) in
  binv N 0%N ex_f1 0%N 1%N s /\
  fst (bdd_fold_public N 0%N ex_f1 0%N 1%N ex_p s) = 6%N /\
  map (snd (bdd_fold_public N 0%N ex_f1 0%N 1%N ex_p s)) (nodes ex_p) = [None; None; None; None].
Proof. exact ex_nonvacuous_garbage. Qed.
