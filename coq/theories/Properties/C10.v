(* C10 — queries are pure: answers never depend on earlier queries. *)
From Coq Require Import Bool NArith List Lia Arith.
Import ListNotations.
From RsddV Require Import Base.Bdd Model.Wmc Model.Scratch Proofs.Scratch Proofs.ScratchCount.

(* The memoised fold behind unsmoothed_wmc / evaluate / semantic_hash (any carrier, any weights):
   from any scratch state satisfying the fold invariant it returns the value of the plain
   recursion, changes scratch only on reachable nodes, and marks all of them. *)
Theorem C10_fold_memo_eq : forall (S : Type) add mul zero one wlo whi p c0 (s : scratch S),
  finv S add mul zero one wlo whi s ->
  let '(r, s') := fold_memo S add mul zero one wlo whi c0 p s in
  r = wmc_c S add mul zero one wlo whi c0 p /\ finv S add mul zero one wlo whi s' /\
  (forall n, ~ In n (nodes p) -> s' n = s n) /\
  (forall n, In n (nodes p) -> s' n <> None) /\
  (forall n, s n <> None -> s' n <> None).
Proof. exact fold_memo_spec. Qed.
Print Assumptions C10_fold_memo_eq.

(* clear_scratch, with its "stop at an already empty node" short-circuit, empties every reachable
   node whenever emptiness is closed under descendants inside the diagram *)
Theorem C10_clear_spec : forall (S : Type) p (s : scratch S),
  (forall v lo hi, In (v, lo, hi) (nodes p) -> s (v, lo, hi) = None -> forall m, In m (nodes lo ++ nodes hi) -> s m = None) ->
  (forall n, In n (nodes p) -> clear S p s n = None) /\
  (forall n, ~ In n (nodes p) -> clear S p s n = s n) /\
  (forall n, s n = None -> clear S p s n = None).
Proof. exact clear_spec. Qed.
Print Assumptions C10_clear_spec.

(* a public fold maps the all-empty scratch state to the all-empty scratch state and answers
   what the pure recursion answers *)
Theorem C10_query_pure : forall (S : Type) add mul zero one wlo whi p (s : scratch S),
  all_empty S s ->
  fst (fold_public S add mul zero one wlo whi p s) = wmc_c S add mul zero one wlo whi false p /\
  all_empty S (snd (fold_public S add mul zero one wlo whi p s)).
Proof. exact fold_public_pure. Qed.
Check C10_query_pure : forall (S : Type) add mul zero one wlo whi p (s : scratch S),
  all_empty S s ->
  fst (fold_public S add mul zero one wlo whi p s) = wmc_c S add mul zero one wlo whi false p /\
  all_empty S (snd (fold_public S add mul zero one wlo whi p s)).
Print Assumptions C10_query_pure.

(* THE PROPERTY for folds: any sequence of queries with any weights on any diagrams (sharing any
   sub-structure: the scratch slots are keyed by node, not by diagram) returns, call by call, the
   answers of the pure versions -- i.e. the answers a freshly built copy would give -- and every
   per-node scratch slot is empty again when each public call returns. *)
Theorem C10_queries_commute : forall (S : Type) add mul zero one (qs : list (query S)) (s : scratch S),
  all_empty S s ->
  fst (run_queries S add mul zero one qs s) =
    map (fun q => let '(wlo, whi, p) := q in wmc_m S add mul zero one wlo whi p) qs /\
  all_empty S (snd (run_queries S add mul zero one qs s)).
Proof. exact queries_commute. Qed.
Print Assumptions C10_queries_commute.

(* count_nodes (top-down marking with a usize in the scratch slot): from an all-empty scratch state
   it returns the number of distinct reachable nodes and leaves every slot empty again *)
Theorem C10_count_nodes_pure : forall (S : Type) p (s : scratch S), all_empty S s ->
  all_empty S (snd (count_public S p s)) /\
  exists L, NoDup L /\ (forall n, In n L <-> In n (nodes p)) /\ fst (count_public S p s) = length L.
Proof. exact count_public_pure. Qed.
Print Assumptions C10_count_nodes_pure.

(* The bound folds of the optimisation queries (bdd_fold), conditioning and smoothing are modelled
   as pure functions (C12; C01; C08) and tied to the code by the stateful correspondence and the
   is_scratch_cleared / fresh-copy oracle. *)

Example C10_nonvacuous :
  let shared := BN false 2%N BF BT in
  let p := BN true 0%N shared (BN false 1%N shared BT) in
  let q := BN false 1%N BT shared in
  let w1 := fun _ : var => 1%N in let w2 := fun v : var => (v + 2)%N in
  fst (run_queries N N.add N.mul 0%N 1%N [(w1, w1, p); (w2, w1, q); (w1, w2, p)] (empty_scratch N))
  = [wmc_m N N.add N.mul 0%N 1%N w1 w1 p; wmc_m N N.add N.mul 0%N 1%N w2 w1 q; wmc_m N N.add N.mul 0%N 1%N w1 w2 p].
Proof. vm_compute. reflexivity. Qed.
