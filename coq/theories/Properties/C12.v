(* C12 — marginal MAP, MEU and the generic branch and bound return true optima.

   Models (Model/Optim.v): marginal_map_m / marginal_map_h_m / marginal_map_eval_m, meu_m / meu_h_m /
   eu_ub_m, bb_m / bb_h_m / bb_ub_m (instances bb_real_m, bb_eu_m) over bdd_fold with the complement
   pushed to the children; partial models as functions var -> option bool.

   Objectives (Proofs/Optim.v), all defined from the denoted function [den p] only:
   * mm_value wlo whi p Q others a  =  (product over q in Q of the weight of the literal a chooses)
       * wmc_spec others (den p) a      -- the sum over all assignments of the variables [others]
                                           (the query variables keep a's values) of the product of
                                           their literal weights, restricted to the models;
   * meu_value wlo whi p Q vars a   =  wmc_dep vars (fun y => den p (mix Q a y)) a
       -- the dependency-restricted sum of the function restricted to the decisions a: recursion over
          [vars] (listed by increasing level), branching only on variables the sub-function depends
          on, i.e. the unsmoothed count of the ROBDD of the restricted function (what tests/test.rs
          `meu` compares with);
   * bbe_value = (product of the chosen decision literals' weights) * meu_value.
   The search state: [Inv Q m rest] = the partial model m assigns some of the query variables Q,
   [rest] (duplicate-free) are exactly the others; [agrees m a] = the total assignment a extends m. *)
From Coq Require Import Bool NArith ZArith QArith Qcanon List Lia Arith.
Import ListNotations.
From RsddV Require Import Base.Bdd Model.Semirings Proofs.Semirings Model.Wmc Proofs.Wmc
  Proofs.BddCanon Proofs.Smooth Model.Optim Proofs.Optim.
Local Open Scope Qc_scope.

(* ------------------------------------------------------------------------------------- *)
(* marginal MAP                                                                            *)

(* leaf_value_exact: once every query variable is assigned, marginal_map_eval (fold, then the
   weights of the assigned literals) is exactly the weighted count of the function restricted to
   that assignment.  For every diagram in which no path repeats a variable (in particular every
   ordered BDD, C12_ordered_is_free), weights with lo + hi = 1 on the non-query variables. *)
Theorem C12_leaf_value_exact : forall (n : nat) (wlo whi : var -> Qc) (p : bdd) (Q others : list var),
  free_bdd p -> NoDup Q -> NoDup others -> (forall x, In x Q -> ~ In x others) ->
  (forall u, In u (support p) -> In u Q \/ In u others) ->
  (forall q, In q Q -> (N.to_nat q < n)%nat) ->
  (forall v, In v others -> wlo v + whi v = 1 /\ 0 <= wlo v /\ 0 <= whi v) ->
  forall (m : pm) (a : asg), Inv Q m [] -> agrees m a ->
  marginal_map_eval_m n wlo whi p m [] = mm_value wlo whi p Q others a.
Proof. exact mm_leaf_value_exact. Qed.
Print Assumptions C12_leaf_value_exact.

(* ub_is_upper_bound: for every partial assignment of the query variables and every completion, the
   bound is at least the value of the completion (weights in [0,1]). *)
Theorem C12_ub_is_upper_bound : forall (n : nat) (wlo whi : var -> Qc) (p : bdd) (Q others : list var),
  free_bdd p -> NoDup Q -> NoDup others -> (forall x, In x Q -> ~ In x others) ->
  (forall u, In u (support p) -> In u Q \/ In u others) ->
  (forall q, In q Q -> (N.to_nat q < n)%nat) ->
  (forall q, In q Q -> 0 <= wlo q <= 1 /\ 0 <= whi q <= 1) ->
  (forall v, In v others -> wlo v + whi v = 1 /\ 0 <= wlo v /\ 0 <= whi v) ->
  forall (m : pm) (rest : list var) (a : asg), Inv Q m rest -> agrees m a ->
  mm_value wlo whi p Q others a <= marginal_map_eval_m n wlo whi p m rest.
Proof. exact mm_ub_is_upper_bound. Qed.
Print Assumptions C12_ub_is_upper_bound.

(* bnb_optimal (MAIN): marginal_map does not panic, returns (v, pi) where pi sets exactly the query
   variables (also those the function ignores; for the empty list the empty model), v is the
   weighted count of pi, and no assignment of the query variables has a larger weighted count. *)
Theorem C12_bnb_optimal : forall (n : nat) (wlo whi : var -> Qc) (p : bdd) (Q others : list var),
  free_bdd p -> NoDup Q -> NoDup others -> (forall x, In x Q -> ~ In x others) ->
  (forall u, In u (support p) -> In u Q \/ In u others) ->
  (forall q, In q Q -> (N.to_nat q < n)%nat) ->
  (forall q, In q Q -> 0 <= wlo q <= 1 /\ 0 <= whi q <= 1) ->
  (forall v, In v others -> wlo v + whi v = 1 /\ 0 <= wlo v /\ 0 <= whi v) ->
  exists (v : Qc) (pi : pm),
    marginal_map_m n wlo whi p Q = Some (v, pi) /\
    (forall x, pi x <> None <-> In x Q) /\
    v = mm_value wlo whi p Q others (asg_of pi) /\
    (forall a : asg, mm_value wlo whi p Q others a <= v).
Proof. exact marginal_map_optimal. Qed.
Check C12_bnb_optimal : forall (n : nat) (wlo whi : var -> Qc) (p : bdd) (Q others : list var),
  free_bdd p -> NoDup Q -> NoDup others -> (forall x, In x Q -> ~ In x others) ->
  (forall u, In u (support p) -> In u Q \/ In u others) ->
  (forall q, In q Q -> (N.to_nat q < n)%nat) ->
  (forall q, In q Q -> 0 <= wlo q <= 1 /\ 0 <= whi q <= 1) ->
  (forall v, In v others -> wlo v + whi v = 1 /\ 0 <= wlo v /\ 0 <= whi v) ->
  exists (v : Qc) (pi : pm),
    marginal_map_m n wlo whi p Q = Some (v, pi) /\
    (forall x, pi x <> None <-> In x Q) /\
    v = mm_value wlo whi p Q others (asg_of pi) /\
    (forall a : asg, mm_value wlo whi p Q others a <= v).
Print Assumptions C12_bnb_optimal.

(* every ordered BDD, under any order, is free: the theorems above apply to every result of the
   builder *)
Theorem C12_ordered_is_free : forall (level : var -> nat) k p, wfb level k p -> free_bdd p.
Proof. exact wfb_free. Qed.
Print Assumptions C12_ordered_is_free.

(* ------------------------------------------------------------------------------------- *)
(* generic branch and bound over the real semiring (pruning test against cur_lb, reset branch,
   ties broken towards the true branch: a different but equally optimal assignment) *)
Theorem C12_bb_real_leaf_value_exact : forall (n : nat) (wlo whi : var -> Qc) (p : bdd) (Q others : list var),
  free_bdd p -> NoDup Q -> NoDup others -> (forall x, In x Q -> ~ In x others) ->
  (forall u, In u (support p) -> In u Q \/ In u others) ->
  (forall q, In q Q -> (N.to_nat q < n)%nat) ->
  (forall v, In v others -> wlo v + whi v = 1 /\ 0 <= wlo v /\ 0 <= whi v) ->
  forall (m : pm) (a : asg), Inv Q m [] -> agrees m a ->
  bb_ub_m real_bb n wlo whi p m [] = mm_value wlo whi p Q others a.
Proof. exact bb_real_leaf_value_exact. Qed.
Print Assumptions C12_bb_real_leaf_value_exact.

Theorem C12_bb_real_ub_is_upper_bound : forall (n : nat) (wlo whi : var -> Qc) (p : bdd) (Q others : list var),
  free_bdd p -> NoDup Q -> NoDup others -> (forall x, In x Q -> ~ In x others) ->
  (forall u, In u (support p) -> In u Q \/ In u others) ->
  (forall q, In q Q -> (N.to_nat q < n)%nat) ->
  (forall q, In q Q -> 0 <= wlo q <= 1 /\ 0 <= whi q <= 1) ->
  (forall v, In v others -> wlo v + whi v = 1 /\ 0 <= wlo v /\ 0 <= whi v) ->
  forall (m : pm) (rest : list var) (a : asg), Inv Q m rest -> agrees m a ->
  mm_value wlo whi p Q others a <= bb_ub_m real_bb n wlo whi p m rest.
Proof. exact bb_real_ub_is_upper_bound. Qed.
Print Assumptions C12_bb_real_ub_is_upper_bound.

Theorem C12_bnb_optimal_bb_real : forall (n : nat) (wlo whi : var -> Qc) (p : bdd) (Q others : list var),
  free_bdd p -> NoDup Q -> NoDup others -> (forall x, In x Q -> ~ In x others) ->
  (forall u, In u (support p) -> In u Q \/ In u others) ->
  (forall q, In q Q -> (N.to_nat q < n)%nat) ->
  (forall q, In q Q -> 0 <= wlo q <= 1 /\ 0 <= whi q <= 1) ->
  (forall v, In v others -> wlo v + whi v = 1 /\ 0 <= wlo v /\ 0 <= whi v) ->
  exists (v : Qc) (pi : pm),
    bb_real_m n wlo whi p Q = Some (v, pi) /\
    (forall x, pi x <> None <-> In x Q) /\
    v = mm_value wlo whi p Q others (asg_of pi) /\
    (forall a : asg, mm_value wlo whi p Q others a <= v).
Proof. exact bb_real_optimal. Qed.
Print Assumptions C12_bnb_optimal_bb_real.

(* ------------------------------------------------------------------------------------- *)
(* maximum expected utility.  Ordered reduced BDD under the order [level]; [vars] lists the
   variables by increasing level; chance / reward weights non-negative; every non-decision variable
   whose two weights do not add up to the unit (1,0) -- in particular every utility-bearing variable
   -- is ordered after all decision variables.  (The weights of the decision variables are never
   read by meu.)  Optimality is in the utility component, the one meu_h compares. *)
Theorem C12_leaf_value_exact_meu : forall (wlo whi : var -> eu) (p : bdd) (Q vars : list var) (level : var -> nat),
  (forall u v, level u = level v -> u = v) -> wfb level 0 p -> lsorted level vars ->
  (forall u, In u (support p) -> In u vars) ->
  (forall v, In v vars -> ~ In v Q ->
     eu_add (wlo v) (whi v) = eu1 \/ (forall q, In q Q -> (level q < level v)%nat)) ->
  forall (m : pm) (a : asg), Inv Q m [] -> agrees m a ->
  eu_ub_m wlo whi p m [] = meu_value wlo whi p Q vars a.
Proof. exact meu_leaf_value_exact. Qed.
Print Assumptions C12_leaf_value_exact_meu.

Theorem C12_ub_is_upper_bound_meu : forall (wlo whi : var -> eu) (p : bdd) (Q vars : list var) (level : var -> nat),
  (forall u v, level u = level v -> u = v) -> wfb level 0 p -> lsorted level vars ->
  (forall u, In u (support p) -> In u vars) ->
  (forall v, In v vars -> ~ In v Q -> enn (wlo v) /\ enn (whi v)) ->
  (forall v, In v vars -> ~ In v Q ->
     eu_add (wlo v) (whi v) = eu1 \/ (forall q, In q Q -> (level q < level v)%nat)) ->
  forall (m : pm) (rest : list var) (a : asg), Inv Q m rest -> agrees m a ->
  ecle (meu_value wlo whi p Q vars a) (eu_ub_m wlo whi p m rest).
Proof. exact meu_ub_is_upper_bound. Qed.
Print Assumptions C12_ub_is_upper_bound_meu.

Theorem C12_bnb_optimal_meu : forall (n : nat) (wlo whi : var -> eu) (p : bdd) (Q vars : list var) (level : var -> nat),
  (forall u v, level u = level v -> u = v) -> wfb level 0 p -> lsorted level vars ->
  (forall u, In u (support p) -> In u vars) ->
  NoDup Q -> (forall q, In q Q -> (N.to_nat q < n)%nat) ->
  (forall v, In v vars -> ~ In v Q -> enn (wlo v) /\ enn (whi v)) ->
  (forall v, In v vars -> ~ In v Q ->
     eu_add (wlo v) (whi v) = eu1 \/ (forall q, In q Q -> (level q < level v)%nat)) ->
  exists (v : eu) (pi : pm),
    meu_m n wlo whi p Q = Some (v, pi) /\
    (forall x, pi x <> None <-> In x Q) /\
    v = meu_value wlo whi p Q vars (asg_of pi) /\
    (forall a : asg, snd (meu_value wlo whi p Q vars a) <= snd v).
Proof. exact meu_optimal. Qed.
Print Assumptions C12_bnb_optimal_meu.

(* generic branch and bound over ExpectedUtility, in the order `choose` uses (utility component).
   bb multiplies the decision literals' weights in, so they must lie in the unit interval of the
   semiring: probability in [0,1] and utility 0 -- (1,0) in the tests. *)
Theorem C12_ub_is_upper_bound_bb_eu : forall (n : nat) (wlo whi : var -> eu) (p : bdd) (Q vars : list var) (level : var -> nat),
  (forall u v, level u = level v -> u = v) -> wfb level 0 p -> lsorted level vars ->
  (forall u, In u (support p) -> In u vars) ->
  NoDup Q -> (forall q, In q Q -> (N.to_nat q < n)%nat) ->
  (forall v, In v vars -> ~ In v Q -> enn (wlo v) /\ enn (whi v)) ->
  (forall v, In v vars -> ~ In v Q ->
     eu_add (wlo v) (whi v) = eu1 \/ (forall q, In q Q -> (level q < level v)%nat)) ->
  (forall q b, In q Q -> enn (wsel wlo whi q b) /\ ecle (wsel wlo whi q b) eu1) ->
  forall (m : pm) (rest : list var) (a : asg), Inv Q m rest -> agrees m a ->
  ecle (bbe_value wlo whi p Q vars a) (bb_ub_m eu_bb n wlo whi p m rest).
Proof. exact bb_eu_ub_is_upper_bound. Qed.
Print Assumptions C12_ub_is_upper_bound_bb_eu.

Theorem C12_bnb_optimal_bb_eu : forall (n : nat) (wlo whi : var -> eu) (p : bdd) (Q vars : list var) (level : var -> nat),
  (forall u v, level u = level v -> u = v) -> wfb level 0 p -> lsorted level vars ->
  (forall u, In u (support p) -> In u vars) ->
  NoDup Q -> (forall q, In q Q -> (N.to_nat q < n)%nat) ->
  (forall v, In v vars -> ~ In v Q -> enn (wlo v) /\ enn (whi v)) ->
  (forall v, In v vars -> ~ In v Q ->
     eu_add (wlo v) (whi v) = eu1 \/ (forall q, In q Q -> (level q < level v)%nat)) ->
  (forall q b, In q Q -> enn (wsel wlo whi q b) /\ ecle (wsel wlo whi q b) eu1) ->
  exists (v : eu) (pi : pm),
    bb_eu_m n wlo whi p Q = Some (v, pi) /\
    (forall x, pi x <> None <-> In x Q) /\
    v = bbe_value wlo whi p Q vars (asg_of pi) /\
    (forall a : asg, snd (bbe_value wlo whi p Q vars a) <= snd v).
Proof. exact bb_eu_optimal. Qed.
Print Assumptions C12_bnb_optimal_bb_eu.

(* the objective of MEU is the unsmoothed count of an ordered reduced diagram: with no query
   variables the dependency-restricted sum is the plain fold, for arbitrary weights *)
Theorem C12_wmc_dep_is_unsmoothed_count : forall (T : Type) (add mul : T -> T -> T) (zero one : T),
  (forall a b, mul a b = mul b a) -> (forall a, mul a one = a) ->
  (forall a b c, mul a (add b c) = add (mul a b) (mul a c)) ->
  forall (wlo whi : var -> T) (level : var -> nat), (forall u v, level u = level v -> u = v) ->
  forall vars p c k x, lsorted level vars -> wfb level k p -> (forall u, In u (support p) -> In u vars) ->
  wmc_c T add mul zero one wlo whi c p =
  wmc_dep add mul zero one wlo whi vars (fun y => xorb c (den p y)) x.
Proof. intros T. exact (@wmc_dep_unsmoothed T). Qed.
Print Assumptions C12_wmc_dep_is_unsmoothed_count.

(* ------------------------------------------------------------------------------------- *)
(* non-vacuity: a concrete instance satisfies every hypothesis, and the model computes on it *)
Definition ex_p : bdd := BN false 0%N (BN false 1%N BF BT) (BN true 2%N BF BT).   (* ite(x0, !x2, x1) *)
Definition ex_wlo (v : var) : Qc := if N.eqb v 0 then Q2Qc (3 # 4) else Q2Qc (1 # 4).
Definition ex_whi (v : var) : Qc := if N.eqb v 0 then Q2Qc (1 # 2) else Q2Qc (3 # 4).

Example C12_nonvacuous :
  (* the hypotheses of C12_bnb_optimal *)
  (free_bdd ex_p /\ NoDup [0%N] /\ NoDup [1%N; 2%N] /\
   (forall x, In x [0%N] -> ~ In x [1%N; 2%N]) /\
   (forall u, In u (support ex_p) -> In u [0%N] \/ In u [1%N; 2%N]) /\
   (forall q, In q [0%N] -> (N.to_nat q < 3)%nat) /\
   (forall q, In q [0%N] -> 0 <= ex_wlo q <= 1 /\ 0 <= ex_whi q <= 1) /\
   (forall v, In v [1%N; 2%N] -> ex_wlo v + ex_whi v = 1 /\ 0 <= ex_wlo v /\ 0 <= ex_whi v)) /\
  (* the model run: x0 = false wins with 3/4 * 3/4 = 9/16 against 1/2 * 1/4 = 1/8 *)
  option_map (fun r => (this (fst r), map (snd r) [0%N; 1%N; 2%N])) (marginal_map_m 3 ex_wlo ex_whi ex_p [0%N])
    = Some (9 # 16, [Some false; None; None]).
Proof.
  split; [|vm_compute; reflexivity].
  assert (LE : forall a b : Qc, (a ?= b) <> Gt -> a <= b) by (intros a b H; exact H).
  split; [simpl; intuition discriminate|].
  split; [repeat constructor; simpl; tauto|].
  split; [repeat constructor; simpl; intuition discriminate|].
  split; [intros x [<-|[]] [H|[H|[]]]; discriminate|].
  split; [intros u [<-|[<-|[<-|[]]]]; simpl; auto|].
  split; [intros q [<-|[]]; simpl; lia|].
  split.
  - intros q [<-|[]]. repeat split; apply LE; vm_compute; discriminate.
  - intros v [<-|[<-|[]]]; (split; [apply Qc_is_canon; vm_compute; reflexivity|]);
      split; apply LE; vm_compute; discriminate.
Qed.

(* MEU: decision x0, chance variable x1 (normalised, no utility), reward variable x2 = (1,0)/(1,5)
   ordered after the decision: ite(x0, x2, x1) *)
Definition ex2_p : bdd := BN false 0%N (BN false 1%N BF BT) (BN false 2%N BF BT).
Definition ex2_wlo (v : var) : eu :=
  if N.eqb v 1 then (Q2Qc (1 # 2), 0) else (1, 0).
Definition ex2_whi (v : var) : eu :=
  if N.eqb v 1 then (Q2Qc (1 # 2), 0) else if N.eqb v 2 then (1, Q2Qc 5) else (1, 0).

Example C12_nonvacuous_meu :
  (* the hypotheses of C12_bnb_optimal_meu and C12_bnb_optimal_bb_eu *)
  ((forall u v, N.to_nat u = N.to_nat v -> u = v) /\ wfb N.to_nat 0 ex2_p /\
   lsorted N.to_nat [0%N; 1%N; 2%N] /\ (forall u, In u (support ex2_p) -> In u [0%N; 1%N; 2%N]) /\
   NoDup [0%N] /\ (forall q, In q [0%N] -> (N.to_nat q < 3)%nat) /\
   (forall v, In v [0%N; 1%N; 2%N] -> ~ In v [0%N] -> enn (ex2_wlo v) /\ enn (ex2_whi v)) /\
   (forall v, In v [0%N; 1%N; 2%N] -> ~ In v [0%N] ->
      eu_add (ex2_wlo v) (ex2_whi v) = eu1 \/ (forall q, In q [0%N] -> (N.to_nat q < N.to_nat v)%nat)) /\
   (forall q b, In q [0%N] -> enn (wsel ex2_wlo ex2_whi q b) /\ ecle (wsel ex2_wlo ex2_whi q b) eu1)) /\
  (* the model runs: deciding x0 = true collects the reward: (probability 1, utility 5) *)
  option_map (fun r => (this (fst (fst r)), this (snd (fst r)), map (snd r) [0%N; 1%N; 2%N]))
             (meu_m 3 ex2_wlo ex2_whi ex2_p [0%N]) = Some (1 # 1, 5 # 1, [Some true; None; None]) /\
  option_map (fun r => (this (fst (fst r)), this (snd (fst r)), map (snd r) [0%N; 1%N; 2%N]))
             (bb_eu_m 3 ex2_wlo ex2_whi ex2_p [0%N]) = Some (1 # 1, 5 # 1, [Some true; None; None]).
Proof.
  split; [|split; vm_compute; reflexivity].
  assert (LE : forall a b : Qc, (a ?= b) <> Gt -> a <= b) by (intros a b H; exact H).
  split; [exact N2Nat.inj|].
  split; [simpl; repeat split; try lia; discriminate|].
  split; [simpl; repeat split; try tauto; intros u H; repeat (destruct H as [<-|H]; [simpl; lia|]); destruct H|].
  split; [simpl; tauto|].
  split; [repeat constructor; simpl; tauto|].
  split; [intros q [<-|[]]; simpl; lia|].
  split; [|split].
  - intros v [<-|[<-|[<-|[]]]] N; [exfalso; apply N; simpl; auto| |];
      repeat split; apply LE; vm_compute; discriminate.
  - intros v [<-|[<-|[<-|[]]]] N; [exfalso; apply N; simpl; auto| |].
    + left. apply injective_projections; apply Qc_is_canon; vm_compute; reflexivity.
    + right. intros q [<-|[]]. simpl. lia.
  - intros q b [<-|[]]. destruct b; repeat split; apply LE; vm_compute; discriminate.
Qed.
