(* C08 — smoothing keeps the function and makes counting exact for any weights. *)
From Coq Require Import Bool NArith List Lia Arith.
Import ListNotations.
From RsddV Require Import Base.Bdd Model.IteStd Model.BddOps Model.BddProg Model.Wmc Proofs.BddCanon
  Proofs.BddIte Proofs.BddOps Proofs.BddProg Proofs.Wmc Proofs.Smooth Proofs.SmoothProg.

(* for every order (level / var_at_level mutually inverse below L), every well-formed ROBDD whose
   nodes are at level >= cur (complemented roots and skipped levels included): smoothing the next n
   levels keeps the function, and every root-to-terminal path of the result tests the variables at
   levels cur..cur+n-1 exactly once each, in order, before anything at a level >= cur+n *)
Theorem C08_smooth_correct : forall level (level_inj : forall u v, level u = level v -> u = v) L var_at_level
  (level_var_at : forall i, i < L -> level (var_at_level i) = i) n p cur,
  WF level L cur p -> cur + n <= L ->
  smoothed level L var_at_level n cur (smooth_h var_at_level n p cur) /\
  forall x, den (smooth_h var_at_level n p cur) x = den p x.
Proof. exact smooth_h_correct. Qed.
Check C08_smooth_correct : forall level (level_inj : forall u v, level u = level v -> u = v) L var_at_level
  (level_var_at : forall i, i < L -> level (var_at_level i) = i) n p cur,
  WF level L cur p -> cur + n <= L ->
  smoothed level L var_at_level n cur (smooth_h var_at_level n p cur) /\
  forall x, den (smooth_h var_at_level n p cur) x = den p x.
Print Assumptions C08_smooth_correct.

(* hence, for ARBITRARY (non-normalised) weights in any structure (no semiring law is needed):
   the count of the diagram smoothed over all levels equals the brute-force weighted sum over
   the models of the original diagram *)
Theorem C08_smooth_wmc_exact : forall level (level_inj : forall u v, level u = level v -> u = v) L var_at_level
  (level_var_at : forall i, i < L -> level (var_at_level i) = i)
  (S : Type) (add mul : S -> S -> S) (zero one : S) (wlo whi : var -> S) p x,
  WF level L 0 p ->
  wmc_m S add mul zero one wlo whi (smooth_m var_at_level p L) =
  wmc_spec S add mul zero one wlo whi (level_vars var_at_level L 0) (den p) x.
Proof. exact smooth_wmc_exact. Qed.
Print Assumptions C08_smooth_wmc_exact.

(* and with unit weights over the naturals it is the number of models *)
Theorem C08_smooth_counts_models : forall level (level_inj : forall u v, level u = level v -> u = v) L var_at_level
  (level_var_at : forall i, i < L -> level (var_at_level i) = i) p x,
  WF level L 0 p ->
  wmc_m N N.add N.mul 0%N 1%N (fun _ => 1%N) (fun _ => 1%N) (smooth_m var_at_level p L) =
  N.of_nat (length (filter (den p) (all_asgs (level_vars var_at_level L 0) x))).
Proof.
  intros. rewrite (smooth_wmc_exact level level_inj L var_at_level level_var_at N N.add N.mul 0%N 1%N _ _ p x) by assumption.
  apply wmc_spec_unit_count.
Qed.
Print Assumptions C08_smooth_counts_models.

(* the builder's concrete order satisfies the hypotheses: its two maps are mutually inverse *)
Theorem C08_order_inverse : forall o, wf_order o ->
  (forall u v, level_of o u = level_of o v -> u = v) /\
  (forall i, i < length o -> level_of o (var_at o i) = i).
Proof. intros o WO. split; [apply level_of_inj|apply level_var_at_of]; exact WO. Qed.
Print Assumptions C08_order_inverse.

(* the pinned smooth_helper (before the repair 7c411f8) counted depth instead of level: the
   literal x2 under the linear order, smoothed over 3 variables, tests x2, x1, x2 and its
   weighted count with weights (2,3),(5,7),(11,13) is 3744 instead of 780 *)
Example C08_smooth_refuted_pinned :
  let o := [0; 1; 2] in
  let wlo := fun v : var => nth (N.to_nat v) [2; 5; 11]%N 0%N in
  let whi := fun v : var => nth (N.to_nat v) [3; 7; 13]%N 0%N in
  let p := var_m 2%N true in
  wmc_m N N.add N.mul 0%N 1%N wlo whi (smooth_pinned_h (var_at o) 3 p 0) = 3744%N /\
  wmc_m N N.add N.mul 0%N 1%N wlo whi (smooth_m (var_at o) p 3) = 780%N /\
  wmc_spec N N.add N.mul 0%N 1%N wlo whi [0; 1; 2]%N (den p) (fun _ => false) = 780%N.
Proof. vm_compute. repeat split; reflexivity. Qed.

Example C08_nonvacuous :
  let o := [1; 2; 0] in
  wf_order o /\ WF (level_of o) 3 0 (var_m 0%N false) /\
  smooth_m (var_at o) (var_m 0%N false) 3 <> var_m 0%N false.
Proof.
  split; [split; [repeat constructor; simpl; intuition lia|simpl; intros x H; intuition lia]|].
  split; [|vm_compute; discriminate].
  apply WF_neg. split; simpl; repeat split; auto; try lia; discriminate.
Qed.
