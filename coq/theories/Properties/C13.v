(* C13 — every shipped weight type obeys the semiring (and declared ring/lattice) laws.
   Property theorems only: each is closed by [exact]/[apply], and followed by
   [Print Assumptions].  Models: Model/Semirings.v; proofs: Proofs/Semirings.v.

   Reading guide.
   * [csr_laws dom ops] (Proofs/Semirings.v) is the record of commutative-semiring laws on the
     elements satisfying [dom]: closure, + associative/commutative with identity zero,
     * associative/commutative with identity one, zero annihilates, * distributes over +
     (both sides).
   * FiniteField operations return [option N]: [None] = the Rust code panics (overflow in a
     build with overflow checks, or % 0).  [is_res P x] says "x is a value Some r with r < P".
     The theorems hold for both build modes [m] (Wrapping = release, Checked = debug).
   * f64-based types are modelled on exact rationals: the statements are about exactly
     representable values whose results are exactly representable. *)
From Coq Require Import Bool NArith ZArith QArith Qcanon List Lia.
Import ListNotations.
From RsddV Require Import Generated.Constants Model.Semirings Proofs.Semirings.

(* ------------------------------------------------------------------------------------- *)
(* Finite fields: for EVERY exported prime, ALL residues, BOTH build modes                 *)

(* + is integer addition modulo P (no overflow, no panic) *)
Theorem C13_ff_add_exact : forall (m : mode) (P a b : N), In P exported_primes ->
  (a < P)%N -> (b < P)%N -> ff_add m P a b = Some ((a + b) mod P)%N.
Proof.
  intros m P a b HP Ha Hb. destruct (exported_primes_ok P HP) as [H1 H2].
  apply ff_add_exact_gen; auto; lia.
Qed.
Print Assumptions C13_ff_add_exact.

(* * is integer multiplication modulo P: the checked_mul fast path and the double-and-add
   loop both give (a*b) mod P *)
Theorem C13_ff_mul_exact : forall (m : mode) (P a b : N), In P exported_primes ->
  (a < P)%N -> (b < P)%N -> ff_mul m P a b = Some ((a * b) mod P)%N.
Proof.
  intros m P a b HP Ha Hb. destruct (exported_primes_ok P HP) as [H1 H2].
  apply ff_mul_exact_gen; auto; lia.
Qed.
Check C13_ff_mul_exact : forall (m : mode) (P a b : N), In P exported_primes ->
  (a < P)%N -> (b < P)%N -> ff_mul m P a b = Some ((a * b) mod P)%N.
Print Assumptions C13_ff_mul_exact.

(* - is integer subtraction modulo P (stated over Z, where a - b can be negative) *)
Theorem C13_ff_sub_exact : forall (m : mode) (P a b : N), In P exported_primes ->
  (a < P)%N -> (b < P)%N ->
  exists r, ff_sub m P a b = Some r /\ (r < P)%N /\
            Z.of_N r = ((Z.of_N a - Z.of_N b) mod Z.of_N P)%Z.
Proof.
  intros m P a b HP Ha Hb. destruct (exported_primes_ok P HP) as [H1 H2].
  exists (zp_sub P a b). split; [apply ff_sub_exact_gen; auto; lia|].
  split; [apply zp_sub_lt; auto | apply zp_sub_Z; auto; lia].
Qed.
Print Assumptions C13_ff_sub_exact.

(* new reduces any u128 argument; one and zero are the residues 1 and 0 *)
Theorem C13_ff_new_one_zero : forall (P v : N), In P exported_primes ->
  ff_new P v = Some (v mod P)%N /\ ff_one P = Some 1%N /\ ff_zero P = Some 0%N.
Proof.
  intros P v HP. destruct (exported_primes_ok P HP) as [H1 H2].
  split; [apply ff_new_ok; lia | split; [apply ff_one_ok; auto | apply ff_zero_ok; lia]].
Qed.
Print Assumptions C13_ff_new_one_zero.

(* the main theorem: the operations as coded never panic on residues, stay in the residues,
   and satisfy every commutative-semiring law, for every exported prime *)
Theorem C13_main : forall (m : mode) (P : N), In P exported_primes ->
  forall x y z, is_res P x -> is_res P y -> is_res P z ->
  (is_res P (fadd m P x y) /\ is_res P (fmul m P x y) /\ is_res P (fsub m P x y) /\
   is_res P (fneg m P x) /\ is_res P (ff_one P) /\ is_res P (ff_zero P)) /\
  fadd m P (fadd m P x y) z = fadd m P x (fadd m P y z) /\
  fadd m P x y = fadd m P y x /\
  (fadd m P (ff_zero P) x = x /\ fadd m P x (ff_zero P) = x) /\
  fmul m P (fmul m P x y) z = fmul m P x (fmul m P y z) /\
  fmul m P x y = fmul m P y x /\
  (fmul m P (ff_one P) x = x /\ fmul m P x (ff_one P) = x) /\
  (fmul m P (ff_zero P) x = ff_zero P /\ fmul m P x (ff_zero P) = ff_zero P) /\
  (fmul m P x (fadd m P y z) = fadd m P (fmul m P x y) (fmul m P x z) /\
   fmul m P (fadd m P y z) x = fadd m P (fmul m P y x) (fmul m P z x)).
Proof.
  intros m P HP x y z Hx Hy Hz. pose proof (exported_primes_ok P HP) as OK.
  split; [apply ff_closed; auto|].
  split; [apply ff_add_assoc; auto|].
  split; [apply ff_add_comm; auto|].
  split; [apply ff_add_zero; auto|].
  split; [apply ff_mul_assoc; auto|].
  split; [apply ff_mul_comm; auto|].
  split; [apply ff_mul_one; auto|].
  split; [apply ff_mul_zero; auto|].
  apply ff_distr; auto.
Qed.
Check C13_main : forall (m : mode) (P : N), In P exported_primes ->
  forall x y z, is_res P x -> is_res P y -> is_res P z ->
  (is_res P (fadd m P x y) /\ is_res P (fmul m P x y) /\ is_res P (fsub m P x y) /\
   is_res P (fneg m P x) /\ is_res P (ff_one P) /\ is_res P (ff_zero P)) /\
  fadd m P (fadd m P x y) z = fadd m P x (fadd m P y z) /\
  fadd m P x y = fadd m P y x /\
  (fadd m P (ff_zero P) x = x /\ fadd m P x (ff_zero P) = x) /\
  fmul m P (fmul m P x y) z = fmul m P x (fmul m P y z) /\
  fmul m P x y = fmul m P y x /\
  (fmul m P (ff_one P) x = x /\ fmul m P x (ff_one P) = x) /\
  (fmul m P (ff_zero P) x = ff_zero P /\ fmul m P x (ff_zero P) = ff_zero P) /\
  (fmul m P x (fadd m P y z) = fadd m P (fmul m P x y) (fmul m P x z) /\
   fmul m P (fadd m P y z) x = fadd m P (fmul m P y x) (fmul m P z x)).
Print Assumptions C13_main.

(* ring subtraction inverts addition; x - x = 0; negate x = 1 - x (as coded) *)
Theorem C13_ff_sub_inverts_add : forall (m : mode) (P : N), In P exported_primes ->
  forall x y, is_res P x -> is_res P y ->
  fsub m P (fadd m P x y) y = x /\ fadd m P (fsub m P x y) y = x /\
  fsub m P x x = ff_zero P /\ fneg m P x = fsub m P (ff_one P) x.
Proof.
  intros m P HP x y Hx Hy. pose proof (exported_primes_ok P HP) as OK.
  destruct (ff_add_sub m P OK x y Hx Hy) as [A [B C]].
  repeat split; auto. apply ff_negate_is_one_minus; auto.
Qed.
Print Assumptions C13_ff_sub_inverts_add.

(* the same for any modulus with 1 < P and 2P <= 2^128 (covers the test moduli 2,3,5,7,11) *)
Theorem C13_ff_any_modulus : forall (m : mode) (P a b : N), (1 < P)%N -> (2 * P <= 2 ^ 128)%N ->
  (a < P)%N -> (b < P)%N ->
  ff_add m P a b = Some ((a + b) mod P)%N /\ ff_mul m P a b = Some ((a * b) mod P)%N /\
  ff_sub m P a b = Some ((a + P - b) mod P)%N /\ ff_negate m P a = Some ((1 + P - a) mod P)%N.
Proof.
  intros m P a b H1 H2 Ha Hb. change (2 ^ 128)%N with u128 in H2.
  split; [apply ff_add_exact_gen; auto; lia|].
  split; [apply ff_mul_exact_gen; auto; lia|].
  split; [apply ff_sub_exact_gen; auto; lia | apply ff_negate_exact_gen; auto].
Qed.
Print Assumptions C13_ff_any_modulus.

(* the guard is real: with a zero modulus the code panics, and the model says so *)
Theorem C13_ff_zero_modulus_panics : forall v, ff_new 0 v = None.
Proof. exact ff_new_zero_modulus. Qed.
Print Assumptions C13_ff_zero_modulus_panics.

(* ------------------------------------------------------------------------------------- *)
(* Boolean, Real, Rational, Complex, ExpectedUtility: commutative semirings                *)
Theorem C13_bool_semiring : csr_laws everything bool_ops.
Proof. exact bool_laws. Qed.
Print Assumptions C13_bool_semiring.

Theorem C13_real_semiring : csr_laws everything real_ops.
Proof. exact qc_laws. Qed.
Print Assumptions C13_real_semiring.

Theorem C13_rational_semiring : csr_laws everything rational_ops.
Proof. exact rational_laws. Qed.
Print Assumptions C13_rational_semiring.

Theorem C13_complex_semiring : csr_laws everything cx_ops.
Proof. exact cx_laws. Qed.
Print Assumptions C13_complex_semiring.

Theorem C13_eu_semiring : csr_laws everything eu_ops.
Proof. exact eu_laws. Qed.
Print Assumptions C13_eu_semiring.

(* the declared Ring instances: subtraction inverts addition *)
Theorem C13_sub_inverts_add :
  (forall a b : real, real_sub (sr_add real_ops a b) b = a /\ sr_add real_ops (real_sub a b) b = a) /\
  (forall a b : cx, cx_sub (cx_add a b) b = a /\ cx_add (cx_sub a b) b = a) /\
  (forall a b : eu, eu_sub (eu_add a b) b = a /\ eu_add (eu_sub a b) b = a).
Proof. split; [exact real_sub_add | split; [exact cx_sub_add | exact eu_sub_add]]. Qed.
Print Assumptions C13_sub_inverts_add.

(* ------------------------------------------------------------------------------------- *)
(* Lattices and the declared orders, as coded                                              *)
Theorem C13_real_lattice : forall a b c : real,
  real_join a a = a /\ real_join a b = real_join b a /\
  real_join (real_join a b) c = real_join a (real_join b c) /\
  real_meet a a = a /\ real_meet a b = real_meet b a /\
  real_meet (real_meet a b) c = real_meet a (real_meet b c) /\
  real_join a (real_meet a b) = a /\ real_meet a (real_join a b) = a.
Proof. exact real_lattice. Qed.
Print Assumptions C13_real_lattice.

Theorem C13_real_order : forall a b : real, real_le a b = true ->
  real_join a b = b /\ real_choose a b = b /\ real_meet a b = a.
Proof. exact real_le_join. Qed.
Print Assumptions C13_real_order.

Theorem C13_eu_lattice : forall a b c : eu,
  eu_join a a = a /\ eu_join a b = eu_join b a /\
  eu_join (eu_join a b) c = eu_join a (eu_join b c) /\
  eu_meet a a = a /\ eu_meet a b = eu_meet b a /\
  eu_meet (eu_meet a b) c = eu_meet a (eu_meet b c) /\
  eu_join a (eu_meet a b) = a /\ eu_meet a (eu_join a b) = a.
Proof. exact eu_lattice. Qed.
Print Assumptions C13_eu_lattice.

(* whenever the hand-written partial_cmp of ExpectedUtility relates a below b, join and choose
   return b and meet returns a *)
Theorem C13_eu_order : forall a b : eu, eu_le a b = true ->
  eu_join a b = b /\ eu_choose a b = b /\ eu_meet a b = a.
Proof. exact eu_le_join. Qed.
Print Assumptions C13_eu_order.

(* Not part of the property, recorded: ExpectedUtility's partial_cmp is not the order of its
   own lattice (join a b = b does not imply a <= b), and choose is not commutative. *)
Theorem C13_eu_join_characterises_le_refuted : ~ (forall a b, eu_join a b = b -> eu_le a b = true).
Proof. exact eu_join_characterises_le_refuted. Qed.
Print Assumptions C13_eu_join_characterises_le_refuted.

(* ------------------------------------------------------------------------------------- *)
(* Truncated polynomials Polynomial<C> (MAX_COEFFS re-read from the source), for every
   coefficient semiring C whose laws hold unconditionally.  [pwf] = well-formed value: array
   of length MAX_COEFFS, len <= MAX_COEFFS, zero beyond len (what zero/one/+/* produce). *)

Local Open Scope nat_scope.

(* the nested loops compute the convolution truncated at MAX_COEFFS, with the coded len *)
Theorem C13_poly_mul_is_truncated_convolution :
  forall (C : Type) (o : sr_ops C), csr_laws everything o ->
  forall (a b : poly C) (k : nat), pwf o a -> pwf o b -> k < MAXC ->
  cf o (pmul o a b) k = sumn o (S k) (fun i => sr_mul o (cf o a i) (cf o b (k - i))) /\
  plen (pmul o a b) =
    (if Nat.eqb (plen a) 0 || Nat.eqb (plen b) 0 then 0 else Nat.min (plen a + plen b - 1) MAXC) /\
  length (coeffs (pmul o a b)) = MAXC.
Proof.
  intros C o L a b k Wa Wb Hk.
  split; [exact (pmul_cf o L a b k Wa Wb Hk) | split; [exact (pmul_plen o a b) | exact (pmul_length o a b)]].
Qed.
Print Assumptions C13_poly_mul_is_truncated_convolution.

(* all commutative-semiring laws, including full associativity of the truncated product and
   distributivity, with equality of the whole value (all MAX_COEFFS coefficients and len) *)
Theorem C13_poly_semiring :
  forall (C : Type) (o : sr_ops C), csr_laws everything o -> csr_laws (pwf o) (poly_ops o).
Proof. intros C o L. exact (poly_laws o L). Qed.
Print Assumptions C13_poly_semiring.

Theorem C13_poly_shipped_coefficients :
  csr_laws (pwf real_ops) (poly_ops real_ops) /\ csr_laws (pwf rational_ops) (poly_ops rational_ops) /\
  csr_laws (pwf bool_ops) (poly_ops bool_ops) /\ csr_laws (pwf cx_ops) (poly_ops cx_ops) /\
  csr_laws (pwf eu_ops) (poly_ops eu_ops).
Proof.
  split; [exact (poly_laws _ qc_laws)|]. split; [exact (poly_laws _ rational_laws)|].
  split; [exact (poly_laws _ bool_laws)|]. split; [exact (poly_laws _ cx_laws) | exact (poly_laws _ eu_laws)].
Qed.
Print Assumptions C13_poly_shipped_coefficients.

(* ------------------------------------------------------------------------------------- *)
(* non-vacuity *)
Example C13_nonvacuous :
  In prime_U128_LARGE_4 exported_primes /\
  (prime_U128_LARGE_4 - 1 < prime_U128_LARGE_4)%N /\
  checked_mul (prime_U128_LARGE_4 - 1) (prime_U128_LARGE_4 - 1) = None /\
  ff_mul Checked prime_U128_LARGE_4 (prime_U128_LARGE_4 - 1) (prime_U128_LARGE_4 - 1) = Some 1%N /\
  ff_sub Checked prime_U32_TINY 5 7 = Some (prime_U32_TINY - 2)%N /\
  is_res prime_U32_TINY (Some 5%N).
Proof.
  split; [vm_compute; tauto|]. split; [vm_compute; reflexivity|].
  split; [vm_compute; reflexivity|]. split; [vm_compute; reflexivity|].
  split; [vm_compute; reflexivity|]. exists 5%N. split; [reflexivity | vm_compute; reflexivity].
Qed.

Example C13_nonvacuous_order :
  eu_le (Q2Qc 1, Q2Qc 2) (Q2Qc 3, Q2Qc 4) = true /\ real_le (Q2Qc 1) (Q2Qc 2) = true.
Proof. split; vm_compute; reflexivity. Qed.

(* truncation really happens and stays inside the well-formed values: x^31 * x^31 over the
   Boolean semiring is the all-zero array with len 32 (not zero(), whose len is 0) *)
Example C13_nonvacuous_poly :
  let x := {| coeffs := Base.Util.set_nth (zeros bool_ops) 31 true; plen := 32 |} in
  MAXC = 32 /\ pmul bool_ops x x = {| coeffs := zeros bool_ops; plen := 32 |} /\
  pmul bool_ops x (pone bool_ops) = x /\
  pwf bool_ops (pmul bool_ops (pone bool_ops) (padd bool_ops (pone bool_ops) (pone bool_ops))).
Proof.
  split; [reflexivity|]. split; [vm_compute; reflexivity|]. split; [vm_compute; reflexivity|].
  apply pmul_wf; [exact bool_laws | apply pone_wf | apply padd_wf].
Qed.

(* ------------------------------------------------------------------------------------- *)
(* Polynomial<C> over a GUARDED coefficient semiring, and Polynomial<FiniteField<P>>.
   (Proofs/SemiringsPolyFF.v.)  The theorems above need coefficient laws that hold on the
   whole carrier; the finite-field laws hold on residues only.  [pwf_ok okc o p] = p is well
   formed ([pwf o p]) and every entry of its coefficient array satisfies [okc].  [okc] is an
   arbitrary predicate (no decidability assumed); closure of [okc] under the coefficient
   operations is part of [csr_laws okc o], closure of [pwf_ok] under the polynomial
   operations is part of the conclusion (fields csr_dom_add/mul/zero/one). *)
From RsddV Require Import Proofs.SemiringsPolyFF.

Theorem C13_poly_guarded_semiring :
  forall (C : Type) (okc : C -> Prop) (o : sr_ops C),
  csr_laws okc o -> csr_laws (pwf_ok okc o) (poly_ops o).
Proof. intros C okc o L. exact (poly_laws_ok okc o L). Qed.
Print Assumptions C13_poly_guarded_semiring.

(* it is a generalisation: with the trivial guard, pwf_ok is pwf *)
Theorem C13_poly_guarded_generalises :
  forall (C : Type) (o : sr_ops C) (p : poly C), pwf_ok everything o p <-> pwf o p.
Proof. intros C o p. exact (pwf_ok_everything o p). Qed.
Print Assumptions C13_poly_guarded_generalises.

Theorem C13_poly_guarded_mul_is_truncated_convolution :
  forall (C : Type) (okc : C -> Prop) (o : sr_ops C), csr_laws okc o ->
  forall (a b : poly C) (k : nat), pwf_ok okc o a -> pwf_ok okc o b -> k < MAXC ->
  cf o (pmul o a b) k = sumn o (S k) (fun i => sr_mul o (cf o a i) (cf o b (k - i))) /\
  plen (pmul o a b) =
    (if Nat.eqb (plen a) 0 || Nat.eqb (plen b) 0 then 0 else Nat.min (plen a + plen b - 1) MAXC) /\
  length (coeffs (pmul o a b)) = MAXC.
Proof. intros C okc o L a b k. exact (pmul_spec_ok okc o L a b k). Qed.
Print Assumptions C13_poly_guarded_mul_is_truncated_convolution.

(* FiniteField<P> as a guarded semiring: [ff_ops m P] are the operations as coded (option =
   "or panics"), the guard is [is_res P].  This is C13_main packaged as [csr_laws]. *)
Theorem C13_ff_semiring : forall (m : mode) (P : N), In P exported_primes ->
  csr_laws (is_res P) (ff_ops m P).
Proof. intros m P HP. apply ff_laws. exact (exported_primes_ok P HP). Qed.
Print Assumptions C13_ff_semiring.

(* Polynomial<FiniteField<P>>, for every exported prime and both build modes: on well-formed
   polynomials whose coefficients are residues, + and * never panic in any coefficient
   operation, return well-formed polynomials of residues, and satisfy every
   commutative-semiring law (equality of all MAX_COEFFS coefficients and len) *)
Theorem C13_poly_ff_semiring : forall (m : mode) (P : N), In P exported_primes ->
  csr_laws (pwf_ok (is_res P) (ff_ops m P)) (poly_ops (ff_ops m P)).
Proof. intros m P HP. apply poly_ff_laws. exact (exported_primes_ok P HP). Qed.
Check C13_poly_ff_semiring : forall (m : mode) (P : N), In P exported_primes ->
  csr_laws (pwf_ok (is_res P) (ff_ops m P)) (poly_ops (ff_ops m P)).
Print Assumptions C13_poly_ff_semiring.

(* the closure part of the above, spelled out *)
Theorem C13_poly_ff_closed : forall (m : mode) (P : N), In P exported_primes ->
  forall a b, pwf_ok (is_res P) (ff_ops m P) a -> pwf_ok (is_res P) (ff_ops m P) b ->
  pwf_ok (is_res P) (ff_ops m P) (padd (ff_ops m P) a b) /\
  pwf_ok (is_res P) (ff_ops m P) (pmul (ff_ops m P) a b) /\
  pwf_ok (is_res P) (ff_ops m P) (pzero (ff_ops m P)) /\
  pwf_ok (is_res P) (ff_ops m P) (pone (ff_ops m P)).
Proof.
  intros m P HP a b Wa Wb. pose proof (poly_ff_laws m P (exported_primes_ok P HP)) as L.
  split; [exact (csr_dom_add _ _ L a b Wa Wb)|]. split; [exact (csr_dom_mul _ _ L a b Wa Wb)|].
  split; [exact (csr_dom_zero _ _ L) | exact (csr_dom_one _ _ L)].
Qed.
Print Assumptions C13_poly_ff_closed.

(* the same for any modulus under the guard of C13_ff_any_modulus (covers the test moduli) *)
Theorem C13_poly_ff_any_modulus : forall (m : mode) (P : N), (1 < P)%N -> (2 * P <= 2 ^ 128)%N ->
  csr_laws (is_res P) (ff_ops m P) /\
  csr_laws (pwf_ok (is_res P) (ff_ops m P)) (poly_ops (ff_ops m P)).
Proof.
  intros m P H1 H2. change (2 ^ 128)%N with u128 in H2.
  split; [apply ff_laws | apply poly_ff_laws]; split; assumption.
Qed.
Print Assumptions C13_poly_ff_any_modulus.

(* the instance the correspondence driver runs against Polynomial<FiniteField<11>>:
   coefficients are plain residues with integer arithmetic modulo P *)
Theorem C13_poly_zp_semiring : forall (P : N), (1 < P)%N ->
  csr_laws (pwf_ok (fun a => (a < P)%N) (zp_ops P)) (poly_ops (zp_ops P)).
Proof. exact poly_zp_laws. Qed.
Print Assumptions C13_poly_zp_semiring.

(* ... and the two instances are the same thing: the as-coded polynomial operations over
   FiniteField<P> map residue polynomials exactly as the operations over Z/P do ([pmap Some]
   re-tags every coefficient r as the non-panicking value Some r), and every residue
   polynomial of the as-coded type is such an image *)
Theorem C13_poly_ff_is_zp : forall (m : mode) (P : N), (1 < P)%N -> (2 * P <= 2 ^ 128)%N ->
  (forall a b, pwf_ok (fun x => (x < P)%N) (zp_ops P) a -> pwf_ok (fun x => (x < P)%N) (zp_ops P) b ->
     padd (ff_ops m P) (pmap Some a) (pmap Some b) = pmap Some (padd (zp_ops P) a b) /\
     pmul (ff_ops m P) (pmap Some a) (pmap Some b) = pmap Some (pmul (zp_ops P) a b) /\
     pzero (ff_ops m P) = pmap Some (pzero (zp_ops P)) /\
     pone (ff_ops m P) = pmap Some (pone (zp_ops P)) /\
     pwf_ok (is_res P) (ff_ops m P) (pmap Some a)) /\
  (forall p, pwf_ok (is_res P) (ff_ops m P) p ->
     exists q, p = pmap Some q /\ pwf_ok (fun x => (x < P)%N) (zp_ops P) q).
Proof.
  intros m P H1 H2. change (2 ^ 128)%N with u128 in H2.
  split; [apply poly_ff_is_zp | apply poly_ff_from_zp]; split; assumption.
Qed.
Print Assumptions C13_poly_ff_is_zp.

(* non-vacuity: a = (P-1) + 2x and b = (P-1) + 3x + (P-5)x^2 over U32_TINY (P = 1000001, not a
   prime: ring statements only) are well-formed residue polynomials in the checked build;
   the product wraps modulo P in every coefficient, nothing panics, and the hypotheses of
   C13_poly_ff_semiring are met (distributivity instance shown) *)
Example C13_nonvacuous_poly_ff :
  let P := prime_U32_TINY in
  let o := ff_ops Checked P in
  let mk (l : list N) := {| coeffs := map Some l ++ repeat (Some 0%N) (MAXC - length l); plen := length l |} in
  let a := mk [P - 1; 2]%N in
  let b := mk [P - 1; 3; P - 5]%N in
  In P exported_primes /\
  pwf_ok (is_res P) o a /\ pwf_ok (is_res P) o b /\
  pmul o a b = mk [1; P - 5; 11; P - 10]%N /\
  padd o a b = mk [P - 2; 5; P - 5]%N /\
  pmul o a (padd o b (pone o)) = padd o (pmul o a b) (pmul o a (pone o)).
Proof.
  cbv zeta.
  assert (Wa : ff_poly_okb prime_U32_TINY
                 {| coeffs := map Some [prime_U32_TINY - 1; 2]%N ++ repeat (Some 0%N) (MAXC - 2);
                    plen := 2 |} = true) by (vm_compute; reflexivity).
  assert (Wb : ff_poly_okb prime_U32_TINY
                 {| coeffs := map Some [prime_U32_TINY - 1; 3; prime_U32_TINY - 5]%N ++ repeat (Some 0%N) (MAXC - 3);
                    plen := 3 |} = true) by (vm_compute; reflexivity).
  apply (ff_poly_okb_ok Checked) in Wa; [|vm_compute; reflexivity].
  apply (ff_poly_okb_ok Checked) in Wb; [|vm_compute; reflexivity].
  assert (HP : In prime_U32_TINY exported_primes) by (vm_compute; tauto).
  split; [exact HP|]. split; [exact Wa|]. split; [exact Wb|].
  split; [vm_compute; reflexivity|]. split; [vm_compute; reflexivity|].
  apply (csr_distr _ _ (C13_poly_ff_semiring Checked prime_U32_TINY HP)); auto.
  apply (csr_dom_one _ _ (C13_poly_ff_semiring Checked prime_U32_TINY HP)).
Qed.
