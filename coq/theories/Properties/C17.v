(* C17 — parsing and serialisation preserve the formula.
   Models: Model/Serialize.v (token / AST level; the third-party lexers dimacs, serde_sexpr,
   serde_json are modelled, not verified).  Proofs: Proofs/Serialize.v, Proofs/SerializeDD.v. *)
From Coq Require Import Bool NArith ZArith List Arith Lia Sorted Ascii.
Import ListNotations.
From RsddV Require Import Base.Bdd Model.Compile Model.Serialize Model.SerializeText Proofs.Serialize Proofs.SerializeDD
  Proofs.SerializeText.
From RsddV Require Model.CnfUtil Proofs.CnfUtil Model.SddOps Model.VTree.

(* ---------------------------------------------------------------------------------------- *)
(* DIMACS *)

(* Cnf::from_dimacs("p cnf nv nc" + Cnf::to_dimacs(Cnf::new cs)) = Cnf::new cs: for EVERY clause
   list (empty formula, empty clauses, repeated and complementary literals) and every pair of
   non-zero header numbers (the header numbers are ignored; a zero is a lexer-level parse error,
   and the printer itself emits no header: both are guards of the statement, see props/C17.json) *)
Theorem C17_dimacs_roundtrip : forall cs nv nc,
  cnf_from_dimacs (header nv nc ++ lex_ints (concat (to_dimacs (CnfUtil.cnf_new cs)))) = POk (CnfUtil.cnf_new cs).
Proof. exact dimacs_roundtrip. Qed.
Print Assumptions C17_dimacs_roundtrip.

(* ... i.e. the same clause sets, clause by clause, as the input of Cnf::new *)
Theorem C17_dimacs_roundtrip_sets : forall cs nv nc,
  exists c', cnf_from_dimacs (header nv nc ++ lex_ints (concat (to_dimacs (CnfUtil.cnf_new cs)))) = POk c' /\
  Forall2 (fun c c' => forall l, In l c' <-> In l c) cs (CnfUtil.clauses c').
Proof. exact dimacs_roundtrip_sets. Qed.
Print Assumptions C17_dimacs_roundtrip_sets.

(* token level without any normalisation: printed clause lines are read back verbatim *)
Theorem C17_dimacs_roundtrip_raw : forall cs,
  parse_dimacs_tokens (concat (print_dimacs cs)) = POk (map (map z_of_lit) cs).
Proof. exact dimacs_roundtrip_raw. Qed.
Print Assumptions C17_dimacs_roundtrip_raw.

(* character level: the text Cnf::to_dimacs writes (decimal digits without leading zero, "-",
   one blank between literals, "\n" before and " 0" after each clause), read by the model of the
   dimacs lexer (skip_whitespace, scan_nat, '0' => Zero, '-' => Minus), is exactly the token stream
   of the token-level statements; hence the round trip holds from characters to Cnf *)
Theorem C17_to_dimacs_text_lex : forall cs,
  lex_chars (to_dimacs_text cs) None = Some (lex_ints (concat (print_dimacs cs))).
Proof. exact to_dimacs_text_lex. Qed.
Print Assumptions C17_to_dimacs_text_lex.

Theorem C17_dimacs_roundtrip_chars : forall cs nv nc,
  match lex_chars (to_dimacs_text (CnfUtil.clauses (CnfUtil.cnf_new cs))) None with
  | Some body => cnf_from_dimacs (header nv nc ++ body) = POk (CnfUtil.cnf_new cs)
  | None => False
  end.
Proof. exact dimacs_roundtrip_chars. Qed.
Print Assumptions C17_dimacs_roundtrip_chars.

(* the parser model is total: its fuel is never exhausted, on any token stream *)
Theorem C17_parse_dimacs_total : forall ts, parse_dimacs ts <> PFuel.
Proof. exact parse_dimacs_no_fuel. Qed.
Print Assumptions C17_parse_dimacs_total.

(* LogicalExpr::from_dimacs: when it returns, the expression has exactly the models of the
   clause list, variable i of the text being label i (1-based, label 0 unused) *)
Theorem C17_dimacs_expr_sem : forall ts e,
  expr_from_dimacs ts = POk e ->
  exists cs, parse_dimacs ts = POk cs /\ cs <> [] /\ ~ In [] cs /\ forall x, den_e e x = zcnf_eval cs x.
Proof. exact dimacs_expr_sem. Qed.
Print Assumptions C17_dimacs_expr_sem.

(* ... and it panics (pop().unwrap() on an empty vector) exactly on a text without clauses or
   with an empty clause: the guard of the previous statement *)
Theorem C17_dimacs_expr_panics : forall cs, expr_of_clauses cs = None <-> (cs = [] \/ In [] cs).
Proof. exact expr_of_clauses_defined. Qed.
Print Assumptions C17_dimacs_expr_panics.

(* the two front ends agree up to their documented numberings: Cnf::from_dimacs maps DIMACS
   variable v to label v-1, LogicalExpr::from_dimacs to label v *)
Theorem C17_dimacs_cnf_expr_agree : forall ts e c,
  expr_from_dimacs ts = POk e -> cnf_from_dimacs ts = POk c ->
  forall x, den_e e x = Proofs.CnfUtil.cnf_sem (fun v => x (v + 1)%N) (CnfUtil.clauses c).
Proof. exact dimacs_cnf_expr_agree. Qed.
Print Assumptions C17_dimacs_cnf_expr_agree.

(* ---------------------------------------------------------------------------------------- *)
(* s-expressions *)

(* variable_mapping is the rank function of the sorted set of names: defined exactly on the
   names of the expression, strictly order preserving (hence injective), onto 0..n-1 *)
Theorem C17_sexpr_mapping_lex : forall e,
  let m := variable_mapping e in
  let n := length (unique_variables e) in
  (forall s, In s (svars e) <-> exists i, map_get m s = Some i) /\
  (forall s i, map_get m s = Some i -> i < n) /\
  (forall s s' i j, map_get m s = Some i -> map_get m s' = Some j -> (name_lt s s' <-> i < j)) /\
  (forall s s' i, map_get m s = Some i -> map_get m s' = Some i -> s = s') /\
  (forall i, i < n -> exists s, map_get m s = Some i).
Proof. exact sexpr_mapping_lex. Qed.
Print Assumptions C17_sexpr_mapping_lex.

Theorem C17_sexpr_mapping_rank : forall e s i,
  map_get (variable_mapping e) s = Some i ->
  i = length (filter (fun t => name_ltb t s) (sorted_names e)).
Proof. exact sexpr_mapping_rank. Qed.
Print Assumptions C17_sexpr_mapping_rank.

(* the HashSet's iteration order cannot influence the mapping *)
Theorem C17_mapping_order_independent : forall l l' : list name,
  NoDup l -> NoDup l' -> (forall x, In x l <-> In x l') -> name_sort l = name_sort l'.
Proof. exact mapping_perm. Qed.
Print Assumptions C17_mapping_order_independent.

(* from_sexpr on a constant-free s-expression: evaluating the s-expression under a name
   assignment rho = evaluating the result under any assignment that reads rho through the mapping *)
Theorem C17_from_sexpr_sem : forall e,
  no_const e = true ->
  exists ex, from_sexpr e = Some ex /\
    forall rho x, agrees (variable_mapping e) rho x -> den_e ex x = xeval rho e.
Proof. exact from_sexpr_sem. Qed.
Print Assumptions C17_from_sexpr_sem.

(* such an assignment exists for every rho (label i := value of the i-th smallest name) *)
Theorem C17_from_sexpr_sem_numbered : forall e ex rho,
  from_sexpr e = Some ex -> den_e ex (numbered e rho) = xeval rho e.
Proof. exact from_sexpr_sem_numbered. Qed.
Print Assumptions C17_from_sexpr_sem_numbered.

(* the guard: from_sexpr reaches todo!() exactly when the s-expression contains True or False *)
Theorem C17_from_sexpr_panics : forall e, from_sexpr e = None <-> no_const e = false.
Proof. exact from_sexpr_panics. Qed.
Print Assumptions C17_from_sexpr_panics.

(* ---------------------------------------------------------------------------------------- *)
(* BDD / SDD / vtree serialisers *)

(* for EVERY diagram p (any unfolding: no order, reducedness or canonicity assumed) the node
   table of BDDSerializer, evaluated by the independent reader, computes den p *)
Theorem C17_ser_bdd_sem : forall p a,
  eval_table (fst (bdd_serialize p)) (snd (bdd_serialize p)) a = Some (den p a).
Proof. exact ser_bdd_sem. Qed.
Print Assumptions C17_ser_bdd_sem.

(* deserialising the table gives back the same diagram *)
Theorem C17_ser_bdd_iso : forall p,
  unfold_table (fst (bdd_serialize p)) (snd (bdd_serialize p)) = Some p.
Proof. exact ser_bdd_iso. Qed.
Print Assumptions C17_ser_bdd_iso.

(* shared nodes appear once; children are written before their parents *)
Theorem C17_ser_bdd_nodup : forall p, NoDup (fst (bdd_serialize p)).
Proof. exact ser_bdd_nodup. Qed.
Print Assumptions C17_ser_bdd_nodup.
Theorem C17_ser_bdd_ordered : forall p, rows_ordered (fst (bdd_serialize p)) = true.
Proof. exact ser_bdd_ordered. Qed.
Print Assumptions C17_ser_bdd_ordered.

(* the table holds exactly the nodes below p: read back as trees, its rows are the regular
   sub-nodes of p, each exactly once (as many rows as distinct reachable nodes) *)
Theorem C17_ser_bdd_nodes : forall p,
  exists trees, unfold_rows (fst (bdd_serialize p)) [] = Some trees /\
    length trees = length (fst (bdd_serialize p)) /\ NoDup trees /\
    forall k, In k trees <-> In k (subnodes p).
Proof. exact ser_bdd_nodes. Qed.
Print Assumptions C17_ser_bdd_nodes.

(* the same for SDDSerializer (binary nodes written as two-element decisions on a literal,
   complement flags on pointers, literals and constants inline) *)
Theorem C17_ser_sdd_sem : forall p a,
  eval_xtable (fst (sdd_serialize p)) (snd (sdd_serialize p)) a = Some (SddOps.sden p a).
Proof. exact ser_sdd_sem. Qed.
Print Assumptions C17_ser_sdd_sem.
Theorem C17_ser_sdd_ordered : forall p, xrows_ordered (fst (sdd_serialize p)) = true.
Proof. exact ser_sdd_ordered. Qed.
Print Assumptions C17_ser_sdd_ordered.

(* VTreeSerializer mirrors the tree: reading it back is the identity, both ways *)
Theorem C17_ser_vtree_iso : forall t, vtree_deserialize (vtree_serialize t) = t.
Proof. exact ser_vtree_iso. Qed.
Print Assumptions C17_ser_vtree_iso.
Theorem C17_ser_vtree_iso_inv : forall s, vtree_serialize (vtree_deserialize s) = s.
Proof. exact ser_vtree_iso'. Qed.
Print Assumptions C17_ser_vtree_iso_inv.

(* ---------------------------------------------------------------------------------------- *)
(* the property, in one statement *)
Theorem C17_main :
  (forall cs nv nc,
     cnf_from_dimacs (header nv nc ++ lex_ints (concat (to_dimacs (CnfUtil.cnf_new cs)))) = POk (CnfUtil.cnf_new cs)) /\
  (forall ts e, expr_from_dimacs ts = POk e ->
     exists cs, parse_dimacs ts = POk cs /\ cs <> [] /\ ~ In [] cs /\ forall x, den_e e x = zcnf_eval cs x) /\
  (forall e, no_const e = true ->
     exists ex, from_sexpr e = Some ex /\
       forall rho x, agrees (variable_mapping e) rho x -> den_e ex x = xeval rho e) /\
  (forall p a, eval_table (fst (bdd_serialize p)) (snd (bdd_serialize p)) a = Some (den p a)) /\
  (forall p a, eval_xtable (fst (sdd_serialize p)) (snd (sdd_serialize p)) a = Some (SddOps.sden p a)) /\
  (forall t, vtree_deserialize (vtree_serialize t) = t).
Proof.
  exact (conj dimacs_roundtrip (conj dimacs_expr_sem (conj from_sexpr_sem (conj ser_bdd_sem (conj ser_sdd_sem ser_vtree_iso))))).
Qed.
Check C17_main :
  (forall cs nv nc,
     cnf_from_dimacs (header nv nc ++ lex_ints (concat (to_dimacs (CnfUtil.cnf_new cs)))) = POk (CnfUtil.cnf_new cs)) /\
  (forall ts e, expr_from_dimacs ts = POk e ->
     exists cs, parse_dimacs ts = POk cs /\ cs <> [] /\ ~ In [] cs /\ forall x, den_e e x = zcnf_eval cs x) /\
  (forall e, no_const e = true ->
     exists ex, from_sexpr e = Some ex /\
       forall rho x, agrees (variable_mapping e) rho x -> den_e ex x = xeval rho e) /\
  (forall p a, eval_table (fst (bdd_serialize p)) (snd (bdd_serialize p)) a = Some (den p a)) /\
  (forall p a, eval_xtable (fst (sdd_serialize p)) (snd (sdd_serialize p)) a = Some (SddOps.sden p a)) /\
  (forall t, vtree_deserialize (vtree_serialize t) = t).
Print Assumptions C17_main.

(* ---------------------------------------------------------------------------------------- *)
(* non-vacuity on concrete, non-trivial values *)

(* a CNF with a repeated literal, a complementary pair, an empty clause and a large label:
   what is printed, and that it is read back normalised *)
Example C17_nonvacuous_dimacs :
  let cs : list dclause := [[(2, true); (0, false); (2, true)]; []; [(1, true); (1, false)]; [(99, false)]]%N in
  to_dimacs (CnfUtil.cnf_new cs) = [[-1; 3; 0]; [0]; [2; -2; 0]; [-100; 0]]%Z /\
  cnf_from_dimacs (header 100 4 ++ lex_ints (concat (to_dimacs (CnfUtil.cnf_new cs)))) = POk (CnfUtil.cnf_new cs) /\
  CnfUtil.clauses (CnfUtil.cnf_new cs) = [[(0, false); (2, true)]; []; [(1, true); (1, false)]; [(99, false)]]%N.
Proof. vm_compute. repeat split. Qed.

Example C17_nonvacuous_text :
  let cs : list dclause := [[(0, false); (11, true)]; []; [(99, false)]]%N in
  to_dimacs_text cs = ["010"; "-"; "1"; " "; "1"; "2"; " "; "0"; "010"; " "; "0"; "010"; "-"; "1"; "0"; "0"; " "; "0"]%char /\
  lex_chars (to_dimacs_text cs) None = Some [TMinus; TNat 1; TNat 12; TZero; TZero; TMinus; TNat 100; TZero] /\
  (* a leading zero is two tokens, as in the lexer: "05" = Zero, Nat 5; letters are outside the model *)
  lex_chars ["0"; "5"]%char None = Some [TZero; TNat 5] /\
  lex_chars ["c"]%char None = None.
Proof. vm_compute. repeat split. Qed.

(* LogicalExpr::from_dimacs keeps the 1-based numbers; an unterminated last clause is accepted;
   an empty clause makes it panic while Cnf::from_dimacs accepts it *)
Example C17_nonvacuous_dimacs_expr :
  expr_from_dimacs (header 3 2 ++ lex_ints [1; -2; 3; 0; -1; 2]%Z)
    = POk (EAnd (EOr (ELit 2 true) (ELit 1 false)) (EOr (EOr (ELit 3 true) (ELit 1 true)) (ELit 2 false)))%N /\
  expr_from_dimacs (header 3 2 ++ lex_ints [1; 0; 0]%Z) = PErr /\
  (exists c, cnf_from_dimacs (header 3 2 ++ lex_ints [1; 0; 0]%Z) = POk c /\ CnfUtil.clauses c = [[(0, true)]; []]%N) /\
  cnf_from_dimacs (lex_ints [1; 0]%Z) = PErr.
Proof. vm_compute. repeat split. eexists; split; reflexivity. Qed.

(* names "a10", "a9", "B", "a": bytewise order B < a < a10 < a9 (not numeric, upper case first) *)
Example C17_nonvacuous_sexpr :
  let a10 := [97; 49; 48]%N in let a9 := [97; 57]%N in let b := [66]%N in let a := [97]%N in
  let e := XOr (XVar a9) (XIte (XNot (XVar a10)) (XVar b) (XNot (XAnd (XVar a) (XVar a9)))) in
  no_const e = true /\
  variable_mapping e = [(b, 0); (a, 1); (a10, 2); (a9, 3)] /\
  from_sexpr e = Some (EOr (ELit 3 true) (EIte (ELit 2 false) (ELit 0 true) (ENot (EAnd (ELit 1 true) (ELit 3 true)))))%N /\
  from_sexpr (XAnd (XVar a) XTrue) = None.
Proof. vm_compute. repeat split. Qed.

(* x0 xor x1 with a shared node and a complemented edge, under a complemented root: two rows *)
Example C17_nonvacuous_bdd :
  let n1 := BN false 1%N BF BT in
  let p := BN true 0%N n1 (BN true 1%N BF BT) in
  bdd_serialize p = ([(1%N, PFalse, PTrue); (0%N, PPtr 0 false, PPtr 0 true)], PPtr 1 true) /\
  eval_table (fst (bdd_serialize p)) (snd (bdd_serialize p)) (fun v => N.eqb v 0) = Some false /\
  eval_table (fst (bdd_serialize p)) (snd (bdd_serialize p)) (fun _ => true) = Some true /\
  (* a table with a forward reference is rejected by the reader *)
  eval_table [(0%N, PPtr 1 false, PTrue); (1%N, PFalse, PTrue)] (PPtr 0 false) (fun _ => true) = None.
Proof. vm_compute. repeat split. Qed.

(* an SDD with a general decision node over a binary node, shared sub, complemented root *)
Example C17_nonvacuous_sdd :
  let b := SddOps.SBdd false 2%N 3 SddOps.SF SddOps.ST in
  let p := SddOps.SOr true 1 [(SddOps.SVar 0%N true, b); (SddOps.SVar 0%N false, SddOps.SBdd true 2%N 3 SddOps.SF SddOps.ST)] in
  sdd_serialize p =
    ([[(XPLit 2%N true, XPTrue); (XPLit 2%N false, XPFalse)];
      [(XPLit 0%N true, XPtr 0 false); (XPLit 0%N false, XPtr 0 true)]], XPtr 1 true) /\
  eval_xtable (fst (sdd_serialize p)) (snd (sdd_serialize p)) (fun v => N.eqb v 0) = Some true.
Proof. vm_compute. repeat split. Qed.

Example C17_nonvacuous_vtree :
  let t := VTree.VNode (VTree.VLeaf 4) (VTree.VNode (VTree.VNode (VTree.VLeaf 0) (VTree.VLeaf 7)) (VTree.VLeaf 2)) in
  vtree_serialize t = SVNode (SVLeaf 4) (SVNode (SVNode (SVLeaf 0) (SVLeaf 7)) (SVLeaf 2)) /\
  vtree_deserialize (vtree_serialize t) = t.
Proof. vm_compute. split; reflexivity. Qed.
