(* C19 — command-line tools report exact counts and faithful diagrams.
   Theorems for the model of the pipelines; the binaries themselves (clap, file I/O, serde,
   printing) are tied by running them on generated inputs (translation validation). *)
From Coq Require Import Bool NArith List Lia Arith Permutation.
Import ListNotations.
From RsddV Require Import Base.Bdd Model.IteStd Model.BddOps Model.BddProg Model.Wmc Model.Compile Model.Cli
  Proofs.BddIte Proofs.BddProg Proofs.SmoothProg Proofs.Smooth Proofs.Compile Proofs.Cli.

(* single-count mode: for every constant-free formula over the numbered variables, every weight
   table and every configured order (a permutation of ALL n variables -- the formula's and the
   weight-only ones), the tool's pipeline yields the exact number of models and the exact weighted
   sum over models, both over all n variables *)
Theorem C19_cli_count_correct : forall o e wlo whi x,
  wf_order o -> vars_in (level_of o) (length o) e ->
  exists mc w, cli_counts o e wlo whi = Some (mc, w) /\
    mc = N.of_nat (length (filter (den_e e) (all_asgs (level_vars (var_at o) (length o) 0) x))) /\
    w = wmc_spec N N.add N.mul 0%N 1%N wlo whi (level_vars (var_at o) (length o) 0) (den_e e) x.
Proof. exact cli_counts_correct. Qed.
Check C19_cli_count_correct : forall o e wlo whi x,
  wf_order o -> vars_in (level_of o) (length o) e ->
  exists mc w, cli_counts o e wlo whi = Some (mc, w) /\
    mc = N.of_nat (length (filter (den_e e) (all_asgs (level_vars (var_at o) (length o) 0) x))) /\
    w = wmc_spec N N.add N.mul 0%N 1%N wlo whi (level_vars (var_at o) (length o) 0) (den_e e) x.
Print Assumptions C19_cli_count_correct.

(* ... independently of how the variables are enumerated (the code numbers weight-only variables
   in HashMap iteration order) *)
Theorem C19_cli_count_order_independent : forall vars vars' wlo whi f x,
  Permutation vars vars' -> (forall a a', (forall v, a v = a' v) -> f a = f a') ->
  wmc_spec N N.add N.mul 0%N 1%N wlo whi vars f x = wmc_spec N N.add N.mul 0%N 1%N wlo whi vars' f x.
Proof. exact cli_counts_order_independent. Qed.
Print Assumptions C19_cli_count_order_independent.

(* the converters: the compiled diagram (then serialised, C17) denotes the input formula; for the
   CNF converter the input expression is the dtree plan (C05_plan_of_dtree_sem) *)
Theorem C19_cli_bdd_sem : forall o e, wf_order o -> vars_in (level_of o) (length o) e ->
  exists r, cli_compile o e = Some r /\ forall x, den r x = den_e e x.
Proof. exact cli_compile_correct. Qed.
Print Assumptions C19_cli_bdd_sem.

(* the README example of D3: (Or (Var Z) (And (Var X) (Var Z))), weights (2,3),(5,7),(11,13) *)
Example C19_nonvacuous :
  let e := EOr (ELit 2%N true) (EAnd (ELit 0%N true) (ELit 2%N true)) in
  let wlo := fun v : var => nth (N.to_nat v) [2; 5; 11]%N 0%N in
  let whi := fun v : var => nth (N.to_nat v) [3; 7; 13]%N 0%N in
  cli_counts [0; 1; 2] e wlo whi = Some (4%N, 780%N).
Proof. vm_compute. reflexivity. Qed.
