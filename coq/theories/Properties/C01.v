(* C01 — BDD operations compute exactly the Boolean function they name.
   Property theorems only; proofs live in Proofs/. *)
From Coq Require Import Bool NArith List Lia Arith.
Import ListNotations.
From RsddV Require Import Base.Bdd Model.IteStd Model.BddOps Model.BddProg Proofs.IteStd Proofs.BddCanon Proofs.BddIte Proofs.BddOps Proofs.BddProg.

(* Ite::new (cache/ite.rs): for EVERY relation passed as the order test, the standard triple
   (or constant) denotes if f then g else h. *)
Theorem C01_ite_std_sound : forall (order : bdd -> bdd -> bool) f g h a,
  den_ite (ite_new order f g h) a = ite_ (den f a) (den g a) (den h a).
Proof. exact ite_std_sound. Qed.
Print Assumptions C01_ite_std_sound.

(* ite_helper: for every injective level map (every variable order), every sound cache state,
   every forgetting stream and enough fuel, the result exists, is a well-formed ROBDD at the
   arguments' level and denotes if-then-else; the cache stays sound. *)
Theorem C01_ite_correct : forall level (level_inj : forall u v, level u = level v -> u = v) L remember fuel k s f g h,
  WF level L k f -> WF level L k g -> WF level L k h -> csound level L s -> L - k < fuel ->
  exists r s', ite_m level remember fuel s f g h = Some (r, s') /\ WF level L k r /\
    (forall x, den r x = ite_ (den f x) (den g x) (den h x)) /\ csound level L s'.
Proof. exact ite_m_correct. Qed.
Check C01_ite_correct : forall level (level_inj : forall u v, level u = level v -> u = v) L remember fuel k s f g h,
  WF level L k f -> WF level L k g -> WF level L k h -> csound level L s -> L - k < fuel ->
  exists r s', ite_m level remember fuel s f g h = Some (r, s') /\ WF level L k r /\
    (forall x, den r x = ite_ (den f x) (den g x) (den h x)) /\ csound level L s'.
Print Assumptions C01_ite_correct.

(* condition (cond_with_alloc incl. its memo and the early exit below the variable) *)
Theorem C01_condition_correct : forall level (level_inj : forall u v, level u = level v -> u = v) L lbl value k p,
  WF level L k p ->
  WF level L k (condition_m level p lbl value) /\
  forall x, den (condition_m level p lbl value) x = den p (upd x lbl value).
Proof. exact condition_m_correct. Qed.
Print Assumptions C01_condition_correct.

Theorem C01_compose_correct : forall level (level_inj : forall u v, level u = level v -> u = v) L remember fuel s f lbl g,
  WF level L 0 f -> WF level L 0 g -> level lbl < L -> csound level L s -> L < fuel ->
  ok_result level L 0 (compose_m level remember fuel s f lbl g) (compose_ (den f) lbl (den g)).
Proof. exact compose_ok. Qed.
Print Assumptions C01_compose_correct.

Theorem C01_exists_correct : forall level (level_inj : forall u v, level u = level v -> u = v) L remember fuel k s p lbl,
  WF level L k p -> csound level L s -> L - k < fuel ->
  ok_result level L k (exists_m level remember fuel s p lbl)
            (fun x => den p (upd x lbl true) || den p (upd x lbl false)).
Proof. exact exists_ok. Qed.
Print Assumptions C01_exists_correct.

(* THE PROPERTY: for every variable order (any permutation), every behaviour of the apply cache
   (every forgetting stream: "cache everything", "LRU of any capacity", ...) and every operation
   program (literals, negation, and/or/xor/iff, ite, conditioning on a variable or a partial model,
   exists, compose, list conjunction/disjunction, variables added at run time), every diagram in
   the pool -- the old ones included, after all later operations -- is a well-formed ROBDD for the
   final order and evaluates on every assignment to the value of the specification program. *)
Theorem C01_ops_correct : forall (remember : nat -> bool) (o : order) (ops : list bop) (st' : bstate),
  wf_order o -> run_prog remember (bstate_init o) ops = Some st' ->
  Forall2 (fun p f => WF (level_of (bord st')) (length (bord st')) 0 p /\ forall x, den p x = f x)
          (bpool st') (snd (spec_prog (length o) [] ops)).
Proof. exact ops_correct. Qed.
Check C01_ops_correct : forall (remember : nat -> bool) (o : order) (ops : list bop) (st' : bstate),
  wf_order o -> run_prog remember (bstate_init o) ops = Some st' ->
  Forall2 (fun p f => WF (level_of (bord st')) (length (bord st')) 0 p /\ forall x, den p x = f x)
          (bpool st') (snd (spec_prog (length o) [] ops)).
Print Assumptions C01_ops_correct.

(* the model never runs out of fuel and never fails on programs that only name variables of
   the (current) order -- the hypothesis of C01_ops_correct is satisfiable for all of them *)
Theorem C01_ops_total : forall remember o ops,
  wf_order o -> vars_ok (length o) ops = true -> exists st', run_prog remember (bstate_init o) ops = Some st'.
Proof.
  intros remember o ops WO V. apply (ops_total remember ops (bstate_init o) (length o) []); auto.
  unfold inv; simpl. repeat split; try apply WO; constructor.
Qed.
Print Assumptions C01_ops_total.

(* non-vacuity: a program under a non-identity order with a run-time variable *)
Example C01_nonvacuous :
  let o := [1; 0; 2] in
  let ops := [OVar 0%N true; OVar 1%N false; OAnd 0 1; ONewVar true; OOr 2 3; OExists 4 0%N; OCompose 4 1%N 3; OCond 6 3%N false] in
  wf_order o /\ vars_ok (length o) ops = true /\
  match run_prog (fun _ => true) (bstate_init o) ops with Some st => length (bpool st) = 8 | None => False end.
Proof.
  split; [split; [repeat constructor; simpl; intuition lia|simpl; intros x H; intuition lia]|].
  split; vm_compute; reflexivity.
Qed.
