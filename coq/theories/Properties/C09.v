(* C09 — unit propagation.  Property theorems only. *)
From Coq Require Import Bool NArith List Arith Lia.
Import ListNotations.
From RsddV Require Import Model.UnitProp Proofs.UnitProp.

Theorem C09_up_fixpoint_refuted_pinned :
  final_model true d2_cnf d2_hist = Some [Some true; None; Some false].
Proof. exact d2_pinned. Qed.
Print Assumptions C09_up_fixpoint_refuted_pinned.
