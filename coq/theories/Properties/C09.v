(* C09 — unit propagation is sound, runs to fixpoint, and is exactly undone by pop.
   Property theorems only.  [pinned = false] is the code as it is now; the theorems that do not
   depend on the replacement-watch choice are stated for both values. *)
From Coq Require Import Bool NArith List Arith Lia.
Import ListNotations.
From RsddV Require Import Model.UnitProp Proofs.UnitProp.

(* up_sound: after new and after any valid decide/pop history, every frame's model -- in
   particular the current one -- is entailed by the CNF and the decisions on the stack. *)
Theorem C09_up_sound : forall pinned cls nvars s0 s ds,
  sat_new pinned cls nvars = NewSome s0 -> reaches pinned s0 s ds ->
  stack_sound cls (s_stack s) ds /\ entailed cls ds (ss_model (top_state s)).
Proof. exact up_sound. Qed.
Check C09_up_sound : forall pinned cls nvars s0 s ds,
  sat_new pinned cls nvars = NewSome s0 -> reaches pinned s0 s ds ->
  stack_sound cls (s_stack s) ds /\ entailed cls ds (ss_model (top_state s)).
Print Assumptions C09_up_sound.

(* unsat_sound: None from new only if the CNF has no model; UNSAT from decide only if no model
   of the CNF extends the decisions on the stack and the new literal. *)
Theorem C09_unsat_sound_new : forall pinned cls nvars,
  sat_new pinned cls nvars = NewNone -> forall a, cnf_holds a cls = false.
Proof. exact unsat_sound_new. Qed.
Print Assumptions C09_unsat_sound_new.

Theorem C09_unsat_sound_decide : forall pinned cls nvars s0 s ds l s',
  sat_new pinned cls nvars = NewSome s0 -> reaches pinned s0 s ds ->
  sat_decide pinned s l = (s', DUNSAT) -> forall a, ~ sat_with a cls (l :: ds).
Proof. exact unsat_sound_decide. Qed.
Print Assumptions C09_unsat_sound_decide.

(* pop_restores: decide;pop, and more generally any history that returns to its starting depth
   without popping below it, leaves the whole stack (model, hash, satisfied set of every frame)
   as it was.  The watch lists are not restored and are not mentioned. *)
Theorem C09_pop_restores_step : forall pinned s a s' r,
  sat_decide pinned s a = (s', r) -> r = DSAT \/ r = DUnknown ->
  s_stack (sat_pop s') = s_stack s /\ s_clauses (sat_pop s') = s_clauses s /\
  s_cnf (sat_pop s') = s_cnf s /\ s_nvars (sat_pop s') = s_nvars s.
Proof. exact pop_restores_step. Qed.
Print Assumptions C09_pop_restores_step.

Theorem C09_pop_restores : forall pinned s ops s',
  run_track pinned s [] ops = Some (s', []) ->
  s_stack s' = s_stack s /\ s_clauses s' = s_clauses s.
Proof. exact pop_restores. Qed.
Print Assumptions C09_pop_restores.

Theorem C09_unsat_keeps_stack : forall pinned s a s',
  sat_decide pinned s a = (s', DUNSAT) -> s_stack s' = s_stack s /\ s_clauses s' = s_clauses s.
Proof. exact unsat_keeps_stack. Qed.
Print Assumptions C09_unsat_keeps_stack.

(* sat_flag_iff: is_sat() (satisfied-set size = number of non-tautological clauses, as coded)
   holds exactly when every non-tautological clause of the CNF has a true literal; and
   DecisionResult::SAT is returned exactly when is_sat() holds afterwards. *)
Theorem C09_sat_flag_iff : forall pinned cls nvars s0 s ds,
  sat_new pinned cls nvars = NewSome s0 -> reaches pinned s0 s ds ->
  (sat_is_sat s = true <-> all_nontaut_sat cls (ss_model (top_state s))).
Proof. exact sat_flag_iff. Qed.
Print Assumptions C09_sat_flag_iff.

Theorem C09_decide_sat_iff_is_sat : forall pinned s a s' r,
  sat_decide pinned s a = (s', r) -> r = DSAT \/ r = DUnknown -> (r = DSAT <-> sat_is_sat s' = true).
Proof. exact decide_sat_iff_is_sat. Qed.
Print Assumptions C09_decide_sat_iff_is_sat.

(* D2 (pinned code): after decide(x0=T), pop, decide(x2=F), decide(x0=T) on (¬x0 ∨ ¬x1 ∨ x2),
   x1 is left unassigned although the clause is unit; the repaired code assigns it. *)
Theorem C09_up_fixpoint_refuted_pinned :
  final_state true d2_cnf d2_hist = Some ([Some true; None; Some false], [(0, true); (2, false)]) /\
  fixpoint_ok (cnf_new d2_cnf) [Some true; None; Some false] = false.
Proof. exact d2_pinned. Qed.
Print Assumptions C09_up_fixpoint_refuted_pinned.

Example C09_nonvacuous :
  final_state false d2_cnf d2_hist = Some ([Some true; Some false; Some false], [(0, true); (2, false)]) /\
  fixpoint_ok (cnf_new d2_cnf) [Some true; Some false; Some false] = true.
Proof. exact d2_repaired. Qed.
