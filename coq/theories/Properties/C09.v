(* C09 — unit propagation is sound, runs to fixpoint, and is exactly undone by pop.
   Property theorems only.  [pinned = false] is the code as it is now; the theorems that do not
   depend on the replacement-watch choice are stated for both values. *)
From Coq Require Import Bool NArith List Arith Lia.
Import ListNotations.
From RsddV Require Import Model.UnitProp Proofs.UnitProp Proofs.UnitPropFix Proofs.UnitPropFuel Proofs.UnitPropHash.

(* up_sound: after new and after any valid decide/pop history, every frame's model -- in
   particular the current one -- is entailed by the CNF and the decisions on the stack. *)
Theorem C09_up_sound : forall pinned cls nvars s0 s ds,
  sat_new pinned cls nvars = NewSome s0 -> reaches pinned s0 s ds ->
  stack_sound cls (s_stack s) ds /\ entailed cls ds (ss_model (top_state s)).
Proof. exact up_sound. Qed.
Check C09_up_sound : forall pinned cls nvars s0 s ds,
  sat_new pinned cls nvars = NewSome s0 -> reaches pinned s0 s ds ->
  stack_sound cls (s_stack s) ds /\ entailed cls ds (ss_model (top_state s)).
Print Assumptions C09_up_sound.

(* unsat_sound: None from new only if the CNF has no model; UNSAT from decide only if no model
   of the CNF extends the decisions on the stack and the new literal. *)
Theorem C09_unsat_sound_new : forall pinned cls nvars,
  sat_new pinned cls nvars = NewNone -> forall a, cnf_holds a cls = false.
Proof. exact unsat_sound_new. Qed.
Print Assumptions C09_unsat_sound_new.

Theorem C09_unsat_sound_decide : forall pinned cls nvars s0 s ds l s',
  sat_new pinned cls nvars = NewSome s0 -> reaches pinned s0 s ds ->
  sat_decide pinned s l = (s', DUNSAT) -> forall a, ~ sat_with a cls (l :: ds).
Proof. exact unsat_sound_decide. Qed.
Print Assumptions C09_unsat_sound_decide.

(* pop_restores: decide;pop, and more generally any history that returns to its starting depth
   without popping below it, leaves the whole stack (model, hash, satisfied set of every frame)
   as it was.  The watch lists are not restored and are not mentioned. *)
Theorem C09_pop_restores_step : forall pinned s a s' r,
  sat_decide pinned s a = (s', r) -> r = DSAT \/ r = DUnknown ->
  s_stack (sat_pop s') = s_stack s /\ s_clauses (sat_pop s') = s_clauses s /\
  s_cnf (sat_pop s') = s_cnf s /\ s_nvars (sat_pop s') = s_nvars s.
Proof. exact pop_restores_step. Qed.
Print Assumptions C09_pop_restores_step.

Theorem C09_pop_restores : forall pinned s ops s',
  run_track pinned s [] ops = Some (s', []) ->
  s_stack s' = s_stack s /\ s_clauses s' = s_clauses s.
Proof. exact pop_restores. Qed.
Print Assumptions C09_pop_restores.

Theorem C09_unsat_keeps_stack : forall pinned s a s',
  sat_decide pinned s a = (s', DUNSAT) -> s_stack s' = s_stack s /\ s_clauses s' = s_clauses s.
Proof. exact unsat_keeps_stack. Qed.
Print Assumptions C09_unsat_keeps_stack.

(* sat_flag_iff: is_sat() (satisfied-set size = number of non-tautological clauses, as coded)
   holds exactly when every non-tautological clause of the CNF has a true literal; and
   DecisionResult::SAT is returned exactly when is_sat() holds afterwards. *)
Theorem C09_sat_flag_iff : forall pinned cls nvars s0 s ds,
  sat_new pinned cls nvars = NewSome s0 -> reaches pinned s0 s ds ->
  (sat_is_sat s = true <-> all_nontaut_sat cls (ss_model (top_state s))).
Proof. exact sat_flag_iff. Qed.
Print Assumptions C09_sat_flag_iff.

Theorem C09_decide_sat_iff_is_sat : forall pinned s a s' r,
  sat_decide pinned s a = (s', r) -> r = DSAT \/ r = DUnknown -> (r = DSAT <-> sat_is_sat s' = true).
Proof. exact decide_sat_iff_is_sat. Qed.
Print Assumptions C09_decide_sat_iff_is_sat.

(* up_fixpoint (repaired code): after new and after every valid history no clause is falsified
   and none has exactly one unassigned literal occurrence and no true literal.
   Three forms, strongest first:
   - C09_up_fixpoint_raw: for EVERY input of the pipeline Cnf::new -> SATSolver::new, no
     hypothesis on the clauses.  Cnf::new sorts stably by label only, so a repeated literal can
     survive (x, -x, x stays as it is); what it does guarantee -- labels non-decreasing, no two
     adjacent equal literals -- implies [rem_adj_ok]: the first two unassigned occurrences of a
     clause are never the same literal, which is all the replacement-watch choice needs.
   - C09_up_fixpoint_general: for any stored clause list with labels < nvars and [rem_adj_ok].
   - C09_up_fixpoint: the statement as first planned (no repeated literal inside a stored clause). *)
Definition C09_up_fixpoint_statement : Prop :=
  forall cls nvars s0 s ds,
    lits_in_range nvars cls -> Forall (@NoDup lit) cls ->
    sat_new false cls nvars = NewSome s0 -> reaches false s0 s ds ->
    fixpoint_ok cls (ss_model (top_state s)) = true.

Theorem C09_up_fixpoint : C09_up_fixpoint_statement.
Proof. exact up_fixpoint_nodup. Qed.
Print Assumptions C09_up_fixpoint.

Theorem C09_up_fixpoint_general : forall nvars cls s0 s ds,
  lits_in_range nvars cls -> rem_adj_ok cls ->
  sat_new false cls nvars = NewSome s0 -> reaches false s0 s ds ->
  fixpoint_ok cls (ss_model (top_state s)) = true.
Proof. intros nvars cls s0 s ds Hr Ha. exact (up_fixpoint nvars cls Hr Ha s0 s ds). Qed.
Print Assumptions C09_up_fixpoint_general.

Theorem C09_up_fixpoint_raw : forall raw s0 s ds,
  solver_of_raw false raw = NewSome s0 -> reaches false s0 s ds ->
  fixpoint_ok (cnf_new raw) (ss_model (top_state s)) = true.
Proof. exact up_fixpoint_raw. Qed.
Print Assumptions C09_up_fixpoint_raw.

Theorem C09_cnf_new_adj_ok : forall raw, rem_adj_ok (cnf_new raw).
Proof. exact cnf_new_adj_ok. Qed.
Print Assumptions C09_cnf_new_adj_ok.

(* the invariant behind it, one decide at a time (top model, every model below it, failed decides) *)
Theorem C09_up_fixpoint_step : forall nvars cls fuel w m a w' r,
  lits_in_range nvars cls -> rem_adj_ok cls -> ~ In [] cls ->
  S_inv nvars cls w -> length m = nvars -> lvar a < nvars ->
  up_decide false cls fuel w m a = URes w' r ->
  S_inv nvars cls w' /\
  (forall mj, pm_le mj m -> V cls [] w mj -> V cls [] w' mj) /\
  (forall m', r = Some m' -> V cls [] w m -> units_true cls m ->
     V cls [] w' m' /\ units_true cls m' /\ length m' = nvars /\ pm_le m m' /\ fixpoint_ok cls m' = true).
Proof. exact fix_step. Qed.
Print Assumptions C09_up_fixpoint_step.

(* fuel: with the fuel the solver passes (up_fuel) neither new nor any decide on a reachable state
   runs out of fuel (pinned and repaired code), so a history is invalid only because it pops
   without a matching successful decide or decides a label >= num_vars (where the code panics).
   The "run returns" side condition of the other theorems is therefore no restriction. *)
Theorem C09_new_no_out_of_fuel : forall pinned nvars cls,
  lits_in_range nvars cls -> sat_new pinned cls nvars <> NewOutOfFuel.
Proof. exact sat_new_no_out_of_fuel. Qed.
Print Assumptions C09_new_no_out_of_fuel.

Theorem C09_raw_no_out_of_fuel : forall pinned raw, solver_of_raw pinned raw <> NewOutOfFuel.
Proof. exact raw_no_out_of_fuel. Qed.
Print Assumptions C09_raw_no_out_of_fuel.

Theorem C09_decide_no_out_of_fuel : forall pinned nvars cls,
  lits_in_range nvars cls -> forall s0 s ds a,
  sat_new pinned cls nvars = NewSome s0 -> reaches pinned s0 s ds ->
  snd (sat_decide pinned s a) <> DOutOfFuel.
Proof. exact decide_no_out_of_fuel. Qed.
Print Assumptions C09_decide_no_out_of_fuel.

Theorem C09_history_fails_only_by_guard : forall pinned nvars cls,
  lits_in_range nvars cls -> forall s0 s ds o,
  sat_new pinned cls nvars = NewSome s0 -> reaches pinned s0 s ds ->
  run_track pinned s ds [o] = None ->
  (o = Pop /\ ds = []) \/ (exists a, o = Decide a /\ nvars <= lvar a).
Proof. exact history_fails_only_by_guard. Qed.
Print Assumptions C09_history_fails_only_by_guard.

(* hash.  (1) Along every valid history (pinned and repaired code) cur_hash is the product, modulo
   2^128, of the weights of the removed literal occurrences: every occurrence of a satisfied
   clause and the false literals of the other clauses (Pall).  (2) hash_injective: under the
   explicit guard 0 < product of all literal weights < 2^128, two reachable states of the repaired
   code with equal hashes have the same residual formula, clause position by clause position (the
   same clauses satisfied, the same literals unassigned in the others).  "0 <" says that the
   modelled prime stream never ran out of search fuel (it returns 0 then; that its search bound
   always suffices is Bertrand's postulate, not proved); the weights are then proved to be
   pairwise distinct primes.  (3) The converse needs no guard. *)
Theorem C09_hash_is_product : forall pinned cls nvars s0 s ds,
  sat_new pinned cls nvars = NewSome s0 -> reaches pinned s0 s ds ->
  sat_cur_hash s = (Pall (s_clauses s) (ss_model (top_state s)) mod two128)%N.
Proof. exact hash_is_product. Qed.
Print Assumptions C09_hash_is_product.

Definition C09_hash_injective_statement : Prop :=
  forall raw s0 s1 ds1 s2 ds2,
    solver_of_raw false raw = NewSome s0 ->
    (0 < prodf (fun w => w) (all_weights (s_clauses s0)) < two128)%N ->
    reaches false s0 s1 ds1 -> reaches false s0 s2 ds2 ->
    sat_cur_hash s1 = sat_cur_hash s2 ->
    residual (s_clauses s0) (ss_model (top_state s1)) = residual (s_clauses s0) (ss_model (top_state s2)).

Theorem C09_hash_injective : C09_hash_injective_statement.
Proof. exact hash_injective_raw. Qed.
Print Assumptions C09_hash_injective.

Theorem C09_hash_injective_general : forall nvars cls s0 s1 ds1 s2 ds2,
  lits_in_range nvars cls -> rem_adj_ok cls ->
  sat_new false cls nvars = NewSome s0 ->
  (0 < prodf (fun w => w) (all_weights (s_clauses s0)) < two128)%N ->
  reaches false s0 s1 ds1 -> reaches false s0 s2 ds2 ->
  sat_cur_hash s1 = sat_cur_hash s2 ->
  residual (s_clauses s0) (ss_model (top_state s1)) = residual (s_clauses s0) (ss_model (top_state s2)).
Proof. exact hash_injective. Qed.
Print Assumptions C09_hash_injective_general.

Theorem C09_equal_removed_equal_hash : forall pinned cls nvars s0 s1 ds1 s2 ds2,
  sat_new pinned cls nvars = NewSome s0 -> reaches pinned s0 s1 ds1 -> reaches pinned s0 s2 ds2 ->
  sel (s_clauses s0) (ss_model (top_state s1)) = sel (s_clauses s0) (ss_model (top_state s2)) ->
  sat_cur_hash s1 = sat_cur_hash s2.
Proof. exact equal_sel_equal_hash. Qed.
Print Assumptions C09_equal_removed_equal_hash.

(* the guard is satisfiable: the D2 CNF has weights 2,3,5 *)
Example C09_hash_guard_nonvacuous :
  match solver_of_raw false d2_cnf with
  | NewSome s0 => all_weights (s_clauses s0) = [2; 3; 5]%N /\
                  (0 < prodf (fun w => w) (all_weights (s_clauses s0)) < two128)%N
  | _ => False
  end.
Proof. vm_compute. split; [reflexivity|split; reflexivity]. Qed.

(* D2 (pinned code): after decide(x0=T), pop, decide(x2=F), decide(x0=T) on (¬x0 ∨ ¬x1 ∨ x2),
   x1 is left unassigned although the clause is unit; the repaired code assigns it. *)
Theorem C09_up_fixpoint_refuted_pinned :
  final_state true d2_cnf d2_hist = Some ([Some true; None; Some false], [(0, true); (2, false)]) /\
  fixpoint_ok (cnf_new d2_cnf) [Some true; None; Some false] = false.
Proof. exact d2_pinned. Qed.
Print Assumptions C09_up_fixpoint_refuted_pinned.

Example C09_nonvacuous :
  final_state false d2_cnf d2_hist = Some ([Some true; Some false; Some false], [(0, true); (2, false)]) /\
  fixpoint_ok (cnf_new d2_cnf) [Some true; Some false; Some false] = true.
Proof. exact d2_repaired. Qed.
