(* C16 — operation caches are transparent.  Property theorems only: each is closed by
   [exact], pinned by [Check], and followed by [Print Assumptions]. *)
From Coq Require Import Bool NArith List Lia Arith.
Import ListNotations.
From RsddV Require Import Generated.Constants Model.Lru Proofs.Lru.
From RsddV Require Import Base.Bdd Model.BddOps Model.BddProg Proofs.BddIte Proofs.BddProg Proofs.BddCanonProg.

(* For every hash function (all collision patterns), every initial capacity and every
   sequence of insert/get calls that hashes a key with that function: every get answers
   nothing or the value of the most recent insert under exactly that key. *)
Theorem C16_lru_spec : forall (H : N -> N) (c : nat) (ops : list op),
  Forall (consistent_op H) ops -> spec_ok [] ops (run (lru_new c) ops).
Proof. exact lru_spec. Qed.
Check C16_lru_spec : forall (H : N -> N) (c : nat) (ops : list op),
  Forall (consistent_op H) ops -> spec_ok [] ops (run (lru_new c) ops).
Print Assumptions C16_lru_spec.

(* Whatever hashes the caller passes, a value comes back only from a slot whose stored key is
   the requested key. *)
Theorem C16_get_key_exact : forall t k h v, get t k h = Some v ->
  exists e, nth (pos (cap t) h) (tbl t) None = Some e /\ ekey e = k /\ eval e = v.
Proof. exact get_key_exact. Qed.
Print Assumptions C16_get_key_exact.

(* Growth re-inserts through [insert] in the code; with the shipped GROW_RATIO its own growth
   test is never true there, which is what lets the model use [insert_raw] in [grow]. *)
Theorem C16_regrow_never : forall t pre suf,
  length (tbl t) = 2 ^ cap t -> tbl t = pre ++ suf ->
  needs_grow (fold_left (fun acc o => match o with
                                      | Some e => insert_raw acc (ekey e) (eval e) (ehash e)
                                      | None => acc end) pre (lru_new (S (cap t)))) = false.
Proof. intros t pre suf. apply regrow_never. unfold grow_num, grow_den. lia. Qed.
Print Assumptions C16_regrow_never.

(* Consequently: a builder returns the same canonical diagrams whatever its apply cache
   remembers or forgets -- "caches every application", "lossy cache of any capacity" and every
   other behaviour are instances of the forgetting stream. *)
Theorem C16_cache_transparent : forall rem1 rem2 o ops st1 st2,
  wf_order o ->
  run_prog rem1 (bstate_init o) ops = Some st1 ->
  run_prog rem2 (bstate_init o) ops = Some st2 ->
  bpool st1 = bpool st2.
Proof. exact prog_cache_transparent. Qed.
Print Assumptions C16_cache_transparent.

(* one if-then-else: same result from any two sound cache states and forgetting streams *)
Theorem C16_ite_cache_transparent : forall level (level_inj : forall u v, level u = level v -> u = v) L
        (rem1 rem2 : nat -> bool) fuel1 fuel2 s1 s2 f g h,
  WF level L 0 f -> WF level L 0 g -> WF level L 0 h ->
  csound level L s1 -> csound level L s2 -> L < fuel1 -> L < fuel2 ->
  exists r s1' s2', ite_m level rem1 fuel1 s1 f g h = Some (r, s1') /\
                    ite_m level rem2 fuel2 s2 f g h = Some (r, s2').
Proof. exact Proofs.BddOps.ite_cache_transparent. Qed.
Print Assumptions C16_ite_cache_transparent.

(* non-vacuity: a colliding history with an overwrite and a growth, hashes consistent *)
Example C16_nonvacuous :
  let H := fun k => (k mod 2)%N in
  let ops := [Ins 0 10 (H 0); Ins 2 12 (H 2); Get 0 (H 0); Get 2 (H 2); Ins 1 11 (H 1);
              Ins 3 13 (H 3); Get 1 (H 1); Get 3 (H 3)]%N in
  Forall (consistent_op H) ops /\ run (lru_new 1) ops = [None; Some 12; None; Some 13]%N.
Proof. split; [repeat constructor | vm_compute; reflexivity]. Qed.

(* Usefulness half of the refinement (the spec "nothing or the latest value" alone would admit a
   cache that never hits): in every reachable table -- any capacity, any history, any hashes,
   grown or not -- a value just inserted is found by the next lookup under that key and hash. *)
Theorem C16_get_after_insert : forall c ops k v h,
  get (insert (final (lru_new c) ops) k v h) k h = Some v.
Proof. intros. apply get_after_insert. apply final_len. Qed.
Check C16_get_after_insert : forall c ops k v h,
  get (insert (final (lru_new c) ops) k v h) k h = Some v.
Print Assumptions C16_get_after_insert.

(* ... and an insert that does not grow the table changes the answer of no lookup that maps to
   another slot (the cache forgets only by overwriting the one slot it writes, or by growing). *)
Theorem C16_insert_local : forall t k v h k' h',
  needs_grow t = false -> pos (cap t) h' <> pos (cap t) h -> get (insert t k v h) k' h' = get t k' h'.
Proof. exact get_other_slot. Qed.
Print Assumptions C16_insert_local.

(* The fill counter that drives growth never under-counts: in every reachable table (any capacity,
   hashes, history -- including the growths, which keep the caller's counter as coded) the number
   of occupied slots is at most [num_filled], and the table has exactly 2^cap slots.  So a growth
   is never later than the occupancy requires and positions are always in range. *)
Theorem C16_fill_counter_sound : forall c ops,
  let t := final (lru_new c) ops in
  length (tbl t) = 2 ^ cap t /\ occupied_count t <= num_filled t.
Proof. exact final_OccInv. Qed.
Check C16_fill_counter_sound : forall c ops,
  let t := final (lru_new c) ops in
  length (tbl t) = 2 ^ cap t /\ occupied_count t <= num_filled t.
Print Assumptions C16_fill_counter_sound.

(* Load bound: in every reachable table the counter exceeds GROW_RATIO * slots by at most one
   entry (with C16_fill_counter_sound: so does the number of occupied slots).  The side conditions
   on the shipped ratio (1/2 <= GROW_RATIO < 1) are checked on the generated constants. *)
Theorem C16_load_bounded : forall c ops,
  let t := final (lru_new c) ops in
  grow_den * num_filled t <= grow_num * 2 ^ cap t + grow_den.
Proof. intros c ops. apply final_LoadInv; unfold grow_num, grow_den; lia. Qed.
Check C16_load_bounded : forall c ops,
  let t := final (lru_new c) ops in
  grow_den * num_filled t <= grow_num * 2 ^ cap t + grow_den.
Print Assumptions C16_load_bounded.

(* "... and the SDD apply and if-then-else caches never change a result": an SDD operation program
   (and / or / negate / ite / condition / exists / compose / CNF compilation steps, the ite cache
   threaded through the run) returns the same pool of canonical SDDs under any two behaviours of
   the apply cache that answer soundly and in normal form -- the shipped never-forgetting HashMap is
   one such behaviour, the empty cache another.  (Proved with C04's canonicity; restated here with
   qualified names because the SDD and BDD models share identifiers.) *)
From RsddV Require Model.SddVtree Model.SddOps Proofs.SddAnd Proofs.SddWfAnd Proofs.SddProg Properties.C04.
Theorem C16_sdd_cache_transparent : forall t cache1 cache2 ops,
  NoDup (SddVtree.vleaves t) ->
  SddAnd.cache_sound t cache1 -> SddWfAnd.cache_nf cache1 ->
  SddAnd.cache_sound t cache2 -> SddWfAnd.cache_nf cache2 ->
  Forall (SddProg.op_wf t) ops ->
  exists pool ic1 ic2,
    SddOps.run_m t true cache1 (S (SddVtree.vheight t)) ([], []) ops = SddOps.Ok (pool, ic1) /\
    SddOps.run_m t true cache2 (S (SddVtree.vheight t)) ([], []) ops = SddOps.Ok (pool, ic2).
Proof. exact C04.C04_cache_independent. Qed.
Print Assumptions C16_sdd_cache_transparent.
