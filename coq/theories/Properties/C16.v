(* C16 — operation caches are transparent.  Property theorems only: each is closed by
   [exact], pinned by [Check], and followed by [Print Assumptions]. *)
From Coq Require Import Bool NArith List Lia Arith.
Import ListNotations.
From RsddV Require Import Generated.Constants Model.Lru Proofs.Lru.

(* For every hash function (all collision patterns), every initial capacity and every
   sequence of insert/get calls that hashes a key with that function: every get answers
   nothing or the value of the most recent insert under exactly that key. *)
Theorem C16_lru_spec : forall (H : N -> N) (c : nat) (ops : list op),
  Forall (consistent_op H) ops -> spec_ok [] ops (run (lru_new c) ops).
Proof. exact lru_spec. Qed.
Check C16_lru_spec : forall (H : N -> N) (c : nat) (ops : list op),
  Forall (consistent_op H) ops -> spec_ok [] ops (run (lru_new c) ops).
Print Assumptions C16_lru_spec.

(* Whatever hashes the caller passes, a value comes back only from a slot whose stored key is
   the requested key. *)
Theorem C16_get_key_exact : forall t k h v, get t k h = Some v ->
  exists e, nth (pos (cap t) h) (tbl t) None = Some e /\ ekey e = k /\ eval e = v.
Proof. exact get_key_exact. Qed.
Print Assumptions C16_get_key_exact.

(* Growth re-inserts through [insert] in the code; with the shipped GROW_RATIO its own growth
   test is never true there, which is what lets the model use [insert_raw] in [grow]. *)
Theorem C16_regrow_never : forall t pre suf,
  length (tbl t) = 2 ^ cap t -> tbl t = pre ++ suf ->
  needs_grow (fold_left (fun acc o => match o with
                                      | Some e => insert_raw acc (ekey e) (eval e) (ehash e)
                                      | None => acc end) pre (lru_new (S (cap t)))) = false.
Proof. intros t pre suf. apply regrow_never. unfold grow_num, grow_den. lia. Qed.
Print Assumptions C16_regrow_never.

(* non-vacuity: a colliding history with an overwrite and a growth, hashes consistent *)
Example C16_nonvacuous :
  let H := fun k => (k mod 2)%N in
  let ops := [Ins 0 10 (H 0); Ins 2 12 (H 2); Get 0 (H 0); Get 2 (H 2); Ins 1 11 (H 1);
              Ins 3 13 (H 3); Get 1 (H 1); Get 3 (H 3)]%N in
  Forall (consistent_op H) ops /\ run (lru_new 1) ops = [None; Some 12; None; Some 13]%N.
Proof. split; [repeat constructor | vm_compute; reflexivity]. Qed.
