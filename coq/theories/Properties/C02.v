(* C02 — equal functions are the same BDD node: ROBDD canonicity and shape (tree layer).
   The unique table itself (growth, collisions) is the store-layer development C02S. *)
From Coq Require Import Bool NArith List Lia Arith.
Import ListNotations.
From RsddV Require Import Base.Bdd Model.IteStd Model.BddOps Model.BddProg Proofs.BddCanon Proofs.BddIte
  Proofs.BddOps Proofs.BddProg Proofs.BddCanonProg.

(* reduced ordered BDDs with complement edges (regular, non-false high edge) are canonical *)
Theorem C02_bdd_canonical : forall (level : var -> nat), (forall u v, level u = level v -> u = v) ->
  forall p q k, wfb level k p -> wfb level k q -> (forall a, den p a = den q a) -> p = q.
Proof. exact bdd_canonical. Qed.
Print Assumptions C02_bdd_canonical.

(* for all results of all operation histories, under every order and every cache behaviour:
   same node (structural identity of unfoldings = pointer identity given a correct unique
   table) if and only if same function *)
Theorem C02_eq_iff_equiv : forall remember o ops st' i j,
  wf_order o -> run_prog remember (bstate_init o) ops = Some st' ->
  i < length (bpool st') -> j < length (bpool st') ->
  (nth i (bpool st') BF = nth j (bpool st') BF <->
   forall x, den (nth i (bpool st') BF) x = den (nth j (bpool st') BF) x).
Proof. exact eq_iff_equiv. Qed.
Check C02_eq_iff_equiv : forall remember o ops st' i j,
  wf_order o -> run_prog remember (bstate_init o) ops = Some st' ->
  i < length (bpool st') -> j < length (bpool st') ->
  (nth i (bpool st') BF = nth j (bpool st') BF <->
   forall x, den (nth i (bpool st') BF) x = den (nth j (bpool st') BF) x).
Print Assumptions C02_eq_iff_equiv.

(* every result respects the order on every path, has no node with identical children and no
   complemented or constant-false high edge *)
Theorem C02_results_shaped : forall remember o ops st' i,
  wf_order o -> run_prog remember (bstate_init o) ops = Some st' ->
  shaped (level_of (bord st')) None (nth i (bpool st') BF).
Proof. exact results_shaped. Qed.
Print Assumptions C02_results_shaped.

(* ... after any apply-cache evictions: the results do not depend on the forgetting stream *)
Theorem C02_cache_independent : forall rem1 rem2 o ops st1 st2,
  wf_order o ->
  run_prog rem1 (bstate_init o) ops = Some st1 ->
  run_prog rem2 (bstate_init o) ops = Some st2 ->
  bpool st1 = bpool st2.
Proof. exact prog_cache_transparent. Qed.
Print Assumptions C02_cache_independent.

Example C02_nonvacuous :
  let o := [2; 0; 1] in
  let ops := [OVar 0%N true; OVar 1%N true; OVar 2%N false; OOr 0 1; OAnd 3 0; OAnd 0 3; OIte 2 4 5] in
  wf_order o /\
  match run_prog (fun n => Nat.even n) (bstate_init o) ops with
  | Some st => nth 4 (bpool st) BF = nth 0 (bpool st) BF /\ nth 6 (bpool st) BF = nth 0 (bpool st) BF
  | None => False end.
Proof.
  split; [split; [repeat constructor; simpl; intuition lia|simpl; intros x H; intuition lia]|].
  vm_compute. split; reflexivity.
Qed.
