(* C05 — bottom-up compilation of CNFs, expressions and plans is exact (BDD builder). *)
From Coq Require Import Bool NArith List Lia Arith Permutation.
Import ListNotations.
From RsddV Require Import Base.Bdd Model.IteStd Model.BddOps Model.BddProg Model.Compile Proofs.BddCanon
  Proofs.BddIte Proofs.BddOps Proofs.BddProg Proofs.Compile.

(* compile_logical_expr / compile_plan: for every order, every sound cache state, every forgetting
   stream and every expression over the order's variables, the result is a well-formed ROBDD whose
   models are exactly the expression's *)
Theorem C05_compile_expr_correct : forall level (level_inj : forall u v, level u = level v -> u = v) L remember fuel,
  L < fuel -> forall e s, vars_in level L e -> csound level L s ->
  ok_result level L 0 (compile_e level remember fuel e s) (den_e e).
Proof. exact compile_e_ok. Qed.
Check C05_compile_expr_correct : forall level (level_inj : forall u v, level u = level v -> u = v) L remember fuel,
  L < fuel -> forall e s, vars_in level L e -> csound level L s ->
  ok_result level L 0 (compile_e level remember fuel e s) (den_e e).
Print Assumptions C05_compile_expr_correct.

(* the expression compile_cnf builds (first literal repeated, or-chain per clause, balanced
   conjunction) means the CNF -- including the empty formula, empty clauses, unit clauses,
   repeated and complementary literals *)
Theorem C05_cnf_expr_sem : forall f x, den_e (cnf_expr f) x = cnf_eval f x.
Proof. exact cnf_expr_den. Qed.
Print Assumptions C05_cnf_expr_sem.

(* hence compile_cnf is exact, and -- by canonicity -- any two formulas with the same models
   (in particular any permutation of the clauses, which is all the best-effort sort can do)
   compile to the SAME diagram *)
Theorem C05_compile_canonical : forall level (level_inj : forall u v, level u = level v -> u = v) L remember fuel,
  L < fuel -> forall e1 e2 s1 s2 r1 r2 s1' s2',
  vars_in level L e1 -> vars_in level L e2 -> csound level L s1 -> csound level L s2 ->
  (forall x, den_e e1 x = den_e e2 x) ->
  compile_e level remember fuel e1 s1 = Some (r1, s1') ->
  compile_e level remember fuel e2 s2 = Some (r2, s2') -> r1 = r2.
Proof. exact compile_e_canonical. Qed.
Print Assumptions C05_compile_canonical.

Theorem C05_cnf_perm_sem : forall f f' x, Permutation f f' -> cnf_eval f x = cnf_eval f' x.
Proof. exact cnf_eval_perm. Qed.
Print Assumptions C05_cnf_perm_sem.

(* compiling under a partial assignment means the CNF with the assigned variables overridden,
   i.e. exactly what conditioning the compiled diagram denotes; by C05_compile_canonical /
   C02 the two diagrams are then identical *)
Theorem C05_compile_under_assignment_sem : forall m f x,
  den_e (cnf_expr_under m f) x = cnf_eval f (override m x).
Proof. exact cnf_expr_under_den. Qed.
Print Assumptions C05_compile_under_assignment_sem.

(* a plan derived from a decomposition tree means the conjunction of the tree's leaf clauses
   (that the leaves are exactly the CNF's clauses is C14) *)
Theorem C05_plan_of_dtree_sem : forall t x, den_e (plan_of_dtree t) x = cnf_eval (dleaves t) x.
Proof. exact plan_of_dtree_den. Qed.
Print Assumptions C05_plan_of_dtree_sem.

Example C05_nonvacuous :
  let f : cnf := [[(0, true); (1, false); (0, true)]; [(2, true)]; [(1, true); (1, false)]]%N in
  let o := [2; 0; 1] in
  wf_order o /\ vars_in (level_of o) 3 (cnf_expr f) /\
  match compile_e (level_of o) (fun _ => true) 4 (cnf_expr f) cst_empty with
  | Some (r, _) => den r (fun v => N.eqb v 1) = false /\ den r (fun v => negb (N.eqb v 1)) = true
  | None => False end.
Proof.
  split; [split; [repeat constructor; simpl; intuition lia|simpl; intros x H; intuition lia]|].
  split; [intros v Hv; vm_compute in Hv; repeat (destruct Hv as [<-|Hv]; [vm_compute; lia|]); contradiction|].
  vm_compute. split; reflexivity.
Qed.
