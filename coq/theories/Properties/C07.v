(* C07 — weighted model counts equal the semiring sum over models. *)
From Coq Require Import Bool NArith List Lia Arith.
Import ListNotations.
From Coq Require Import Sorted.
From RsddV Require Import Base.Bdd Model.Wmc Proofs.BddCanon Proofs.Wmc Proofs.Smooth Proofs.WmcDep.

(* For every commutative semiring (the laws are hypotheses; the shipped weight types satisfy them by
   C13), every diagram in which no path tests a variable twice -- ordered BDDs, top-down decision
   diagrams, smoothed diagrams --, regular or complemented root, any sharing (the unfolding forgets
   it), every duplicate-free variable list covering the support and weights with lo + hi = one:
   the fold equals the sum over all assignments of those variables of the product of the chosen
   literal weights, restricted to the models. *)
Theorem C07_wmc_correct : forall (S : Type) (add mul : S -> S -> S) (zero one : S),
  (forall a b, add a b = add b a) -> (forall a b c, add (add a b) c = add a (add b c)) ->
  (forall a b c, mul (mul a b) c = mul a (mul b c)) -> (forall a b, mul a b = mul b a) ->
  (forall a, mul a one = a) -> (forall a b c, mul a (add b c) = add (mul a b) (mul a c)) ->
  forall (wlo whi : var -> S), (forall v, add (wlo v) (whi v) = one) ->
  forall p c vars x, free_bdd p -> NoDup vars -> incl (support p) vars ->
  wmc_c S add mul zero one wlo whi c p =
  wmc_spec S add mul zero one wlo whi vars (fun a => xorb c (den p a)) x.
Proof.
  intros S add mul zero one Hac Haa Hma Hmc Hm1 Hd wlo whi Hn p c vars x.
  apply (wmc_free_correct S add mul zero one Hac Haa Hma Hmc Hm1 Hd wlo whi Hn).
Qed.
Check C07_wmc_correct : forall (S : Type) (add mul : S -> S -> S) (zero one : S),
  (forall a b, add a b = add b a) -> (forall a b c, add (add a b) c = add a (add b c)) ->
  (forall a b c, mul (mul a b) c = mul a (mul b c)) -> (forall a b, mul a b = mul b a) ->
  (forall a, mul a one = a) -> (forall a b c, mul a (add b c) = add (mul a b) (mul a c)) ->
  forall (wlo whi : var -> S), (forall v, add (wlo v) (whi v) = one) ->
  forall p c vars x, free_bdd p -> NoDup vars -> incl (support p) vars ->
  wmc_c S add mul zero one wlo whi c p =
  wmc_spec S add mul zero one wlo whi vars (fun a => xorb c (den p a)) x.
Print Assumptions C07_wmc_correct.

(* every ordered BDD (any order) is free, so the theorem applies to every result of the builder *)
Theorem C07_ordered_is_free : forall (level : var -> nat) k p, wfb level k p -> free_bdd p.
Proof. exact wfb_free. Qed.
Print Assumptions C07_ordered_is_free.

(* independence of the representation: two free diagrams of one function -- different orders,
   complement edges, sharing, kinds -- have the same count *)
Theorem C07_structure_independent : forall (S : Type) (add mul : S -> S -> S) (zero one : S),
  (forall a b, add a b = add b a) -> (forall a b c, add (add a b) c = add a (add b c)) ->
  (forall a b c, mul (mul a b) c = mul a (mul b c)) -> (forall a b, mul a b = mul b a) ->
  (forall a, mul a one = a) -> (forall a b c, mul a (add b c) = add (mul a b) (mul a c)) ->
  forall (wlo whi : var -> S), (forall v, add (wlo v) (whi v) = one) ->
  forall p q, free_bdd p -> free_bdd q -> (forall a, den p a = den q a) ->
  wmc_m S add mul zero one wlo whi p = wmc_m S add mul zero one wlo whi q.
Proof.
  intros S add mul zero one Hac Haa Hma Hmc Hm1 Hd wlo whi Hn p q Fp Fq E. unfold wmc_m.
  set (vars := nodup N.eq_dec (support p ++ support q)).
  assert (ND : NoDup vars) by apply NoDup_nodup.
  assert (Ip : incl (support p) vars) by (intros u Hu; apply nodup_In; apply in_or_app; auto).
  assert (Iq : incl (support q) vars) by (intros u Hu; apply nodup_In; apply in_or_app; auto).
  rewrite (wmc_free_correct S add mul zero one Hac Haa Hma Hmc Hm1 Hd wlo whi Hn p false vars (fun _ => false) Fp ND Ip).
  rewrite (wmc_free_correct S add mul zero one Hac Haa Hma Hmc Hm1 Hd wlo whi Hn q false vars (fun _ => false) Fq ND Iq).
  apply wmc_spec_local. intros a _. rewrite E. reflexivity.
Qed.
Print Assumptions C07_structure_independent.

(* arbitrary weights, complete diagrams (what smoothing produces): no law needed at all *)
Theorem C07_wmc_complete : forall (S : Type) (add mul : S -> S -> S) (zero one : S) (wlo whi : var -> S) vars p c x,
  NoDup vars -> complete vars p ->
  wmc_c S add mul zero one wlo whi c p = wmc_spec S add mul zero one wlo whi vars (fun a => xorb c (den p a)) x.
Proof. exact wmc_complete_correct. Qed.
Print Assumptions C07_wmc_complete.

(* Boolean evaluation of an assignment agrees with the denoted function, for EVERY diagram *)
Theorem C07_evaluate_correct : forall p a, evaluate_m p a = den p a.
Proof. exact evaluate_correct. Qed.
Print Assumptions C07_evaluate_correct.

(* For an ordered BDD (any order = any injective level map) and ARBITRARY weights in ANY structure
   (no law needed): the count equals the sum taken only over the variables each sub-function
   actually depends on -- [dep_sum] walks the variables in order and branches (and weighs) exactly
   on those the current restricted function does not ignore. *)
Theorem C07_wmc_dep_correct : forall (level : var -> nat) (level_inj : forall u v, level u = level v -> u = v)
  (S : Type) (add mul : S -> S -> S) (zero one : S) (wlo whi : var -> S) vars p c x,
  StronglySorted (fun u v => level u < level v) vars ->
  wfb level 0 p -> incl (support p) vars ->
  dep_sum S add mul zero one wlo whi vars (fun a => xorb c (den p a)) x (wmc_c S add mul zero one wlo whi c p).
Proof. exact wmc_dep_correct. Qed.
Print Assumptions C07_wmc_dep_correct.

Example C07_nonvacuous :
  let p := BN true 0%N (BN false 1%N BF BT) BT in
  free_bdd p /\ NoDup [0; 1; 2]%N /\ incl (support p) [0; 1; 2]%N /\
  wmc_m N N.add N.mul 0%N 1%N (fun _ => 1%N) (fun _ => 0%N) p = 1%N.
Proof.
  split; [simpl; intuition discriminate|]. split; [repeat constructor; simpl; intuition discriminate|].
  split; [intros u Hu; simpl in *; intuition|]. vm_compute. reflexivity.
Qed.
