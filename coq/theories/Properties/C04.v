(* C04 -- SDDs are vtree-normalised, compressed, trimmed and canonical.  Property theorems only.

   [wf_in t 0 p] = the builder invariant [under t 0 p] (at every reachable decision node the primes
   lie under the left child of the node's vtree position, the subs under the right child, and the
   primes are pairwise exclusive and jointly exhaustive) together with the hereditary local normal
   form [nf p] (SddWf.v): at every reachable general node at least two elements, no prime is the
   false pointer, subs pairwise distinct (compressed), not {(p,T),(q,F)} and not two literal primes
   (trimmed); at every binary node distinct children, regular high child, not a literal in
   disguise.  The order of elements inside a node and the complement convention of the first
   sub are not part of [nf]; the correspondence compares them structurally on every case. *)
From Coq Require Import Bool NArith List Lia Arith.
Import ListNotations.
From RsddV Require Import Base.Bdd Model.SddVtree Model.SddOps.
From RsddV Require Import Proofs.SddBase Proofs.SddVtree Proofs.SddInv Proofs.SddLoops Proofs.SddNode
  Proofs.SddAnd Proofs.SddCond Proofs.SddProg Proofs.SddWf Proofs.SddWfOps Proofs.SddWfAnd Proofs.SddWfProg Proofs.SddCanon.

(* the apply of the compressing builder maps well-formed operands to a well-formed result *)
Theorem C04_sdd_and_wf : forall t cache a b,
  NoDup (vleaves t) -> cache_sound t cache -> cache_nf cache -> wf_in t 0 a -> wf_in t 0 b ->
  exists r, and_m t true cache (S (vheight t)) a b = Ok r /\ wf_in t 0 r /\
            forall s, sden r s = sden a s && sden b s.
Proof.
  intros t cache a b ND CS CN Ha Hb.
  apply (and_m_good_nf t ND cache CS CN (S (vheight t)) t 0 (occurs_refl t 0) (Nat.lt_succ_diag_r _) a b Ha Hb).
Qed.
Print Assumptions C04_sdd_and_wf.

Theorem C04_sdd_condition_wf : forall t cache f v b,
  NoDup (vleaves t) -> cache_sound t cache -> cache_nf cache -> wf_in t 0 f ->
  exists r, condition_m t true cache (S (vheight t)) f v b = Ok r /\ wf_in t 0 r /\
            forall s, sden r s = sden f (upd s v b).
Proof.
  intros t cache f v b ND CS CN. apply (condition_ok_w t ND cache CS CN (S (vheight t)) (Nat.lt_succ_diag_r _)).
Qed.
Print Assumptions C04_sdd_condition_wf.

(* every result of every operation program of the compressing builder is well formed: primes
   non-false, pairwise exclusive, exhaustive, over the left sub-vtree; subs over the right
   sub-vtree and pairwise distinct; not trimmable -- at every reachable node of every pool entry,
   looked at after the last operation *)
Definition C04_sdd_results_wf_statement : Prop :=
  forall t cache ops, NoDup (vleaves t) -> cache_sound t cache -> cache_nf cache -> Forall (op_wf t) ops ->
  exists pool ic, run_m t true cache (S (vheight t)) ([], []) ops = Ok (pool, ic) /\
    Forall2 (denotes (wf_in t 0)) pool (spec_run [] ops).
Theorem C04_sdd_results_wf : C04_sdd_results_wf_statement.
Proof.
  intros t cache ops ND CS CN Hw.
  destruct (run_ok_w t ND cache CS CN (S (vheight t)) (Nat.lt_succ_diag_r _) ops [] [] [])
    as (pool & ic & E & Hp & _); try constructor; auto.
  exists pool, ic. split; auto.
Qed.
Check C04_sdd_results_wf : forall t cache ops,
  NoDup (vleaves t) -> cache_sound t cache -> cache_nf cache -> Forall (op_wf t) ops ->
  exists pool ic, run_m t true cache (S (vheight t)) ([], []) ops = Ok (pool, ic) /\
    Forall2 (denotes (wf_in t 0)) pool (spec_run [] ops).
Print Assumptions C04_sdd_results_wf.

(* what the driver runs *)
Theorem C04_run_prog_wf : forall t ops, NoDup (vleaves t) -> Forall (op_wf t) ops ->
  exists pool, run_prog t true ops = Ok pool /\ Forall2 (denotes (wf_in t 0)) pool (spec_run [] ops).
Proof.
  intros t ops ND Hw. unfold run_prog.
  destruct (C04_sdd_results_wf t no_cache ops ND) as (pool & ic & E & H); auto; try (intros a b x Hx; discriminate).
  exists pool. rewrite E. split; auto.
Qed.
Print Assumptions C04_run_prog_wf.

(* compress leaves pairwise distinct subs, whatever the recursive call does *)
Theorem C04_compress_distinct_subs : forall andf node v,
  compress andf node = Ok v -> NoDup (map snd v).
Proof.
  intros andf node v E. unfold compress in E.
  apply (compress_for_subs andf _ _ _ _ E); auto; try (simpl; constructor); try (intros d s []).
Qed.
Print Assumptions C04_compress_distinct_subs.

(* confinement as a semantic fact: a pointer below a sub-vtree only depends on its variables *)
Theorem C04_confined : forall p u off a a', under u off p ->
  (forall v, In v (vleaves u) -> a v = a' v) -> sden p a = sden p a'.
Proof. exact under_agree. Qed.
Print Assumptions C04_confined.

(* ---- canonicity ---- *)
(* full statement (Darwiche 2011, Thm. 3, with complement edges; for equality of unfoldings the
   element order and the complement convention of unique_or, which [nf] leaves open, have to be
   added to [wf_in]): kept visible; proved here only in part *)
Definition C04_sdd_canonical_full_statement : Prop :=
  forall t p q, NoDup (vleaves t) -> wf_in t 0 p -> wf_in t 0 q ->
  (forall a, sden p a = sden q a) -> p = q.

(* part 1 (proved): the constant fragment.  A well-formed pointer that is not the constant pointer
   denotes a non-constant function; so a well-formed SDD equivalent to true/false IS the constant
   pointer (this is what makes the syntactic is_false / is_true tests of the apply complete). *)
Theorem C04_sdd_canonical_partial_const : forall t p, NoDup (vleaves t) -> wf_in t 0 p ->
  ((forall a, sden p a = true) -> p = ST) /\ ((forall a, sden p a = false) -> p = SF).
Proof.
  intros t p ND [Hu Hn].
  destruct (nf_sat t ND p t 0 (occurs_refl t 0) Hu Hn) as [S F]. split; intros H.
  - destruct (sdd_eqb p ST) eqn:E; [apply sdd_eqb_eq; exact E|]. apply sdd_eqb_neq in E.
    destruct (F E) as [a Ha]. rewrite H in Ha. discriminate.
  - destruct (sdd_eqb p SF) eqn:E; [apply sdd_eqb_eq; exact E|]. apply sdd_eqb_neq in E.
    destruct (S E) as [a Ha]. rewrite H in Ha. discriminate.
Qed.
Print Assumptions C04_sdd_canonical_partial_const.

(* part 2 (proved): the inductive step of the canonicity theorem -- uniqueness of compressed
   partitions.  At one vtree node (VNode l r), two element lists with partitioned satisfiable
   primes below l, pairwise distinct subs below r and the same denotation have the same elements,
   GIVEN canonicity of the children (semantic equality implies pointer equality below l and
   below r).  What is missing for the full statement: the induction over the vtree that discharges
   the two hypotheses, the case of operands normalised for different vtree nodes, and the element
   order / complement convention. *)
Theorem C04_sdd_canonical_partial_partition : forall t l r off X Y,
  NoDup (vleaves t) -> occurs t 0 (VNode l r) off ->
  (forall p q, under l off p -> under l off q -> (forall a, sden p a = sden q a) -> p = q) ->
  (forall p q, under r (S (off + vsize l)) p -> under r (S (off + vsize l)) q -> (forall a, sden p a = sden q a) -> p = q) ->
  okl (under l off) (under r (S (off + vsize l))) X -> okl (under l off) (under r (S (off + vsize l))) Y ->
  part X -> part Y -> NoDup (map snd X) -> NoDup (map snd Y) -> satl X -> satl Y ->
  (forall a, den_els X a = den_els Y a) ->
  forall e, In e X <-> In e Y.
Proof. intros t l r off X Y ND Ho CP CS. apply (partition_unique t ND l r off Ho CP CS). Qed.
Print Assumptions C04_sdd_canonical_partial_partition.

(* non-vacuity: the model run of a program on a balanced vtree is well formed, and a hand-made
   uncompressed node is not *)
Example C04_nonvacuous :
  let t := VNode (VNode (VLeaf 2%N) (VLeaf 0%N)) (VNode (VLeaf 3%N) (VLeaf 1%N)) in
  let ops := [OVar 0%N true; OVar 3%N false; OVar 2%N true; OVar 1%N true; OOr 0 1; OAnd 4 2; OXor 5 3;
              OIte 4 5 6; OCond 7 3%N true; OCompose 6 1%N 4] in
  NoDup (vleaves t) /\ Forall (op_wf t) ops /\
  (exists pool, run_prog t true ops = Ok pool /\ length pool = 10 /\
     exists els, nth 7 pool SF = SOr false 3 els /\ length els = 4) /\
  ~ nf (SOr false 3 [(SVar 2%N true, SVar 3%N true); (SVar 2%N false, SVar 3%N true)]).
Proof.
  cbv zeta. split; [simpl; repeat (apply NoDup_cons; [simpl; intuition discriminate|]); apply NoDup_nil|].
  split; [repeat (apply Forall_cons; [simpl; auto 10|]); apply Forall_nil|].
  split.
  - eexists. split; [vm_compute; reflexivity|]. split; [reflexivity|]. eexists. split; reflexivity.
  - intros H. apply nf_or in H. destruct H as (_ & _ & Hnd & _). simpl in Hnd.
    inversion Hnd as [|? ? Hn _]; subst. apply Hn. simpl. auto.
Qed.
