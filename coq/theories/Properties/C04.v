(* C04 -- SDDs are vtree-normalised, compressed, trimmed and canonical.  Property theorems only.

   [wf_in t 0 p] = the builder invariant [under t 0 p] (at every reachable decision node the primes
   lie under the left child of the node's vtree position, the subs under the right child, and the
   primes are pairwise exclusive and jointly exhaustive) together with the hereditary local normal
   form [nf p] (SddWf.v): at every reachable general node at least two elements, no prime is the
   false pointer, subs pairwise distinct (compressed), not {(p,T),(q,F)} and not two literal primes
   (trimmed); at every binary node distinct children, regular high child, not a literal in
   disguise; the elements are in the order of sort_by_key(prime) under the derived Ord of SddPtr
   (sdd_cmp, proved to be a total order in SddCmp.v) and the sub of the first element is regular
   (the complement convention of unique_or).  So [wf_in] pins the unfolding completely, and
   canonicity is Leibniz equality of unfoldings = pointer equality. *)
From Coq Require Import Bool NArith List Lia Arith Permutation.
Import ListNotations.
From RsddV Require Import Base.Bdd Model.SddVtree Model.SddOps.
From RsddV Require Import Proofs.SddBase Proofs.SddVtree Proofs.SddInv Proofs.SddLoops Proofs.SddNode
  Proofs.SddAnd Proofs.SddCond Proofs.SddProg Proofs.SddWf Proofs.SddWfOps Proofs.SddWfAnd Proofs.SddWfProg Proofs.SddCmp Proofs.SddCanon Proofs.SddCanon2.

(* the apply of the compressing builder maps well-formed operands to a well-formed result *)
Theorem C04_sdd_and_wf : forall t cache a b,
  NoDup (vleaves t) -> cache_sound t cache -> cache_nf cache -> wf_in t 0 a -> wf_in t 0 b ->
  exists r, and_m t true cache (S (vheight t)) a b = Ok r /\ wf_in t 0 r /\
            forall s, sden r s = sden a s && sden b s.
Proof.
  intros t cache a b ND CS CN Ha Hb.
  apply (and_m_good_nf t ND cache CS CN (S (vheight t)) t 0 (occurs_refl t 0) (Nat.lt_succ_diag_r _) a b Ha Hb).
Qed.
Print Assumptions C04_sdd_and_wf.

Theorem C04_sdd_condition_wf : forall t cache f v b,
  NoDup (vleaves t) -> cache_sound t cache -> cache_nf cache -> wf_in t 0 f ->
  exists r, condition_m t true cache (S (vheight t)) f v b = Ok r /\ wf_in t 0 r /\
            forall s, sden r s = sden f (upd s v b).
Proof.
  intros t cache f v b ND CS CN. apply (condition_ok_w t ND cache CS CN (S (vheight t)) (Nat.lt_succ_diag_r _)).
Qed.
Print Assumptions C04_sdd_condition_wf.

(* every result of every operation program of the compressing builder is well formed: primes
   non-false, pairwise exclusive, exhaustive, over the left sub-vtree; subs over the right
   sub-vtree and pairwise distinct; not trimmable -- at every reachable node of every pool entry,
   looked at after the last operation *)
Definition C04_sdd_results_wf_statement : Prop :=
  forall t cache ops, NoDup (vleaves t) -> cache_sound t cache -> cache_nf cache -> Forall (op_wf t) ops ->
  exists pool ic, run_m t true cache (S (vheight t)) ([], []) ops = Ok (pool, ic) /\
    Forall2 (denotes (wf_in t 0)) pool (spec_run [] ops).
Theorem C04_sdd_results_wf : C04_sdd_results_wf_statement.
Proof.
  intros t cache ops ND CS CN Hw.
  destruct (run_ok_w t ND cache CS CN (S (vheight t)) (Nat.lt_succ_diag_r _) ops [] [] [])
    as (pool & ic & E & Hp & _); try constructor; auto.
  exists pool, ic. split; auto.
Qed.
Check C04_sdd_results_wf : forall t cache ops,
  NoDup (vleaves t) -> cache_sound t cache -> cache_nf cache -> Forall (op_wf t) ops ->
  exists pool ic, run_m t true cache (S (vheight t)) ([], []) ops = Ok (pool, ic) /\
    Forall2 (denotes (wf_in t 0)) pool (spec_run [] ops).
Print Assumptions C04_sdd_results_wf.

(* what the driver runs *)
Theorem C04_run_prog_wf : forall t ops, NoDup (vleaves t) -> Forall (op_wf t) ops ->
  exists pool, run_prog t true ops = Ok pool /\ Forall2 (denotes (wf_in t 0)) pool (spec_run [] ops).
Proof.
  intros t ops ND Hw. unfold run_prog.
  destruct (C04_sdd_results_wf t no_cache ops ND) as (pool & ic & E & H); auto; try (intros a b x Hx; discriminate).
  exists pool. rewrite E. split; auto.
Qed.
Print Assumptions C04_run_prog_wf.

(* compress leaves pairwise distinct subs, whatever the recursive call does *)
Theorem C04_compress_distinct_subs : forall andf node v,
  compress andf node = Ok v -> NoDup (map snd v).
Proof.
  intros andf node v E. unfold compress in E.
  apply (compress_for_subs andf _ _ _ _ E); auto; try (simpl; constructor); try (intros d s []).
Qed.
Print Assumptions C04_compress_distinct_subs.

(* confinement as a semantic fact: a pointer below a sub-vtree only depends on its variables *)
Theorem C04_confined : forall p u off a a', under u off p ->
  (forall v, In v (vleaves u) -> a v = a' v) -> sden p a = sden p a'.
Proof. exact under_agree. Qed.
Print Assumptions C04_confined.

(* ---- canonicity ---- *)
(* Darwiche 2011, Thm. 3, with complement edges, for the normal form the code produces: two
   well-formed SDDs of one vtree with the same denotation are the same unfolding, i.e. (unique
   tables, C02) the same pointer *)
Definition C04_sdd_canonical_full_statement : Prop :=
  forall t p q, NoDup (vleaves t) -> wf_in t 0 p -> wf_in t 0 q ->
  (forall a, sden p a = sden q a) -> p = q.
Theorem C04_sdd_canonical : C04_sdd_canonical_full_statement.
Proof.
  intros t p q ND [Up Np] [Uq Nq] H. apply (canon_all t ND t 0 (occurs_refl t 0) p q Up Uq Np Nq H).
Qed.
Print Assumptions C04_sdd_canonical.

(* the same inside any sub-vtree (this is the induction that was proved) *)
Theorem C04_sdd_canonical_local : forall t u off p q, NoDup (vleaves t) -> occurs t 0 u off ->
  under u off p -> under u off q -> nf p -> nf q -> (forall a, sden p a = sden q a) -> p = q.
Proof. intros t u off p q ND Ho. apply (canon_all t ND u off Ho). Qed.
Print Assumptions C04_sdd_canonical_local.

(* the derived Ord of SddPtr, which decides the element order inside a node, is a total order *)
Theorem C04_sdd_cmp_total_order :
  (forall p q, sdd_cmp p q = Eq <-> p = q) /\
  (forall p q, sdd_cmp q p = CompOpp (sdd_cmp p q)) /\
  (forall p q r, sdd_cmp p q = Lt -> sdd_cmp q r = Lt -> sdd_cmp p r = Lt).
Proof.
  split; [|split].
  - intros p q. split; [apply sdd_cmp_eq | intros ->; apply sdd_cmp_refl].
  - exact sdd_cmp_opp.
  - exact sdd_cmp_trans.
Qed.
Print Assumptions C04_sdd_cmp_total_order.

(* a well-formed SDD equivalent to true/false is the constant pointer: what makes the syntactic
   is_false / is_true tests of the apply complete *)
Theorem C04_sdd_canonical_const : forall t p, NoDup (vleaves t) -> wf_in t 0 p ->
  ((forall a, sden p a = true) -> p = ST) /\ ((forall a, sden p a = false) -> p = SF).
Proof.
  intros t p ND Hp. split; intros H.
  - apply (C04_sdd_canonical t p ST ND Hp); [split; [constructor | exact I] | exact H].
  - apply (C04_sdd_canonical t p SF ND Hp); [split; [constructor | exact I] | exact H].
Qed.
Print Assumptions C04_sdd_canonical_const.

(* consequently, for ALL results of ALL programs of the compressing builder: pointer-equal iff the
   same function (of the specification program) *)
Theorem C04_eq_iff_equiv : forall t cache ops pool ic,
  NoDup (vleaves t) -> cache_sound t cache -> cache_nf cache -> Forall (op_wf t) ops ->
  run_m t true cache (S (vheight t)) ([], []) ops = Ok (pool, ic) ->
  forall i j, i < length pool -> j < length pool ->
  (nth i pool SF = nth j pool SF <->
   forall a, nth i (spec_run [] ops) (fun _ => false) a = nth j (spec_run [] ops) (fun _ => false) a).
Proof.
  intros t cache ops pool ic ND CS CN Hw E i j Hi Hj.
  destruct (C04_sdd_results_wf t cache ops ND CS CN Hw) as (pool' & ic' & E' & Hp).
  rewrite E in E'. injection E' as <- <-.
  destruct (Forall2_nth _ _ _ SF (fun _ => false) i Hp Hi) as [Wi Di].
  destruct (Forall2_nth _ _ _ SF (fun _ => false) j Hp Hj) as [Wj Dj].
  split.
  - intros Eq a. rewrite <- Di, <- Dj, Eq. reflexivity.
  - intros Eq. apply (C04_sdd_canonical t _ _ ND Wi Wj). intros a. rewrite Di, Dj. apply Eq.
Qed.
Print Assumptions C04_eq_iff_equiv.

(* and the results do not depend on what the apply cache remembered: any two sound caches (the
   empty one, the shipped one, a lossy one) lead to the same pool of pointers *)
Theorem C04_cache_independent : forall t cache1 cache2 ops,
  NoDup (vleaves t) -> cache_sound t cache1 -> cache_nf cache1 -> cache_sound t cache2 -> cache_nf cache2 ->
  Forall (op_wf t) ops ->
  exists pool ic1 ic2,
    run_m t true cache1 (S (vheight t)) ([], []) ops = Ok (pool, ic1) /\
    run_m t true cache2 (S (vheight t)) ([], []) ops = Ok (pool, ic2).
Proof.
  intros t cache1 cache2 ops ND CS1 CN1 CS2 CN2 Hw.
  destruct (C04_sdd_results_wf t cache1 ops ND CS1 CN1 Hw) as (pool1 & ic1 & E1 & H1).
  destruct (C04_sdd_results_wf t cache2 ops ND CS2 CN2 Hw) as (pool2 & ic2 & E2 & H2).
  assert (pool1 = pool2).
  { clear E1 E2. revert pool2 H2. induction H1 as [|p f pool1 fs [Wp Dp] _ IH]; intros pool2 H2; inversion H2 as [|q ? pool2' ? [Wq Dq] H2']; subst; auto.
    f_equal; [|apply IH; exact H2'].
    apply (C04_sdd_canonical t p q ND Wp Wq). intros a. rewrite Dp, Dq. reflexivity. }
  subst pool2. exists pool1, ic1, ic2. auto.
Qed.
Print Assumptions C04_cache_independent.

(* the clause order that compile_cnf's sort happens to produce does not matter with compression
   on: every permutation gives the same pointer *)
Theorem C04_compile_cnf_order_independent : forall t cache (f s1 s2 : list (list (var * bool))),
  NoDup (vleaves t) -> cache_sound t cache -> cache_nf cache ->
  Permutation s1 f -> Permutation s2 f -> Forall (Forall (fun l : var * bool => In (fst l) (vleaves t))) f ->
  exists r, compile_cnf_m t true cache (S (vheight t)) f s1 = Ok r /\
            compile_cnf_m t true cache (S (vheight t)) f s2 = Ok r.
Proof.
  intros t cache f s1 s2 ND CS CN P1 P2 Hv.
  destruct (compile_cnf_ok_w t ND cache CS CN (S (vheight t)) (Nat.lt_succ_diag_r _) f s1 P1 Hv) as (r1 & E1 & W1 & D1).
  destruct (compile_cnf_ok_w t ND cache CS CN (S (vheight t)) (Nat.lt_succ_diag_r _) f s2 P2 Hv) as (r2 & E2 & W2 & D2).
  assert (r1 = r2) by (apply (C04_sdd_canonical t r1 r2 ND W1 W2); intros a; rewrite D1, D2; reflexivity).
  subst r2. exists r1. auto.
Qed.
Print Assumptions C04_compile_cnf_order_independent.

(* non-vacuity: the model run of a program on a balanced vtree is well formed, and a hand-made
   uncompressed node is not *)
Example C04_nonvacuous :
  let t := VNode (VNode (VLeaf 2%N) (VLeaf 0%N)) (VNode (VLeaf 3%N) (VLeaf 1%N)) in
  let ops := [OVar 0%N true; OVar 3%N false; OVar 2%N true; OVar 1%N true; OOr 0 1; OAnd 4 2; OXor 5 3;
              OIte 4 5 6; OCond 7 3%N true; OCompose 6 1%N 4] in
  NoDup (vleaves t) /\ Forall (op_wf t) ops /\
  (exists pool, run_prog t true ops = Ok pool /\ length pool = 10 /\
     exists els, nth 7 pool SF = SOr false 3 els /\ length els = 4) /\
  ~ nf (SOr false 3 [(SVar 2%N true, SVar 3%N true); (SVar 2%N false, SVar 3%N true)]).
Proof.
  cbv zeta. split; [simpl; repeat (apply NoDup_cons; [simpl; intuition discriminate|]); apply NoDup_nil|].
  split; [repeat (apply Forall_cons; [simpl; auto 10|]); apply Forall_nil|].
  split.
  - eexists. split; [vm_compute; reflexivity|]. split; [reflexivity|]. eexists. split; reflexivity.
  - intros H. apply nf_or in H. destruct H as (_ & _ & Hnd & _). simpl in Hnd.
    inversion Hnd as [|? ? Hn _]; subst. apply Hn. simpl. auto.
Qed.
