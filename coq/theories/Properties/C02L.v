(* C02L -- the link between the two model layers of C02 ("equal functions are the same BDD
   node").  Every tree-layer theorem of this development reads "pointer-equal" as "equal
   unfoldings" (DESIGN 1.2).  This file justifies that reading: on the store-level model of
   RobddBuilder::get_or_insert (Model/Store.v: the complement normalisation of
   src/builder/bdd/robdd.rs on top of the unique table of Model/RobinHood.v, nodes stored through
   an injective encoding, the hash an ARBITRARY function of the element), for every hash function,
   every initial capacity >= 1 and every sequence of requests whose arguments are valid pointers
   (constants, pointers returned earlier, their negations) in which no request reaches the u8 probe
   distance overflow:
     - the arena is well-formed and every valid pointer has an unfolding       (C02L_store_wf)
     - get_or_insert is the tree layer's mk_node on unfoldings                 (C02L_store_mk_node)
     - p = q  <->  unfold p = unfold q                        (MAIN: C02L_store_ptr_eq_iff_tree_eq)
     - later requests never change the unfolding of an earlier pointer         (C02L_store_stable)
   Property theorems only: each is closed by [exact], the main theorem is pinned by [Check], each
   is followed by [Print Assumptions]. *)
From Coq Require Import Bool NArith List Lia Arith.
Import ListNotations.
From RsddV Require Import Base.Bdd Model.BddOps Model.RobinHood Model.Store Proofs.Store.

(* Vocabulary (Model/Store.v):
   ptr_valid a p   : p is a constant or SReg/SCompl id with id < length a;
   wf_arena a      : every arena element at index i is [enc (v, lo, hi)] with lo, hi constants or
                     ids < i, and hi regular and not false;
   step H t t'     : one get_or_insert_s H t v lo hi = Ok (_, t') with lo, hi valid in t;
   steps H t t'    : any number of steps;   reachable H c t := steps H (new_table c) t;
   unfold a p      : option bdd, the tree the pointer stands for (None: dangling / out of fuel). *)

(* the encoding of nodes as table elements is injective, so the table's element equality is the
   derived equality of BddNode (var, low pointer, high pointer) *)
Theorem C02L_enc_injective : forall n m : snode, enc n = enc m -> n = m.
Proof. exact enc_inj. Qed.
Print Assumptions C02L_enc_injective.

Theorem C02L_sptr_eqb_eq : forall p q : sptr, sptr_eqb p q = true <-> p = q.
Proof. exact sptr_eqb_eq. Qed.
Print Assumptions C02L_sptr_eqb_eq.

(* store_wf: in every reachable store the arena is well-formed (children are constants or smaller
   ids; the high child is regular and not false), no two arena slots hold the same node, and
   [unfold] is total on valid pointers *)
Theorem C02L_store_wf : forall (H : N -> N) (c : nat) (t : table),
  1 <= c -> reachable H c t ->
  wf_arena (arena t) /\ NoDup (arena t) /\
  forall p, ptr_valid (arena t) p -> exists tr, unfold (arena t) p = Some tr.
Proof. exact store_wf. Qed.
Print Assumptions C02L_store_wf.

(* store_mk_node: one request on a reachable store never runs out of fuel (so the only excluded
   outcome is PslOverflow); if it returns, the new store is reachable, the result is valid in it,
   and it unfolds to the tree layer's mk_node (Model/BddOps.v) of the children's unfoldings *)
Theorem C02L_store_mk_node : forall (H : N -> N) (c : nat) (t : table) (v : var) (lo hi : sptr),
  1 <= c -> reachable H c t -> ptr_valid (arena t) lo -> ptr_valid (arena t) hi ->
  get_or_insert_s H t v lo hi <> OutOfFuel /\
  forall p t', get_or_insert_s H t v lo hi = Ok (p, t') ->
    reachable H c t' /\ ptr_valid (arena t') p /\
    exists l h, unfold (arena t) lo = Some l /\ unfold (arena t) hi = Some h /\
                unfold (arena t') p = Some (mk_node v l h).
Proof. exact store_mk_node. Qed.
Print Assumptions C02L_store_mk_node.

(* MAIN: pointer identity IS structural identity of unfoldings *)
Definition C02L_store_ptr_eq_iff_tree_eq_statement : Prop :=
  forall (H : N -> N) (c : nat) (t : table) (p q : sptr),
  1 <= c -> reachable H c t -> ptr_valid (arena t) p -> ptr_valid (arena t) q ->
  (p = q <-> unfold (arena t) p = unfold (arena t) q).

Theorem C02L_store_ptr_eq_iff_tree_eq : C02L_store_ptr_eq_iff_tree_eq_statement.
Proof. exact store_ptr_eq_iff_tree_eq. Qed.
Check C02L_store_ptr_eq_iff_tree_eq : forall (H : N -> N) (c : nat) (t : table) (p q : sptr),
  1 <= c -> reachable H c t -> ptr_valid (arena t) p -> ptr_valid (arena t) q ->
  (p = q <-> unfold (arena t) p = unfold (arena t) q).
Print Assumptions C02L_store_ptr_eq_iff_tree_eq.

(* store_stable: a pointer valid in a reachable store stays valid and keeps its unfolding through
   any number of later requests *)
Theorem C02L_store_stable : forall (H : N -> N) (c : nat) (t t' : table) (p : sptr),
  1 <= c -> reachable H c t -> steps H t t' -> ptr_valid (arena t) p ->
  ptr_valid (arena t') p /\ unfold (arena t') p = unfold (arena t) p.
Proof. exact store_stable. Qed.
Print Assumptions C02L_store_stable.

(* main + stable: a pointer obtained at one time and a pointer obtained at a later time *)
Theorem C02L_store_ptr_eq_iff_tree_eq_later : forall (H : N -> N) (c : nat) (t t' : table) (p q : sptr),
  1 <= c -> reachable H c t -> steps H t t' -> ptr_valid (arena t) p -> ptr_valid (arena t') q ->
  (p = q <-> unfold (arena t) p = unfold (arena t') q).
Proof. exact store_ptr_eq_iff_tree_eq_later. Qed.
Print Assumptions C02L_store_ptr_eq_iff_tree_eq_later.

(* the same for request lists (what the correspondence driver runs): the store-level run simulates
   the tree-level run [run_tree] (mk_node on trees), result by result *)
Theorem C02L_run_refines_tree : forall (H : N -> N) (c : nat) (rs : list request) (pool : list sptr) (t : table),
  1 <= c -> run_s H (new_table c) [] rs = Ok (pool, t) ->
  reachable H c t /\ length pool = length rs /\ Forall (ptr_valid (arena t)) pool /\
  map (unfold (arena t)) pool = map Some (run_tree [] rs).
Proof. exact run_s_refines_tree. Qed.
Print Assumptions C02L_run_refines_tree.

Theorem C02L_run_never_out_of_fuel : forall (H : N -> N) (c : nat) (rs : list request),
  1 <= c -> run_s H (new_table c) [] rs <> OutOfFuel.
Proof. exact run_s_never_out_of_fuel. Qed.
Print Assumptions C02L_run_never_out_of_fuel.

Theorem C02L_run_ptr_eq_iff : forall (H : N -> N) (c : nat) (rs : list request) (pool : list sptr) (t : table),
  1 <= c -> run_s H (new_table c) [] rs = Ok (pool, t) ->
  forall i j, i < length rs -> j < length rs ->
    (nth i pool STrue = nth j pool STrue <-> nth i (run_tree [] rs) BT = nth j (run_tree [] rs) BT).
Proof. exact run_s_ptr_eq_iff. Qed.
Print Assumptions C02L_run_ptr_eq_iff.

(* the identity classes of the results depend neither on the hash function nor on the capacity
   (the correspondence runs the model with two hash functions and checks exactly this) *)
Theorem C02L_run_classes_hash_independent :
  forall (H1 H2 : N -> N) (c1 c2 : nat) (rs : list request) (pool1 pool2 : list sptr) (t1 t2 : table),
  1 <= c1 -> 1 <= c2 ->
  run_s H1 (new_table c1) [] rs = Ok (pool1, t1) -> run_s H2 (new_table c2) [] rs = Ok (pool2, t2) ->
  forall i j, i < length rs -> j < length rs ->
    (nth i pool1 STrue = nth j pool1 STrue <-> nth i pool2 STrue = nth j pool2 STrue).
Proof. exact run_s_classes_hash_independent. Qed.
Print Assumptions C02L_run_classes_hash_independent.

(* non-vacuity: ten requests from a table of 2 slots under a colliding hash function: two growths
   (2 -> 4 -> 8 slots), six requests answered by an existing node, requests with false /
   complemented high children (results 1, 3, 6, 9 come back complemented), an unreduced request
   (4: low = high), a request and its child-negated twin sharing one node (2 / 3 and 5 / 9).
   The hypotheses of the theorems above hold for it and the conclusions are visible. *)
Definition C02L_example : list request :=
  [ (2, AF, AT); (2, AT, AF); (1, AR 0, AN 1); (1, AN 0, AR 1); (0, AR 2, AR 2);
    (0, AR 2, AN 3); (3, AR 5, AF); (2, AF, AT); (1, AR 7, AR 0); (0, AN 2, AR 3) ]%N.

Example C02L_nonvacuous :
  exists t, run_s hash_mod7 (new_table 2) [] C02L_example
            = Ok ([SReg 0; SCompl 0; SReg 1; SCompl 1; SReg 2; SReg 2; SCompl 3; SReg 0; SReg 1; SCompl 2], t) /\
            cap t = 8 /\ length (arena t) = 4 /\ hits t = 6 /\
            reachable hash_mod7 2 t /\
            unfold (arena t) (SCompl 3)
            = Some (BN true 3 (BN true 0 (BN false 1 (BN false 2 BF BT) (BN false 2 BF BT))
                                         (BN false 1 (BN false 2 BF BT) (BN false 2 BF BT))) BT)%N.
Proof.
  eexists. split; [vm_compute; reflexivity|]. split; [reflexivity|]. split; [reflexivity|].
  split; [reflexivity|]. split; [|vm_compute; reflexivity].
  eapply (C02L_run_refines_tree hash_mod7 2 C02L_example); [lia|vm_compute; reflexivity].
Qed.

Example C02L_nonvacuous_other_hash :
  exists t, run_s hash_id (new_table 1) [] C02L_example
            = Ok ([SReg 0; SCompl 0; SReg 1; SCompl 1; SReg 2; SReg 2; SCompl 3; SReg 0; SReg 1; SCompl 2], t).
Proof. eexists. vm_compute. reflexivity. Qed.
