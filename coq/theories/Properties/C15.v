(* C15 -- CNF-side utilities agree with propositional semantics; the residual hasher.
   Property theorems only: each is closed by [exact]/[apply] of a lemma of Proofs/CnfUtil.v,
   and followed by [Print Assumptions].  Models: Model/CnfUtil.v (src/repr/cnf.rs, model.rs,
   var_label.rs).  Spec vocabulary (Proofs/CnfUtil.v): [cnf_sem a cs] = every clause of [cs]
   has a literal true under the assignment [a : N -> bool]; [nv_spec cs n] = "n is 1 + the
   largest label of cs, or 0"; [all_asg n] = the 2^n bit vectors of length n;
   [residual h m] = the clauses of the hasher's top frame not satisfied by m, each tagged
   with its clause index and restricted to the literals m does not assign. *)
From Coq Require Import Bool NArith List Lia Arith Sorted ZArith.
Import ListNotations.
From RsddV Require Import Base.Bdd Generated.Constants Model.CnfUtil Proofs.CnfUtil.
Local Open Scope N_scope.

(* ---- Cnf::new ---- *)
(* every clause keeps its literal set (and is sorted by label without adjacent repeats), the
   clause count and the denotation are unchanged, num_vars = 1 + largest label or 0 *)
Theorem C15_cnf_new_sem : forall cs,
  Forall2 (fun c c' => (forall l, In l c' <-> In l c) /\ Sorted lbl_le c' /\ no_adj c')
          cs (clauses (cnf_new cs)) /\
  nv_spec cs (num_vars (cnf_new cs)) /\
  (forall a, cnf_sem a (clauses (cnf_new cs)) = cnf_sem a cs).
Proof. exact cnf_new_sem. Qed.
Print Assumptions C15_cnf_new_sem.

(* the sort is the stable one and normalising twice changes nothing *)
Theorem C15_cnf_new_stable_idempotent : forall cs,
  (forall c k, filter (fun y => fst y =? k) (sort_clause c) = filter (fun y => fst y =? k) c) /\
  cnf_new (clauses (cnf_new cs)) = cnf_new cs.
Proof. intros cs. split; [intros c k; apply sort_is_stable|apply cnf_new_idempotent]. Qed.
Print Assumptions C15_cnf_new_stable_idempotent.

(* ---- eval ---- *)
Theorem C15_eval_spec : forall cs a,
  (num_vars (cnf_new cs) <= N.of_nat (length a) ->
     cnf_eval_impl (cnf_new cs) a = Some (cnf_sem (asg_of_list a) cs)) /\
  (N.of_nat (length a) < num_vars (cnf_new cs) -> cnf_eval_impl (cnf_new cs) a = None).
Proof. exact eval_spec. Qed.
Print Assumptions C15_eval_spec.

(* ---- is_sat_partial ---- *)
Theorem C15_is_sat_partial_spec : forall cs m,
  is_sat_partial (cnf_new cs) m = true <->
  forall c, In c cs -> exists l, In l c /\ pm_get m (fst l) = Some (snd l).
Proof. exact is_sat_partial_spec. Qed.
Print Assumptions C15_is_sat_partial_spec.

Theorem C15_is_sat_partial_sound : forall cs m (a : asg),
  is_sat_partial (cnf_new cs) m = true ->
  (forall v b, pm_get m v = Some b -> a v = b) -> cnf_sem a cs = true.
Proof. exact is_sat_partial_sound. Qed.
Print Assumptions C15_is_sat_partial_sound.

(* ---- condition ---- *)
Theorem C15_condition_spec : forall c x,
  (forall a, cnf_sem a (clauses (condition c x)) = cnf_sem (upd a x) (clauses c)) /\
  clauses (condition c x) =
    map norm_clause (map (filter (fun l => negb (lit_eqb l (lit_neg x))))
                         (filter (fun cl => negb (clause_contains cl x)) (clauses c))) /\
  nv_spec (clauses (condition c x)) (num_vars (condition c x)).
Proof. exact condition_spec. Qed.
Print Assumptions C15_condition_spec.

(* ---- AssignmentIter ---- *)
Theorem C15_assignment_iter_complete : forall n fuel,
  (2 ^ n < fuel)%nat ->
  ai_collect fuel (ai_new n) = Some (all_asg n) /\
  NoDup (all_asg n) /\ length (all_asg n) = (2 ^ n)%nat /\
  (forall a, In a (all_asg n) <-> length a = n).
Proof. exact assignment_iter_complete. Qed.
Print Assumptions C15_assignment_iter_complete.

(* ---- wmc: for every carrier whose + is associative with unit 0 and whose * is associative
   with unit 1 (every semiring; commutativity is not even needed because the code and the
   spec enumerate in the same order) ---- *)
Theorem C15_wmc_bruteforce_spec :
  forall (R : Type) (radd rmul : R -> R -> R) (rzero rone : R),
  (forall a b c, radd a (radd b c) = radd (radd a b) c) ->
  (forall a, radd rzero a = a) -> (forall a, radd a rzero = a) ->
  (forall a b c, rmul a (rmul b c) = rmul (rmul a b) c) ->
  (forall a, rmul rone a = a) -> (forall a, rmul a rone = a) ->
  forall cs w,
    let c := cnf_new cs in
    let n := N.to_nat (num_vars c) in
    (forall wv, weight_vec R w 0 n = Some wv ->
       wmc R radd rmul rzero rone c w =
       Some (wmc_spec R radd rmul rzero rone n wv (fun a => cnf_sem (asg_of_list a) cs))) /\
    (weight_vec R w 0 n = None -> wmc R radd rmul rzero rone c w = None).
Proof. intros R radd rmul rzero rone A1 A2 A3 M1 M2 M3. apply wmc_bruteforce_spec; assumption. Qed.
Print Assumptions C15_wmc_bruteforce_spec.

(* the weight vector exists exactly when every variable below num_vars has a weight *)
Theorem C15_wmc_weights : forall (R : Type) (w : list (option (R * R))) n,
  ((forall j, (j < n)%nat -> exists x, nth_error w j = Some (Some x)) ->
     exists wv, weight_vec R w 0 n = Some wv) /\
  (forall j, (j < n)%nat -> (nth_error w j = None \/ nth_error w j = Some None) ->
     weight_vec R w 0 n = None).
Proof.
  intros R w n. split.
  - intros H. apply weight_vec_total. exact H.
  - intros j Hj Hm. apply (weight_vec_missing R w 0 n j Hj). exact Hm.
Qed.
Print Assumptions C15_wmc_weights.

(* empty formula = one (the defect D6 repaired in 55fddd1); a formula with an empty clause = zero *)
Theorem C15_wmc_empty_formula :
  forall (R : Type) (radd rmul : R -> R -> R) (rzero rone : R),
  (forall a b c, radd a (radd b c) = radd (radd a b) c) ->
  (forall a, radd rzero a = a) -> (forall a, radd a rzero = a) ->
  (forall a b c, rmul a (rmul b c) = rmul (rmul a b) c) ->
  (forall a, rmul rone a = a) -> (forall a, rmul a rone = a) ->
  forall w, wmc R radd rmul rzero rone (cnf_new []) w = Some rone.
Proof. intros R radd rmul rzero rone A1 A2 A3 M1 M2 M3. apply wmc_empty_formula; assumption. Qed.
Print Assumptions C15_wmc_empty_formula.

Theorem C15_wmc_empty_clause :
  forall (R : Type) (radd rmul : R -> R -> R) (rzero rone : R),
  (forall a b c, radd a (radd b c) = radd (radd a b) c) ->
  (forall a, radd rzero a = a) -> (forall a, radd a rzero = a) ->
  (forall a b c, rmul a (rmul b c) = rmul (rmul a b) c) ->
  (forall a, rmul rone a = a) -> (forall a, rmul a rone = a) ->
  forall cs w wv, In [] cs -> weight_vec R w 0 (N.to_nat (num_vars (cnf_new cs))) = Some wv ->
    wmc R radd rmul rzero rone (cnf_new cs) w = Some rzero.
Proof. intros R radd rmul rzero rone A1 A2 A3 M1 M2 M3. apply wmc_empty_clause; assumption. Qed.
Print Assumptions C15_wmc_empty_clause.

(* ---- PartialModel / VarSet ---- *)
(* VarSet (BitSet) as a finite set that is iterated in increasing order *)
Theorem C15_varset_laws : forall s o v w,
  vs_contains (vs_insert v s) w = ((w =? v) || vs_contains s w)%bool /\
  vs_contains (vs_remove v s) w = (negb (w =? v) && vs_contains s w)%bool /\
  vs_contains (vs_difference s o) w = (vs_contains s w && negb (vs_contains o w))%bool /\
  vs_contains (vs_union s o) w = (vs_contains s w || vs_contains o w)%bool /\
  (vs_wf s -> vs_wf (vs_insert v s) /\ vs_wf (vs_remove v s) /\ vs_wf (vs_difference s o) /\
              vs_wf (vs_union s o)).
Proof.
  intros s o v w. split; [apply vs_contains_insert|]. split; [apply vs_contains_remove|].
  split; [apply vs_contains_difference|]. split; [apply vs_contains_union|].
  intros H. split; [apply vs_insert_wf, H|]. split; [apply vs_remove_wf, H|].
  split; [apply vs_difference_wf, H|apply vs_union_wf, H].
Qed.
Print Assumptions C15_varset_laws.

Theorem C15_partial_model_laws : forall m v b w n,
  pm_get (pm_new n) w = None /\
  pm_get (pm_set m v b) w = (if w =? v then Some b else pm_get m w) /\
  pm_get (pm_unset m v) w = (if w =? v then None else pm_get m w) /\
  pm_is_set m w = (match pm_get m w with Some _ => true | None => false end) /\
  (forall l, pm_lit_implied m l = true <-> pm_get m (fst l) = Some (snd l)) /\
  (forall l, pm_lit_neg_implied m l = true <-> pm_get m (fst l) = Some (negb (snd l))) /\
  (pm_wf m -> pm_wf (pm_set m v b) /\ pm_wf (pm_unset m v)).
Proof.
  intros m v b w n. split; [apply pm_get_new|]. split; [apply pm_get_set|].
  split; [apply pm_get_unset|]. split; [apply pm_is_set_spec|].
  split; [intros l; apply pm_lit_implied_iff|]. split; [intros l; apply pm_lit_neg_implied_iff|].
  intros H. split; [apply pm_set_wf, H|apply pm_unset_wf, H].
Qed.
Print Assumptions C15_partial_model_laws.

Theorem C15_partial_model_iter_difference : forall m o l,
  pm_wf m -> pm_wf o ->
  (In l (pm_assignment_iter m) <-> pm_get m (fst l) = Some (snd l)) /\
  (In l (pm_difference m o) <-> pm_get m (fst l) = Some (snd l) /\ pm_get o (fst l) <> Some (snd l)).
Proof.
  intros m o l Hm Ho. split; [apply pm_assignment_iter_spec, Hm|apply pm_difference_spec; assumption].
Qed.
Print Assumptions C15_partial_model_iter_difference.

Theorem C15_partial_model_constructors : forall l lits n v,
  pm_wf (pm_from_assignments l) /\
  pm_get (pm_from_assignments l) v =
    (match nth_error l (N.to_nat v) with Some (Some b) => Some b | _ => None end) /\
  ((forall x, In x lits -> fst x < n) ->
     exists m, pm_from_litvec lits n = Some m /\ pm_wf m /\
               forall u, pm_get m u = last_asg lits u None) /\
  ((exists x, In x lits /\ n <= fst x) -> pm_from_litvec lits n = None).
Proof.
  intros l lits n v. split; [apply pm_from_assignments_wf|]. split; [apply pm_from_assignments_get|].
  apply pm_from_litvec_spec.
Qed.
Print Assumptions C15_partial_model_constructors.

(* ---- Literal packing ---- *)
Theorem C15_literal_roundtrip : forall l p,
  literal_new l p = l mod two63 + (if p then two63 else 0) /\
  literal_label (literal_new l p) = l mod two63 /\
  literal_polarity (literal_new l p) = p /\
  (l < two63 -> literal_view (literal_new l p) = (l, p)) /\
  literal_view (literal_negated (literal_new l p)) = (l mod two63, negb p).
Proof.
  intros l p. split; [apply literal_new_value|].
  destruct (literal_roundtrip l p) as [H1 H2]. split; [exact H1|]. split; [exact H2|].
  split; [apply literal_view_new|].
  rewrite literal_negated_view, H1, H2. rewrite N.mod_mod by discriminate. reflexivity.
Qed.
Print Assumptions C15_literal_roundtrip.

(* ---- CnfHasher ---- *)
(* the stack after any push/decide/pop history *)
Theorem C15_cnfhasher_state_spec : forall cs nv h0 ops h,
  hasher_new cs nv = Some h0 -> h_run h0 ops = Some h ->
  h_clauses h = cs /\ h_state h = map (top_spec cs) (d_run ops).
Proof. exact cnfhasher_state_spec. Qed.
Print Assumptions C15_cnfhasher_state_spec.

(* "if": no side condition at all *)
Theorem C15_cnfhasher_if : forall h0 ops1 ops2 h1 h2 m1 m2,
  h_run h0 ops1 = Some h1 -> h_run h0 ops2 = Some h2 ->
  residual h1 m1 = residual h2 m2 -> h_hash h1 m1 = h_hash h2 m2.
Proof. exact cnfhasher_if. Qed.
Print Assumptions C15_cnfhasher_if.

(* "only if": product of all literal primes below 2^128, no clause of the top frame falsified *)
Theorem C15_cnfhasher_only_if : forall cs nv h0 ops1 ops2 h1 h2 m1 m2,
  hasher_new cs nv = Some h0 ->
  h_run h0 ops1 = Some h1 -> h_run h0 ops2 = Some h2 ->
  prodN (concat (map (map fst) (h_wcnf h0))) < two128 ->
  no_falsified h1 m1 -> no_falsified h2 m2 ->
  h_hash h1 m1 = h_hash h2 m2 -> residual h1 m1 = residual h2 m2.
Proof. exact cnfhasher_only_if. Qed.
Print Assumptions C15_cnfhasher_only_if.

(* the main statement: along any two histories of one hasher, for partial models falsifying
   no clause, and while the prime product fits: equal hash <-> equal residual *)
Theorem C15_main : forall cs nv h0 ops1 ops2 h1 h2 m1 m2,
  hasher_new cs nv = Some h0 ->
  h_run h0 ops1 = Some h1 -> h_run h0 ops2 = Some h2 ->
  prodN (concat (map (map fst) (h_wcnf h0))) < two128 ->
  no_falsified h1 m1 -> no_falsified h2 m2 ->
  (h_hash h1 m1 = h_hash h2 m2 <-> residual h1 m1 = residual h2 m2).
Proof.
  intros cs nv h0 ops1 ops2 h1 h2 m1 m2 H0 R1 R2 Hfit N1 N2. split.
  - apply (cnfhasher_only_if cs nv h0 ops1 ops2); assumption.
  - apply (cnfhasher_if h0 ops1 ops2); assumption.
Qed.
Check C15_main : forall cs nv h0 ops1 ops2 h1 h2 m1 m2,
  hasher_new cs nv = Some h0 ->
  h_run h0 ops1 = Some h1 -> h_run h0 ops2 = Some h2 ->
  prodN (concat (map (map fst) (h_wcnf h0))) < two128 ->
  no_falsified h1 m1 -> no_falsified h2 m2 ->
  (h_hash h1 m1 = h_hash h2 m2 <-> residual h1 m1 = residual h2 m2).
Print Assumptions C15_main.

(* decided literals contained in the queried model: the history is irrelevant *)
Theorem C15_cnfhasher_history_irrelevant : forall cs nv h0 ops h d r m,
  hasher_new cs nv = Some h0 -> h_run h0 ops = Some h -> d_run ops = d :: r ->
  (forall l, In l d -> pm_lit_implied m l = true) ->
  residual h m = residual h0 m /\ h_hash h m = h_hash h0 m.
Proof. exact cnfhasher_history_irrelevant. Qed.
Print Assumptions C15_cnfhasher_history_irrelevant.

(* HashSet iteration order is immaterial; the prime stream consists of distinct primes *)
Theorem C15_cnfhasher_model_sanity : forall cs nv h0,
  hasher_new cs nv = Some h0 ->
  NoDup (concat (map (map fst) (h_wcnf h0))) /\
  Forall Nprime (concat (map (map fst) (h_wcnf h0))) /\
  (forall m top top', Permutation.Permutation top top' ->
     hash_top (h_wcnf h0) m top = hash_top (h_wcnf h0) m top').
Proof.
  intros cs nv h0 H. destruct (hasher_new_facts _ _ _ H) as (_ & A & B).
  split; [exact A|]. split; [exact B|]. intros m top top'. apply h_hash_order_irrelevant.
Qed.
Print Assumptions C15_cnfhasher_model_sanity.

(* statements that are FALSE of the faithful model, with witnesses *)
(* (a) forgetting which clause a residual clause came from: equal untagged residuals do not
       give equal hashes (a missed cache hit, not a soundness problem) *)
Theorem C15_cnfhasher_if_untagged_refuted :
  exists cs h m1 m2,
    cnf_hasher (cnf_new cs) = Some h /\
    untagged (residual h m1) = untagged (residual h m2) /\
    no_falsified h m1 /\ no_falsified h m2 /\
    h_hash h m1 <> h_hash h m2.
Proof. exact cnfhasher_if_untagged_refuted. Qed.
Print Assumptions C15_cnfhasher_if_untagged_refuted.

(* (b) dropping the guard "falsifies no clause": a falsified clause hashes like a satisfied one *)
Theorem C15_cnfhasher_only_if_unguarded_refuted :
  exists cs h m1 m2,
    cnf_hasher (cnf_new cs) = Some h /\
    prodN (concat (map (map fst) (h_wcnf h))) < two128 /\
    h_hash h m1 = h_hash h m2 /\ residual h m1 <> residual h m2.
Proof. exact cnfhasher_only_if_unguarded_refuted. Qed.
Print Assumptions C15_cnfhasher_only_if_unguarded_refuted.

(* ---- non-vacuity ---- *)
(* a 3-clause formula, two different histories, two different partial models: the hypotheses
   of C15_main hold and both sides of the equivalence are true with a non-trivial residual *)
Example C15_nonvacuous_hasher :
  let cs := [[(0, true); (1, true)]; [(0, false); (2, true)]; [(1, false); (2, false); (3, true)]] in
  let m1 := pm_from_assignments [Some true] in
  let m2 := pm_from_assignments [Some true; None; None; None; Some false] in
  exists h0 h1 h2,
    cnf_hasher (cnf_new cs) = Some h0 /\
    h_run h0 [HPush; HDecide (0, true)] = Some h1 /\
    h_run h0 [HPush; HPush; HDecide (3, false); HPop] = Some h2 /\
    prodN (concat (map (map fst) (h_wcnf h0))) < two128 /\
    residual h1 m1 = Some [(1%nat, [(2, true)]); (2%nat, [(1, false); (2, false); (3, true)])] /\
    residual h2 m2 = residual h1 m1 /\
    h_hash h1 m1 = Some [17017; 17017] /\ h_hash h2 m2 = h_hash h1 m1.
Proof. cbv zeta. do 3 eexists. repeat split; vm_compute; reflexivity. Qed.

(* the repository's own unit test (x0 | !x1 with unit weights counts 3), over N *)
Example C15_nonvacuous_wmc :
  wmc N N.add N.mul 0 1 (cnf_new [[(0, true); (1, false)]]) [Some (1, 1); Some (1, 1)] = Some 3 /\
  wmc N N.add N.mul 0 1 (cnf_new []) [] = Some 1 /\
  wmc N N.add N.mul 0 1 (cnf_new [[]]) [] = Some 0 /\
  wmc N N.add N.mul 0 1 (cnf_new [[(1, true)]]) [Some (1, 1)] = None.
Proof. repeat split; vm_compute; reflexivity. Qed.

Example C15_nonvacuous_condition :
  clauses (condition (cnf_new [[(1, true); (0, false); (1, true)]; [(0, true); (2, true)]; [(0, false)]]) (0, true))
  = [[(1, true)]; []].
Proof. vm_compute. reflexivity. Qed.
