From Coq Require Import Extraction ExtrOcamlBasic NArith ZArith QArith Qcanon List.
From RsddV Require Import Base.Bdd Model.IteStd Model.BddOps Model.BddProg Model.Semirings Model.Optim.
Extraction Language OCaml.
(* exact rationals in and out of the driver: numerator / denominator of the canonical form *)
Definition qc_of (num : Z) (den : positive) : Qc := Q2Qc (Qmake num den).
Definition qc_num (q : Qc) : Z := Qnum (this q).
Definition qc_den (q : Qc) : positive := Qden (this q).
Extraction "../ocaml/C12/model.ml" run_prog bstate_init neg marginal_map_m meu_m bb_real_m bb_eu_m
  qc_of qc_num qc_den.
