(* Extraction for the C14 correspondence driver: ExtrOcamlBasic only; nat stays an extracted
   inductive. *)
From Coq Require Import Extraction ExtrOcamlBasic List NArith.
From RsddV Require Import Model.VarOrder Model.VTree Model.DTree.
Extraction Language OCaml.
Extraction "../ocaml/C14/model.ml"
  order_new linear_order num_vars get var_at_level lt lte first_essential above below last_var new_last
  right_linear left_linear even_split flatten size manager_new mgr_lca mgr_vtree var_index
  is_prime_index mgr_num_vars
  cnf_num_vars from_cnf from_dtree cutwidth pick_minfill min_fill_order force_order
  (* ocaml/common.ml mentions the constructors of positive and N *)
  N.of_nat.
