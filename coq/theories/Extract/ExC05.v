From Coq Require Import Extraction ExtrOcamlBasic NArith List.
From RsddV Require Import Base.Bdd Model.IteStd Model.BddOps Model.BddProg Model.Compile.
Extraction Language OCaml.
Extraction "../ocaml/C05/model.ml" run_prog bstate_init compile_e cnf_expr cnf_expr_under level_of cst_empty bdd_eqb.
