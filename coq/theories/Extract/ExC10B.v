From Coq Require Import Extraction ExtrOcamlBasic NArith List.
From RsddV Require Import Base.Bdd Model.IteStd Model.BddOps Model.BddProg Model.Wmc Model.Scratch
  Model.TopDown Model.ScratchFold.
Extraction Language OCaml.
(* the stateful model instantiated at N (the harness keeps every value below 2^32, so u64 / u32 /
   f64 arithmetic is exact): one scratch state threaded through bdd_fold, the DDNNF fold,
   count_nodes and decision-DNNF conditioning; the node functions of the correspondence are
   f(var, l, h) = (a*l + b*h + var) mod m, m >= 2 *)
Definition lin_f (a b m : N) (v l h : N) : N := ((a * l + b * h + v) mod m)%N.
Definition bfold_public_N := bdd_fold_public N.
Definition bfold_plain_N := bdd_fold_plain N.
Definition cfold_public_N (ty : tyid) := cfold_public N ty N.add N.mul 0%N 1%N.
Definition ccount_public_N := ccount_public N.
Definition dnnf_condition_N := dnnf_condition_s N.
Definition cempty_N := cempty N.
Extraction "../ocaml/C10B/model.ml" run_prog bstate_init bdd_eqb neg nodes lin_f
  bfold_public_N bfold_plain_N cfold_public_N ccount_public_N dnnf_condition_N cempty_N.
