(* Extraction for the C06 correspondence driver: ExtrOcamlBasic only; N/positive/nat stay
   extracted inductives. *)
From Coq Require Import Extraction ExtrOcamlBasic NArith List.
From RsddV Require Import Base.Bdd Model.UnitProp Model.TopDown.
Extraction Language OCaml.
Extraction "../ocaml/C06/model.ml" compile_raw condition den neg cnf_new cnf_num_vars.
