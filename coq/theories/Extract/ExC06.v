(* Extraction for the C06 correspondence driver: ExtrOcamlBasic only; N/positive/nat stay
   extracted inductives.  compile_raw_g is compile_raw with the ghost "no stale cache hit" flag
   (Proofs/TopDownSem.v, erased by compile_raw_g_erase); the driver runs both and reports a
   cleared flag (C06_no_stale_cache_hit proves it never is). *)
From Coq Require Import Extraction ExtrOcamlBasic NArith List.
From RsddV Require Import Base.Bdd Model.UnitProp Model.TopDown Proofs.TopDownSem.
Extraction Language OCaml.
Extraction "../ocaml/C06/model.ml" compile_raw compile_raw_g condition den neg bdd_eqb cnf_new cnf_num_vars.
