(* Extraction for the BDD-program drivers (C01 and the properties that reuse its language). *)
From Coq Require Import Extraction ExtrOcamlBasic NArith List.
From RsddV Require Import Base.Bdd Model.IteStd Model.BddOps Model.BddProg.
Extraction Language OCaml.
Extraction "../ocaml/C01/model.ml" run_prog bstate_init bdd_eqb den level_of var_at smooth_m.
