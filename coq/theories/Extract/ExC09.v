(* Extraction for the C09 correspondence driver: ExtrOcamlBasic only; N/positive/nat stay
   extracted inductives. *)
From Coq Require Import Extraction ExtrOcamlBasic NArith List.
From RsddV Require Import Model.UnitProp.
Extraction Language OCaml.
Extraction "../ocaml/C09/model.ml" solver_of_raw sat_decide sat_pop sat_is_sat sat_is_set
  sat_cur_hash sat_difference_iter top_state pm_get up_naive cnf_new cnf_num_vars.
