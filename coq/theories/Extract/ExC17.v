(* Extraction for the C17 correspondence driver: ExtrOcamlBasic only; nat/positive/N/Z stay
   extracted inductives. *)
From Coq Require Import Extraction ExtrOcamlBasic NArith ZArith List.
From RsddV Require Import Base.Bdd Model.Compile Model.CnfUtil Model.Serialize Model.SerializeText.
Extraction Language OCaml.
Extraction "../ocaml/C17/model.ml"
  cnf_new clauses to_dimacs header lex_ints parse_dimacs parse_dimacs_tokens cnf_from_dimacs expr_from_dimacs
  expr_table to_dimacs_text lex_chars
  unique_variables sorted_names variable_mapping map_get from_sexpr
  bdd_serialize eval_table unfold_table rows_ordered
  sdd_serialize eval_xtable xrows_ordered
  vtree_serialize vtree_deserialize
  c17_bdd_pool c17_sdd_pool
  bo_const bo_var bo_neg bo_and bo_or bo_xor bo_iff bo_ite bo_cond bo_cond_model bo_exists bo_compose
  bo_and_lst bo_or_lst bo_new_var
  so_true so_false so_var so_neg so_and so_or so_xor so_iff so_ite so_cond so_exists so_compose
  sv_leaf sv_node vt_leaf vt_node.
