From Coq Require Import Extraction ExtrOcamlBasic NArith List.
From RsddV Require Import Base.Bdd Model.IteStd Model.BddOps Model.BddProg Model.Wmc Model.Compile Model.Cli.
Extraction Language OCaml.
Extraction "../ocaml/C19/model.ml" run_prog bstate_init cli_counts cli_compile cnf_expr den.
