(* Extraction for the C07S correspondence driver: ExtrOcamlBasic only; N/positive/nat stay
   extracted inductives. *)
From Coq Require Import Extraction ExtrOcamlBasic NArith List.
From RsddV Require Import Base.Bdd Model.SddVtree Model.SddOps Model.SddWmc Generated.Constants.
Extraction Language OCaml.
(* the fold over N (exact integers); the driver reduces mod P at the end *)
Definition sdd_wmc_N (wlo whi : var -> N) (p : sdd) : N := sdd_wmc_m N N.add N.mul 0%N 1%N wlo whi p.
Definition sdd_wmc_N_public (wlo whi : var -> N) (p : sdd) (s : sscratch N) : N * sscratch N :=
  sdd_wmc_public N N.add N.mul 0%N 1%N wlo whi p s.
Definition sempty_N : sscratch N := sempty N.
Definition sempty_B : sscratch bool := sempty bool.
Extraction "../ocaml/C07S/model.ml" run_prog sneg sdd_nodes sempty_N sempty_B sdd_wmc_N sdd_wmc_N_public
  sdd_evaluate_m sdd_evaluate_public sdd_count_public sdd_fold_c
  prime_U64_LARGEST prime_U32_SMALL N.modulo N.mul N.add N.sub N.div.
