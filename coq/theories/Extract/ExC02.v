From Coq Require Import Extraction ExtrOcamlBasic NArith List.
From RsddV Require Import Base.Bdd Model.IteStd Model.BddOps Model.BddProg.
Extraction Language OCaml.
Extraction "../ocaml/C02/model.ml" run_prog bstate_init bdd_eqb den level_of var_at.
