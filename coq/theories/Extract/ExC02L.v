(* Extraction for the C02L correspondence driver: ExtrOcamlBasic only; N/positive/nat stay
   extracted inductives. *)
From Coq Require Import Extraction ExtrOcamlBasic NArith List.
From RsddV Require Import Base.Bdd Model.RobinHood Model.Store.
Extraction Language OCaml.
Extraction "../ocaml/C02L/model.ml" new_table get_or_insert_s unfold resolve sptr_eqb hash_mod7 hash_id.
