From Coq Require Import Extraction ExtrOcamlBasic NArith List.
From RsddV Require Import Base.Bdd Model.IteStd Model.BddOps Model.BddProg Model.Wmc Model.Compile.
Extraction Language OCaml.
Definition wmc_N (wlo whi : var -> N) (p : bdd) : N := wmc_m N N.add N.mul 0%N 1%N wlo whi p.
Extraction "../ocaml/C18/model.ml" run_prog bstate_init bdd_eqb neg level_of var_at smooth_m wmc_N compile_e cnf_expr cst_empty den.
