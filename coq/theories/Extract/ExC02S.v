(* Extraction for the C02S correspondence driver: ExtrOcamlBasic only; N/positive/nat stay
   extracted inductives. *)
From Coq Require Import Extraction ExtrOcamlBasic NArith List.
From RsddV Require Import Generated.Constants Model.RobinHood.
Extraction Language OCaml.
Extraction "../ocaml/C02S/model.ml" new_table get_or_insert_by_hash get_by_hash num_nodes default_size.
