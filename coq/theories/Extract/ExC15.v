(* Extraction for the C15 correspondence driver: ExtrOcamlBasic only; N/positive/nat stay
   extracted inductives.  [wmc] lives in a Section, so the extracted function takes
   radd rmul rzero rone as leading arguments; N.add / N.mul / N.modulo are extracted so that the
   driver can build the arithmetic of FiniteField<P> on the extracted N. *)
From Coq Require Import Extraction ExtrOcamlBasic NArith List.
From RsddV Require Import Model.CnfUtil.
Extraction Language OCaml.
Extraction "../ocaml/C15/model.ml"
  literal_new literal_label literal_polarity literal_negated
  pm_new pm_from_assignments pm_from_total_model pm_from_litvec pm_unset pm_set pm_get
  pm_lit_implied pm_lit_neg_implied pm_is_set pm_assignment_iter pm_difference
  cnf_new cnf_eval_impl is_sat_partial condition
  ai_new ai_collect wmc
  cnf_hasher h_step h_hash
  N.add N.mul N.modulo.
