From Coq Require Import Extraction ExtrOcamlBasic NArith List.
From RsddV Require Import Base.Bdd Model.IteStd Model.BddOps Model.BddProg Model.Wmc Model.Scratch.
Extraction Language OCaml.
(* the stateful model, instantiated at N: memoised fold + clear, count_nodes *)
Definition fold_public_N := fold_public N N.add N.mul 0%N 1%N.
Definition count_public_N := count_public N.
Definition empty_scratch_N := empty_scratch N.
Extraction "../ocaml/C10/model.ml" run_prog bstate_init bdd_eqb level_of var_at smooth_m condition_m
  fold_public_N count_public_N empty_scratch_N nodes evaluate_m.
