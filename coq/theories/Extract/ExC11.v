(* Extraction for the C11 correspondence driver: ExtrOcamlBasic only; N/positive/nat stay
   extracted inductives. *)
From Coq Require Import Extraction ExtrOcamlBasic NArith List.
From RsddV Require Import Base.Bdd Model.IteStd Model.BddOps Model.BddProg Model.Wmc Model.Semirings
  Model.SemHash Generated.Constants.
From RsddV Require Model.SddVtree Model.SddOps Model.SddWmc Model.SddSemHash Model.SddSemBuilder.
Extraction Language OCaml.

(* the SDD half: the builder model of C03 (Model/SddOps.v) and the two hashes of Model/SddSemHash.v.
   The operation constructors of the SDD program language share their names with the BDD one's;
   the driver builds SDD programs through these functions, so it does not depend on how the
   extraction disambiguates them. *)
Definition sdd_run_prog := SddOps.run_prog.
Definition so_true : SddOps.sop := SddOps.OTrue.
Definition so_false : SddOps.sop := SddOps.OFalse.
Definition so_var (v : var) (b : bool) : SddOps.sop := SddOps.OVar v b.
Definition so_neg (i : nat) : SddOps.sop := SddOps.ONeg i.
Definition so_and (i j : nat) : SddOps.sop := SddOps.OAnd i j.
Definition so_or (i j : nat) : SddOps.sop := SddOps.OOr i j.
Definition so_xor (i j : nat) : SddOps.sop := SddOps.OXor i j.
Definition so_iff (i j : nat) : SddOps.sop := SddOps.OIff i j.
Definition so_ite (i j k : nat) : SddOps.sop := SddOps.OIte i j k.
Definition so_cond (i : nat) (v : var) (b : bool) : SddOps.sop := SddOps.OCond i v b.
Definition so_exists (i : nat) (v : var) : SddOps.sop := SddOps.OExists i v.
Definition sdd_pool_of {A} (r : SddOps.res A) : option A := match r with SddOps.Ok x => Some x | _ => None end.

(* the SemanticSddBuilder model (Model/SddSemBuilder.v): pool, number of stored nodes, number of
   get_or_insert_bdd / get_or_insert_sdd requests; None = the model run panicked / ran out of fuel.
   [Hf] is the pointer hash: the driver passes a memoised copy of [semb_hash P w] = shash P w *)
Definition semb_run (t : SddVtree.vtree) (P : N) (Hf : SddOps.sdd -> N) (fuel : nat) (ops : list SddOps.sop)
  : option (list SddOps.sdd * (nat * nat)) :=
  match SddSemBuilder.run_prog_sem_h t P Hf fuel ops with
  | SddOps.Ok (pool, st, log) =>
    Some (pool, (length (SddSemBuilder.s_tbl st),
                 length (filter (fun e => match e with SddSemBuilder.EReq _ => true | _ => false end) log)))
  | _ => None
  end.
Definition semb_hash := SddSemBuilder.shash.

Extraction "../ocaml/C11/model.ml" run_prog bstate_init bdd_eqb neg
  hash_m cached_hash cached_hashes weights_ok hash_match hneg
  prime_U32_TINY prime_U32_SMALL prime_U64_LARGEST
  sdd_run_prog sdd_pool_of so_true so_false so_var so_neg so_and so_or so_xor so_iff so_ite so_cond so_exists
  SddOps.sneg SddSemHash.sdd_hash_m SddSemHash.sdd_cached_hash SddSemHash.sdd_cached_hashes
  semb_run semb_hash.
