(* Extraction for the C11 correspondence driver: ExtrOcamlBasic only; N/positive/nat stay
   extracted inductives. *)
From Coq Require Import Extraction ExtrOcamlBasic NArith List.
From RsddV Require Import Base.Bdd Model.IteStd Model.BddOps Model.BddProg Model.Wmc Model.Semirings
  Model.SemHash Generated.Constants.
Extraction Language OCaml.
Extraction "../ocaml/C11/model.ml" run_prog bstate_init bdd_eqb neg
  hash_m cached_hash cached_hashes weights_ok hash_match hneg
  prime_U32_TINY prime_U32_SMALL prime_U64_LARGEST.
