(* Extraction for the C13 correspondence driver: ExtrOcamlBasic only; N/positive/Z/nat stay
   extracted inductives; Qc is its underlying reduced fraction. *)
From Coq Require Import Extraction ExtrOcamlBasic NArith ZArith QArith Qcanon List.
From RsddV Require Import Generated.Constants Model.Semirings.
Extraction Language OCaml.
Extraction "../ocaml/C13/model.ml"
  exported_primes max_coeffs ff_okb
  ff_new ff_add ff_mul ff_sub ff_negate ff_one ff_zero zp_ops
  bool_ops
  Q2Qc real_ops real_sub real_le real_join real_choose real_meet
  rational_ops
  cx_ops cx_sub
  eu_ops eu_sub eu_partial_cmp eu_le eu_join eu_choose eu_meet
  pzero pone padd pmul poly_ops.
