(* Extraction for the C03 correspondence driver: ExtrOcamlBasic only; N/positive/nat stay
   extracted inductives. *)
From Coq Require Import Extraction ExtrOcamlBasic NArith List.
From RsddV Require Import Model.SddVtree Model.SddOps.
Extraction Language OCaml.
Extraction "../ocaml/C03/model.ml" run_prog sdd_eqb vheight sden.
