(* Extraction for the C16 correspondence driver: ExtrOcamlBasic only; N/positive/nat stay
   extracted inductives. *)
From Coq Require Import Extraction ExtrOcamlBasic NArith List.
From RsddV Require Import Model.Lru Base.Bdd Model.IteStd Model.BddOps Model.BddProg.
Extraction Language OCaml.
Extraction "../ocaml/C16/model.ml" lru_new step get insert occupied_count run_prog bstate_init bdd_eqb.
