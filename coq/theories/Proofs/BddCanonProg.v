(* C02 / C16 on the tree layer: canonicity of all results of all programs, and independence of
   the results from the apply cache's behaviour. *)
From Coq Require Import Bool NArith List Lia Arith Permutation.
Import ListNotations.
From RsddV Require Import Base.Bdd Model.IteStd Proofs.IteStd Proofs.BddCanon Model.BddOps Proofs.BddIte
  Proofs.BddOps Model.BddProg Proofs.BddProg.

(* the final order depends on the operations only *)
Fixpoint final_order (o : order) (ops : list bop) : order :=
  match ops with
  | [] => o
  | ONewVar _ :: r => final_order (fst (new_last o)) r
  | _ :: r => final_order o r
  end.

Lemma push_opt_bord st ores st' : push_opt st ores = Some st' -> bord st' = bord st.
Proof. destruct ores as [[r c]|]; simpl; [intros [= <-]; reflexivity|discriminate]. Qed.

Lemma run_op_bord remember st op st' : run_op remember st op = Some st' ->
  bord st' = match op with ONewVar _ => fst (new_last (bord st)) | _ => bord st end.
Proof.
  destruct op; cbn [run_op]; intros R;
    repeat match type of R with (if ?c then _ else _) = _ => destruct c; [|discriminate] end;
    try (apply push_opt_bord in R; exact R); try (injection R as <-; reflexivity).
Qed.

Lemma run_prog_bord remember ops : forall st st', run_prog remember st ops = Some st' ->
  bord st' = final_order (bord st) ops.
Proof.
  induction ops as [|op ops IH]; intros st st' R; simpl in R.
  - injection R as <-. reflexivity.
  - destruct (run_op remember st op) as [st1|] eqn:E; [|discriminate].
    rewrite (IH _ _ R), (run_op_bord _ _ _ _ E). destruct op; reflexivity.
Qed.

Lemma pool_ok_canonical o pool1 pool2 fpool : wf_order o ->
  pool_ok o pool1 fpool -> pool_ok o pool2 fpool -> pool1 = pool2.
Proof.
  intros WO H1. revert pool2. induction H1 as [|p f pool1 fpool [Wp Dp] H1 IH]; intros pool2 H2; inversion H2 as [|q f' pool2' fpool' [Wq Dq] H2']; subst; auto.
  f_equal; [|apply IH; auto].
  apply (WF_canonical (level_of o) (level_of_inj o WO) (length o) 0); auto.
  intros a. rewrite Dp, Dq. reflexivity.
Qed.

Lemma wf_order_final o ops : wf_order o -> wf_order (final_order o ops).
Proof.
  revert o; induction ops as [|op ops IH]; intros o WO; simpl; auto.
  destruct op; auto. apply IH. apply wf_order_new_last. exact WO.
Qed.

(* C16/C02: whatever the apply cache remembers or forgets, a program produces the same
   (canonical) diagrams *)
Theorem prog_cache_transparent rem1 rem2 o ops st1 st2 :
  wf_order o ->
  run_prog rem1 (bstate_init o) ops = Some st1 ->
  run_prog rem2 (bstate_init o) ops = Some st2 ->
  bpool st1 = bpool st2.
Proof.
  intros WO R1 R2.
  pose proof (ops_correct _ _ _ _ WO R1) as P1. pose proof (ops_correct _ _ _ _ WO R2) as P2.
  rewrite (run_prog_bord _ _ _ _ R1) in P1. rewrite (run_prog_bord _ _ _ _ R2) in P2. simpl in P1, P2.
  apply (pool_ok_canonical (final_order o ops) _ _ _ (wf_order_final o ops WO) P1 P2).
Qed.

(* C02: two results of one builder are the same node iff they denote the same function *)
Theorem eq_iff_equiv remember o ops st' i j :
  wf_order o -> run_prog remember (bstate_init o) ops = Some st' ->
  i < length (bpool st') -> j < length (bpool st') ->
  (nth i (bpool st') BF = nth j (bpool st') BF <->
   forall x, den (nth i (bpool st') BF) x = den (nth j (bpool st') BF) x).
Proof.
  intros WO R Hi Hj. split; [intros ->; reflexivity|]. intros E.
  pose proof (ops_correct _ _ _ _ WO R) as P.
  assert (WO' : wf_order (bord st')) by (rewrite (run_prog_bord _ _ _ _ R); apply wf_order_final; exact WO).
  destruct (pool_get _ _ _ i P) as [Wi _]. destruct (pool_get _ _ _ j P) as [Wj _].
  apply (WF_canonical (level_of (bord st')) (level_of_inj _ WO') (length (bord st')) 0); auto.
Qed.

(* the shape clauses of C02, spelled out node by node *)
Inductive shaped (level : var -> nat) : option nat -> bdd -> Prop :=
| sh_t above : shaped level above BT
| sh_f above : shaped level above BF
| sh_n above c v lo hi :
    (match above with Some a => a < level v | None => True end) ->   (* respects the order *)
    lo <> hi ->                                                      (* no identical children *)
    is_neg hi = false -> hi <> BF ->                                 (* regular, non-false high edge *)
    shaped level (Some (level v)) lo -> shaped level (Some (level v)) hi ->
    shaped level above (BN c v lo hi).

Lemma wfb_shaped level k p : wfb level k p ->
  forall above, (match above with Some a => a < k | None => True end) -> shaped level above p.
Proof.
  revert k; induction p as [| |c v lo IHlo hi IHhi]; intros k W above Ha.
  - constructor.
  - constructor.
  - simpl in W. destruct W as (Hk & Wl & Wh & Hne & Hreg & HnF).
    constructor; auto.
    + destruct above; auto; lia.
    + apply (IHlo _ Wl). lia.
    + apply (IHhi _ Wh). lia.
Qed.

Theorem results_shaped remember o ops st' i :
  wf_order o -> run_prog remember (bstate_init o) ops = Some st' ->
  shaped (level_of (bord st')) None (nth i (bpool st') BF).
Proof.
  intros WO R. pose proof (ops_correct _ _ _ _ WO R) as P.
  destruct (pool_get _ _ _ i P) as [[W _] _]. apply (wfb_shaped _ 0 _ W None). exact I.
Qed.
