(* C11 -- SemanticSddBuilder: a checker for the hypothesis [sem_inj] on FINITE sets given as lists,
   used for the non-vacuity example: negation closure and membership by structural equality,
   injectivity pair by pair -- two members with equal hashes must have equal truth tables over a
   variable list covering their labels.  Sound by reflection (one vm_compute runs all pairs). *)
From Coq Require Import Bool NArith List Lia Arith.
Import ListNotations.
From RsddV Require Import Base.Bdd Base.Util Model.SddVtree Model.SddOps Model.SemHash Model.SddSemHash
  Model.SddSemBuilder.
From RsddV Require Import Proofs.SddBase Proofs.SddSemBuilderBase Proofs.SddSemBuilderStore Proofs.SddSemBuilder.

(* ---- the denotation looks only at the labels that occur ---- *)
Lemma sdd_vars_or_in c i els p s v : In (p, s) els -> In v (sdd_vars p) \/ In v (sdd_vars s) -> In v (sdd_vars (SOr c i els)).
Proof.
  intros Hin Hv. simpl. induction els as [|[p' s'] r IH]; [destruct Hin|].
  destruct Hin as [[= -> ->]|Hin].
  - apply in_or_app. destruct Hv; [left; assumption | right; apply in_or_app; left; assumption].
  - apply in_or_app. right. apply in_or_app. right. apply IH. exact Hin.
Qed.

Lemma sden_agree p : forall a a', (forall v, In v (sdd_vars p) -> a v = a' v) -> sden p a = sden p a'.
Proof.
  induction p as [| |v b|c l i lo hi IHlo IHhi|c i els IH] using sdd_ind'; intros a a' E; try reflexivity.
  - simpl. rewrite (E v) by (simpl; auto). reflexivity.
  - simpl. rewrite (E l) by (simpl; auto).
    rewrite (IHlo a a') by (intros v Hv; apply E; simpl; right; apply in_or_app; auto).
    rewrite (IHhi a a') by (intros v Hv; apply E; simpl; right; apply in_or_app; auto). reflexivity.
  - rewrite !sden_or. f_equal. unfold den_els.
    assert (G : forall e, In e els -> sden (fst e) a && sden (snd e) a = sden (fst e) a' && sden (snd e) a').
    { intros [p s] Hin. rewrite Forall_forall in IH. destruct (IH _ Hin) as [Ip Is]. cbn [fst snd] in *.
      rewrite (Ip a a'), (Is a a'); [reflexivity| |]; intros v Hv; apply E; eapply sdd_vars_or_in; eauto. }
    clear IH E. induction els as [|e r IHr]; [reflexivity|]. cbn [existsb].
    rewrite (G e) by (left; reflexivity). rewrite IHr; [reflexivity|]. intros e' He'. apply G. right. exact He'.
Qed.

(* ---- all assignments of a variable list ---- *)
Fixpoint asgs (vs : list var) : list asg :=
  match vs with
  | [] => [fun _ => false]
  | v :: r => flat_map (fun a => [upd a v false; upd a v true]) (asgs r)
  end.

Lemma asgs_complete vs a : exists a', In a' (asgs vs) /\ forall v, In v vs -> a' v = a v.
Proof.
  induction vs as [|u r IH].
  - exists (fun _ => false). split; [left; reflexivity|]. intros v [].
  - destruct IH as (a1 & Hin & Ha). exists (upd a1 u (a u)). split.
    + cbn [asgs]. apply in_flat_map. exists a1. split; [exact Hin|]. destruct (a u); simpl; auto.
    + intros v Hv. unfold upd. destruct (N.eqb_spec v u) as [->|Hn]; [reflexivity|].
      destruct Hv as [->|Hv]; [contradiction | apply Ha; exact Hv].
Qed.

Definition ttf (vs : list var) (f : asg -> bool) : list bool := map f (asgs vs).
Definition subsetb (l vs : list var) : bool := forallb (fun v => existsb (N.eqb v) vs) l.
Fixpoint bools_eqb (x y : list bool) : bool :=
  match x, y with
  | [], [] => true
  | a :: r, b :: r' => Bool.eqb a b && bools_eqb r r'
  | _, _ => false
  end.

Lemma bools_eqb_eq x : forall y, bools_eqb x y = true -> x = y.
Proof.
  induction x as [|a r IH]; intros [|b r'] H; simpl in H; try discriminate; [reflexivity|].
  apply andb_true_iff in H. destruct H as [H1 H2]. apply eqb_prop in H1. f_equal; auto.
Qed.

Lemma subsetb_incl l vs : subsetb l vs = true -> incl l vs.
Proof.
  intros H v Hv. unfold subsetb in H. rewrite forallb_forall in H. specialize (H v Hv).
  apply existsb_exists in H. destruct H as (u & Hu & E). apply N.eqb_eq in E. subst. exact Hu.
Qed.

Lemma ttf_eq vs (f g : asg -> bool) : ttf vs f = ttf vs g -> forall a, In a (asgs vs) -> f a = g a.
Proof.
  unfold ttf. induction (asgs vs) as [|b r IH]; intros E a Hin; [destruct Hin|].
  simpl in E. injection E as E1 E2. destruct Hin as [<-|Hin]; auto.
Qed.

Lemma existsb_sdd_eqb p l : existsb (sdd_eqb p) l = true -> In p l.
Proof.
  intros H. apply existsb_exists in H. destruct H as (q & Hq & E). apply sdd_eqb_eq in E. subst. exact Hq.
Qed.

(* ---- the checker ---- *)
Section Check.
Variable P : N.
Variable w : wmap.
Variable vs : list var.
Notation H := (shash P w).

Definition dcheck (l : list sdd) : bool :=
  forallb (fun p => subsetb (sdd_vars p) vs) l &&
  forallb (fun p => existsb (sdd_eqb (sneg p)) l) l &&
  existsb (sdd_eqb SF) l &&
  (let hs := map (fun p => (shash P w p, ttf vs (sden p))) l in
   forallb (fun x => forallb (fun y => negb (N.eqb (fst x) (fst y)) || bools_eqb (snd x) (snd y)) hs) hs).

Definition conj_of (ab : sdd * sdd) : asg -> bool := fun x => sden (fst ab) x && sden (snd ab) x.
Definition kcheck (kl : list (sdd * sdd)) : bool :=
  forallb (fun ab => subsetb (sdd_vars (fst ab)) vs && subsetb (sdd_vars (snd ab)) vs) kl &&
  existsb (fun ab => sdd_eqb (fst ab) ST && sdd_eqb (snd ab) ST) kl &&
  existsb (fun ab => sdd_eqb (fst ab) SF && sdd_eqb (snd ab) SF) kl &&
  (let hs := map (fun ab => (app_key P H (fst ab) (snd ab), ttf vs (conj_of ab))) kl in
   forallb (fun x => forallb (fun y => negb (N.eqb (fst x) (fst y)) || bools_eqb (snd x) (snd y)) hs) hs).

Definition logcheck (l : list sdd) (kl : list (sdd * sdd)) (log : list ev) : bool :=
  forallb (fun e => match e with
                    | EPtr p | EReq p => existsb (sdd_eqb p) l
                    | EPair a b => existsb (fun ab => sdd_eqb a (fst ab) && sdd_eqb b (snd ab)) kl
                    end) log.

Lemma pair_check {A} (key : A -> N) (tab : A -> list bool) (l : list A) :
  (let hs := map (fun p => (key p, tab p)) l in
   forallb (fun x => forallb (fun y => negb (N.eqb (fst x) (fst y)) || bools_eqb (snd x) (snd y)) hs) hs) = true ->
  forall p q, In p l -> In q l -> key p = key q -> tab p = tab q.
Proof.
  cbv zeta. intros H p q Hp Hq E. rewrite forallb_forall in H.
  specialize (H (key p, tab p) (in_map _ _ _ Hp)). rewrite forallb_forall in H.
  specialize (H (key q, tab q) (in_map _ _ _ Hq)). cbn [fst snd] in H.
  rewrite E, N.eqb_refl in H. simpl in H. apply bools_eqb_eq. exact H.
Qed.

Lemma table_sound (f g : asg -> bool) (vf vg : list var) :
  (forall a a', (forall v, In v vf -> a v = a' v) -> f a = f a') ->
  (forall a a', (forall v, In v vg -> a v = a' v) -> g a = g a') ->
  incl vf vs -> incl vg vs -> ttf vs f = ttf vs g -> forall a, f a = g a.
Proof.
  intros Af Ag If Ig E a. destruct (asgs_complete vs a) as (a' & Hin & Ha).
  rewrite (Af a a') by (intros v Hv; symmetry; apply Ha; apply If; exact Hv).
  rewrite (Ag a a') by (intros v Hv; symmetry; apply Ha; apply Ig; exact Hv).
  apply (ttf_eq vs f g E a' Hin).
Qed.

Theorem check_sound (l : list sdd) (kl : list (sdd * sdd)) :
  dcheck l = true -> kcheck kl = true ->
  sem_inj P w (fun p => In p l) (fun a b => In (a, b) kl).
Proof.
  intros Hd Hk. unfold dcheck in Hd. unfold kcheck in Hk.
  apply andb_true_iff in Hd. destruct Hd as [Hd D4]. apply andb_true_iff in Hd. destruct Hd as [Hd D3].
  apply andb_true_iff in Hd. destruct Hd as [D1 D2].
  apply andb_true_iff in Hk. destruct Hk as [Hk K4]. apply andb_true_iff in Hk. destruct Hk as [Hk K3].
  apply andb_true_iff in Hk. destruct Hk as [K1 K2].
  rewrite forallb_forall in D1, D2, K1.
  split; [|split; [|split; [|split; [|split]]]].
  - intros p Hp. apply existsb_sdd_eqb. apply D2. exact Hp.
  - apply existsb_sdd_eqb. exact D3.
  - intros p q Hp Hq E.
    apply (table_sound (sden p) (sden q) (sdd_vars p) (sdd_vars q)); try apply sden_agree.
    + apply subsetb_incl. apply D1. exact Hp.
    + apply subsetb_incl. apply D1. exact Hq.
    + apply (pair_check (shash P w) (fun p => ttf vs (sden p)) l D4 p q Hp Hq E).
  - apply existsb_exists in K2. destruct K2 as ([a b] & Hin & E). cbn [fst snd] in E.
    apply andb_true_iff in E. destruct E as [E1 E2]. apply sdd_eqb_eq in E1, E2. subst. exact Hin.
  - apply existsb_exists in K3. destruct K3 as ([a b] & Hin & E). cbn [fst snd] in E.
    apply andb_true_iff in E. destruct E as [E1 E2]. apply sdd_eqb_eq in E1, E2. subst. exact Hin.
  - intros a b a' b' Hab Hab' E.
    pose proof (K1 _ Hab) as V1. pose proof (K1 _ Hab') as V2. cbn [fst snd] in V1, V2.
    apply andb_true_iff in V1, V2. destruct V1 as [Va Vb]. destruct V2 as [Va' Vb'].
    apply (table_sound (conj_of (a, b)) (conj_of (a', b')) (sdd_vars a ++ sdd_vars b) (sdd_vars a' ++ sdd_vars b')).
    + intros x x' Ex. unfold conj_of. cbn [fst snd].
      rewrite (sden_agree a x x'), (sden_agree b x x'); [reflexivity| |]; intros v Hv; apply Ex; apply in_or_app; auto.
    + intros x x' Ex. unfold conj_of. cbn [fst snd].
      rewrite (sden_agree a' x x'), (sden_agree b' x x'); [reflexivity| |]; intros v Hv; apply Ex; apply in_or_app; auto.
    + apply incl_app; apply subsetb_incl; assumption.
    + apply incl_app; apply subsetb_incl; assumption.
    + apply (pair_check (fun ab => app_key P H (fst ab) (snd ab)) (fun ab => ttf vs (conj_of ab)) kl K4 (a, b) (a', b') Hab Hab' E).
Qed.

Theorem logcheck_sound l kl log : logcheck l kl log = true ->
  Forall (evok (fun p => In p l) (fun a b => In (a, b) kl)) log.
Proof.
  intros H. unfold logcheck in H. rewrite forallb_forall in H. apply Forall_forall. intros e He.
  specialize (H e He). destruct e as [p|p|a b]; simpl.
  - apply existsb_sdd_eqb. exact H.
  - apply existsb_sdd_eqb. exact H.
  - apply existsb_exists in H. destruct H as ([a' b'] & Hin & E). cbn [fst snd] in E.
    apply andb_true_iff in E. destruct E as [E1 E2]. apply sdd_eqb_eq in E1, E2. subst. exact Hin.
Qed.
End Check.

Definition ev_eqb (e f : ev) : bool :=
  match e, f with
  | EPtr p, EPtr q | EReq p, EReq q => sdd_eqb p q
  | EPair a b, EPair c d => sdd_eqb a c && sdd_eqb b d
  | _, _ => false
  end.
Lemma ev_mem_sound e log : existsb (ev_eqb e) log = true -> In e log.
Proof.
  intros H. apply existsb_exists in H. destruct H as (f & Hf & E).
  destruct e, f; simpl in E; try discriminate.
  - apply sdd_eqb_eq in E. subst. exact Hf.
  - apply sdd_eqb_eq in E. subst. exact Hf.
  - apply andb_true_iff in E. destruct E as [E1 E2]. apply sdd_eqb_eq in E1, E2. subst. exact Hf.
Qed.

(* the sets read off a ghost log: every compared pointer with its negation, both constants;
   every cache-keying pair, (True, True), (False, False); duplicates removed *)
Fixpoint dedup_s (l : list sdd) : list sdd :=
  match l with
  | [] => []
  | p :: r => let r' := dedup_s r in if existsb (sdd_eqb p) r' then r' else p :: r'
  end.
Fixpoint dedup_k (l : list (sdd * sdd)) : list (sdd * sdd) :=
  match l with
  | [] => []
  | ab :: r => let r' := dedup_k r in
               if existsb (fun cd => sdd_eqb (fst ab) (fst cd) && sdd_eqb (snd ab) (snd cd)) r' then r' else ab :: r'
  end.
Definition dset_of (log : list ev) : list sdd :=
  dedup_s (SF :: ST :: flat_map (fun e => match e with EPtr p | EReq p => [p; sneg p] | EPair _ _ => [] end) log).
Definition kset_of (log : list ev) : list (sdd * sdd) :=
  dedup_k ((ST, ST) :: (SF, SF) :: flat_map (fun e => match e with EPair a b => [(a, b)] | _ => [] end) log).
