(* C06 — proofs about the decision-DNNF model, part 2: topdown_h / compile_cnf_topdown are exact.
   The solver facts come from C09 (Proofs/UnitProp*.v): soundness of decide (post), UNSAT
   soundness, pop restores the stack, the satisfied flag, the fix-point theorem (repaired
   propagator), fuel sufficiency, and -- for cache hits -- equal hash => equal residual. *)
From Coq Require Import Bool NArith List Arith Lia Permutation.
Import ListNotations.
From RsddV Require Import Base.Util Base.Bdd Model.UnitProp Model.TopDown Model.Wmc Proofs.Wmc Proofs.TopDown.
From RsddV Require Import Proofs.UnitProp Proofs.UnitPropFix Proofs.UnitPropFuel Proofs.UnitPropHash.

(* ---------- assignments: diagrams are over N, the solver over nat ---------- *)
Definition ax (x : Bdd.asg) : nat -> bool := fun v => x (N.of_nat v).
(* the total assignment that follows the partial model where it is set, [a] elsewhere *)
Definition ov (m : pmodel) (a : nat -> bool) : nat -> bool :=
  fun v => match pm_get m v with Some b => b | None => a v end.
Definition ovN (m : pmodel) (x : Bdd.asg) : Bdd.asg :=
  fun v => match pm_get m (N.to_nat v) with Some b => b | None => x v end.
Definition updn (a : nat -> bool) (v : nat) (b : bool) : nat -> bool :=
  fun u => if Nat.eqb u v then b else a u.

Lemma ax_ovN m x v : ax (ovN m x) v = ov m (ax x) v.
Proof. unfold ax, ovN, ov. rewrite Nat2N.id. reflexivity. Qed.

Lemma lit_holds_ext a a' l : (forall v, a v = a' v) -> lit_holds a l = lit_holds a' l.
Proof. intros H. unfold lit_holds. rewrite H. reflexivity. Qed.
Lemma clause_holds_ext a a' c : (forall v, a v = a' v) -> clause_holds a c = clause_holds a' c.
Proof.
  intros H. unfold clause_holds. induction c as [|l t IH]; simpl; [reflexivity|].
  rewrite IH, (lit_holds_ext a a' l H). reflexivity.
Qed.
Lemma cnf_holds_ext a a' cls : (forall v, a v = a' v) -> cnf_holds a cls = cnf_holds a' cls.
Proof.
  intros H. unfold cnf_holds. induction cls as [|c t IH]; simpl; [reflexivity|].
  rewrite IH, (clause_holds_ext a a' c H). reflexivity.
Qed.

Lemma extends_ov m a : extends (ov m a) m.
Proof. intros v b H. unfold ov. rewrite H. reflexivity. Qed.
Lemma ov_of_extends m a : extends a m -> forall v, ov m a v = a v.
Proof. intros H v. unfold ov. destruct (pm_get m v) as [b|] eqn:E; [symmetry; apply H; exact E|reflexivity]. Qed.
Lemma ov_unset m a v : pm_get m v = None -> ov m a v = a v.
Proof. intros H. unfold ov. rewrite H. reflexivity. Qed.
Lemma ov_idem m a v : ov m (ov m a) v = ov m a v.
Proof. unfold ov. destruct (pm_get m v); reflexivity. Qed.

Lemma lit_evalN_ax x l : lit_evalN x l = lit_holds (ax x) l.
Proof. reflexivity. Qed.

Lemma lit_true_get m l : lit_true m l = true <-> pm_get m (lvar l) = Some (lpol l).
Proof.
  unfold lit_true. destruct (pm_get m (lvar l)) as [x|]; [|split; discriminate].
  rewrite eqb_true_iff. split; [intros ->; reflexivity|intros H; inversion H; reflexivity].
Qed.

Lemma pm_is_set_get m v : pm_is_set m v = false <-> pm_get m v = None.
Proof. unfold pm_is_set. destruct (pm_get m v); split; congruence. Qed.

(* a tautological clause holds under every total assignment *)
Lemma taut_holds a c : tautological c = true -> clause_holds a c = true.
Proof.
  unfold tautological. intros H. apply existsb_exists in H. destruct H as [l [Hl H]].
  apply existsb_exists in H. destruct H as [l' [Hl' He]]. apply lit_eqb_eq in He. subst l'.
  unfold clause_holds. apply existsb_exists.
  destruct (lit_holds a l) eqn:E; [exists l; auto|]. exists (lneg l). split; [exact Hl'|].
  destruct l as [u p]. unfold lit_holds, lneg, lvar, lpol in *. cbn [fst snd] in *.
  destruct (a u), p; simpl in *; congruence.
Qed.

Lemma clause_sat_holds a m c : extends a m -> clause_sat m c = true -> clause_holds a c = true.
Proof.
  intros He H. apply existsb_exists in H. destruct H as [l [Hl H]].
  apply existsb_exists. exists l. split; [exact Hl|eapply lit_holds_true; eauto].
Qed.

(* the satisfied flag: every extension of the model satisfies the CNF *)
Lemma all_sat_holds cls m a : all_nontaut_sat cls m -> extends a m -> cnf_holds a cls = true.
Proof.
  intros H He. apply forallb_forall. intros c Hc.
  destruct (tautological c) eqn:Et; [apply taut_holds; exact Et|].
  eapply clause_sat_holds; [exact He|apply H; assumption].
Qed.

(* fix-point + every variable assigned: every clause has a true literal *)
Lemma full_fixpoint_holds nvars cls m a :
  lits_in_range nvars cls -> fixpoint_ok cls m = true ->
  (forall v, v < nvars -> pm_is_set m v = true) -> extends a m -> cnf_holds a cls = true.
Proof.
  intros Hr Hf Hall He. apply forallb_forall. intros c Hc.
  unfold fixpoint_ok in Hf. rewrite forallb_forall in Hf. specialize (Hf c Hc).
  unfold clause_quiet in Hf. apply orb_true_iff in Hf. destruct Hf as [Hs|Hl].
  - eapply clause_sat_holds; eauto.
  - exfalso. apply Nat.leb_le in Hl.
    assert (E : remaining m c = []).
    { unfold remaining. destruct (filter (lit_unset m) c) as [|l t] eqn:Ef; [reflexivity|].
      assert (Hin : In l (filter (lit_unset m) c)) by (rewrite Ef; left; reflexivity).
      apply filter_In in Hin. destruct Hin as [Hlc Hu]. unfold lit_unset in Hu.
      rewrite (Hall (lvar l) (Hr c l Hc Hlc)) in Hu. discriminate. }
    rewrite E in Hl. simpl in Hl. lia.
Qed.

(* ---------- PartialModel::difference ---------- *)
Lemma nodup_pm_diff_pol a b p : NoDup (map lvar (pm_diff_pol a b p)).
Proof.
  unfold pm_diff_pol. rewrite map_map. cbn [lvar fst]. rewrite map_id.
  apply NoDup_filter. apply seq_NoDup.
Qed.

Lemma nodup_pm_difference a b : NoDup (map lvar (pm_difference a b)).
Proof.
  unfold pm_difference. rewrite map_app. apply nodup_app; [apply nodup_pm_diff_pol|apply nodup_pm_diff_pol|].
  intros v H1 H2.
  apply in_map_iff in H1. destruct H1 as [l1 [E1 H1]]. apply in_map_iff in H2. destruct H2 as [l2 [E2 H2]].
  apply in_pm_diff_pol in H1. apply in_pm_diff_pol in H2.
  destruct H1 as [P1 [T1 _]]. destruct H2 as [P2 [T2 _]].
  apply lit_true_get in T1. apply lit_true_get in T2. rewrite E1 in T1. rewrite E2 in T2. congruence.
Qed.

Lemma nodup_map_filter {A B} (f : A -> B) (p : A -> bool) l : NoDup (map f l) -> NoDup (map f (filter p l)).
Proof.
  induction l as [|x t IH]; simpl; intros H; [constructor|]. inversion H as [|? ? Hn Hd]; subst.
  destruct (p x); simpl; [constructor|]; auto.
  intros Hin. apply Hn. apply in_map_iff in Hin. destruct Hin as [y [Ey Hy]]. apply filter_In in Hy.
  apply in_map_iff. exists y. tauto.
Qed.

Lemma nodup_map_inj {A B} (f : A -> B) l : (forall x y, f x = f y -> x = y) -> NoDup l -> NoDup (map f l).
Proof.
  intros Hinj. induction 1 as [|x t Hn Hd IH]; simpl; constructor; auto.
  intros Hin. apply in_map_iff in Hin. destruct Hin as [y [Ey Hy]]. apply Hinj in Ey. subst. contradiction.
Qed.

Lemma nodup_nvar lits : NoDup (map lvar lits) -> NoDup (map nvar lits).
Proof.
  intros H. unfold nvar. rewrite <- (map_map lvar N.of_nat). apply nodup_map_inj; [apply Nat2N.inj|exact H].
Qed.

(* ---------- one decide, semantically ---------- *)
Section DECIDE.
Variable cls : list clause.
Variable nvars : nat.

Definition implied_of (m1 m : pmodel) (v : nat) : list lit :=
  filter (fun x => negb (Nat.eqb (lvar x) v)) (pm_difference m1 m).

Lemma decide_sem fuel w m v pol w' m1 :
  w_ok (length cls) w -> length m = nvars -> v < nvars -> pm_get m v = None ->
  up_decide false cls fuel w m (v, pol) = URes w' (Some m1) ->
  pm_le m m1 /\ length m1 = nvars /\ pm_get m1 v = Some pol /\
  forall a, a v = pol ->
    cnf_holds (ov m a) cls = forallb (lit_holds a) (implied_of m1 m v) && cnf_holds (ov m1 a) cls.
Proof.
  intros Hw Hlen Hv Hun H.
  pose proof (up_decide_sets false cls fuel w m (v, pol) w' m1 Hw ltac:(simpl; lia) H) as Hset.
  apply lit_true_get in Hset. cbn [lvar lpol fst snd] in Hset.
  apply (proj1 (up_basic false cls fuel)) in H; [|exact Hw]. destruct H as [_ [Hm Ha]].
  destruct (Hm m1 eq_refl) as [Hl1 Hle].
  split; [exact Hle|split; [congruence|split; [exact Hset|]]].
  intros a Hav.
  assert (Himp : forall l, In l (implied_of m1 m v) ->
            pm_get m1 (lvar l) = Some (lpol l) /\ pm_get m (lvar l) = None /\ lvar l <> v).
  { intros l Hl. apply filter_In in Hl. destruct Hl as [Hd Hne]. apply in_pm_difference in Hd.
    destruct Hd as [T1 T2]. apply lit_true_get in T1. split; [exact T1|split].
    - destruct (pm_get m (lvar l)) as [b|] eqn:E; [|reflexivity]. rewrite (Hle _ _ E) in T1.
      unfold lit_true in T2. rewrite E in T2. inversion T1; subst. rewrite eqb_reflx in T2. discriminate.
    - apply negb_true_iff, Nat.eqb_neq in Hne. exact Hne. }
  apply eq_true_iff_eq. rewrite andb_true_iff. split.
  - intros Hc.
    destruct (Ha (ov m a) Hc (extends_ov m a)) as [m' [Em' He1]].
    { unfold lit_holds. cbn [lvar lpol fst snd]. rewrite (ov_unset m a v Hun), Hav. apply eqb_reflx. }
    inversion Em'; subst m'. clear Em'.
    assert (Heq : forall u, ov m1 a u = ov m a u).
    { intros u. unfold ov at 1. destruct (pm_get m1 u) as [b|] eqn:E1.
      - symmetry. apply He1. exact E1.
      - unfold ov. destruct (pm_get m u) as [b|] eqn:E; [rewrite (Hle _ _ E) in E1; discriminate|reflexivity]. }
    split.
    + apply forallb_forall. intros l Hl. destruct (Himp l Hl) as [G1 [G2 _]].
      unfold lit_holds. rewrite <- (ov_unset m a (lvar l) G2). rewrite (He1 _ _ G1). apply eqb_reflx.
    + rewrite (cnf_holds_ext _ _ cls Heq). exact Hc.
  - intros [Hl Hc]. rewrite forallb_forall in Hl.
    assert (Heq : forall u, ov m a u = ov m1 a u).
    { intros u. unfold ov. destruct (pm_get m u) as [b|] eqn:E; [rewrite (Hle _ _ E); reflexivity|].
      destruct (pm_get m1 u) as [b|] eqn:E1; [|reflexivity].
      destruct (Nat.eq_dec u v) as [->|Hne]; [congruence|].
      assert (Hin : In (u, b) (implied_of m1 m v)).
      { apply filter_In. split.
        - apply in_pm_difference. unfold lit_true. cbn [lvar lpol fst snd]. rewrite E1, E, eqb_reflx. auto.
        - cbn [lvar fst]. apply negb_true_iff, Nat.eqb_neq. exact Hne. }
      specialize (Hl _ Hin). unfold lit_holds in Hl. cbn [lvar lpol fst snd] in Hl. apply eqb_prop in Hl. exact Hl. }
    rewrite (cnf_holds_ext _ _ cls Heq). exact Hc.
Qed.

Lemma decide_unsat_sem fuel w m v pol w' :
  w_ok (length cls) w -> pm_get m v = None ->
  up_decide false cls fuel w m (v, pol) = URes w' None ->
  forall a, a v = pol -> cnf_holds (ov m a) cls = false.
Proof.
  intros Hw Hun H a Hav.
  apply (proj1 (up_basic false cls fuel)) in H; [|exact Hw]. destruct H as [_ [_ Ha]].
  destruct (cnf_holds (ov m a) cls) eqn:Hc; [|reflexivity]. exfalso.
  destruct (Ha (ov m a) Hc (extends_ov m a)) as [m' [Em' _]]; [|discriminate].
  unfold lit_holds. cbn [lvar lpol fst snd]. rewrite (ov_unset m a v Hun), Hav. apply eqb_reflx.
Qed.
End DECIDE.

(* ---------- the residual formula determines the conditioned CNF (for cache hits) ---------- *)
Definition evalres (a : nat -> bool) (R : list (option clause)) : bool :=
  forallb (fun o => match o with None => true | Some c => clause_holds a c end) R.

Lemma lit_holds_ov m a l :
  lit_holds (ov m a) l = lit_true m l || (lit_unset m l && lit_holds a l).
Proof.
  unfold lit_holds, ov, lit_true, lit_unset, pm_is_set. destruct (pm_get m (lvar l)) as [b|]; simpl.
  - rewrite orb_false_r. destruct b, (lpol l); reflexivity.
  - reflexivity.
Qed.

Lemma clause_holds_ov m a c :
  clause_holds (ov m a) c = clause_sat m c || clause_holds a (remaining m c).
Proof.
  unfold clause_holds, clause_sat, remaining. induction c as [|l t IH]; [reflexivity|].
  cbn [existsb filter]. rewrite IH, lit_holds_ov. destruct (lit_unset m l); cbn [existsb andb].
  - destruct (lit_true m l), (lit_holds a l), (existsb (lit_true m) t); reflexivity.
  - rewrite orb_false_r. destruct (lit_true m l), (existsb (lit_true m) t); reflexivity.
Qed.

Lemma clause_holds_norm a c : clause_holds a (norm_clause c) = clause_holds a c.
Proof.
  apply eq_true_iff_eq. unfold clause_holds. rewrite !existsb_exists.
  split; intros [l [Hl H]]; exists l; (split; [|exact H]).
  - exact (proj1 (in_norm_clause l c) Hl).
  - exact (proj2 (in_norm_clause l c) Hl).
Qed.

Lemma cnf_holds_sat_clauses a cls :
  cnf_holds a cls = forallb (clause_holds a) (map (map fst) (sat_clauses_of cls)).
Proof.
  unfold sat_clauses_of. rewrite weigh_fst. apply eq_true_iff_eq. unfold cnf_holds. rewrite !forallb_forall. split.
  - intros H c Hc. apply filter_In in Hc. destruct Hc as [Hc _]. apply in_map_iff in Hc.
    destruct Hc as [c0 [<- Hc0]]. rewrite clause_holds_norm. apply H. exact Hc0.
  - intros H c Hc. destruct (tautological c) eqn:Et; [apply taut_holds; exact Et|].
    rewrite <- clause_holds_norm. apply H. apply filter_In. split; [apply in_map; exact Hc|].
    rewrite tautological_norm, Et. reflexivity.
Qed.

Lemma evalres_residual a cl m :
  forallb (clause_holds (ov m a)) (map (map fst) cl) = evalres a (residual cl m).
Proof.
  unfold evalres, residual. induction cl as [|wc t IH]; [reflexivity|].
  cbn [map forallb]. rewrite IH, clause_holds_ov, <- wc_sat_clause_sat.
  destruct (wc_sat m wc); reflexivity.
Qed.

Lemma residual_sem cls m1 m2 :
  residual (sat_clauses_of cls) m1 = residual (sat_clauses_of cls) m2 ->
  forall a, cnf_holds (ov m1 a) cls = cnf_holds (ov m2 a) cls.
Proof. intros H a. rewrite !cnf_holds_sat_clauses, !evalres_residual, H. reflexivity. Qed.

(* ---------- the compiler with a ghost flag ----------
   [topdown_hg] is topdown_h with one extra boolean threaded through: it is cleared when a cache
   hit returns a diagram that tests a variable which is set in the current model ("stale hit").
   Erasing the flag gives topdown_h (topdown_hg_erase).  Denotation and the false constant do not
   depend on it; "no path decides a variable twice" is proved for runs whose flag stays true:
   without the cache it never changes (nocache_flag), with the cache it is never cleared either
   (topdown_res / cached_flag_true below: results test residual variables only). *)
Definition fresh_hit (s : solver) (d : bdd) : bool :=
  forallb (fun v => negb (sat_is_set s (N.to_nat v))) (support d).

Definition gres := (bdd * solver * cache * bool)%type.

Definition branch_g (rec : solver -> cache -> bool -> option gres)
           (s : solver) (c : cache) (fl : bool) (cur_v : nat) (pol : bool) : option gres :=
  match sat_decide false s (cur_v, pol) with
  | (s1, DUNSAT) => Some (BF, s1, c, fl)
  | (s1, DSAT) => Some (conjoin_implied (new_assgn s1 cur_v) BT, sat_pop s1, c, fl)
  | (s1, DUnknown) =>
    match rec s1 c fl with
    | None => None
    | Some (sub, s2, c2, fl2) => Some (conjoin_implied (new_assgn s2 cur_v) sub, sat_pop s2, c2, fl2)
    end
  | (_, DOutOfFuel) => None
  | (_, DPanic) => None
  end.

Fixpoint topdown_hg (order : list nat) (use_cache : bool) (fuel : nat) (s : solver) (level : nat)
         (c : cache) (fl : bool) : option gres :=
  match fuel with
  | O => None
  | S f =>
    if Nat.leb (s_nvars s) level || sat_is_sat s then Some (BT, s, c, fl) else
    let cur_v := var_at_level order level in
    if sat_is_set s cur_v then topdown_hg order use_cache f s (S level) c fl else
    let hashed := sat_cur_hash s in
    match (if use_cache then cache_get c hashed else None) with
    | Some v => Some (v, s, c, fl && fresh_hit s v)
    | None =>
      match branch_g (fun s' c' fl' => topdown_hg order use_cache f s' (S level) c' fl') s c fl cur_v true with
      | None => None
      | Some (high_bdd, s1, c1, fl1) =>
        match branch_g (fun s' c' fl' => topdown_hg order use_cache f s' (S level) c' fl') s1 c1 fl1 cur_v false with
        | None => None
        | Some (low_bdd, s2, c2, fl2) =>
          let r := decision_node (N.of_nat cur_v) low_bdd high_bdd in
          Some (r, s2, (if use_cache then cache_insert c2 hashed r else c2), fl2)
        end
      end
    end
  end.

Definition erase (o : option gres) : option (bdd * solver * cache) :=
  match o with Some (r, s, c, _) => Some (r, s, c) | None => None end.

Lemma branch_g_erase rec recg s c fl v pol :
  (forall s' c' fl', rec s' c' = erase (recg s' c' fl')) ->
  branch false rec s c v pol = erase (branch_g recg s c fl v pol).
Proof.
  intros H. unfold branch, branch_g. destruct (sat_decide false s (v, pol)) as [s1 r].
  destruct r; try reflexivity. rewrite (H s1 c fl). destruct (recg s1 c fl) as [[[[sub s2] c2] fl2]|]; reflexivity.
Qed.

Lemma topdown_hg_erase order uc : forall fuel s level c fl,
  topdown_h false order uc fuel s level c = erase (topdown_hg order uc fuel s level c fl).
Proof.
  induction fuel as [|f IH]; intros s level c fl; [reflexivity|].
  cbn [topdown_h topdown_hg].
  destruct (Nat.leb (s_nvars s) level || sat_is_sat s); [reflexivity|].
  destruct (sat_is_set s (var_at_level order level)); [apply IH|].
  destruct (if uc then cache_get c (sat_cur_hash s) else None); [reflexivity|].
  rewrite (branch_g_erase _ (fun s' c' fl' => topdown_hg order uc f s' (S level) c' fl') s c fl)
    by (intros; apply IH).
  destruct (branch_g _ s c fl (var_at_level order level) true) as [[[[hi s1] c1] fl1]|]; [|reflexivity].
  cbn [erase].
  rewrite (branch_g_erase _ (fun s' c' fl' => topdown_hg order uc f s' (S level) c' fl') s1 c1 fl1)
    by (intros; apply IH).
  destruct (branch_g _ s1 c1 fl1 (var_at_level order level) false) as [[[[lo s2] c2] fl2]|]; reflexivity.
Qed.

(* ---------- things that depend on the state stack only ---------- *)
Lemma top_state_stack s s' : s_stack s' = s_stack s -> top_state s' = top_state s.
Proof. unfold top_state. intros ->. reflexivity. Qed.

Lemma implied_props m m1 v l : pm_le m m1 -> In l (implied_of m1 m v) ->
  pm_get m1 (lvar l) = Some (lpol l) /\ pm_get m (lvar l) = None /\ lvar l <> v.
Proof.
  intros Hle Hl. apply filter_In in Hl. destruct Hl as [Hd Hne]. apply in_pm_difference in Hd.
  destruct Hd as [T1 T2]. apply lit_true_get in T1. split; [exact T1|split].
  - destruct (pm_get m (lvar l)) as [b|] eqn:E; [|reflexivity]. rewrite (Hle _ _ E) in T1.
    unfold lit_true in T2. rewrite E in T2. inversion T1; subst. rewrite eqb_reflx in T2. discriminate.
  - apply negb_true_iff, Nat.eqb_neq in Hne. exact Hne.
Qed.

Lemma nodup_implied m1 m v : NoDup (map nvar (implied_of m1 m v)).
Proof. apply nodup_nvar. unfold implied_of. apply nodup_map_filter. apply nodup_pm_difference. Qed.

Lemma cache_get_in c h d : cache_get c h = Some d -> In (h, d) c.
Proof.
  induction c as [|[k e] t IH]; simpl; [discriminate|]. destruct (N.eqb_spec k h) as [->|Hne].
  - intros H. inversion H. left. reflexivity.
  - intros H. right. apply IH. exact H.
Qed.


(* ================= path freeness WITH the component cache =================
   The diagrams topdown_h returns test only variables of the RESIDUAL formula (variables with an
   unset occurrence in a non-tautological clause that has no true literal).  Those are unset in
   every state with that residual formula, so a cache hit can never return a diagram testing an
   assigned variable.  Two operational facts about the propagator are needed:
   (1) up_new_in_res: every literal a decide assigns beyond the decided one was the last unset
       literal of an unsatisfied clause, so its variable is in the residual of the old model;
   (2) quiet_loop: deciding a variable OUTSIDE the residual propagates nothing; the state after
       it has the same hash and satisfied flag, so the second arm's recursive call replays the
       first arm's skips and hits the entry the first arm just stored: the arms are pointer-equal
       and no node on that variable is built. *)
Definition has_var (v : nat) (c : clause) : bool := existsb (fun l => Nat.eqb (lvar l) v) c.
Definition inresb (cls : list clause) (m : pmodel) (v : nat) : bool :=
  existsb (fun c => negb (clause_sat m c) && negb (tautological c) && has_var v c) cls.

Lemma inresb_spec cls m v : inresb cls m v = true <->
  exists c, In c cls /\ clause_sat m c = false /\ tautological c = false /\ exists l, In l c /\ lvar l = v.
Proof.
  unfold inresb, has_var. rewrite existsb_exists. split.
  - intros [c [Hc H]]. apply andb_true_iff in H. destruct H as [H H3]. apply andb_true_iff in H.
    destruct H as [H1 H2]. apply negb_true_iff in H1. apply negb_true_iff in H2.
    apply existsb_exists in H3. destruct H3 as [l [Hl E]]. apply Nat.eqb_eq in E.
    exists c. repeat split; auto. exists l. auto.
  - intros [c [Hc [H1 [H2 [l [Hl E]]]]]]. exists c. split; [exact Hc|]. rewrite H1, H2. cbn [negb andb].
    apply existsb_exists. exists l. split; [exact Hl|apply Nat.eqb_eq; exact E].
Qed.

Lemma inresb_anti cls m m' v : pm_le m m' -> inresb cls m' v = true -> inresb cls m v = true.
Proof.
  intros Hle H. apply inresb_spec in H. destruct H as [c [Hc [H1 [H2 H3]]]]. apply inresb_spec.
  exists c. repeat split; auto. destruct (clause_sat m c) eqn:E; [|reflexivity].
  rewrite (clause_sat_le _ _ _ Hle E) in H1. discriminate.
Qed.

Lemma lneg_neq l : l <> lneg l.
Proof. destruct l as [v p]. unfold lneg. simpl. intros H. inversion H. destruct p; discriminate. Qed.

(* a tautological clause is never falsified and never unit *)
Lemma taut_two m c : tautological c = true -> clause_sat m c = true \/ 2 <= length (remaining m c).
Proof.
  unfold tautological. intros H. apply existsb_exists in H. destruct H as [l [Hl H]].
  apply existsb_exists in H. destruct H as [l' [Hl' He]]. apply lit_eqb_eq in He. subst l'.
  destruct (pm_get m (lvar l)) as [b|] eqn:E.
  - left. apply existsb_exists. destruct (Bool.eqb (lpol l) b) eqn:Eb.
    + exists l. split; [exact Hl|]. unfold lit_true. rewrite E. exact Eb.
    + exists (lneg l). split; [exact Hl'|]. unfold lit_true, lneg, lvar, lpol in *. cbn [fst snd] in *.
      rewrite E. destruct (snd l), b; simpl in *; congruence.
  - right. apply (two_in_length l (lneg l)); [apply lneg_neq| |]; apply filter_In; split; auto;
      unfold lit_unset, pm_is_set; rewrite ?lvar_lneg, E; reflexivity.
Qed.

Lemma up_new_in_res cls fuel :
  (forall w m a w' m1, w_ok (length cls) w -> up_decide false cls fuel w m a = URes w' (Some m1) ->
     forall v, pm_get m v = None -> pm_get m1 v <> None -> v = lvar a \/ inresb cls m v = true) /\
  (forall w m a idx w' m1, w_ok (length cls) w -> up_loop false cls fuel w m a idx = URes w' (Some m1) ->
     forall v, pm_get m v = None -> pm_get m1 v <> None -> inresb cls m v = true).
Proof.
  induction fuel as [|f [IHd IHl]]; [split; intros; discriminate|]. split.
  - intros w m a w' m1 Hw H v Hv Hn. rewrite up_decide_S in H.
    destruct (pm_get m (lvar a)) as [x|] eqn:E.
    + destruct (Bool.eqb x (lpol a)); [|discriminate]. injection H as _ <-. contradiction.
    + destruct (Nat.eq_dec v (lvar a)) as [->|Hne]; [left; reflexivity|right].
      apply (inresb_anti cls m (pm_set m (lvar a) (lpol a))); [apply pm_le_set; exact E|].
      eapply IHl; [exact Hw|exact H| |exact Hn]. rewrite pm_get_set_other by congruence. exact Hv.
  - intros w m a idx w' m1 Hw H v Hv Hn. rewrite up_loop_S in H. cbv zeta in H.
    destruct (Nat.leb (length (wl_get w (lneg a))) idx) eqn:Eidx; [injection H as _ <-; contradiction|].
    apply Nat.leb_gt in Eidx.
    set (ci := nth idx (wl_get w (lneg a)) 0) in *.
    assert (Hci : ci < length cls).
    { pose proof (wl_get_ok _ _ (lneg a) Hw) as Hall. eapply Forall_forall in Hall; [exact Hall|].
      apply nth_In. exact Eidx. }
    set (c := nth ci cls []) in *.
    assert (Hc : In c cls) by (apply nth_In_clause; exact Hci).
    destruct (clause_sat m c) eqn:Esat; [eapply IHl; eauto|].
    destruct (remaining m c) as [|u [|second rest]] eqn:Erem.
    + discriminate.
    + destruct (up_decide false cls f w m u) as [|w1 [m1'|]] eqn:Ed; try discriminate.
      pose proof (proj1 (up_basic false cls f) _ _ _ _ _ Hw Ed) as [Hw1 [Hm1 _]].
      destruct (Hm1 m1' eq_refl) as [_ Hle1].
      destruct (pm_get m1' v) as [b|] eqn:E1.
      * destruct (IHd _ _ _ _ _ Hw Ed v Hv) as [->|Hin]; [congruence| |exact Hin].
        apply inresb_spec. exists c. split; [exact Hc|split; [exact Esat|split]].
        -- destruct (tautological c) eqn:Et; [|reflexivity]. exfalso.
           destruct (taut_two m c Et) as [Hs|Hl]; [congruence|]. rewrite Erem in Hl. simpl in Hl. lia.
        -- exists u. split; [|reflexivity]. apply (remaining_in m c u). rewrite Erem. left. reflexivity.
      * apply (inresb_anti cls m m1' v Hle1). eapply IHl; [exact Hw1|exact H|exact E1|exact Hn].
    + eapply IHl; [|exact H|exact Hv|exact Hn].
      apply wl_push_ok; [|exact Hci]. apply wl_put_ok; [exact Hw|].
      apply swap_remove_ok. apply wl_get_ok. exact Hw.
Qed.

Lemma wl_push_lens w l ci :
  length (wpos (wl_push w l ci)) = length (wpos w) /\ length (wneg (wl_push w l ci)) = length (wneg w).
Proof. unfold wl_push. apply wl_put_lengths. Qed.

Lemma quiet_loop (cls : list clause) (m : pmodel) (a : lit) : pm_is_set m (lvar a) = true ->
  forall fuel w idx w' r,
  lvar a < length (wpos w) -> lvar a < length (wneg w) ->
  Forall (fun ci => clause_sat m (nth ci cls []) = true \/ 2 <= length (remaining m (nth ci cls [])))
         (wl_get w (lneg a)) ->
  up_loop false cls fuel w m a idx = URes w' r -> r = Some m.
Proof.
  intros Hset. induction fuel as [|f IH]; intros w idx w' r L1 L2 HP H; [discriminate|].
  rewrite up_loop_S in H. cbv zeta in H.
  destruct (Nat.leb (length (wl_get w (lneg a))) idx) eqn:Eidx; [inversion H; reflexivity|].
  apply Nat.leb_gt in Eidx.
  set (ci := nth idx (wl_get w (lneg a)) 0) in *.
  assert (HPci : clause_sat m (nth ci cls []) = true \/ 2 <= length (remaining m (nth ci cls []))).
  { rewrite Forall_forall in HP. apply HP. apply nth_In. exact Eidx. }
  set (c := nth ci cls []) in *.
  destruct (clause_sat m c) eqn:Esat.
  { eapply IH; [exact L1|exact L2|exact HP|exact H]. }
  destruct HPci as [Hx|Hlen]; [congruence|].
  destruct (remaining m c) as [|u [|second rest]] eqn:Erem; simpl in Hlen; try lia.
  set (nl := if mem_nat ci (wl_get w u) then second else u) in *.
  assert (Hnl : nl <> lneg a).
  { assert (Hin : In nl (remaining m c)).
    { rewrite Erem. unfold nl. destruct (mem_nat ci (wl_get w u)); simpl; auto. }
    apply remaining_in in Hin. destruct Hin as [_ Hu]. intros ->. unfold lit_unset in Hu.
    rewrite lvar_lneg, Hset in Hu. discriminate. }
  eapply IH; [| |  |exact H].
  - rewrite (proj1 (wl_push_lens _ _ _)), (proj1 (wl_put_lengths _ _ _)). exact L1.
  - rewrite (proj2 (wl_push_lens _ _ _)), (proj2 (wl_put_lengths _ _ _)). exact L2.
  - unfold wl_push. rewrite wl_get_put_other by exact Hnl.
    rewrite wl_get_put_same by (rewrite lvar_lneg; assumption).
    rewrite Forall_forall in *. intros x Hx. apply HP.
    destruct (swap_remove_spec (wl_get w (lneg a)) idx Eidx) as [Hp _].
    eapply Permutation_in; [exact Hp|right; exact Hx].
Qed.

Lemma wc_sat_ext m m' (wc : wclause) :
  (forall z, In z wc -> pm_get m' (lvar (fst z)) = pm_get m (lvar (fst z))) -> wc_sat m' wc = wc_sat m wc.
Proof.
  unfold wc_sat. induction wc as [|z t IH]; intros H; [reflexivity|]. cbn [existsb]. f_equal.
  - unfold lit_true. rewrite (H z (or_introl eq_refl)). reflexivity.
  - apply IH. intros z' Hz'. apply H. right. exact Hz'.
Qed.

Lemma conjoin_nil d : conjoin_implied [] d = d.
Proof. unfold conjoin_implied. destruct d; reflexivity. Qed.

Lemma implied_set_nil m y pol : pm_get m y = None -> implied_of (pm_set m y pol) m y = [].
Proof.
  intros Hun. unfold implied_of. destruct (filter _ _) as [|l t] eqn:E; [reflexivity|]. exfalso.
  assert (Hin : In l (l :: t)) by (left; reflexivity). rewrite <- E in Hin.
  apply filter_In in Hin. destruct Hin as [Hd Hne]. apply negb_true_iff, Nat.eqb_neq in Hne.
  apply in_pm_difference in Hd. destruct Hd as [T1 T2]. unfold lit_true in *.
  rewrite pm_get_set_other in T1 by congruence. rewrite T1 in T2. discriminate.
Qed.

(* the second arm replays the first arm's skips and finds what the first arm stored *)
Lemma replay order : forall fuel L s c fl r s' c' fl',
  topdown_hg order true fuel s L c fl = Some (r, s', c', fl') -> sat_is_sat s = false ->
  forall sb flb, s_nvars sb = s_nvars s -> sat_is_sat sb = false -> sat_cur_hash sb = sat_cur_hash s ->
  (forall l, L <= l -> l < s_nvars s -> sat_is_set sb (nth l order 0) = sat_is_set s (nth l order 0)) ->
  exists flb', topdown_hg order true fuel sb L c' flb = Some (r, sb, c', flb').
Proof.
  induction fuel as [|f IH]; intros L s c fl r s' c' fl' H Hsat sb flb Hnv Hsatb Hh Hset; [discriminate|].
  cbn [topdown_hg] in *. rewrite Hsat in H. rewrite Hsatb, Hnv. rewrite orb_false_r in *.
  destruct (Nat.leb (s_nvars s) L) eqn:El.
  - inversion H; subst. eexists. reflexivity.
  - apply Nat.leb_gt in El. unfold var_at_level in *. rewrite (Hset L (le_n _) El).
    destruct (sat_is_set s (nth L order 0)).
    + eapply IH; eauto. intros l Hl. apply Hset. lia.
    + rewrite Hh. destruct (cache_get c (sat_cur_hash s)) as [d|] eqn:Eg.
      * inversion H; subst. rewrite Eg. eexists. reflexivity.
      * destruct (branch_g _ s c fl (nth L order 0) true) as [[[[hi s1] c1] fl1]|]; [|discriminate].
        destruct (branch_g _ s1 c1 fl1 (nth L order 0) false) as [[[[lo s2] c2] fl2]|]; [|discriminate].
        inversion H; subst. cbn [cache_insert cache_get]. rewrite N.eqb_refl. eexists. reflexivity.
Qed.

Section TD.
Variable cls : list clause.
Variable nvars : nat.
Variable order : list nat.
Variable s0 : solver.
Variable use_cache : bool.
Hypothesis Hrange : lits_in_range nvars cls.
Hypothesis Hadj : rem_adj_ok cls.
Hypothesis Hnew : sat_new false cls nvars = NewSome s0.
(* the order lists every variable, and nothing else, on its first nvars levels *)
Hypothesis Hcover : forall v, v < nvars -> exists l, l < nvars /\ nth l order 0 = v.
Hypothesis Hinrange : forall l, l < nvars -> nth l order 0 < nvars.
(* component-cache soundness: equal residual hash => equal residual formula (C09_hash_injective
   establishes it under the guard 0 < product of the literal weights < 2^128) *)
Hypothesis hash_residual : use_cache = true -> forall s1 ds1 s2 ds2,
  reaches false s0 s1 ds1 -> reaches false s0 s2 ds2 -> sat_cur_hash s1 = sat_cur_hash s2 ->
  residual (s_clauses s0) (ss_model (top_state s1)) = residual (s_clauses s0) (ss_model (top_state s2)).

Notation model s := (ss_model (top_state s)).

Record facts (s : solver) : Prop := mkFacts {
  f_cnf : s_cnf s = cls; f_nv : s_nvars s = nvars; f_w : w_ok (length cls) (s_w s);
  f_len : length (model s) = nvars; f_fix : fixpoint_ok cls (model s) = true;
  f_cl : s_clauses s = sat_clauses_of cls; f_ne : s_stack s <> [] }.

Lemma reach_facts s ds : reaches false s0 s ds -> facts s.
Proof.
  intros Hr. destruct (sound_inv_reach _ _ _ _ _ _ Hnew Hr) as [Hc [Hw _]].
  destruct (fuel_inv_reach false nvars cls Hrange s0 s ds Hnew Hr) as [[_ [Hnv [_ [_ [_ Hall]]]]] Hlen].
  destruct (flag_inv_reach _ _ _ _ _ _ Hnew Hr) as [_ Hcl].
  assert (Hne : s_stack s <> []) by (intros Hx; rewrite Hx in Hlen; simpl in Hlen; lia).
  constructor; auto.
  - unfold top_state. destruct (s_stack s) as [|t rest]; [congruence|]. inversion Hall; assumption.
  - eapply up_fixpoint; eauto.
Qed.

Lemma reach_s0 : reaches false s0 s0 [].
Proof. exists []. reflexivity. Qed.

Lemma reach_pop s d ds : reaches false s0 s (d :: ds) -> reaches false s0 (sat_pop s) ds.
Proof. intros Hr. eapply reaches_step with (o := Pop); [exact Hr|reflexivity]. Qed.

Lemma decide_step s ds v pol s1 r :
  reaches false s0 s ds -> v < nvars -> pm_get (model s) v = None ->
  sat_decide false s (v, pol) = (s1, r) ->
  match r with
  | DUNSAT => reaches false s0 s1 ds /\ s_stack s1 = s_stack s /\
              forall a, a v = pol -> cnf_holds (ov (model s) a) cls = false
  | DSAT | DUnknown =>
      reaches false s0 s1 ((v, pol) :: ds) /\ tl (s_stack s1) = s_stack s /\
      pm_le (model s) (model s1) /\ pm_get (model s1) v = Some pol /\
      new_assgn s1 v = implied_of (model s1) (model s) v /\
      (forall a, a v = pol ->
         cnf_holds (ov (model s) a) cls =
         forallb (lit_holds a) (new_assgn s1 v) && cnf_holds (ov (model s1) a) cls) /\
      (r = DSAT <-> sat_is_sat s1 = true)
  | DOutOfFuel | DPanic => False
  end.
Proof.
  intros Hr Hv Hun Hd. pose proof (reach_facts s ds Hr) as F.
  assert (Push : r = DSAT \/ r = DUnknown ->
      reaches false s0 s1 ((v, pol) :: ds) /\ tl (s_stack s1) = s_stack s /\
      pm_le (model s) (model s1) /\ pm_get (model s1) v = Some pol /\
      new_assgn s1 v = implied_of (model s1) (model s) v /\
      (forall a, a v = pol ->
         cnf_holds (ov (model s) a) cls =
         forallb (lit_holds a) (new_assgn s1 v) && cnf_holds (ov (model s1) a) cls) /\
      (r = DSAT <-> sat_is_sat s1 = true)).
  { intros Hres. pose proof (decide_sat_iff_is_sat _ _ _ _ _ Hd Hres) as Hflag.
    assert (Hreach : reaches false s0 s1 ((v, pol) :: ds)).
    { eapply reaches_step with (o := Decide (v, pol)); [exact Hr|]. simpl. rewrite Hd.
      destruct Hres; subst; reflexivity. }
    destruct (sat_decide_push _ _ _ _ _ Hd Hres) as [w' [nm [_ [Ed [-> _]]]]].
    rewrite (f_cnf s F), (f_nv s F) in Ed.
    destruct (decide_sem cls nvars _ _ _ _ _ _ _ (f_w s F) (f_len s F) Hv Hun Ed) as [Hle [Hl1 [Hset Hsem]]].
    assert (Hna : new_assgn
              {| s_nvars := s_nvars s; s_cnf := s_cnf s; s_w := w'; s_clauses := s_clauses s;
                 s_stack := {| ss_model := nm;
                               ss_hash := fst (update_hash_and_sat_set (s_clauses s) (top_state s) nm);
                               ss_sat := snd (update_hash_and_sat_set (s_clauses s) (top_state s) nm) |}
                            :: s_stack s |} v = implied_of nm (model s) v).
    { unfold new_assgn, implied_of, sat_difference_iter, top_state. cbn [s_stack].
      destruct (s_stack s) as [|t rest] eqn:Est; [exfalso; exact (f_ne s F Est)|]. reflexivity. }
    split; [exact Hreach|]. cbn [s_stack tl top_state ss_model].
    split; [reflexivity|split; [exact Hle|split; [exact Hset|split; [exact Hna|split; [|exact Hflag]]]]].
    intros a Ha. rewrite Hna. apply Hsem. exact Ha. }
  destruct r.
  - apply Push. auto.
  - destruct (sat_decide_unsat _ _ _ _ Hd) as [w' [_ [Ed ->]]].
    rewrite (f_cnf s F), (f_nv s F) in Ed.
    split; [|split; [reflexivity|]].
    + eapply reaches_step with (o := Decide (v, pol)); [exact Hr|]. simpl. rewrite Hd. reflexivity.
    + eapply decide_unsat_sem; [exact (f_w s F)|exact Hun|exact Ed].
  - apply Push. auto.
  - pose proof (decide_no_out_of_fuel false nvars cls Hrange s0 s ds (v, pol) Hnew Hr) as Hno.
    rewrite Hd in Hno. apply Hno. reflexivity.
  - apply sat_decide_cases in Hd. destruct Hd as [[_ [_ Hx]]|[_ Hd]].
    + rewrite (f_nv s F) in Hx. simpl in Hx. lia.
    + destruct (up_decide false (s_cnf s) _ (s_w s) _ (v, pol)) as [|w' [nm|]].
      * destruct Hd; discriminate.
      * cbv zeta in Hd. destruct Hd as [_ Hd]. destruct (Nat.eqb _ _) in Hd; discriminate.
      * destruct Hd; discriminate.
Qed.

(* ---------- the invariant ---------- *)
Definition sem (m : pmodel) (d : bdd) : Prop := forall x, den d x = cnf_holds (ov m (ax x)) cls.
Definition nofalse (d : bdd) : Prop := (forall x, den d x = false) -> d = BF.
Definition sup_ok (m : pmodel) (d : bdd) : Prop :=
  forall u, In u (support d) -> pm_get m (N.to_nat u) = None.
Definition entry_ok (fl : bool) (e : N * bdd) : Prop :=
  (exists se dse, reaches false s0 se dse /\ sat_cur_hash se = fst e /\ sem (model se) (snd e)) /\
  nofalse (snd e) /\ (fl = true -> free_bdd (snd e)).
Definition cache_ok (fl : bool) (c : cache) : Prop := Forall (entry_ok fl) c.
Definition levels_set (m : pmodel) (level : nat) : Prop :=
  forall l, l < level -> pm_is_set m (nth l order 0) = true.

Lemma cache_ok_mono fl fl' c : (fl' = true -> fl = true) -> cache_ok fl c -> cache_ok fl' c.
Proof.
  intros Hi H. unfold cache_ok in *. rewrite Forall_forall in *. intros e He.
  destruct (H e He) as [A [B C]]. split; [exact A|split; [exact B|auto]].
Qed.

Definition concl (s : solver) (fl : bool) (ds : list lit) (res : gres) : Prop :=
  let '(r, s', c', fl') := res in
  reaches false s0 s' ds /\ s_stack s' = s_stack s /\ cache_ok fl' c' /\ (fl' = true -> fl = true) /\
  sem (model s) r /\ nofalse r /\ (fl' = true -> sup_ok (model s) r /\ free_bdd r).

Definition rec_ok (level : nat) (rec : solver -> cache -> bool -> option gres) : Prop :=
  forall s c fl ds res, reaches false s0 s ds -> cache_ok fl c -> levels_set (model s) level ->
    rec s c fl = Some res -> concl s fl ds res.

Definition bconcl (s : solver) (fl : bool) (ds : list lit) (v : nat) (pol : bool) (res : gres) : Prop :=
  let '(b, s1, c1, fl1) := res in
  reaches false s0 s1 ds /\ s_stack s1 = s_stack s /\ cache_ok fl1 c1 /\ (fl1 = true -> fl = true) /\
  (forall x, den b x = cnf_holds (ov (model s) (updn (ax x) v pol)) cls) /\ nofalse b /\
  (fl1 = true ->
     (forall u, In u (support b) -> u <> N.of_nat v /\ pm_get (model s) (N.to_nat u) = None) /\ free_bdd b).

Lemma updn_same a v b : updn a v b v = b.
Proof. unfold updn. rewrite Nat.eqb_refl. reflexivity. Qed.
Lemma updn_other a v b u : u <> v -> updn a v b u = a u.
Proof. intros H. unfold updn. destruct (Nat.eqb_spec u v); congruence. Qed.

Lemma lits_updn x v pol lits : (forall l, In l lits -> lvar l <> v) ->
  forallb (lit_holds (updn (ax x) v pol)) lits = forallb (lit_evalN x) lits.
Proof.
  intros H. induction lits as [|l t IH]; [reflexivity|]. cbn [forallb]. rewrite IH by (intros; apply H; right; assumption).
  f_equal. rewrite lit_evalN_ax. unfold lit_holds. rewrite updn_other by (apply H; left; reflexivity). reflexivity.
Qed.

Lemma lits_true_ovN m1 x lits : (forall l, In l lits -> pm_get m1 (lvar l) = Some (lpol l)) ->
  forallb (lit_evalN (ovN m1 x)) lits = true.
Proof.
  intros H. apply forallb_forall. intros l Hl. unfold lit_evalN, ovN, nvar. rewrite Nat2N.id, (H l Hl).
  apply eqb_reflx.
Qed.

Lemma sem_ovN m d x : sem m d -> den d (ovN m x) = den d x.
Proof.
  intros H. rewrite !H. apply cnf_holds_ext. intros v.
  change (ov m (ax (ovN m x)) v) with (match pm_get m v with Some b => b | None => ax (ovN m x) v end).
  change (ov m (ax x) v) with (match pm_get m v with Some b => b | None => ax x v end).
  destruct (pm_get m v) eqn:E; [reflexivity|]. rewrite ax_ovN. apply ov_unset. exact E.
Qed.

Lemma branch_ok level rec : rec_ok (S level) rec ->
  forall s c fl ds v pol res, reaches false s0 s ds -> cache_ok fl c -> levels_set (model s) level ->
    v = nth level order 0 -> v < nvars -> pm_get (model s) v = None ->
    branch_g rec s c fl v pol = Some res -> bconcl s fl ds v pol res.
Proof.
  intros Hrec s c fl ds v pol res Hr Hc Hlev Ev Hv Hun Hb. unfold branch_g in Hb.
  destruct (sat_decide false s (v, pol)) as [s1 r] eqn:Ed.
  pose proof (decide_step s ds v pol s1 r Hr Hv Hun Ed) as Hstep.
  destruct r; try discriminate.
  - (* SAT *)
    destruct Hstep as [Hr1 [Htl [Hle [Hset [Hna [Hsem Hflag]]]]]]. inversion Hb; subst res; clear Hb.
    pose proof (proj1 Hflag eq_refl) as Hsat.
    apply (sat_flag_iff _ _ _ _ _ _ Hnew Hr1) in Hsat.
    assert (Hprops : forall l, In l (new_assgn s1 v) ->
              pm_get (model s1) (lvar l) = Some (lpol l) /\ pm_get (model s) (lvar l) = None /\ lvar l <> v).
    { intros l Hl. rewrite Hna in Hl. eapply implied_props; eauto. }
    unfold bconcl. split; [apply reach_pop with (d := (v, pol)); exact Hr1|].
    split; [exact Htl|split; [exact Hc|split; [auto|]]]. split; [|split].
    + intros x. rewrite conjoin_implied_sem. cbn [den]. rewrite andb_true_r.
      rewrite (Hsem (updn (ax x) v pol) (updn_same _ _ _)).
      rewrite (all_sat_holds cls (model s1) _ Hsat (extends_ov _ _)), andb_true_r.
      symmetry. apply lits_updn. intros l Hl. apply Hprops. exact Hl.
    + intros H. exfalso. specialize (H (ovN (model s1) (fun _ => false))).
      rewrite conjoin_implied_sem in H. cbn [den] in H. rewrite andb_true_r in H.
      rewrite lits_true_ovN in H; [discriminate|]. intros l Hl. apply Hprops. exact Hl.
    + intros _. split.
      * intros u Hu. apply support_conjoin_implied in Hu. destruct Hu as [Hu|[]].
        apply in_map_iff in Hu. destruct Hu as [l [<- Hl]]. destruct (Hprops l Hl) as [_ [G2 G3]].
        unfold nvar. rewrite Nat2N.id. split; [|exact G2]. intros Heq. apply Nat2N.inj in Heq. contradiction.
      * apply free_conjoin_implied; [exact I|rewrite Hna; apply nodup_implied|intros l _ []].
  - (* UNSAT *)
    destruct Hstep as [Hr1 [Hst Hsem]]. inversion Hb; subst res; clear Hb.
    unfold bconcl. split; [exact Hr1|split; [exact Hst|split; [exact Hc|split; [auto|]]]]. split; [|split].
    + intros x. cbn [den]. symmetry. apply Hsem. apply updn_same.
    + intros _. reflexivity.
    + intros _. split; [intros u []|exact I].
  - (* Unknown *)
    destruct Hstep as [Hr1 [Htl [Hle [Hset [Hna [Hsem _]]]]]].
    destruct (rec s1 c fl) as [[[[sub s2] c2] fl2]|] eqn:Erec; [|discriminate].
    inversion Hb; subst res; clear Hb.
    assert (Hlev1 : levels_set (model s1) (S level)).
    { intros l Hl. destruct (Nat.eq_dec l level) as [->|Hne].
      - rewrite <- Ev. unfold pm_is_set. rewrite Hset. reflexivity.
      - eapply pm_is_set_le; [exact Hle|]. apply Hlev. lia. }
    pose proof (Hrec s1 c fl _ _ Hr1 Hc Hlev1 Erec) as Hsub. unfold concl in Hsub.
    destruct Hsub as [Hr2 [Hst2 [Hc2 [Hfl2 [Hsemsub [Hnf Hfree]]]]]].
    assert (Ena : new_assgn s2 v = new_assgn s1 v).
    { unfold new_assgn, sat_difference_iter. rewrite Hst2. reflexivity. }
    assert (Hprops : forall l, In l (new_assgn s1 v) ->
              pm_get (model s1) (lvar l) = Some (lpol l) /\ pm_get (model s) (lvar l) = None /\ lvar l <> v).
    { intros l Hl. rewrite Hna in Hl. eapply implied_props; eauto. }
    unfold bconcl. split; [apply reach_pop with (d := (v, pol)); exact Hr2|].
    split; [cbn [sat_pop s_stack]; rewrite Hst2; exact Htl|split; [exact Hc2|split; [exact Hfl2|]]].
    rewrite Ena. split; [|split].
    + intros x. rewrite conjoin_implied_sem, (Hsem (updn (ax x) v pol) (updn_same _ _ _)).
      rewrite (lits_updn x v pol) by (intros l Hl; apply Hprops; exact Hl). f_equal.
      rewrite Hsemsub. apply cnf_holds_ext. intros u. unfold ov.
      destruct (pm_get (model s1) u) as [b|] eqn:E; [reflexivity|].
      symmetry. apply updn_other. intros ->. congruence.
    + intros H. assert (Hs : sub = BF).
      { apply Hnf. intros x. specialize (H (ovN (model s1) x)). rewrite conjoin_implied_sem in H.
        rewrite lits_true_ovN in H by (intros l Hl; apply Hprops; exact Hl).
        cbn [andb] in H. rewrite (sem_ovN _ _ _ Hsemsub) in H. exact H. }
      rewrite Hs. reflexivity.
    + intros Hf2. destruct (Hfree Hf2) as [Hsup Hfr]. split.
      * intros u Hu. apply support_conjoin_implied in Hu. destruct Hu as [Hu|Hu].
        -- apply in_map_iff in Hu. destruct Hu as [l [<- Hl]]. destruct (Hprops l Hl) as [_ [G2 G3]].
           unfold nvar. rewrite Nat2N.id. split; [|exact G2]. intros Heq. apply Nat2N.inj in Heq. contradiction.
        -- specialize (Hsup u Hu). split.
           ++ intros ->. rewrite Nat2N.id in Hsup. congruence.
           ++ destruct (pm_get (model s) (N.to_nat u)) as [b|] eqn:E; [|reflexivity].
              rewrite (Hle _ _ E) in Hsup. discriminate.
      * apply free_conjoin_implied; [exact Hfr|rewrite Hna; apply nodup_implied|].
        intros l Hl Hin. specialize (Hsup _ Hin). unfold nvar in Hsup. rewrite Nat2N.id in Hsup.
        destruct (Hprops l Hl) as [G1 _]. congruence.
Qed.

Lemma ax_upd_updn x v b u : ax (upd x (N.of_nat v) b) u = updn (ax x) v b u.
Proof.
  unfold ax, upd, updn. destruct (Nat.eqb_spec u v) as [->|Hne]; [rewrite N.eqb_refl; reflexivity|].
  destruct (N.eqb_spec (N.of_nat u) (N.of_nat v)) as [E|E]; [apply Nat2N.inj in E; contradiction|reflexivity].
Qed.

Lemma updn_idem_ext a v b u : updn (updn a v b) v b u = updn a v b u.
Proof. unfold updn. destruct (Nat.eqb u v); reflexivity. Qed.

Lemma updn_self a v u : updn a v (a v) u = a u.
Proof. unfold updn. destruct (Nat.eqb_spec u v) as [->|]; reflexivity. Qed.

Lemma topdown_hg_ok : forall fuel level,
  rec_ok level (fun s c fl => topdown_hg order use_cache fuel s level c fl).
Proof.
  induction fuel as [|f IH]; intros level s c fl ds res Hr Hc Hlev H; [discriminate|].
  cbn [topdown_hg] in H. pose proof (reach_facts s ds Hr) as F.
  destruct (Nat.leb (s_nvars s) level || sat_is_sat s) eqn:Ebase.
  - inversion H; subst res. unfold concl.
    split; [exact Hr|split; [reflexivity|split; [exact Hc|split; [auto|]]]]. split; [|split].
    + intros x. cbn [den]. symmetry. apply orb_true_iff in Ebase. destruct Ebase as [E|E].
      * apply Nat.leb_le in E. rewrite (f_nv s F) in E.
        eapply full_fixpoint_holds; [exact Hrange|exact (f_fix s F)| |apply extends_ov].
        intros v Hv. destruct (Hcover v Hv) as [l [Hl <-]]. apply Hlev. lia.
      * apply (sat_flag_iff _ _ _ _ _ _ Hnew Hr) in E. eapply all_sat_holds; [exact E|apply extends_ov].
    + intros Hx. specialize (Hx (fun _ => false)). discriminate.
    + intros _. split; [intros u []|exact I].
  - apply orb_false_iff in Ebase. destruct Ebase as [Elev _]. apply Nat.leb_gt in Elev.
    rewrite (f_nv s F) in Elev.
    set (v := var_at_level order level) in *.
    destruct (sat_is_set s v) eqn:Eset.
    + apply (IH (S level) s c fl ds res Hr Hc); [|exact H].
      intros l Hl. destruct (Nat.eq_dec l level) as [->|Hne]; [exact Eset|apply Hlev; lia].
    + assert (Hun : pm_get (model s) v = None) by (apply pm_is_set_get; exact Eset).
      assert (Hv : v < nvars) by (apply Hinrange; exact Elev).
      destruct (if use_cache then cache_get c (sat_cur_hash s) else None) as [d|] eqn:Eget.
      * (* cache hit *)
        destruct use_cache eqn:Euc; [|discriminate].
        inversion H; subst res. apply cache_get_in in Eget.
        pose proof Hc as Hc'. unfold cache_ok in Hc'. rewrite Forall_forall in Hc'.
        destruct (Hc' _ Eget) as [[se [dse [Hrse [Hh Hse]]]] [Hnf Hfr]]. cbn [fst snd] in *.
        assert (Hsemd : sem (model s) d).
        { intros x. rewrite Hse. apply residual_sem.
          destruct (flag_inv_reach _ _ _ _ _ _ Hnew reach_s0) as [_ Hcl0]. rewrite <- Hcl0.
          eapply hash_residual; eauto. }
        unfold concl. split; [exact Hr|split; [reflexivity|split; [|split]]].
        -- apply cache_ok_mono with (fl := fl); [intros E; apply andb_true_iff in E; tauto|exact Hc].
        -- intros E; apply andb_true_iff in E; tauto.
        -- split; [exact Hsemd|split; [exact Hnf|]]. intros E. apply andb_true_iff in E. destruct E as [E1 E2].
           split; [|apply Hfr; exact E1]. intros u Hu. unfold fresh_hit in E2. rewrite forallb_forall in E2.
           specialize (E2 u Hu). apply negb_true_iff in E2. apply pm_is_set_get. exact E2.
      * (* miss: decide high, decide low, build the node, insert *)
        destruct (branch_g (fun s' c' fl' => topdown_hg order use_cache f s' (S level) c' fl') s c fl v true)
          as [[[[hi s1] c1] fl1]|] eqn:Eb1; [|discriminate].
        destruct (branch_g (fun s' c' fl' => topdown_hg order use_cache f s' (S level) c' fl') s1 c1 fl1 v false)
          as [[[[lo s2] c2] fl2]|] eqn:Eb2; [|discriminate].
        inversion H; subst res. clear H.
        pose proof (branch_ok level _ (IH (S level)) s c fl ds v true _ Hr Hc Hlev eq_refl Hv Hun Eb1) as B1.
        unfold bconcl in B1. destruct B1 as [Hr1 [Hst1 [Hc1 [Hfl1 [Hden1 [Hnf1 Hfree1]]]]]].
        pose proof (top_state_stack _ _ Hst1) as Et1.
        assert (Hlev1 : levels_set (model s1) level) by (rewrite Et1; exact Hlev).
        assert (Hun1 : pm_get (model s1) v = None) by (rewrite Et1; exact Hun).
        pose proof (branch_ok level _ (IH (S level)) s1 c1 fl1 ds v false _ Hr1 Hc1 Hlev1 eq_refl Hv Hun1 Eb2) as B2.
        unfold bconcl in B2. rewrite Et1 in B2. destruct B2 as [Hr2 [Hst2 [Hc2 [Hfl2 [Hden2 [Hnf2 Hfree2]]]]]].
        set (r := decision_node (N.of_nat v) lo hi) in *.
        assert (Hsemr : sem (model s) r).
        { intros x. unfold r. rewrite decision_node_sem. destruct (x (N.of_nat v)) eqn:Ex.
          - rewrite Hden1. apply cnf_holds_ext. intros u. unfold ov. destruct (pm_get (model s) u); [reflexivity|].
            unfold updn. destruct (Nat.eqb_spec u v) as [->|]; [|reflexivity]. unfold ax. rewrite Ex. reflexivity.
          - rewrite Hden2. apply cnf_holds_ext. intros u. unfold ov. destruct (pm_get (model s) u); [reflexivity|].
            unfold updn. destruct (Nat.eqb_spec u v) as [->|]; [|reflexivity]. unfold ax. rewrite Ex. reflexivity. }
        assert (Hnfr : nofalse r).
        { intros Hall. unfold r. apply decision_node_false_iff. split.
          - apply Hnf2. intros x. specialize (Hall (upd x (N.of_nat v) false)). unfold r in Hall.
            rewrite decision_node_sem, upd_same, Hden2 in Hall. rewrite Hden2. etransitivity; [|exact Hall].
            apply cnf_holds_ext. intros u. unfold ov. destruct (pm_get (model s) u); [reflexivity|].
            unfold updn at 1 2. destruct (Nat.eqb_spec u v); [reflexivity|]. rewrite ax_upd_updn. symmetry. apply updn_other. assumption.
          - apply Hnf1. intros x. specialize (Hall (upd x (N.of_nat v) true)). unfold r in Hall.
            rewrite decision_node_sem, upd_same, Hden1 in Hall. rewrite Hden1. etransitivity; [|exact Hall].
            apply cnf_holds_ext. intros u. unfold ov. destruct (pm_get (model s) u); [reflexivity|].
            unfold updn at 1 2. destruct (Nat.eqb_spec u v); [reflexivity|]. rewrite ax_upd_updn. symmetry. apply updn_other. assumption. }
        assert (Hfreer : fl2 = true -> sup_ok (model s) r /\ free_bdd r).
        { intros E2. pose proof (Hfl2 E2) as E1. destruct (Hfree1 E1) as [Hs1 Hf1]. destruct (Hfree2 E2) as [Hs2 Hf2].
          split.
          - intros u Hu. apply support_decision_node in Hu. destruct Hu as [->|[Hu|Hu]].
            + rewrite Nat2N.id. exact Hun.
            + apply Hs2. exact Hu.
            + apply Hs1. exact Hu.
          - apply free_decision_node; auto.
            + intros Hin. apply Hs2 in Hin. destruct Hin as [Hne _]. apply Hne. reflexivity.
            + intros Hin. apply Hs1 in Hin. destruct Hin as [Hne _]. apply Hne. reflexivity. }
        unfold concl. split; [exact Hr2|split; [congruence|split; [|split; [auto|tauto]]]].
        destruct use_cache; [|exact Hc2]. unfold cache_insert. constructor; [|exact Hc2].
        split; [exists s, ds; cbn [fst snd]; auto|split; [exact Hnfr|]]. cbn [snd]. intros E. apply Hfreer. exact E.
Qed.

(* ---------- the recursion never runs out of fuel ---------- *)
Lemma branch_total level rec : rec_ok (S level) rec ->
  (forall s c fl ds, reaches false s0 s ds -> cache_ok fl c -> levels_set (model s) (S level) ->
     rec s c fl <> None) ->
  forall s c fl ds v pol, reaches false s0 s ds -> cache_ok fl c -> levels_set (model s) level ->
    v = nth level order 0 -> v < nvars -> pm_get (model s) v = None ->
    branch_g rec s c fl v pol <> None.
Proof.
  intros Hrec Htot s c fl ds v pol Hr Hc Hlev Ev Hv Hun. unfold branch_g.
  destruct (sat_decide false s (v, pol)) as [s1 r] eqn:Ed.
  pose proof (decide_step s ds v pol s1 r Hr Hv Hun Ed) as Hstep.
  destruct r; try discriminate; try contradiction.
  destruct Hstep as [Hr1 [Htl [Hle [Hset _]]]].
  assert (Hlev1 : levels_set (model s1) (S level)).
  { intros l Hl. destruct (Nat.eq_dec l level) as [->|Hne].
    - rewrite <- Ev. unfold pm_is_set. rewrite Hset. reflexivity.
    - eapply pm_is_set_le; [exact Hle|]. apply Hlev. lia. }
  pose proof (Htot s1 c fl _ Hr1 Hc Hlev1) as Hne.
  destruct (rec s1 c fl) as [[[[sub s2] c2] fl2]|]; [discriminate|congruence].
Qed.

Lemma topdown_hg_total : forall fuel level s c fl ds,
  reaches false s0 s ds -> cache_ok fl c -> levels_set (model s) level ->
  level <= nvars -> nvars < level + fuel ->
  topdown_hg order use_cache fuel s level c fl <> None.
Proof.
  induction fuel as [|f IH]; intros level s c fl ds Hr Hc Hlev Hle Hfuel; [lia|].
  cbn [topdown_hg]. pose proof (reach_facts s ds Hr) as F.
  destruct (Nat.leb (s_nvars s) level || sat_is_sat s) eqn:Ebase; [discriminate|].
  apply orb_false_iff in Ebase. destruct Ebase as [Elev _]. apply Nat.leb_gt in Elev.
  rewrite (f_nv s F) in Elev.
  set (v := var_at_level order level) in *.
  destruct (sat_is_set s v) eqn:Eset.
  - apply (IH (S level) s c fl ds Hr Hc); [|lia|lia].
    intros l Hl. destruct (Nat.eq_dec l level) as [->|Hne]; [exact Eset|apply Hlev; lia].
  - assert (Hun : pm_get (model s) v = None) by (apply pm_is_set_get; exact Eset).
    assert (Hv : v < nvars) by (apply Hinrange; exact Elev).
    destruct (if use_cache then cache_get c (sat_cur_hash s) else None); [discriminate|].
    assert (Htot : forall s c fl ds, reaches false s0 s ds -> cache_ok fl c -> levels_set (model s) (S level) ->
               topdown_hg order use_cache f s (S level) c fl <> None).
    { intros s' c' fl' ds' A B C. apply (IH (S level) s' c' fl' ds' A B C); lia. }
    pose proof (branch_total level _ (topdown_hg_ok f (S level)) Htot s c fl ds v true Hr Hc Hlev eq_refl Hv Hun) as T1.
    destruct (branch_g _ s c fl v true) as [[[[hi s1] c1] fl1]|] eqn:Eb1; [|congruence].
    pose proof (branch_ok level _ (topdown_hg_ok f (S level)) s c fl ds v true _ Hr Hc Hlev eq_refl Hv Hun Eb1) as B1.
    unfold bconcl in B1. destruct B1 as [Hr1 [Hst1 [Hc1 _]]].
    pose proof (top_state_stack _ _ Hst1) as Et1.
    assert (Hlev1 : levels_set (model s1) level) by (rewrite Et1; exact Hlev).
    assert (Hun1 : pm_get (model s1) v = None) by (rewrite Et1; exact Hun).
    pose proof (branch_total level _ (topdown_hg_ok f (S level)) Htot s1 c1 fl1 ds v false Hr1 Hc1 Hlev1 eq_refl Hv Hun1) as T2.
    destruct (branch_g _ s1 c1 fl1 v false) as [[[[lo s2] c2] fl2]|]; [discriminate|congruence].
Qed.

(* ================= freeness with the cache: results test residual variables only ================= *)
Hypothesis Hinj : forall l l', l < nvars -> l' < nvars -> nth l order 0 = nth l' order 0 -> l = l'.

Lemma fix_inv_reach s ds : reaches false s0 s ds -> fix_inv nvars cls s ds.
Proof.
  destruct (sat_new_fix_inv nvars cls Hrange Hadj s0 Hnew) as [H0 Hne].
  revert s ds. apply run_track_ind.
  - exact H0.
  - intros s ds a s' r [Hc [Hnv [HS [Hf Hlen]]]] Hd Hres.
    destruct (sat_decide_push _ _ _ _ _ Hd Hres) as [w' [nm [Hl [Ed [-> _]]]]].
    destruct (frames_top _ _ _ _ Hf) as [t [rest [Est [HVt [Hut Hlt]]]]].
    assert (Etop : top_state s = t) by (unfold top_state; rewrite Est; reflexivity).
    rewrite Hc, Hnv, Etop in Ed. rewrite Hnv in Hl.
    destruct (decide_inv nvars cls _ _ _ _ _ _ Hrange Hadj HS Hlt Hl Ed) as [HS' [Hlow Hcur]].
    destruct (Hcur nm eq_refl HVt) as [HV' [Hlen' [Hle' _]]].
    split; [exact Hc|split; [exact Hnv|split; [exact HS'|split; [|simpl; lia]]]]. simpl. rewrite Est.
    assert (Hf' : frames_ok nvars cls w' (t :: rest)).
    { rewrite <- Est. apply (frames_transfer nvars cls (s_w s) w' _ Hf (ss_model t)); [rewrite Est; apply pm_le_refl|exact Hlow]. }
    inversion Hf' as [st0 bot Hg|st st2 rest' Hg Hle2 Hf2]; subst.
    + apply FO_push; [|exact Hle'|exact Hf']. split; [exact HV'|split; [|exact Hlen']].
      intros l Hl'. eapply lit_true_le; [exact Hle'|apply Hut; exact Hl'].
    + apply FO_push; [|exact Hle'|exact Hf']. split; [exact HV'|split; [|exact Hlen']].
      intros l Hl'. eapply lit_true_le; [exact Hle'|apply Hut; exact Hl'].
  - intros s ds a s' [Hc [Hnv [HS [Hf Hlen]]]] Hd.
    destruct (sat_decide_unsat _ _ _ _ Hd) as [w' [Hl [Ed ->]]].
    destruct (frames_top _ _ _ _ Hf) as [t [rest [Est [HVt [Hut Hlt]]]]].
    assert (Etop : top_state s = t) by (unfold top_state; rewrite Est; reflexivity).
    rewrite Hc, Hnv, Etop in Ed. rewrite Hnv in Hl.
    destruct (decide_inv nvars cls _ _ _ _ _ _ Hrange Hadj HS Hlt Hl Ed) as [HS' [Hlow _]].
    split; [exact Hc|split; [exact Hnv|split; [exact HS'|split; [|exact Hlen]]]]. simpl.
    apply (frames_transfer nvars cls (s_w s) w' _ Hf (ss_model t)); [rewrite Est; apply pm_le_refl|exact Hlow].
  - intros s d ds [Hc [Hnv [HS [Hf Hlen]]]].
    split; [exact Hc|split; [exact Hnv|split; [exact HS|]]]. simpl.
    inversion Hf as [st0 bot Hg Est|st st2 rest Hg Hle Hf2 Est]; rewrite <- Est in Hlen; simpl in Hlen |- *.
    + lia.
    + split; [exact Hf2|lia].
Qed.

Lemma no_empty_clause : ~ In [] cls.
Proof. exact (proj2 (sat_new_fix_inv nvars cls Hrange Hadj s0 Hnew)). Qed.

(* deciding a variable outside the residual formula propagates nothing *)
Lemma quiet_up s ds y pol w' r :
  reaches false s0 s ds -> y < nvars -> pm_get (model s) y = None -> inresb cls (model s) y = false ->
  up_decide false cls (up_fuel nvars cls) (s_w s) (model s) (y, pol) = URes w' r ->
  r = Some (pm_set (model s) y pol).
Proof.
  intros Hr Hy Hun Hq H. pose proof (reach_facts s ds Hr) as F.
  destruct (fix_inv_reach s ds Hr) as [_ [_ [HS [Hf _]]]].
  destruct (frames_top _ _ _ _ Hf) as [t [rest [Est [_ [Hut _]]]]].
  assert (Etop : top_state s = t) by (unfold top_state; rewrite Est; reflexivity).
  rewrite <- Etop in Hut.
  unfold up_fuel in H. rewrite up_decide_S in H. cbn [lvar lpol fst snd] in H. rewrite Hun in H.
  set (m' := pm_set (model s) y pol) in *.
  assert (Hle : pm_le (model s) m') by (apply pm_le_set; exact Hun).
  eapply (quiet_loop cls m' (y, pol)); [| | | |exact H].
  - unfold pm_is_set, m'. cbn [lvar fst]. rewrite pm_get_set_same by (rewrite (f_len s F); exact Hy). reflexivity.
  - cbn [lvar fst]. rewrite (S_len_pos _ _ _ HS). exact Hy.
  - cbn [lvar fst]. rewrite (S_len_neg _ _ _ HS). exact Hy.
  - apply Forall_forall. intros ci Hci.
    assert (Hlt : ci < length cls).
    { pose proof (wl_get_ok _ _ (lneg (y, pol)) (f_w s F)) as Hall. eapply Forall_forall in Hall; eauto. }
    assert (Hc : In (nth ci cls []) cls) by (apply nth_In_clause; exact Hlt).
    destruct (Nat.le_gt_cases 2 (length (nth ci cls []))) as [Hlen2|Hshort].
    + destruct (S_two _ _ _ HS ci Hlt Hlen2) as [x1 [x2 [_ [Hx1 [Hx2 Hiff]]]]].
      assert (Hin : In (lneg (y, pol)) (nth ci cls [])).
      { apply Hiff in Hci. destruct Hci as [->| ->]; assumption. }
      set (c := nth ci cls []) in *.
      destruct (tautological c) eqn:Et; [apply taut_two; exact Et|].
      destruct (clause_sat (model s) c) eqn:Es; [left; eapply clause_sat_le; eauto|].
      exfalso. assert (Hx : inresb cls (model s) y = true).
      { apply inresb_spec. exists c. split; [exact Hc|split; [exact Es|split; [exact Et|]]].
        exists (lneg (y, pol)). split; [exact Hin|reflexivity]. }
      congruence.
    + destruct (nth ci cls []) as [|l0 [|l1 tl0]] eqn:Ec; [| |simpl in Hshort; lia].
      * exfalso. apply no_empty_clause. exact Hc.
      * left. apply existsb_exists. exists l0. split; [left; reflexivity|].
        eapply lit_true_le; [exact Hle|]. apply Hut. exact Hc.
Qed.

(* the weighted, normalised clauses and the stored ones *)
Lemma sat_clause_origin wc : In wc (sat_clauses_of cls) ->
  exists c0, In c0 cls /\ map fst wc = norm_clause c0 /\ tautological c0 = false.
Proof.
  unfold sat_clauses_of. intros H.
  assert (HL : In (map fst wc) (filter (fun c => negb (tautological c)) (map norm_clause cls))).
  { rewrite <- (weigh_fst _ 2%N). apply in_map. exact H. }
  apply filter_In in HL. destruct HL as [Hin Ht]. apply in_map_iff in Hin. destruct Hin as [c0 [Hn Hc]].
  exists c0. split; [exact Hc|split; [symmetry; exact Hn|]].
  rewrite <- Hn, tautological_norm in Ht. apply negb_true_iff in Ht. exact Ht.
Qed.

Lemma sat_clause_of c0 : In c0 cls -> tautological c0 = false ->
  exists wc, In wc (sat_clauses_of cls) /\ map fst wc = norm_clause c0.
Proof.
  intros Hc Ht. unfold sat_clauses_of.
  assert (HL : In (norm_clause c0) (filter (fun c => negb (tautological c)) (map norm_clause cls))).
  { apply filter_In. split; [apply in_map; exact Hc|]. rewrite tautological_norm, Ht. reflexivity. }
  rewrite <- (weigh_fst _ 2%N) in HL. apply in_map_iff in HL. destruct HL as [wc [Hfst Hwc]]. exists wc. auto.
Qed.

Definition resv (R : list (option clause)) (v : nat) : Prop :=
  exists c, In (Some c) R /\ exists l, In l c /\ lvar l = v.

Lemma inres_resv m v : inresb cls m v = true -> pm_get m v = None ->
  resv (residual (sat_clauses_of cls) m) v.
Proof.
  intros H Hun. apply inresb_spec in H. destruct H as [c0 [Hc [Hs [Ht [l [Hl Hv]]]]]].
  destruct (sat_clause_of c0 Hc Ht) as [wc [Hwc Hfst]].
  exists (remaining m (norm_clause c0)). split.
  - unfold residual. apply in_map_iff. exists wc. split; [|exact Hwc].
    rewrite wc_sat_clause_sat, Hfst, clause_sat_norm, Hs. reflexivity.
  - exists l. split; [|exact Hv]. apply filter_In. split; [apply in_norm_clause; exact Hl|].
    unfold lit_unset, pm_is_set. rewrite Hv, Hun. reflexivity.
Qed.

Lemma resv_inres m v : resv (residual (sat_clauses_of cls) m) v ->
  inresb cls m v = true /\ pm_get m v = None.
Proof.
  intros [c [Hc [l [Hl Hv]]]]. unfold residual in Hc. apply in_map_iff in Hc. destruct Hc as [wc [E Hwc]].
  destruct (wc_sat m wc) eqn:Es; [discriminate|]. inversion E; subst c. clear E.
  destruct (sat_clause_origin wc Hwc) as [c0 [Hc0 [Hfst Ht]]].
  apply remaining_in in Hl. destruct Hl as [Hl Hu]. rewrite Hfst in Hl.
  rewrite wc_sat_clause_sat, Hfst, clause_sat_norm in Es. split.
  - apply inresb_spec. exists c0. split; [exact Hc0|split; [exact Es|split; [exact Ht|]]]. exists l. split; [|exact Hv].
    exact (proj1 (in_norm_clause l c0) Hl).
  - unfold lit_unset in Hu. apply negb_true_iff in Hu. rewrite Hv in Hu. apply pm_is_set_get. exact Hu.
Qed.

(* a quiet decide changes neither the removed occurrences (hash) nor the satisfied flag *)
Lemma quiet_sel m y pol : pm_get m y = None -> inresb cls m y = false ->
  sel (sat_clauses_of cls) (pm_set m y pol) = sel (sat_clauses_of cls) m.
Proof.
  intros Hun Hq. unfold sel, occs. f_equal. f_equal. apply map_ext_in. intros wc Hwc.
  assert (Hle : pm_le m (pm_set m y pol)) by (apply pm_le_set; exact Hun).
  destruct (wc_sat m wc) eqn:Es.
  - assert (Es' : wc_sat (pm_set m y pol) wc = true).
    { rewrite wc_sat_clause_sat in *. eapply clause_sat_le; eauto. }
    apply map_ext_in. intros x _. unfold removed. rewrite Es, Es'. reflexivity.
  - assert (Hno : forall z, In z wc -> lvar (fst z) <> y).
    { intros z Hz Hzy. destruct (sat_clause_origin wc Hwc) as [c0 [Hc0 [Hfst Ht]]].
      assert (Hx : inresb cls m y = true).
      { apply inresb_spec. exists c0. split; [exact Hc0|split; [|split; [exact Ht|]]].
        - rewrite <- clause_sat_norm, <- Hfst, <- wc_sat_clause_sat. exact Es.
        - exists (fst z). split; [|exact Hzy]. apply (proj1 (in_norm_clause _ _)). rewrite <- Hfst. apply in_map. exact Hz. }
      congruence. }
    assert (Hget : forall z, In z wc -> pm_get (pm_set m y pol) (lvar (fst z)) = pm_get m (lvar (fst z))).
    { intros z Hz. apply pm_get_set_other. intros E. apply (Hno z Hz). symmetry. exact E. }
    assert (Es' : wc_sat (pm_set m y pol) wc = false) by (rewrite (wc_sat_ext _ _ _ Hget); exact Es).
    apply map_ext_in. intros x Hx. unfold removed. rewrite Es, Es'. cbn [orb]. f_equal.
    unfold lit_false. rewrite (Hget x Hx). reflexivity.
Qed.

Lemma is_sat_stack s s' : s_stack s' = s_stack s -> s_clauses s' = s_clauses s -> sat_is_sat s' = sat_is_sat s.
Proof. unfold sat_is_sat, top_state. intros -> ->. reflexivity. Qed.

Lemma quiet_decide s ds y pol s1 r :
  reaches false s0 s ds -> y < nvars -> pm_get (model s) y = None -> inresb cls (model s) y = false ->
  sat_is_sat s = false -> sat_decide false s (y, pol) = (s1, r) ->
  r = DUnknown /\ model s1 = pm_set (model s) y pol /\ sat_cur_hash s1 = sat_cur_hash s /\
  sat_is_sat s1 = false /\ s_nvars s1 = s_nvars s.
Proof.
  intros Hr Hy Hun Hq Hns Hd. pose proof (reach_facts s ds Hr) as F.
  pose proof (decide_step s ds y pol s1 r Hr Hy Hun Hd) as Hstep.
  assert (Push : r = DSAT \/ r = DUnknown ->
            r = DUnknown /\ model s1 = pm_set (model s) y pol /\ sat_cur_hash s1 = sat_cur_hash s /\
            sat_is_sat s1 = false /\ s_nvars s1 = s_nvars s).
  { intros Hres. destruct (sat_decide_push _ _ _ _ _ Hd Hres) as [w' [nm [_ [Ed [Es1 _]]]]].
    rewrite (f_cnf s F), (f_nv s F) in Ed.
    pose proof (quiet_up s ds y pol w' _ Hr Hy Hun Hq Ed) as Enm. injection Enm as Enm.
    assert (Hm1 : model s1 = pm_set (model s) y pol) by (rewrite Es1; cbn [top_state s_stack ss_model]; exact Enm).
    assert (Hr1 : reaches false s0 s1 ((y, pol) :: ds)).
    { eapply reaches_step with (o := Decide (y, pol)); [exact Hr|]. simpl. rewrite Hd. destruct Hres; subst; reflexivity. }
    assert (Hsat1 : sat_is_sat s1 = false).
    { destruct (sat_is_sat s1) eqn:E1; [exfalso|reflexivity].
      apply (sat_flag_iff _ _ _ _ _ _ Hnew Hr1) in E1.
      assert (Hall : all_nontaut_sat cls (model s)).
      { intros c Hc Ht. destruct (clause_sat (model s) c) eqn:Es; [reflexivity|exfalso].
        specialize (E1 c Hc Ht). rewrite Hm1 in E1. apply existsb_exists in E1. destruct E1 as [l [Hl Hlt]].
        destruct (Nat.eq_dec (lvar l) y) as [Ey|Ney].
        - assert (Hx : inresb cls (model s) y = true).
          { apply inresb_spec. exists c. split; [exact Hc|split; [exact Es|split; [exact Ht|]]]. exists l. auto. }
          congruence.
        - unfold lit_true in Hlt. rewrite pm_get_set_other in Hlt by congruence.
          assert (Hs : clause_sat (model s) c = true) by (apply existsb_exists; exists l; split; [exact Hl|exact Hlt]).
          congruence. }
      apply (sat_flag_iff _ _ _ _ _ _ Hnew Hr) in Hall. congruence. }
    split; [|split; [exact Hm1|split; [|split; [exact Hsat1|rewrite Es1; reflexivity]]]].
    - pose proof (decide_sat_iff_is_sat _ _ _ _ _ Hd Hres) as Hiff.
      destruct Hres as [->| ->]; [|reflexivity]. rewrite (proj1 Hiff eq_refl) in Hsat1. discriminate.
    - destruct (flag_inv_reach _ _ _ _ _ _ Hnew reach_s0) as [_ Hcl0].
      apply (equal_sel_equal_hash false cls nvars s0 s1 _ s _ Hnew Hr1 Hr). rewrite Hcl0, Hm1.
      apply quiet_sel; assumption. }
  destruct r; try contradiction.
  - apply Push. auto.
  - exfalso. destruct (sat_decide_unsat _ _ _ _ Hd) as [w' [_ [Ed _]]].
    rewrite (f_cnf s F), (f_nv s F) in Ed.
    pose proof (quiet_up s ds y pol w' _ Hr Hy Hun Hq Ed) as Enm. discriminate.
  - apply Push. auto.
Qed.

Lemma implied_in_res s ds v pol s1 r :
  reaches false s0 s ds -> v < nvars -> pm_get (model s) v = None ->
  sat_decide false s (v, pol) = (s1, r) -> r = DSAT \/ r = DUnknown ->
  forall l, In l (new_assgn s1 v) ->
    inresb cls (model s) (lvar l) = true /\ pm_get (model s) (lvar l) = None.
Proof.
  intros Hr Hv Hun Hd Hres l Hl. pose proof (reach_facts s ds Hr) as F.
  pose proof (decide_step s ds v pol s1 r Hr Hv Hun Hd) as Hstep.
  assert (Hs : pm_le (model s) (model s1) /\ new_assgn s1 v = implied_of (model s1) (model s) v)
    by (destruct Hres as [-> | ->]; destruct Hstep as [_ [_ [Hle [_ [Hna _]]]]]; auto).
  destruct Hs as [Hle Hna]. rewrite Hna in Hl.
  destruct (implied_props _ _ _ _ Hle Hl) as [G1 [G2 G3]]. split; [|exact G2].
  destruct (sat_decide_push _ _ _ _ _ Hd Hres) as [w' [nm [_ [Ed [Es1 _]]]]].
  rewrite (f_cnf s F), (f_nv s F) in Ed.
  assert (Hm1 : model s1 = nm) by (rewrite Es1; reflexivity).
  destruct (proj1 (up_new_in_res cls _) _ _ _ _ _ (f_w s F) Ed (lvar l) G2) as [E|E].
  - rewrite <- Hm1, G1. discriminate.
  - cbn [lvar fst] in E. contradiction.
  - exact E.
Qed.

Definition sup_res (m : pmodel) (d : bdd) : Prop :=
  forall u, In u (support d) -> inresb cls m (N.to_nat u) = true /\ pm_get m (N.to_nat u) = None.
Definition entry_res (e : N * bdd) : Prop :=
  exists se dse, reaches false s0 se dse /\ sat_cur_hash se = fst e /\ sup_res (model se) (snd e).
Definition cache_res (c : cache) : Prop := Forall entry_res c.

Lemma sup_res_transfer m1 m2 d :
  residual (sat_clauses_of cls) m1 = residual (sat_clauses_of cls) m2 -> sup_res m1 d -> sup_res m2 d.
Proof.
  intros E H u Hu. destruct (H u Hu) as [A B]. apply resv_inres. rewrite <- E. apply inres_resv; assumption.
Qed.

Lemma sup_res_anti m m1 d : pm_le m m1 -> sup_res m1 d -> sup_res m d.
Proof.
  intros Hle H u Hu. destruct (H u Hu) as [A B]. split; [eapply inresb_anti; eauto|].
  destruct (pm_get m (N.to_nat u)) eqn:E; [rewrite (Hle _ _ E) in B; discriminate|reflexivity].
Qed.

Lemma sup_res_conjoin m lits sub :
  (forall l, In l lits -> inresb cls m (lvar l) = true /\ pm_get m (lvar l) = None) ->
  sup_res m sub -> sup_res m (conjoin_implied lits sub).
Proof.
  intros Hl Hs u Hu. apply support_conjoin_implied in Hu. destruct Hu as [Hu|Hu]; [|apply Hs; exact Hu].
  apply in_map_iff in Hu. destruct Hu as [l [<- Hin]]. unfold nvar. rewrite Nat2N.id. apply Hl. exact Hin.
Qed.

Definition rconcl (s : solver) (fl : bool) (res : gres) : Prop :=
  let '(r, s', c', fl') := res in fl' = fl /\ cache_res c' /\ sup_res (model s) r.
Definition rec_res (level : nat) (rec : solver -> cache -> bool -> option gres) : Prop :=
  forall s c fl ds res, reaches false s0 s ds -> cache_ok fl c -> cache_res c -> levels_set (model s) level ->
    rec s c fl = Some res -> rconcl s fl res.

Lemma branch_res level rec : rec_ok (S level) rec -> rec_res (S level) rec ->
  forall s c fl ds v pol res, reaches false s0 s ds -> cache_ok fl c -> cache_res c ->
    levels_set (model s) level -> v = nth level order 0 -> v < nvars -> pm_get (model s) v = None ->
    branch_g rec s c fl v pol = Some res -> rconcl s fl res.
Proof.
  intros Hrec Hres s c fl ds v pol res Hr Hc Hcr Hlev Ev Hv Hun Hb. unfold branch_g in Hb.
  destruct (sat_decide false s (v, pol)) as [s1 r] eqn:Ed.
  pose proof (decide_step s ds v pol s1 r Hr Hv Hun Ed) as Hstep.
  destruct r; try discriminate.
  - inversion Hb; subst res. unfold rconcl. split; [reflexivity|split; [exact Hcr|]].
    apply sup_res_conjoin; [apply (implied_in_res s ds v pol s1 DSAT Hr Hv Hun Ed); auto|intros u []].
  - inversion Hb; subst res. unfold rconcl. split; [reflexivity|split; [exact Hcr|intros u []]].
  - destruct Hstep as [Hr1 [Htl [Hle [Hset [Hna _]]]]].
    destruct (rec s1 c fl) as [[[[sub s2] c2] fl2]|] eqn:Erec; [|discriminate].
    inversion Hb; subst res. clear Hb.
    assert (Hlev1 : levels_set (model s1) (S level)).
    { intros l Hl. destruct (Nat.eq_dec l level) as [->|Hne].
      - rewrite <- Ev. unfold pm_is_set. rewrite Hset. reflexivity.
      - eapply pm_is_set_le; [exact Hle|]. apply Hlev. lia. }
    pose proof (Hrec s1 c fl _ _ Hr1 Hc Hlev1 Erec) as Hsub. unfold concl in Hsub. destruct Hsub as [_ [Hst2 _]].
    pose proof (Hres s1 c fl _ _ Hr1 Hc Hcr Hlev1 Erec) as Hsr. unfold rconcl in Hsr.
    destruct Hsr as [Hfl [Hcr2 Hsup]].
    assert (Ena : new_assgn s2 v = new_assgn s1 v).
    { unfold new_assgn, sat_difference_iter. rewrite Hst2. reflexivity. }
    unfold rconcl. split; [exact Hfl|split; [exact Hcr2|]]. rewrite Ena.
    apply sup_res_conjoin; [apply (implied_in_res s ds v pol s1 DUnknown Hr Hv Hun Ed); auto|].
    eapply sup_res_anti; eauto.
Qed.

Lemma quiet_arms (Huc : use_cache = true) f level s c fl ds v hi s1 c1 fl1 lo s2 c2 fl2 :
  reaches false s0 s ds -> cache_ok fl c -> levels_set (model s) level -> v = nth level order 0 ->
  v < nvars -> level < nvars -> pm_get (model s) v = None -> sat_is_sat s = false ->
  inresb cls (model s) v = false ->
  branch_g (fun s' c' fl' => topdown_hg order use_cache f s' (S level) c' fl') s c fl v true
    = Some (hi, s1, c1, fl1) ->
  branch_g (fun s' c' fl' => topdown_hg order use_cache f s' (S level) c' fl') s1 c1 fl1 v false
    = Some (lo, s2, c2, fl2) ->
  hi = lo.
Proof.
  intros Hr Hc Hlev Ev Hv Hlv Hun Hns Hq Eb1 Eb2. pose proof (reach_facts s ds Hr) as F.
  unfold branch_g in Eb1. destruct (sat_decide false s (v, true)) as [sa ra] eqn:Eda.
  destruct (quiet_decide s ds v true sa ra Hr Hv Hun Hq Hns Eda) as [-> [Hma [Hha [Hnsa Hnva]]]].
  pose proof (decide_step s ds v true sa DUnknown Hr Hv Hun Eda) as [Hra [Htla [Hlea [Hseta [Hnaa _]]]]].
  destruct (topdown_hg order use_cache f sa (S level) c fl) as [[[[sub sa2] ca] fla]|] eqn:Ereca; [|discriminate].
  inversion Eb1; subst hi s1 c1 fl1. clear Eb1.
  assert (Hlev1 : levels_set (model sa) (S level)).
  { intros l Hl. destruct (Nat.eq_dec l level) as [->|Hne].
    - rewrite <- Ev. unfold pm_is_set. rewrite Hseta. reflexivity.
    - eapply pm_is_set_le; [exact Hlea|]. apply Hlev. lia. }
  pose proof (topdown_hg_ok f (S level) sa c fl _ _ Hra Hc Hlev1 Ereca) as Ha. unfold concl in Ha.
  destruct Ha as [Hra2 [Hsta2 _]].
  assert (Ena : new_assgn sa2 v = []).
  { assert (E : new_assgn sa2 v = new_assgn sa v) by (unfold new_assgn, sat_difference_iter; rewrite Hsta2; reflexivity).
    rewrite E, Hnaa, Hma. apply implied_set_nil. exact Hun. }
  rewrite Ena, conjoin_nil.
  assert (Hrp : reaches false s0 (sat_pop sa2) ds) by (apply reach_pop with (d := (v, true)); exact Hra2).
  assert (Hstp : s_stack (sat_pop sa2) = s_stack s) by (cbn [sat_pop s_stack]; rewrite Hsta2; exact Htla).
  pose proof (top_state_stack _ _ Hstp) as Etp.
  pose proof (reach_facts _ _ Hrp) as Fp.
  assert (Hnsp : sat_is_sat (sat_pop sa2) = false).
  { rewrite (is_sat_stack s (sat_pop sa2) Hstp); [exact Hns|]. rewrite (f_cl _ Fp), (f_cl _ F). reflexivity. }
  assert (Hunp : pm_get (model (sat_pop sa2)) v = None) by (rewrite Etp; exact Hun).
  assert (Hqp : inresb cls (model (sat_pop sa2)) v = false) by (rewrite Etp; exact Hq).
  unfold branch_g in Eb2. destruct (sat_decide false (sat_pop sa2) (v, false)) as [sb rb] eqn:Edb.
  destruct (quiet_decide _ ds v false sb rb Hrp Hv Hunp Hqp Hnsp Edb) as [-> [Hmb [Hhb [Hnsb Hnvb]]]].
  pose proof (decide_step _ ds v false sb DUnknown Hrp Hv Hunp Edb) as [_ [_ [_ [_ [Hnab _]]]]].
  rewrite Huc in Ereca, Eb2.
  destruct (replay order f (S level) sa c fl sub sa2 ca fla Ereca Hnsa sb fla) as [flb' Erb].
  - rewrite Hnvb, (f_nv _ Fp), Hnva, (f_nv _ F). reflexivity.
  - exact Hnsb.
  - rewrite Hhb, Hha. unfold sat_cur_hash. rewrite Etp. reflexivity.
  - intros l Hl1 Hl2. rewrite Hnva, (f_nv _ F) in Hl2. unfold sat_is_set. rewrite Hmb, Hma, Etp.
    assert (Hne : nth l order 0 <> v).
    { intros E. rewrite Ev in E. apply Hinj in E; [lia|exact Hl2|exact Hlv]. }
    unfold pm_is_set. rewrite !pm_get_set_other by congruence. reflexivity.
  - rewrite Erb in Eb2. inversion Eb2; subst.
    rewrite Hnab, Hmb, Etp, implied_set_nil by exact Hun. rewrite conjoin_nil. reflexivity.
Qed.

Lemma topdown_res (Huc : use_cache = true) : forall fuel level,
  rec_res level (fun s c fl => topdown_hg order use_cache fuel s level c fl).
Proof.
  induction fuel as [|f IH]; intros level s c fl ds res Hr Hc Hcr Hlev H; [discriminate|].
  cbn [topdown_hg] in H. pose proof (reach_facts s ds Hr) as F.
  destruct (Nat.leb (s_nvars s) level || sat_is_sat s) eqn:Ebase.
  - inversion H; subst res. unfold rconcl. split; [reflexivity|split; [exact Hcr|intros u []]].
  - apply orb_false_iff in Ebase. destruct Ebase as [Elev Ens]. apply Nat.leb_gt in Elev.
    rewrite (f_nv s F) in Elev.
    set (v := var_at_level order level) in *.
    destruct (sat_is_set s v) eqn:Eset.
    + apply (IH (S level) s c fl ds res Hr Hc Hcr); [|exact H].
      intros l Hl. destruct (Nat.eq_dec l level) as [->|Hne]; [exact Eset|apply Hlev; lia].
    + assert (Hun : pm_get (model s) v = None) by (apply pm_is_set_get; exact Eset).
      assert (Hv : v < nvars) by (apply Hinrange; exact Elev).
      assert (Eif : (if use_cache then cache_get c (sat_cur_hash s) else None) = cache_get c (sat_cur_hash s))
        by (rewrite Huc; reflexivity).
      rewrite Eif in H. clear Eif.
      destruct (cache_get c (sat_cur_hash s)) as [d|] eqn:Eget.
      * inversion H; subst res. apply cache_get_in in Eget.
        pose proof Hcr as Hcr'. unfold cache_res in Hcr'. rewrite Forall_forall in Hcr'.
        destruct (Hcr' _ Eget) as [se [dse [Hrse [Hh Hse]]]]. cbn [fst snd] in *.
        assert (Hsup : sup_res (model s) d).
        { eapply sup_res_transfer; [|exact Hse].
          destruct (flag_inv_reach _ _ _ _ _ _ Hnew reach_s0) as [_ Hcl0]. rewrite <- Hcl0.
          eapply hash_residual; eauto. }
        assert (Hfresh : fresh_hit s d = true).
        { unfold fresh_hit. apply forallb_forall. intros u Hu. destruct (Hsup u Hu) as [_ B].
          apply negb_true_iff. apply pm_is_set_get. exact B. }
        unfold rconcl. rewrite Hfresh, andb_true_r. split; [reflexivity|split; [exact Hcr|exact Hsup]].
      * destruct (branch_g (fun s' c' fl' => topdown_hg order use_cache f s' (S level) c' fl') s c fl v true)
          as [[[[hi s1] c1] fl1]|] eqn:Eb1; [|discriminate].
        destruct (branch_g (fun s' c' fl' => topdown_hg order use_cache f s' (S level) c' fl') s1 c1 fl1 v false)
          as [[[[lo s2] c2] fl2]|] eqn:Eb2; [|discriminate].
        inversion H; subst res. clear H.
        pose proof (branch_ok level _ (topdown_hg_ok f (S level)) s c fl ds v true _ Hr Hc Hlev eq_refl Hv Hun Eb1) as B1.
        unfold bconcl in B1. destruct B1 as [Hr1 [Hst1 [Hc1 _]]].
        pose proof (branch_res level _ (topdown_hg_ok f (S level)) (IH (S level)) s c fl ds v true _
                      Hr Hc Hcr Hlev eq_refl Hv Hun Eb1) as R1.
        unfold rconcl in R1. destruct R1 as [Hfl1 [Hcr1 Hsup1]].
        pose proof (top_state_stack _ _ Hst1) as Et1.
        assert (Hlev1 : levels_set (model s1) level) by (rewrite Et1; exact Hlev).
        assert (Hun1 : pm_get (model s1) v = None) by (rewrite Et1; exact Hun).
        pose proof (branch_res level _ (topdown_hg_ok f (S level)) (IH (S level)) s1 c1 fl1 ds v false _
                      Hr1 Hc1 Hcr1 Hlev1 eq_refl Hv Hun1 Eb2) as R2.
        unfold rconcl in R2. rewrite Et1 in R2. destruct R2 as [Hfl2 [Hcr2 Hsup2]].
        assert (Hsupr : sup_res (model s) (decision_node (N.of_nat v) lo hi)).
        { destruct (inresb cls (model s) v) eqn:Eq.
          - intros u Hu. apply support_decision_node in Hu. destruct Hu as [->|[Hu|Hu]].
            + rewrite Nat2N.id. split; [exact Eq|exact Hun].
            + apply Hsup2. exact Hu.
            + apply Hsup1. exact Hu.
          - assert (E : hi = lo)
              by (eapply (quiet_arms Huc f level s c fl ds v); eauto).
            unfold decision_node. rewrite (proj2 (bdd_eqb_eq hi lo) E). exact Hsup1. }
        unfold rconcl. split; [congruence|split; [|exact Hsupr]].
        rewrite Huc. unfold cache_insert. constructor; [|exact Hcr2].
        exists s, ds. cbn [fst snd]. auto.
Qed.

(* with the cache the ghost flag is never cleared *)
Lemma cached_flag_true (Huc : use_cache = true) r s' c' fl' :
  topdown_hg order use_cache (S nvars) s0 0 [] true = Some (r, s', c', fl') -> fl' = true.
Proof.
  intros E. assert (Hc0 : cache_ok true []) by constructor.
  assert (Hl0 : levels_set (model s0) 0) by (intros l Hl; lia).
  pose proof (topdown_res Huc (S nvars) 0 s0 [] true [] _ reach_s0 Hc0 (Forall_nil _) Hl0 E) as H.
  unfold rconcl in H. tauto.
Qed.

(* ---------- the root ---------- *)
Lemma lit_true_new n l : lit_true (pm_new n) l = false.
Proof.
  unfold lit_true, pm_get, pm_new. rewrite nth_repeat_lt. destruct (Nat.ltb _ _); reflexivity.
Qed.

Lemma root_diff : sat_difference_iter s0 = pm_difference (model s0) (pm_new nvars).
Proof.
  pose proof Hnew as H. unfold sat_new in H.
  destruct (up_new false cls nvars (up_fuel nvars cls)) as [|w [state|]]; try discriminate.
  destruct (update_hash_and_sat_set _ _ state) as [h set]. inversion H; subst. reflexivity.
Qed.

Definition root_result (r : bdd) (s' : solver) : bdd := conjoin_implied (sat_difference_iter s') r.

Theorem compile_g_correct :
  exists r s' c' fl',
    topdown_hg order use_cache (S nvars) s0 0 [] true = Some (r, s', c', fl') /\
    (forall x, den (root_result r s') x = cnf_holds (ax x) cls) /\
    (root_result r s' = BF <-> forall a, cnf_holds a cls = false) /\
    (fl' = true -> free_bdd (root_result r s')) /\ (use_cache = true -> fl' = true).
Proof.
  assert (Hc0 : cache_ok true []) by constructor.
  assert (Hl0 : levels_set (model s0) 0) by (intros l Hl; lia).
  pose proof (topdown_hg_total (S nvars) 0 s0 [] true [] reach_s0 Hc0 Hl0 ltac:(lia) ltac:(lia)) as Htot.
  destruct (topdown_hg order use_cache (S nvars) s0 0 [] true) as [[[[r s'] c'] fl']|] eqn:E; [|congruence].
  exists r, s', c', fl'. split; [reflexivity|].
  pose proof (topdown_hg_ok (S nvars) 0 s0 [] true [] _ reach_s0 Hc0 Hl0 E) as H. unfold concl in H.
  destruct H as [_ [Hst [_ [_ [Hsem [Hnf Hfree]]]]]].
  unfold root_result. assert (Ed : sat_difference_iter s' = pm_difference (model s0) (pm_new nvars)).
  { unfold sat_difference_iter. rewrite Hst. apply root_diff. }
  rewrite Ed. set (lits := pm_difference (model s0) (pm_new nvars)).
  assert (Hin : forall l, In l lits <-> pm_get (model s0) (lvar l) = Some (lpol l)).
  { intros l. unfold lits. rewrite in_pm_difference, lit_true_new, lit_true_get. tauto. }
  assert (Hext : forall x, forallb (lit_evalN x) lits = true -> extends (ax x) (model s0)).
  { intros x Hx v b Hv. rewrite forallb_forall in Hx. specialize (Hx (v, b)).
    unfold lit_evalN, nvar in Hx. cbn [lvar lpol fst snd] in Hx. apply eqb_prop. apply Hx. apply Hin. exact Hv. }
  assert (Hden : forall x, den (conjoin_implied lits r) x = cnf_holds (ax x) cls).
  { intros x. rewrite conjoin_implied_sem. destruct (forallb (lit_evalN x) lits) eqn:El; cbn [andb].
    - rewrite Hsem. apply cnf_holds_ext. apply ov_of_extends. apply Hext. exact El.
    - symmetry. destruct (cnf_holds (ax x) cls) eqn:Ec; [|reflexivity]. exfalso.
      destruct (up_sound _ _ _ _ _ _ Hnew reach_s0) as [_ Hent].
      assert (He : extends (ax x) (model s0)) by (apply Hent; split; [exact Ec|intros d []]).
      assert (Ht : forallb (lit_evalN x) lits = true).
      { apply forallb_forall. intros l Hl. apply Hin in Hl. unfold lit_evalN, nvar.
        change (x (N.of_nat (lvar l))) with (ax x (lvar l)). rewrite (He _ _ Hl). apply eqb_reflx. }
      congruence. }
  split; [exact Hden|split; [|split]].
  - split.
    + intros Hbf a. rewrite <- (cnf_holds_ext (ax (fun n => a (N.to_nat n))) a cls).
      * rewrite <- Hden, Hbf. reflexivity.
      * intros v. unfold ax. rewrite Nat2N.id. reflexivity.
    + intros Hun. apply conjoin_implied_false_iff. apply Hnf. intros x. rewrite Hsem. apply Hun.
  - intros Hfl. destruct (Hfree Hfl) as [Hsup Hfr].
    apply free_conjoin_implied; [exact Hfr|apply nodup_nvar, nodup_pm_difference|].
    intros l Hl Hs. apply Hin in Hl. apply Hsup in Hs. unfold nvar in Hs. rewrite Nat2N.id in Hs. congruence.
  - intros Huc. eapply cached_flag_true; eauto.
Qed.
End TD.

(* ---------- without the cache the ghost flag never changes ---------- *)
Lemma nocache_flag order : forall fuel s level c fl r s' c' fl',
  topdown_hg order false fuel s level c fl = Some (r, s', c', fl') -> fl' = fl.
Proof.
  induction fuel as [|f IH]; intros s level c fl r s' c' fl' H; [discriminate|].
  cbn [topdown_hg] in H.
  destruct (Nat.leb (s_nvars s) level || sat_is_sat s); [inversion H; reflexivity|].
  destruct (sat_is_set s (var_at_level order level)); [eapply IH; exact H|].
  assert (B : forall s c fl v pol b s1 c1 fl1,
            branch_g (fun s' c' fl' => topdown_hg order false f s' (S level) c' fl') s c fl v pol
              = Some (b, s1, c1, fl1) -> fl1 = fl).
  { intros s1 c1 f1 v pol b s2 c2 f2 Hb. unfold branch_g in Hb.
    destruct (sat_decide false s1 (v, pol)) as [s3 r3]. destruct r3; try discriminate.
    - inversion Hb; reflexivity.
    - inversion Hb; reflexivity.
    - destruct (topdown_hg order false f s3 (S level) c1 f1) as [[[[sub s4] c4] f4]|] eqn:E; [|discriminate].
      inversion Hb; subst. eapply IH; exact E. }
  destruct (branch_g _ s c fl (var_at_level order level) true) as [[[[hi s1] c1] fl1]|] eqn:E1; [|discriminate].
  destruct (branch_g _ s1 c1 fl1 (var_at_level order level) false) as [[[[lo s2] c2] fl2]|] eqn:E2; [|discriminate].
  inversion H; subst. apply B in E1. apply B in E2. congruence.
Qed.

(* ---------- compile_cnf_topdown ---------- *)
Definition compile_g (order : list nat) (uc : bool) (cls : list clause) (nvars : nat) : option (bdd * bool) :=
  match sat_new false cls nvars with
  | NewOutOfFuel => None
  | NewNone => Some (BF, true)
  | NewSome s =>
    match topdown_hg order uc (S nvars) s 0 [] true with
    | None => None
    | Some (r, s', _, fl) => Some (conjoin_implied (sat_difference_iter s') r, fl)
    end
  end.

Lemma compile_g_erase order uc cls nvars :
  compile_cnf_topdown false order false uc cls nvars = option_map fst (compile_g order uc cls nvars).
Proof.
  unfold compile_cnf_topdown, compile_g. destruct (sat_new false cls nvars) as [| |s]; try reflexivity.
  rewrite (topdown_hg_erase order uc (S nvars) s 0 [] true).
  destruct (topdown_hg order uc (S nvars) s 0 [] true) as [[[[r s'] c'] fl']|]; reflexivity.
Qed.

Definition hash_ok (s0 : solver) : Prop := forall s1 ds1 s2 ds2,
  reaches false s0 s1 ds1 -> reaches false s0 s2 ds2 -> sat_cur_hash s1 = sat_cur_hash s2 ->
  residual (s_clauses s0) (ss_model (top_state s1)) = residual (s_clauses s0) (ss_model (top_state s2)).

Lemma perm_order order nvars : Permutation order (seq 0 nvars) ->
  (forall v, v < nvars -> exists l, l < nvars /\ nth l order 0 = v) /\
  (forall l, l < nvars -> nth l order 0 < nvars) /\
  (forall l l', l < nvars -> l' < nvars -> nth l order 0 = nth l' order 0 -> l = l').
Proof.
  intros P. assert (Hlen : length order = nvars) by (rewrite (Permutation_length P); apply seq_length).
  split; [|split].
  - intros v Hv. assert (Hin : In v order).
    { apply (Permutation_in _ (Permutation_sym P)). apply in_seq. lia. }
    apply In_nth with (d := 0) in Hin. destruct Hin as [l [Hl E]]. exists l. split; [lia|exact E].
  - intros l Hl. assert (Hin : In (nth l order 0) (seq 0 nvars)).
    { apply (Permutation_in _ P). apply nth_In. lia. }
    apply in_seq in Hin. lia.
  - assert (Hnd : NoDup order) by (apply (Permutation_NoDup (Permutation_sym P)); apply seq_NoDup).
    intros l l' Hl Hl'. apply (proj1 (NoDup_nth order 0) Hnd); lia.
Qed.

Definition unsat (cls : list clause) : Prop := forall a : nat -> bool, cnf_holds a cls = false.

Theorem compile_g_spec order uc cls nvars :
  lits_in_range nvars cls -> rem_adj_ok cls -> Permutation order (seq 0 nvars) ->
  (uc = true -> forall s0, sat_new false cls nvars = NewSome s0 -> hash_ok s0) ->
  exists r fl, compile_g order uc cls nvars = Some (r, fl) /\
    (forall x, den r x = cnf_holds (ax x) cls) /\ (r = BF <-> unsat cls) /\
    (fl = true -> free_bdd r) /\ fl = true.
Proof.
  intros Hrange Hadj P Hh. destruct (perm_order order nvars P) as [Hcover [Hinr Hinj]].
  unfold compile_g. destruct (sat_new false cls nvars) as [| |s0] eqn:En.
  - exfalso. exact (sat_new_no_out_of_fuel false nvars cls Hrange En).
  - exists BF, true. pose proof (unsat_sound_new _ _ _ En) as Hu.
    split; [reflexivity|split; [intros x; cbn [den]; symmetry; apply Hu|split; [|split; [intros _; exact I|reflexivity]]]].
    split; [intros _; exact Hu|reflexivity].
  - destruct (compile_g_correct cls nvars order s0 uc Hrange Hadj En Hcover Hinr
                (fun E => Hh E s0 eq_refl) Hinj) as [r [s' [c' [fl' [E [Hden [Hbf [Hfree Hflag]]]]]]]].
    rewrite E. exists (root_result r s'), fl'. split; [reflexivity|split; [exact Hden|split; [exact Hbf|split; [exact Hfree|]]]].
    destruct uc; [apply Hflag; reflexivity|eapply nocache_flag; exact E].
Qed.

(* ---------- the whole pipeline raw clauses -> Cnf::new -> compile ---------- *)
Lemma clause_holds_cnf_new a c : clause_holds a (cnf_new_clause c) = clause_holds a c.
Proof.
  apply eq_true_iff_eq. unfold clause_holds, cnf_new_clause. rewrite !existsb_exists.
  split; intros [l [Hl H]]; exists l; (split; [|exact H]).
  - exact (proj1 (in_sort_by _ _ _) (proj1 (in_dedup _ _) Hl)).
  - exact (proj2 (in_dedup _ _) (proj2 (in_sort_by _ _ _) Hl)).
Qed.

Lemma cnf_holds_cnf_new a raw : cnf_holds a (cnf_new raw) = cnf_holds a raw.
Proof.
  unfold cnf_holds, cnf_new. induction raw as [|c t IH]; [reflexivity|].
  cbn [map forallb]. rewrite IH, clause_holds_cnf_new. reflexivity.
Qed.

Definition compile_raw_g (order : list nat) (uc : bool) (raw : list clause) : option (bdd * bool) :=
  let cls := cnf_new raw in compile_g order uc cls (cnf_num_vars cls).

Lemma compile_raw_g_erase order uc raw :
  compile_raw false order false uc raw = option_map fst (compile_raw_g order uc raw).
Proof. apply compile_g_erase. Qed.

(* the guard under which C09 proves hash injectivity *)
Definition hash_guard (raw : list clause) : Prop :=
  (0 < prodf (fun w => w) (all_weights (sat_clauses_of (cnf_new raw))) < two128)%N.

Lemma hash_guard_ok raw s0 : hash_guard raw -> solver_of_raw false raw = NewSome s0 -> hash_ok s0.
Proof.
  intros Hg Hn s1 ds1 s2 ds2 H1 H2 He. eapply hash_injective_raw; eauto.
  unfold solver_of_raw in Hn. destruct (flag_inv_reach _ _ _ _ _ _ Hn (ex_intro _ [] eq_refl)) as [_ Hc0].
  rewrite Hc0. exact Hg.
Qed.

Theorem compile_raw_g_spec order uc raw :
  Permutation order (seq 0 (cnf_num_vars (cnf_new raw))) ->
  (uc = true -> hash_guard raw) ->
  exists r fl, compile_raw_g order uc raw = Some (r, fl) /\
    (forall x, den r x = cnf_holds (ax x) raw) /\ (r = BF <-> unsat raw) /\
    (fl = true -> free_bdd r) /\ fl = true.
Proof.
  intros P Hg.
  destruct (compile_g_spec order uc (cnf_new raw) (cnf_num_vars (cnf_new raw))
              (cnf_num_vars_range _) (cnf_new_adj_ok _) P) as [r [fl [E [Hden [Hbf [Hfree Hfl]]]]]].
  { intros Euc s0 Hn. apply (hash_guard_ok raw); [apply Hg; exact Euc|exact Hn]. }
  exists r, fl. split; [exact E|split; [|split; [|split; assumption]]].
  - intros x. rewrite Hden. apply cnf_holds_cnf_new.
  - rewrite Hbf. unfold unsat. split; intros H a; [rewrite <- cnf_holds_cnf_new|rewrite cnf_holds_cnf_new]; apply H.
Qed.

(* ---------- the statements over N-labelled CNFs (Model/Compile.v: cnf, cnf_eval) ---------- *)
From RsddV Require Model.Compile.

Definition cnfN (cls : list clause) : Compile.cnf := map (map (fun l => (nvar l, lpol l))) cls.

Lemma cnf_eval_cnfN cls x : Compile.cnf_eval (cnfN cls) x = cnf_holds (ax x) cls.
Proof.
  unfold Compile.cnf_eval, cnfN, cnf_holds. induction cls as [|c t IH]; [reflexivity|].
  cbn [map forallb]. rewrite IH. f_equal. unfold Compile.clause_eval, clause_holds.
  induction c as [|l r IHc]; [reflexivity|]. cbn [map existsb]. rewrite IHc. reflexivity.
Qed.

Lemma unsat_cnfN cls : unsat cls <-> forall x, Compile.cnf_eval (cnfN cls) x = false.
Proof.
  unfold unsat. split.
  - intros H x. rewrite cnf_eval_cnfN. apply H.
  - intros H a. rewrite <- (cnf_holds_ext (ax (fun n => a (N.to_nat n))) a cls).
    + rewrite <- cnf_eval_cnfN. apply H.
    + intros v. unfold ax. rewrite Nat2N.id. reflexivity.
Qed.

(* topdown_correct_nocache: the cache-less compiler (every lookup misses), every CNF, every order:
   never out of fuel; false constant <=> unsatisfiable; exact denotation; no path decides a
   variable twice.  No hypothesis besides "order is a permutation of the CNF's variables". *)
Theorem topdown_correct_nocache order raw :
  Permutation order (seq 0 (cnf_num_vars (cnf_new raw))) ->
  exists r, compile_raw false order false false raw = Some r /\
    (r = BF <-> forall x, Compile.cnf_eval (cnfN raw) x = false) /\
    (forall x, den r x = Compile.cnf_eval (cnfN raw) x) /\ free_bdd r.
Proof.
  intros P. destruct (compile_raw_g_spec order false raw P ltac:(discriminate)) as [r [fl [E [Hden [Hbf [Hfree Hfl]]]]]].
  exists r. rewrite compile_raw_g_erase, E. split; [reflexivity|split; [|split]].
  - rewrite Hbf. apply unsat_cnfN.
  - intros x. rewrite cnf_eval_cnfN. apply Hden.
  - apply Hfree, Hfl.
Qed.

(* topdown_correct (with the component cache, as coded): under C09's guard (product of the
   literal primes below 2^128, so that equal hashes mean equal residual formulas) the compiler
   never runs out of fuel, returns the false constant exactly for unsatisfiable CNFs and
   otherwise a diagram denoting the CNF in which no path decides a variable twice.  Freeness uses
   topdown_res: results test residual variables only, so the ghost flag is never cleared. *)
Theorem topdown_correct order raw :
  Permutation order (seq 0 (cnf_num_vars (cnf_new raw))) -> hash_guard raw ->
  exists r, compile_raw false order false true raw = Some r /\
    (r = BF <-> forall x, Compile.cnf_eval (cnfN raw) x = false) /\
    (forall x, den r x = Compile.cnf_eval (cnfN raw) x) /\ free_bdd r.
Proof.
  intros P Hg. destruct (compile_raw_g_spec order true raw P (fun _ => Hg)) as [r [fl [E [Hden [Hbf [Hfree Hfl]]]]]].
  exists r. rewrite compile_raw_g_erase, E. split; [reflexivity|split; [|split]].
  - rewrite Hbf. apply unsat_cnfN.
  - intros x. rewrite cnf_eval_cnfN. apply Hden.
  - apply Hfree, Hfl.
Qed.

(* the same with the cache-soundness assumption as an explicit hypothesis instead of the guard *)
Theorem topdown_correct_hyp order cls nvars :
  lits_in_range nvars cls -> rem_adj_ok cls -> Permutation order (seq 0 nvars) ->
  (forall s0, sat_new false cls nvars = NewSome s0 -> hash_ok s0) ->
  exists r, compile_cnf_topdown false order false true cls nvars = Some r /\
    (r = BF <-> forall x, Compile.cnf_eval (cnfN cls) x = false) /\
    (forall x, den r x = Compile.cnf_eval (cnfN cls) x) /\ free_bdd r.
Proof.
  intros Hr Ha P Hh. destruct (compile_g_spec order true cls nvars Hr Ha P (fun _ => Hh)) as [r [fl [E [Hden [Hbf [Hfree Hfl]]]]]].
  exists r. rewrite compile_g_erase, E. split; [reflexivity|split; [|split]].
  - rewrite Hbf. apply unsat_cnfN.
  - intros x. rewrite cnf_eval_cnfN. apply Hden.
  - apply Hfree, Hfl.
Qed.

(* the ghost flag of compile_raw_g is never cleared: no cache hit ever returns a diagram that
   tests a variable assigned at the time of the hit *)
Theorem no_stale_hit order uc raw :
  Permutation order (seq 0 (cnf_num_vars (cnf_new raw))) -> (uc = true -> hash_guard raw) ->
  exists r, compile_raw_g order uc raw = Some (r, true).
Proof.
  intros P Hg. destruct (compile_raw_g_spec order uc raw P Hg) as [r [fl [E [_ [_ [_ Hfl]]]]]].
  exists r. rewrite E, Hfl. reflexivity.
Qed.

(* ---------- witnesses ---------- *)
(* D9 (pinned root loop): (x2) /\ all four clauses over x0, x1 *)
Definition d9_raw : list clause :=
  [[(2, true)]; [(0, true); (1, true)]; [(0, true); (1, false)]; [(0, false); (1, true)]; [(0, false); (1, false)]].
Lemma d9_pinned :
  compile_raw false [0; 1; 2] true true d9_raw = Some (BN false 2%N BF BF) /\
  compile_raw false [0; 1; 2] false true d9_raw = Some BF /\
  forallb (fun k => negb (cnf_holds (fun v => Nat.testbit k v) d9_raw)) (seq 0 8) = true.
Proof. repeat split; vm_compute; reflexivity. Qed.

(* D8 (pinned cond_helper) on a compiled diagram: (-x2) /\ (x1) /\ (-x1 \/ x3), negated, x1 := false *)
Definition d8_raw : list clause := [[(2, false)]; [(1, true)]; [(1, false); (3, true)]].
Definition asg_of (k : nat) : Bdd.asg := fun v => N.testbit (N.of_nat k) v.
Definition cond_check (pinned : bool) (p : bdd) (v : var) (b : bool) (nv : nat) : bool :=
  forallb (fun k => Bool.eqb (den (cond_helper_m pinned p v b) (asg_of k)) (den p (upd (asg_of k) v b)))
          (seq 0 (2 ^ nv)).
Lemma d8_pinned :
  match compile_raw false [0; 1; 2; 3] false true d8_raw with
  | Some r => cond_check true (neg r) 1%N false 4 = false /\ cond_check false (neg r) 1%N false 4 = true
  | None => False
  end.
Proof. vm_compute. split; reflexivity. Qed.
