(* The heuristic orders of cnf.rs are permutations: min-fill for every choice function (and for
   the code's), FORCE for every key oracle, comparison and iteration count. *)
From Coq Require Import Bool List Lia Arith Permutation.
Import ListNotations.
From RsddV Require Import Base.Util Model.VarOrder Model.VTree Model.DTree Proofs.VarOrder.

(* ---------- swap_remove ---------- *)
Lemma set_nth_perm : forall (l : list nat) i x y, nth_error l i = Some x ->
  Permutation (y :: l) (x :: set_nth l i y).
Proof.
  induction l as [|a l IH]; intros [|i] x y H; simpl in *; try discriminate.
  - inversion H; subst. apply perm_swap.
  - eapply Permutation_trans; [apply perm_swap|]. eapply Permutation_trans; [|apply perm_swap].
    constructor. apply IH. exact H.
Qed.

Lemma swap_remove_perm l i x : nth_error l i = Some x -> Permutation l (x :: swap_remove l i).
Proof.
  intros H. assert (Hne : l <> []) by (intros ->; destruct i; discriminate).
  assert (Hi : i < length l) by (apply nth_error_Some; congruence).
  pose proof (app_removelast_last 0 Hne) as E. unfold swap_remove.
  assert (Hlen : length l = S (length (removelast l))).
  { rewrite E at 1. rewrite app_length. simpl. lia. }
  destruct (S i =? length l) eqn:C.
  - apply Nat.eqb_eq in C. rewrite E in H. rewrite nth_error_app2 in H by lia.
    replace (i - length (removelast l)) with 0 in H by lia. simpl in H. inversion H; subst.
    rewrite E at 1. apply Permutation_sym, Permutation_cons_append.
  - apply Nat.eqb_neq in C. rewrite E in H. rewrite nth_error_app1 in H by lia.
    rewrite E at 1. eapply Permutation_trans; [apply Permutation_sym, Permutation_cons_append|].
    apply set_nth_perm. exact H.
Qed.

(* ---------- min-fill ---------- *)
Lemma add_edge_nodes g a b : nodes (add_edge_if_absent g a b) = nodes g.
Proof. unfold add_edge_if_absent. destruct (has_edge g a b); reflexivity. Qed.

Lemma fold_add_nodes es : forall g,
  nodes (fold_left (fun g e => add_edge_if_absent g (fst e) (snd e)) es g) = nodes g.
Proof. induction es as [|e es IH]; intros g; simpl; auto. rewrite IH. apply add_edge_nodes. Qed.

Lemma eliminate_nodes g i : nodes (eliminate_node g i) = swap_remove (nodes g) i.
Proof. unfold eliminate_node. simpl. rewrite fold_add_nodes. reflexivity. Qed.

Lemma interaction_nodes n cls : nodes (interaction_graph n cls) = seq 0 n.
Proof.
  unfold interaction_graph.
  assert (H : forall g, nodes (fold_left (fun g cl =>
      fold_left (fun g e => add_edge_if_absent g (fst e) (snd e)) (pairs true (clause_vars cl)) g) cls g) = nodes g).
  { induction cls as [|cl cls IH]; intros g; simpl; auto. rewrite IH. apply fold_add_nodes. }
  rewrite H. reflexivity.
Qed.

Definition valid_pick (pick : graph -> nat) : Prop :=
  forall g, nodes g <> [] -> pick g < length (nodes g).

Lemma minfill_loop_perm pick : valid_pick pick -> forall fuel g ord, length (nodes g) <= fuel ->
  exists res, minfill_loop pick fuel g ord = Some res /\ Permutation res (ord ++ nodes g).
Proof.
  intros Hp. induction fuel as [|f IH]; intros g ord Hlen.
  - destruct (nodes g) as [|a t] eqn:E; simpl in Hlen; [|lia].
    exists ord. simpl. rewrite E. rewrite app_nil_r. auto.
  - simpl. destruct (nodes g) as [|a t] eqn:E.
    + exists ord. rewrite app_nil_r. auto.
    + rewrite <- E in Hlen |- *. assert (Hne : nodes g <> []) by (rewrite E; discriminate).
      specialize (Hp g Hne). destruct (nth_error (nodes g) (pick g)) as [lbl|] eqn:En.
      2:{ apply nth_error_None in En. lia. }
      pose proof (swap_remove_perm _ _ _ En) as HP.
      destruct (IH (eliminate_node g (pick g)) (ord ++ [lbl])) as (res & Er & Hr).
      { rewrite eliminate_nodes. apply Permutation_length in HP. simpl in HP. lia. }
      exists res. split; auto. eapply Permutation_trans; [exact Hr|].
      rewrite eliminate_nodes, <- app_assoc. simpl. apply Permutation_app_head. apply Permutation_sym. exact HP.
Qed.

(* the elimination loop returns a permutation of 0..n-1 whatever node is chosen in each round *)
Theorem minfill_perm pick cls : valid_pick pick ->
  let n := cnf_num_vars cls in
  exists ord r, min_fill_elim pick cls = Some ord /\ Permutation ord (seq 0 n) /\
                min_fill_order pick cls = Some r /\ wf_order r /\ pos_to_var r = ord /\ num_vars r = n.
Proof.
  intros Hp n. unfold min_fill_order, min_fill_elim. fold n.
  destruct (minfill_loop_perm pick Hp n (interaction_graph n cls) []) as (ord & E & HP).
  { rewrite interaction_nodes, seq_length. lia. }
  rewrite interaction_nodes in HP. simpl in HP.
  destruct (order_new_wf ord n HP) as (r & Er & W & Ep & En).
  exists ord, r. rewrite E. exact (conj eq_refl (conj HP (conj Er (conj W (conj Ep En))))).
Qed.

Lemma argmin_first_lt vals : forall best bv i, best < i -> argmin_first best bv i vals < i + length vals.
Proof.
  induction vals as [|x t IH]; intros best bv i H; simpl; [lia|].
  destruct (x <? bv).
  - specialize (IH i x (S i) ltac:(lia)). lia.
  - specialize (IH best bv (S i) ltac:(lia)). lia.
Qed.

(* the code's choice (first node of minimal fill-in) is a node of the graph *)
Theorem pick_minfill_valid : valid_pick pick_minfill.
Proof.
  intros g Hne. unfold pick_minfill. destruct (nodes g) as [|a t]; [congruence|]. simpl.
  pose proof (argmin_first_lt (map (num_fill g) t) 0 (num_fill g a) 1 ltac:(lia)) as H.
  rewrite map_length in H. lia.
Qed.

(* ---------- FORCE ---------- *)
Lemma inverse_perm p r n : Permutation p (seq 0 n) -> length r = n ->
  (forall k, k < n -> nth (nth k p 0) r 0 = k) -> Permutation r (seq 0 n).
Proof.
  intros HP Hlen Hinv.
  assert (Hsurj : forall i, i < n -> exists k, k < n /\ nth k p 0 = i).
  { intros i Hi. assert (Hin : In i p) by (eapply Permutation_in; [apply Permutation_sym; exact HP|apply in_seq; lia]).
    destruct (In_nth _ _ 0 Hin) as (k & Hk & E). exists k. split; auto.
    rewrite (Permutation_length HP), seq_length in Hk. exact Hk. }
  apply NoDup_Permutation_bis.
  - apply (NoDup_nth r 0). intros i j Hi Hj E. rewrite Hlen in Hi, Hj.
    destruct (Hsurj i Hi) as (ki & Hki & Ei). destruct (Hsurj j Hj) as (kj & Hkj & Ej).
    rewrite <- Ei, <- Ej in E. rewrite !Hinv in E by auto. subst. congruence.
  - rewrite seq_length. lia.
  - intros x Hx. destruct (In_nth _ _ 0 Hx) as (i & Hi & E). rewrite Hlen in Hi.
    destruct (Hsurj i Hi) as (k & Hk & Ek). rewrite <- Ek, Hinv in E by auto. subst. apply in_seq. lia.
Qed.

Section ForceProofs.
  Variable K : Type.
  Variable leb : K -> K -> bool.
  Variable key : nat -> list nat -> nat -> K.

  Lemma ins_perm x l : Permutation (ins K leb x l) (x :: l).
  Proof.
    induction l as [|y t IH]; simpl; auto. destruct (leb (fst y) (fst x)); auto.
    eapply Permutation_trans; [apply perm_skip, IH|apply perm_swap].
  Qed.

  Lemma isort_perm l : Permutation (isort K leb l) l.
  Proof.
    unfold isort. assert (H : forall acc, Permutation (fold_left (fun acc x => ins K leb x acc) l acc) (l ++ acc)).
    { induction l as [|x t IH]; intros acc; simpl; auto.
      eapply Permutation_trans; [apply IH|]. eapply Permutation_trans; [apply Permutation_app_head, ins_perm|].
      apply Permutation_sym, Permutation_middle. }
    specialize (H []). rewrite app_nil_r in H. exact H.
  Qed.

  Lemma force_step_perm it l2p n : Permutation l2p (seq 0 n) ->
    exists l', force_step K leb key it l2p = Some l' /\ Permutation l' (seq 0 n).
  Proof.
    intros HP. unfold force_step. assert (Hlen : length l2p = n) by (rewrite (Permutation_length HP); apply seq_length).
    rewrite Hlen. set (p2l := map snd (isort K leb (map (fun i => (key it l2p i, i)) (seq 0 n)))).
    assert (Hp : Permutation p2l (seq 0 n)).
    { unfold p2l. eapply Permutation_trans; [apply Permutation_map, isort_perm|].
      rewrite map_map. simpl. rewrite map_id. auto. }
    assert (Hnd : NoDup p2l) by (eapply Permutation_NoDup; [apply Permutation_sym; exact Hp|apply seq_NoDup]).
    destruct (new_loop_spec p2l 0 l2p) as (v & E & L & _ & Hin).
    { intros x Hx. rewrite Hlen. apply (Permutation_in _ Hp), in_seq in Hx. lia. }
    exists v. split; auto. apply (inverse_perm p2l); auto; [lia|].
    intros k Hk. rewrite Hin; auto. rewrite (Permutation_length Hp), seq_length. exact Hk.
  Qed.

  Lemma force_iter_perm n : forall k it l2p, Permutation l2p (seq 0 n) ->
    exists l', force_iter K leb key it k l2p = Some l' /\ Permutation l' (seq 0 n).
  Proof.
    induction k as [|k IH]; intros it l2p HP; simpl; [eauto|].
    destruct (force_step_perm it l2p n HP) as (l1 & E & HP1). rewrite E. apply IH; auto.
  Qed.

  Definition force_guard (cls : list clause) : Prop :=
    cls <> [] /\ (cnf_num_vars cls = 0 \/ forall cl, In cl cls -> cl <> []).

  (* for every key oracle, comparison and iteration count the result is a well-formed order; it
     lists, level by level, the *positions* the heuristic computed (VarOrder::new is applied to
     lbl_to_pos), i.e. it is the inverse of the computed placement *)
  Theorem force_perm cls extra : force_guard cls ->
    let n := cnf_num_vars cls in
    exists placement r, force_placement K leb key cls extra = Some placement /\
      Permutation placement (seq 0 n) /\
      force_order K leb key cls extra = Some r /\ wf_order r /\ num_vars r = n /\
      pos_to_var r = placement /\
      (forall v, v < n -> get r (nth v placement 0) = Some v).
  Proof.
    intros (Hne & Hg) n. unfold force_order, force_placement. fold n.
    destruct cls as [|c0 cls']; [congruence|]. set (cls := c0 :: cls') in *.
    assert (Hcond : (0 <? n) && existsb (fun cl : clause => match cl with [] => true | _ => false end) cls = false).
    { destruct Hg as [H0|Hall].
      - fold n in H0. rewrite H0. reflexivity.
      - apply andb_false_iff. right. destruct (existsb _ cls) eqn:E; auto.
        apply existsb_exists in E. destruct E as (cl & Hin & Hc). destruct cl; [|discriminate].
        exfalso. apply (Hall [] Hin). reflexivity. }
    rewrite Hcond.
    destruct (force_iter_perm n (S extra) 0 (seq 0 n) (Permutation_refl _)) as (pl & E & HP).
    rewrite E. destruct (order_new_wf pl n HP) as (r & Er & W & Ep & En).
    exists pl, r. split; [reflexivity|]. split; [exact HP|]. split; [exact Er|]. split; [exact W|].
    split; [exact En|]. split; [exact Ep|].
    intros v Hv. destruct W as (_ & _ & W3). rewrite Ep in W3.
    rewrite (Permutation_length HP), seq_length in W3. destruct (W3 v Hv) as (x & E1 & _ & E2).
    unfold var_at_level in E1. rewrite Ep in E1.
    rewrite (nth_error_nth' pl 0) in E1 by (rewrite (Permutation_length HP), seq_length; lia).
    inversion E1; subst x. exact E2.
  Qed.

  (* the guards are real *)
  Theorem force_empty_diverges extra : force_order K leb key [] extra = None.
  Proof. reflexivity. Qed.
End ForceProofs.
