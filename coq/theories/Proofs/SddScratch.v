(* C07S / C10 for the SDD scratch: the memoised fold of impl DDNNFPtr for SddPtr returns what the
   plain recursion returns and touches only the slots of reachable nodes; the unconditional
   recursive clear_scratch empties exactly those; hence every public fold maps the all-empty
   scratch state to the all-empty scratch state, and any sequence of folds on pointers sharing any
   sub-structure answers, call by call, what the plain recursion answers. *)
From Coq Require Import Bool NArith List Lia Arith.
Import ListNotations.
From RsddV Require Import Base.Bdd Model.SddVtree Model.SddOps Model.SddWmc Proofs.SddBase.

(* the nested loops of the model, named *)
Definition nodes_els : list elem -> list sdd :=
  fix go (l : list elem) : list sdd :=
    match l with [] => [] | (pr, sb) :: r => sdd_nodes pr ++ sdd_nodes sb ++ go r end.

Lemma sdd_nodes_or c i els : sdd_nodes (SOr c i els) = SOr false i els :: nodes_els els.
Proof. reflexivity. Qed.
Lemma nodes_els_cons pr sb r : nodes_els ((pr, sb) :: r) = sdd_nodes pr ++ sdd_nodes sb ++ nodes_els r.
Proof. reflexivity. Qed.

Lemma sdd_eqb_false p q : p <> q -> sdd_eqb p q = false.
Proof. intros H. apply sdd_eqb_neq. exact H. Qed.

Section Q.
Variable T : Type.
Variable fTrue fFalse : T.
Variable fLit : var -> bool -> T.
Variable fAnd fOr : T -> T -> T.

Notation sscratch := (sscratch T).
Notation plain := (sdd_fold_c T fTrue fFalse fLit fAnd fOr).
Notation memo := (sdd_fold_memo T fTrue fFalse fLit fAnd fOr).
Notation sset := (sset T).
Notation clear := (sdd_clear T).

Definition sall_empty (s : sscratch) : Prop := forall n, s n = None.

Lemma sset_same s n v : sset s n v n = v.
Proof. unfold SddWmc.sset. rewrite sdd_eqb_refl. reflexivity. Qed.
Lemma sset_other s n v m : m <> n -> sset s n v m = s m.
Proof. intros H. unfold SddWmc.sset. rewrite sdd_eqb_false; auto. Qed.

Definition ploop (ng : bool) : list elem -> T -> T :=
  fix loop (l : list elem) (or_v : T) : T :=
    match l with
    | [] => or_v
    | (pr, sb) :: r => loop r (fOr or_v (fAnd (plain false pr) (plain ng sb)))
    end.
Definition mloop (ng : bool) : list elem -> T -> sscratch -> T * sscratch :=
  fix loop (l : list elem) (or_v : T) (s0 : sscratch) : T * sscratch :=
    match l with
    | [] => (or_v, s0)
    | (pr, sb) :: r =>
      let '(pv, s1) := memo false pr s0 in
      let '(sv, s2) := memo ng sb s1 in
      loop r (fOr or_v (fAnd pv sv)) s2
    end.
Definition cloop : list elem -> sscratch -> sscratch :=
  fix loop (l : list elem) (s0 : sscratch) : sscratch :=
    match l with
    | [] => s0
    | (pr, sb) :: r => loop r (clear sb (clear pr s0))
    end.

Lemma plain_or fl c i els : plain fl (SOr c i els) = ploop (xorb fl c) els fFalse.
Proof. reflexivity. Qed.
Lemma memo_or fl c i els s :
  memo fl (SOr c i els) s =
  memo_dispatch T (xorb fl c) s (SOr false i els) (fun cached =>
    let '(or_v, s') := mloop (xorb fl c) els fFalse s in
    (or_v, memo_store T (xorb fl c) s' (SOr false i els) cached or_v)).
Proof. reflexivity. Qed.
Lemma clear_or c i els s : clear (SOr c i els) s = cloop els (sset s (SOr false i els) None).
Proof. reflexivity. Qed.

(* invariant during folds: a memoised value is the plain value of that node in that polarity
   (a count mark is invisible to the fold: the typed read fails) *)
Definition entry_ok (n : sdd) (e : option (spayload T)) : Prop :=
  match e with
  | Some (SPFold a b) =>
      (forall x, a = Some x -> x = plain true n) /\ (forall y, b = Some y -> y = plain false n)
  | _ => True
  end.
Definition sfinv (s : sscratch) : Prop := forall n, entry_ok n (s n).

Lemma sfinv_empty s : sall_empty s -> sfinv s.
Proof. intros E n. rewrite E. exact I. Qed.

(* what is proved of one call *)
Definition memo_ok (fl : bool) (p : sdd) : Prop := forall s, sfinv s ->
  fst (memo fl p s) = plain fl p /\ sfinv (snd (memo fl p s)) /\
  (forall n, ~ In n (sdd_nodes p) -> snd (memo fl p s) n = s n).

(* the dispatch on the slot: a hit returns the plain value and changes nothing; a miss runs the
   helper with a [cached] value that is the plain value of the other polarity *)
Lemma memo_dispatch_spec ng s n helper (Q : T * sscratch -> Prop) :
  entry_ok n (s n) ->
  Q (plain ng n, s) ->
  (forall cached, (forall x, cached = Some x -> x = plain (negb ng) n) -> Q (helper cached)) ->
  Q (memo_dispatch T ng s n helper).
Proof.
  intros EO HIT MISS. unfold memo_dispatch, sread_fold.
  destruct (s n) as [[a b|]|] eqn:Sn; cbn [entry_ok] in EO.
  - destruct EO as [Ea Eb]. destruct a as [x|], b as [y|].
    + destruct ng; [rewrite (Ea _ eq_refl)|rewrite (Eb _ eq_refl)]; exact HIT.
    + destruct ng; [rewrite (Ea _ eq_refl); exact HIT|].
      apply MISS. intros z [= <-]. apply Ea. reflexivity.
    + destruct ng; [|rewrite (Eb _ eq_refl); exact HIT].
      apply MISS. intros z [= <-]. apply Eb. reflexivity.
    + apply MISS. intros z Hz. discriminate.
  - apply MISS. intros z Hz. discriminate.
  - apply MISS. intros z Hz. discriminate.
Qed.

Lemma memo_store_ok ng s n cached v :
  sfinv s -> v = plain ng n -> (forall x, cached = Some x -> x = plain (negb ng) n) ->
  sfinv (memo_store T ng s n cached v).
Proof.
  intros I Ev Ec m. unfold memo_store. destruct (sdd_eqb m n) eqn:E.
  - apply sdd_eqb_eq in E. subst m. rewrite sset_same.
    destruct ng; cbn [entry_ok negb] in *; split; intros z Hz; try (injection Hz as <-; exact Ev); apply Ec; exact Hz.
  - apply sdd_eqb_neq in E. rewrite sset_other by exact E. apply I.
Qed.

Lemma mloop_spec ng els :
  Forall (fun e => (forall fl, memo_ok fl (fst e)) /\ (forall fl, memo_ok fl (snd e))) els ->
  forall or_v s, sfinv s ->
  fst (mloop ng els or_v s) = ploop ng els or_v /\ sfinv (snd (mloop ng els or_v s)) /\
  (forall n, ~ In n (nodes_els els) -> snd (mloop ng els or_v s) n = s n).
Proof.
  induction 1 as [|[pr sb] r [Hp Hs] _ IH]; intros or_v s I; cbn [mloop ploop].
  - repeat split; auto.
  - cbn [fst snd] in Hp, Hs.
    destruct (Hp false s I) as (E1 & I1 & F1). destruct (memo false pr s) as [pv s1]. cbn [fst snd] in E1, I1, F1.
    destruct (Hs ng s1 I1) as (E2 & I2 & F2). destruct (memo ng sb s1) as [sv s2]. cbn [fst snd] in E2, I2, F2.
    destruct (IH (fOr or_v (fAnd pv sv)) s2 I2) as (E3 & I3 & F3).
    split; [rewrite E3, E1, E2; reflexivity|]. split; [exact I3|].
    intros n Hn. rewrite nodes_els_cons in Hn.
    rewrite F3, F2, F1; auto; intros Hin; apply Hn; repeat (apply in_or_app; auto; right).
Qed.

(* THE THEOREM (memoised fold = plain recursion), from any scratch state satisfying the fold
   invariant; only slots of reachable nodes change *)
Theorem sdd_fold_memo_ok : forall p fl, memo_ok fl p.
Proof.
  induction p as [| |v b|c l i lo hi IHlo IHhi|c i els IH] using sdd_ind'; intros fl s I.
  - cbn. auto.
  - cbn. auto.
  - cbn. auto.
  - cbn [SddWmc.sdd_fold_memo]. set (ng := xorb fl c). set (n := SBdd false l i lo hi).
    assert (PN : forall g, plain g n = fOr (fOr fFalse (fAnd (fLit l true) (plain g hi))) (fAnd (fLit l false) (plain g lo))).
    { intros g. unfold n. cbn [SddWmc.sdd_fold_c]. rewrite xorb_false_r. reflexivity. }
    assert (PP : plain fl (SBdd c l i lo hi) = plain ng n) by (rewrite PN; reflexivity).
    apply memo_dispatch_spec; [apply I | |].
    + cbn [fst snd]. split; [symmetry; exact PP|]. split; auto.
    + intros cached Hc.
      destruct (IHhi ng s I) as (E1 & I1 & F1). destruct (memo ng hi s) as [hv s1]. cbn [fst snd] in E1, I1, F1.
      destruct (IHlo ng s1 I1) as (E2 & I2 & F2). destruct (memo ng lo s1) as [lv s2]. cbn [fst snd] in E2, I2, F2.
      cbn [fst snd]. subst hv lv. split; [rewrite PP, PN; reflexivity|]. split.
      * apply memo_store_ok; auto.
      * intros m Hm. cbn [sdd_nodes] in Hm. unfold memo_store.
        rewrite sset_other by (intros ->; apply Hm; left; reflexivity).
        rewrite F2, F1; auto; intros Hin; apply Hm; right; apply in_or_app; auto.
  - rewrite memo_or. set (ng := xorb fl c). set (n := SOr false i els).
    assert (PN : forall g, plain g n = ploop g els fFalse).
    { intros g. unfold n. rewrite plain_or, xorb_false_r. reflexivity. }
    assert (PP : plain fl (SOr c i els) = plain ng n) by (rewrite PN; reflexivity).
    apply memo_dispatch_spec; [apply I | |].
    + cbn [fst snd]. split; [symmetry; exact PP|]. split; auto.
    + intros cached Hc.
      destruct (mloop_spec ng els IH fFalse s I) as (E1 & I1 & F1).
      destruct (mloop ng els fFalse s) as [or_v s']. cbn [fst snd] in *.
      split; [rewrite PP, PN; exact E1|]. split.
      * apply memo_store_ok; auto. rewrite PN. exact E1.
      * intros m Hm. rewrite sdd_nodes_or in Hm. unfold memo_store.
        rewrite sset_other by (intros ->; apply Hm; left; reflexivity).
        apply F1. intros Hin. apply Hm. right. exact Hin.
Qed.

Theorem sdd_fold_memo_spec p fl s : sfinv s ->
  let '(r, s') := memo fl p s in
  r = plain fl p /\ sfinv s' /\ (forall n, ~ In n (sdd_nodes p) -> s' n = s n).
Proof. intros I. pose proof (sdd_fold_memo_ok p fl s I) as H. destruct (memo fl p s). exact H. Qed.

(* ---- clear_scratch: unconditional, so no closure condition is needed (compare C10_clear_spec) ---- *)
Definition clear_ok (p : sdd) : Prop := forall s,
  (forall n, In n (sdd_nodes p) -> clear p s n = None) /\
  (forall n, ~ In n (sdd_nodes p) -> clear p s n = s n) /\
  (forall n, s n = None -> clear p s n = None).

Lemma cloop_spec els :
  Forall (fun e => clear_ok (fst e) /\ clear_ok (snd e)) els ->
  forall s,
  (forall n, In n (nodes_els els) -> cloop els s n = None) /\
  (forall n, ~ In n (nodes_els els) -> cloop els s n = s n) /\
  (forall n, s n = None -> cloop els s n = None).
Proof.
  induction 1 as [|[pr sb] r [Hp Hs] _ IH]; intros s; cbn [cloop].
  - repeat split; auto. intros n [].
  - cbn [fst snd] in Hp, Hs.
    destruct (Hp s) as (C1 & F1 & K1). destruct (Hs (clear pr s)) as (C2 & F2 & K2).
    destruct (IH (clear sb (clear pr s))) as (C3 & F3 & K3).
    split; [|split].
    + intros n Hn. rewrite nodes_els_cons in Hn. apply in_app_or in Hn. destruct Hn as [Hn|Hn]; [apply K3, K2, C1, Hn|].
      apply in_app_or in Hn. destruct Hn as [Hn|Hn]; [apply K3, C2, Hn | apply C3, Hn].
    + intros n Hn. rewrite nodes_els_cons in Hn.
      rewrite F3, F2, F1; auto; intros Hin; apply Hn; repeat (apply in_or_app; auto; right).
    + intros n Hn. apply K3, K2, K1, Hn.
Qed.

Theorem sdd_clear_ok : forall p, clear_ok p.
Proof.
  induction p as [| |v b|c l i lo hi IHlo IHhi|c i els IH] using sdd_ind'; intros s.
  - cbn. repeat split; auto. intros n [].
  - cbn. repeat split; auto. intros n [].
  - cbn. repeat split; auto. intros n [].
  - cbn [SddWmc.sdd_clear sdd_nodes]. set (n := SBdd false l i lo hi). set (s0 := sset s n None).
    destruct (IHlo s0) as (C1 & F1 & K1). destruct (IHhi (clear lo s0)) as (C2 & F2 & K2).
    split; [|split].
    + intros m [<-|Hm]; [apply K2, K1; unfold s0; apply sset_same|].
      apply in_app_or in Hm. destruct Hm as [Hm|Hm]; [apply K2, C1, Hm | apply C2, Hm].
    + intros m Hm. rewrite F2, F1 by (intros Hin; apply Hm; right; apply in_or_app; auto).
      unfold s0. apply sset_other. intros ->. apply Hm. left. reflexivity.
    + intros m Hm. apply K2, K1. unfold s0. destruct (sdd_eqb m n) eqn:E.
      * apply sdd_eqb_eq in E. subst m. apply sset_same.
      * apply sdd_eqb_neq in E. rewrite sset_other by exact E. exact Hm.
  - rewrite clear_or, sdd_nodes_or. set (n := SOr false i els). set (s0 := sset s n None).
    destruct (cloop_spec els IH s0) as (C1 & F1 & K1).
    split; [|split].
    + intros m [<-|Hm]; [apply K1; unfold s0; apply sset_same | apply C1, Hm].
    + intros m Hm. rewrite F1 by (intros Hin; apply Hm; right; exact Hin).
      unfold s0. apply sset_other. intros ->. apply Hm. left. reflexivity.
    + intros m Hm. apply K1. unfold s0. destruct (sdd_eqb m n) eqn:E.
      * apply sdd_eqb_eq in E. subst m. apply sset_same.
      * apply sdd_eqb_neq in E. rewrite sset_other by exact E. exact Hm.
Qed.

Theorem sdd_clear_spec p s :
  (forall n, In n (sdd_nodes p) -> clear p s n = None) /\
  (forall n, ~ In n (sdd_nodes p) -> clear p s n = s n).
Proof. destruct (sdd_clear_ok p s) as (C & F & _). split; assumption. Qed.

Lemma sdd_in_dec (n : sdd) (l : list sdd) : {In n l} + {~ In n l}.
Proof.
  apply in_dec. intros a b. destruct (sdd_eqb a b) eqn:E.
  - left. apply sdd_eqb_eq. exact E.
  - right. apply sdd_eqb_neq. exact E.
Qed.

(* THE THEOREM (C10 for SDD folds: unsmoothed_wmc in any semiring, evaluate, semantic_hash):
   from an all-empty scratch state the public fold returns the plain recursion's value and
   leaves the scratch state all-empty *)
Theorem sdd_fold_public_pure p s : sall_empty s ->
  fst (sdd_fold_public T fTrue fFalse fLit fAnd fOr p s) = sdd_fold T fTrue fFalse fLit fAnd fOr p /\
  sall_empty (snd (sdd_fold_public T fTrue fFalse fLit fAnd fOr p s)).
Proof.
  intros E. unfold sdd_fold_public, sdd_fold.
  destruct (sdd_fold_memo_ok p false s (sfinv_empty s E)) as (Er & I1 & F1).
  destruct (memo false p s) as [r s1]. cbn [fst snd] in *. split; [exact Er|].
  destruct (sdd_clear_ok p s1) as (C & F & _).
  intros n. destruct (sdd_in_dec n (sdd_nodes p)) as [Hin|Hn].
  - apply C, Hin.
  - rewrite F, F1 by assumption. apply E.
Qed.
End Q.

(* any sequence of public folds -- different closures (weights, assignments), pointers sharing
   sub-structure -- returns, call by call, the answers of the plain recursion, and ends with an
   all-empty scratch state *)
Section Seq.
Variable T : Type.
Record squery := { q_true : T; q_false : T; q_lit : var -> bool -> T; q_and : T -> T -> T; q_or : T -> T -> T; q_ptr : sdd }.
Definition squery_pure (q : squery) : T := sdd_fold T (q_true q) (q_false q) (q_lit q) (q_and q) (q_or q) (q_ptr q).
Fixpoint srun_queries (qs : list squery) (s : sscratch T) : list T * sscratch T :=
  match qs with
  | [] => ([], s)
  | q :: r =>
    let '(a, s1) := sdd_fold_public T (q_true q) (q_false q) (q_lit q) (q_and q) (q_or q) (q_ptr q) s in
    let '(rest, s2) := srun_queries r s1 in (a :: rest, s2)
  end.

Theorem sdd_queries_commute qs : forall s, sall_empty T s ->
  fst (srun_queries qs s) = map squery_pure qs /\ sall_empty T (snd (srun_queries qs s)).
Proof.
  induction qs as [|q r IH]; intros s E; cbn [srun_queries map]; [split; auto|].
  destruct (sdd_fold_public_pure T (q_true q) (q_false q) (q_lit q) (q_and q) (q_or q) (q_ptr q) s E) as [Ea Es].
  destruct (sdd_fold_public T (q_true q) (q_false q) (q_lit q) (q_and q) (q_or q) (q_ptr q) s) as [a s1]. cbn [fst snd] in Ea, Es.
  destruct (IH s1 Es) as [Er Es2]. destruct (srun_queries r s1) as [rest s2]. cbn [fst snd] in *.
  split; [rewrite Ea, Er; reflexivity | exact Es2].
Qed.
End Seq.
