(* VTreeManager: in-order indices, Euler-tour lca, prime relation, variable count. *)
From Coq Require Import Bool List Lia Arith Permutation.
Import ListNotations.
From RsddV Require Import Base.Util Model.VTree Proofs.VTreeBase Proofs.VTreeTrav.

(* ---------- the Euler tour as a list of paths ---------- *)
Fixpoint rtour (t : vtree) : list path :=
  match t with
  | VLeaf _ => [[]]
  | VNode l r => [] :: map (cons false) (rtour l) ++ [] :: map (cons true) (rtour r) ++ [[]]
  end.

(* position of the first occurrence of a node in the tour *)
Fixpoint fo (t : vtree) (p : path) : nat :=
  match t, p with
  | VNode l r, false :: q => S (fo l q)
  | VNode l r, true :: q => S (length (rtour l) + S (fo r q))
  | _, _ => 0
  end.

Lemma euler_tour m (g : path -> nat) t : forall p,
  (forall q, valid t q -> m (p ++ q) = Some (g (p ++ q))) ->
  euler m p t = Some (map (fun q => g (p ++ q)) (rtour t)).
Proof.
  induction t as [v|l IHl r IHr]; intros p H; simpl.
  - rewrite <- (app_nil_r p) at 1. rewrite H by (exists (VLeaf v); reflexivity). reflexivity.
  - rewrite <- (app_nil_r p) at 1. rewrite H by (eexists; reflexivity).
    rewrite IHl, IHr.
    + assert (E1 : forall b T, map (fun q => g ((p ++ [b]) ++ q)) T = map (fun q => g (p ++ q)) (map (cons b) T)).
      { intros b T. rewrite map_map. apply map_ext. intros q. rewrite <- app_assoc. reflexivity. }
      rewrite !E1. rewrite !map_app. simpl. rewrite !map_app. simpl. rewrite ?app_nil_r. reflexivity.
    + intros q (s & Hq). rewrite <- app_assoc. simpl. apply H. exists s. exact Hq.
    + intros q (s & Hq). rewrite <- app_assoc. simpl. apply H. exists s. exact Hq.
Qed.

Lemma rtour_valid t : forall p, In p (rtour t) -> valid t p.
Proof.
  induction t as [v|l IHl r IHr]; intros p H; simpl in H.
  - destruct H as [<-|[]]. eexists; reflexivity.
  - assert (Hroot : valid (VNode l r) []) by (eexists; reflexivity).
    destruct H as [<-|H]; auto. apply in_app_or in H. destruct H as [H|[<-|H]]; auto.
    + apply in_map_iff in H. destruct H as (q & <- & H). destruct (IHl q H) as (s & Hs). exists s; auto.
    + apply in_app_or in H. destruct H as [H|[<-|[]]]; auto.
      apply in_map_iff in H. destruct H as (q & <- & H). destruct (IHr q H) as (s & Hs). exists s; auto.
Qed.

Lemma fo_spec t : forall p, valid t p -> index_of p (rtour t) = Some (fo t p).
Proof.
  induction t as [v|l IHl r IHr]; intros p (s & H).
  - destruct p; [reflexivity|discriminate].
  - destruct p as [|[|] q]; simpl in H.
    + reflexivity.
    + specialize (IHr q (ex_intro _ s H)).
      change (rtour (VNode l r)) with ([] :: map (cons false) (rtour l) ++ [] :: map (cons true) (rtour r) ++ [[]]).
      change (index_of (true :: q) ([] :: ?x)) with (option_map S (index_of (true :: q) x)).
      cbn [index_of]. replace (path_eqb (true :: q) []) with false by (symmetry; apply path_eqb_false; discriminate).
      rewrite index_of_app_notin.
      2:{ intros Hin. apply in_map_iff in Hin. destruct Hin as (y & E & _). discriminate. }
      cbn [index_of]. replace (path_eqb (true :: q) []) with false by (symmetry; apply path_eqb_false; discriminate).
      rewrite index_of_app_in.
      2:{ apply in_map. apply index_of_Some in IHr. eapply nth_error_In. apply IHr. }
      rewrite index_of_map_cons, IHr. simpl. rewrite map_length. reflexivity.
    + specialize (IHl q (ex_intro _ s H)).
      cbn [rtour index_of]. replace (path_eqb (false :: q) []) with false by (symmetry; apply path_eqb_false; discriminate).
      rewrite index_of_app_in.
      2:{ apply in_map. apply index_of_Some in IHl. eapply nth_error_In. apply IHl. }
      rewrite index_of_map_cons, IHl. reflexivity.
Qed.

Lemma fo_lt t p : valid t p -> fo t p < length (rtour t).
Proof. intros H. apply fo_spec, index_of_Some in H. tauto. Qed.

Lemma fo_inj t p q : valid t p -> valid t q -> fo t p = fo t q -> p = q.
Proof.
  intros Hp Hq E. apply fo_spec, index_of_Some in Hp. apply fo_spec, index_of_Some in Hq.
  rewrite E in Hp. destruct Hp as (Hp & _), Hq as (Hq & _). rewrite Hp in Hq. inversion Hq; auto.
Qed.

Lemma lcp_refl p : lcp p p = p.
Proof. induction p as [|b p IH]; simpl; auto. rewrite eqb_reflx, IH. reflexivity. Qed.
Lemma lcp_comm p : forall q, lcp p q = lcp q p.
Proof.
  induction p as [|b p IH]; intros [|c q]; simpl; auto.
  destruct b, c; simpl; auto; rewrite IH; reflexivity.
Qed.

(* between the first occurrences of two distinct nodes the tour passes through their least
   common ancestor and never leaves its subtree *)
Lemma tour_lca t : forall p q, valid t p -> valid t q -> fo t p < fo t q ->
  let S := slice (rtour t) (fo t p) (fo t q) in
  In (lcp p q) S /\ forall x, In x S -> exists s, x = lcp p q ++ s.
Proof.
  induction t as [v|l IHl r IHr]; intros p q Hp Hq Hlt.
  - destruct Hp as (s & Hp), Hq as (s' & Hq). destruct p; [|discriminate]. destruct q; [|discriminate].
    simpl in Hlt. lia.
  - pose proof (fo_lt _ _ Hp) as Lp. pose proof (fo_lt _ _ Hq) as Lq.
    destruct p as [|bp p].
    { simpl lcp. split; [|intros x _; exists x; reflexivity].
      eapply slice_nth with (k := 0); [reflexivity|]. simpl fo at 1. lia. }
    destruct q as [|bq q]; [destruct bp; simpl in Hlt; lia|].
    assert (Hp' : valid (if bp then r else l) p) by (destruct Hp as (s & Hp); exists s; exact Hp).
    assert (Hq' : valid (if bq then r else l) q) by (destruct Hq as (s & Hq); exists s; exact Hq).
    destruct bp, bq; cbn [fo] in *; unfold path in *.
    + (* both right *)
      cbn [rtour]. rewrite slice_cons. rewrite slice_app_r2 by apply map_length.
      rewrite slice_cons. pose proof (fo_lt _ _ Hq') as Lq'.
      rewrite slice_app_l by (rewrite map_length; unfold path in *; lia). rewrite slice_map.
      destruct (IHr p q Hp' Hq' ltac:(lia)) as (Hin & Hall). simpl lcp. split.
      * apply in_map. exact Hin.
      * intros x Hx. apply in_map_iff in Hx. destruct Hx as (y & <- & Hy).
        destruct (Hall y Hy) as (s & ->). exists s. reflexivity.
    + (* p right, q left: impossible *)
      pose proof (fo_lt _ _ Hq') as Lq'. unfold path in *. lia.
    + (* p left, q right: the middle visit of the root lies in the slice *)
      simpl lcp. split; [|intros x _; exists x; reflexivity].
      pose proof (fo_lt _ _ Hp') as Lp'.
      eapply slice_nth with (k := S (length (rtour l))); [|unfold path in *; lia].
      cbn [rtour nth_error]. rewrite nth_error_app2 by (rewrite map_length; unfold path in *; lia).
      rewrite map_length, Nat.sub_diag. reflexivity.
    + (* both left *)
      cbn [rtour]. rewrite slice_cons. pose proof (fo_lt _ _ Hq') as Lq'.
      rewrite slice_app_l by (rewrite map_length; unfold path in *; lia). rewrite slice_map.
      destruct (IHl p q Hp' Hq' ltac:(lia)) as (Hin & Hall). simpl lcp. split.
      * apply in_map. exact Hin.
      * intros x Hx. apply in_map_iff in Hx. destruct Hx as (y & <- & Hy).
        destruct (Hall y Hy) as (s & ->). exists s. reflexivity.
Qed.

Lemma lcp_valid t p q : valid t p -> valid t (lcp p q).
Proof.
  intros H. assert (E : exists s, p = lcp p q ++ s).
  { clear. revert q. induction p as [|b p IH]; intros [|c q]; simpl; eauto.
    destruct (eqb b c); simpl; eauto. destruct (IH q) as (s & E). exists s. rewrite <- E. reflexivity. }
  destruct E as (s & E). rewrite E in H. eapply valid_app_l; eauto.
Qed.

Lemma range_min_tour t p q : valid t p -> valid t q -> fo t p < fo t q ->
  range_min (map (G t) (rtour t)) (fo t p) (fo t q) = Some (G t (lcp p q)).
Proof.
  intros Hp Hq Hlt. unfold range_min. fold (slice (map (G t) (rtour t)) (fo t p) (fo t q)).
  rewrite slice_map. destruct (tour_lca t p q Hp Hq Hlt) as (Hin & Hall).
  apply list_min_spec; [apply in_map; exact Hin|].
  intros x Hx. apply in_map_iff in Hx. destruct Hx as (y & <- & Hy).
  destruct (Hall y Hy) as (s & E). destruct s as [|b s].
  - rewrite app_nil_r in E. subst. lia.
  - assert (Hv : valid t (lcp p q ++ b :: s)) by (rewrite <- E; apply rtour_valid; eapply slice_In; eauto).
    rewrite E. apply Nat.lt_le_incl. apply G_anc; auto. discriminate.
Qed.

(* ---------- LeastCommonAncestor ---------- *)
Lemma lca_new_spec t : exists c, lca_new t = Some c /\ seg c = map (G t) (rtour t) /\
  forall p, valid t p -> nth_error (index_map c) (G t p) = Some (fo t p).
Proof.
  unfold lca_new. cbv zeta. change (map fst (bfs t)) with (bpaths t).
  assert (Ee : euler (fun p : path => index_of p (bpaths t)) [] t = Some (map (G t) (rtour t))).
  { rewrite (euler_tour _ (G t) t []); [reflexivity|]. intros q Hq. simpl. apply G_spec; auto. }
  rewrite Ee.
  set (ev := map (G t) (rtour t)).
  set (gi := fun i => match nth_error (bpaths t) i with Some p => fo t p | None => 0 end).
  rewrite (map_opt_Some _ gi).
  - eexists. split; [reflexivity|]. split; [reflexivity|]. simpl.
    intros p Hp. destruct (G_spec t p Hp) as (_ & En & Hl).
    rewrite dfs_rdfs, rdfs_length.
    rewrite (map_nth_error gi (G t p) (seq 0 (size t)) (d := G t p)).
    + unfold gi. rewrite En. reflexivity.
    + rewrite (nth_error_nth' _ 0) by (rewrite seq_length; lia). rewrite seq_nth by lia. reflexivity.
  - intros i Hi. apply in_seq in Hi. rewrite dfs_rdfs, rdfs_length in Hi.
    destruct (G_nth t i ltac:(lia)) as (p & En & Hv & Eg). unfold gi. rewrite En.
    rewrite <- Eg. unfold ev. rewrite first_occ_map.
    + apply fo_spec; auto.
    + intros x Hx E. apply (G_inj t); auto. apply rtour_valid; auto.
Qed.

Lemma lca_bfs_correct t c p q : lca_new t = Some c -> valid t p -> valid t q ->
  lca_bfs c (G t p) (G t q) = Some (G t (lcp p q)).
Proof.
  intros Ec Hp Hq. destruct (lca_new_spec t) as (c' & Ec' & Es & Ei). rewrite Ec in Ec'. inversion Ec'; subst c'.
  unfold lca_bfs. destruct (G t p =? G t q) eqn:E.
  - apply Nat.eqb_eq in E. apply G_inj in E; auto. subst. rewrite lcp_refl. reflexivity.
  - apply Nat.eqb_neq in E. rewrite (Ei p Hp), (Ei q Hq), Es.
    assert (Hne : fo t p <> fo t q) by (intros H; apply E; f_equal; eapply fo_inj; eauto).
    destruct (fo t p <? fo t q) eqn:L.
    + apply Nat.ltb_lt in L. apply range_min_tour; auto.
    + apply Nat.ltb_ge in L. rewrite lcp_comm. apply range_min_tour; auto. lia.
Qed.

(* ---------- VTreeManager ---------- *)
Fixpoint leaf_labels (ns : list vtree) : list nat :=
  match ns with [] => [] | VLeaf v :: r => v :: leaf_labels r | VNode _ _ :: r => leaf_labels r end.

Lemma leaf_labels_app a b : leaf_labels (a ++ b) = leaf_labels a ++ leaf_labels b.
Proof. induction a as [|[v|l r] t IH]; simpl; auto. rewrite IH; reflexivity. Qed.

Lemma leaf_labels_rdfs t : leaf_labels (map snd (rdfs t)) = flatten t.
Proof.
  induction t as [v|l IHl r IHr]; simpl; auto.
  rewrite map_app. simpl. rewrite !map_snd_pre. rewrite leaf_labels_app. simpl. rewrite IHl, IHr. reflexivity.
Qed.

Lemma has_dup_NoDup l : has_dup l = false <-> NoDup l.
Proof.
  induction l as [|x t IH]; simpl; split; intros H; auto.
  - constructor.
  - apply orb_false_iff in H. destruct H as (H1 & H2). constructor; [|apply IH; auto].
    intros Hin. assert (existsb (Nat.eqb x) t = true) by (apply existsb_exists; exists x; split; auto; apply Nat.eqb_refl).
    congruence.
  - inversion H; subst. apply orb_false_iff. split; [|apply IH; auto].
    destruct (existsb (Nat.eqb x) t) eqn:E; auto. apply existsb_exists in E. destruct E as (y & Hy & E).
    apply Nat.eqb_eq in E; subst. tauto.
Qed.

Lemma In_leaf_labels v ns : In v (leaf_labels ns) <-> In (VLeaf v) ns.
Proof.
  induction ns as [|[w|l r] t IH]; simpl; [tauto| |].
  - rewrite IH. split; (intros [H|H]; [left; congruence|right; exact H]).
  - rewrite IH. split; [auto|intros [H|H]; [discriminate|auto]].
Qed.

Lemma fill_lookup_spec : forall ns i tbl,
  (forall v, In v (leaf_labels ns) -> v < length tbl) ->
  exists tbl', fill_lookup ns i tbl = Some tbl' /\ length tbl' = length tbl /\
    (forall v, ~ In v (leaf_labels ns) -> nth_error tbl' v = nth_error tbl v) /\
    (NoDup (leaf_labels ns) -> forall k v, nth_error ns k = Some (VLeaf v) -> nth_error tbl' v = Some (i + k)).
Proof.
  induction ns as [|[w|l r] t IH]; intros i tbl Hb; simpl in *.
  - exists tbl. repeat split; auto. intros _ [|k] v H; discriminate.
  - assert (Hw : w < length tbl) by auto. apply Nat.ltb_lt in Hw. rewrite Hw. apply Nat.ltb_lt in Hw.
    destruct (IH (S i) (set_nth tbl w i)) as (tbl' & E & L & Hout & Hin).
    { intros v Hv. rewrite length_set_nth. auto. }
    exists tbl'. split; auto. split; [rewrite L; apply length_set_nth|]. split.
    + intros v Hv. rewrite Hout by tauto. assert (w <> v) by tauto.
      destruct (le_lt_dec (length tbl) v) as [Hge|Hlt].
      * rewrite (proj2 (nth_error_None _ _)) by (rewrite length_set_nth; lia).
        symmetry. apply nth_error_None. lia.
      * rewrite !(nth_error_nth' _ 0) by (rewrite ?length_set_nth; lia). f_equal. apply nth_set_nth_neq; auto.
    + intros ND k v Hk. inversion ND as [|? ? Hn ND']; subst. destruct k as [|k]; simpl in Hk.
      * inversion Hk; subst. rewrite Hout by auto.
        rewrite (nth_error_nth' _ 0) by (rewrite length_set_nth; lia). rewrite nth_set_nth_eq by lia. f_equal; lia.
      * rewrite (Hin ND' k v Hk). f_equal; lia.
  - destruct (IH (S i) tbl Hb) as (tbl' & E & L & Hout & Hin).
    exists tbl'. repeat split; auto. intros ND [|k] v Hk; simpl in Hk; [discriminate|].
    rewrite (Hin ND k v Hk). f_equal; lia.
Qed.

Lemma flatten_lt t v : In v (flatten t) -> v < vt_num_vars t.
Proof.
  induction t as [w|l IHl r IHr]; simpl; intros H.
  - destruct H as [->|[]]. lia.
  - apply in_app_or in H. destruct H as [H|H]; [apply IHl in H|apply IHr in H]; lia.
Qed.

Lemma d2b_spec t : dfs_to_bfs t = Some (map (G t) (map fst (rdfs t))).
Proof.
  unfold dfs_to_bfs. rewrite dfs_rdfs. apply map_opt_Some. intros p Hp.
  apply G_spec. apply rdfs_fst_In; auto.
Qed.

Lemma b2d_spec t : bfs_to_dfs t = Some (map (idx t) (bpaths t)).
Proof.
  unfold bfs_to_dfs. rewrite dfs_rdfs. apply map_opt_Some. intros p Hp.
  apply rdfs_index. apply bpaths_In; auto.
Qed.

Lemma manager_new_inv t m : manager_new t = Some m ->
  NoDup (flatten t) /\ m_tree m = t /\ m_dfs_to_bfs m = map (G t) (map fst (rdfs t)) /\
  m_bfs_to_dfs m = map (idx t) (bpaths t) /\ lca_new t = Some (m_lca m) /\
  m_index_lookup m = map snd (rdfs t) /\
  fill_lookup (map snd (rdfs t)) 0 (repeat 0 (vt_num_vars t)) = Some (m_vtree_index m).
Proof.
  unfold manager_new. destruct (has_dup (flatten t)) eqn:Hd; [discriminate|].
  rewrite d2b_spec, b2d_spec, dfs_rdfs.
  destruct (fill_lookup _ _ _) as [vi|]; [|discriminate].
  destruct (lca_new t) as [c|]; [|discriminate].
  intros H; inversion H; subst; simpl. apply has_dup_NoDup in Hd. repeat split; auto.
Qed.

(* VTreeManager::new succeeds exactly on trees without a repeated label *)
Theorem manager_new_total t : NoDup (flatten t) <-> exists m, manager_new t = Some m.
Proof.
  split.
  - intros ND. unfold manager_new. rewrite (proj2 (has_dup_NoDup _) ND).
    rewrite d2b_spec, b2d_spec, dfs_rdfs.
    destruct (fill_lookup_spec (map snd (rdfs t)) 0 (repeat 0 (vt_num_vars t))) as (vi & E & _).
    { intros v Hv. rewrite leaf_labels_rdfs in Hv. rewrite repeat_length. apply flatten_lt; auto. }
    rewrite E. destruct (lca_new_spec t) as (c & Ec & _). rewrite Ec. eexists; reflexivity.
  - intros (m & H). apply manager_new_inv in H. tauto.
Qed.

(* in-order indices: the table of subtrees and the label table are the in-order numbering *)
Theorem vtree_index_inorder t m : manager_new t = Some m ->
  length (m_index_lookup m) = size t /\
  (forall p s, subtree t p = Some s -> mgr_vtree m (idx t p) = Some s) /\
  (forall p v, subtree t p = Some (VLeaf v) -> var_index m v = Some (idx t p)).
Proof.
  intros H. apply manager_new_inv in H. destruct H as (ND & _ & _ & _ & _ & El & Ef).
  split; [rewrite El, map_length; apply rdfs_length|]. split.
  - intros p s Hs. unfold mgr_vtree. rewrite El. rewrite (map_nth_error _ _ _ (rdfs_nth t p s Hs)). reflexivity.
  - intros p v Hs. unfold var_index.
    destruct (fill_lookup_spec (map snd (rdfs t)) 0 (repeat 0 (vt_num_vars t))) as (vi & E & _ & _ & Hin).
    { intros w Hw. rewrite leaf_labels_rdfs in Hw. rewrite repeat_length. apply flatten_lt; auto. }
    rewrite Ef in E. inversion E; subst vi.
    rewrite leaf_labels_rdfs in Hin. apply (Hin ND (idx t p) v).
    rewrite (map_nth_error _ _ _ (rdfs_nth t p _ Hs)). reflexivity.
Qed.

(* the Euler-tour / range-minimum lca is the least common ancestor (longest common prefix) *)
Theorem lca_correct t m p q : manager_new t = Some m -> valid t p -> valid t q ->
  mgr_lca m (idx t p) (idx t q) = Some (idx t (lcp p q)).
Proof.
  intros H Hp Hq. apply manager_new_inv in H. destruct H as (_ & _ & Ed & Eb & Ec & _ & _).
  unfold mgr_lca. rewrite Ed, Eb.
  destruct Hp as (sp & Hsp), Hq as (sq & Hsq).
  rewrite (map_nth_error _ _ _ (map_nth_error fst _ _ (rdfs_nth t p sp Hsp))).
  rewrite (map_nth_error _ _ _ (map_nth_error fst _ _ (rdfs_nth t q sq Hsq))). simpl fst.
  rewrite (lca_bfs_correct t _ p q Ec) by (eexists; eauto).
  assert (Hc : valid t (lcp p q)) by (apply lcp_valid; eexists; eauto).
  destruct (G_spec t _ Hc) as (_ & En & _). rewrite (map_nth_error _ _ _ En). reflexivity.
Qed.

(* ---------- the prime relation ---------- *)
Definition prime_rel (p q : path) : Prop :=
  let c := lcp p q in
  (p = c \/ exists s, p = c ++ false :: s) /\ (q = c \/ exists s, q = c ++ true :: s) /\ p <> q.

Lemma prime_rel_cons b p q : prime_rel (b :: p) (b :: q) <-> prime_rel p q.
Proof.
  unfold prime_rel. simpl. rewrite eqb_reflx. split; intros (H1 & H2 & H3); repeat split.
  - destruct H1 as [H1|(s & H1)]; [left; congruence|right; exists s; simpl in H1; congruence].
  - destruct H2 as [H2|(s & H2)]; [left; congruence|right; exists s; simpl in H2; congruence].
  - congruence.
  - destruct H1 as [H1|(s & H1)]; [left; congruence|right; exists s; simpl; congruence].
  - destruct H2 as [H2|(s & H2)]; [left; congruence|right; exists s; simpl; congruence].
  - congruence.
Qed.

Lemma idx_lt_iff t : forall p q, valid t p -> valid t q -> (idx t p < idx t q <-> prime_rel p q).
Proof.
  induction t as [v|l IHl r IHr]; intros p q Hp Hq.
  - destruct Hp as (s & Hp), Hq as (s' & Hq). destruct p; [|discriminate]. destruct q; [|discriminate].
    simpl. unfold prime_rel. split; [lia|]. intros (_ & _ & Hne). congruence.
  - destruct p as [|bp p]; destruct q as [|bq q].
    + simpl. unfold prime_rel. split; [lia|]. intros (_ & _ & Hne). congruence.
    + assert (Hq' : valid (if bq then r else l) q) by (destruct Hq as (s & Hq); exists s; exact Hq).
      destruct bq; simpl; unfold prime_rel; simpl.
      * split; [intros _|lia]. repeat split; auto; [right; exists q; reflexivity|discriminate].
      * pose proof (idx_lt _ _ Hq'). split; [lia|]. intros (_ & [Hx|(sx & Hx)] & _); discriminate.
    + assert (Hp' : valid (if bp then r else l) p) by (destruct Hp as (s & Hp); exists s; exact Hp).
      destruct bp; simpl; unfold prime_rel; simpl.
      * split; [lia|]. intros ([Hx|(sx & Hx)] & _); discriminate.
      * pose proof (idx_lt _ _ Hp'). split; [intros _|lia].
        repeat split; auto; [right; exists p; reflexivity|discriminate].
    + assert (Hp' : valid (if bp then r else l) p) by (destruct Hp as (s & Hp); exists s; exact Hp).
      assert (Hq' : valid (if bq then r else l) q) by (destruct Hq as (s & Hq); exists s; exact Hq).
      destruct bp, bq.
      * rewrite prime_rel_cons. rewrite <- (IHr p q Hp' Hq'). simpl. lia.
      * pose proof (idx_lt _ _ Hq'). simpl. unfold prime_rel; simpl. split; [lia|].
        intros ([Hx|(sx & Hx)] & _); discriminate.
      * pose proof (idx_lt _ _ Hp'). simpl. unfold prime_rel; simpl. split; [intros _|lia].
        repeat split; [right; exists p; reflexivity|right; exists q; reflexivity|discriminate].
      * rewrite prime_rel_cons. rewrite <- (IHl p q Hp' Hq'). simpl. lia.
Qed.

(* is_prime_index i j (i < j on in-order indices)  <=>  with a the least common ancestor,
   i is a or lies in a's left subtree, j is a or lies in a's right subtree (and i, j differ) *)
Theorem is_prime_iff t p q : valid t p -> valid t q ->
  (is_prime_index (idx t p) (idx t q) = true <-> prime_rel p q).
Proof.
  intros Hp Hq. unfold is_prime_index. rewrite Nat.ltb_lt. apply idx_lt_iff; auto.
Qed.

(* ---------- num_vars ---------- *)
Lemma set_add_In x y s : In y (set_add x s) <-> y = x \/ In y s.
Proof.
  induction s as [|z t IH]; simpl; [intuition|].
  destruct (x =? z) eqn:E; simpl.
  - apply Nat.eqb_eq in E; subst. intuition.
  - rewrite IH. intuition.
Qed.

Lemma set_add_NoDup x s : NoDup s -> NoDup (set_add x s).
Proof.
  induction s as [|z t IH]; intros H; simpl.
  - constructor; auto; constructor.
  - destruct (x =? z) eqn:E; auto. inversion H; subst. constructor; [|apply IH; auto].
    rewrite set_add_In. apply Nat.eqb_neq in E. intuition.
Qed.

Lemma set_union_spec b : forall a, NoDup a ->
  NoDup (set_union a b) /\ forall y, In y (set_union a b) <-> In y a \/ In y b.
Proof.
  unfold set_union. induction b as [|x t IH]; intros a H; simpl.
  - split; auto. intuition.
  - destruct (IH (set_add x a) (set_add_NoDup x a H)) as (ND & Hin). split; auto.
    intros y. rewrite Hin, set_add_In. intuition.
Qed.

Lemma all_vars_spec t : NoDup (all_vars t) /\ forall y, In y (all_vars t) <-> In y (flatten t).
Proof.
  induction t as [v|l (NDl & Hl) r (NDr & Hr)]; simpl.
  - split; [constructor; auto; constructor|tauto].
  - destruct (set_union_spec (all_vars r) (all_vars l) NDl) as (ND & Hin). split; auto.
    intros y. rewrite Hin, in_app_iff, Hl, Hr. tauto.
Qed.

(* num_vars = number of distinct labels; for a manager (no repeated label) the number of leaves *)
Theorem num_vars_count t m : manager_new t = Some m ->
  mgr_num_vars m = length (flatten t) /\
  forall n, Permutation (flatten t) (seq 0 n) -> mgr_num_vars m = n.
Proof.
  intros H. apply manager_new_inv in H. destruct H as (ND & Et & _).
  unfold mgr_num_vars. rewrite Et. destruct (all_vars_spec t) as (NDa & Hin).
  assert (E : length (all_vars t) = length (flatten t)).
  { apply Permutation_length. apply NoDup_Permutation; auto. }
  split; auto. intros n HP. rewrite E, (Permutation_length HP). apply seq_length.
Qed.

Theorem all_vars_count t : length (all_vars t) = length (nodup Nat.eq_dec (flatten t)).
Proof.
  destruct (all_vars_spec t) as (NDa & Hin). apply Permutation_length. apply NoDup_Permutation; auto.
  - apply NoDup_nodup.
  - intros y. rewrite nodup_In. apply Hin.
Qed.

(* ---------- constructors keep the order of the labels ---------- *)
Lemma right_linear_eq x y rest : right_linear (x :: y :: rest) =
  match right_linear (y :: rest) with Some r => Some (VNode (VLeaf x) r) | None => None end.
Proof. reflexivity. Qed.

Lemma right_linear_flatten o : forall t, right_linear o = Some t -> flatten t = o.
Proof.
  induction o as [|x o IH]; intros t H; [discriminate|].
  destruct o as [|y rest].
  - inversion H; reflexivity.
  - rewrite right_linear_eq in H. destruct (right_linear (y :: rest)) as [r|] eqn:E; [|discriminate].
    inversion H; subst. simpl. rewrite (IH r eq_refl). reflexivity.
Qed.

Lemma right_linear_total o : o <> [] -> exists t, right_linear o = Some t.
Proof.
  induction o as [|x o IH]; intros H; [congruence|].
  destruct o as [|y rest]; [simpl; eauto|].
  rewrite right_linear_eq. destruct IH as (r & E); [discriminate|]. rewrite E. eauto.
Qed.

Lemma left_linear_rev_eq x y rest : left_linear_rev (x :: y :: rest) =
  match left_linear_rev (y :: rest) with Some l => Some (VNode l (VLeaf x)) | None => None end.
Proof. reflexivity. Qed.

Lemma left_linear_flatten o t : left_linear o = Some t -> flatten t = o.
Proof.
  unfold left_linear. rewrite <- (rev_involutive o) at 2. generalize (rev o). clear o.
  intros ro. revert t. induction ro as [|x ro IH]; intros t H; [discriminate|].
  destruct ro as [|y rest].
  - inversion H; reflexivity.
  - rewrite left_linear_rev_eq in H. destruct (left_linear_rev (y :: rest)) as [l|] eqn:E; [|discriminate].
    inversion H; subst. simpl flatten. rewrite (IH l eq_refl). reflexivity.
Qed.

Lemma even_split_flatten k : forall o t, even_split o k = Some t -> flatten t = o.
Proof.
  induction k as [|k IH]; intros o t H; simpl in H.
  - apply right_linear_flatten; auto.
  - destruct (even_split (firstn _ o) k) as [l|] eqn:El; [|discriminate].
    destruct (even_split (skipn _ o) k) as [r|] eqn:Er; [|discriminate].
    inversion H; subst. simpl. rewrite (IH _ _ El), (IH _ _ Er). apply firstn_skipn.
Qed.

Lemma rand_split_eq choose f x y z rest : rand_split choose (S f) (x :: y :: z :: rest) =
  let o := x :: y :: z :: rest in
  let s := 1 + Nat.min (choose o) (length o - 2) in
  match rand_split choose f (firstn s o), rand_split choose f (skipn s o) with
  | Some l, Some r => Some (VNode l r) | _, _ => None end.
Proof. reflexivity. Qed.

Lemma rand_split_flatten choose fuel : forall o t, rand_split choose fuel o = Some t -> flatten t = o.
Proof.
  induction fuel as [|f IH]; intros o t H; [discriminate|].
  destruct o as [|x [|y [|z rest]]]; try discriminate.
  - inversion H; reflexivity.
  - inversion H; reflexivity.
  - rewrite rand_split_eq in H. cbv zeta in H.
    set (oo := x :: y :: z :: rest) in *. set (s := 1 + Nat.min (choose oo) (length oo - 2)) in *.
    destruct (rand_split choose f (firstn s oo)) as [l|] eqn:El; [|discriminate].
    destruct (rand_split choose f (skipn s oo)) as [r|] eqn:Er; [|discriminate].
    inversion H; subst t. simpl. rewrite (IH _ _ El), (IH _ _ Er). apply firstn_skipn.
Qed.

Lemma right_linear_c_flatten vars : forall cont t, right_linear_c vars cont = Some t ->
  flatten t = vars ++ match cont with Some c => flatten c | None => [] end.
Proof.
  induction vars as [|v [|w rest] IH]; intros cont t H.
  - destruct cont; simpl in H; inversion H; reflexivity.
  - destruct cont; simpl in H; inversion H; reflexivity.
  - change (right_linear_c (v :: w :: rest) cont) with
      (match right_linear_c (w :: rest) cont with Some sub => Some (VNode (VLeaf v) sub) | None => None end) in H.
    destruct (right_linear_c (w :: rest) cont) as [sub|] eqn:E; [|discriminate].
    inversion H; subst. simpl flatten. rewrite (IH cont sub E). reflexivity.
Qed.

Lemma right_linear_c_total vars cont : (vars <> [] \/ cont <> None) -> exists t, right_linear_c vars cont = Some t.
Proof.
  induction vars as [|v [|w rest] IH]; intros H.
  - destruct cont; simpl; eauto. destruct H; congruence.
  - destruct cont; simpl; eauto.
  - change (right_linear_c (v :: w :: rest) cont) with
      (match right_linear_c (w :: rest) cont with Some sub => Some (VNode (VLeaf v) sub) | None => None end).
    destruct IH as (sub & E); [left; discriminate|]. rewrite E. eauto.
Qed.
