(* C09 — proofs about the unit-propagation / SATSolver model (Model/UnitProp.v). *)
From Coq Require Import Bool NArith List Arith Lia Permutation.
Import ListNotations.
From RsddV Require Import Base.Util Model.UnitProp.

(* ---------- semantics ---------- *)
Definition asg := nat -> bool.
Definition lit_holds (a : asg) (l : lit) : bool := Bool.eqb (a (lvar l)) (lpol l).
Definition clause_holds (a : asg) (c : clause) : bool := existsb (lit_holds a) c.
Definition cnf_holds (a : asg) (cls : list clause) : bool := forallb (clause_holds a) cls.
Definition extends (a : asg) (m : pmodel) : Prop := forall v b, pm_get m v = Some b -> a v = b.
Definition pm_le (m m' : pmodel) : Prop := forall v b, pm_get m v = Some b -> pm_get m' v = Some b.
(* a satisfies the CNF and all decisions *)
Definition sat_with (a : asg) (cls : list clause) (ds : list lit) : Prop :=
  cnf_holds a cls = true /\ forall d, In d ds -> lit_holds a d = true.
Definition entailed (cls : list clause) (ds : list lit) (m : pmodel) : Prop :=
  forall a, sat_with a cls ds -> extends a m.

(* ---------- partial models ---------- *)
Lemma pm_get_set_inv m v b v' x :
  pm_get (pm_set m v b) v' = Some x -> (v' = v /\ x = b) \/ pm_get m v' = Some x.
Proof.
  unfold pm_get, pm_set. intros H. destruct (Nat.eq_dec v v') as [->|Hne].
  - destruct (Nat.lt_ge_cases v' (length m)) as [Hlt|Hge].
    + rewrite nth_set_nth_eq in H by exact Hlt. left. split; congruence.
    + rewrite nth_overflow in H by (rewrite length_set_nth; exact Hge). discriminate.
  - rewrite nth_set_nth_neq in H by exact Hne. right. exact H.
Qed.

Lemma pm_get_set_same m v b : v < length m -> pm_get (pm_set m v b) v = Some b.
Proof. intros H. unfold pm_get, pm_set. apply nth_set_nth_eq. exact H. Qed.

Lemma pm_get_set_other m v b v' : v <> v' -> pm_get (pm_set m v b) v' = pm_get m v'.
Proof. intros H. unfold pm_get, pm_set. apply nth_set_nth_neq. exact H. Qed.

Lemma pm_le_refl m : pm_le m m.
Proof. intros v b H. exact H. Qed.
Lemma pm_le_trans m1 m2 m3 : pm_le m1 m2 -> pm_le m2 m3 -> pm_le m1 m3.
Proof. intros H1 H2 v b H. apply H2, H1, H. Qed.
Lemma pm_le_set m v b : pm_get m v = None -> pm_le m (pm_set m v b).
Proof.
  intros Hn v' x H. destruct (Nat.eq_dec v v') as [->|Hne].
  - congruence.
  - rewrite pm_get_set_other by exact Hne. exact H.
Qed.

Lemma extends_set a m v b : extends a m -> a v = b -> extends a (pm_set m v b).
Proof.
  intros He Ha v' x H. apply pm_get_set_inv in H. destruct H as [[-> ->]|H].
  - exact Ha.
  - apply He, H.
Qed.

Lemma lit_holds_true a m l : extends a m -> lit_true m l = true -> lit_holds a l = true.
Proof.
  unfold lit_true, lit_holds. intros He H. destruct (pm_get m (lvar l)) as [x|] eqn:E; [|discriminate].
  apply He in E. rewrite E. rewrite eqb_true_iff in *. congruence.
Qed.

(* a literal that holds in an extension of m is true or unset under m *)
Lemma holds_true_or_unset a m l :
  extends a m -> lit_holds a l = true -> lit_true m l = true \/ lit_unset m l = true.
Proof.
  unfold lit_true, lit_unset, pm_is_set, lit_holds. intros He H.
  destruct (pm_get m (lvar l)) as [x|] eqn:E; [|right; reflexivity].
  left. apply He in E. rewrite <- E. rewrite eqb_true_iff in *. congruence.
Qed.

Lemma filter_singleton {A} (p : A -> bool) l u x : filter p l = [u] -> In x l -> p x = true -> x = u.
Proof.
  intros Hf Hin Hp. assert (Hx : In x (filter p l)) by (apply filter_In; split; assumption).
  rewrite Hf in Hx. destruct Hx as [Hx|[]]. congruence.
Qed.

Lemma filter_nil_none {A} (p : A -> bool) l x : filter p l = [] -> In x l -> p x = false.
Proof.
  intros Hf Hin. destruct (p x) eqn:Hp; [|reflexivity].
  assert (Hx : In x (filter p l)) by (apply filter_In; split; assumption). rewrite Hf in Hx. destruct Hx.
Qed.

(* a clause that holds under an extension of m, has no true literal under m and whose only
   unassigned occurrence is u, forces u *)
Lemma unit_forced a m c u :
  extends a m -> clause_holds a c = true -> clause_sat m c = false -> remaining m c = [u] ->
  lit_holds a u = true.
Proof.
  intros He Hc Hs Hr. unfold clause_holds in Hc. apply existsb_exists in Hc. destruct Hc as [x [Hin Hx]].
  destruct (holds_true_or_unset a m x He Hx) as [Ht|Hu].
  - exfalso. assert (Hs' : clause_sat m c = true) by (apply existsb_exists; exists x; split; assumption).
    congruence.
  - rewrite <- (filter_singleton _ _ _ _ Hr Hin Hu). exact Hx.
Qed.

Lemma falsified_no_model a m c :
  extends a m -> clause_holds a c = true -> clause_sat m c = false -> remaining m c = [] -> False.
Proof.
  intros He Hc Hs Hr. unfold clause_holds in Hc. apply existsb_exists in Hc. destruct Hc as [x [Hin Hx]].
  destruct (holds_true_or_unset a m x He Hx) as [Ht|Hu].
  - assert (Hs' : clause_sat m c = true) by (apply existsb_exists; exists x; split; assumption). congruence.
  - rewrite (filter_nil_none _ _ _ Hr Hin) in Hu. discriminate.
Qed.

(* ---------- watch lists: every entry is a clause index ---------- *)
Definition wl_ok (n : nat) (ll : list (list nat)) : Prop := Forall (Forall (fun ci => ci < n)) ll.
Definition w_ok (n : nat) (w : watches) : Prop := wl_ok n (wpos w) /\ wl_ok n (wneg w).

Lemma Forall_set_nth {A} (P : A -> Prop) l i x : Forall P l -> P x -> Forall P (set_nth l i x).
Proof.
  revert i; induction l as [|y t IH]; intros [|i] Hl Hx; simpl; auto; inversion Hl; subst; constructor; auto.
Qed.

Lemma Forall_removelast {A} (P : A -> Prop) l : Forall P l -> Forall P (removelast l).
Proof.
  induction l as [|y t IH]; intros H; simpl; auto. inversion H; subst.
  destruct t; [constructor|]. constructor; auto.
Qed.

Lemma wl_get_ok n w l : w_ok n w -> Forall (fun ci => ci < n) (wl_get w l).
Proof.
  intros [Hp Hn]. unfold wl_get. destruct (lpol l).
  - destruct (Nat.lt_ge_cases (lvar l) (length (wpos w))) as [H|H].
    + eapply Forall_forall in Hp; [exact Hp|]. apply nth_In. exact H.
    + rewrite nth_overflow by exact H. constructor.
  - destruct (Nat.lt_ge_cases (lvar l) (length (wneg w))) as [H|H].
    + eapply Forall_forall in Hn; [exact Hn|]. apply nth_In. exact H.
    + rewrite nth_overflow by exact H. constructor.
Qed.

Lemma wl_put_ok n w l x : w_ok n w -> Forall (fun ci => ci < n) x -> w_ok n (wl_put w l x).
Proof.
  intros [Hp Hn] Hx. unfold wl_put. destruct (lpol l); split; simpl; auto; apply Forall_set_nth; auto.
Qed.

Lemma swap_remove_ok n l i : Forall (fun ci => ci < n) l -> Forall (fun ci => ci < n) (swap_remove l i).
Proof.
  intros H. unfold swap_remove. destruct (rev l) as [|lastx r] eqn:E; [constructor|].
  assert (Hl : lastx < n).
  { eapply Forall_forall in H; [exact H|]. apply in_rev. rewrite E. left. reflexivity. }
  destruct (Nat.eqb (S i) (length l)).
  - apply Forall_removelast. exact H.
  - apply Forall_removelast. apply Forall_set_nth; assumption.
Qed.

Lemma wl_push_ok n w l ci : w_ok n w -> ci < n -> w_ok n (wl_push w l ci).
Proof.
  intros Hw Hc. unfold wl_push. apply wl_put_ok; [exact Hw|].
  apply Forall_app. split; [apply wl_get_ok; exact Hw|]. constructor; [exact Hc|constructor].
Qed.

Lemma nth_In_clause (cls : list clause) ci : ci < length cls -> In (nth ci cls []) cls.
Proof. intros H. apply nth_In. exact H. Qed.

Lemma cnf_holds_clause a cls c : cnf_holds a cls = true -> In c cls -> clause_holds a c = true.
Proof. unfold cnf_holds. rewrite forallb_forall. auto. Qed.

(* ---------- one-step equation of the watcher loop ---------- *)
Lemma up_loop_S pinned cls f w m a idx :
  up_loop pinned cls (S f) w m a idx =
    let wl := wl_get w (lneg a) in
    if Nat.leb (length wl) idx then URes w (Some m) else
    let ci := nth idx wl 0 in
    let c := nth ci cls [] in
    if clause_sat m c then up_loop pinned cls f w m a (S idx) else
    match remaining m c with
    | [] => URes w None
    | [u] =>
      match up_decide pinned cls f w m u with
      | UOutOfFuel => UOutOfFuel
      | URes w' None => URes w' None
      | URes w' (Some m') => up_loop pinned cls f w' m' a (S idx)
      end
    | cand :: second :: _ =>
      let consulted := if pinned then (lvar cand, lpol a) else cand in
      let new_lit := if mem_nat ci (wl_get w consulted) then second else cand in
      let w1 := wl_put w (lneg a) (swap_remove wl idx) in
      let w2 := wl_push w1 new_lit ci in
      up_loop pinned cls f w2 m a idx
    end.
Proof. reflexivity. Qed.

Lemma up_decide_S pinned cls f w m a :
  up_decide pinned cls (S f) w m a =
    match pm_get m (lvar a) with
    | Some v => if Bool.eqb v (lpol a) then URes w (Some m) else URes w None
    | None => up_loop pinned cls f w (pm_set m (lvar a) (lpol a)) a 0
    end.
Proof. reflexivity. Qed.

(* ---------- the basic postcondition of decide / the loop: watch entries stay clause indices,
   the model only grows, keeps its length, and every total assignment that satisfies the CNF,
   extends the incoming model and makes the decided literal true extends the result (so UNSAT is
   returned only when there is no such assignment) ---------- *)
Definition post (cls : list clause) (m : pmodel) (w' : watches) (r : option pmodel) (ok : asg -> Prop) : Prop :=
  w_ok (length cls) w' /\
  (forall m', r = Some m' -> length m' = length m /\ pm_le m m') /\
  (forall a, cnf_holds a cls = true -> extends a m -> ok a -> exists m', r = Some m' /\ extends a m').

Lemma up_basic pinned cls fuel :
  (forall w m l w' r, w_ok (length cls) w -> up_decide pinned cls fuel w m l = URes w' r ->
     post cls m w' r (fun a => lit_holds a l = true)) /\
  (forall w m l idx w' r, w_ok (length cls) w -> up_loop pinned cls fuel w m l idx = URes w' r ->
     post cls m w' r (fun _ => True)).
Proof.
  induction fuel as [|f [IHd IHl]]; [split; intros; discriminate|]. split.
  - intros w m l w' r Hw H. rewrite up_decide_S in H.
    destruct (pm_get m (lvar l)) as [x|] eqn:E.
    + destruct (Bool.eqb x (lpol l)) eqn:Ex; inversion H; subst; (split; [exact Hw|split]).
      * intros m' Hm'. inversion Hm'; subst. split; [reflexivity|apply pm_le_refl].
      * intros a _ He _. exists m. split; [reflexivity|exact He].
      * intros m' Hm'. discriminate.
      * intros a _ He Hl. exfalso. apply He in E. unfold lit_holds in Hl. rewrite E in Hl. congruence.
    + apply IHl in H; [|exact Hw]. destruct H as [Hw' [Hm' Ha]]. split; [exact Hw'|split].
      * intros m' Hr. destruct (Hm' m' Hr) as [Hlen Hle]. unfold pm_set in Hlen. rewrite length_set_nth in Hlen.
        split; [exact Hlen|]. eapply pm_le_trans; [apply pm_le_set; exact E|exact Hle].
      * intros a Hc He Hl. apply Ha; auto. apply extends_set; [exact He|].
        unfold lit_holds in Hl. apply eqb_prop in Hl. exact Hl.
  - intros w m l idx w' r Hw H. rewrite up_loop_S in H. cbv zeta in H.
    destruct (Nat.leb (length (wl_get w (lneg l))) idx) eqn:Eidx.
    { inversion H; subst. split; [exact Hw|split].
      - intros m' Hm'. inversion Hm'; subst. split; [reflexivity|apply pm_le_refl].
      - intros a _ He _. exists m. split; [reflexivity|exact He]. }
    apply Nat.leb_gt in Eidx.
    set (ci := nth idx (wl_get w (lneg l)) 0) in *.
    assert (Hci : ci < length cls).
    { pose proof (wl_get_ok _ _ (lneg l) Hw) as Hall. eapply Forall_forall in Hall; [exact Hall|].
      apply nth_In. exact Eidx. }
    set (c := nth ci cls []) in *.
    assert (Hc : In c cls) by (apply nth_In_clause; exact Hci).
    destruct (clause_sat m c) eqn:Esat.
    { apply IHl in H; [exact H|exact Hw]. }
    destruct (remaining m c) as [|u [|second rest]] eqn:Erem.
    + inversion H; subst. split; [exact Hw|split].
      * intros m' Hm'. discriminate.
      * intros a Hcnf He _. exfalso. eapply falsified_no_model; eauto. eapply cnf_holds_clause; eauto.
    + destruct (up_decide pinned cls f w m u) as [|w1 [m1|]] eqn:Ed; [discriminate| |].
      * apply IHd in Ed; [|exact Hw]. destruct Ed as [Hw1 [Hm1 Ha1]].
        apply IHl in H; [|exact Hw1]. destruct H as [Hw' [Hm' Ha']].
        destruct (Hm1 m1 eq_refl) as [Hlen1 Hle1].
        split; [exact Hw'|split].
        -- intros m' Hr. destruct (Hm' m' Hr) as [Hlen Hle]. split; [congruence|eapply pm_le_trans; eauto].
        -- intros a Hcnf He _. destruct (Ha1 a Hcnf He) as [m1' [Hr1 He1]].
           { eapply unit_forced; eauto. eapply cnf_holds_clause; eauto. }
           inversion Hr1; subst. apply Ha'; auto.
      * inversion H; subst. apply IHd in Ed; [|exact Hw]. destruct Ed as [Hw1 [Hm1 Ha1]].
        split; [exact Hw1|split].
        -- intros m' Hr. discriminate.
        -- intros a Hcnf He _. destruct (Ha1 a Hcnf He) as [m1' [Hr1 He1]]; [|discriminate].
           eapply unit_forced; eauto. eapply cnf_holds_clause; eauto.
    + apply IHl in H; [exact H|].
      apply wl_push_ok; [|exact Hci]. apply wl_put_ok; [exact Hw|].
      apply swap_remove_ok. apply wl_get_ok. exact Hw.
Qed.
(* ---------- UnitPropagate::new ---------- *)
Lemma up_new_scan_spec n rest : forall idx w implied,
  idx + length rest = n -> w_ok n w ->
  match up_new_scan rest idx w implied with
  | None => In [] rest
  | Some (w', implied') => w_ok n w' /\ forall l, In l implied' -> In l implied \/ In [l] rest
  end.
Proof.
  induction rest as [|c rest IH]; intros idx w implied Hn Hw; simpl.
  - split; [exact Hw|]. intros l H. left. exact H.
  - destruct c as [|l0 [|l1 c']].
    + left. reflexivity.
    + specialize (IH (S idx) w (implied ++ [l0])). simpl in Hn.
      destruct (up_new_scan rest (S idx) w (implied ++ [l0])) as [[w' implied']|].
      * destruct IH as [Hw' Hi]; [lia|exact Hw|]. split; [exact Hw'|]. intros l Hl.
        destruct (Hi l Hl) as [H|H].
        -- apply in_app_or in H. destruct H as [H|[H|[]]]; [left; exact H|]. subst. right. left. reflexivity.
        -- right. right. exact H.
      * right. apply IH; [lia|exact Hw].
    + simpl in Hn.
      specialize (IH (S idx) (wl_push (wl_push w l1 idx) l0 idx) implied).
      assert (Hw2 : w_ok n (wl_push (wl_push w l1 idx) l0 idx)) by (repeat apply wl_push_ok; auto; lia).
      destruct (up_new_scan rest (S idx) (wl_push (wl_push w l1 idx) l0 idx) implied) as [[w' implied']|].
      * destruct IH as [Hw' Hi]; [lia|exact Hw2|]. split; [exact Hw'|]. intros l Hl.
        destruct (Hi l Hl) as [H|H]; [left; exact H|right; right; exact H].
      * right. apply IH; [lia|exact Hw2].
Qed.

Lemma up_new_units_spec pinned cls fuel : forall implied w m w' r,
  w_ok (length cls) w ->
  (forall l, In l implied -> In [l] cls) ->
  up_new_units pinned cls fuel w m implied = URes w' r -> post cls m w' r (fun _ => True).
Proof.
  induction implied as [|i rest IH]; intros w m w' r Hw Hi H; simpl in H.
  - inversion H; subst. split; [exact Hw|split].
    + intros m' Hm'. inversion Hm'; subst. split; [reflexivity|apply pm_le_refl].
    + intros a _ He _. exists m. split; [reflexivity|exact He].
  - assert (Hunit : forall a, cnf_holds a cls = true -> lit_holds a i = true).
    { intros a Hc. pose proof (cnf_holds_clause a cls [i] Hc (Hi i (or_introl eq_refl))) as Hu.
      unfold clause_holds in Hu. simpl in Hu. rewrite orb_false_r in Hu. exact Hu. }
    destruct (up_decide pinned cls fuel w m i) as [|w1 [m1|]] eqn:Ed; [discriminate| |].
    + apply (proj1 (up_basic pinned cls fuel)) in Ed; [|exact Hw]. destruct Ed as [Hw1 [Hm1 Ha1]].
      apply IH in H; [|exact Hw1|intros l Hl; apply Hi; right; exact Hl]. destruct H as [Hw' [Hm' Ha']].
      destruct (Hm1 m1 eq_refl) as [Hlen1 Hle1]. split; [exact Hw'|split].
      * intros m' Hr. destruct (Hm' m' Hr) as [Hlen Hle]. split; [congruence|eapply pm_le_trans; eauto].
      * intros a Hc He _. destruct (Ha1 a Hc He (Hunit a Hc)) as [m1' [Hr1 He1]]. inversion Hr1; subst.
        apply Ha'; auto.
    + inversion H; subst. apply (proj1 (up_basic pinned cls fuel)) in Ed; [|exact Hw].
      destruct Ed as [Hw1 [Hm1 Ha1]]. split; [exact Hw1|split].
      * intros m' Hr. discriminate.
      * intros a Hc He _. destruct (Ha1 a Hc He (Hunit a Hc)) as [m1' [Hr1 _]]. discriminate.
Qed.

Lemma wl_ok_repeat n k : wl_ok n (repeat [] k).
Proof. unfold wl_ok. apply Forall_forall. intros x Hx. apply repeat_spec in Hx. subst. constructor. Qed.

Lemma extends_new a n : extends a (pm_new n).
Proof.
  intros v b H. unfold pm_get, pm_new in H. rewrite nth_repeat_lt in H. destruct (Nat.ltb v n); discriminate.
Qed.

Lemma existsb_nil_clause a : clause_holds a [] = false.
Proof. reflexivity. Qed.

Lemma up_new_spec pinned cls nvars fuel w' r :
  up_new pinned cls nvars fuel = URes w' r ->
  (forall m', r = Some m' -> w_ok (length cls) w' /\ length m' = nvars) /\
  (forall a, cnf_holds a cls = true -> exists m', r = Some m' /\ extends a m').
Proof.
  unfold up_new. intros H.
  pose proof (up_new_scan_spec (length cls) cls 0 (mkW (repeat [] nvars) (repeat [] nvars)) [] eq_refl) as Hs.
  destruct (up_new_scan cls 0 (mkW (repeat [] nvars) (repeat [] nvars)) []) as [[w implied]|].
  - destruct Hs as [Hw Hi]; [split; apply wl_ok_repeat|].
    apply up_new_units_spec in H; [|exact Hw|intros l Hl; destruct (Hi l Hl) as [[]|Hx]; exact Hx].
    destruct H as [Hw' [Hm' Ha]]. split.
    + intros m' Hr. split; [exact Hw'|]. destruct (Hm' m' Hr) as [Hlen _]. rewrite Hlen. apply repeat_length.
    + intros a Hc. apply Ha; auto. apply extends_new.
  - inversion H; subst. split; [intros m' Hr; discriminate|].
    intros a Hc. exfalso. assert (He : In [] cls) by (apply Hs; split; apply wl_ok_repeat).
    pose proof (cnf_holds_clause a cls [] Hc He) as Hx. discriminate.
Qed.

(* ---------- SATSolver: histories with the decisions that are on the stack ---------- *)
Fixpoint run_track (pinned : bool) (s : solver) (ds : list lit) (ops : list op) : option (solver * list lit) :=
  match ops with
  | [] => Some (s, ds)
  | Decide a :: rest =>
    match sat_decide pinned s a with
    | (s', DSAT) => run_track pinned s' (a :: ds) rest
    | (s', DUnknown) => run_track pinned s' (a :: ds) rest
    | (s', DUNSAT) => run_track pinned s' ds rest        (* nothing is pushed *)
    | (_, DOutOfFuel) => None
    | (_, DPanic) => None                                 (* label >= num_vars *)
    end
  | Pop :: rest =>
    match ds with
    | [] => None                                          (* pop without a matching decide *)
    | _ :: ds' => run_track pinned (sat_pop s) ds' rest
    end
  end.

(* the solver reached from [s0] by a valid history, with the decisions on its stack *)
Definition reaches pinned s0 s ds : Prop := exists ops, run_track pinned s0 [] ops = Some (s, ds).

Lemma run_track_ind pinned (P : solver -> list lit -> Prop) s0 :
  P s0 [] ->
  (forall s ds a s' r, P s ds -> sat_decide pinned s a = (s', r) -> r = DSAT \/ r = DUnknown -> P s' (a :: ds)) ->
  (forall s ds a s', P s ds -> sat_decide pinned s a = (s', DUNSAT) -> P s' ds) ->
  (forall s d ds, P s (d :: ds) -> P (sat_pop s) ds) ->
  forall s ds, reaches pinned s0 s ds -> P s ds.
Proof.
  intros H0 Hdec Huns Hpop s ds Hr. unfold reaches in Hr. destruct Hr as [ops Hr]. revert Hr.
  assert (G : forall ops1 s1 ds1, P s1 ds1 -> run_track pinned s1 ds1 ops1 = Some (s, ds) -> P s ds).
  { clear H0. induction ops1 as [|o rest IH]; intros s1 ds1 HP Hr; simpl in Hr.
    - inversion Hr; subst. exact HP.
    - destruct o as [a|].
      + destruct (sat_decide pinned s1 a) as [s' r] eqn:Ed. destruct r; try discriminate.
        * eapply IH; [|exact Hr]. eapply Hdec; eauto.
        * eapply IH; [|exact Hr]. eapply Huns; eauto.
        * eapply IH; [|exact Hr]. eapply Hdec; eauto.
      + destruct ds1 as [|d ds1']; [discriminate|]. eapply IH; [|exact Hr]. apply Hpop with d. exact HP. }
  intros Hr. eapply G; eauto.
Qed.

(* every frame's model is entailed by the CNF and the decisions below it *)
Inductive stack_sound (cls : list clause) : list sat_state -> list lit -> Prop :=
| SS_base st0 bot : entailed cls [] (ss_model st0) -> stack_sound cls [st0; bot] []
| SS_push st rest d ds : stack_sound cls rest ds -> entailed cls (d :: ds) (ss_model st) ->
    stack_sound cls (st :: rest) (d :: ds).

Definition sound_inv (cls : list clause) (s : solver) (ds : list lit) : Prop :=
  s_cnf s = cls /\ w_ok (length cls) (s_w s) /\ stack_sound cls (s_stack s) ds.

Lemma stack_sound_top cls st ds : stack_sound cls st ds ->
  exists t rest, st = t :: rest /\ entailed cls ds (ss_model t).
Proof. intros H. inversion H; subst; eauto. Qed.

Lemma sat_with_tail a cls d ds : sat_with a cls (d :: ds) -> sat_with a cls ds /\ lit_holds a d = true.
Proof. intros [Hc Hd]. split; [split; [exact Hc|intros x Hx; apply Hd; right; exact Hx]|apply Hd; left; reflexivity]. Qed.

Lemma sat_new_sound pinned cls nvars s0 :
  sat_new pinned cls nvars = NewSome s0 -> sound_inv cls s0 [].
Proof.
  unfold sat_new. intros H.
  destruct (up_new pinned cls nvars (up_fuel nvars cls)) as [|w [state|]] eqn:E; try discriminate.
  destruct (update_hash_and_sat_set _ _ state) as [h set]. inversion H; subst. clear H.
  apply up_new_spec in E. destruct E as [Hm Ha]. destruct (Hm state eq_refl) as [Hw Hlen].
  split; [reflexivity|split; [exact Hw|]]. simpl. constructor. simpl.
  intros a [Hc _]. destruct (Ha a Hc) as [m' [Hr He]]. inversion Hr; subst. exact He.
Qed.

Lemma sat_decide_cases pinned s a s' r : sat_decide pinned s a = (s', r) ->
  (r = DPanic /\ s' = s /\ s_nvars s <= lvar a) \/
  (lvar a < s_nvars s /\
   match up_decide pinned (s_cnf s) (up_fuel (s_nvars s) (s_cnf s)) (s_w s) (ss_model (top_state s)) a with
   | UOutOfFuel => r = DOutOfFuel /\ s' = s
   | URes w' None => r = DUNSAT /\ s' = mkSolver (s_nvars s) (s_cnf s) w' (s_clauses s) (s_stack s)
   | URes w' (Some nm) =>
       let hs := update_hash_and_sat_set (s_clauses s) (top_state s) nm in
       s' = mkSolver (s_nvars s) (s_cnf s) w' (s_clauses s) (mkSS nm (fst hs) (snd hs) :: s_stack s) /\
       r = (if Nat.eqb (count_true (snd hs)) (length (s_clauses s)) then DSAT else DUnknown)
   end).
Proof.
  unfold sat_decide. intros H. destruct (Nat.leb (s_nvars s) (lvar a)) eqn:El.
  - left. inversion H; subst. apply Nat.leb_le in El. auto.
  - right. apply Nat.leb_gt in El. split; [exact El|].
    destruct (up_decide pinned (s_cnf s) _ (s_w s) _ a) as [|w' [nm|]].
    + inversion H; auto.
    + destruct (update_hash_and_sat_set _ _ nm) as [h set]. inversion H; subst. simpl. auto.
    + inversion H; auto.
Qed.

Lemma sound_inv_reach pinned cls nvars s0 s ds :
  sat_new pinned cls nvars = NewSome s0 -> reaches pinned s0 s ds -> sound_inv cls s ds.
Proof.
  intros Hn Hr. revert s ds Hr. apply run_track_ind.
  - eapply sat_new_sound; eauto.
  - intros s ds a s' r [Hc [Hw Hs]] Hd Hr. apply sat_decide_cases in Hd.
    destruct Hd as [[-> _]|[Hl Hd]]; [destruct Hr; discriminate|].
    destruct (stack_sound_top _ _ _ Hs) as [t [rest [Est Het]]].
    assert (Etop : top_state s = t) by (unfold top_state; rewrite Est; reflexivity).
    rewrite Hc, Etop in Hd.
    destruct (up_decide pinned cls _ (s_w s) (ss_model t) a) as [|w' [nm|]] eqn:Ed.
    + destruct Hd as [-> _]. destruct Hr; discriminate.
    + cbv zeta in Hd. destruct Hd as [-> _]. apply (proj1 (up_basic pinned cls _)) in Ed; [|exact Hw].
      destruct Ed as [Hw' [_ Ha]]. split; [reflexivity|split; [exact Hw'|]]. simpl. constructor; [exact Hs|].
      simpl. intros a0 Hsat. apply sat_with_tail in Hsat. destruct Hsat as [Hsat Hla].
      destruct (Ha a0 (proj1 Hsat) (Het a0 Hsat) Hla) as [m' [Hr' He]]. inversion Hr'; subst. exact He.
    + destruct Hd as [-> _]. destruct Hr; discriminate.
  - intros s ds a s' [Hc [Hw Hs]] Hd. apply sat_decide_cases in Hd.
    destruct Hd as [[Hx _]|[Hl Hd]]; [discriminate|].
    rewrite Hc in Hd.
    destruct (up_decide pinned cls _ (s_w s) (ss_model (top_state s)) a) as [|w' [nm|]] eqn:Ed.
    + destruct Hd; discriminate.
    + cbv zeta in Hd. destruct Hd as [_ Hd]. destruct (Nat.eqb _ _) in Hd; discriminate.
    + destruct Hd as [_ ->]. apply (proj1 (up_basic pinned cls _)) in Ed; [|exact Hw].
      destruct Ed as [Hw' _]. split; [reflexivity|split; [exact Hw'|exact Hs]].
  - intros s d ds [Hc [Hw Hs]]. split; [exact Hc|split; [exact Hw|]]. simpl.
    inversion Hs; subst. simpl. assumption.
Qed.

(* ---------- up_sound / unsat_sound ---------- *)
Theorem up_sound pinned cls nvars s0 s ds :
  sat_new pinned cls nvars = NewSome s0 -> reaches pinned s0 s ds ->
  stack_sound cls (s_stack s) ds /\ entailed cls ds (ss_model (top_state s)).
Proof.
  intros Hn Hr. destruct (sound_inv_reach _ _ _ _ _ _ Hn Hr) as [_ [_ Hs]]. split; [exact Hs|].
  destruct (stack_sound_top _ _ _ Hs) as [t [rest [Est Het]]]. unfold top_state. rewrite Est. exact Het.
Qed.

Theorem unsat_sound_new pinned cls nvars :
  sat_new pinned cls nvars = NewNone -> forall a, cnf_holds a cls = false.
Proof.
  unfold sat_new. intros H a.
  destruct (up_new pinned cls nvars (up_fuel nvars cls)) as [|w [state|]] eqn:E; try discriminate.
  - destruct (update_hash_and_sat_set _ _ state). discriminate.
  - apply up_new_spec in E. destruct E as [_ Ha]. destruct (cnf_holds a cls) eqn:Hc; [|reflexivity].
    destruct (Ha a Hc) as [m' [Hr _]]. discriminate.
Qed.

Theorem unsat_sound_decide pinned cls nvars s0 s ds l s' :
  sat_new pinned cls nvars = NewSome s0 -> reaches pinned s0 s ds ->
  sat_decide pinned s l = (s', DUNSAT) -> forall a, ~ sat_with a cls (l :: ds).
Proof.
  intros Hn Hr Hd a Hsat. destruct (sound_inv_reach _ _ _ _ _ _ Hn Hr) as [Hc [Hw Hs]].
  destruct (up_sound _ _ _ _ _ _ Hn Hr) as [_ Het].
  apply sat_decide_cases in Hd. destruct Hd as [[Hx _]|[Hl Hd]]; [discriminate|].
  rewrite Hc in Hd.
  destruct (up_decide pinned cls _ (s_w s) (ss_model (top_state s)) l) as [|w' [nm|]] eqn:Ed.
  - destruct Hd; discriminate.
  - cbv zeta in Hd. destruct Hd as [_ Hd]. destruct (Nat.eqb _ _) in Hd; discriminate.
  - apply (proj1 (up_basic pinned cls _)) in Ed; [|exact Hw]. destruct Ed as [_ [_ Ha]].
    apply sat_with_tail in Hsat. destruct Hsat as [Hsat Hla].
    destruct (Ha a (proj1 Hsat) (Het a Hsat) Hla) as [m' [Hr' _]]. discriminate.
Qed.

(* ---------- pop_restores ---------- *)
(* the immediate form: a successful decide followed by pop leaves the whole stack (every frame's
   model, hash and satisfied set) and the constant parts as they were; only the watch lists differ *)
Theorem pop_restores_step pinned s a s' r :
  sat_decide pinned s a = (s', r) -> r = DSAT \/ r = DUnknown ->
  s_stack (sat_pop s') = s_stack s /\ s_clauses (sat_pop s') = s_clauses s /\
  s_cnf (sat_pop s') = s_cnf s /\ s_nvars (sat_pop s') = s_nvars s.
Proof.
  intros Hd Hr. apply sat_decide_cases in Hd. destruct Hd as [[-> _]|[_ Hd]]; [destruct Hr; discriminate|].
  destruct (up_decide pinned (s_cnf s) _ (s_w s) (ss_model (top_state s)) a) as [|w' [nm|]].
  - destruct Hd as [-> _]. destruct Hr; discriminate.
  - cbv zeta in Hd. destruct Hd as [-> _]. simpl. auto.
  - destruct Hd as [-> _]. destruct Hr; discriminate.
Qed.

(* a decide that reports UNSAT pushes nothing *)
Theorem unsat_keeps_stack pinned s a s' :
  sat_decide pinned s a = (s', DUNSAT) -> s_stack s' = s_stack s /\ s_clauses s' = s_clauses s.
Proof.
  intros Hd. apply sat_decide_cases in Hd. destruct Hd as [[Hx _]|[_ Hd]]; [discriminate|].
  destruct (up_decide pinned (s_cnf s) _ (s_w s) (ss_model (top_state s)) a) as [|w' [nm|]].
  - destruct Hd; discriminate.
  - cbv zeta in Hd. destruct Hd as [_ Hd]. destruct (Nat.eqb _ _) in Hd; discriminate.
  - destruct Hd as [_ ->]. simpl. auto.
Qed.

(* the general form: any history that never pops below its starting depth leaves the frames below
   untouched; if it ends at its starting depth the whole stack is as before *)
Lemma run_track_frames pinned : forall ops s ds s' ds' F B,
  run_track pinned s ds ops = Some (s', ds') -> s_stack s = F ++ B -> length F = length ds ->
  exists F', s_stack s' = F' ++ B /\ length F' = length ds' /\ s_clauses s' = s_clauses s.
Proof.
  induction ops as [|o rest IH]; intros s ds s' ds' F B Hr Hst Hlen; simpl in Hr.
  - inversion Hr; subst. exists F. auto.
  - destruct o as [a|].
    + destruct (sat_decide pinned s a) as [s1 r] eqn:Ed.
      assert (Hpush : r = DSAT \/ r = DUnknown -> exists t, s_stack s1 = (t :: F) ++ B /\ s_clauses s1 = s_clauses s).
      { intros Hr'. pose proof Ed as Ed'. apply sat_decide_cases in Ed'.
        destruct Ed' as [[-> _]|[_ Hd]]; [destruct Hr'; discriminate|].
        destruct (up_decide pinned (s_cnf s) _ (s_w s) (ss_model (top_state s)) a) as [|w' [nm|]].
        - destruct Hd as [-> _]. destruct Hr'; discriminate.
        - cbv zeta in Hd. destruct Hd as [-> _]. simpl. rewrite Hst. eauto.
        - destruct Hd as [-> _]. destruct Hr'; discriminate. }
      destruct r; try discriminate.
      * destruct Hpush as [t [Hs1 Hc1]]; [auto|].
        destruct (IH _ _ _ _ (t :: F) B Hr Hs1) as [F' [H1 [H2 H3]]]; [simpl; lia|]. exists F'. rewrite H3. auto.
      * destruct (unsat_keeps_stack _ _ _ _ Ed) as [Hs1 Hc1].
        destruct (IH _ _ _ _ F B Hr) as [F' [H1 [H2 H3]]]; [congruence|exact Hlen|]. exists F'. rewrite H3. auto.
      * destruct Hpush as [t [Hs1 Hc1]]; [auto|].
        destruct (IH _ _ _ _ (t :: F) B Hr Hs1) as [F' [H1 [H2 H3]]]; [simpl; lia|]. exists F'. rewrite H3. auto.
    + destruct ds as [|d ds1]; [discriminate|]. destruct F as [|t F1]; [discriminate|].
      destruct (IH _ _ _ _ F1 B Hr) as [F' [H1 [H2 H3]]].
      * simpl. rewrite Hst. reflexivity.
      * simpl in Hlen. lia.
      * exists F'. auto.
Qed.

Theorem pop_restores pinned s ops s' :
  run_track pinned s [] ops = Some (s', []) ->
  s_stack s' = s_stack s /\ s_clauses s' = s_clauses s.
Proof.
  intros Hr. destruct (run_track_frames pinned ops s [] s' [] [] (s_stack s) Hr eq_refl eq_refl) as [F' [H1 [H2 H3]]].
  destruct F'; [|discriminate]. auto.
Qed.
(* ---------- the satisfied set and the satisfied flag ---------- *)
Definition wc_sat (m : pmodel) (wc : wclause) : bool := existsb (fun x => lit_true m (fst x)) wc.
Definition set_inv (cl : list wclause) (st : sat_state) : Prop :=
  length (ss_sat st) = length cl /\
  forall ci, ci < length cl -> nth ci (ss_sat st) false = wc_sat (ss_model st) (nth ci cl []).

Lemma pm_in_lit_true m l : pm_in m (lpol l) (lvar l) = lit_true m l.
Proof.
  unfold pm_in, lit_true. destruct (pm_get m (lvar l)) as [x|]; [|reflexivity].
  destruct x, (lpol l); reflexivity.
Qed.

Lemma in_pm_diff_pol a b p l :
  In l (pm_diff_pol a b p) <-> lpol l = p /\ lit_true a l = true /\ lit_true b l = false.
Proof.
  unfold pm_diff_pol. rewrite in_map_iff. split.
  - intros [v [<- Hv]]. apply filter_In in Hv. destruct Hv as [_ Hv]. apply andb_true_iff in Hv.
    destruct Hv as [H1 H2]. apply negb_true_iff in H2. rewrite <- !pm_in_lit_true. simpl. auto.
  - intros [Hp [H1 H2]]. exists (lvar l). split; [destruct l; simpl in *; congruence|].
    apply filter_In. rewrite <- pm_in_lit_true in H1, H2. rewrite Hp in H1, H2. split.
    + apply in_seq. split; [lia|]. simpl. unfold pm_in, pm_get in H1.
      destruct (Nat.lt_ge_cases (lvar l) (length a)) as [H|H]; [exact H|].
      rewrite nth_overflow in H1 by exact H. discriminate.
    + rewrite H1, H2. reflexivity.
Qed.

Lemma in_pm_difference a b l :
  In l (pm_difference a b) <-> lit_true a l = true /\ lit_true b l = false.
Proof.
  unfold pm_difference. rewrite in_app_iff, !in_pm_diff_pol. split.
  - intros [[_ H]|[_ H]]; exact H.
  - intros H. destruct (lpol l) eqn:E; [right|left]; auto.
Qed.

Lemma lit_true_le m m' l : pm_le m m' -> lit_true m l = true -> lit_true m' l = true.
Proof.
  unfold lit_true. intros Hle H. destruct (pm_get m (lvar l)) as [x|] eqn:E; [|discriminate].
  rewrite (Hle _ _ E). exact H.
Qed.

Lemma in_containing cl l ci : In ci (containing cl l) <-> ci < length cl /\ wc_has l (nth ci cl []) = true.
Proof.
  unfold containing. rewrite filter_In, in_seq. split; intros [H1 H2]; split; auto; lia.
Qed.

Lemma lit_eqb_eq a b : lit_eqb a b = true <-> a = b.
Proof.
  unfold lit_eqb. destruct a as [v p], b as [v' p']. simpl. rewrite andb_true_iff, Nat.eqb_eq, eqb_true_iff.
  split; [intros [-> ->]; reflexivity|intros H; inversion H; auto].
Qed.

Lemma wc_has_in l wc : wc_has l wc = true <-> In l (map fst wc).
Proof.
  unfold wc_has. rewrite existsb_exists, in_map_iff. split.
  - intros [x [Hx He]]. apply lit_eqb_eq in He. exists x. auto.
  - intros [x [He Hx]]. exists x. split; [exact Hx|]. apply lit_eqb_eq. auto.
Qed.

Lemma nth_set_nth_bool (set : list bool) ci cj : ci < length set ->
  nth cj (set_nth set ci true) false = nth cj set false || Nat.eqb cj ci.
Proof.
  intros H. destruct (Nat.eqb cj ci) eqn:E.
  - apply Nat.eqb_eq in E. subst. rewrite nth_set_nth_eq by exact H. rewrite orb_true_r. reflexivity.
  - apply Nat.eqb_neq in E. rewrite nth_set_nth_neq by congruence. rewrite orb_false_r. reflexivity.
Qed.

Lemma case2_clause_set cl top h set ci : ci < length set ->
  length (snd (case2_clause cl top (h, set) ci)) = length set /\
  forall cj, nth cj (snd (case2_clause cl top (h, set) ci)) false = nth cj set false || Nat.eqb cj ci.
Proof.
  intros H. unfold case2_clause. destruct (nth ci set false) eqn:E; simpl.
  - split; [reflexivity|]. intros cj. destruct (Nat.eqb cj ci) eqn:E2.
    + apply Nat.eqb_eq in E2. subst. rewrite E. reflexivity.
    + rewrite orb_false_r. reflexivity.
  - split; [apply length_set_nth|]. intros cj. apply nth_set_nth_bool. exact H.
Qed.

Lemma case2_fold_set cl top : forall cis acc,
  Forall (fun ci => ci < length (snd acc)) cis ->
  length (snd (fold_left (case2_clause cl top) cis acc)) = length (snd acc) /\
  forall cj, nth cj (snd (fold_left (case2_clause cl top) cis acc)) false =
             nth cj (snd acc) false || existsb (Nat.eqb cj) cis.
Proof.
  induction cis as [|ci rest IH]; intros [h set] Hall; cbn [fold_left existsb snd].
  - split; [reflexivity|]. intros cj. rewrite orb_false_r. reflexivity.
  - inversion Hall as [|? ? Hci Hrest]; subst. simpl in Hci.
    destruct (case2_clause_set cl top h set ci Hci) as [Hlen Hnth].
    destruct (case2_clause cl top (h, set) ci) as [h1 set1] eqn:E. simpl in Hlen, Hnth.
    destruct (IH (h1, set1)) as [Hlen2 Hnth2].
    { simpl. rewrite Hlen. exact Hrest. }
    simpl in Hlen2, Hnth2. split; [congruence|]. intros cj. rewrite Hnth2, Hnth, orb_assoc. reflexivity.
Qed.

Lemma case2_lits_set cl top : forall diff acc, length (snd acc) = length cl ->
  length (snd (fold_left (case2_lit cl top) diff acc)) = length cl /\
  forall cj, nth cj (snd (fold_left (case2_lit cl top) diff acc)) false =
             nth cj (snd acc) false || existsb (fun l => existsb (Nat.eqb cj) (containing cl l)) diff.
Proof.
  induction diff as [|l rest IH]; intros acc Hlen; simpl.
  - split; [exact Hlen|]. intros cj. rewrite orb_false_r. reflexivity.
  - unfold case2_lit at 2 4.
    destruct (case2_fold_set cl top (containing cl l) acc) as [Hlen1 Hnth1].
    { apply Forall_forall. intros ci Hci. apply in_containing in Hci. lia. }
    destruct (IH (fold_left (case2_clause cl top) (containing cl l) acc)) as [Hlen2 Hnth2]; [congruence|].
    split; [exact Hlen2|]. intros cj. rewrite Hnth2, Hnth1, orb_assoc. reflexivity.
Qed.

Lemma existsb_eqb_in cj l : existsb (Nat.eqb cj) l = true <-> In cj l.
Proof.
  rewrite existsb_exists. split.
  - intros [x [Hx He]]. apply Nat.eqb_eq in He. subst. exact Hx.
  - intros H. exists cj. split; [exact H|apply Nat.eqb_refl].
Qed.

Lemma bool_eq_iff (a b : bool) : (a = true <-> b = true) -> a = b.
Proof. destruct a, b; intros [H1 H2]; try reflexivity; [symmetry; apply H1; reflexivity|apply H2; reflexivity]. Qed.

Lemma update_set_inv cl top nm :
  set_inv cl top -> pm_le (ss_model top) nm ->
  set_inv cl (mkSS nm (fst (update_hash_and_sat_set cl top nm)) (snd (update_hash_and_sat_set cl top nm))).
Proof.
  intros [Hlen Hnth] Hle. unfold update_hash_and_sat_set.
  destruct (case2_lits_set cl (ss_model top) (pm_difference nm (ss_model top)) (ss_hash top, ss_sat top) Hlen)
    as [Hlen2 Hnth2].
  destruct (fold_left (case2_lit cl (ss_model top)) (pm_difference nm (ss_model top)) (ss_hash top, ss_sat top))
    as [h set] eqn:E. simpl in *. split; [exact Hlen2|]. intros ci Hci. rewrite Hnth2, (Hnth ci Hci).
  apply bool_eq_iff. rewrite orb_true_iff. unfold wc_sat. rewrite !existsb_exists. split.
  - intros [[x [Hx Ht]]|[l [Hl Hc]]].
    + exists x. split; [exact Hx|]. eapply lit_true_le; eauto.
    + apply existsb_eqb_in, in_containing in Hc. destruct Hc as [_ Hc]. apply wc_has_in, in_map_iff in Hc.
      destruct Hc as [x [Hfx Hx]]. exists x. split; [exact Hx|]. rewrite Hfx.
      apply in_pm_difference in Hl. tauto.
  - intros [x [Hx Ht]]. destruct (lit_true (ss_model top) (fst x)) eqn:Eold.
    + left. exists x. auto.
    + right. exists (fst x). split; [apply in_pm_difference; auto|].
      apply existsb_eqb_in, in_containing. split; [exact Hci|]. apply wc_has_in, in_map. exact Hx.
Qed.

Lemma count_true_all l : count_true l = length l <-> forall i, i < length l -> nth i l false = true.
Proof.
  unfold count_true. induction l as [|b t IH]; simpl.
  - split; [intros _ i Hi; lia|reflexivity].
  - assert (Hle : forall t : list bool, count (fun b => b) t <= length t).
    { intros t0. induction t0 as [|b0 t0 IH0]; simpl; [lia|destruct b0; lia]. }
    destruct b; simpl.
    + split.
      * intros H [|i] Hi; [reflexivity|]. apply IH; lia.
      * intros H. f_equal. apply IH. intros i Hi. apply (H (S i)). lia.
    + split; [intros H; pose proof (Hle t); lia|]. intros H. specialize (H 0 ltac:(lia)). discriminate.
Qed.

Definition flag_inv (s : solver) : Prop := Forall (set_inv (s_clauses s)) (s_stack s).

Lemma set_inv_bottom cl n : set_inv cl (mkSS (pm_new n) 1%N (repeat false (length cl))).
Proof.
  split; simpl; [apply repeat_length|]. intros ci Hci. rewrite nth_repeat_lt.
  assert (H : wc_sat (pm_new n) (nth ci cl []) = false).
  { unfold wc_sat. destruct (existsb _ _) eqn:E; [|reflexivity]. apply existsb_exists in E.
    destruct E as [x [_ Hx]]. unfold lit_true, pm_get, pm_new in Hx. rewrite nth_repeat_lt in Hx.
    destruct (Nat.ltb _ _); discriminate. }
  rewrite H. destruct (Nat.ltb ci (length cl)); reflexivity.
Qed.

Lemma pm_le_new n m : pm_le (pm_new n) m.
Proof.
  intros v b H. unfold pm_get, pm_new in H. rewrite nth_repeat_lt in H. destruct (Nat.ltb v n); discriminate.
Qed.

Lemma run_track_app pinned : forall ops s ds s1 ds1 ops2,
  run_track pinned s ds ops = Some (s1, ds1) ->
  run_track pinned s ds (ops ++ ops2) = run_track pinned s1 ds1 ops2.
Proof.
  induction ops as [|o rest IH]; intros s ds s1 ds1 ops2 H; simpl in *.
  - inversion H; subst. reflexivity.
  - destruct o as [a|].
    + destruct (sat_decide pinned s a) as [s' r]. destruct r; try discriminate; apply IH; exact H.
    + destruct ds as [|d ds']; [discriminate|]. apply IH. exact H.
Qed.

Lemma reaches_step pinned s0 s ds o s' ds' :
  reaches pinned s0 s ds -> run_track pinned s ds [o] = Some (s', ds') -> reaches pinned s0 s' ds'.
Proof.
  intros [ops H] Ho. exists (ops ++ [o]). rewrite (run_track_app _ _ _ _ _ _ _ H). exact Ho.
Qed.

(* induction over reachable states, with reachability available in the step cases *)
Lemma reach_ind pinned (P : solver -> list lit -> Prop) s0 :
  P s0 [] ->
  (forall s ds a s' r, reaches pinned s0 s ds -> P s ds -> sat_decide pinned s a = (s', r) ->
     r = DSAT \/ r = DUnknown -> P s' (a :: ds)) ->
  (forall s ds a s', reaches pinned s0 s ds -> P s ds -> sat_decide pinned s a = (s', DUNSAT) -> P s' ds) ->
  (forall s d ds, reaches pinned s0 s (d :: ds) -> P s (d :: ds) -> P (sat_pop s) ds) ->
  forall s ds, reaches pinned s0 s ds -> P s ds.
Proof.
  intros H0 Hdec Huns Hpop s ds Hr.
  enough (G : reaches pinned s0 s ds /\ P s ds) by tauto.
  revert s ds Hr. apply run_track_ind.
  - split; [exists []; reflexivity|exact H0].
  - intros s ds a s' r [Hr HP] Hd Hres. split; [|eapply Hdec; eauto].
    eapply reaches_step with (o := Decide a); [exact Hr|]. simpl. rewrite Hd. destruct Hres; subst; reflexivity.
  - intros s ds a s' [Hr HP] Hd. split; [|eapply Huns; eauto].
    eapply reaches_step with (o := Decide a); [exact Hr|]. simpl. rewrite Hd. reflexivity.
  - intros s d ds [Hr HP]. split; [|eapply Hpop; eauto].
    eapply reaches_step with (o := Pop); [exact Hr|]. reflexivity.
Qed.

Lemma sat_decide_push pinned s a s' r :
  sat_decide pinned s a = (s', r) -> r = DSAT \/ r = DUnknown ->
  exists w' nm, lvar a < s_nvars s /\
    up_decide pinned (s_cnf s) (up_fuel (s_nvars s) (s_cnf s)) (s_w s) (ss_model (top_state s)) a
      = URes w' (Some nm) /\
    s' = mkSolver (s_nvars s) (s_cnf s) w' (s_clauses s)
           (mkSS nm (fst (update_hash_and_sat_set (s_clauses s) (top_state s) nm))
                    (snd (update_hash_and_sat_set (s_clauses s) (top_state s) nm)) :: s_stack s) /\
    r = (if Nat.eqb (count_true (snd (update_hash_and_sat_set (s_clauses s) (top_state s) nm)))
                    (length (s_clauses s)) then DSAT else DUnknown).
Proof.
  intros Hd Hr. apply sat_decide_cases in Hd. destruct Hd as [[-> _]|[Hl Hd]]; [destruct Hr; discriminate|].
  destruct (up_decide pinned (s_cnf s) _ (s_w s) (ss_model (top_state s)) a) as [|w' [nm|]].
  - destruct Hd as [-> _]. destruct Hr; discriminate.
  - cbv zeta in Hd. destruct Hd as [-> ->]. exists w', nm. auto.
  - destruct Hd as [-> _]. destruct Hr; discriminate.
Qed.

Lemma sat_decide_unsat pinned s a s' :
  sat_decide pinned s a = (s', DUNSAT) ->
  exists w', lvar a < s_nvars s /\
    up_decide pinned (s_cnf s) (up_fuel (s_nvars s) (s_cnf s)) (s_w s) (ss_model (top_state s)) a
      = URes w' None /\
    s' = mkSolver (s_nvars s) (s_cnf s) w' (s_clauses s) (s_stack s).
Proof.
  intros Hd. apply sat_decide_cases in Hd. destruct Hd as [[Hx _]|[Hl Hd]]; [discriminate|].
  destruct (up_decide pinned (s_cnf s) _ (s_w s) (ss_model (top_state s)) a) as [|w' [nm|]].
  - destruct Hd; discriminate.
  - cbv zeta in Hd. destruct Hd as [_ Hd]. destruct (Nat.eqb _ _) in Hd; discriminate.
  - destruct Hd as [_ ->]. exists w'. auto.
Qed.

Lemma flag_inv_reach pinned cls nvars s0 s ds :
  sat_new pinned cls nvars = NewSome s0 -> reaches pinned s0 s ds ->
  flag_inv s /\ s_clauses s = sat_clauses_of cls.
Proof.
  intros Hn Hr. revert s ds Hr. apply reach_ind.
  - unfold sat_new in Hn.
    destruct (up_new pinned cls nvars (up_fuel nvars cls)) as [|w [state|]]; try discriminate.
    pose proof (update_set_inv (sat_clauses_of cls)
      (mkSS (pm_new nvars) 1%N (repeat false (length (sat_clauses_of cls)))) state
      (set_inv_bottom _ _) (pm_le_new _ _)) as Hu.
    destruct (update_hash_and_sat_set _ _ state) as [h set]. inversion Hn; subst. simpl in *.
    split; [|reflexivity]. unfold flag_inv. simpl. constructor; [exact Hu|].
    constructor; [apply set_inv_bottom|constructor].
  - intros s ds a s' r Hr [Hf Hcl] Hd Hres.
    destruct (sound_inv_reach _ _ _ _ _ _ Hn Hr) as [Hc [Hw Hs]].
    destruct (sat_decide_push _ _ _ _ _ Hd Hres) as [w' [nm [Hl [Ed [-> _]]]]].
    rewrite Hc in Ed. apply (proj1 (up_basic pinned cls _)) in Ed; [|exact Hw].
    destruct Ed as [_ [Hm _]]. destruct (Hm nm eq_refl) as [_ Hle].
    split; [|exact Hcl]. unfold flag_inv in *. simpl. constructor; [|exact Hf].
    apply update_set_inv; [|exact Hle].
    destruct (stack_sound_top _ _ _ Hs) as [t [rest [Est _]]]. unfold top_state. rewrite Est.
    rewrite Est in Hf. inversion Hf; subst. assumption.
  - intros s ds a s' Hr [Hf Hcl] Hd. destruct (sat_decide_unsat _ _ _ _ Hd) as [w' [_ [_ ->]]].
    split; [exact Hf|exact Hcl].
  - intros s d ds Hr [Hf Hcl]. split; [|exact Hcl]. unfold flag_inv in *. simpl.
    destruct (s_stack s); [constructor|]. inversion Hf; subst. assumption.
Qed.

(* same members => same verdicts *)
Lemma in_insert_by {A} (le : A -> A -> bool) x y l : In y (insert_by le x l) <-> y = x \/ In y l.
Proof.
  induction l as [|z t IH]; simpl.
  - split; [intros [H|[]]; auto|intros [H|[]]; auto].
  - destruct (le x z); simpl; [split; intros [H|H]; auto|].
    rewrite IH. split; [intros [H|[H|H]]; auto|intros [H|[H|H]]; auto].
Qed.

Lemma in_sort_by {A} (le : A -> A -> bool) y l : In y (sort_by le l) <-> In y l.
Proof.
  unfold sort_by. induction l as [|x t IH]; simpl; [tauto|].
  rewrite in_insert_by, IH. split; intros [H|H]; auto.
Qed.

Lemma in_dedup y l : In y (dedup l) <-> In y l.
Proof.
  induction l as [|x t IH]; [simpl; tauto|].
  change (dedup (x :: t)) with (match t with [] => [x] | z :: _ => if lit_eqb x z then dedup t else x :: dedup t end).
  destruct t as [|z t'].
  - simpl. tauto.
  - destruct (lit_eqb x z) eqn:E.
    + apply lit_eqb_eq in E. subst z. rewrite IH. simpl. tauto.
    + simpl In at 1. rewrite IH. simpl. tauto.
Qed.

Lemma in_norm_clause y c : In y (norm_clause c) <-> In y c.
Proof. unfold norm_clause. rewrite in_dedup, in_sort_by. tauto. Qed.

Lemma existsb_ext_in {A} (p q : A -> bool) l l' :
  (forall x, In x l <-> In x l') -> (forall x, p x = q x) -> existsb p l = existsb q l'.
Proof.
  intros Hm Hp. apply bool_eq_iff. rewrite !existsb_exists. split; intros [x [Hx Hpx]]; exists x.
  - split; [apply Hm; exact Hx|rewrite <- Hp; exact Hpx].
  - split; [apply Hm; exact Hx|rewrite Hp; exact Hpx].
Qed.

Lemma tautological_norm c : tautological (norm_clause c) = tautological c.
Proof.
  unfold tautological. apply existsb_ext_in; [intros y; apply in_norm_clause|].
  intros x. apply existsb_ext_in; [intros y; apply in_norm_clause|reflexivity].
Qed.

Lemma clause_sat_norm m c : clause_sat m (norm_clause c) = clause_sat m c.
Proof. unfold clause_sat. apply existsb_ext_in; [intros y; apply in_norm_clause|reflexivity]. Qed.

Lemma weigh_clause_fst c : forall st, map fst (fst (weigh_clause c st)) = c.
Proof.
  induction c as [|l t IH]; intros st; cbn [weigh_clause]; [reflexivity|].
  destruct (prime_next st) as [p st1]. specialize (IH st1). destruct (weigh_clause t st1) as [r st2].
  simpl in *. rewrite IH. reflexivity.
Qed.

Lemma weigh_fst cls : forall st, map (map fst) (weigh cls st) = cls.
Proof.
  induction cls as [|c t IH]; intros st; cbn [weigh]; [reflexivity|].
  pose proof (weigh_clause_fst c st) as H. destruct (weigh_clause c st) as [wc st1]. simpl in *.
  rewrite H, IH. reflexivity.
Qed.

Lemma wc_sat_clause_sat m wc : wc_sat m wc = clause_sat m (map fst wc).
Proof. unfold wc_sat, clause_sat. induction wc as [|x t IH]; simpl; [reflexivity|]. rewrite IH. reflexivity. Qed.

(* every non-tautological clause of the CNF has a true literal *)
Definition all_nontaut_sat (cls : list clause) (m : pmodel) : Prop :=
  forall c, In c cls -> tautological c = false -> clause_sat m c = true.

Lemma all_wc_sat_iff cls m :
  (forall wc, In wc (sat_clauses_of cls) -> wc_sat m wc = true) <-> all_nontaut_sat cls m.
Proof.
  unfold sat_clauses_of, all_nontaut_sat.
  set (L := filter (fun c => negb (tautological c)) (map norm_clause cls)).
  pose proof (weigh_fst L 2%N) as Hw. split.
  - intros H c Hc Ht.
    assert (HL : In (norm_clause c) L).
    { apply filter_In. split; [apply in_map; exact Hc|]. rewrite tautological_norm, Ht. reflexivity. }
    rewrite <- Hw in HL. apply in_map_iff in HL. destruct HL as [wc [Hfst Hwc]].
    specialize (H wc Hwc). rewrite wc_sat_clause_sat, Hfst, clause_sat_norm in H. exact H.
  - intros H wc Hwc. assert (HL : In (map fst wc) L) by (rewrite <- Hw; apply in_map; exact Hwc).
    apply filter_In in HL. destruct HL as [Hin Ht]. apply in_map_iff in Hin. destruct Hin as [c [Hn Hc]].
    rewrite wc_sat_clause_sat, <- Hn, clause_sat_norm. apply H; [exact Hc|].
    rewrite <- Hn, tautological_norm in Ht. apply negb_true_iff in Ht. exact Ht.
Qed.

Theorem sat_flag_iff pinned cls nvars s0 s ds :
  sat_new pinned cls nvars = NewSome s0 -> reaches pinned s0 s ds ->
  (sat_is_sat s = true <-> all_nontaut_sat cls (ss_model (top_state s))).
Proof.
  intros Hn Hr. destruct (flag_inv_reach _ _ _ _ _ _ Hn Hr) as [Hf Hcl].
  destruct (sound_inv_reach _ _ _ _ _ _ Hn Hr) as [_ [_ Hs]].
  destruct (stack_sound_top _ _ _ Hs) as [t [rest [Est _]]].
  unfold sat_is_sat, top_state. rewrite Est. unfold flag_inv in Hf. rewrite Est in Hf.
  inversion Hf as [|? ? [Hlen Hnth] _]; subst.
  rewrite <- all_wc_sat_iff, <- Hcl, Nat.eqb_eq, <- Hlen, count_true_all. split.
  - intros H wc Hwc. apply In_nth with (d := []) in Hwc. destruct Hwc as [ci [Hci <-]].
    rewrite <- Hnth by exact Hci. apply H. lia.
  - intros H i Hi. rewrite Hnth by lia. apply H. apply nth_In. lia.
Qed.

(* DecisionResult::SAT is returned exactly when is_sat() holds afterwards *)
Theorem decide_sat_iff_is_sat pinned s a s' r :
  sat_decide pinned s a = (s', r) -> r = DSAT \/ r = DUnknown -> (r = DSAT <-> sat_is_sat s' = true).
Proof.
  intros Hd Hres. destruct (sat_decide_push _ _ _ _ _ Hd Hres) as [w' [nm [_ [_ [-> ->]]]]].
  unfold sat_is_sat, top_state. simpl. destruct (Nat.eqb _ _); split; auto; discriminate.
Qed.
(* ================= the fix-point: two-watched-literal invariant ================= *)
Lemma set_nth_app {A} (l1 : list A) x l2 y : set_nth (l1 ++ x :: l2) (length l1) y = l1 ++ y :: l2.
Proof. induction l1 as [|z t IH]; simpl; [reflexivity|]. rewrite IH. reflexivity. Qed.

Lemma swap_remove_app l1 x l2 :
  swap_remove (l1 ++ x :: l2) (length l1) =
  match rev l2 with [] => l1 | lst :: r => l1 ++ lst :: rev r end.
Proof.
  unfold swap_remove.
  assert (Hrev : rev (l1 ++ x :: l2) = rev l2 ++ x :: rev l1).
  { rewrite rev_app_distr. cbn [rev]. rewrite <- app_assoc. reflexivity. }
  rewrite Hrev. destruct (rev l2) as [|lst r] eqn:E.
  - assert (l2 = []) by (apply (f_equal (@rev nat)) in E; rewrite rev_involutive in E; exact E). subst l2.
    cbn [app].
    assert (Hb : Nat.eqb (S (length l1)) (length (l1 ++ [x])) = true).
    { apply Nat.eqb_eq. rewrite app_length. simpl. lia. }
    rewrite Hb. apply removelast_last.
  - assert (Hl2 : l2 = rev r ++ [lst]).
    { apply (f_equal (@rev nat)) in E. rewrite rev_involutive in E. exact E. }
    cbn [app].
    assert (Hb : Nat.eqb (S (length l1)) (length (l1 ++ x :: l2)) = false).
    { apply Nat.eqb_neq. rewrite app_length. simpl. rewrite Hl2, app_length. simpl. lia. }
    rewrite Hb, set_nth_app. rewrite Hl2.
    replace (l1 ++ lst :: rev r ++ [lst]) with ((l1 ++ lst :: rev r) ++ [lst]) by (rewrite <- app_assoc; reflexivity).
    apply removelast_last.
Qed.

Lemma swap_remove_spec l i : i < length l ->
  Permutation (nth i l 0 :: swap_remove l i) l /\
  (forall p, p < i -> nth p (swap_remove l i) 0 = nth p l 0).
Proof.
  intros Hi. destruct (nth_split l 0 Hi) as [l1 [l2 [Hl Hlen]]].
  generalize dependent (nth i l 0). intros x Hl. subst l i. rewrite swap_remove_app.
  destruct (rev l2) as [|lst r] eqn:E.
  - assert (l2 = []) by (apply (f_equal (@rev nat)) in E; rewrite rev_involutive in E; exact E). subst l2.
    split.
    + apply Permutation_cons_append.
    + intros p Hp. rewrite app_nth1 by exact Hp. reflexivity.
  - assert (Hl2 : l2 = rev r ++ [lst]).
    { apply (f_equal (@rev nat)) in E. rewrite rev_involutive in E. exact E. }
    subst l2. split.
    + apply Permutation_trans with (l1 ++ x :: lst :: rev r).
      * apply Permutation_middle.
      * apply Permutation_app_head. apply perm_skip. apply Permutation_cons_append.
    + intros p Hp. rewrite !app_nth1 by exact Hp. reflexivity.
Qed.

Lemma swap_remove_in l i : i < length l -> NoDup l ->
  NoDup (swap_remove l i) /\ forall x, In x (swap_remove l i) <-> In x l /\ x <> nth i l 0.
Proof.
  intros Hi Hnd. destruct (swap_remove_spec l i Hi) as [Hp _].
  assert (Hnd2 : NoDup (nth i l 0 :: swap_remove l i)).
  { eapply Permutation_NoDup; [apply Permutation_sym; exact Hp|exact Hnd]. }
  inversion Hnd2 as [|? ? Hnotin Hnd3]; subst. split; [exact Hnd3|]. intros x. split.
  - intros Hx. split; [eapply Permutation_in; [exact Hp|right; exact Hx]|]. intros ->. contradiction.
  - intros [Hx Hne]. apply Permutation_sym in Hp. apply (Permutation_in _ Hp) in Hx.
    destruct Hx as [Hx|Hx]; [congruence|exact Hx].
Qed.

(* --- watch-list algebra --- *)
Definition watched (w : watches) (ci : nat) (l : lit) : Prop := In ci (wl_get w l).

Lemma wl_put_lengths w l x :
  length (wpos (wl_put w l x)) = length (wpos w) /\ length (wneg (wl_put w l x)) = length (wneg w).
Proof. unfold wl_put. destruct (lpol l); simpl; rewrite ?length_set_nth; auto. Qed.

Lemma wl_get_put_same w l x :
  lvar l < length (wpos w) -> lvar l < length (wneg w) -> wl_get (wl_put w l x) l = x.
Proof.
  intros H1 H2. unfold wl_get, wl_put. destruct (lpol l) eqn:E; simpl; rewrite ?E; apply nth_set_nth_eq; assumption.
Qed.

Lemma wl_get_put_other w l l' x : l <> l' -> wl_get (wl_put w l x) l' = wl_get w l'.
Proof.
  intros Hne. unfold wl_get, wl_put. destruct l as [v p], l' as [v' p']. simpl.
  destruct p, p'; simpl; try reflexivity; apply nth_set_nth_neq; intros ->; apply Hne; reflexivity.
Qed.

Lemma lneg_involutive l : lneg (lneg l) = l.
Proof. destruct l as [v p]. unfold lneg. simpl. rewrite negb_involutive. reflexivity. Qed.

Lemma lvar_lneg l : lvar (lneg l) = lvar l.
Proof. reflexivity. Qed.

Lemma mem_nat_in x l : mem_nat x l = true <-> In x l.
Proof. unfold mem_nat. apply existsb_eqb_in. Qed.

(* --- the structural part of the invariant (independent of any model) --- *)
Record S_inv (nvars : nat) (cls : list clause) (w : watches) : Prop := mkS {
  S_ok : w_ok (length cls) w;
  S_len_pos : length (wpos w) = nvars;
  S_len_neg : length (wneg w) = nvars;
  S_nodup : forall l, NoDup (wl_get w l);
  S_two : forall ci, ci < length cls -> 2 <= length (nth ci cls []) ->
    exists l1 l2, l1 <> l2 /\ In l1 (nth ci cls []) /\ In l2 (nth ci cls []) /\
                  forall l, watched w ci l <-> (l = l1 \/ l = l2)
}.

(* the value part, for a model m: a clause with a false watched literal has a true literal,
   unless that watched literal is the negation of a literal whose watchers are being visited (B) *)
Definition V (cls : list clause) (B : list lit) (w : watches) (m : pmodel) : Prop :=
  forall ci l, ci < length cls -> 2 <= length (nth ci cls []) -> watched w ci l -> lit_false m l = true ->
    clause_sat m (nth ci cls []) = true \/ In (lneg l) B.

Definition lits_in_range (nvars : nat) (cls : list clause) : Prop :=
  forall c l, In c cls -> In l c -> lvar l < nvars.

(* moving the watch of clause ci = wl(la)[idx] from la to nl *)
Definition move_watch (w : watches) (la : lit) (idx : nat) (nl : lit) : watches :=
  wl_push (wl_put w la (swap_remove (wl_get w la) idx)) nl (nth idx (wl_get w la) 0).

Lemma move_watch_spec nvars cls w la idx nl :
  S_inv nvars cls w -> lvar la < nvars -> lvar nl < nvars -> nl <> la ->
  idx < length (wl_get w la) -> ~ watched w (nth idx (wl_get w la) 0) nl ->
  let ci := nth idx (wl_get w la) 0 in
  let w2 := move_watch w la idx nl in
  (forall cj l, watched w2 cj l <-> (cj = ci /\ l = nl) \/ (watched w cj l /\ ~ (cj = ci /\ l = la))) /\
  (forall l, NoDup (wl_get w2 l)) /\
  (forall l, l <> la -> l <> nl -> wl_get w2 l = wl_get w l) /\
  (forall p, p < idx -> nth p (wl_get w2 la) 0 = nth p (wl_get w la) 0) /\
  length (wpos w2) = nvars /\ length (wneg w2) = nvars /\ w_ok (length cls) w2.
Proof.
  intros HS Hla Hnl Hne Hidx Hnw ci w2.
  destruct HS as [Hok Hlp Hln Hnd _].
  set (w1 := wl_put w la (swap_remove (wl_get w la) idx)).
  destruct (wl_put_lengths w la (swap_remove (wl_get w la) idx)) as [Hlp1 Hln1]. fold w1 in Hlp1, Hln1.
  assert (Hg1a : wl_get w1 la = swap_remove (wl_get w la) idx) by (apply wl_get_put_same; lia).
  assert (Hg1o : forall l, l <> la -> wl_get w1 l = wl_get w l) by (intros l Hl; apply wl_get_put_other; congruence).
  assert (Hw2 : w2 = wl_put w1 nl (wl_get w1 nl ++ [ci])) by reflexivity.
  destruct (wl_put_lengths w1 nl (wl_get w1 nl ++ [ci])) as [Hlp2 Hln2]. rewrite <- Hw2 in Hlp2, Hln2.
  assert (Hg2n : wl_get w2 nl = wl_get w nl ++ [ci]).
  { rewrite Hw2, wl_get_put_same by lia. rewrite Hg1o by exact Hne. reflexivity. }
  assert (Hg2a : wl_get w2 la = swap_remove (wl_get w la) idx).
  { rewrite Hw2, wl_get_put_other by exact Hne. exact Hg1a. }
  assert (Hg2o : forall l, l <> la -> l <> nl -> wl_get w2 l = wl_get w l).
  { intros l H1 H2. rewrite Hw2, wl_get_put_other by congruence. apply Hg1o. exact H1. }
  destruct (swap_remove_in _ _ Hidx (Hnd la)) as [Hnds Hins].
  split; [|split; [|split; [exact Hg2o|split; [|split; [lia|split; [lia|]]]]]].
  - intros cj l. unfold watched. destruct (lit_eqb l la) eqn:E1.
    + apply lit_eqb_eq in E1. subst l. rewrite Hg2a, Hins. fold ci. split.
      * intros [H1 H2]. right. split; [exact H1|]. intros [H3 _]. contradiction.
      * intros [[_ H]|[H1 H2]]; [congruence|]. split; [exact H1|]. intros H3. apply H2. auto.
    + assert (Hl : l <> la) by (intros ->; rewrite (proj2 (lit_eqb_eq la la) eq_refl) in E1; discriminate).
      destruct (lit_eqb l nl) eqn:E2.
      * apply lit_eqb_eq in E2. subst l. rewrite Hg2n, in_app_iff. simpl. split.
        -- intros [H|[H|[]]]; [right; split; [exact H|intros [_ H2]; contradiction]|left; auto].
        -- intros [[H _]|[H _]]; [right; left; congruence|left; exact H].
      * assert (Hl2 : l <> nl) by (intros ->; rewrite (proj2 (lit_eqb_eq nl nl) eq_refl) in E2; discriminate).
        rewrite Hg2o by assumption. split.
        -- intros H. right. split; [exact H|intros [_ H2]; contradiction].
        -- intros [[_ H]|[H _]]; [contradiction|exact H].
  - intros l. destruct (lit_eqb l la) eqn:E1.
    + apply lit_eqb_eq in E1. subst l. rewrite Hg2a. exact Hnds.
    + assert (Hl : l <> la) by (intros ->; rewrite (proj2 (lit_eqb_eq la la) eq_refl) in E1; discriminate).
      destruct (lit_eqb l nl) eqn:E2.
      * apply lit_eqb_eq in E2. subst l. rewrite Hg2n.
        eapply Permutation_NoDup; [apply Permutation_cons_append|]. constructor; [exact Hnw|apply Hnd].
      * assert (Hl2 : l <> nl) by (intros ->; rewrite (proj2 (lit_eqb_eq nl nl) eq_refl) in E2; discriminate).
        rewrite Hg2o by assumption. apply Hnd.
  - intros p Hp. rewrite Hg2a. apply (proj2 (swap_remove_spec _ _ Hidx)). exact Hp.
  - unfold w2, move_watch. apply wl_push_ok.
    + apply wl_put_ok; [exact Hok|]. apply swap_remove_ok. apply wl_get_ok. exact Hok.
    + pose proof (wl_get_ok _ _ la Hok) as Hall. eapply Forall_forall in Hall; [exact Hall|]. apply nth_In. exact Hidx.
Qed.
Lemma S_move nvars cls w la idx nl :
  S_inv nvars cls w -> lvar la < nvars -> lvar nl < nvars -> nl <> la ->
  idx < length (wl_get w la) -> ~ watched w (nth idx (wl_get w la) 0) nl ->
  In nl (nth (nth idx (wl_get w la) 0) cls []) ->
  S_inv nvars cls (move_watch w la idx nl).
Proof.
  intros HS Hla Hnl Hne Hidx Hnw Hin.
  destruct (move_watch_spec nvars cls w la idx nl HS Hla Hnl Hne Hidx Hnw) as [Hw [Hnd [_ [_ [Hlp [Hln Hok]]]]]].
  set (ci := nth idx (wl_get w la) 0) in *.
  constructor; try assumption.
  intros cj Hcj Hlen. destruct (S_two _ _ _ HS cj Hcj Hlen) as [l1 [l2 [H12 [Hi1 [Hi2 Hiff]]]]].
  destruct (Nat.eq_dec cj ci) as [->|Hcne].
  - assert (Hwa : watched w ci la) by (apply nth_In; exact Hidx).
    apply Hiff in Hwa. destruct Hwa as [-> | ->].
    + exists l2, nl. split; [intros ->; apply Hnw, Hiff; auto|]. split; [exact Hi2|split; [exact Hin|]].
      intros l. rewrite Hw, Hiff. split.
      * intros [[_ ->]|[[-> | ->] Hx]]; auto. exfalso. apply Hx. auto.
      * intros [-> | ->]; [right; split; [auto|intros [_ Hx]; congruence]|left; auto].
    + exists l1, nl. split; [intros ->; apply Hnw, Hiff; auto|]. split; [exact Hi1|split; [exact Hin|]].
      intros l. rewrite Hw, Hiff. split.
      * intros [[_ ->]|[[-> | ->] Hx]]; auto. exfalso. apply Hx. auto.
      * intros [-> | ->]; [right; split; [auto|intros [_ Hx]; congruence]|left; auto].
  - exists l1, l2. split; [exact H12|split; [exact Hi1|split; [exact Hi2|]]].
    intros l. rewrite Hw, <- Hiff. split.
    + intros [[Hx _]|[Hx _]]; [contradiction|exact Hx].
    + intros Hx. right. split; [exact Hx|intros [Hy _]; contradiction].
Qed.

Lemma V_move nvars cls B w la idx nl mm :
  S_inv nvars cls w -> lvar la < nvars -> lvar nl < nvars -> nl <> la ->
  idx < length (wl_get w la) -> ~ watched w (nth idx (wl_get w la) 0) nl ->
  lit_false mm nl = false -> V cls B w mm -> V cls B (move_watch w la idx nl) mm.
Proof.
  intros HS Hla Hnl Hne Hidx Hnw Hnf HV.
  destruct (move_watch_spec nvars cls w la idx nl HS Hla Hnl Hne Hidx Hnw) as [Hw _].
  intros cj l Hcj Hlen Hwt Hf. apply Hw in Hwt. destruct Hwt as [[_ ->]|[Hwt _]]; [congruence|].
  apply HV; assumption.
Qed.

Lemma clause_sat_le m m' c : pm_le m m' -> clause_sat m c = true -> clause_sat m' c = true.
Proof.
  unfold clause_sat. rewrite !existsb_exists. intros Hle [x [Hx Ht]]. exists x. split; [exact Hx|].
  eapply lit_true_le; eauto.
Qed.

Lemma lit_unset_le m m' l : pm_le m m' -> lit_unset m' l = true -> lit_false m l = false.
Proof.
  unfold lit_unset, lit_false, pm_is_set. intros Hle H.
  destruct (pm_get m (lvar l)) as [x|] eqn:E; [|reflexivity]. rewrite (Hle _ _ E) in H. discriminate.
Qed.

Lemma lit_true_not_unset m l : lit_true m l = true -> pm_is_set m (lvar l) = true.
Proof. unfold lit_true, pm_is_set. destruct (pm_get m (lvar l)); [reflexivity|discriminate]. Qed.

Lemma lit_true_false_neg m l : lit_true m l = true -> lit_false m (lneg l) = true.
Proof.
  destruct l as [v p]. unfold lit_true, lit_false, lneg, lvar, lpol. simpl.
  destruct (pm_get m v) as [x|]; [|discriminate]. destruct p, x; simpl; auto.
Qed.

Lemma up_decide_sets pinned cls fuel w m a w' m' :
  w_ok (length cls) w -> lvar a < length m ->
  up_decide pinned cls fuel w m a = URes w' (Some m') -> lit_true m' a = true.
Proof.
  intros Hw Hl H. destruct fuel as [|f]; [discriminate|]. rewrite up_decide_S in H.
  destruct (pm_get m (lvar a)) as [x|] eqn:E.
  - destruct (Bool.eqb x (lpol a)) eqn:Ex; inversion H; subst. unfold lit_true. rewrite E.
    apply eqb_prop in Ex. subst. apply eqb_reflx.
  - apply (proj2 (up_basic pinned cls f)) in H; [|exact Hw]. destruct H as [_ [Hm _]].
    destruct (Hm m' eq_refl) as [_ Hle]. unfold lit_true.
    rewrite (Hle _ _ (pm_get_set_same m (lvar a) (lpol a) Hl)). apply eqb_reflx.
Qed.

Lemma V_set cls B w m a :
  pm_get m (lvar a) = None -> V cls B w m -> V cls (a :: B) w (pm_set m (lvar a) (lpol a)).
Proof.
  intros Hn HV ci l Hci Hlen Hwt Hf.
  destruct (Nat.eq_dec (lvar l) (lvar a)) as [Hv|Hv].
  - right. left. unfold lit_false in Hf. rewrite Hv in Hf.
    destruct (pm_get (pm_set m (lvar a) (lpol a)) (lvar a)) as [x|] eqn:E; [|discriminate].
    apply pm_get_set_inv in E. destruct E as [[_ ->]|E]; [|congruence].
    destruct l as [v p], a as [v' p']. unfold lneg. simpl in *. subst v'.
    destruct p, p'; simpl in *; try discriminate; reflexivity.
  - assert (Hf' : lit_false m l = true).
    { unfold lit_false in *. rewrite pm_get_set_other in Hf by congruence. exact Hf. }
    destruct (HV ci l Hci Hlen Hwt Hf') as [Hs|Hb]; [left|right; right; exact Hb].
    eapply clause_sat_le; [apply pm_le_set; exact Hn|exact Hs].
Qed.

Lemma remaining_in m c l : In l (remaining m c) -> In l c /\ lit_unset m l = true.
Proof. unfold remaining. rewrite filter_In. tauto. Qed.

Lemma unset_not_false m l : lit_unset m l = true -> lit_false m l = false.
Proof. unfold lit_unset, lit_false, pm_is_set. destruct (pm_get m (lvar l)); [discriminate|reflexivity]. Qed.

Lemma filter_len_le {A} (p : A -> bool) l : length (filter p l) <= length l.
Proof. induction l as [|x t IH]; simpl; [lia|]. destruct (p x); simpl; lia. Qed.

(* the first two unassigned literal occurrences of a stored clause are never the same literal
   (what the replacement-watch choice relies on).  Guaranteed by Cnf::new for every input
   (Proofs/UnitPropFix.v: cnf_new_adj_ok) and by repetition-free clauses. *)
Definition rem_adj_ok (cls : list clause) : Prop :=
  forall c m u s rest, In c cls -> remaining m c = u :: s :: rest -> u <> s.

Lemma nodup_adj_ok cls : Forall (@NoDup lit) cls -> rem_adj_ok cls.
Proof.
  intros Hnd c m u s rest Hc Erem.
  assert (Hndc : NoDup c) by (eapply Forall_forall in Hnd; eauto).
  assert (Hndr : NoDup (remaining m c)) by (apply NoDup_filter; exact Hndc).
  rewrite Erem in Hndr. inversion Hndr as [|? ? Hni _]; subst. intros ->. apply Hni. left. reflexivity.
Qed.

Section FIX.
Variable nvars : nat.
Variable cls : list clause.
Hypothesis Hrange : lits_in_range nvars cls.
Hypothesis Hadj : rem_adj_ok cls.

Definition frame_eq (m : pmodel) (except : option lit) (w w' : watches) : Prop :=
  forall l, pm_is_set m (lvar l) = true -> Some l <> except -> wl_get w' l = wl_get w l.
Definition lowerV (m : pmodel) (w w' : watches) : Prop :=
  forall mj B, pm_le mj m -> V cls B w mj -> V cls B w' mj.
Definition prefix_sat (w : watches) (m : pmodel) (a : lit) (idx : nat) : Prop :=
  forall p, p < idx -> clause_sat m (nth (nth p (wl_get w (lneg a)) 0) cls []) = true.

Lemma up_fix fuel :
  (forall w m a w' r, S_inv nvars cls w -> length m = nvars -> lvar a < nvars ->
     up_decide false cls fuel w m a = URes w' r ->
     S_inv nvars cls w' /\ frame_eq m None w w' /\ lowerV m w w' /\
     (forall m', r = Some m' -> forall B, V cls B w m -> V cls B w' m')) /\
  (forall w m a idx w' r, S_inv nvars cls w -> length m = nvars -> lvar a < nvars ->
     lit_true m a = true ->
     up_loop false cls fuel w m a idx = URes w' r ->
     S_inv nvars cls w' /\ frame_eq m (Some (lneg a)) w w' /\ lowerV m w w' /\
     (forall m', r = Some m' -> forall B, V cls (a :: B) w m -> prefix_sat w m a idx -> V cls B w' m')).
Proof.
  induction fuel as [|f [IHd IHl]]; [split; intros; discriminate|]. split.
  - intros w m a w' r HS Hlen Ha H. rewrite up_decide_S in H.
    destruct (pm_get m (lvar a)) as [x|] eqn:E.
    + assert (Hww : w' = w) by (destruct (Bool.eqb x (lpol a)); inversion H; reflexivity). subst w'.
      split; [exact HS|split; [intros l _ _; reflexivity|split; [intros mj B _ HV; exact HV|]]].
      intros m' Hr B HV. destruct (Bool.eqb x (lpol a)); inversion H as [Hrr]; rewrite <- Hrr in Hr;
        [|discriminate]. inversion Hr. subst m'. exact HV.
    + apply IHl in H; try assumption.
      * destruct H as [HS' [Hfr [Hlow Hcur]]]. split; [exact HS'|split; [|split]].
        -- intros l Hl _. apply Hfr.
           ++ unfold pm_is_set in *. destruct (pm_get m (lvar l)) as [y|] eqn:Ey; [|discriminate].
              rewrite (pm_le_set m (lvar a) (lpol a) E _ _ Ey). reflexivity.
           ++ intros Hx. inversion Hx; subst. unfold pm_is_set in Hl. rewrite lvar_lneg, E in Hl. discriminate.
        -- intros mj B Hle HV. apply Hlow; [|exact HV]. eapply pm_le_trans; [exact Hle|apply pm_le_set; exact E].
        -- intros m' Hr B HV. apply (Hcur m' Hr B); [apply V_set; assumption|]. intros p Hp. lia.
      * unfold pm_set. rewrite length_set_nth. exact Hlen.
      * unfold lit_true. rewrite pm_get_set_same by lia. apply eqb_reflx.
  - intros w m a idx w' r HS Hlen Ha Hta H. rewrite up_loop_S in H. cbv zeta in H.
    destruct (Nat.leb (length (wl_get w (lneg a))) idx) eqn:Eidx.
    { injection H as Hw0 Hr0; subst w' r. apply Nat.leb_le in Eidx.
      split; [exact HS|split; [intros l _ _; reflexivity|split; [intros mj B _ HV; exact HV|]]].
      intros m' Hr B HV Hpre. injection Hr as Hr; subst m'. intros ci l Hci Hl2 Hwt Hf.
      destruct (HV ci l Hci Hl2 Hwt Hf) as [Hs|[Hb|Hb]]; [left; exact Hs| |right; exact Hb].
      left. assert (l = lneg a) by (rewrite Hb; symmetry; apply lneg_involutive). subst l.
      unfold watched in Hwt. apply In_nth with (d := 0) in Hwt. destruct Hwt as [p [Hp <-]]. apply Hpre. lia. }
    apply Nat.leb_gt in Eidx.
    set (la := lneg a) in *. set (ci := nth idx (wl_get w la) 0) in *.
    assert (Hci : ci < length cls).
    { pose proof (wl_get_ok _ _ la (S_ok _ _ _ HS)) as Hall. eapply Forall_forall in Hall; [exact Hall|].
      apply nth_In. exact Eidx. }
    set (c := nth ci cls []) in *.
    assert (Hc : In c cls) by (apply nth_In_clause; exact Hci).
    assert (Hwok : w_ok (length cls) w) by (apply (S_ok _ _ _ HS)).
    destruct (clause_sat m c) eqn:Esat.
    { apply IHl in H; try assumption. destruct H as [HS' [Hfr [Hlow Hcur]]].
      split; [exact HS'|split; [exact Hfr|split; [exact Hlow|]]].
      intros m' Hr B HV Hpre. apply (Hcur m' Hr B HV). intros p Hp.
      destruct (Nat.eq_dec p idx) as [->|Hne]; [exact Esat|apply Hpre; lia]. }
    destruct (remaining m c) as [|u [|second rest]] eqn:Erem.
    + injection H as Hw0 Hr0; subst w' r.
      split; [exact HS|split; [intros l _ _; reflexivity|split; [intros mj B _ HV; exact HV|]]].
      intros m' Hr. discriminate.
    + assert (Hu : In u (remaining m c)) by (rewrite Erem; left; reflexivity).
      apply remaining_in in Hu. destruct Hu as [Huc Huu].
      assert (Hur : lvar u < nvars) by (eapply Hrange; eauto).
      destruct (up_decide false cls f w m u) as [|w1 [m1|]] eqn:Ed; [discriminate| |].
      * pose proof Ed as Ed0. apply IHd in Ed; try assumption. destruct Ed as [HS1 [Hfr1 [Hlow1 Hcur1]]].
        pose proof (proj1 (up_basic false cls f) _ _ _ _ _ Hwok Ed0) as [_ [Hm1 _]].
        destruct (Hm1 m1 eq_refl) as [Hlen1 Hle1].
        assert (Htu : lit_true m1 u = true) by (eapply up_decide_sets; eauto; lia).
        assert (Hla1 : wl_get w1 la = wl_get w la).
        { apply Hfr1; [|discriminate]. unfold la. rewrite lvar_lneg. apply lit_true_not_unset. exact Hta. }
        apply IHl in H; try assumption; [|congruence|eapply lit_true_le; eauto].
        destruct H as [HS' [Hfr [Hlow Hcur]]]. split; [exact HS'|split; [|split]].
        -- intros l Hl Hx. rewrite Hfr.
           ++ apply Hfr1; [exact Hl|discriminate].
           ++ unfold pm_is_set in *. destruct (pm_get m (lvar l)) as [y|] eqn:Ey; [|discriminate].
              rewrite (Hle1 _ _ Ey). reflexivity.
           ++ exact Hx.
        -- intros mj B Hle HV. apply Hlow; [eapply pm_le_trans; eauto|]. apply Hlow1; assumption.
        -- intros m' Hr B HV Hpre. apply (Hcur m' Hr B).
           ++ apply (Hcur1 m1 eq_refl (a :: B)). exact HV.
           ++ intros p Hp. fold la. rewrite Hla1. destruct (Nat.eq_dec p idx) as [->|Hne].
              ** fold ci. fold c. unfold clause_sat. apply existsb_exists. exists u. auto.
              ** eapply clause_sat_le; [exact Hle1|]. apply Hpre. lia.
      * injection H as Hw0 Hr0; subst w' r. apply IHd in Ed; try assumption. destruct Ed as [HS1 [Hfr1 [Hlow1 _]]].
        split; [exact HS1|split; [|split; [exact Hlow1|intros m' Hr; discriminate]]].
        intros l Hl _. apply Hfr1; [exact Hl|discriminate].
    + (* move the watch *)
      set (nl := if mem_nat ci (wl_get w u) then second else u) in *.
      change (wl_push (wl_put w la (swap_remove (wl_get w la) idx)) nl ci) with (move_watch w la idx nl) in H.
      assert (Hu : In u (remaining m c)) by (rewrite Erem; left; reflexivity).
      assert (Hs : In second (remaining m c)) by (rewrite Erem; right; left; reflexivity).
      apply remaining_in in Hu. apply remaining_in in Hs. destruct Hu as [Huc Huu]. destruct Hs as [Hsc Hsu].
      assert (Hus : u <> second) by (eapply Hadj; eauto).
      assert (Hfla : lit_false m la = true) by (apply lit_true_false_neg; exact Hta).
      assert (Hnlc : In nl c /\ lit_unset m nl = true) by (unfold nl; destruct (mem_nat ci (wl_get w u)); auto).
      destruct Hnlc as [Hnlc Hnlu].
      assert (Hnla : nl <> la).
      { intros Hx. rewrite Hx in Hnlu. apply unset_not_false in Hnlu. congruence. }
      assert (Hnlr : lvar nl < nvars) by (eapply Hrange; eauto).
      assert (Hlar : lvar la < nvars) by (unfold la; rewrite lvar_lneg; exact Ha).
      assert (Hwla : watched w ci la) by (apply nth_In; exact Eidx).
      assert (Hlen2 : 2 <= length c).
      { assert (Hlr : length (remaining m c) <= length c) by apply filter_len_le.
        rewrite Erem in Hlr. simpl in Hlr. lia. }
      assert (Hnw : ~ watched w ci nl).
      { unfold nl. destruct (mem_nat ci (wl_get w u)) eqn:Em.
        - apply mem_nat_in in Em. destruct (S_two _ _ _ HS ci Hci Hlen2) as [l1 [l2 [H12 [_ [_ Hiff]]]]].
          intros Hws. apply Hiff in Hws. apply Hiff in Hwla. apply Hiff in Em.
          assert (Hula : u <> la).
          { intros Hx. rewrite Hx in Huu. apply unset_not_false in Huu. congruence. }
          assert (Hsla : second <> la).
          { intros Hx. rewrite Hx in Hsu. apply unset_not_false in Hsu. congruence. }
          destruct Hws as [-> | ->], Hwla as [Hy|Hy], Em as [Hz|Hz]; congruence.
        - intros Hx. apply mem_nat_in in Hx. congruence. }
      assert (HS2 : S_inv nvars cls (move_watch w la idx nl)) by (apply S_move; assumption).
      destruct (move_watch_spec nvars cls w la idx nl HS Hlar Hnlr Hnla Eidx Hnw) as [_ [_ [Hoth [Hpref _]]]].
      apply IHl in H; try assumption. destruct H as [HS' [Hfr [Hlow Hcur]]].
      split; [exact HS'|split; [|split]].
      * intros l Hl Hx. rewrite Hfr by assumption. apply Hoth; [congruence|].
        intros ->. unfold lit_unset in Hnlu. rewrite Hl in Hnlu. discriminate.
      * intros mj B Hle HV. apply Hlow; [exact Hle|]. eapply V_move; eauto. eapply lit_unset_le; eauto.
      * intros m' Hr B HV Hpre. apply (Hcur m' Hr B).
        -- eapply V_move; eauto. apply unset_not_false. exact Hnlu.
        -- intros p Hp. fold la. rewrite Hpref by exact Hp. apply Hpre. exact Hp.
Qed.
End FIX.

(* ---------- D2: the pinned replacement-watch test misses a unit; the repaired one does not ---------- *)
Definition d2_cnf : list clause := [[(0, false); (1, false); (2, true)]].
Definition d2_hist : list op := [Decide (0, true); Pop; Decide (2, false); Decide (0, true)].
Definition final_state (pinned : bool) (raw : list clause) (h : list op) : option (pmodel * list lit) :=
  match solver_of_raw pinned raw with
  | NewSome s => match run_track pinned s [] h with
                 | Some (s', ds) => Some (ss_model (top_state s'), ds)
                 | None => None
                 end
  | _ => None
  end.

(* the fix-point clause, as a boolean: no clause is falsified, none has exactly one unassigned
   literal occurrence and no true literal *)
Definition clause_quiet (m : pmodel) (c : clause) : bool :=
  clause_sat m c || Nat.leb 2 (length (remaining m c)).
Definition fixpoint_ok (cls : list clause) (m : pmodel) : bool := forallb (clause_quiet m) cls.

Lemma d2_pinned :
  final_state true d2_cnf d2_hist = Some ([Some true; None; Some false], [(0, true); (2, false)]) /\
  fixpoint_ok (cnf_new d2_cnf) [Some true; None; Some false] = false.
Proof. split; vm_compute; reflexivity. Qed.
Lemma d2_repaired :
  final_state false d2_cnf d2_hist = Some ([Some true; Some false; Some false], [(0, true); (2, false)]) /\
  fixpoint_ok (cnf_new d2_cnf) [Some true; Some false; Some false] = true.
Proof. split; vm_compute; reflexivity. Qed.
(* ---------- invariant at rest => fix-point ---------- *)
Definition units_true (cls : list clause) (m : pmodel) : Prop :=
  forall l, In [l] cls -> lit_true m l = true.

Lemma lit_trichotomy m l : lit_true m l = true \/ lit_false m l = true \/ lit_unset m l = true.
Proof.
  unfold lit_true, lit_false, lit_unset, pm_is_set. destruct (pm_get m (lvar l)) as [x|]; [|auto].
  destruct (Bool.eqb (lpol l) x); auto.
Qed.

Lemma two_in_length {A} (x y : A) l : x <> y -> In x l -> In y l -> 2 <= length l.
Proof.
  intros Hne Hx Hy. destruct l as [|a [|b t]]; simpl in *;
    [destruct Hx|destruct Hx as [Hx|[]], Hy as [Hy|[]]; congruence|lia].
Qed.

Lemma inv_fixpoint nvars cls w m :
  S_inv nvars cls w -> V cls [] w m -> units_true cls m -> ~ In [] cls ->
  fixpoint_ok cls m = true.
Proof.
  intros HS HV Hu Hne. unfold fixpoint_ok. apply forallb_forall. intros c Hc.
  unfold clause_quiet. destruct (clause_sat m c) eqn:Esat; [reflexivity|]. cbn [orb]. apply Nat.leb_le.
  pose proof Hc as Hc'. apply In_nth with (d := []) in Hc'. destruct Hc' as [ci [Hci Hnth]].
  destruct c as [|l0 [|l1 t]].
  - contradiction.
  - exfalso. specialize (Hu l0 Hc). unfold clause_sat in Esat. simpl in Esat. rewrite Hu in Esat. discriminate.
  - assert (Hlen : 2 <= length (nth ci cls [])) by (rewrite Hnth; simpl; lia).
    destruct (S_two _ _ _ HS ci Hci Hlen) as [x [y [Hxy [Hx [Hy Hiff]]]]]. rewrite Hnth in Hx, Hy.
    assert (Hun : forall z, In z (l0 :: l1 :: t) -> watched w ci z -> lit_unset m z = true).
    { intros z Hz Hwz. destruct (lit_trichotomy m z) as [Ht|[Hf|Hu']]; [| |exact Hu'].
      - exfalso. assert (clause_sat m (l0 :: l1 :: t) = true) by (apply existsb_exists; exists z; auto). congruence.
      - exfalso. destruct (HV ci z Hci Hlen Hwz Hf) as [Hs|[]]. rewrite Hnth in Hs. congruence. }
    apply (two_in_length x y); [exact Hxy| |]; apply filter_In; split; auto; apply Hun; auto; apply Hiff; auto.
Qed.

(* ---------- one decide from a state satisfying the invariant (repaired code) ----------
   [w] are the shared watch lists, [m] the model on top of the stack, [mj] any model below it. *)
Theorem fix_step nvars cls fuel w m a w' r :
  lits_in_range nvars cls -> rem_adj_ok cls -> ~ In [] cls ->
  S_inv nvars cls w -> length m = nvars -> lvar a < nvars ->
  up_decide false cls fuel w m a = URes w' r ->
  S_inv nvars cls w' /\
  (forall mj, pm_le mj m -> V cls [] w mj -> V cls [] w' mj) /\
  (forall m', r = Some m' -> V cls [] w m -> units_true cls m ->
     V cls [] w' m' /\ units_true cls m' /\ length m' = nvars /\ pm_le m m' /\ fixpoint_ok cls m' = true).
Proof.
  intros Hrange Hadj Hne HS Hlen Ha H.
  pose proof (proj1 (up_fix nvars cls Hrange Hadj fuel) _ _ _ _ _ HS Hlen Ha H) as [HS' [_ [Hlow Hcur]]].
  pose proof (proj1 (up_basic false cls fuel) _ _ _ _ _ (S_ok _ _ _ HS) H) as [_ [Hm _]].
  split; [exact HS'|split; [intros mj Hle HV; apply Hlow; assumption|]].
  intros m' Hr HV Hu. destruct (Hm m' Hr) as [Hlen' Hle].
  assert (HV' : V cls [] w' m') by (apply (Hcur m' Hr []); exact HV).
  assert (Hu' : units_true cls m') by (intros l Hl; eapply lit_true_le; [exact Hle|apply Hu; exact Hl]).
  split; [exact HV'|split; [exact Hu'|split; [congruence|split; [exact Hle|]]]].
  eapply inv_fixpoint; eauto.
Qed.
