(* C09 — proofs about the unit-propagation / SATSolver model. *)
From Coq Require Import Bool NArith List Arith Lia.
Import ListNotations.
From RsddV Require Import Base.Util Model.UnitProp.

(* D2 history on the one-clause CNF (¬x0 ∨ ¬x1 ∨ x2) *)
Definition d2_cnf : list clause := [[(0, false); (1, false); (2, true)]].
Definition d2_hist : list op := [Decide (0, true); Pop; Decide (2, false); Decide (0, true)].
Definition final_model (pinned : bool) (raw : list clause) (h : list op) : option pmodel :=
  match solver_of_raw pinned raw with
  | NewSome s => Some (ss_model (top_state (run pinned s h)))
  | _ => None
  end.

Lemma d2_pinned : final_model true d2_cnf d2_hist = Some [Some true; None; Some false].
Proof. vm_compute. reflexivity. Qed.
Lemma d2_repaired : final_model false d2_cnf d2_hist = Some [Some true; Some false; Some false].
Proof. vm_compute. reflexivity. Qed.
