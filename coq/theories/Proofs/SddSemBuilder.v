(* C11 -- SemanticSddBuilder: the theorems of the layers (Proofs/SddSemBuilderBase / Store / And /
   Prog / Hash) restated on plain runs of the model, with the hypotheses bundled:

   [sem_inj P w D K] -- "the hash is injective on the nodes requested during the run":
     D is closed under negation, contains PtrFalse, and pointers of D with equal hashes denote
     equal functions;  K contains (True, True) and (False, False), and pairs of K with equal
     apply-cache keys (hash a * hash b) have equal conjunctions.
   [Forall (evok D K) log] -- every pointer whose hash the run compared lies in D and every pair
     whose product keyed the apply cache lies in K ([log] is the run's ghost output). *)
From Coq Require Import Bool NArith List Lia Arith Permutation.
Import ListNotations.
From RsddV Require Import Base.Bdd Base.Util Model.SddVtree Model.SddOps Model.Semirings Model.SemHash
  Model.SddSemBuilder.
From RsddV Require Model.Compile Proofs.SddProg.
From RsddV Require Import Proofs.Semirings Proofs.Wmc Proofs.SemHash Proofs.SemHashSdd Proofs.SddBase Proofs.SddVtree
  Proofs.SddWmc Proofs.SddInv Proofs.SddLoops
  Proofs.SddSemBuilderBase Proofs.SddSemBuilderStore Proofs.SddSemBuilderAnd Proofs.SddSemBuilderProg
  Proofs.SddSemBuilderHash.

Definition sem_inj (P : N) (w : wmap) (D : sdd -> Prop) (K : sdd -> sdd -> Prop) : Prop :=
  (forall p, D p -> D (sneg p)) /\ D SF /\
  (forall p q, D p -> D q -> shash P w p = shash P w q -> forall a, sden p a = sden q a) /\
  K ST ST /\ K SF SF /\
  (forall a b a' b', K a b -> K a' b' -> app_key P (shash P w) a b = app_key P (shash P w) a' b' ->
     forall x, sden a x && sden b x = sden a' x && sden b' x).

Section Main.
Variable t : vtree.
Variable P : N.
Hypothesis OK : ff_ok P.
Variable w : wmap.
Hypothesis WR : wrange P w.
Variable D : sdd -> Prop.
Variable K : sdd -> sdd -> Prop.
Hypothesis HI : sem_inj P w D K.

Notation swf := (swf t).
Notation inv := (inv t P w D K).
Notation lok := (Forall (evok D K)).

Let Dneg := proj1 HI.
Let DF := proj1 (proj2 HI).
Let Dinj := proj1 (proj2 (proj2 HI)).
Let KT := proj1 (proj2 (proj2 (proj2 HI))).
Let KF := proj1 (proj2 (proj2 (proj2 (proj2 HI)))).
Let Kinj := proj2 (proj2 (proj2 (proj2 (proj2 HI)))).

(* (a) the node store *)
Theorem sem_get_or_insert_correct n st r st' log : inv st -> swf n ->
  get_or_insert P (shash P w) n st = Ok (r, st', log) -> lok log ->
  inv st' /\ swf r /\ forall a, sden r a = sden n a.
Proof.
  intros Hinv Wn E L.
  exact (get_or_insert_sp t P OK w WR D K Dneg DF Dinj n st Hinv Wn r st' log E L).
Qed.

(* sdd_eq is sound on D ... *)
Theorem sem_eq_sound a b st r st' log :
  eqS (shash P w) a b st = Ok (r, st', log) -> lok log -> st' = st /\ (r = true -> forall x, sden a x = sden b x).
Proof. intros E L. exact (eqS_sp P w D K Dinj a b st r st' log E L). Qed.

(* (b) conjunction, disjunction *)
Theorem sem_and_correct fuel a b st r st' log : inv st -> swf a -> swf b ->
  and_m t P (shash P w) fuel a b st = Ok (r, st', log) -> lok log ->
  inv st' /\ swf r /\ forall x, sden r x = sden a x && sden b x.
Proof.
  intros Hinv Wa Wb E L.
  exact (and_m_ok t P OK w WR D K Dneg DF Dinj KT KF Kinj fuel a b st Hinv Wa Wb r st' log E L).
Qed.

Theorem sem_or_correct fuel a b st r st' log : inv st -> swf a -> swf b ->
  or_m t P (shash P w) fuel a b st = Ok (r, st', log) -> lok log ->
  inv st' /\ swf r /\ forall x, sden r x = sden a x || sden b x.
Proof.
  intros Hinv Wa Wb E L.
  exact (or_m_ok t P OK w WR D K Dneg DF Dinj KT KF Kinj fuel a b st Hinv Wa Wb r st' log E L).
Qed.

Theorem sem_condition_correct f v b st r st' log : inv st -> swf f ->
  condition_m P (shash P w) f v b st = Ok (r, st', log) -> lok log ->
  inv st' /\ swf r /\ forall x, sden r x = sden f (upd x v b).
Proof.
  intros Hinv Wf E L.
  exact (condition_ok t P OK w WR D K Dneg DF Dinj f v b st Hinv Wf r st' log E L).
Qed.

Theorem sem_exists_correct fuel f v st r st' log : inv st -> swf f ->
  exists_m t P (shash P w) fuel f v st = Ok (r, st', log) -> lok log ->
  inv st' /\ swf r /\ forall x, sden r x = sden f (upd x v true) || sden f (upd x v false).
Proof.
  intros Hinv Wf E L.
  exact (exists_ok t P OK w WR D K Dneg DF Dinj KT KF Kinj fuel f v st Hinv Wf r st' log E L).
Qed.

Theorem sem_compile_cnf_correct fuel (f sorted : list (list lit)) st r st' log : inv st ->
  Permutation sorted f -> Forall (Forall (fun l : lit => In (fst l) (vleaves t))) f ->
  compile_cnf_m t P (shash P w) fuel f sorted st = Ok (r, st', log) -> lok log ->
  inv st' /\ swf r /\ forall a, sden r a = Compile.cnf_eval f a.
Proof.
  intros Hinv Pm Hv E L.
  exact (compile_cnf_ok t P OK w WR D K Dneg DF Dinj KT KF Kinj fuel f sorted st Hinv Pm Hv r st' log E L).
Qed.

(* a cached apply result is what the computation without the apply cache gives, up to denotation *)
Theorem sem_cache_transparent fuel fuel' a b st r1 s1 l1 r2 s2 l2 : inv st -> swf a -> swf b ->
  and_m t P (shash P w) fuel a b st = Ok (r1, s1, l1) -> lok l1 ->
  and_m t P (shash P w) fuel' a b (mkSst (s_tbl st) []) = Ok (r2, s2, l2) -> lok l2 ->
  forall x, sden r1 x = sden r2 x.
Proof.
  intros Hinv Wa Wb E1 L1 E2 L2.
  assert (Hinv' : inv (mkSst (s_tbl st) [])).
  { destruct Hinv as [It _]. split; [exact It|]. intros h y E. discriminate. }
  destruct (sem_and_correct fuel a b st r1 s1 l1 Hinv Wa Wb E1 L1) as (_ & _ & S1).
  destruct (sem_and_correct fuel' a b _ r2 s2 l2 Hinv' Wa Wb E2 L2) as (_ & _ & S2).
  intros x. rewrite S1, S2. reflexivity.
Qed.

(* (c) operation programs on a fresh builder *)
Theorem sem_run_correct fuel ops pool st log : Forall (SddProg.op_wf t) ops ->
  run_prog_sem t P w fuel ops = Ok (pool, st, log) -> lok log ->
  Forall2 (SddProg.denotes swf) pool (SddProg.spec_run [] ops) /\ inv st.
Proof.
  intros Hw E L. unfold run_prog_sem in E.
  destruct (run_s_ok t P OK w WR D K Dneg DF Dinj KT KF Kinj fuel ops [] [] sst_empty
              (inv_empty t P w D K) (Forall2_nil _) Hw pool st log E L) as [I1 Hp].
  split; assumption.
Qed.

(* sdd_eq decides semantic equality exactly on well-formed members of D *)
Theorem sem_eq_exact a b st r st' log : NoDup (vleaves t) -> swf a -> swf b ->
  eqS (shash P w) a b st = Ok (r, st', log) -> lok log ->
  (r = true <-> forall x, sden a x = sden b x).
Proof.
  intros ND Wa Wb E L. split.
  - apply (sem_eq_sound a b st r st' log E L).
  - intros Eab. rewrite (eqS_never_splits t ND P OK w WR a b st Wa Wb Eab) in E. injection E as <- _ _. reflexivity.
Qed.

(* ... in particular on the pool of a program: eq(pool[i], pool[j]) = (spec_i == spec_j) *)
Theorem sem_pool_eq_exact fuel ops pool st log i j r st' log' : NoDup (vleaves t) ->
  Forall (SddProg.op_wf t) ops ->
  run_prog_sem t P w fuel ops = Ok (pool, st, log) -> lok log ->
  i < length pool -> j < length pool ->
  pool_eq (shash P w) pool i j st = Ok (r, st', log') -> lok log' ->
  (r = true <-> forall x, SddProg.fget (SddProg.spec_run [] ops) i x = SddProg.fget (SddProg.spec_run [] ops) j x).
Proof.
  intros ND Hw E L Hi Hj Ee Le.
  destruct (sem_run_correct fuel ops pool st log Hw E L) as [Hp _].
  destruct (pget_ok t pool _ i Hp) as [Wi Di]. destruct (pget_ok t pool _ j Hp) as [Wj Dj].
  unfold pool_eq in Ee. rewrite (sem_eq_exact _ _ st r st' log' ND Wi Wj Ee Le).
  split; intros Hx x; [rewrite <- Di, <- Dj | rewrite Di, Dj]; apply Hx.
Qed.

(* every pool entry hashes to the defining sum of its specification function *)
Theorem sem_pool_hashed fuel ops pool st log vars x : NoDup (vleaves t) -> NoDup vars -> incl (vleaves t) vars ->
  Forall (SddProg.op_wf t) ops ->
  run_prog_sem t P w fuel ops = Ok (pool, st, log) -> lok log ->
  Forall2 (fun p f => shash P w p = fhash P w vars f x) pool (SddProg.spec_run [] ops).
Proof.
  intros ND NDV INC Hw E L.
  destruct (sem_run_correct fuel ops pool st log Hw E L) as [Hp _].
  assert (G : forall pl fs, Forall2 (SddProg.denotes swf) pl fs ->
              Forall2 (fun p f => shash P w p = fhash P w vars f x) pl fs).
  { induction 1 as [|p f pool' fs' [Wp Dp] _ IH]; constructor; [|exact IH].
    rewrite (shash_is_sum t ND P OK w WR vars NDV INC x p Wp). apply (fhash_ext P OK w WR). exact Dp. }
  apply G. exact Hp.
Qed.
End Main.
