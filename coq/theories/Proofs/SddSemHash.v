(* C11, SDD half: semantic hashing of SDD pointers is denotational.  Proofs about
   Model/SddSemHash.v, derived from C07S (Proofs/SddWmc.v: the SDD fold equals the semiring sum over
   the models for every SDD satisfying the builder invariant) instantiated in the ring Z/P as a
   type (Proofs/SemHash.v), exactly as the BDD half derives from C07.

   (a) [sdd_hash_m] (DDNNFPtr::semantic_hash = unsmoothed_wmc in FiniteField<P>) never panics and
       is the C07S fold in integer arithmetic modulo P for EVERY unfolding ([sdd_hash_c_exact]);
       under the builder invariant it is the defining sum [fhash] ([sdd_hash_is_sum]), hence
       denotational, equal to the hash of any free BDD of the same function, and
       hash (neg p) = negate (hash p) = 1 - hash p.
   (b) [sdd_cached_hash] (SddPtr::cached_semantic_hash with the per-node caches, complemented
       pointer = negate of the regular one, SddOr = FiniteField::new of a raw u128 sum): from any
       sound cache state it returns the same value as (a), keeps the cache sound and loses nothing
       ([sdd_cached_hash_eq]) -- under the builder invariant (needed: "1 - hash of the node" is
       the count of the complemented node only when the primes partition) and the guard
       (number of elements of any SddOr) * P <= 2^128 on the raw sum.
   P is not assumed prime. *)
From Coq Require Import Bool NArith List Lia Arith.
Import ListNotations.
From RsddV Require Import Base.Bdd Model.SddVtree Model.SddOps Model.Wmc Model.SddWmc Model.Semirings Model.SemHash
  Model.SddSemHash.
From RsddV Require Import Proofs.SddBase Proofs.SddVtree Proofs.SddInv Proofs.Wmc Proofs.SddWmc Proofs.SddScratch
  Proofs.Semirings Proofs.SemHash Generated.Constants.

Local Open Scope N_scope.
Local Notation obind := Semirings.bind.

(* ===================================================================================== *)
(* the guards                                                                               *)
Definition sdd_vars_in (p : sdd) (w : wmap) : Prop := forall v, In v (sdd_vars p) -> (N.to_nat v < length w)%nat.
(* the raw u128 sum of SddOr::semantic_hash cannot overflow: at most K terms below P *)
Definition sdd_width_ok (P : N) (p : sdd) : Prop := N.of_nat (sdd_maxw p) * P <= u128.

Lemma sdd_vars_or c i els v :
  In v (sdd_vars (SOr c i els)) <-> exists e, In e els /\ (In v (sdd_vars (fst e)) \/ In v (sdd_vars (snd e))).
Proof.
  cbn [sdd_vars]. induction els as [|[pr sb] r IH].
  - split; [intros [] | intros (e & [] & _)].
  - rewrite !in_app_iff, IH. split.
    + intros [H|[H|(e & He & H)]]; [exists (pr, sb) | exists (pr, sb) | exists e]; simpl; auto.
    + intros (e & [<-|He] & H); cbn [fst snd] in *; [tauto|]. right. right. exists e. auto.
Qed.

Lemma sdd_vars_in_or c i els w : sdd_vars_in (SOr c i els) w ->
  forall e, In e els -> sdd_vars_in (fst e) w /\ sdd_vars_in (snd e) w.
Proof.
  intros V e He. split; intros v Hv; apply V; apply sdd_vars_or; exists e; auto.
Qed.

Lemma sdd_vars_in_bdd c l i lo hi w : sdd_vars_in (SBdd c l i lo hi) w ->
  (N.to_nat l < length w)%nat /\ sdd_vars_in lo w /\ sdd_vars_in hi w.
Proof.
  intros V. split; [apply V; simpl; auto|].
  split; intros v Hv; apply V; simpl; right; apply in_or_app; auto.
Qed.

Lemma sdd_vars_sneg p : sdd_vars (sneg p) = sdd_vars p.
Proof. destruct p; reflexivity. Qed.
Lemma sdd_vars_in_sneg p w : sdd_vars_in p w -> sdd_vars_in (sneg p) w.
Proof. unfold sdd_vars_in. rewrite sdd_vars_sneg. auto. Qed.

Lemma sdd_maxw_or c i els :
  (length els <= sdd_maxw (SOr c i els))%nat /\
  forall e, In e els -> (sdd_maxw (fst e) <= sdd_maxw (SOr c i els))%nat /\ (sdd_maxw (snd e) <= sdd_maxw (SOr c i els))%nat.
Proof.
  cbn [sdd_maxw]. split; [lia|]. intros e He.
  assert (G : (sdd_maxw (fst e) <= (fix go (l : list elem) : nat :=
              match l with [] => 0%nat | (pr, sb) :: r => Nat.max (sdd_maxw pr) (Nat.max (sdd_maxw sb) (go r)) end) els)%nat /\
              (sdd_maxw (snd e) <= (fix go (l : list elem) : nat :=
              match l with [] => 0%nat | (pr, sb) :: r => Nat.max (sdd_maxw pr) (Nat.max (sdd_maxw sb) (go r)) end) els)%nat).
  { induction els as [|[pr sb] r IH]; [destruct He|].
    destruct He as [<-|He]; cbn [fst snd]; [lia|]. specialize (IH He). lia. }
  lia.
Qed.

Lemma sdd_width_ok_or P c i els : sdd_width_ok P (SOr c i els) ->
  N.of_nat (length els) * P <= u128 /\
  forall e, In e els -> sdd_width_ok P (fst e) /\ sdd_width_ok P (snd e).
Proof.
  unfold sdd_width_ok. intros H. destruct (sdd_maxw_or c i els) as [L E]. split; [nia|].
  intros e He. destruct (E e He). split; nia.
Qed.
Lemma sdd_width_ok_bdd P c l i lo hi : sdd_width_ok P (SBdd c l i lo hi) -> sdd_width_ok P lo /\ sdd_width_ok P hi.
Proof. unfold sdd_width_ok. cbn [sdd_maxw]. intros H. split; nia. Qed.
Lemma sdd_maxw_sneg p : sdd_maxw (sneg p) = sdd_maxw p.
Proof. destruct p; reflexivity. Qed.

(* the variables of an SDD below a vtree are leaves of that vtree: a map covering the vtree's
   variables (create_semantic_hash_map(vtree.num_vars()) for labels 0..n-1) covers the SDD *)
Lemma under_vars : forall p u off, under u off p -> incl (sdd_vars p) (vleaves u).
Proof.
  induction p as [| |v b|c lb i lo hi IHlo IHhi|c i els IH] using sdd_ind'; intros u off Hu.
  - intros v [].
  - intros v [].
  - intros v' [<-|[]]. eapply under_var_in; eauto.
  - destruct (under_locate u off _ Hu eq_refl) as (l & r & off' & Ho & Hn); [discriminate|].
    destruct Hn as [(c0 & lbl0 & lo0 & hi0 & [= <- <- -> <- <-] & H1 & H2 & H3)|(c0 & els0 & [=] & _)].
    pose proof (occurs_leaves _ _ _ _ Ho) as I. cbn [vleaves] in I.
    intros v Hv. cbn [sdd_vars] in Hv. apply I, in_or_app. destruct Hv as [<-|Hv]; [auto|].
    apply in_app_or in Hv. right. destruct Hv; [eapply IHlo | eapply IHhi]; eauto.
  - destruct (under_locate u off _ Hu eq_refl) as (l & r & off' & Ho & Hn); [discriminate|].
    destruct Hn as [(c0 & lbl0 & lo0 & hi0 & [=] & _)|(c0 & els0 & [= <- -> <-] & H1 & H2 & H3)].
    pose proof (occurs_leaves _ _ _ _ Ho) as I. cbn [vleaves] in I.
    intros v Hv. apply sdd_vars_or in Hv. destruct Hv as (e & He & Hv).
    unfold okl in H2. rewrite Forall_forall in *. destruct (IH e He) as [I1 I2]. destruct (H2 e He) as [U1 U2].
    apply I, in_or_app. destruct Hv; [left; eapply I1 | right; eapply I2]; eauto.
Qed.

Lemma under_vars_in t p w : under t 0 p -> (forall v, In v (vleaves t) -> (N.to_nat v < length w)%nat) ->
  sdd_vars_in p w.
Proof. intros Hu Hw v Hv. apply Hw. eapply under_vars; eauto. Qed.

(* ===================================================================================== *)
(* layer 2: the fold in integer arithmetic modulo P                                         *)
Definition szhash_c (P : N) (w : wmap) (fl : bool) (p : sdd) : N :=
  sdd_wmc_c N (sr_add (zp_ops P)) (sr_mul (zp_ops P)) 0 1 (wl w) (wh w) fl p.
Definition szhash (P : N) (w : wmap) (p : sdd) : N := szhash_c P w false p.

Lemma szhash_c_sneg P w fl p : szhash_c P w fl (sneg p) = szhash_c P w (negb fl) p.
Proof. unfold szhash_c, sdd_wmc_c. apply sdd_fold_c_sneg. Qed.

Section SLayers.
Variable m : mode.
Variable P : N.
Hypothesis HP : 1 < P.
Hypothesis HP2 : 2 * P <= u128.
Variable w : wmap.
Hypothesis WR : wrange P w.

Let OK : ff_ok P := conj HP HP2.

Notation zl := (fun v => zmk P HP (wl w v)).
Notation zh := (fun v => zmk P HP (wh w v)).
Notation ZW := (sdd_wmc_c (zp P) (zadd P HP) (zmul P HP) (z0 P HP) (z1 P HP) zl zh).
Notation ZSPEC := (wmc_spec (zp P) (zadd P HP) (zmul P HP) (z0 P HP) (z1 P HP) zl zh).
Notation nadd := (sr_add (zp_ops P)).
Notation nmul := (sr_mul (zp_ops P)).

Lemma swl_lt v : wl w v < P. Proof. apply (wrange_total P w HP WR v). Qed.
Lemma swh_lt v : wh w v < P. Proof. apply (wrange_total P w HP WR v). Qed.

Lemma sz_norm v : zadd P HP (zl v) (zh v) = z1 P HP.
Proof.
  apply zp_eq. cbn [proj1_sig zadd zmul zmk z0 z1]. rewrite <- N.add_mod by lia.
  destruct (wrange_total P w HP WR v) as (_ & _ & E). rewrite E. symmetry. apply N.mod_small. lia.
Qed.

(* (3) -> (2): projecting the defining sum over the type Z/P (as in Proofs/SemHash.v) *)
Lemma sspec_proj vars f : forall x, proj1_sig (ZSPEC vars f x) = fhash P w vars f x.
Proof.
  induction vars as [|v vs IH]; intros x.
  - unfold fhash; cbn [Wmc.wmc_spec]. destruct (f x); cbn [proj1_sig zadd zmul zmk z0 z1]; apply N.mod_small; lia.
  - unfold fhash. cbn [Wmc.wmc_spec]. fold (fhash P w vs f (upd x v false)). fold (fhash P w vs f (upd x v true)).
    rewrite <- !IH. cbn [proj1_sig zadd zmul zmk z0 z1].
    rewrite (N.mod_small (wl w v)) by apply swl_lt. rewrite (N.mod_small (wh w v)) by apply swh_lt.
    reflexivity.
Qed.

(* the unfolding equations of the fold: a BinarySDD and an SddOr, integer and Z/P level *)
Lemma szhash_c_bdd fl c l i lo hi :
  szhash_c P w fl (SBdd c l i lo hi) =
  ((wh w l * szhash_c P w (xorb fl c) hi) mod P + (wl w l * szhash_c P w (xorb fl c) lo) mod P) mod P.
Proof.
  unfold szhash_c, sdd_wmc_c. cbn [sdd_fold_c]. unfold wlit. cbn [sr_add sr_mul zp_ops].
  rewrite N.add_0_l, N.mod_mod by lia. reflexivity.
Qed.

Lemma szhash_c_or fl c i els :
  szhash_c P w fl (SOr c i els) =
  fold_left (fun acc e => (acc + (szhash_c P w false (fst e) * szhash_c P w (xorb fl c) (snd e)) mod P) mod P) els 0.
Proof. unfold szhash_c, sdd_wmc_c. cbn [sdd_fold_c]. rewrite or_loop_eq_c. reflexivity. Qed.

Lemma ZW_bdd fl c l i lo hi :
  ZW fl (SBdd c l i lo hi) =
  zadd P HP (zadd P HP (z0 P HP) (zmul P HP (zh l) (ZW (xorb fl c) hi))) (zmul P HP (zl l) (ZW (xorb fl c) lo)).
Proof. reflexivity. Qed.

Lemma ZW_or fl c i els :
  ZW fl (SOr c i els) =
  fold_left (fun or_v e => zadd P HP or_v (zmul P HP (ZW false (fst e)) (ZW (xorb fl c) (snd e)))) els (z0 P HP).
Proof. unfold sdd_wmc_c. cbn [sdd_fold_c]. rewrite or_loop_eq_c. reflexivity. Qed.

(* ... and the SDD fold: EVERY unfolding *)
Lemma sswmc_c_proj p : forall fl, proj1_sig (ZW fl p) = szhash_c P w fl p.
Proof.
  induction p as [| |v b|c lb i lo hi IHlo IHhi|c i els IH] using sdd_ind'; intros fl.
  - destruct fl; unfold szhash_c, sdd_wmc_c; cbn [sdd_fold_c proj1_sig zadd zmul zmk z0 z1]; apply N.mod_small; lia.
  - destruct fl; unfold szhash_c, sdd_wmc_c; cbn [sdd_fold_c proj1_sig zadd zmul zmk z0 z1]; apply N.mod_small; lia.
  - unfold szhash_c, sdd_wmc_c; cbn [sdd_fold_c]. unfold wlit.
    destruct (xorb fl b); cbn [proj1_sig zmk]; apply N.mod_small; [apply swh_lt | apply swl_lt].
  - rewrite ZW_bdd, szhash_c_bdd. cbn [proj1_sig zadd zmul zmk z0 z1]. rewrite IHlo, IHhi.
    rewrite (N.mod_small (wl w lb)) by apply swl_lt. rewrite (N.mod_small (wh w lb)) by apply swh_lt.
    rewrite (N.mod_small 0) by lia. rewrite N.add_0_l, N.mod_mod by lia. reflexivity.
  - rewrite ZW_or, szhash_c_or.
    assert (G : forall zi ni, proj1_sig zi = ni ->
      proj1_sig (fold_left (fun or_v e => zadd P HP or_v (zmul P HP (ZW false (fst e)) (ZW (xorb fl c) (snd e)))) els zi) =
      fold_left (fun acc e => (acc + (szhash_c P w false (fst e) * szhash_c P w (xorb fl c) (snd e)) mod P) mod P) els ni).
    { induction IH as [|e r [I1 I2] _ IHr]; intros zi ni E; cbn [fold_left]; [exact E|].
      apply IHr. cbn [proj1_sig zadd zmul zmk]. rewrite I1, I2, E. reflexivity. }
    apply G. cbn [proj1_sig z0 zmk]. apply N.mod_small. lia.
Qed.

Lemma szhash_c_lt fl p : szhash_c P w fl p < P.
Proof. rewrite <- sswmc_c_proj. apply zp_lt. Qed.
Lemma szhash_lt p : szhash P w p < P.
Proof. apply szhash_c_lt. Qed.

(* the left-nested modular loop is the raw sum reduced once *)
Lemma mod_loop_raw (term : elem -> N) els : forall acc,
  fold_left (fun a e => (a + term e) mod P) els (acc mod P) =
  (acc + fold_right (fun e r => term e + r) 0 els) mod P.
Proof.
  induction els as [|e r IH]; intros acc; cbn [fold_left fold_right].
  - rewrite N.add_0_r. reflexivity.
  - rewrite N.add_mod_idemp_l by lia. rewrite IH. f_equal. lia.
Qed.

(* the unfolding equations of the hash as coded *)
Lemma sdd_hash_c_bdd fl c l i lo hi :
  sdd_hash_c m P w fl (SBdd c l i lo hi) =
  hadd m P (hadd m P (ff_zero P) (hmul m P (w_hi w l) (sdd_hash_c m P w (xorb fl c) hi)))
           (hmul m P (w_lo w l) (sdd_hash_c m P w (xorb fl c) lo)).
Proof. reflexivity. Qed.

Lemma sdd_hash_c_or fl c i els :
  sdd_hash_c m P w fl (SOr c i els) =
  fold_left (fun or_v e => hadd m P or_v (hmul m P (sdd_hash_c m P w false (fst e)) (sdd_hash_c m P w (xorb fl c) (snd e))))
            els (ff_zero P).
Proof. unfold sdd_hash_c, sdd_wmc_c. cbn [sdd_fold_c]. rewrite or_loop_eq_c. reflexivity. Qed.

(* (1) -> (2): the operations as coded never panic and compute the fold modulo P: EVERY unfolding
   whose variables are in the map *)
Lemma sdd_hash_c_exact p : sdd_vars_in p w -> forall fl, sdd_hash_c m P w fl p = Some (szhash_c P w fl p).
Proof.
  induction p as [| |v b|c lb i lo hi IHlo IHhi|c i els IH] using sdd_ind'; intros V fl.
  - unfold sdd_hash_c, szhash_c, sdd_wmc_c. cbn [sdd_fold_c]. destruct fl; [apply ff_zero_ok | apply ff_one_ok]; lia.
  - unfold sdd_hash_c, szhash_c, sdd_wmc_c. cbn [sdd_fold_c]. destruct fl; [apply ff_one_ok | apply ff_zero_ok]; lia.
  - assert (Vv : (N.to_nat v < length w)%nat) by (apply V; simpl; auto).
    unfold sdd_hash_c, szhash_c, sdd_wmc_c. cbn [sdd_fold_c]. unfold wlit.
    destruct (xorb fl b); [apply w_hi_in | apply w_lo_in]; exact Vv.
  - destruct (sdd_vars_in_bdd _ _ _ _ _ _ V) as (Vv & Vlo & Vhi).
    rewrite szhash_c_bdd, sdd_hash_c_bdd.
    rewrite (IHlo Vlo), (IHhi Vhi), (w_lo_in _ _ Vv), (w_hi_in _ _ Vv).
    rewrite ff_zero_ok by lia. unfold hmul, hadd. cbn [Semirings.bind].
    rewrite !ff_mul_exact_gen by (try apply swl_lt; try apply swh_lt; try apply szhash_c_lt; lia).
    cbn [Semirings.bind]. rewrite ff_add_exact_gen by (try (apply N.mod_lt; lia); lia). cbn [Semirings.bind].
    rewrite ff_add_exact_gen by (try (apply N.mod_lt; lia); lia).
    rewrite N.add_0_l, N.mod_mod by lia. reflexivity.
  - rewrite szhash_c_or, sdd_hash_c_or. rewrite ff_zero_ok by lia.
    assert (G : forall ni, ni < P ->
      fold_left (fun or_v e => hadd m P or_v (hmul m P (sdd_hash_c m P w false (fst e)) (sdd_hash_c m P w (xorb fl c) (snd e)))) els (Some ni) =
      Some (fold_left (fun acc e => (acc + (szhash_c P w false (fst e) * szhash_c P w (xorb fl c) (snd e)) mod P) mod P) els ni)).
    { pose proof (sdd_vars_in_or _ _ _ _ V) as VE. clear V.
      induction IH as [|e r [I1 I2] _ IHr]; intros ni Hni; cbn [fold_left]; [reflexivity|].
      destruct (VE e (or_introl eq_refl)) as [V1 V2].
      rewrite (I1 V1), (I2 V2). unfold hmul, hadd. cbn [Semirings.bind].
      rewrite ff_mul_exact_gen by (try apply szhash_c_lt; lia). cbn [Semirings.bind].
      rewrite ff_add_exact_gen by (try (apply N.mod_lt; lia); lia).
      apply IHr; [intros e' He'; apply VE; right; exact He' | apply N.mod_lt; lia]. }
    apply G. lia.
Qed.

(* ---- the defining sum: from C07S ---- *)
Section Vt.
Variable t : vtree.
Hypothesis ND : NoDup (vleaves t).

Theorem szhash_is_sum_local vars p fl u off x : NoDup vars -> incl (vleaves t) vars ->
  occurs t 0 u off -> under u off p ->
  szhash_c P w fl p = fhash P w vars (fun a => xorb fl (sden p a)) x.
Proof.
  intros NDV INC Ho Hu. rewrite <- sswmc_c_proj, <- sspec_proj. f_equal.
  apply (sdd_wmc_correct_local (zp P) (zadd P HP) (zmul P HP) (z0 P HP) (z1 P HP)
           (zadd_comm P HP) (zadd_assoc P HP) (zmul_assoc P HP) (zmul_comm P HP) (zmul_one_r P HP)
           (zmul_zero_r P HP) (zadd_zero_r P HP) (zdistr_l P HP) zl zh sz_norm vars NDV t ND INC p fl u off x Ho Hu).
Qed.

Theorem szhash_is_sum vars p fl x : NoDup vars -> incl (vleaves t) vars -> under t 0 p ->
  szhash_c P w fl p = fhash P w vars (fun a => xorb fl (sden p a)) x.
Proof. intros NDV INC Hu. apply (szhash_is_sum_local vars p fl t 0 x NDV INC (occurs_refl t 0) Hu). Qed.

(* the count of the complemented pointer is 1 - the count of the pointer: ONLY under the invariant
   (a complemented node is counted as the node with negated subs) *)
Lemma szhash_c_negb_local p fl u off : occurs t 0 u off -> under u off p ->
  szhash_c P w (negb fl) p = zp_sub P 1 (szhash_c P w fl p).
Proof.
  intros Ho Hu.
  rewrite (szhash_is_sum_local (vleaves t) p (negb fl) u off (fun _ => false) ND (incl_refl _) Ho Hu).
  rewrite (szhash_is_sum_local (vleaves t) p fl u off (fun _ => false) ND (incl_refl _) Ho Hu).
  rewrite <- (fhash_neg P OK w WR). apply (fhash_ext P OK w WR). intros a. destruct fl, (sden p a); reflexivity.
Qed.
End Vt.

(* ---- hash_denotational for SDDs: two SDDs under any two vtrees ---- *)
Theorem szhash_denotational t1 t2 p q : NoDup (vleaves t1) -> NoDup (vleaves t2) ->
  under t1 0 p -> under t2 0 q -> (forall a, sden p a = sden q a) -> szhash P w p = szhash P w q.
Proof.
  intros ND1 ND2 U1 U2 E. unfold szhash.
  set (vars := nodup N.eq_dec (vleaves t1 ++ vleaves t2)).
  assert (NDV : NoDup vars) by apply NoDup_nodup.
  assert (I1 : incl (vleaves t1) vars) by (intros u Hin; apply nodup_In; apply in_or_app; auto).
  assert (I2 : incl (vleaves t2) vars) by (intros u Hin; apply nodup_In; apply in_or_app; auto).
  rewrite (szhash_is_sum t1 ND1 vars p false (fun _ => false) NDV I1 U1).
  rewrite (szhash_is_sum t2 ND2 vars q false (fun _ => false) NDV I2 U2).
  apply (fhash_ext P OK w WR). intros a. rewrite E. reflexivity.
Qed.

(* ... and an SDD against a free BDD (any order, decision-DNNF results) of the same function *)
Theorem szhash_zhash_agree t p q : NoDup (vleaves t) -> under t 0 p -> free_bdd q ->
  (forall a, sden p a = den q a) -> szhash P w p = zhash P w q.
Proof.
  intros ND U F E. unfold szhash, zhash.
  set (vars := nodup N.eq_dec (vleaves t ++ support q)).
  assert (NDV : NoDup vars) by apply NoDup_nodup.
  assert (I1 : incl (vleaves t) vars) by (intros u Hin; apply nodup_In; apply in_or_app; auto).
  assert (I2 : incl (support q) vars) by (intros u Hin; apply nodup_In; apply in_or_app; auto).
  rewrite (szhash_is_sum t ND vars p false (fun _ => false) NDV I1 U).
  rewrite (hash_is_sum P OK w WR q false vars (fun _ => false) F NDV I2).
  apply (fhash_ext P OK w WR). intros a. rewrite E. reflexivity.
Qed.

Theorem sdd_hash_denotational t1 t2 p q : NoDup (vleaves t1) -> NoDup (vleaves t2) ->
  under t1 0 p -> under t2 0 q -> sdd_vars_in p w -> sdd_vars_in q w ->
  (forall a, sden p a = sden q a) -> sdd_hash_m m P w p = sdd_hash_m m P w q.
Proof.
  intros ND1 ND2 U1 U2 V1 V2 E. unfold sdd_hash_m. rewrite (sdd_hash_c_exact p V1), (sdd_hash_c_exact q V2).
  f_equal. apply (szhash_denotational t1 t2 p q); assumption.
Qed.

Theorem sdd_bdd_hash_agree t p q : NoDup (vleaves t) -> under t 0 p -> free_bdd q ->
  sdd_vars_in p w -> vars_in q w -> (forall a, sden p a = den q a) ->
  sdd_hash_m m P w p = hash_m m P w q.
Proof.
  intros ND U F V1 V2 E. unfold sdd_hash_m, hash_m.
  rewrite (sdd_hash_c_exact p V1), (hash_c_exact m P OK w WR q V2). f_equal.
  apply (szhash_zhash_agree t p q); assumption.
Qed.

(* ---- hash_neg for SDDs ---- *)
Theorem sdd_hash_neg t p : NoDup (vleaves t) -> under t 0 p -> sdd_vars_in p w ->
  sdd_hash_m m P w (sneg p) = hneg m P (sdd_hash_m m P w p) /\
  sdd_hash_m m P w (sneg p) = Some (zp_sub P 1 (szhash P w p)).
Proof.
  intros ND U V. unfold sdd_hash_m.
  rewrite (sdd_hash_c_exact (sneg p) (sdd_vars_in_sneg p w V)), (sdd_hash_c_exact p V).
  unfold hneg. cbn [Semirings.bind]. rewrite ff_negate_exact_gen by (try apply szhash_c_lt; assumption).
  rewrite szhash_c_sneg. rewrite (szhash_c_negb_local t ND p false t 0 (occurs_refl t 0) U). auto.
Qed.

Theorem sdd_hash_is_sum t p vars x : NoDup (vleaves t) -> under t 0 p -> sdd_vars_in p w ->
  NoDup vars -> incl (vleaves t) vars ->
  sdd_hash_m m P w p = Some (fhash P w vars (sden p) x) /\ fhash P w vars (sden p) x < P.
Proof.
  intros ND U V NDV INC. split; [|apply (fhash_lt P OK w WR)].
  unfold sdd_hash_m. rewrite (sdd_hash_c_exact p V). f_equal.
  rewrite (szhash_is_sum t ND vars p false x NDV INC U).
  apply (fhash_ext P OK w WR). intros a. destruct (sden p a); reflexivity.
Qed.

(* ---- through the scratch slots (C07S_sdd_query_pure): the public method answers the same ---- *)
Lemma sdd_hash_public_eq p (s : sscratch hv) : sall_empty hv s ->
  fst (sdd_hash_public m P w p s) = sdd_hash_m m P w p /\ sall_empty hv (snd (sdd_hash_public m P w p s)).
Proof. intros E. apply (sdd_fold_public_pure hv); exact E. Qed.
End SLayers.

(* ===================================================================================== *)
(* (b) SddPtr::cached_semantic_hash                                                         *)
(* the loop of SddOr::semantic_hash as a definition of its own (convertible with the nested fix) *)
Definition sdd_or_loop (m : mode) (P : N) (w : wmap) : list elem -> N -> shcache -> option (N * shcache) :=
  fix loop (l : list elem) (acc : N) (s0 : shcache) : option (N * shcache) :=
    match l with
    | [] => Some (acc, s0)
    | (pr, sb) :: r =>
      obind (sdd_cached_hash m P w pr s0) (fun ps =>
      obind (sdd_cached_hash m P w sb (snd ps)) (fun ss =>
      obind (ff_mul m P (fst ps) (fst ss)) (fun x =>
      obind (u_add m acc x) (fun acc' => loop r acc' (snd ss)))))
    end.

Definition compl_wrap (m : mode) (P : N) (c : bool) (reg : option (N * shcache)) : option (N * shcache) :=
  if c then obind reg (fun rs => option_map (fun x => (x, snd rs)) (ff_negate m P (fst rs))) else reg.

Lemma sdd_cached_hash_bdd_eq m P w c l i lo hi s :
  sdd_cached_hash m P w (SBdd c l i lo hi) s =
  compl_wrap m P c
    match shc_get (SBdd false l i lo hi) s with
    | Some h => option_map (fun r => (r, s)) (ff_new P h)
    | None =>
      obind (w_lo w l) (fun lw => obind (w_hi w l) (fun hw =>
      obind (sdd_cached_hash m P w lo s) (fun ls =>
      obind (ff_mul m P (fst ls) lw) (fun a =>
      obind (sdd_cached_hash m P w hi (snd ls)) (fun hs =>
      obind (ff_mul m P (fst hs) hw) (fun b =>
      obind (ff_add m P a b) (fun r => Some (r, shc_set (SBdd false l i lo hi) r (snd hs)))))))))
    end.
Proof. reflexivity. Qed.

Lemma sdd_cached_hash_or_eq m P w c i els s :
  sdd_cached_hash m P w (SOr c i els) s =
  compl_wrap m P c
    match shc_get (SOr false i els) s with
    | Some h => option_map (fun r => (r, s)) (ff_new P h)
    | None =>
      obind (sdd_or_loop m P w els 0 s) (fun sum_s =>
      obind (ff_new P (fst sum_s)) (fun r => Some (r, shc_set (SOr false i els) r (snd sum_s))))
    end.
Proof. reflexivity. Qed.

Lemma sdd_or_loop_cons m P w pr sb r acc s0 :
  sdd_or_loop m P w ((pr, sb) :: r) acc s0 =
  obind (sdd_cached_hash m P w pr s0) (fun ps =>
  obind (sdd_cached_hash m P w sb (snd ps)) (fun ss =>
  obind (ff_mul m P (fst ps) (fst ss)) (fun x =>
  obind (u_add m acc x) (fun acc' => sdd_or_loop m P w r acc' (snd ss))))).
Proof. reflexivity. Qed.

Section SCached.
Variable m : mode.
Variable P : N.
Hypothesis HP : 1 < P.
Hypothesis HP2 : 2 * P <= u128.
Variable w : wmap.
Hypothesis WR : wrange P w.
Variable t : vtree.
Hypothesis ND : NoDup (vleaves t).

(* local copies of the layer lemmas (independent of which hypotheses their proofs happen to use) *)
Let Hlt : forall p, szhash P w p < P. Proof. intros p. apply szhash_lt; assumption. Qed.
Let Hwl : forall v, wl w v < P. Proof. intros v. apply swl_lt; assumption. Qed.
Let Hwh : forall v, wh w v < P. Proof. intros v. apply swh_lt; assumption. Qed.
Let Hbdd : forall l i lo hi, szhash P w (SBdd false l i lo hi) =
  ((wh w l * szhash P w hi) mod P + (wl w l * szhash P w lo) mod P) mod P.
Proof. intros. unfold szhash. rewrite szhash_c_bdd by assumption. reflexivity. Qed.
Let Hor : forall i els, szhash P w (SOr false i els) =
  fold_left (fun acc e => (acc + (szhash P w (fst e) * szhash P w (snd e)) mod P) mod P) els 0.
Proof. intros. unfold szhash. rewrite szhash_c_or. reflexivity. Qed.
Let Hraw : forall (term : elem -> N) els,
  fold_left (fun a e => (a + term e) mod P) els 0 = (fold_right (fun e r => term e + r) 0 els) mod P.
Proof.
  intros term els. rewrite <- (N.add_0_l (fold_right _ _ _)). rewrite <- (mod_loop_raw P) by assumption.
  rewrite N.mod_small by lia. reflexivity.
Qed.
Let Hnegb : forall key u off, occurs t 0 u off -> under u off key ->
  szhash P w (sneg key) = zp_sub P 1 (szhash P w key).
Proof.
  intros key u off Ho Hu. unfold szhash. rewrite szhash_c_sneg.
  apply (szhash_c_negb_local P HP HP2 w WR t ND key false u off Ho Hu).
Qed.

(* a cache state is sound for (P, w): every stored value is the hash of its node in (P, w) *)
Definition scache_sound (s : shcache) : Prop := forall k h, shc_get k s = Some h -> h = szhash P w k.
Definition scache_le (s s' : shcache) : Prop := forall k h, shc_get k s = Some h -> shc_get k s' = Some h.

Lemma scache_sound_nil : scache_sound [].
Proof. intros k h H. discriminate. Qed.
Lemma scache_le_refl s : scache_le s s.
Proof. intros k h H; exact H. Qed.

Lemma scache_set_sound k s : scache_sound s -> scache_sound (shc_set k (szhash P w k) s).
Proof.
  intros CS k' h H. unfold shc_set in H. cbn [shc_get] in H.
  destruct (sdd_eqb k' k) eqn:B.
  - apply sdd_eqb_eq in B. subst k'. congruence.
  - apply CS. exact H.
Qed.
Lemma scache_set_le k h s0 s2 : shc_get k s0 = None -> scache_le s0 s2 -> scache_le s0 (shc_set k h s2).
Proof.
  intros G L k' h' H. unfold shc_set. cbn [shc_get]. destruct (sdd_eqb k' k) eqn:B; [|apply L, H].
  apply sdd_eqb_eq in B. subst k'. congruence.
Qed.

(* the complemented pointer: negate of the regular pointer's hash = the count of the
   complemented node, for nodes satisfying the invariant *)
Lemma compl_wrap_ok c key u off s' : occurs t 0 u off -> under u off key ->
  compl_wrap m P c (Some (szhash P w key, s')) = Some (szhash P w (adj c key), s').
Proof.
  intros Ho Hu. destruct c; cbn [compl_wrap adj]; [|reflexivity].
  cbn [Semirings.bind fst snd]. rewrite ff_negate_exact_gen by (try apply Hlt; assumption).
  cbn [option_map]. do 2 f_equal. symmetry. apply (Hnegb key u off Ho Hu).
Qed.

Definition cached_ok (p : sdd) : Prop :=
  forall u off, occurs t 0 u off -> under u off p -> sdd_vars_in p w -> sdd_width_ok P p ->
  forall s, scache_sound s ->
  exists s', sdd_cached_hash m P w p s = Some (szhash P w p, s') /\ scache_sound s' /\ scache_le s s'.

Theorem sdd_cached_hash_eq_local : forall p, cached_ok p.
Proof.
  induction p as [| |v b|c lb i lo hi IHlo IHhi|c i els IH] using sdd_ind'; intros u off Ho Hu V W s CS.
  - exists s. cbn [sdd_cached_hash]. rewrite ff_new_ok by lia. rewrite N.mod_small by lia.
    split; [reflexivity|]. split; [assumption | apply scache_le_refl].
  - exists s. cbn [sdd_cached_hash]. rewrite ff_new_ok by lia. rewrite N.mod_small by lia.
    split; [reflexivity|]. split; [assumption | apply scache_le_refl].
  - exists s. assert (Vv : (N.to_nat v < length w)%nat) by (apply V; simpl; auto).
    cbn [sdd_cached_hash]. unfold szhash, szhash_c, sdd_wmc_c. cbn [sdd_fold_c xorb]. unfold wlit.
    split; [|split; [assumption | apply scache_le_refl]].
    destruct b; [rewrite (w_hi_in _ _ Vv) | rewrite (w_lo_in _ _ Vv)]; reflexivity.
  - (* BinarySDD *)
    assert (Hkey : under u off (SBdd false lb i lo hi)) by (destruct c; [apply (under_sneg _ _ _ Hu) | exact Hu]).
    destruct (under_locate u off _ Hu eq_refl) as (l & r & off' & Ho' & Hn); [discriminate|].
    assert (Hot : occurs t 0 (VNode l r) off') by (eapply occurs_trans; eauto).
    destruct Hn as [(c0 & lbl0 & lo0 & hi0 & [= <- <- -> <- <-] & H1 & H2 & H3)|(c0 & els0 & [=] & _)].
    destruct (sdd_vars_in_bdd _ _ _ _ _ _ V) as (Vv & Vlo & Vhi).
    destruct (sdd_width_ok_bdd _ _ _ _ _ _ W) as (Wlo & Whi).
    rewrite sdd_cached_hash_bdd_eq.
    replace (SBdd c lb (off' + vsize l) lo hi) with (adj c (SBdd false lb (off' + vsize l) lo hi)) by (destruct c; reflexivity).
    destruct (shc_get (SBdd false lb (off' + vsize l) lo hi) s) as [h|] eqn:G.
    + exists s. rewrite (CS _ _ G). rewrite ff_new_ok by lia.
      rewrite N.mod_small by apply Hlt. cbn [option_map].
      split; [apply (compl_wrap_ok c _ u off s Ho Hkey) | split; [assumption | apply scache_le_refl]].
    + destruct (IHlo _ _ (occurs_right _ _ _ _ _ Hot) H2 Vlo Wlo s CS) as (s1 & E1 & CS1 & L1).
      destruct (IHhi _ _ (occurs_right _ _ _ _ _ Hot) H3 Vhi Whi s1 CS1) as (s2 & E2 & CS2 & L2).
      rewrite (w_lo_in _ _ Vv), (w_hi_in _ _ Vv). cbn [Semirings.bind]. rewrite E1. cbn [Semirings.bind fst snd].
      rewrite ff_mul_exact_gen by (try apply Hwl; try apply Hlt; lia). cbn [Semirings.bind].
      rewrite E2. cbn [Semirings.bind fst snd].
      rewrite ff_mul_exact_gen by (try apply Hwh; try apply Hlt; lia). cbn [Semirings.bind].
      rewrite ff_add_exact_gen by (try (apply N.mod_lt; lia); lia). cbn [Semirings.bind].
      assert (EQ : ((szhash P w lo * wl w lb) mod P + (szhash P w hi * wh w lb) mod P) mod P
                   = szhash P w (SBdd false lb (off' + vsize l) lo hi)).
      { rewrite Hbdd. rewrite (N.mul_comm (wh w lb)), (N.mul_comm (wl w lb)). f_equal. apply N.add_comm. }
      rewrite EQ. eexists. split; [apply (compl_wrap_ok c _ u off _ Ho Hkey)|]. split.
      * apply scache_set_sound. exact CS2.
      * apply scache_set_le; [exact G|]. intros k h H. apply L2, L1, H.
  - (* SddOr *)
    assert (Hkey : under u off (SOr false i els)) by (destruct c; [apply (under_sneg _ _ _ Hu) | exact Hu]).
    destruct (under_locate u off _ Hu eq_refl) as (l & r & off' & Ho' & Hn); [discriminate|].
    assert (Hot : occurs t 0 (VNode l r) off') by (eapply occurs_trans; eauto).
    destruct Hn as [(c0 & lbl0 & lo0 & hi0 & [=] & _)|(c0 & els0 & [= <- -> <-] & H1 & H2 & H3)].
    pose proof (sdd_vars_in_or _ _ _ _ V) as VE.
    destruct (sdd_width_ok_or _ _ _ _ W) as [WL WE].
    unfold okl in H2. rewrite Forall_forall in H2, IH.
    rewrite sdd_cached_hash_or_eq.
    replace (SOr c (off' + vsize l) els) with (adj c (SOr false (off' + vsize l) els)) by (destruct c; reflexivity).
    destruct (shc_get (SOr false (off' + vsize l) els) s) as [h|] eqn:G.
    + exists s. rewrite (CS _ _ G). rewrite ff_new_ok by lia.
      rewrite N.mod_small by apply Hlt. cbn [option_map].
      split; [apply (compl_wrap_ok c _ u off s Ho Hkey) | split; [assumption | apply scache_le_refl]].
    + set (term := fun e : elem => (szhash P w (fst e) * szhash P w (snd e)) mod P).
      assert (LOOP : forall els', (forall e, In e els' -> In e els) -> forall acc s0, scache_sound s0 ->
                acc + N.of_nat (length els') * P <= u128 ->
                exists s', sdd_or_loop m P w els' acc s0 = Some (acc + fold_right (fun e r => term e + r) 0 els', s') /\
                           scache_sound s' /\ scache_le s0 s').
      { induction els' as [|[pr sb] rest IHr]; intros Hin acc s0 CS0 B.
        - exists s0. cbn [sdd_or_loop fold_right]. rewrite N.add_0_r.
          split; [reflexivity | split; [assumption | apply scache_le_refl]].
        - assert (He : In (pr, sb) els) by (apply Hin; left; reflexivity).
          destruct (IH _ He) as [I1 I2]. destruct (H2 _ He) as [U1 U2]. destruct (VE _ He) as [V1 V2].
          destruct (WE _ He) as [W1 W2]. cbn [fst snd] in *.
          destruct (I1 _ _ (occurs_left _ _ _ _ _ Hot) U1 V1 W1 s0 CS0) as (s1 & E1 & CS1 & L1).
          destruct (I2 _ _ (occurs_right _ _ _ _ _ Hot) U2 V2 W2 s1 CS1) as (s2 & E2 & CS2 & L2).
          rewrite sdd_or_loop_cons, E1. cbn [Semirings.bind fst snd]. rewrite E2. cbn [Semirings.bind fst snd].
          rewrite ff_mul_exact_gen by (try apply Hlt; lia). cbn [Semirings.bind].
          assert (X : (szhash P w pr * szhash P w sb) mod P < P) by (apply N.mod_lt; lia).
          cbn [length] in B. rewrite Nat2N.inj_succ in B.
          rewrite u_add_ok by nia. cbn [Semirings.bind].
          destruct (IHr (fun e He' => Hin e (or_intror He')) (acc + (szhash P w pr * szhash P w sb) mod P) s2 CS2 ltac:(nia))
            as (s3 & E3 & CS3 & L3).
          exists s3. rewrite E3. cbn [fold_right]. unfold term at 2. cbn [fst snd].
          split; [rewrite N.add_assoc; reflexivity|]. split; [assumption|].
          intros k h H. apply L3, L2, L1, H. }
      destruct (LOOP els (fun e He => He) 0 s CS ltac:(lia)) as (s' & EL & CS' & L').
      rewrite EL. cbn [Semirings.bind fst snd]. rewrite ff_new_ok by lia. cbn [Semirings.bind]. rewrite N.add_0_l.
      assert (EQ : (fold_right (fun e r => term e + r) 0 els) mod P = szhash P w (SOr false (off' + vsize l) els)).
      { rewrite Hor. symmetry. apply (Hraw term els). }
      rewrite EQ. eexists. split; [apply (compl_wrap_ok c _ u off _ Ho Hkey)|]. split.
      * apply scache_set_sound. exact CS'.
      * apply scache_set_le; [exact G | exact L'].
Qed.

Theorem sdd_cached_hash_eq p : under t 0 p -> sdd_vars_in p w -> sdd_width_ok P p ->
  forall s, scache_sound s ->
  exists s', sdd_cached_hash m P w p s = Some (szhash P w p, s') /\ scache_sound s' /\ scache_le s s'.
Proof. intros Hu. apply (sdd_cached_hash_eq_local p t 0%nat (occurs_refl t 0%nat) Hu). Qed.

(* a sequence of queries on pointers sharing nodes *)
Theorem sdd_cached_hashes_eq ps :
  (forall p, In p ps -> under t 0 p /\ sdd_vars_in p w /\ sdd_width_ok P p) -> forall s, scache_sound s ->
  exists s', sdd_cached_hashes m P w ps s = Some (map (szhash P w) ps, s') /\ scache_sound s' /\ scache_le s s'.
Proof.
  induction ps as [|p r IH]; intros H s CS.
  - exists s. simpl. split; [reflexivity|]. split; [assumption | apply scache_le_refl].
  - destruct (H p (or_introl eq_refl)) as (U & V & W).
    destruct (sdd_cached_hash_eq p U V W s CS) as (s1 & E1 & CS1 & L1).
    destruct (IH (fun q Hq => H q (or_intror Hq)) s1 CS1) as (s2 & E2 & CS2 & L2).
    exists s2. cbn [sdd_cached_hashes]. rewrite E1. cbn [Semirings.bind fst snd]. rewrite E2. cbn [Semirings.bind fst snd map].
    split; [reflexivity|]. split; [assumption|]. intros k h Hk. apply L2, L1, Hk.
Qed.
End SCached.

(* ===================================================================================== *)
(* identification by hash, SDD pointers                                                     *)
Section SIdentify.
Variable m : mode.
Variable P : N.
Hypothesis OK : ff_ok P.
Variable w : wmap.
Hypothesis WR : wrange P w.

Let HP : 1 < P. Proof. destruct OK; assumption. Qed.
Let HP2 : 2 * P <= u128. Proof. destruct OK; assumption. Qed.

Lemma sdd_hash_exact_ok p : sdd_vars_in p w ->
  sdd_hash_m m P w p = Some (szhash P w p) /\ szhash P w p < P.
Proof.
  intros V. split; [apply (sdd_hash_c_exact m P HP HP2 w WR p V false) | apply szhash_lt; assumption].
Qed.

Theorem sdd_hash_denotational_neg t1 t2 p q : NoDup (vleaves t1) -> NoDup (vleaves t2) ->
  under t1 0 p -> under t2 0 q -> sdd_vars_in p w -> sdd_vars_in q w ->
  (forall a, sden p a = negb (sden q a)) -> sdd_hash_m m P w p = hneg m P (sdd_hash_m m P w q).
Proof.
  intros ND1 ND2 U1 U2 V1 V2 E. destruct (sdd_hash_neg m P HP HP2 w WR t2 q ND2 U2 V2) as [<- _].
  apply (sdd_hash_denotational m P HP HP2 w WR t1 t2); auto using under_sneg, sdd_vars_in_sneg.
  intros a. rewrite sden_sneg. apply E.
Qed.

(* equal functions are never judged different, whatever the vtrees, and a function's negation is
   found under the negated hash *)
Theorem sdd_semantic_never_splits t1 t2 p q : NoDup (vleaves t1) -> NoDup (vleaves t2) ->
  under t1 0 p -> under t2 0 q -> sdd_vars_in p w -> sdd_vars_in q w ->
  (feq (sden p) (sden q) -> sdd_hash_m m P w p = sdd_hash_m m P w q) /\
  (feq (sden p) (fnot (sden q)) -> sdd_hash_m m P w p = hneg m P (sdd_hash_m m P w q)) /\
  (feq (sden p) (sden q) \/ feq (sden p) (fnot (sden q)) ->
   hash_match m P (sdd_hash_m m P w p) (sdd_hash_m m P w q) = true).
Proof.
  intros ND1 ND2 U1 U2 V1 V2.
  assert (A : feq (sden p) (sden q) -> sdd_hash_m m P w p = sdd_hash_m m P w q)
    by (intros E; apply (sdd_hash_denotational m P HP HP2 w WR t1 t2); assumption).
  assert (B : feq (sden p) (fnot (sden q)) -> sdd_hash_m m P w p = hneg m P (sdd_hash_m m P w q))
    by (intros E; apply (sdd_hash_denotational_neg t1 t2); assumption).
  split; [exact A|]. split; [exact B|].
  destruct (sdd_hash_exact_ok q V2) as [Eq Lq].
  intros [E|E].
  - rewrite (A E), Eq. apply (hash_match_spec m P OK); try assumption. left; reflexivity.
  - rewrite (B E), Eq. unfold hneg. cbn [Semirings.bind]. rewrite ff_negate_exact_gen by assumption.
    apply (hash_match_spec m P OK); try assumption.
    + apply zp_sub_lt; lia.
    + right; reflexivity.
Qed.

(* CONDITIONAL correctness of identification by hash on SDDs of one vtree: if the hash is injective
   on a negation-closed set D of SDD pointers satisfying the invariant, then "same hash or negated
   hash" decides "same function or negated function" on D *)
Theorem sdd_semantic_correct_if_injective t (D : sdd -> Prop) : NoDup (vleaves t) ->
  (forall p, D p -> under t 0 p /\ sdd_vars_in p w) ->
  (forall p, D p -> D (sneg p)) ->
  (forall p q, D p -> D q -> sdd_hash_m m P w p = sdd_hash_m m P w q -> feq (sden p) (sden q)) ->
  forall p q, D p -> D q ->
  (sdd_hash_m m P w p = sdd_hash_m m P w q <-> feq (sden p) (sden q)) /\
  (sdd_hash_m m P w p = hneg m P (sdd_hash_m m P w q) <-> feq (sden p) (fnot (sden q))) /\
  (hash_match m P (sdd_hash_m m P w p) (sdd_hash_m m P w q) = true <->
   (feq (sden p) (sden q) \/ feq (sden p) (fnot (sden q)))).
Proof.
  intros ND WF CL INJ p q Dp Dq.
  destruct (WF p Dp) as [Up Vp]. destruct (WF q Dq) as [Uq Vq].
  destruct (sdd_semantic_never_splits t t p q ND ND Up Uq Vp Vq) as (A & B & C).
  assert (N1 : sdd_hash_m m P w p = hneg m P (sdd_hash_m m P w q) -> feq (sden p) (fnot (sden q))).
  { intros E. destruct (sdd_hash_neg m P HP HP2 w WR t q ND Uq Vq) as [E' _]. rewrite <- E' in E.
    intros a. rewrite (INJ p (sneg q) Dp (CL q Dq) E a). apply sden_sneg. }
  split; [split; [apply INJ; assumption | exact A]|].
  split; [split; [exact N1 | exact B]|].
  split; [|exact C].
  destruct (sdd_hash_exact_ok p Vp) as [Ep Lp]. destruct (sdd_hash_exact_ok q Vq) as [Eq Lq].
  intros H. rewrite Ep, Eq in H. apply (hash_match_spec m P OK) in H; try assumption.
  destruct H as [H|H].
  - left. apply INJ; try assumption. rewrite Ep, Eq. f_equal. exact H.
  - right. apply N1. rewrite Ep, Eq. unfold hneg. cbn [Semirings.bind].
    rewrite ff_negate_exact_gen by assumption. f_equal. exact H.
Qed.

(* the raw-sum guard for a field of at most 64 bits: any SddOr of at most 2^64 elements *)
Lemma sdd_width_ok_64 p : P <= 2 ^ 64 -> N.of_nat (sdd_maxw p) <= 2 ^ 64 -> sdd_width_ok P p.
Proof.
  intros H1 H2. unfold sdd_width_ok, u128.
  change (2 ^ 128) with (2 ^ 64 * 2 ^ 64). nia.
Qed.
End SIdentify.

(* ---- wrappers on [ff_ok] (every exported prime satisfies it: exported_primes_ok) ---- *)
Section SWrap.
Variable m : mode.
Variable P : N.
Hypothesis OK : ff_ok P.
Variable w : wmap.
Hypothesis WR : wrange P w.

Lemma sdd_hash_is_wmc_ok p : sdd_vars_in p w ->
  sdd_hash_m m P w p = Some (szhash P w p) /\ szhash P w p < P.
Proof. apply (sdd_hash_exact_ok m P OK w WR). Qed.

Lemma sdd_hash_is_sum_ok t p vars x : NoDup (vleaves t) -> under t 0 p -> sdd_vars_in p w ->
  NoDup vars -> incl (vleaves t) vars ->
  sdd_hash_m m P w p = Some (fhash P w vars (sden p) x) /\ fhash P w vars (sden p) x < P.
Proof. destruct OK as [HP HP2]. apply (sdd_hash_is_sum m P HP HP2 w WR). Qed.

Lemma sdd_hash_denotational_ok t1 t2 p q : NoDup (vleaves t1) -> NoDup (vleaves t2) ->
  under t1 0 p -> under t2 0 q -> sdd_vars_in p w -> sdd_vars_in q w ->
  (forall a, sden p a = sden q a) -> sdd_hash_m m P w p = sdd_hash_m m P w q.
Proof. destruct OK as [HP HP2]. apply (sdd_hash_denotational m P HP HP2 w WR). Qed.

Lemma sdd_bdd_hash_agree_ok t p q : NoDup (vleaves t) -> under t 0 p -> free_bdd q ->
  sdd_vars_in p w -> vars_in q w -> (forall a, sden p a = den q a) ->
  sdd_hash_m m P w p = hash_m m P w q.
Proof. destruct OK as [HP HP2]. apply (sdd_bdd_hash_agree m P HP HP2 w WR). Qed.

Lemma sdd_hash_neg_ok t p : NoDup (vleaves t) -> under t 0 p -> sdd_vars_in p w ->
  sdd_hash_m m P w (sneg p) = hneg m P (sdd_hash_m m P w p) /\
  sdd_hash_m m P w (sneg p) = Some (zp_sub P 1 (szhash P w p)).
Proof. destruct OK as [HP HP2]. apply (sdd_hash_neg m P HP HP2 w WR). Qed.

Lemma sdd_cached_hash_eq_ok t p s : NoDup (vleaves t) -> under t 0 p -> sdd_vars_in p w -> sdd_width_ok P p ->
  scache_sound P w s ->
  exists r s', sdd_cached_hash m P w p s = Some (r, s') /\ sdd_hash_m m P w p = Some r /\
               scache_sound P w s' /\ scache_le s s'.
Proof.
  destruct OK as [HP HP2]. intros ND U V W CS.
  destruct (sdd_cached_hash_eq m P HP HP2 w WR t ND p U V W s CS) as (s' & E & CS' & L).
  exists (szhash P w p), s'. split; [exact E|]. split; [|split; assumption].
  apply (sdd_hash_c_exact m P HP HP2 w WR p V false).
Qed.

Lemma sdd_cached_hashes_eq_ok t ps : NoDup (vleaves t) ->
  (forall p, In p ps -> under t 0 p /\ sdd_vars_in p w /\ sdd_width_ok P p) ->
  exists s', sdd_cached_hashes m P w ps [] = Some (map (szhash P w) ps, s') /\
             (forall p, In p ps -> sdd_hash_m m P w p = Some (szhash P w p)).
Proof.
  destruct OK as [HP HP2]. intros ND H.
  destruct (sdd_cached_hashes_eq m P HP HP2 w WR t ND ps H [] (scache_sound_nil P w)) as (s' & E & _ & _).
  exists s'. split; [exact E|]. intros p Hp. destruct (H p Hp) as (_ & V & _).
  apply (sdd_hash_c_exact m P HP HP2 w WR p V false).
Qed.

(* sdd_eq of the semantic builder (h1 == h2 on cached hashes, sdd/semantic.rs:113) never judges two
   pointers of one function different, from any sound cache state *)
Lemma sdd_eq_never_splits_ok t p q s : NoDup (vleaves t) ->
  under t 0 p -> under t 0 q -> sdd_vars_in p w -> sdd_vars_in q w -> sdd_width_ok P p -> sdd_width_ok P q ->
  scache_sound P w s ->
  exists h1 s1 h2 s2, sdd_cached_hash m P w p s = Some (h1, s1) /\ sdd_cached_hash m P w q s1 = Some (h2, s2) /\
    ((forall a, sden p a = sden q a) -> h1 = h2) /\
    ((forall a, sden p a = negb (sden q a)) -> ff_negate m P h2 = Some h1).
Proof.
  destruct OK as [HP HP2]. intros ND Up Uq Vp Vq Wp Wq CS.
  destruct (sdd_cached_hash_eq m P HP HP2 w WR t ND p Up Vp Wp s CS) as (s1 & E1 & CS1 & _).
  destruct (sdd_cached_hash_eq m P HP HP2 w WR t ND q Uq Vq Wq s1 CS1) as (s2 & E2 & _ & _).
  exists (szhash P w p), s1, (szhash P w q), s2. split; [exact E1|]. split; [exact E2|]. split.
  - intros E. apply (szhash_denotational P HP HP2 w WR t t p q); assumption.
  - intros E. rewrite ff_negate_exact_gen by (try (apply szhash_lt; assumption); assumption). f_equal.
    assert (E' : szhash P w p = szhash P w (sneg q)).
    { apply (szhash_denotational P HP HP2 w WR t t p (sneg q)); auto using under_sneg.
      intros a. rewrite sden_sneg. apply E. }
    rewrite E'. unfold szhash. rewrite szhash_c_sneg. symmetry.
    apply (szhash_c_negb_local P HP HP2 w WR t ND q false t 0%nat (occurs_refl t 0%nat) Uq).
Qed.
End SWrap.
