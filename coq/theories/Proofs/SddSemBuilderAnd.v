(* C11 -- SemanticSddBuilder, apply layer (CONDITIONAL on injectivity, hypotheses as in
   Proofs/SddSemBuilderStore.v): the loops of the apply, its four cases, the apply cache and the
   recursion.  For every fuel, every two pointers satisfying the semantic invariant and every
   store satisfying the store invariant: IF and() returns and the ghost events of the call lie
   in D / K, THEN the result satisfies the invariant, denotes the conjunction, and the store
   invariant still holds.  (Runs that panic or run out of fuel are not claimed anything about.) *)
From Coq Require Import Bool NArith List Lia Arith Permutation.
Import ListNotations.
From RsddV Require Import Base.Bdd Base.Util Model.SddVtree Model.SddOps Model.Semirings Model.SemHash
  Model.SddSemBuilder.
From RsddV Require Import Proofs.Semirings Proofs.Wmc Proofs.SemHash Proofs.SemHashSdd Proofs.SddBase Proofs.SddVtree
  Proofs.SddWmc Proofs.SddInv Proofs.SddLoops Proofs.SddSemBuilderBase Proofs.SddSemBuilderStore.

Section And.
Variable t : vtree.
Variable P : N.
Hypothesis OK : ff_ok P.
Variable w : wmap.
Hypothesis WR : wrange P w.
Notation H := (shash P w).
Variable D : sdd -> Prop.
Variable K : sdd -> sdd -> Prop.
Hypothesis Dneg : forall p, D p -> D (sneg p).
Hypothesis DF : D SF.
Hypothesis Dinj : forall p q, D p -> D q -> shash P w p = shash P w q -> forall a, sden p a = sden q a.
Hypothesis KT : K ST ST.
Hypothesis KF : K SF SF.
Hypothesis Kinj : forall a b a' b', K a b -> K a' b' -> app_key P H a b = app_key P H a' b' ->
  forall x, sden a x && sden b x = sden a' x && sden b' x.

Notation swf := (swf t).
Notation sokl := (sokl t).
Notation inv := (inv t P w D K).
Notation sp := (sp (evok D K)).

Definition and_ok (andf : sdd -> sdd -> M sdd) : Prop :=
  forall a b st, inv st -> swf a -> swf b ->
  sp (andf a b) st (fun r s => inv s /\ swf r /\ sem_and r a b).

Ltac store := try eassumption.
Ltac use_eq := eapply sp_seq; [eapply eqS_sp; store|].
Ltac use_true := eapply sp_seq; [eapply is_trueS_sp; store|].
Ltac use_false := eapply sp_seq; [eapply is_falseS_sp; store|].

Section Loops.
Variable andf : sdd -> sdd -> M sdd.
Hypothesis GA : and_ok andf.
Variables l r : vtree.
Variable off : nat.
Hypothesis Ho : occurs t 0 (VNode l r) off.
Notation m := (off + vsize l).
Notation L := (vleaves l).
Notation R := (vleaves r).

(* ---- prod_inner ---- *)
Definition pi_post (p1 s1 : sdd) (bels : list elem) (o : option (list elem)) : Prop :=
  match o with
  | None => forall a, sden p1 a = true /\ sden s1 a = true /\ den_els bels a = true
  | Some v => sokl l r v /\
              (forall a, cnt v a = if sden p1 a then cnt bels a else 0) /\
              (forall a, den_els v a = sden p1 a && sden s1 a && den_els bels a)
  end.

Definition cl_post (aels bels : list elem) (o : option (list elem)) : Prop :=
  match o with
  | None => forall a, den_els aels a = true /\ den_els bels a = true
  | Some v => sokl l r v /\ (forall a, cnt v a = cnt aels a) /\
              (forall a, den_els v a = den_els aels a && den_els bels a)
  end.
Definition pd_post (d : sdd) (rels : list elem) (o : option (list elem)) : Prop :=
  match o with
  | None => forall a, sden d a = true /\ den_els rels a = true
  | Some v => sokl l r v /\ (forall a, cnt v a = cnt rels a) /\
              (forall a, den_els v a = den_els rels a && sden d a)
  end.

Lemma prod_inner_sp brk p1 s1 : swf p1 -> swf s1 -> dep L p1 -> dep R s1 ->
  forall bels st, inv st -> sokl l r bels -> excl bels ->
  sp (prod_inner H andf brk p1 s1 bels) st (fun o s => inv s /\ pi_post p1 s1 bels o).
Proof.
  intros Wp1 Ws1 Dp1 Ds1. induction bels as [|[p2 s2] rest IH]; intros st Hinv Hok Hex.
  - apply sp_ret. split; [exact Hinv|]. simpl. repeat split; try constructor.
    + intros a. destruct (sden p1 a); reflexivity.
    + intros a. rewrite andb_false_r. reflexivity.
  - apply sokl_cons in Hok. destruct Hok as (Wp2 & Ws2 & Dp2 & Ds2 & Hok).
    assert (Hex' : excl rest).
    { intros a. specialize (Hex a). rewrite cnt_cons in Hex. lia. }
    cbn [prod_inner].
    eapply sp_seq; [apply GA; assumption|]. intros p st1 (I1 & Wp & Sp).
    use_false. intros f st2 [-> Hf]. destruct f.
    { specialize (Hf eq_refl). eapply sp_mono; [apply IH; assumption|]. intros o s (I & Hpost).
      split; [exact I|]. destruct o as [v|]; cbn [pi_post cl_post pd_post] in *.
      - destruct Hpost as (H1 & H3 & H4). repeat split; auto.
        + intros a. rewrite cnt_cons. pw a. bgo a.
        + intros a. rewrite den_els_cons. pw a. bgo a.
      - intros a. rewrite den_els_cons. pw a. bgo a. }
    clear Hf.
    eapply sp_seq; [apply GA; assumption|]. intros s st2 (I2 & Ws & Ss).
    eapply sp_seq; [eapply sp_andM; eapply is_trueS_sp; store|]. intros tt st3 [-> Htt]. destruct tt.
    { destruct (Htt eq_refl) as [A B]. apply sp_ret. split; [exact I2|]. cbn [pi_post].
      intros a. rewrite den_els_cons. pw a. bgo a. }
    clear Htt.
    assert (Dp : dep L p) by (eapply dep_and; eauto).
    assert (Ds : dep R s) by (eapply dep_and; eauto).
    eapply sp_seq with (R := fun b s' => s' = st2 /\ (b = true -> forall x, sden p1 x = sden p x)).
    { destruct brk; [eapply eqS_sp; store | apply sp_ret; split; [reflexivity|discriminate]]. }
    intros b st3 [-> Hb]. destruct b.
    { specialize (Hb eq_refl). apply sp_ret. split; [exact I2|]. cbn [pi_post]. repeat split.
      - apply sokl_cons. repeat split; auto. constructor.
      - intros a. rewrite !cnt_cons. pw a. unfold cnt at 1. simpl. bgo a.
      - intros a. rewrite !den_els_cons. change (den_els [] a) with false.
        rewrite orb_false_r. specialize (Hex a). rewrite cnt_cons in Hex.
        destruct (cnt rest a) eqn:Ec; [rewrite (cnt_zero_den _ _ Ec)|]; pw a; bgo a. }
    clear Hb.
    eapply sp_seq; [apply IH; assumption|]. intros o st3 (I3 & Hpost). apply sp_ret. split; [exact I3|].
    destruct o as [v|]; cbn [pi_post cl_post pd_post] in *.
    + destruct Hpost as (H1 & H3 & H4). repeat split.
      * apply sokl_cons. auto 6.
      * intros a. rewrite !cnt_cons. pw a. bgo a.
      * intros a. rewrite !den_els_cons. pw a. bgo a.
    + intros a. rewrite den_els_cons. pw a. bgo a.
Qed.

(* ---- find(|a| self.eq(a.prime(), p1)) ---- *)
Lemma find_eq_sp p1 : forall bels st,
  sp (find_eq H p1 bels) st
     (fun o s => s = st /\ forall e, o = Some e -> In e bels /\ forall x, sden (fst e) x = sden p1 x).
Proof.
  induction bels as [|e rest IH]; intros st.
  - apply sp_ret. split; [reflexivity|]. discriminate.
  - cbn [find_eq]. use_eq. intros b st1 [-> Hb]. destruct b.
    + apply sp_ret. split; [reflexivity|]. intros e' [= <-]. split; [left; reflexivity | exact (Hb eq_refl)].
    + eapply sp_mono; [apply IH|]. intros o s [-> Ho']. split; [reflexivity|].
      intros e' He. destruct (Ho' e' He) as [A B]. split; [right; exact A | exact B].
Qed.

(* ---- cartesian_loop ---- *)

Lemma cartesian_loop_sp bels : sokl l r bels -> part bels -> forall aels st, inv st -> sokl l r aels ->
  sp (cartesian_loop H andf aels bels) st (fun o s => inv s /\ cl_post aels bels o).
Proof.
  intros Hb Pb. induction aels as [|[p1 s1] rest IH]; intros st Hinv Ha.
  - apply sp_ret. split; [exact Hinv|]. simpl. repeat split; constructor.
  - apply sokl_cons in Ha. destruct Ha as (Wp1 & Ws1 & Dp1 & Ds1 & Ha). cbn [cartesian_loop].
    eapply sp_seq; [apply find_eq_sp|]. intros eq_itm st1 [-> Hf].
    destruct eq_itm as [[p2 s2]|].
    + destruct (Hf _ eq_refl) as [Hin Heq]. cbn [fst] in Heq.
      destruct (sokl_in t _ _ _ _ _ Hb Hin) as (_ & Ws2 & _ & Ds2).
      eapply sp_seq; [apply GA; assumption|]. intros s st1 (I1 & Ws & Ss).
      eapply sp_seq; [apply IH; assumption|]. intros o st2 (I2 & Hpost). apply sp_ret. split; [exact I2|].
      assert (Hd : forall a, sden p1 a = true -> den_els bels a = sden s2 a).
      { intros a E1. apply (excl_den bels p2 s2 a); auto; [rewrite Pb; lia | rewrite Heq; exact E1]. }
      destruct o as [v|]; cbn [pi_post cl_post pd_post] in *.
      * destruct Hpost as (H1 & H2 & H3). repeat split.
        -- apply sokl_cons. repeat split; auto. eapply dep_and; eauto.
        -- intros a. rewrite !cnt_cons. pw a. bgo a.
        -- intros a. rewrite !den_els_cons. specialize (Hd a). pw a.
           destruct (sden p1 a) eqn:E1; [rewrite Hd in * by reflexivity|]; bgo a.
      * intros a. rewrite den_els_cons. specialize (Hd a). pw a. destruct Hpost as [A B].
        destruct (sden p1 a) eqn:E1; [rewrite Hd in * by reflexivity|]; bgo a.
    + clear Hf.
      eapply sp_seq; [apply prod_inner_sp; try assumption; apply part_excl; exact Pb|].
      intros o1 st1 (I1 & H1). destruct o1 as [v1|]; cbn [pi_post cl_post pd_post] in H1.
      * destruct H1 as (K1 & K3 & K4).
        eapply sp_seq; [apply IH; assumption|]. intros o2 st2 (I2 & H2). apply sp_ret. split; [exact I2|].
        destruct o2 as [v2|]; cbn [pi_post cl_post pd_post] in *.
        -- destruct H2 as (J1 & J2 & J3). repeat split.
           ++ apply sokl_app. auto.
           ++ intros a. rewrite cnt_app, cnt_cons. pw a. rewrite Pb in K3. bgo a.
           ++ intros a. rewrite den_els_app, den_els_cons. pw a. bgo a.
        -- intros a. rewrite den_els_cons. pw a. destruct H2 as [A B]. bgo a.
      * apply sp_ret. split; [exact I1|]. cbn [pi_post cl_post pd_post]. intros a. rewrite den_els_cons. pw a. destruct H1 as (? & ? & ?). bgo a.
Qed.

(* ---- prime_desc_loop ---- *)

Lemma prime_desc_loop_sp d : swf d -> dep L d -> forall rels st, inv st -> sokl l r rels ->
  sp (prime_desc_loop H andf d rels) st (fun o s => inv s /\ pd_post d rels o).
Proof.
  intros Wd Dd.
  assert (HB : sokl l r [(d, ST); (sneg d, SF)]).
  { apply sokl_cons. split; [exact Wd|]. split; [constructor|]. split; [exact Dd|]. split; [apply dep_const; reflexivity|].
    apply sokl_cons. split; [apply swf_sneg; exact Wd|]. split; [constructor|]. split; [apply dep_sneg; exact Dd|].
    split; [apply dep_const; reflexivity | constructor]. }
  assert (PB : part [(d, ST); (sneg d, SF)]).
  { intros a. unfold cnt. simpl. rewrite sden_sneg. destruct (sden d a); reflexivity. }
  assert (DB : forall a, den_els [(d, ST); (sneg d, SF)] a = sden d a).
  { intros a. unfold den_els. simpl. rewrite sden_sneg. destruct (sden d a); reflexivity. }
  induction rels as [|[p1 s1] rest IH]; intros st Hinv Hr.
  - apply sp_ret. split; [exact Hinv|]. simpl. repeat split; constructor.
  - apply sokl_cons in Hr. destruct Hr as (Wp1 & Ws1 & Dp1 & Ds1 & Hr). cbn [prime_desc_loop].
    eapply sp_seq; [apply prod_inner_sp; try assumption; apply part_excl; exact PB|].
    intros o1 st1 (I1 & H1). destruct o1 as [v1|]; cbn [pi_post cl_post pd_post] in H1.
    + destruct H1 as (K1 & K3 & K4).
      eapply sp_seq; [apply IH; assumption|]. intros o2 st2 (I2 & H2). apply sp_ret. split; [exact I2|].
      destruct o2 as [v2|]; cbn [pi_post cl_post pd_post] in *.
      * destruct H2 as (J1 & J2 & J3). repeat split.
        -- apply sokl_app. auto.
        -- intros a. rewrite cnt_app, cnt_cons. pw a. rewrite PB in K3. bgo a.
        -- intros a. rewrite den_els_app, den_els_cons. pw a. rewrite DB in K4. bgo a.
      * intros a. rewrite den_els_cons. pw a. destruct H2 as [A B]. bgo a.
    + apply sp_ret. split; [exact I1|]. cbn [pi_post cl_post pd_post]. intros a. rewrite den_els_cons. pw a. rewrite DB in H1.
      destruct H1 as (? & ? & ?). bgo a.
Qed.

(* ---- sub_desc_loop ---- *)
Lemma sub_desc_loop_sp d : swf d -> dep R d -> forall els st, inv st -> sokl l r els ->
  sp (sub_desc_loop andf d els) st
     (fun v s => inv s /\ sokl l r v /\ (forall a, cnt v a = cnt els a) /\
                 (forall a, den_els v a = den_els els a && sden d a)).
Proof.
  intros Wd Dd. induction els as [|[p s] rest IH]; intros st Hinv He.
  - apply sp_ret. split; [exact Hinv|]. simpl. repeat split; constructor.
  - apply sokl_cons in He. destruct He as (Wp & Ws & Dp & Ds & He). cbn [sub_desc_loop].
    eapply sp_seq; [apply GA; assumption|]. intros s' st1 (I1 & Ws' & Ss).
    eapply sp_seq; [apply IH; assumption|]. intros v st2 (I2 & H1 & H3 & H4). apply sp_ret. split; [exact I2|].
    repeat split.
    + apply sokl_cons. repeat split; auto. eapply dep_and; eauto.
    + intros a. rewrite !cnt_cons. pw a. bgo a.
    + intros a. rewrite !den_els_cons. pw a. bgo a.
Qed.

Notation post x y := (fun z s => inv s /\ swf z /\ sem_and z x y).

(* ---- and_indep ---- *)
Lemma and_indep_sp a b st : inv st -> swf a -> swf b -> dep L a -> dep R b ->
  sp (and_indep t P H a b m) st (post a b).
Proof.
  intros Hinv Wa Wb Da Db. unfold and_indep. rewrite (right_linear_at t l r off Ho).
  destruct l as [x|ll lr] eqn:El.
  - destruct a as [| |label pol| |]; try apply sp_panic.
    apply dep_var_inv in Da. destruct pol.
    + eapply sp_mono; [eapply (unique_bdd_sp t P OK w WR D K Dneg DF Dinj (VLeaf x) r off Ho label SF b); auto using dep_const; constructor|].
      intros z s (I1 & Wz & Sz). split; [exact I1|]. split; [exact Wz|]. intros v. rewrite Sz. simpl. destruct (v label); reflexivity.
    + eapply sp_mono; [eapply (unique_bdd_sp t P OK w WR D K Dneg DF Dinj (VLeaf x) r off Ho label b SF); auto using dep_const; constructor|].
      intros z s (I1 & Wz & Sz). split; [exact I1|]. split; [exact Wz|]. intros v. rewrite Sz. simpl. destruct (v label); reflexivity.
  - rewrite <- El in *. eapply sp_mono.
    { eapply (unique_or_sp t P OK w WR D K Dneg DF Dinj l r off Ho [(a, b); (sneg a, SF)]); [exact Hinv| |].
      - apply sokl_cons. split; [exact Wa|]. split; [exact Wb|]. split; [exact Da|]. split; [exact Db|].
        apply sokl_cons. split; [apply swf_sneg; exact Wa|]. split; [constructor|]. split; [apply dep_sneg; exact Da|].
        split; [apply dep_const; reflexivity | constructor].
      - intros s. unfold cnt. simpl. rewrite sden_sneg. destruct (sden a s); reflexivity. }
    intros z s (I1 & Wz & Sz). split; [exact I1|]. split; [exact Wz|]. intros v. rewrite Sz. unfold den_els. simpl.
    rewrite andb_false_r, !orb_false_r. reflexivity.
Qed.

(* the node of x is the one we are at *)
Lemma same_node l' r' off' : occurs t 0 (VNode l' r') off' -> off' + vsize l' = m -> l' = l /\ r' = r /\ off' = off.
Proof. intros Ho' E. apply (occ_node_unique t l' r' off' l r off Ho' Ho E). Qed.

(* ---- and_sub_desc ---- *)
Lemma and_sub_desc_sp x d st : inv st -> swf x -> swf d -> vidx t x = m -> dep R d ->
  sp (and_sub_desc P H andf x d) st (post x d).
Proof.
  intros Hinv Wx Wd Ex Dd.
  inversion Wx as [| |v pol Hv|l' r' off' c lbl lo hi Ho' Hl Wlo Whi Dlo Dhi|l' r' off' c els Ho' Hok Hp]; subst;
    try apply sp_panic.
  - destruct (same_node l' r' off' Ho' Ex) as (-> & -> & ->). cbn [and_sub_desc].
    eapply sp_seq; [apply GA; auto using swf_adj|]. intros lo' st1 (I1 & Wl & Sl).
    eapply sp_seq; [apply GA; auto using swf_adj|]. intros hi' st2 (I2 & Wh & Sh).
    eapply sp_mono.
    { eapply (unique_bdd_sp t P OK w WR D K Dneg DF Dinj l r off Ho lbl lo' hi'); auto;
        eapply dep_and; eauto using dep_adj. }
    intros z s (I3 & Wz & Sz). split; [exact I3|]. split; [exact Wz|]. intros a. rewrite Sz, Sl, Sh, !sden_adj. simpl.
    destruct c, (a lbl), (sden hi a), (sden lo a), (sden d a); reflexivity.
  - destruct (same_node l' r' off' Ho' Ex) as (-> & -> & ->). cbn [and_sub_desc].
    change (map (fun e : sdd * sdd => (fst e, adj c (snd e))) els) with (adjsubs c els).
    eapply sp_seq; [apply sub_desc_loop_sp; try assumption; apply sokl_adjsubs; exact Hok|].
    intros v st1 (I1 & K1 & K3 & K4).
    eapply sp_mono.
    { eapply (unique_or_sp t P OK w WR D K Dneg DF Dinj l r off Ho v); [exact I1 | exact K1 |].
      intros a. rewrite K3, cnt_adjsubs. apply Hp. }
    intros z s (I3 & Wz & Sz). split; [exact I3|]. split; [exact Wz|].
    intros a. rewrite Sz, K4, sden_or, den_adjsubs by apply Hp. reflexivity.
Qed.

(* ---- and_prime_desc ---- *)
Lemma and_prime_desc_sp x d st : inv st -> swf x -> swf d -> vidx t x = m -> dep L d ->
  sp (and_prime_desc t P H andf x d) st (post x d).
Proof.
  intros Hinv Wx Wd Ex Dd. unfold and_prime_desc.
  destruct (adj_elems x) as [rels|] eqn:Ee; [|apply sp_panic].
  destruct (swf_view t x rels Wx Ee) as (l' & r' & off' & Ho' & Ev & Hok & Hp & Hden).
  rewrite Ex in Ev. destruct (same_node l' r' off' Ho' (eq_sym Ev)) as (-> & -> & ->).
  eapply sp_seq; [apply prime_desc_loop_sp; assumption|]. intros o st1 (I1 & HO).
  destruct o as [v|]; cbn [pi_post cl_post pd_post] in HO.
  - destruct HO as (K1 & K3 & K4). rewrite Ex.
    eapply sp_mono.
    { eapply (unique_or_sp t P OK w WR D K Dneg DF Dinj l r off Ho v); [exact I1 | exact K1 |].
      intros a. rewrite K3. apply Hp. }
    intros z s (I3 & Wz & Sz). split; [exact I3|]. split; [exact Wz|].
    intros a. rewrite Sz, K4, Hden. reflexivity.
  - apply sp_ret. split; [exact I1|]. split; [constructor|]. intros a. destruct (HO a) as [A B]. rewrite Hden, A, B. reflexivity.
Qed.

(* ---- and_cartesian ---- *)
Lemma and_cartesian_general x y st : inv st -> swf x -> swf y -> vidx t x = m -> vidx t y = m ->
  sp (match adj_elems x, adj_elems y with
      | Some aels, Some bels =>
        bnd (cartesian_loop H andf aels bels) (fun o =>
        match o with None => ret ST | Some r0 => canonicalize P H r0 m end)
      | _, _ => panic
      end) st (post x y).
Proof.
  intros Hinv Wx Wy Ex Ey.
  destruct (adj_elems x) as [aels|] eqn:Ea; [|apply sp_panic].
  destruct (adj_elems y) as [bels|] eqn:Eb; [|apply sp_panic].
  destruct (swf_view t x aels Wx Ea) as (l1 & r1 & off1 & Ho1 & Ev1 & Hoka & Hpa & Hdena).
  rewrite Ex in Ev1. destruct (same_node l1 r1 off1 Ho1 (eq_sym Ev1)) as (-> & -> & ->).
  destruct (swf_view t y bels Wy Eb) as (l2 & r2 & off2 & Ho2 & Ev2 & Hokb & Hpb & Hdenb).
  rewrite Ey in Ev2. destruct (same_node l2 r2 off2 Ho2 (eq_sym Ev2)) as (-> & -> & ->).
  eapply sp_seq; [apply cartesian_loop_sp; assumption|]. intros o st1 (I1 & HO).
  destruct o as [v|]; cbn [pi_post cl_post pd_post] in HO.
  - destruct HO as (K1 & K2 & K3). unfold canonicalize.
    eapply sp_mono.
    { eapply (unique_or_sp t P OK w WR D K Dneg DF Dinj l r off Ho v); [exact I1 | exact K1 |].
      intros a. rewrite K2. apply Hpa. }
    intros z s (I3 & Wz & Sz). split; [exact I3|]. split; [exact Wz|].
    intros a. rewrite Sz, K3, Hdena, Hdenb. reflexivity.
  - apply sp_ret. split; [exact I1|]. split; [constructor|].
    intros a. destruct (HO a) as [A B]. rewrite Hdena, Hdenb, A, B. reflexivity.
Qed.

Lemma and_cartesian_sp x y st : inv st -> swf x -> swf y -> vidx t x = m -> vidx t y = m ->
  sp (and_cartesian t P H andf x y m) st (post x y).
Proof.
  intros Hinv Wx Wy Ex Ey. unfold and_cartesian.
  destruct x as [| |vx px|c lbl idx lo hi|c idx els]; try apply (and_cartesian_general _ y st Hinv Wx Wy Ex Ey).
  rewrite (right_linear_at t l r off Ho).
  destruct l as [xv|ll lr] eqn:El; [|rewrite <- El in *; apply (and_cartesian_general _ y st Hinv Wx Wy Ex Ey)].
  rewrite <- El in *.
  inversion Wx as [| | |l' r' off' c0 lbl0 lo0 hi0 Ho' Hl Wlo Whi Dlo Dhi|]; subst c0 lbl0 lo0 hi0.
  cbn [vidx] in Ex. assert (E' : off' + vsize l' = m) by congruence.
  destruct (same_node l' r' off' Ho' E') as (-> & -> & ->).
  cbn [slow shigh].
  destruct y as [| |vy py|c' lbl' idx' lo' hi'|c' idx' els']; try apply sp_panic.
  inversion Wy as [| | |l2 r2 off2 c0 lbl0 lo0 hi0 Ho2 Hl2 Wlo' Whi' Dlo' Dhi'|]; subst c0 lbl0 lo0 hi0.
  cbn [vidx] in Ey. assert (E2 : off2 + vsize l2 = m) by congruence.
  destruct (same_node l2 r2 off2 Ho2 E2) as (-> & -> & ->).
  cbn [slow shigh].
  assert (lbl' = lbl).
  { rewrite El in Hl, Hl2. simpl in Hl, Hl2. destruct Hl as [<-|[]]. destruct Hl2 as [<-|[]]. reflexivity. }
  subst lbl'.
  eapply sp_seq; [apply GA; try assumption; apply (swf_adj t _ _); assumption|]. intros lo2 st1 (I1 & Wl & Sl).
  eapply sp_seq; [apply GA; try assumption; apply (swf_adj t _ _); assumption|]. intros hi2 st2 (I2 & Wh & Sh).
  eapply sp_mono.
  { eapply (unique_bdd_sp t P OK w WR D K Dneg DF Dinj l r off Ho lbl lo2 hi2); auto;
      eapply dep_and; eauto; apply (dep_adj _ _ _); assumption. }
  intros z s (I3 & Wz & Sz). split; [exact I3|]. split; [exact Wz|].
  intros a. rewrite Sz, Sl, Sh. change (if c then sneg lo else lo) with (adj c lo).
  change (if c then sneg hi else hi) with (adj c hi). change (if c' then sneg lo' else lo') with (adj c' lo').
  change (if c' then sneg hi' else hi') with (adj c' hi'). rewrite !sden_adj. simpl.
  destruct c, c', (a lbl), (sden hi a), (sden lo a), (sden hi' a), (sden lo' a); reflexivity.
Qed.
End Loops.

(* ---- the dispatch on vtree positions, behind the apply cache ---- *)
Notation post x y := (fun z s => inv s /\ swf z /\ sem_and z x y).

Lemma sem_and_comm z x y : sem_and z x y -> sem_and z y x.
Proof. intros H a. rewrite H. apply andb_comm. Qed.

Definition dispatch (andf : sdd -> sdd -> M sdd) (a b : sdd) : M sdd :=
  bnd (app_cache_get P H a b) (fun c =>
  match c with
  | Some x => ret x
  | None =>
    let av := vidx t a in
    let bv := vidx t b in
    let l := lca t av bv in
    bnd (if Nat.eqb av bv then and_cartesian t P H andf a b l
         else if Nat.eqb l av then and_sub_desc P H andf a b
         else if Nat.eqb l bv then and_prime_desc t P H andf b a
         else and_indep t P H a b l) (fun r =>
    bnd (app_cache_insert P H a b r) (fun _ => ret r))
  end).

Lemma dispatch_sp andf : and_ok andf -> forall a b st, inv st -> swf a -> swf b ->
  s_is_const a = false -> s_is_const b = false -> vidx t a <= vidx t b ->
  sp (dispatch andf a b) st (post a b).
Proof.
  intros GA a b st Hinv Wa Wb NCa NCb Hle. unfold dispatch.
  eapply sp_seq; [eapply app_cache_get_sp; store|]. intros c st1 [-> Hc].
  destruct c as [x|].
  { destruct (Hc x eq_refl) as [Wx Sx]. apply sp_ret. auto. }
  clear Hc. cbv zeta.
  destruct (swf_loc t a Wa NCa) as (ua & offa & Hoa & Ra & Da).
  destruct (swf_loc t b Wb NCb) as (ub & offb & Hob & Rb & Db).
  assert (Fin : forall z s, inv s /\ swf z /\ sem_and z a b ->
            sp (bnd (app_cache_insert P H a b z) (fun _ => ret z)) s (post a b)).
  { intros z s (I1 & Wz & Sz). eapply sp_seq; [eapply app_cache_insert_sp; store|].
    intros u s2 I2. apply sp_ret. auto. }
  destruct (Nat.eqb_spec (vidx t a) (vidx t b)) as [Eab|Nab].
  - (* same vtree node *)
    eapply sp_seq; [|exact Fin]. rewrite <- Eab.
    inversion Wa as [| |v pol Hv|l r off c lbl lo hi Ho Hl Wlo Whi Dlo Dhi|l r off c els Ho Hok Hp]; subst; try discriminate.
    (* a literal: node_iter panics, closed by discriminate *)
    + cbn [vidx] in *. rewrite (lca_same t l r off Ho).
      apply (and_cartesian_sp andf GA l r off Ho _ b st Hinv Wa Wb); [reflexivity | congruence].
    + cbn [vidx] in *. rewrite (lca_same t l r off Ho).
      apply (and_cartesian_sp andf GA l r off Ho _ b st Hinv Wa Wb); [reflexivity | congruence].
  - assert (Hlt : ridx ua offa < ridx ub offb) by lia.
    destruct (lca_locate t 0 ua offa ub offb Hoa Hob Hlt) as (l & r & off & Ho & El & A & B).
    rewrite Ra, Rb in El. rewrite Ra in A. rewrite Rb in B.
    change (lca_from t 0 (vidx t a) (vidx t b)) with (lca t (vidx t a) (vidx t b)) in El. rewrite El.
    eapply sp_seq; [|exact Fin].
    destruct (Nat.eqb_spec (off + vsize l) (vidx t a)) as [Ema|Nma].
    + destruct B as [B|B]; [lia|].
      apply (and_sub_desc_sp andf GA l r off Ho a b st Hinv Wa Wb (eq_sym Ema)).
      eapply dep_incl; [|exact Db]. eapply occurs_leaves; exact B.
    + destruct A as [A|A]; [congruence|].
      destruct (Nat.eqb_spec (off + vsize l) (vidx t b)) as [Emb|Nmb].
      * eapply sp_mono.
        { apply (and_prime_desc_sp andf GA l r off Ho b a st Hinv Wb Wa (eq_sym Emb)).
          eapply dep_incl; [|exact Da]. eapply occurs_leaves; exact A. }
        intros z s (I1 & Wz & Sz). split; [exact I1|]. split; [exact Wz | apply sem_and_comm; exact Sz].
      * destruct B as [B|B]; [congruence|].
        apply (and_indep_sp l r off Ho a b st Hinv Wa Wb).
        -- eapply dep_incl; [|exact Da]. eapply occurs_leaves; exact A.
        -- eapply dep_incl; [|exact Db]. eapply occurs_leaves; exact B.
Qed.

Lemma and_body_dispatch andf a b :
  and_body t P H andf a b =
  bnd (is_trueS H a) (fun t1 => if t1 then ret b else
  bnd (is_trueS H b) (fun t2 => if t2 then ret a else
  bnd (is_falseS H a) (fun f1 => if f1 then ret SF else
  bnd (is_falseS H b) (fun f2 => if f2 then ret SF else
  bnd (eqS H a b) (fun e1 => if e1 then ret a else
  bnd (eqS H a (sneg b)) (fun e2 => if e2 then ret SF else
  if s_is_const a || s_is_const b then panic else
  if Nat.eqb (vidx t a) (vidx t b) || is_prime_index (vidx t a) (vidx t b) then dispatch andf a b
  else dispatch andf b a)))))).
Proof.
  unfold and_body, dispatch.
  destruct (Nat.eqb (vidx t a) (vidx t b) || is_prime_index (vidx t a) (vidx t b)); reflexivity.
Qed.

Lemma and_body_ok andf : and_ok andf -> and_ok (and_body t P H andf).
Proof.
  intros GA a b st Hinv Wa Wb. rewrite and_body_dispatch.
  use_true. intros t1 s1 [-> H1]. destruct t1.
  { specialize (H1 eq_refl). apply sp_ret. split; [exact Hinv|]. split; [exact Wb|]. intros x. rewrite H1. reflexivity. }
  use_true. intros t2 s1 [-> H2]. destruct t2.
  { specialize (H2 eq_refl). apply sp_ret. split; [exact Hinv|]. split; [exact Wa|]. intros x. rewrite H2, andb_true_r. reflexivity. }
  use_false. intros f1 s1 [-> H3]. destruct f1.
  { specialize (H3 eq_refl). apply sp_ret. split; [exact Hinv|]. split; [constructor|]. intros x. rewrite H3. reflexivity. }
  use_false. intros f2 s1 [-> H4]. destruct f2.
  { specialize (H4 eq_refl). apply sp_ret. split; [exact Hinv|]. split; [constructor|]. intros x. rewrite H4, andb_false_r. reflexivity. }
  use_eq. intros e1 s1 [-> H5]. destruct e1.
  { specialize (H5 eq_refl). apply sp_ret. split; [exact Hinv|]. split; [exact Wa|]. intros x. rewrite <- H5. destruct (sden a x); reflexivity. }
  use_eq. intros e2 s1 [-> H6]. destruct e2.
  { specialize (H6 eq_refl). apply sp_ret. split; [exact Hinv|]. split; [constructor|]. intros x. rewrite H6, sden_sneg.
    destruct (sden b x); reflexivity. }
  clear H1 H2 H3 H4 H5 H6.
  destruct (s_is_const a || s_is_const b) eqn:Ec; [apply sp_panic|].
  apply orb_false_iff in Ec. destruct Ec as [NCa NCb].
  destruct (Nat.eqb (vidx t a) (vidx t b) || is_prime_index (vidx t a) (vidx t b)) eqn:En.
  - apply (dispatch_sp andf GA a b st Hinv Wa Wb NCa NCb).
    apply orb_true_iff in En. destruct En as [En|En]; [apply Nat.eqb_eq in En; lia|].
    unfold is_prime_index in En. apply Nat.ltb_lt in En. lia.
  - eapply sp_mono.
    { apply (dispatch_sp andf GA b a st Hinv Wb Wa NCb NCa).
      apply orb_false_iff in En. destruct En as [E1 E2]. unfold is_prime_index in E2. apply Nat.ltb_ge in E2. lia. }
    intros z s (I1 & Wz & Sz). split; [exact I1|]. split; [exact Wz | apply sem_and_comm; exact Sz].
Qed.

(* (b) and: every fuel *)
Theorem and_m_ok fuel : and_ok (and_m t P H fuel).
Proof.
  induction fuel as [|fuel IH]; [intros a b st _ _ _; apply sp_oof|].
  cbn [and_m]. apply and_body_ok. exact IH.
Qed.

Theorem or_m_ok fuel a b st : inv st -> swf a -> swf b ->
  sp (or_m t P H fuel a b) st (fun z s => inv s /\ swf z /\ sem_or z a b).
Proof.
  intros Hinv Wa Wb. unfold or_m.
  eapply sp_seq; [apply and_m_ok; auto using swf_sneg|]. intros z s (I1 & Wz & Sz). apply sp_ret.
  split; [exact I1|]. split; [apply swf_sneg; exact Wz|].
  intros x. rewrite sden_sneg, Sz, !sden_sneg. destruct (sden a x), (sden b x); reflexivity.
Qed.
End And.
