(* C06 — proofs about the decision-DNNF model (Model/TopDown.v), part 1: the node store,
   conjoin_implied, decision nodes, conditioning.  The compiler itself is in TopDownSem.v. *)
From Coq Require Import Bool NArith List Arith Lia.
Import ListNotations.
From RsddV Require Import Base.Util Base.Bdd Model.UnitProp Model.TopDown Model.Wmc Proofs.Wmc.
From RsddV Require Proofs.UnitProp.

(* ---------- the standard node store ---------- *)
Lemma den_mk_node v lo hi x : den (dnnf_mk_node v lo hi) x = if x v then den hi x else den lo x.
Proof.
  unfold dnnf_mk_node. destruct (is_neg hi); cbn [den]; [|apply xorb_false_l].
  rewrite !den_neg. destruct (x v); [destruct (den hi x)|destruct (den lo x)]; reflexivity.
Qed.

Lemma support_neg p : support (neg p) = support p.
Proof. destruct p; reflexivity. Qed.

Lemma support_mk_node v lo hi : support (dnnf_mk_node v lo hi) = v :: support lo ++ support hi.
Proof. unfold dnnf_mk_node. destruct (is_neg hi); cbn [support]; rewrite ?support_neg; reflexivity. Qed.

Lemma free_neg p : free_bdd (neg p) <-> free_bdd p.
Proof. destruct p; simpl; tauto. Qed.

Lemma free_mk_node v lo hi :
  free_bdd (dnnf_mk_node v lo hi) <->
  ~ In v (support lo) /\ ~ In v (support hi) /\ free_bdd lo /\ free_bdd hi.
Proof.
  unfold dnnf_mk_node. destruct (is_neg hi); cbn [free_bdd]; rewrite ?support_neg, ?free_neg; tauto.
Qed.

Lemma mk_node_not_false v lo hi : dnnf_mk_node v lo hi <> BF.
Proof. unfold dnnf_mk_node. destruct (is_neg hi); discriminate. Qed.

(* ---------- literals as N-assignments ---------- *)
Definition lit_evalN (x : Bdd.asg) (l : lit) : bool := Bool.eqb (x (nvar l)) (lpol l).

Lemma den_lit_node sub l x : den (lit_node sub l) x = lit_evalN x l && den sub x.
Proof.
  unfold lit_node, lit_evalN. destruct (lpol l); rewrite den_mk_node; cbn [den]; destruct (x (nvar l)); reflexivity.
Qed.

Lemma den_fold_lit_node lits : forall sub x,
  den (fold_left lit_node lits sub) x = forallb (lit_evalN x) lits && den sub x.
Proof.
  induction lits as [|l t IH]; intros sub x; cbn [fold_left forallb]; [reflexivity|].
  rewrite IH, den_lit_node. destruct (lit_evalN x l), (forallb (lit_evalN x) t); reflexivity.
Qed.

(* conjoin_implied_sem: the conjunction of the literals and the sub-diagram; false stays the
   false constant *)
Lemma conjoin_implied_sem lits sub x :
  den (conjoin_implied lits sub) x = forallb (lit_evalN x) lits && den sub x.
Proof.
  unfold conjoin_implied. destruct sub; cbn [is_false]; try apply den_fold_lit_node.
  cbn [den]. rewrite andb_false_r. reflexivity.
Qed.

Lemma conjoin_implied_false lits : conjoin_implied lits BF = BF.
Proof. reflexivity. Qed.

Lemma fold_lit_node_not_false lits : forall sub, sub <> BF -> fold_left lit_node lits sub <> BF.
Proof.
  induction lits as [|l t IH]; intros sub H; cbn [fold_left]; [exact H|].
  apply IH. unfold lit_node. destruct (lpol l); apply mk_node_not_false.
Qed.

Lemma conjoin_implied_false_iff lits sub : conjoin_implied lits sub = BF <-> sub = BF.
Proof.
  split; [|intros ->; reflexivity]. unfold conjoin_implied. destruct sub; cbn [is_false]; intros H; try reflexivity;
    exfalso; revert H; apply fold_lit_node_not_false; discriminate.
Qed.

Lemma support_lit_node sub l : support (lit_node sub l) = nvar l :: support sub.
Proof.
  unfold lit_node. destruct (lpol l); rewrite support_mk_node; cbn [support app]; [reflexivity|].
  rewrite app_nil_r. reflexivity.
Qed.

Lemma support_fold_lit_node lits : forall sub v,
  In v (support (fold_left lit_node lits sub)) <-> In v (map nvar lits) \/ In v (support sub).
Proof.
  induction lits as [|l t IH]; intros sub v; cbn [fold_left map]; [simpl; tauto|].
  rewrite IH, support_lit_node. simpl. tauto.
Qed.

Lemma support_conjoin_implied lits sub v :
  In v (support (conjoin_implied lits sub)) -> In v (map nvar lits) \/ In v (support sub).
Proof.
  unfold conjoin_implied. destruct (is_false sub); [simpl; tauto|]. apply support_fold_lit_node.
Qed.

Lemma free_lit_node sub l : free_bdd (lit_node sub l) <-> ~ In (nvar l) (support sub) /\ free_bdd sub.
Proof. unfold lit_node. destruct (lpol l); rewrite free_mk_node; simpl; tauto. Qed.

Lemma free_fold_lit_node lits : forall sub,
  free_bdd sub -> NoDup (map nvar lits) -> (forall l, In l lits -> ~ In (nvar l) (support sub)) ->
  free_bdd (fold_left lit_node lits sub).
Proof.
  induction lits as [|l t IH]; intros sub Hf Hnd Hns; cbn [fold_left]; [exact Hf|].
  cbn [map] in Hnd. inversion Hnd as [|? ? Hnotin Hnd']; subst. apply IH.
  - apply free_lit_node. split; [apply Hns; left; reflexivity|exact Hf].
  - exact Hnd'.
  - intros l' Hl'. rewrite support_lit_node. intros [He|Hin].
    + apply Hnotin. rewrite He. apply in_map. exact Hl'.
    + revert Hin. apply Hns. right. exact Hl'.
Qed.

Lemma free_conjoin_implied lits sub :
  free_bdd sub -> NoDup (map nvar lits) -> (forall l, In l lits -> ~ In (nvar l) (support sub)) ->
  free_bdd (conjoin_implied lits sub).
Proof.
  intros. unfold conjoin_implied. destruct (is_false sub); [exact I|]. apply free_fold_lit_node; assumption.
Qed.

(* decision_node_sem: the node topdown_h builds for cur_v (or the shared child when both arms are
   the same pointer) is the Shannon expansion *)
Definition decision_node (v : var) (low high : bdd) : bdd :=
  if bdd_eqb high low then high else dnnf_mk_node v low high.

Lemma decision_node_sem v low high x :
  den (decision_node v low high) x = if x v then den high x else den low x.
Proof.
  unfold decision_node. destruct (bdd_eqb high low) eqn:E; [|apply den_mk_node].
  apply bdd_eqb_eq in E. subst. destruct (x v); reflexivity.
Qed.

Lemma decision_node_false_iff v low high : decision_node v low high = BF <-> low = BF /\ high = BF.
Proof.
  unfold decision_node. destruct (bdd_eqb high low) eqn:E.
  - apply bdd_eqb_eq in E. subst. tauto.
  - split; [intros H; exfalso; revert H; apply mk_node_not_false|].
    intros [-> ->]. discriminate.
Qed.

Lemma support_decision_node v low high u :
  In u (support (decision_node v low high)) -> u = v \/ In u (support low) \/ In u (support high).
Proof.
  unfold decision_node. destruct (bdd_eqb high low); [tauto|]. rewrite support_mk_node. simpl.
  rewrite in_app_iff. intuition.
Qed.

Lemma free_decision_node v low high :
  ~ In v (support low) -> ~ In v (support high) -> free_bdd low -> free_bdd high ->
  free_bdd (decision_node v low high).
Proof.
  intros. unfold decision_node. destruct (bdd_eqb high low); [assumption|]. apply free_mk_node. tauto.
Qed.

(* ---------- conditioning ---------- *)
Lemma upd_other x v b u : u <> v -> upd x v b u = x u.
Proof. intros H. unfold upd. destruct (N.eqb_spec u v); congruence. Qed.

Lemma den_upd_notin p x v b : ~ In v (support p) -> den p (upd x v b) = den p x.
Proof.
  intros H. apply den_agree. intros u Hu. apply upd_other. intros ->. contradiction.
Qed.

Lemma den_cneg (c : bool) p x : den (if c then neg p else p) x = xorb c (den p x).
Proof. destruct c; [apply den_neg|destruct (den p x); reflexivity]. Qed.

(* cond_nnf_correct: conditioning a diagram in which no path tests a variable twice -- regular or
   complemented root, any shape, no ordering -- denotes the restricted function.  Covers the
   `l == h` shortcut and the "unchanged => return the same pointer" branch. *)
Theorem cond_nnf_correct p : free_bdd p -> forall v b x,
  den (cond_helper p v b) x = den p (upd x v b).
Proof.
  induction p as [| |c u lo IHlo hi IHhi]; intros Hf v b x; try reflexivity.
  cbn [free_bdd] in Hf. destruct Hf as [Hnl [Hnh [Hfl Hfh]]].
  cbn [cond_helper]. destruct (N.eqb_spec u v) as [->|Hne].
  - (* the node decides the conditioned variable *)
    rewrite den_cneg. cbn [den]. rewrite upd_same. f_equal.
    destruct b; symmetry; apply den_upd_notin; assumption.
  - specialize (IHlo Hfl v b x). specialize (IHhi Hfh v b x).
    cbn [den]. rewrite (upd_other x v b u Hne).
    destruct (bdd_eqb (cond_helper lo v b) (cond_helper hi v b)) eqn:Elh.
    + (* l == h *)
      apply bdd_eqb_eq in Elh. rewrite den_cneg, <- IHhi, <- IHlo, <- Elh. destruct (x u); reflexivity.
    + destruct (negb (bdd_eqb (cond_helper lo v b) lo) || negb (bdd_eqb (cond_helper hi v b) hi)) eqn:Ech.
      * (* a new node *)
        rewrite den_cneg, den_mk_node, IHlo, IHhi. reflexivity.
      * (* unchanged: the same pointer *)
        apply orb_false_iff in Ech. destruct Ech as [E1 E2].
        apply negb_false_iff, bdd_eqb_eq in E1. apply negb_false_iff, bdd_eqb_eq in E2.
        cbn [den]. rewrite <- IHlo, <- IHhi, E1, E2. reflexivity.
Qed.

(* conditioning keeps the diagram free and removes the variable *)
Lemma cond_support p v b : forall u, In u (support (cond_helper p v b)) -> In u (support p).
Proof.
  induction p as [| |c w lo IHlo hi IHhi]; intros u; try (simpl; tauto).
  cbn [cond_helper]. destruct (N.eqb_spec w v) as [->|Hne].
  - destruct c, b; rewrite ?support_neg; cbn [support]; intros H; right; apply in_or_app; auto.
  - destruct (bdd_eqb (cond_helper lo v b) (cond_helper hi v b)).
    + destruct c; rewrite ?support_neg; intros H; apply IHlo in H; cbn [support]; right; apply in_or_app; auto.
    + destruct (negb _ || negb _); [|tauto].
      intros H.
      assert (H' : In u (support (dnnf_mk_node w (cond_helper lo v b) (cond_helper hi v b))))
        by (destruct c; rewrite ?support_neg in H; exact H).
      rewrite support_mk_node in H'. cbn [support]. destruct H' as [H'|H']; [left; exact H'|right].
      apply in_app_or in H'. apply in_or_app.
      destruct H' as [H'|H']; [left; apply IHlo|right; apply IHhi]; exact H'.
Qed.

Lemma cond_free p v b : free_bdd p -> free_bdd (cond_helper p v b).
Proof.
  induction p as [| |c w lo IHlo hi IHhi]; intros Hf; try exact I.
  cbn [free_bdd] in Hf. destruct Hf as [Hnl [Hnh [Hfl Hfh]]].
  cbn [cond_helper]. destruct (N.eqb_spec w v) as [->|Hne].
  - destruct c, b; rewrite ?free_neg; assumption.
  - destruct (bdd_eqb (cond_helper lo v b) (cond_helper hi v b)).
    + destruct c; rewrite ?free_neg; auto.
    + destruct (negb _ || negb _).
      * assert (G : free_bdd (dnnf_mk_node w (cond_helper lo v b) (cond_helper hi v b))).
        { apply free_mk_node. repeat split; auto; intros H; apply cond_support in H; contradiction. }
        destruct c; rewrite ?free_neg; exact G.
      * cbn [free_bdd]. tauto.
Qed.

(* D8: the pinned cond_helper loses the complement bit.  Smallest witness: the negated literal
   !x0 conditioned on x0 = true gives the constant true. *)
Lemma cond_nnf_refuted_pinned_min :
  free_bdd (BN true 0%N BF BT) /\
  cond_helper_m true (BN true 0%N BF BT) 0%N true = BT /\
  den (BN true 0%N BF BT) (upd (fun _ => false) 0%N true) = false /\
  cond_helper_m false (BN true 0%N BF BT) 0%N true = BF.
Proof. repeat split; simpl; tauto. Qed.
