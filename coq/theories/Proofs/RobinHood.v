(* C02, store layer: the robin-hood unique table refines "finite set with stable identities
   over an append-only arena".  See DESIGN.md §3 C02 (P). *)
From Coq Require Import Bool NArith List Lia Arith Permutation.
Import ListNotations.
From RsddV Require Import Base.Util Generated.Constants Model.RobinHood.

(* ------------------------------------------------------------------------------------- *)
(* cyclic arithmetic on [0, c): successor, predecessor, distance -- explicit case forms  *)

Definition nxt (c p : nat) : nat := if Nat.eqb (S p) c then 0 else S p.
Definition prd (c p : nat) : nat := if Nat.eqb p 0 then c - 1 else p - 1.
(* number of steps from h forward to p *)
Definition dist (c h p : nat) : nat := if Nat.leb h p then p - h else p + c - h.

Ltac cyc :=
  unfold nxt, prd, dist in *;
  repeat match goal with
         | |- context [Nat.eqb ?a ?b] => destruct (Nat.eqb_spec a b)
         | |- context [Nat.leb ?a ?b] => destruct (Nat.leb_spec a b)
         | H : context [Nat.eqb ?a ?b] |- _ => destruct (Nat.eqb_spec a b)
         | H : context [Nat.leb ?a ?b] |- _ => destruct (Nat.leb_spec a b)
         end; try lia.

Lemma mod_nxt c p : p < c -> (p + 1) mod c = nxt c p.
Proof.
  intros Hp. unfold nxt. destruct (Nat.eqb_spec (S p) c) as [E|E].
  - replace (p + 1) with c by lia. apply Nat.mod_same. lia.
  - rewrite Nat.mod_small by lia. lia.
Qed.

Lemma nxt_lt c p : p < c -> nxt c p < c.            Proof. intros; cyc. Qed.
Lemma prd_lt c p : p < c -> prd c p < c.            Proof. intros; cyc. Qed.
Lemma nxt_prd c p : p < c -> nxt c (prd c p) = p.   Proof. intros; cyc. Qed.
Lemma prd_nxt c p : p < c -> prd c (nxt c p) = p.   Proof. intros; cyc. Qed.
Lemma dist_lt c h p : h < c -> p < c -> dist c h p < c.   Proof. intros; cyc. Qed.
Lemma dist_refl c h : dist c h h = 0.               Proof. cyc. Qed.
Lemma dist_0 c h p : h < c -> p < c -> dist c h p = 0 -> p = h.   Proof. intros; cyc. Qed.
Lemma dist_inj c h p q : h < c -> p < c -> q < c -> dist c h p = dist c h q -> p = q.
Proof. intros; cyc. Qed.
Lemma dist_nxt c h p : h < c -> p < c -> dist c h p + 1 < c -> dist c h (nxt c p) = S (dist c h p).
Proof. intros; cyc. Qed.
Lemma dist_prd c h p : h < c -> p < c -> p <> h -> dist c h (prd c p) = dist c h p - 1 /\ 0 < dist c h p.
Proof. intros; cyc. Qed.
Lemma dist_from_nxt c p f : p < c -> f < c -> p <> f -> dist c (nxt c p) f = dist c p f - 1 /\ 0 < dist c p f.
Proof. intros; cyc. Qed.
Lemma prd_self c p : p < c -> prd c p = p -> c = 1.   Proof. intros; cyc. Qed.
Lemma dist_nxt_self c p : p < c -> dist c (nxt c p) p = c - 1.   Proof. intros; cyc. Qed.

Lemma home_lt c h : 1 <= c -> home c h < c.
Proof.
  intros Hc. unfold home.
  assert (Hn : (N.of_nat c <> 0)%N) by lia.
  pose proof (N.mod_upper_bound h _ Hn). lia.
Qed.

(* ------------------------------------------------------------------------------------- *)
(* contents of a slot array: the (arena id, hash) pairs of the occupied slots            *)

Definition pays1 (s : slot) : list (nat * N) :=
  match sid s with Some i => [(i, shash s)] | None => [] end.
Definition pays (v : list slot) : list (nat * N) := flat_map pays1 v.

Lemma pays_set_nth v p s : p < length v ->
  Permutation (pays1 s ++ pays v) (pays1 (nth p v empty_slot) ++ pays (set_nth v p s)).
Proof.
  revert p; induction v as [|x v IH]; intros [|p] Hp; simpl in *; try lia.
  - rewrite !app_assoc. apply Permutation_app_tail. apply Permutation_app_comm.
  - etransitivity; [apply Permutation_app_swap_app|].
    etransitivity; [|apply Permutation_app_swap_app].
    apply Permutation_app_head. apply IH. lia.
Qed.

Lemma In_pays v i h :
  In (i, h) (pays v) <->
  exists p, p < length v /\ sid (nth p v empty_slot) = Some i /\ shash (nth p v empty_slot) = h.
Proof.
  unfold pays. rewrite in_flat_map. split.
  - intros (x & Hx & Hin). destruct (In_nth _ _ empty_slot Hx) as (p & Hp & E).
    exists p. rewrite E. unfold pays1 in Hin. destruct (sid x) as [j|]; simpl in Hin; [|tauto].
    destruct Hin as [Hin|[]]. injection Hin as -> ->. auto.
  - intros (p & Hp & Hi & Hh). exists (nth p v empty_slot). split; [apply nth_In; exact Hp|].
    unfold pays1. rewrite Hi, Hh. left; reflexivity.
Qed.

Lemma pays_repeat_empty c : pays (repeat empty_slot c) = [].
Proof. induction c as [|c IH]; simpl; auto. Qed.

Lemma exists_free v : length (pays v) < length v ->
  exists f, f < length v /\ occupied (nth f v empty_slot) = false.
Proof.
  induction v as [|x v IH]; simpl; [lia|]. intros Hl.
  destruct (occupied x) eqn:Ex.
  - unfold occupied in Ex. unfold pays1 in Hl. destruct (sid x); [|discriminate].
    simpl in Hl. destruct IH as (f & Hf & Ef); [lia|]. exists (S f). split; [lia|exact Ef].
  - exists 0. split; [lia|exact Ex].
Qed.

Lemma pays1_occupied s : occupied s = false -> pays1 s = [].
Proof. unfold occupied, pays1. destruct (sid s); [discriminate|reflexivity]. Qed.

Lemma pays1_bump s : pays1 (bump s) = pays1 s.
Proof. reflexivity. Qed.

(* ------------------------------------------------------------------------------------- *)
(* the robin-hood invariant, in local form                                               *)

(* slot content [s] is in order at position [p] of [v]: (i) its psl is its cyclic distance
   from its home slot; (ii') unless it sits at home, its predecessor is occupied by an entry
   at most one step "richer" (smaller psl). *)
Definition slot_ok (c : nat) (v : list slot) (p : nat) (s : slot) : Prop :=
  spsl s = dist c (home c (shash s)) p /\
  (spsl s = 0 \/
   (occupied (nth (prd c p) v empty_slot) = true /\ spsl s <= S (spsl (nth (prd c p) v empty_slot)))).

Definition RHloc (c : nat) (v : list slot) : Prop :=
  forall p, p < c -> occupied (nth p v empty_slot) = true -> slot_ok c v p (nth p v empty_slot).

Lemma RHloc_empty c : RHloc c (repeat empty_slot c).
Proof.
  intros p Hp Ho. rewrite nth_repeat_lt in Ho. destruct (Nat.ltb p c); discriminate.
Qed.

(* overwriting a slot by an entry that is in order there and not richer than the incumbent *)
Lemma RHloc_set_nth c v p s :
  length v = c -> p < c -> RHloc c v -> occupied s = true -> slot_ok c v p s ->
  (occupied (nth p v empty_slot) = true -> spsl (nth p v empty_slot) <= spsl s) ->
  RHloc c (set_nth v p s).
Proof.
  intros Hlen Hp HRH Hs [Hd Hpred] Hinc q Hq Hoq.
  destruct (Nat.eq_dec q p) as [->|Hqp].
  - rewrite nth_set_nth_eq by lia. split; [exact Hd|].
    destruct (Nat.eq_dec (prd c p) p) as [Epp|Npp].
    + left. rewrite Hd. pose proof (prd_self c p Hp Epp) as ->.
      assert (p = 0) by lia. subst p. pose proof (home_lt 1 (shash s) (le_n 1)).
      replace (home 1 (shash s)) with 0 by lia. reflexivity.
    + rewrite nth_set_nth_neq by auto. exact Hpred.
  - rewrite nth_set_nth_neq in * by auto.
    destruct (HRH q Hq Hoq) as [Hd' Hpred']. split; [exact Hd'|].
    destruct Hpred' as [Hz|[Hop Hle]]; [left; exact Hz|]. right.
    destruct (Nat.eq_dec (prd c q) p) as [Epq|Npq].
    + rewrite Epq in *. rewrite nth_set_nth_eq by lia. split; [exact Hs|].
      specialize (Hinc Hop). lia.
    + rewrite nth_set_nth_neq by auto. split; assumption.
Qed.

(* a free slot bounds every psl: an entry at q has travelled less than the distance from any
   free slot to q.  In particular every psl is < c - 1, so bumping never wraps around. *)
Lemma free_bound c v f : RHloc c v -> f < c -> occupied (nth f v empty_slot) = false ->
  forall q, q < c -> occupied (nth q v empty_slot) = true -> spsl (nth q v empty_slot) < dist c f q.
Proof.
  intros HRH Hf Hfree.
  assert (G : forall n q, dist c f q = n -> q < c -> occupied (nth q v empty_slot) = true ->
                          spsl (nth q v empty_slot) < n).
  { induction n as [|n IH]; intros q Hd Hq Hoq.
    - apply dist_0 in Hd; auto. subst q. congruence.
    - destruct (HRH q Hq Hoq) as [_ [Hz|[Hop Hle]]]; [lia|].
      assert (Hne : q <> f) by (intros ->; rewrite dist_refl in Hd; discriminate).
      destruct (dist_prd c f q Hf Hq Hne) as [Hdp _].
      specialize (IH (prd c q) ltac:(lia) (prd_lt c q Hq) Hop). lia. }
  intros q Hq Hoq. eapply G; eauto.
Qed.

Lemma free_bound_nowrap c v f : RHloc c v -> f < c -> occupied (nth f v empty_slot) = false ->
  forall q, q < c -> occupied (nth q v empty_slot) = true -> spsl (nth q v empty_slot) + 2 <= c.
Proof.
  intros HRH Hf Hfree q Hq Hoq.
  pose proof (free_bound c v f HRH Hf Hfree q Hq Hoq). pose proof (dist_lt c f q Hf Hq). lia.
Qed.
