(* C02, store layer: the robin-hood unique table refines "finite set with stable identities
   over an append-only arena".  See DESIGN.md §3 C02 (P).
   Road map:
   - cyclic arithmetic on [0,c) in explicit case form ([nxt], [prd], [dist]; tactic [cyc]);
   - contents of a slot array as a list of (id, hash) pairs up to permutation ([pays]);
   - the invariant in local form: [slot_ok] = (i) psl is the cyclic distance from home and
     (ii') the predecessor is occupied and at most one step richer; [RHloc] = every occupied slot
     is [slot_ok]; consequences: [free_bound] (a free slot bounds every psl, so bumping never
     wraps), [path] (the global form (ii) that makes the early exit sound), [psl_lt_count];
   - [propagate_ok]: carrying an in-order entry to the first free slot preserves [RHloc] and the
     contents, and never runs out of fuel; [propagate_then_overwrite] for get_or_insert's
     "propagate the incumbent from its own slot, then overwrite" (via [propagate_comm]);
   - [grow_fold] / [TI_grow]: the repaired grow re-establishes the invariant in the new array;
   - table invariant [TI] for an arbitrary hash function (ids = positions of an arena without
     duplicates, stored hash = H element, len = arena length < cap);
     [probe_absent] / [probe_present] / [goi_spec] / [run_spec];
   - theorems: [rh_refines_set], [rh_never_out_of_fuel], [arena_append_only(_step)],
     [rh_refuted_pinned], [rh_get_by_hash_spec], [rh_total_small]. *)
From Coq Require Import Bool NArith List Lia Arith Permutation.
Import ListNotations.
From RsddV Require Import Base.Util Generated.Constants Model.RobinHood.

(* ------------------------------------------------------------------------------------- *)
(* cyclic arithmetic on [0, c): successor, predecessor, distance -- explicit case forms  *)

Definition nxt (c p : nat) : nat := if Nat.eqb (S p) c then 0 else S p.
Definition prd (c p : nat) : nat := if Nat.eqb p 0 then c - 1 else p - 1.
(* number of steps from h forward to p *)
Definition dist (c h p : nat) : nat := if Nat.leb h p then p - h else p + c - h.

Ltac cyc :=
  unfold nxt, prd, dist in *;
  repeat match goal with
         | |- context [Nat.eqb ?a ?b] => destruct (Nat.eqb_spec a b)
         | |- context [Nat.leb ?a ?b] => destruct (Nat.leb_spec a b)
         | H : context [Nat.eqb ?a ?b] |- _ => destruct (Nat.eqb_spec a b)
         | H : context [Nat.leb ?a ?b] |- _ => destruct (Nat.leb_spec a b)
         end; try lia.

Lemma mod_nxt c p : p < c -> (p + 1) mod c = nxt c p.
Proof.
  intros Hp. unfold nxt. destruct (Nat.eqb_spec (S p) c) as [E|E].
  - replace (p + 1) with c by lia. apply Nat.mod_same. lia.
  - rewrite Nat.mod_small by lia. lia.
Qed.

Lemma nxt_lt c p : p < c -> nxt c p < c.            Proof. intros; cyc. Qed.
Lemma prd_lt c p : p < c -> prd c p < c.            Proof. intros; cyc. Qed.
Lemma nxt_prd c p : p < c -> nxt c (prd c p) = p.   Proof. intros; cyc. Qed.
Lemma prd_nxt c p : p < c -> prd c (nxt c p) = p.   Proof. intros; cyc. Qed.
Lemma dist_lt c h p : h < c -> p < c -> dist c h p < c.   Proof. intros; cyc. Qed.
Lemma dist_refl c h : dist c h h = 0.               Proof. cyc. Qed.
Lemma dist_0 c h p : h < c -> p < c -> dist c h p = 0 -> p = h.   Proof. intros; cyc. Qed.
Lemma dist_inj c h p q : h < c -> p < c -> q < c -> dist c h p = dist c h q -> p = q.
Proof. intros; cyc. Qed.
Lemma dist_nxt c h p : h < c -> p < c -> dist c h p + 1 < c -> dist c h (nxt c p) = S (dist c h p).
Proof. intros; cyc. Qed.
Lemma dist_prd c h p : h < c -> p < c -> p <> h -> dist c h (prd c p) = dist c h p - 1 /\ 0 < dist c h p.
Proof. intros; cyc. Qed.
Lemma dist_from_nxt c p f : p < c -> f < c -> p <> f -> dist c (nxt c p) f = dist c p f - 1 /\ 0 < dist c p f.
Proof. intros; cyc. Qed.
Lemma prd_self c p : p < c -> prd c p = p -> c = 1.   Proof. intros; cyc. Qed.
Lemma dist_nxt_self c p : p < c -> dist c (nxt c p) p = c - 1.   Proof. intros; cyc. Qed.

Lemma home_lt c h : 1 <= c -> home c h < c.
Proof.
  intros Hc. unfold home.
  assert (Hn : (N.of_nat c <> 0)%N) by lia.
  pose proof (N.mod_upper_bound h _ Hn). lia.
Qed.

(* ------------------------------------------------------------------------------------- *)
(* contents of a slot array: the (arena id, hash) pairs of the occupied slots            *)

Definition pays1 (s : slot) : list (nat * N) :=
  match sid s with Some i => [(i, shash s)] | None => [] end.
Definition pays (v : list slot) : list (nat * N) := flat_map pays1 v.

Lemma pays_set_nth v p s : p < length v ->
  Permutation (pays1 s ++ pays v) (pays1 (nth p v empty_slot) ++ pays (set_nth v p s)).
Proof.
  revert p; induction v as [|x v IH]; intros [|p] Hp; simpl in *; try lia.
  - rewrite !app_assoc. apply Permutation_app_tail. apply Permutation_app_comm.
  - etransitivity; [apply Permutation_app_swap_app|].
    etransitivity; [|apply Permutation_app_swap_app].
    apply Permutation_app_head. apply IH. lia.
Qed.

Lemma In_pays v i h :
  In (i, h) (pays v) <->
  exists p, p < length v /\ sid (nth p v empty_slot) = Some i /\ shash (nth p v empty_slot) = h.
Proof.
  unfold pays. rewrite in_flat_map. split.
  - intros (x & Hx & Hin). destruct (In_nth _ _ empty_slot Hx) as (p & Hp & E).
    exists p. rewrite E. unfold pays1 in Hin. destruct (sid x) as [j|]; simpl in Hin; [|tauto].
    destruct Hin as [Hin|[]]. injection Hin as -> ->. auto.
  - intros (p & Hp & Hi & Hh). exists (nth p v empty_slot). split; [apply nth_In; exact Hp|].
    unfold pays1. rewrite Hi, Hh. left; reflexivity.
Qed.

Lemma pays_repeat_empty c : pays (repeat empty_slot c) = [].
Proof. induction c as [|c IH]; simpl; auto. Qed.

Lemma exists_free v : length (pays v) < length v ->
  exists f, f < length v /\ occupied (nth f v empty_slot) = false.
Proof.
  induction v as [|x v IH]; simpl; [lia|]. intros Hl.
  destruct (occupied x) eqn:Ex.
  - unfold occupied in Ex. unfold pays1 in Hl. destruct (sid x); [|discriminate].
    simpl in Hl. destruct IH as (f & Hf & Ef); [lia|]. exists (S f). split; [lia|exact Ef].
  - exists 0. split; [lia|exact Ex].
Qed.

Lemma pays1_occupied s : occupied s = false -> pays1 s = [].
Proof. unfold occupied, pays1. destruct (sid s); [discriminate|reflexivity]. Qed.

Lemma pays1_bump s : pays1 (bump s) = pays1 s.
Proof. reflexivity. Qed.

(* ------------------------------------------------------------------------------------- *)
(* the robin-hood invariant, in local form                                               *)

(* slot content [s] is in order at position [p] of [v]: (i) its psl is its cyclic distance
   from its home slot; (ii') unless it sits at home, its predecessor is occupied by an entry
   at most one step "richer" (smaller psl). *)
Definition slot_ok (c : nat) (v : list slot) (p : nat) (s : slot) : Prop :=
  spsl s = dist c (home c (shash s)) p /\
  (spsl s = 0 \/
   (occupied (nth (prd c p) v empty_slot) = true /\ spsl s <= S (spsl (nth (prd c p) v empty_slot)))).

Definition RHloc (c : nat) (v : list slot) : Prop :=
  forall p, p < c -> occupied (nth p v empty_slot) = true -> slot_ok c v p (nth p v empty_slot).

Lemma RHloc_empty c : RHloc c (repeat empty_slot c).
Proof.
  intros p Hp Ho. rewrite nth_repeat_lt in Ho. destruct (Nat.ltb p c); discriminate.
Qed.

(* overwriting a slot by an entry that is in order there and not richer than the incumbent *)
Lemma RHloc_set_nth c v p s :
  length v = c -> p < c -> RHloc c v -> occupied s = true -> slot_ok c v p s ->
  (occupied (nth p v empty_slot) = true -> spsl (nth p v empty_slot) <= spsl s) ->
  RHloc c (set_nth v p s).
Proof.
  intros Hlen Hp HRH Hs [Hd Hpred] Hinc q Hq Hoq.
  destruct (Nat.eq_dec q p) as [->|Hqp].
  - rewrite nth_set_nth_eq by lia. split; [exact Hd|].
    destruct (Nat.eq_dec (prd c p) p) as [Epp|Npp].
    + left. rewrite Hd. pose proof (prd_self c p Hp Epp) as ->.
      assert (p = 0) by lia. subst p. pose proof (home_lt 1 (shash s) (le_n 1)).
      replace (home 1 (shash s)) with 0 by lia. reflexivity.
    + rewrite nth_set_nth_neq by auto. exact Hpred.
  - rewrite nth_set_nth_neq in * by auto.
    destruct (HRH q Hq Hoq) as [Hd' Hpred']. split; [exact Hd'|].
    destruct Hpred' as [Hz|[Hop Hle]]; [left; exact Hz|]. right.
    destruct (Nat.eq_dec (prd c q) p) as [Epq|Npq].
    + rewrite Epq in *. rewrite nth_set_nth_eq by lia. split; [exact Hs|].
      specialize (Hinc Hop). lia.
    + rewrite nth_set_nth_neq by auto. split; assumption.
Qed.

(* a free slot bounds every psl: an entry at q has travelled less than the distance from any
   free slot to q.  In particular every psl is < c - 1, so bumping never wraps around. *)
Lemma free_bound c v f : RHloc c v -> f < c -> occupied (nth f v empty_slot) = false ->
  forall q, q < c -> occupied (nth q v empty_slot) = true -> spsl (nth q v empty_slot) < dist c f q.
Proof.
  intros HRH Hf Hfree.
  assert (G : forall n q, dist c f q = n -> q < c -> occupied (nth q v empty_slot) = true ->
                          spsl (nth q v empty_slot) < n).
  { induction n as [|n IH]; intros q Hd Hq Hoq.
    - apply dist_0 in Hd; auto. subst q. congruence.
    - destruct (HRH q Hq Hoq) as [_ [Hz|[Hop Hle]]]; [lia|].
      assert (Hne : q <> f) by (intros ->; rewrite dist_refl in Hd; discriminate).
      destruct (dist_prd c f q Hf Hq Hne) as [Hdp _].
      specialize (IH (prd c q) ltac:(lia) (prd_lt c q Hq) Hop). lia. }
  intros q Hq Hoq. eapply G; eauto.
Qed.

Lemma free_bound_nowrap c v f : RHloc c v -> f < c -> occupied (nth f v empty_slot) = false ->
  forall q, q < c -> occupied (nth q v empty_slot) = true -> spsl (nth q v empty_slot) + 2 <= c.
Proof.
  intros HRH Hf Hfree q Hq Hoq.
  pose proof (free_bound c v f HRH Hf Hfree q Hq Hoq). pose proof (dist_lt c f q Hf Hq). lia.
Qed.

(* ------------------------------------------------------------------------------------- *)
(* propagate: carrying an entry [s] that is in order at [p] forward to the first free slot *)

Lemma occupied_bump s : occupied (bump s) = occupied s.
Proof. reflexivity. Qed.

Lemma propagate_ok c f : 1 <= c -> f < c ->
  forall fuel v s p,
  length v = c -> p < c -> RHloc c v -> occupied s = true -> slot_ok c v p s ->
  occupied (nth f v empty_slot) = false -> dist c p f < fuel ->
  propagate fuel v c s p <> OutOfFuel /\
  forall w, propagate fuel v c s p = Ok w ->
    length w = c /\ RHloc c w /\ Permutation (pays1 s ++ pays v) (pays w).
Proof.
  intros Hc Hf. induction fuel as [|n IH]; intros v s p Hlen Hp HRH Hs Hok Hfree Hfuel; [lia|].
  cbn [propagate]. rewrite (mod_nxt c p Hp).
  remember (nth p v empty_slot) as cur eqn:Ecur. destruct (occupied cur) eqn:Hocc.
  - assert (Hpf : p <> f) by (intros ->; congruence).
    destruct (dist_from_nxt c p f Hp Hf Hpf) as [Hdn Hdpos].
    assert (Hnw : spsl cur + 2 <= c).
    { rewrite Ecur. apply (free_bound_nowrap c v f HRH Hf Hfree p Hp). rewrite <- Ecur. exact Hocc. }
    assert (Hcd : spsl cur = dist c (home c (shash cur)) p).
    { rewrite Ecur. apply (HRH p Hp). rewrite <- Ecur. exact Hocc. }
    destruct Hok as [Hsd Hsp].
    pose proof (home_lt c (shash cur) Hc) as Hhc. pose proof (home_lt c (shash s) Hc) as Hhs.
    pose proof (pays_set_nth v p s ltac:(lia)) as Hpset. rewrite <- Ecur in Hpset.
    destruct (Nat.ltb_spec (spsl cur) (spsl s)) as [Hlt|Hge].
    + (* swap: s takes the slot, the incumbent travels on *)
      destruct (Nat.leb psl_max (spsl cur)); [split; [discriminate|intros w E; discriminate]|].
      assert (HRH' : RHloc c (set_nth v p s)).
      { apply RHloc_set_nth; auto; [split; auto|]. rewrite <- Ecur. lia. }
      destruct (IH (set_nth v p s) (bump cur) (nxt c p)) as [Hnf Hres].
      * rewrite length_set_nth; auto.
      * apply nxt_lt; auto.
      * exact HRH'.
      * exact Hocc.
      * split.
        -- cbn [bump spsl shash]. rewrite dist_nxt by (auto; lia). lia.
        -- right. rewrite prd_nxt by auto. rewrite nth_set_nth_eq by lia.
           split; [exact Hs|]. cbn [bump spsl]. lia.
      * rewrite nth_set_nth_neq by auto. exact Hfree.
      * lia.
      * split; [exact Hnf|]. intros w E. destruct (Hres w E) as (Hl & Hr & Hperm).
        split; [exact Hl|]. split; [exact Hr|]. rewrite pays1_bump in Hperm.
        etransitivity; [exact Hpset|exact Hperm].
    + (* no swap: s travels on *)
      destruct (Nat.leb psl_max (spsl s)); [split; [discriminate|intros w E; discriminate]|].
      destruct (IH v (bump s) (nxt c p)) as [Hnf Hres]; auto.
      * apply nxt_lt; auto.
      * split.
        -- cbn [bump spsl shash]. rewrite dist_nxt by (auto; lia). lia.
        -- right. rewrite prd_nxt by auto. rewrite <- Ecur.
           split; [exact Hocc|]. cbn [bump spsl]. lia.
      * lia.
  - split; [discriminate|]. intros w E. injection E as <-.
    pose proof (pays_set_nth v p s ltac:(lia)) as Hpset. rewrite <- Ecur in Hpset.
    rewrite (pays1_occupied cur Hocc) in Hpset. simpl in Hpset.
    split; [rewrite length_set_nth; auto|]. split; [|exact Hpset].
    apply RHloc_set_nth; auto. rewrite <- Ecur, Hocc. discriminate.
Qed.

(* propagate never looks at a slot that lies cyclically behind the first free slot *)
Definition res_map {A B} (g : A -> B) (r : res A) : res B :=
  match r with Ok a => Ok (g a) | PslOverflow => PslOverflow | OutOfFuel => OutOfFuel end.

Lemma set_nth_comm {A} (l : list A) i j x y : i <> j ->
  set_nth (set_nth l i x) j y = set_nth (set_nth l j y) i x.
Proof.
  revert i j; induction l as [|z l IH]; intros [|i] [|j] Hne; simpl; auto; try lia.
  f_equal. apply IH. lia.
Qed.

Lemma propagate_comm c f q y : f < c -> q < c ->
  forall fuel v s p, length v = c -> p < c -> occupied (nth f v empty_slot) = false ->
  dist c p f < dist c p q ->
  propagate fuel (set_nth v q y) c s p = res_map (fun w => set_nth w q y) (propagate fuel v c s p).
Proof.
  intros Hf Hq. induction fuel as [|n IH]; intros v s p Hlen Hp Hfree Hd; [reflexivity|].
  assert (Hpq : p <> q) by (intros ->; rewrite dist_refl in Hd; lia).
  cbn [propagate]. rewrite (mod_nxt c p Hp). rewrite nth_set_nth_neq by auto.
  destruct (occupied (nth p v empty_slot)) eqn:Hocc.
  - assert (Hpf : p <> f) by (intros ->; congruence).
    destruct (dist_from_nxt c p f Hp Hf Hpf) as [Hdn Hdpos].
    destruct (dist_from_nxt c p q Hp Hq Hpq) as [Hdq _].
    destruct (Nat.ltb (spsl (nth p v empty_slot)) (spsl s)).
    + destruct (Nat.leb psl_max (spsl (nth p v empty_slot))); [reflexivity|].
      rewrite (set_nth_comm v q p y s) by auto. apply IH.
      * rewrite length_set_nth; auto.
      * apply nxt_lt; auto.
      * rewrite nth_set_nth_neq by auto. exact Hfree.
      * lia.
    + destruct (Nat.leb psl_max (spsl s)); [reflexivity|].
      apply IH; auto. { apply nxt_lt; auto. } lia.
  - cbn [res_map]. rewrite (set_nth_comm v q p y s) by auto. reflexivity.
Qed.

(* get_or_insert's "rich slot" case: propagate the incumbent from its own slot, then overwrite *)
Lemma propagate_then_overwrite c v f pos new :
  1 <= c -> length v = c -> RHloc c v -> f < c -> occupied (nth f v empty_slot) = false ->
  pos < c -> occupied (nth pos v empty_slot) = true -> occupied new = true ->
  slot_ok c v pos new -> spsl (nth pos v empty_slot) < spsl new ->
  propagate (S c) v c (nth pos v empty_slot) pos <> OutOfFuel /\
  forall w, propagate (S c) v c (nth pos v empty_slot) pos = Ok w ->
    length (set_nth w pos new) = c /\ RHloc c (set_nth w pos new) /\
    Permutation (pays1 new ++ pays v) (pays (set_nth w pos new)).
Proof.
  intros Hc Hlen HRH Hf Hfree Hpos Hocc Hnew Hok Hlt.
  remember (nth pos v empty_slot) as cur eqn:Ecur.
  cbn [propagate]. rewrite (mod_nxt c pos Hpos). rewrite <- Ecur, Hocc, Nat.ltb_irrefl.
  destruct (Nat.leb psl_max (spsl cur)); [split; [discriminate|intros w E; discriminate]|].
  assert (Hpf : pos <> f) by (intros ->; congruence).
  assert (Hnw : spsl cur + 2 <= c).
  { rewrite Ecur. apply (free_bound_nowrap c v f HRH Hf Hfree pos Hpos). rewrite <- Ecur. exact Hocc. }
  assert (Hcd : spsl cur = dist c (home c (shash cur)) pos).
  { rewrite Ecur. apply (HRH pos Hpos). rewrite <- Ecur. exact Hocc. }
  pose proof (home_lt c (shash cur) Hc) as Hhc.
  set (v0 := set_nth v pos new).
  assert (Hcomm : propagate c v0 c (bump cur) (nxt c pos)
                  = res_map (fun w => set_nth w pos new) (propagate c v c (bump cur) (nxt c pos))).
  { apply (propagate_comm c f pos new Hf Hpos); auto. { apply nxt_lt; auto. }
    rewrite dist_nxt_self by auto.
    pose proof (dist_lt c (nxt c pos) f (nxt_lt c pos Hpos) Hf).
    assert (dist c (nxt c pos) f <> c - 1).
    { intros E. rewrite <- (dist_nxt_self c pos Hpos) in E.
      apply dist_inj in E; auto. apply nxt_lt; auto. }
    lia. }
  destruct (propagate_ok c f Hc Hf c v0 (bump cur) (nxt c pos)) as [Hnf Hres].
  - unfold v0. rewrite length_set_nth; auto.
  - apply nxt_lt; auto.
  - unfold v0. apply RHloc_set_nth; auto. rewrite <- Ecur. lia.
  - exact Hocc.
  - split.
    + cbn [bump spsl shash]. rewrite dist_nxt by (auto; lia). lia.
    + right. rewrite prd_nxt by auto. unfold v0. rewrite nth_set_nth_eq by lia.
      split; [exact Hnew|]. cbn [bump spsl]. lia.
  - unfold v0. rewrite nth_set_nth_neq by auto. exact Hfree.
  - apply dist_lt; auto. apply nxt_lt; auto.
  - rewrite Hcomm in Hnf, Hres.
    pose proof (pays_set_nth v pos new ltac:(lia)) as Hpset. rewrite <- Ecur in Hpset. fold v0 in Hpset.
    destruct (propagate c v c (bump cur) (nxt c pos)) as [w| |]; cbn [res_map] in *.
    + split; [discriminate|]. intros w' E. injection E as <-.
      destruct (Hres _ eq_refl) as (Hl & Hr & Hperm). split; [exact Hl|]. split; [exact Hr|].
      rewrite pays1_bump in Hperm. etransitivity; [exact Hpset|exact Hperm].
    + split; [discriminate|intros w' E; discriminate].
    + congruence.
Qed.

(* ------------------------------------------------------------------------------------- *)
(* grow (the repaired one): robin-hood insertion of every stored entry into an empty table *)

Lemma fold_grow_err fixed c l (e : res (list slot)) :
  (forall v, e <> Ok v) -> fold_left (grow_step fixed c) l e = e.
Proof.
  intros He. induction l as [|x l IH]; [reflexivity|]. simpl.
  destruct e as [v| |]; [exfalso; eapply He; reflexivity|exact IH|exact IH].
Qed.

Lemma grow_fold c : 1 <= c -> forall l acc,
  length acc = c -> RHloc c acc -> length (pays acc) + length (pays l) < c ->
  fold_left (grow_step true c) l (Ok acc) <> OutOfFuel /\
  forall w, fold_left (grow_step true c) l (Ok acc) = Ok w ->
    length w = c /\ RHloc c w /\ Permutation (pays l ++ pays acc) (pays w).
Proof.
  intros Hc. induction l as [|x l IH]; intros acc Hlen HRH Hcnt.
  - simpl. split; [discriminate|]. intros w E. injection E as <-. auto.
  - cbn [fold_left grow_step].
    change (pays (x :: l)) with (pays1 x ++ pays l) in *. rewrite app_length in Hcnt.
    destruct (occupied x) eqn:Hox.
    + destruct (exists_free acc) as (f & Hf & Hfree); [lia|]. rewrite Hlen in Hf.
      set (s0 := {| sid := sid x; shash := shash x; spsl := 0 |}).
      assert (Hp1 : pays1 s0 = pays1 x) by reflexivity.
      destruct (propagate_ok c f Hc Hf (S c) acc s0 (home c (shash x))) as [Hnf Hres]; auto.
      * apply home_lt; auto.
      * split; [|left; reflexivity]. cbn [s0 spsl shash]. rewrite dist_refl. reflexivity.
      * pose proof (dist_lt c (home c (shash x)) f (home_lt c _ Hc) Hf). lia.
      * destruct (propagate (S c) acc c s0 (home c (shash x))) as [acc'| |] eqn:E.
        -- destruct (Hres _ eq_refl) as (Hl & Hr & Hperm). rewrite Hp1 in Hperm.
           pose proof (Permutation_length Hperm) as Hpl. rewrite app_length in Hpl.
           destruct (IH acc' Hl Hr ltac:(lia)) as [Hnf' Hres']. split; [exact Hnf'|].
           intros w Ew. destruct (Hres' w Ew) as (Hl' & Hr' & Hperm').
           split; [exact Hl'|]. split; [exact Hr'|].
           etransitivity; [|exact Hperm']. rewrite <- app_assoc.
           etransitivity; [apply Permutation_app_swap_app|].
           apply Permutation_app_head. exact Hperm.
        -- rewrite fold_grow_err by discriminate. split; [discriminate|intros w Ew; discriminate].
        -- congruence.
    + rewrite (pays1_occupied x Hox) in *. simpl in *. apply IH; auto.
Qed.

Lemma next_pow2_ge n : n <= next_pow2 n.
Proof.
  unfold next_pow2. destruct (le_lt_dec n 1) as [Hle|Hgt].
  - pose proof (Nat.pow_nonzero 2 (Nat.log2_up n)). lia.
  - apply Nat.log2_up_spec. lia.
Qed.

(* ------------------------------------------------------------------------------------- *)
(* the table invariant, for an arbitrary hash function on elements                       *)

Section WithHash.
Variable H : N -> N.   (* any hash function: all collision patterns *)

Definition TI (t : table) : Prop :=
  1 <= cap t /\ length (tbl t) = cap t /\ RHloc (cap t) (tbl t) /\
  Permutation (map fst (pays (tbl t))) (seq 0 (length (arena t))) /\
  (forall i h, In (i, h) (pays (tbl t)) -> h = H (nth i (arena t) 0%N)) /\
  NoDup (arena t) /\ len t = length (arena t) /\ len t < cap t.

Lemma TI_new c : 1 <= c -> TI (new_table c).
Proof.
  intros Hc. unfold TI, new_table; cbn [tbl cap len arena].
  rewrite pays_repeat_empty, repeat_length. simpl.
  split; [exact Hc|]. split; [reflexivity|]. split; [apply RHloc_empty|]. split; [constructor|].
  split; [intros i h []|]. split; [constructor|]. split; [reflexivity|lia].
Qed.

Lemma TI_id_lt t i h : TI t -> In (i, h) (pays (tbl t)) -> i < length (arena t).
Proof.
  intros (_ & _ & _ & Hperm & _) Hin.
  assert (Hi : In i (map fst (pays (tbl t)))) by (apply (in_map fst) in Hin; exact Hin).
  apply (Permutation_in _ Hperm) in Hi. apply in_seq in Hi. lia.
Qed.

Lemma TI_stored t i : TI t -> i < length (arena t) ->
  exists q, q < cap t /\ sid (nth q (tbl t) empty_slot) = Some i /\
            shash (nth q (tbl t) empty_slot) = H (nth i (arena t) 0%N).
Proof.
  intros HTI Hi. pose proof HTI as (_ & Hlen & _ & Hperm & Hh & _).
  assert (Hin : In i (map fst (pays (tbl t)))).
  { apply (Permutation_in _ (Permutation_sym Hperm)). apply in_seq. lia. }
  apply in_map_iff in Hin. destruct Hin as ([i' h] & Ei & Hin). simpl in Ei. subst i'.
  pose proof (Hh _ _ Hin) as ->. apply In_pays in Hin. destruct Hin as (q & Hq & Hs & Hsh).
  exists q. rewrite Hlen in Hq. auto.
Qed.

Lemma TI_pays_length t : TI t -> length (pays (tbl t)) = len t.
Proof.
  intros (_ & _ & _ & Hperm & _ & _ & Hl & _).
  apply Permutation_length in Hperm. rewrite map_length, seq_length in Hperm. lia.
Qed.

Lemma TI_free t : TI t -> exists f, f < cap t /\ occupied (nth f (tbl t) empty_slot) = false.
Proof.
  intros HTI. pose proof (TI_pays_length t HTI). destruct HTI as (_ & Hlen & _ & _ & _ & _ & _ & Hlt).
  rewrite <- Hlen. apply exists_free. lia.
Qed.

Lemma TI_grow t : TI t ->
  grow true t <> OutOfFuel /\
  forall t', grow true t = Ok t' ->
    TI t' /\ arena t' = arena t /\ len t' = len t /\ hits t' = hits t /\ cap t + 1 <= cap t'.
Proof.
  intros HTI. pose proof (TI_pays_length t HTI) as Hpl.
  destruct HTI as (Hc & Hlen & HRH & Hperm & Hh & Hnd & Hl & Hlt).
  unfold grow. pose proof (next_pow2_ge (cap t + 1)) as Hge.
  set (c' := next_pow2 (cap t + 1)) in *.
  destruct (grow_fold c' ltac:(lia) (tbl t) (repeat empty_slot c')) as [Hnf Hres].
  - apply repeat_length.
  - apply RHloc_empty.
  - rewrite pays_repeat_empty. simpl. lia.
  - destruct (fold_left (grow_step true c') (tbl t) (Ok (repeat empty_slot c'))) as [w| |].
    + split; [discriminate|]. intros t' E. injection E as <-. cbn [tbl cap len arena hits].
      destruct (Hres _ eq_refl) as (Hl' & Hr' & Hperm'). rewrite pays_repeat_empty, app_nil_r in Hperm'.
      split; [|repeat split; auto; lia].
      unfold TI; cbn [tbl cap len arena].
      split; [lia|]. split; [exact Hl'|]. split; [exact Hr'|]. split; [|split; [|split; [|split]]]; auto; try lia.
      * etransitivity; [apply Permutation_map; apply Permutation_sym; exact Hperm'|exact Hperm].
      * intros i h Hin. apply Hh. apply (Permutation_in _ (Permutation_sym Hperm')). exact Hin.
    + split; [discriminate|intros t' E; discriminate].
    + congruence.
Qed.

(* a new element enters: any in-order array holding the old entries plus the new one *)
Lemma TI_insert t e v' :
  TI t -> S (len t) < cap t -> ~ In e (arena t) ->
  length v' = cap t -> RHloc (cap t) v' ->
  Permutation ((length (arena t), H e) :: pays (tbl t)) (pays v') ->
  TI {| tbl := v'; cap := cap t; len := S (len t); hits := hits t; arena := arena t ++ [e] |}.
Proof.
  intros HTI Hload Hnin Hlen' HRH' Hperm'.
  assert (Hidlt : forall i h, In (i, h) (pays (tbl t)) -> i < length (arena t)) by (intros; eapply TI_id_lt; eauto).
  destruct HTI as (Hc & Hlen & HRH & Hperm & Hh & Hnd & Hl & Hlt).
  unfold TI; cbn [tbl cap len arena]. rewrite app_length. cbn [length].
  split; [exact Hc|]. split; [exact Hlen'|]. split; [exact HRH'|]. split; [|split; [|split; [|split]]].
  - replace (length (arena t) + 1) with (S (length (arena t))) by lia. rewrite seq_S. cbn [plus].
    etransitivity; [apply Permutation_map; apply Permutation_sym; exact Hperm'|]. cbn [map fst].
    etransitivity; [apply perm_skip; exact Hperm|]. apply Permutation_cons_append.
  - intros i h Hin. apply (Permutation_in _ (Permutation_sym Hperm')) in Hin. destruct Hin as [E|Hin].
    + injection E as <- <-. rewrite app_nth2 by lia. rewrite Nat.sub_diag. reflexivity.
    + rewrite app_nth1 by (eapply Hidlt; eauto). apply Hh. exact Hin.
  - apply (Permutation_NoDup (Permutation_cons_append (arena t) e)). constructor; assumption.
  - lia.
  - exact Hload.
Qed.

(* the global form of (ii): every slot on the cyclic path from the home slot of a stored entry
   to the entry is occupied, by an entry that has travelled at least as far -- this is what
   makes the early exit [cur.psl < psl => absent] sound *)
Lemma path c v h0 q : RHloc c v -> h0 < c -> q < c ->
  occupied (nth q v empty_slot) = true -> spsl (nth q v empty_slot) = dist c h0 q ->
  forall n p, p < c -> dist c h0 p + n = dist c h0 q ->
    occupied (nth p v empty_slot) = true /\ dist c h0 p <= spsl (nth p v empty_slot).
Proof.
  intros HRH Hh0 Hq Hoq Hpsl. induction n as [|n IH]; intros p Hp Hd.
  - assert (p = q) by (apply (dist_inj c h0); auto; lia). subst p. split; [exact Hoq|lia].
  - pose proof (dist_lt c h0 q Hh0 Hq) as Hdq.
    assert (Hdn : dist c h0 (nxt c p) = S (dist c h0 p)) by (apply dist_nxt; auto; lia).
    destruct (IH (nxt c p) (nxt_lt c p Hp) ltac:(lia)) as [Hon Hge].
    destruct (HRH (nxt c p) (nxt_lt c p Hp) Hon) as [_ [Hz|[Hop Hle]]]; [lia|].
    rewrite prd_nxt in Hop, Hle by auto. split; [exact Hop|lia].
Qed.

Definition new_slot (id : nat) (hash : N) (psl : nat) : slot := {| sid := Some id; shash := hash; spsl := psl |}.

(* probing for an element that is not in the arena: it is inserted, in order *)
Lemma probe_absent t e f :
  TI t -> S (len t) < cap t -> ~ In e (arena t) ->
  f < cap t -> occupied (nth f (tbl t) empty_slot) = false ->
  forall fuel pos k, pos < cap t -> dist (cap t) pos f < fuel ->
    slot_ok (cap t) (tbl t) pos (new_slot (length (arena t)) (H e) k) ->
    probe fuel t (H e) e false pos k <> OutOfFuel /\
    forall id t', probe fuel t (H e) e false pos k = Ok (id, t') ->
      id = length (arena t) /\ TI t' /\ arena t' = arena t ++ [e] /\ hits t' = hits t.
Proof.
  intros HTI Hload Hnin Hf Hfree.
  pose proof HTI as (Hc & Hlen & HRH & Hperm & Hh & Hnd & Hl & Hlt).
  induction fuel as [|n IH]; intros pos k Hpos Hfuel Hok; [lia|].
  cbn [probe]. rewrite (mod_nxt _ pos Hpos).
  remember (nth pos (tbl t) empty_slot) as cur eqn:Ecur.
  destruct (sid cur) as [id'|] eqn:Hsid.
  - assert (Hocc : occupied (nth pos (tbl t) empty_slot) = true) by (rewrite <- Ecur; unfold occupied; rewrite Hsid; reflexivity).
    assert (Hin : In (id', shash cur) (pays (tbl t))).
    { apply In_pays. exists pos. rewrite <- Ecur. split; [lia|auto]. }
    pose proof (TI_id_lt t _ _ HTI Hin) as Hidlt.
    destruct (N.eqb (H e) (shash cur) && (false || N.eqb (nth id' (arena t) 0%N) e)) eqn:Etest.
    { exfalso. apply andb_prop in Etest. destruct Etest as [_ E2]. cbn [orb] in E2.
      apply N.eqb_eq in E2. apply Hnin. rewrite <- E2. apply nth_In. exact Hidlt. }
    destruct (Nat.ltb_spec (spsl cur) k) as [Hlt'|Hge].
    + (* rich slot: the incumbent is propagated, the new element takes its place *)
      destruct (propagate_then_overwrite (cap t) (tbl t) f pos (new_slot (length (arena t)) (H e) k))
        as [Hnf Hres]; auto; [rewrite <- Ecur; exact Hlt'|].
      rewrite <- Ecur in Hnf, Hres.
      destruct (propagate (S (cap t)) (tbl t) (cap t) cur pos) as [w| |].
      * split; [discriminate|]. intros id t' E. unfold insert_at in E. injection E as <- <-.
        destruct (Hres _ eq_refl) as (Hl' & Hr' & Hperm'). cbn [arena hits].
        split; [reflexivity|]. split; [|auto]. apply TI_insert; auto.
      * split; [discriminate|intros id t' E; discriminate].
      * congruence.
    + destruct (Nat.leb psl_max k); [split; [discriminate|intros id t' E; discriminate]|].
      assert (Hpf : pos <> f) by (intros ->; congruence).
      destruct (dist_from_nxt _ pos f Hpos Hf Hpf) as [Hdn Hdpos].
      pose proof (free_bound_nowrap _ _ f HRH Hf Hfree pos Hpos Hocc) as Hnw. rewrite <- Ecur in Hnw.
      destruct Hok as [Hkd _]. cbn [new_slot spsl shash] in Hkd.
      pose proof (home_lt (cap t) (H e) Hc) as Hhe.
      apply IH; [apply nxt_lt; auto|lia|]. split; cbn [new_slot spsl shash].
      * rewrite dist_nxt by (auto; lia). lia.
      * right. rewrite prd_nxt by auto. split; [exact Hocc|]. rewrite <- Ecur. lia.
  - (* free slot *)
    assert (Hocc : occupied (nth pos (tbl t) empty_slot) = false) by (rewrite <- Ecur; unfold occupied; rewrite Hsid; reflexivity).
    split; [discriminate|]. intros id t' E. unfold insert_at in E. injection E as <- <-. cbn [arena hits].
    split; [reflexivity|]. split; [|auto]. apply TI_insert; auto.
    + rewrite length_set_nth; auto.
    + apply RHloc_set_nth; auto. rewrite Hocc. discriminate.
    + pose proof (pays_set_nth (tbl t) pos (new_slot (length (arena t)) (H e) k) ltac:(lia)) as Hp.
      rewrite (pays1_occupied _ Hocc) in Hp. exact Hp.
Qed.

(* probing for an element that is in the arena: its id is found (the early exit cannot fire) *)
Lemma probe_present t i q :
  TI t -> i < length (arena t) -> q < cap t -> sid (nth q (tbl t) empty_slot) = Some i ->
  let e := nth i (arena t) 0%N in
  forall n fuel pos, n < fuel -> pos < cap t ->
    dist (cap t) (home (cap t) (H e)) pos + n = dist (cap t) (home (cap t) (H e)) q ->
    probe fuel t (H e) e false pos (dist (cap t) (home (cap t) (H e)) pos) = Ok (i, hit t) \/
    probe fuel t (H e) e false pos (dist (cap t) (home (cap t) (H e)) pos) = PslOverflow.
Proof.
  intros HTI Hi Hq Hsq e.
  pose proof HTI as (Hc & Hlen & HRH & Hperm & Hh & Hnd & Hl & Hlt).
  assert (Hoq : occupied (nth q (tbl t) empty_slot) = true) by (unfold occupied; rewrite Hsq; reflexivity).
  assert (Hhq : shash (nth q (tbl t) empty_slot) = H e).
  { apply Hh. apply In_pays. exists q. split; [lia|auto]. }
  pose proof (home_lt (cap t) (H e) Hc) as Hhe.
  assert (Hpq : spsl (nth q (tbl t) empty_slot) = dist (cap t) (home (cap t) (H e)) q).
  { destruct (HRH q Hq Hoq) as [Hd _]. rewrite Hd, Hhq. reflexivity. }
  pose proof (dist_lt _ _ q Hhe Hq) as Hdq.
  induction n as [|n IH]; intros fuel pos Hfuel Hpos Hd; (destruct fuel as [|fuel]; [lia|]).
  - assert (pos = q) by (apply (dist_inj (cap t) (home (cap t) (H e))); auto; lia). subst pos.
    cbn [probe]. rewrite Hsq, Hhq, N.eqb_refl. fold e. rewrite N.eqb_refl. left. reflexivity.
  - destruct (path _ _ _ q HRH Hhe Hq Hoq Hpq (S n) pos Hpos Hd) as [Hop Hge].
    cbn [probe]. rewrite (mod_nxt _ pos Hpos).
    remember (nth pos (tbl t) empty_slot) as cur eqn:Ecur.
    destruct (sid cur) as [id'|] eqn:Hsid; [|unfold occupied in Hop; rewrite Hsid in Hop; discriminate].
    destruct (N.eqb (H e) (shash cur) && (false || N.eqb (nth id' (arena t) 0%N) e)) eqn:Etest.
    + left. apply andb_prop in Etest. destruct Etest as [_ E2]. cbn [orb] in E2. apply N.eqb_eq in E2.
      assert (Hin : In (id', shash cur) (pays (tbl t))).
      { apply In_pays. exists pos. rewrite <- Ecur. split; [lia|auto]. }
      pose proof (TI_id_lt t _ _ HTI Hin) as Hidlt.
      assert (id' = i) by (apply (proj1 (NoDup_nth (arena t) 0%N) Hnd); auto). subst id'. reflexivity.
    + destruct (Nat.ltb_spec (spsl cur) (dist (cap t) (home (cap t) (H e)) pos)) as [Hlt'|_]; [lia|].
      destruct (Nat.leb psl_max _); [right; reflexivity|].
      assert (Hdn : dist (cap t) (home (cap t) (H e)) (nxt (cap t) pos) = S (dist (cap t) (home (cap t) (H e)) pos))
        by (apply dist_nxt; auto; lia).
      rewrite <- Hdn. apply IH; [lia|apply nxt_lt; auto|lia].
Qed.

Lemma TI_hit t : TI t -> TI (hit t).
Proof. intros HTI. exact HTI. Qed.

(* one call of get_or_insert_by_hash (H e) e false *)
Lemma goi_spec t e : TI t ->
  get_or_insert_by_hash true t (H e) e false <> OutOfFuel /\
  forall id t', get_or_insert_by_hash true t (H e) e false = Ok (id, t') ->
    TI t' /\ id < length (arena t') /\ nth id (arena t') 0%N = e /\
    ((In e (arena t) /\ arena t' = arena t /\ hits t' = S (hits t)) \/
     (~ In e (arena t) /\ arena t' = arena t ++ [e] /\ hits t' = hits t /\ id = length (arena t))).
Proof.
  intros HTI. unfold get_or_insert_by_hash.
  (* after the load test / growth: the same contents and room for one more *)
  assert (Hpre : (if needs_grow t then grow true t else Ok t) <> OutOfFuel /\
                 forall t1, (if needs_grow t then grow true t else Ok t) = Ok t1 ->
                   TI t1 /\ S (len t1) < cap t1 /\ arena t1 = arena t /\ hits t1 = hits t).
  { destruct (needs_grow t) eqn:Eg.
    - destruct (TI_grow t HTI) as [Hnf Hres]. split; [exact Hnf|]. intros t1 E.
      destruct (Hres t1 E) as (HTI1 & Ha & Hl & Hh & Hc).
      destruct HTI as (_ & _ & _ & _ & _ & _ & _ & Hlt).
      split; [exact HTI1|]. split; [lia|]. split; assumption.
    - split; [discriminate|]. intros t1 E. injection E as <-.
      unfold needs_grow in Eg. apply Nat.ltb_ge in Eg.
      split; [exact HTI|]. split; [|auto]. destruct HTI as (Hc & _).
      unfold load_num, load_den in Eg. lia. }
  destruct Hpre as [Hnf1 Hres1].
  destruct (if needs_grow t then grow true t else Ok t) as [t1| |];
    [|split; [discriminate|intros id t' E; discriminate]|congruence].
  destruct (Hres1 t1 eq_refl) as (HTI1 & Hload & Ha & Hhits). rewrite <- Ha, <- Hhits.
  pose proof HTI1 as (Hc & Hlen & HRH & Hperm & Hh & Hnd & Hl & Hlt).
  pose proof (home_lt (cap t1) (H e) Hc) as Hhe.
  destruct (in_dec N.eq_dec e (arena t1)) as [Hin|Hnin].
  - destruct (In_nth _ _ 0%N Hin) as (i & Hi & Ee).
    destruct (TI_stored t1 i HTI1 Hi) as (q & Hq & Hsq & _).
    pose proof (probe_present t1 i q HTI1 Hi Hq Hsq) as Hpp. cbv zeta in Hpp. rewrite Ee in Hpp.
    specialize (Hpp (dist (cap t1) (home (cap t1) (H e)) q) (S (cap t1)) (home (cap t1) (H e))).
    rewrite dist_refl in Hpp.
    pose proof (dist_lt _ _ q Hhe Hq).
    destruct Hpp as [Hpp|Hpp]; auto; try lia; rewrite Hpp.
    + split; [discriminate|]. intros id t' E. injection E as <- <-. cbn [hit arena hits].
      split; [apply TI_hit; exact HTI1|]. split; [exact Hi|]. split; [exact Ee|]. left. auto.
    + split; [discriminate|intros id t' E; discriminate].
  - destruct (TI_free t1 HTI1) as (f & Hf & Hfree).
    destruct (probe_absent t1 e f HTI1 Hload Hnin Hf Hfree (S (cap t1)) (home (cap t1) (H e)) 0) as [Hnf Hres]; auto.
    + pose proof (dist_lt _ _ f Hhe Hf). lia.
    + split; [|left; reflexivity]. cbn [new_slot spsl shash]. rewrite dist_refl. reflexivity.
    + split; [exact Hnf|]. intros id t' E. destruct (Hres id t' E) as (-> & HTI' & Ha' & Hh').
      split; [exact HTI'|]. rewrite Ha'. rewrite app_length. cbn [length].
      split; [lia|]. split; [rewrite app_nth2 by lia; rewrite Nat.sub_diag; reflexivity|].
      right. auto.
Qed.

(* a history of calls *)
Lemma run_spec : forall es t, TI t ->
  run true H t es <> OutOfFuel /\
  forall ids t', run true H t es = Ok (ids, t') ->
    TI t' /\ length ids = length es /\ (exists suf, arena t' = arena t ++ suf) /\
    (forall k, k < length es ->
       nth k ids 0 < length (arena t') /\ nth (nth k ids 0) (arena t') 0%N = nth k es 0%N) /\
    (forall x, In x (arena t') <-> In x (arena t) \/ In x es) /\
    hits t' + length (arena t') = hits t + length (arena t) + length es.
Proof.
  induction es as [|e r IH]; intros t HTI.
  - cbn [run]. split; [discriminate|]. intros ids t' E. injection E as <- <-.
    split; [exact HTI|]. split; [reflexivity|]. split; [exists []; rewrite app_nil_r; reflexivity|].
    split; [intros k Hk; simpl in Hk; lia|]. split; [intros x; simpl; tauto|simpl; lia].
  - cbn [run]. destruct (goi_spec t e HTI) as [Hnf1 Hres1].
    destruct (get_or_insert_by_hash true t (H e) e false) as [[id t1]| |];
      [|split; [discriminate|intros ids t' E; discriminate]|congruence].
    destruct (Hres1 id t1 eq_refl) as (HTI1 & Hid & Hnth & Hcase).
    destruct (IH t1 HTI1) as [Hnf2 Hres2].
    destruct (run true H t1 r) as [[ids2 t2]| |];
      [|split; [discriminate|intros ids t' E; discriminate]|congruence].
    split; [discriminate|]. intros ids t' E. injection E as <- <-.
    destruct (Hres2 ids2 t2 eq_refl) as (HTI2 & Hlen2 & [suf2 Hsuf2] & Hk2 & Hin2 & Hhits2).
    assert (Hsuf1 : exists suf1, arena t1 = arena t ++ suf1).
    { destruct Hcase as [(_ & Ha & _)|(_ & Ha & _)]; [exists []; rewrite app_nil_r; exact Ha|exists [e]; exact Ha]. }
    destruct Hsuf1 as [suf1 Hsuf1].
    split; [exact HTI2|]. split; [simpl; lia|].
    split; [exists (suf1 ++ suf2); rewrite Hsuf2, Hsuf1, app_assoc; reflexivity|]. split; [|split].
    + intros [|k] Hk; cbn [nth].
      * rewrite Hsuf2. rewrite app_length. split; [lia|]. rewrite app_nth1 by exact Hid. exact Hnth.
      * apply Hk2. simpl in Hk. lia.
    + intros x. rewrite Hin2. cbn [In].
      destruct Hcase as [(Hine & Ha & _)|(Hnine & Ha & _)]; rewrite Ha.
      * split; [tauto|]. intros [Hx|[<-|Hx]]; auto.
      * rewrite in_app_iff. cbn [In]. tauto.
    + cbn [length]. destruct Hcase as [(_ & Ha & Hh1)|(_ & Ha & Hh1 & _)]; rewrite Ha, Hh1 in Hhits2.
      * lia.
      * rewrite app_length in Hhits2. cbn [length] in Hhits2. lia.
Qed.

End WithHash.

(* ------------------------------------------------------------------------------------- *)
(* the refinement theorem                                                                *)

Theorem rh_refines_set : forall (H : N -> N) (c : nat) (es : list N) (ids : list nat) (t' : table),
  1 <= c -> run true H (new_table c) es = Ok (ids, t') ->
  length ids = length es /\
  (forall i j, i < length es -> j < length es ->
     (nth i ids 0 = nth j ids 0 <-> nth i es 0%N = nth j es 0%N)) /\
  (forall i, i < length es -> nth (nth i ids 0) (arena t') 0%N = nth i es 0%N) /\
  num_nodes t' = length (nodup N.eq_dec es) /\
  length (arena t') = length (nodup N.eq_dec es) /\
  hits t' + length (nodup N.eq_dec es) = length es.
Proof.
  intros H c es ids t' Hc Hrun.
  destruct (run_spec H es (new_table c) (TI_new H c Hc)) as [_ Hres].
  destruct (Hres ids t' Hrun) as (HTI & Hlen & _ & Hk & Hin & Hhits).
  destruct HTI as (_ & _ & _ & _ & _ & Hnd & Hl & _).
  split; [exact Hlen|]. split; [|split; [intros i Hi; apply Hk; exact Hi|]].
  - intros i j Hi Hj. destruct (Hk i Hi) as [Hil Hie]. destruct (Hk j Hj) as [Hjl Hje]. split.
    + intros E. rewrite <- Hie, <- Hje, E. reflexivity.
    + intros E. apply (proj1 (NoDup_nth (arena t') 0%N) Hnd); auto. rewrite Hie, Hje. exact E.
  - assert (Hperm : Permutation (arena t') (nodup N.eq_dec es)).
    { apply NoDup_Permutation; [exact Hnd|apply NoDup_nodup|].
      intros x. rewrite Hin, nodup_In. cbn [new_table arena In]. tauto. }
    apply Permutation_length in Hperm. unfold num_nodes. cbn [new_table hits arena length] in Hhits.
    split; [lia|]. split; lia.
Qed.

(* the only excluded error is the u8 overflow: probing and propagating never run out of fuel *)
Theorem rh_never_out_of_fuel : forall (H : N -> N) (c : nat) (es : list N),
  1 <= c -> run true H (new_table c) es <> OutOfFuel.
Proof. intros H c es Hc. apply (run_spec H es (new_table c) (TI_new H c Hc)). Qed.

(* ------------------------------------------------------------------------------------- *)
(* the arena is append-only: syntactic, for both grows, every argument, no invariant     *)

Lemma probe_arena : forall fuel t h e b pos k id t',
  probe fuel t h e b pos k = Ok (id, t') -> arena t' = arena t \/ arena t' = arena t ++ [e].
Proof.
  induction fuel as [|n IH]; intros t h e b pos k id t' E; [discriminate|].
  cbn [probe] in E. destruct (sid (nth pos (tbl t) empty_slot)) as [id'|].
  - destruct (_ && _).
    + injection E as <- <-. left. reflexivity.
    + destruct (Nat.ltb _ _).
      * destruct (propagate _ _ _ _ _); try discriminate. injection E as <- <-. right. reflexivity.
      * destruct (Nat.leb _ _); [discriminate|]. eapply IH; eauto.
  - injection E as <- <-. right. reflexivity.
Qed.

Lemma grow_arena fixed t t' : grow fixed t = Ok t' -> arena t' = arena t.
Proof.
  unfold grow. destruct (fold_left _ _ _); intros E; try discriminate. injection E as <-. reflexivity.
Qed.

Theorem arena_append_only_step : forall fixed t h e b id t',
  get_or_insert_by_hash fixed t h e b = Ok (id, t') -> exists suf, arena t' = arena t ++ suf.
Proof.
  intros fixed t h e b id t' E. unfold get_or_insert_by_hash in E.
  destruct (needs_grow t).
  - destruct (grow fixed t) as [t1| |] eqn:Eg; try discriminate.
    rewrite <- (grow_arena _ _ _ Eg). apply probe_arena in E.
    destruct E as [-> | ->]; [exists []; rewrite app_nil_r; reflexivity|eexists; reflexivity].
  - apply probe_arena in E.
    destruct E as [-> | ->]; [exists []; rewrite app_nil_r; reflexivity|eexists; reflexivity].
Qed.

Lemma get_by_hash_arena t h r t' : get_by_hash t h = Ok (r, t') -> arena t' = arena t.
Proof.
  unfold get_by_hash. destruct (lookup _ _ _ _ _) as [[id|]| |]; intros E; try discriminate;
    injection E as <- <-; reflexivity.
Qed.

Lemma run_app fixed H : forall es1 es2 t ids t',
  run fixed H t (es1 ++ es2) = Ok (ids, t') ->
  exists ids1 t1 ids2, run fixed H t es1 = Ok (ids1, t1) /\ run fixed H t1 es2 = Ok (ids2, t') /\
                       ids = ids1 ++ ids2.
Proof.
  induction es1 as [|e r IH]; intros es2 t ids t' E.
  - exists [], t, ids. auto.
  - cbn [app run] in *. destruct (get_or_insert_by_hash fixed t (H e) e false) as [[id t1]| |]; try discriminate.
    destruct (run fixed H t1 (r ++ es2)) as [[ids' t2]| |] eqn:E2; try discriminate.
    injection E as <- <-. destruct (IH es2 t1 ids' t2 E2) as (ids1 & t1' & ids2 & E1 & E3 & ->).
    rewrite E1. exists (id :: ids1), t1', ids2. auto.
Qed.

(* every id handed out denotes its element at the time it is handed out and at every later
   time, whatever happens in between (probing, robin-hood swaps, any number of growths) *)
Theorem arena_append_only : forall (H : N -> N) (c : nat) (es1 es2 : list N) (ids : list nat) (t' : table),
  1 <= c -> run true H (new_table c) (es1 ++ es2) = Ok (ids, t') ->
  exists ids1 t1 ids2,
    run true H (new_table c) es1 = Ok (ids1, t1) /\ ids = ids1 ++ ids2 /\
    (exists suf, arena t' = arena t1 ++ suf) /\
    forall k, k < length es1 ->
      nth k ids 0 = nth k ids1 0 /\ nth k ids1 0 < length (arena t1) /\
      nth (nth k ids1 0) (arena t1) 0%N = nth k es1 0%N /\
      nth (nth k ids1 0) (arena t') 0%N = nth k es1 0%N.
Proof.
  intros H c es1 es2 ids t' Hc Hrun.
  destruct (run_app true H es1 es2 _ _ _ Hrun) as (ids1 & t1 & ids2 & E1 & E2 & ->).
  exists ids1, t1, ids2. split; [exact E1|]. split; [reflexivity|].
  destruct (run_spec H es1 (new_table c) (TI_new H c Hc)) as [_ Hres1].
  destruct (Hres1 ids1 t1 E1) as (HTI1 & Hlen1 & _ & Hk1 & _ & _).
  destruct (run_spec H es2 t1 HTI1) as [_ Hres2].
  destruct (Hres2 ids2 t' E2) as (_ & _ & [suf Hsuf] & _ & _ & _).
  split; [exists suf; exact Hsuf|]. intros k Hk. destruct (Hk1 k Hk) as [Hlt Hnth].
  split; [rewrite app_nth1 by lia; reflexivity|]. split; [exact Hlt|]. split; [exact Hnth|].
  rewrite Hsuf, app_nth1 by exact Hlt. exact Hnth.
Qed.

(* ------------------------------------------------------------------------------------- *)
(* the pinned grow (ghost slots re-inserted, old psl carried over) breaks the refinement  *)

Definition rh_pinned_witness : list N := [0; 1; 0; 1]%N.

Theorem rh_refuted_pinned :
  exists ids t', run false (fun e => e) (new_table 2) rh_pinned_witness = Ok (ids, t') /\
    nth 1 rh_pinned_witness 0%N = nth 3 rh_pinned_witness 0%N /\ nth 1 ids 0 <> nth 3 ids 0 /\
    num_nodes t' = 3.
Proof.
  eexists. eexists. split; [vm_compute; reflexivity|]. split; [reflexivity|]. split; [|reflexivity].
  vm_compute. discriminate.
Qed.

(* the same history on the code as it is now *)
Example rh_fixed_same :
  exists t', run true (fun e => e) (new_table 2) rh_pinned_witness = Ok ([0; 1; 0; 1], t') /\ num_nodes t' = 2.
Proof. eexists. split; vm_compute; reflexivity. Qed.

(* ------------------------------------------------------------------------------------- *)
(* get_by_hash: the hash-only lookup                                                     *)

Lemma lookup_some : forall fuel t h pos k id,
  lookup fuel t h pos k = Ok (Some id) -> In (id, h) (pays (tbl t)).
Proof.
  induction fuel as [|n IH]; intros t h pos k id E; [discriminate|]. cbn [lookup] in E.
  remember (nth pos (tbl t) empty_slot) as cur eqn:Ecur.
  destruct (sid cur) as [id'|] eqn:Hsid; [|discriminate].
  destruct (N.eqb_spec h (shash cur)) as [Eh|_].
  - injection E as <-. apply In_pays. exists pos. rewrite <- Ecur.
    destruct (le_lt_dec (length (tbl t)) pos) as [Hge|Hlt]; [|auto].
    rewrite nth_overflow in Ecur by exact Hge. subst cur. discriminate.
  - destruct (Nat.ltb _ _); [discriminate|]. destruct (Nat.leb _ _); [discriminate|]. eapply IH; eauto.
Qed.

Lemma lookup_fuel t h f : f < cap t -> occupied (nth f (tbl t) empty_slot) = false ->
  forall fuel pos k, pos < cap t -> dist (cap t) pos f < fuel -> lookup fuel t h pos k <> OutOfFuel.
Proof.
  intros Hf Hfree. induction fuel as [|n IH]; intros pos k Hpos Hfuel; [lia|].
  cbn [lookup]. rewrite (mod_nxt _ pos Hpos).
  destruct (sid (nth pos (tbl t) empty_slot)) as [id'|] eqn:Hsid; [|discriminate].
  destruct (N.eqb _ _); [discriminate|]. destruct (Nat.ltb _ _); [discriminate|].
  destruct (Nat.leb _ _); [discriminate|].
  assert (Hpf : pos <> f) by (intros ->; unfold occupied in Hfree; rewrite Hsid in Hfree; discriminate).
  destruct (dist_from_nxt _ pos f Hpos Hf Hpf) as [Hdn Hdpos].
  apply IH; [apply nxt_lt; auto|lia].
Qed.

Lemma lookup_present H t i q :
  TI H t -> i < length (arena t) -> q < cap t -> sid (nth q (tbl t) empty_slot) = Some i ->
  let h := H (nth i (arena t) 0%N) in
  forall n fuel pos, n < fuel -> pos < cap t ->
    dist (cap t) (home (cap t) h) pos + n = dist (cap t) (home (cap t) h) q ->
    lookup fuel t h pos (dist (cap t) (home (cap t) h) pos) <> Ok None.
Proof.
  intros HTI Hi Hq Hsq h.
  pose proof HTI as (Hc & Hlen & HRH & Hperm & Hh & Hnd & Hl & Hlt).
  assert (Hoq : occupied (nth q (tbl t) empty_slot) = true) by (unfold occupied; rewrite Hsq; reflexivity).
  assert (Hhq : shash (nth q (tbl t) empty_slot) = h).
  { apply Hh. apply In_pays. exists q. split; [lia|auto]. }
  pose proof (home_lt (cap t) h Hc) as Hhe.
  assert (Hpq : spsl (nth q (tbl t) empty_slot) = dist (cap t) (home (cap t) h) q).
  { destruct (HRH q Hq Hoq) as [Hd _]. rewrite Hd, Hhq. reflexivity. }
  pose proof (dist_lt _ _ q Hhe Hq) as Hdq.
  induction n as [|n IH]; intros fuel pos Hfuel Hpos Hd; (destruct fuel as [|fuel]; [lia|]).
  - assert (pos = q) by (apply (dist_inj (cap t) (home (cap t) h)); auto; lia). subst pos.
    cbn [lookup]. rewrite Hsq, Hhq, N.eqb_refl. discriminate.
  - destruct (path _ _ _ q HRH Hhe Hq Hoq Hpq (S n) pos Hpos Hd) as [Hop Hge].
    cbn [lookup]. rewrite (mod_nxt _ pos Hpos).
    remember (nth pos (tbl t) empty_slot) as cur eqn:Ecur.
    destruct (sid cur) as [id'|] eqn:Hsid; [|unfold occupied in Hop; rewrite Hsid in Hop; discriminate].
    destruct (N.eqb h (shash cur)); [discriminate|].
    destruct (Nat.ltb_spec (spsl cur) (dist (cap t) (home (cap t) h) pos)) as [Hlt'|_]; [lia|].
    destruct (Nat.leb psl_max _); [discriminate|].
    assert (Hdn : dist (cap t) (home (cap t) h) (nxt (cap t) pos) = S (dist (cap t) (home (cap t) h) pos))
      by (apply dist_nxt; auto; lia).
    rewrite <- Hdn. apply IH; [lia|apply nxt_lt; auto|lia].
Qed.

Lemma get_by_hash_spec H t h : TI H t ->
  get_by_hash t h <> OutOfFuel /\
  (forall id t', get_by_hash t h = Ok (Some id, t') ->
     id < length (arena t) /\ H (nth id (arena t) 0%N) = h /\ t' = hit t) /\
  (forall t', get_by_hash t h = Ok (None, t') -> t' = t /\ forall x, In x (arena t) -> H x <> h).
Proof.
  intros HTI. pose proof HTI as (Hc & Hlen & HRH & Hperm & Hh & Hnd & Hl & Hlt).
  pose proof (home_lt (cap t) h Hc) as Hhe.
  destruct (TI_free H t HTI) as (f & Hf & Hfree).
  assert (Hnf : lookup (S (cap t)) t h (home (cap t) h) 0 <> OutOfFuel).
  { apply (lookup_fuel t h f Hf Hfree); auto. pose proof (dist_lt _ _ f Hhe Hf). lia. }
  unfold get_by_hash.
  destruct (lookup (S (cap t)) t h (home (cap t) h) 0) as [[id|]| |] eqn:El; [| | |congruence].
  - split; [discriminate|]. split; [|intros t' E; discriminate].
    intros id' t' E. injection E as <- <-. apply lookup_some in El.
    split; [eapply TI_id_lt; eauto|]. split; [symmetry; apply Hh; exact El|reflexivity].
  - split; [discriminate|]. split; [intros id' t' E; discriminate|].
    intros t' E. injection E as <-. split; [reflexivity|]. intros x Hin Ex.
    destruct (In_nth _ _ 0%N Hin) as (i & Hi & Ei).
    destruct (TI_stored H t i HTI Hi) as (q & Hq & Hsq & _).
    pose proof (lookup_present H t i q HTI Hi Hq Hsq) as Hlp. cbv zeta in Hlp. rewrite Ei, Ex in Hlp.
    specialize (Hlp (dist (cap t) (home (cap t) h) q) (S (cap t)) (home (cap t) h)).
    rewrite dist_refl in Hlp. pose proof (dist_lt _ _ q Hhe Hq). apply Hlp; auto; lia.
  - split; [discriminate|]. split; intros; discriminate.
Qed.

(* every table reached by a history of get_or_insert_by_hash calls satisfies the invariant *)
Lemma run_TI H c es ids t : 1 <= c -> run true H (new_table c) es = Ok (ids, t) ->
  TI H t /\ forall x, In x (arena t) <-> In x es.
Proof.
  intros Hc Hrun. destruct (run_spec H es (new_table c) (TI_new H c Hc)) as [_ Hres].
  destruct (Hres ids t Hrun) as (HTI & _ & _ & _ & Hin & _). split; [exact HTI|].
  intros x. rewrite Hin. cbn [new_table arena In]. tauto.
Qed.

Theorem rh_get_by_hash_spec : forall (H : N -> N) (c : nat) (es : list N) (ids : list nat) (t : table) (h : N),
  1 <= c -> run true H (new_table c) es = Ok (ids, t) ->
  get_by_hash t h <> OutOfFuel /\
  (forall id t', get_by_hash t h = Ok (Some id, t') ->
     id < length (arena t) /\ In (nth id (arena t) 0%N) es /\ H (nth id (arena t) 0%N) = h /\
     arena t' = arena t /\ tbl t' = tbl t) /\
  (forall t', get_by_hash t h = Ok (None, t') -> t' = t /\ forall x, In x es -> H x <> h).
Proof.
  intros H c es ids t h Hc Hrun. destruct (run_TI H c es ids t Hc Hrun) as [HTI Hin].
  destruct (get_by_hash_spec H t h HTI) as (Hnf & Hs & Hn). split; [exact Hnf|]. split.
  - intros id t' E. destruct (Hs id t' E) as (Hlt & Hh & ->).
    split; [exact Hlt|]. split; [apply Hin; apply nth_In; exact Hlt|]. auto.
  - intros t' E. destruct (Hn t' E) as [-> Hx]. split; [reflexivity|]. intros x Hxin. apply Hx. apply Hin. exact Hxin.
Qed.

(* ------------------------------------------------------------------------------------- *)
(* the psl guard is vacuous below 256 stored elements                                    *)

Lemma occupied_count : forall ps v, NoDup ps ->
  (forall p, In p ps -> p < length v /\ occupied (nth p v empty_slot) = true) ->
  length ps <= length (pays v).
Proof.
  induction ps as [|p ps IH]; intros v Hnd Hall; [simpl; lia|].
  inversion Hnd as [|? ? Hnin Hnd']; subst.
  destruct (Hall p (or_introl eq_refl)) as [Hp Hop].
  pose proof (pays_set_nth v p empty_slot Hp) as Hperm. apply Permutation_length in Hperm.
  rewrite !app_length in Hperm.
  assert (E1 : length (pays1 (nth p v empty_slot)) = 1).
  { unfold occupied in Hop. unfold pays1. destruct (sid (nth p v empty_slot)); [reflexivity|discriminate]. }
  change (length (pays1 empty_slot)) with 0 in Hperm.
  specialize (IH (set_nth v p empty_slot) Hnd').
  assert (length ps <= length (pays (set_nth v p empty_slot))).
  { apply IH. intros q Hq. destruct (Hall q (or_intror Hq)) as [Hql Hoq].
    rewrite length_set_nth. split; [exact Hql|].
    rewrite nth_set_nth_neq; [exact Hoq|]. intros ->. contradiction. }
  simpl. lia.
Qed.

Fixpoint pos_at (c h j : nat) : nat := match j with O => h | S j' => nxt c (pos_at c h j') end.

Lemma pos_at_spec c h : h < c -> forall j, j < c -> pos_at c h j < c /\ dist c h (pos_at c h j) = j.
Proof.
  intros Hh. induction j as [|j IH]; intros Hj; cbn [pos_at].
  - split; [exact Hh|apply dist_refl].
  - destruct (IH ltac:(lia)) as [Hlt Hd]. split; [apply nxt_lt; exact Hlt|].
    rewrite dist_nxt by (auto; lia). lia.
Qed.

(* an entry that has travelled d steps sits behind d other entries *)
Lemma psl_lt_count c v q : 1 <= c -> length v = c -> RHloc c v -> q < c ->
  occupied (nth q v empty_slot) = true -> S (spsl (nth q v empty_slot)) <= length (pays v).
Proof.
  intros Hc Hlen HRH Hq Hoq.
  destruct (HRH q Hq Hoq) as [Hd _]. set (h0 := home c (shash (nth q v empty_slot))) in *.
  pose proof (home_lt c (shash (nth q v empty_slot)) Hc) as Hh0. fold h0 in Hh0.
  pose proof (dist_lt c h0 q Hh0 Hq) as Hdq.
  set (d := spsl (nth q v empty_slot)) in *.
  set (ps := map (pos_at c h0) (seq 0 (S d))).
  assert (Hps : length ps = S d) by (unfold ps; rewrite map_length, seq_length; reflexivity).
  rewrite <- Hps. apply occupied_count.
  - apply (NoDup_map_inv (dist c h0)). unfold ps. rewrite map_map.
    rewrite (map_ext_in _ (fun j => j)); [rewrite map_id; apply seq_NoDup|].
    intros j Hj. apply in_seq in Hj. apply pos_at_spec; auto; lia.
  - intros p Hp. unfold ps in Hp. apply in_map_iff in Hp. destruct Hp as (j & <- & Hj).
    apply in_seq in Hj. destruct (pos_at_spec c h0 Hh0 j ltac:(lia)) as [Hlt Hdj].
    split; [lia|].
    apply (path c v h0 q HRH Hh0 Hq Hoq Hd (d - j) (pos_at c h0 j) Hlt). lia.
Qed.

Lemma pays_set_nth_length v p s : p < length v -> occupied s = true ->
  occupied (nth p v empty_slot) = true -> length (pays (set_nth v p s)) = length (pays v).
Proof.
  intros Hp Hs Ho. pose proof (pays_set_nth v p s Hp) as Hperm. apply Permutation_length in Hperm.
  rewrite !app_length in Hperm.
  assert (E1 : length (pays1 (nth p v empty_slot)) = 1).
  { unfold occupied in Ho. unfold pays1. destruct (sid (nth p v empty_slot)); [reflexivity|discriminate]. }
  assert (E2 : length (pays1 s) = 1).
  { unfold occupied in Hs. unfold pays1. destruct (sid s); [reflexivity|discriminate]. }
  lia.
Qed.

Lemma propagate_no_ovf c f : 1 <= c -> f < c ->
  forall fuel v s p,
  length v = c -> p < c -> RHloc c v -> occupied s = true -> slot_ok c v p s ->
  occupied (nth f v empty_slot) = false -> length (pays v) <= psl_max ->
  propagate fuel v c s p <> PslOverflow.
Proof.
  intros Hc Hf. induction fuel as [|n IH]; intros v s p Hlen Hp HRH Hs Hok Hfree Hcnt; [discriminate|].
  cbn [propagate]. rewrite (mod_nxt c p Hp).
  remember (nth p v empty_slot) as cur eqn:Ecur. destruct (occupied cur) eqn:Hocc; [|discriminate].
  assert (Hpf : p <> f) by (intros ->; congruence).
  assert (Hocc' : occupied (nth p v empty_slot) = true) by (rewrite <- Ecur; exact Hocc).
  pose proof (psl_lt_count c v p Hc Hlen HRH Hp Hocc') as Hpc. rewrite <- Ecur in Hpc.
  assert (Hnw : spsl cur + 2 <= c).
  { rewrite Ecur. apply (free_bound_nowrap c v f HRH Hf Hfree p Hp Hocc'). }
  assert (Hcd : spsl cur = dist c (home c (shash cur)) p).
  { rewrite Ecur. apply (HRH p Hp Hocc'). }
  destruct Hok as [Hsd Hsp].
  pose proof (home_lt c (shash cur) Hc) as Hhc. pose proof (home_lt c (shash s) Hc) as Hhs.
  destruct (Nat.ltb_spec (spsl cur) (spsl s)) as [Hlt|Hge].
  - destruct (Nat.leb_spec psl_max (spsl cur)) as [Hov|_]; [lia|].
    apply IH.
    + rewrite length_set_nth; auto.
    + apply nxt_lt; auto.
    + apply RHloc_set_nth; auto; [split; auto|]. rewrite <- Ecur. lia.
    + exact Hocc.
    + split.
      * cbn [bump spsl shash]. rewrite dist_nxt by (auto; lia). lia.
      * right. rewrite prd_nxt by auto. rewrite nth_set_nth_eq by lia.
        split; [exact Hs|]. cbn [bump spsl]. lia.
    + rewrite nth_set_nth_neq by auto. exact Hfree.
    + rewrite pays_set_nth_length; auto. lia.
  - destruct (Nat.leb_spec psl_max (spsl s)) as [Hov|_]; [lia|].
    apply IH; auto.
    + apply nxt_lt; auto.
    + split.
      * cbn [bump spsl shash]. rewrite dist_nxt by (auto; lia). lia.
      * right. rewrite prd_nxt by auto. rewrite <- Ecur.
        split; [exact Hocc|]. cbn [bump spsl]. lia.
Qed.

Lemma res_map_ovf {A B} (g : A -> B) r : res_map g r = PslOverflow -> r = PslOverflow.
Proof. destruct r; simpl; congruence. Qed.

Lemma propagate_then_overwrite_no_ovf c v f pos new :
  1 <= c -> length v = c -> RHloc c v -> f < c -> occupied (nth f v empty_slot) = false ->
  pos < c -> occupied (nth pos v empty_slot) = true -> occupied new = true ->
  slot_ok c v pos new -> spsl (nth pos v empty_slot) < spsl new ->
  length (pays v) + 1 <= psl_max ->
  propagate (S c) v c (nth pos v empty_slot) pos <> PslOverflow.
Proof.
  intros Hc Hlen HRH Hf Hfree Hpos Hocc Hnew Hok Hlt Hcnt.
  pose proof (psl_lt_count c v pos Hc Hlen HRH Hpos Hocc) as Hpc.
  remember (nth pos v empty_slot) as cur eqn:Ecur.
  cbn [propagate]. rewrite (mod_nxt c pos Hpos). rewrite <- Ecur, Hocc, Nat.ltb_irrefl.
  destruct (Nat.leb_spec psl_max (spsl cur)) as [Hov|_]; [lia|].
  assert (Hpf : pos <> f) by (intros ->; congruence).
  assert (Hnw : spsl cur + 2 <= c).
  { rewrite Ecur. apply (free_bound_nowrap c v f HRH Hf Hfree pos Hpos). rewrite <- Ecur. exact Hocc. }
  assert (Hcd : spsl cur = dist c (home c (shash cur)) pos).
  { rewrite Ecur. apply (HRH pos Hpos). rewrite <- Ecur. exact Hocc. }
  pose proof (home_lt c (shash cur) Hc) as Hhc.
  set (v0 := set_nth v pos new).
  assert (Hcomm : propagate c v0 c (bump cur) (nxt c pos)
                  = res_map (fun w => set_nth w pos new) (propagate c v c (bump cur) (nxt c pos))).
  { apply (propagate_comm c f pos new Hf Hpos); auto. { apply nxt_lt; auto. }
    rewrite dist_nxt_self by auto.
    pose proof (dist_lt c (nxt c pos) f (nxt_lt c pos Hpos) Hf).
    assert (dist c (nxt c pos) f <> c - 1).
    { intros E. rewrite <- (dist_nxt_self c pos Hpos) in E.
      apply dist_inj in E; auto. apply nxt_lt; auto. }
    lia. }
  assert (Hno : propagate c v0 c (bump cur) (nxt c pos) <> PslOverflow).
  { apply (propagate_no_ovf c f Hc Hf).
    - unfold v0. rewrite length_set_nth; auto.
    - apply nxt_lt; auto.
    - unfold v0. apply RHloc_set_nth; auto. rewrite <- Ecur. lia.
    - exact Hocc.
    - split.
      + cbn [bump spsl shash]. rewrite dist_nxt by (auto; lia). lia.
      + right. rewrite prd_nxt by auto. unfold v0. rewrite nth_set_nth_eq by lia.
        split; [exact Hnew|]. cbn [bump spsl]. lia.
    - unfold v0. rewrite nth_set_nth_neq by auto. exact Hfree.
    - unfold v0. rewrite pays_set_nth_length; auto; [lia|lia|rewrite <- Ecur; exact Hocc]. }
  intros E. apply Hno. rewrite Hcomm, E. reflexivity.
Qed.

Lemma grow_fold_no_ovf c : 1 <= c -> forall l acc,
  length acc = c -> RHloc c acc -> length (pays acc) + length (pays l) < c ->
  length (pays acc) + length (pays l) <= psl_max ->
  fold_left (grow_step true c) l (Ok acc) <> PslOverflow.
Proof.
  intros Hc. induction l as [|x l IH]; intros acc Hlen HRH Hcnt Hsmall; [discriminate|].
  cbn [fold_left grow_step].
  change (pays (x :: l)) with (pays1 x ++ pays l) in *. rewrite app_length in Hcnt, Hsmall.
  destruct (occupied x) eqn:Hox.
  - destruct (exists_free acc) as (f & Hf & Hfree); [lia|]. rewrite Hlen in Hf.
    set (s0 := {| sid := sid x; shash := shash x; spsl := 0 |}).
    assert (Hp1 : pays1 s0 = pays1 x) by reflexivity.
    assert (E1 : length (pays1 x) = 1).
    { unfold occupied in Hox. unfold pays1. destruct (sid x); [reflexivity|discriminate]. }
    assert (Hok0 : slot_ok c acc (home c (shash x)) s0).
    { split; [|left; reflexivity]. cbn [s0 spsl shash]. rewrite dist_refl. reflexivity. }
    pose proof (home_lt c (shash x) Hc) as Hhx.
    destruct (propagate_ok c f Hc Hf (S c) acc s0 (home c (shash x))) as [Hnf Hres]; auto.
    { pose proof (dist_lt c (home c (shash x)) f Hhx Hf). lia. }
    pose proof (propagate_no_ovf c f Hc Hf (S c) acc s0 (home c (shash x)) Hlen Hhx HRH Hox Hok0 Hfree ltac:(lia)) as Hno.
    destruct (propagate (S c) acc c s0 (home c (shash x))) as [acc'| |] eqn:E; [|congruence|congruence].
    destruct (Hres _ eq_refl) as (Hl & Hr & Hperm). rewrite Hp1 in Hperm.
    pose proof (Permutation_length Hperm) as Hpl. rewrite app_length in Hpl.
    apply IH; auto; lia.
  - rewrite (pays1_occupied x Hox) in *. simpl in *. apply IH; auto.
Qed.

Section NoOverflow.
Variable H : N -> N.

Lemma TI_grow_no_ovf t : TI H t -> len t <= psl_max -> grow true t <> PslOverflow.
Proof.
  intros HTI Hsmall. pose proof (TI_pays_length H t HTI) as Hpl.
  destruct HTI as (Hc & Hlen & HRH & Hperm & Hh & Hnd & Hl & Hlt).
  unfold grow. pose proof (next_pow2_ge (cap t + 1)) as Hge.
  set (c' := next_pow2 (cap t + 1)) in *.
  pose proof (grow_fold_no_ovf c' ltac:(lia) (tbl t) (repeat empty_slot c')) as Hno.
  rewrite pays_repeat_empty in Hno. simpl in Hno.
  specialize (Hno (repeat_length _ _) (RHloc_empty c') ltac:(lia) ltac:(lia)).
  destruct (fold_left (grow_step true c') (tbl t) (Ok (repeat empty_slot c'))); congruence.
Qed.

Lemma probe_absent_no_ovf t e f :
  TI H t -> ~ In e (arena t) -> len t + 1 <= psl_max ->
  f < cap t -> occupied (nth f (tbl t) empty_slot) = false ->
  forall fuel pos k, pos < cap t ->
    slot_ok (cap t) (tbl t) pos (new_slot (length (arena t)) (H e) k) ->
    probe fuel t (H e) e false pos k <> PslOverflow.
Proof.
  intros HTI Hnin Hsmall Hf Hfree. pose proof (TI_pays_length H t HTI) as Hpl.
  pose proof HTI as (Hc & Hlen & HRH & Hperm & Hh & Hnd & Hl & Hlt).
  induction fuel as [|n IH]; intros pos k Hpos Hok; [discriminate|].
  cbn [probe]. rewrite (mod_nxt _ pos Hpos).
  remember (nth pos (tbl t) empty_slot) as cur eqn:Ecur.
  destruct (sid cur) as [id'|] eqn:Hsid; [|discriminate].
  assert (Hocc : occupied (nth pos (tbl t) empty_slot) = true) by (rewrite <- Ecur; unfold occupied; rewrite Hsid; reflexivity).
  destruct (N.eqb (H e) (shash cur) && (false || N.eqb (nth id' (arena t) 0%N) e)); [discriminate|].
  pose proof (psl_lt_count _ _ pos Hc Hlen HRH Hpos Hocc) as Hpc. rewrite <- Ecur in Hpc.
  destruct (Nat.ltb_spec (spsl cur) k) as [Hlt'|Hge].
  - pose proof (propagate_then_overwrite_no_ovf (cap t) (tbl t) f pos (new_slot (length (arena t)) (H e) k)
                  Hc Hlen HRH Hf Hfree Hpos Hocc eq_refl Hok) as Hno.
    rewrite <- Ecur in Hno. specialize (Hno Hlt' ltac:(lia)).
    destruct (propagate (S (cap t)) (tbl t) (cap t) cur pos); congruence.
  - destruct (Nat.leb_spec psl_max k) as [Hov|_]; [lia|].
    assert (Hpf : pos <> f) by (intros ->; congruence).
    pose proof (free_bound_nowrap _ _ f HRH Hf Hfree pos Hpos Hocc) as Hnw. rewrite <- Ecur in Hnw.
    destruct Hok as [Hkd _]. cbn [new_slot spsl shash] in Hkd.
    pose proof (home_lt (cap t) (H e) Hc) as Hhe.
    apply IH; [apply nxt_lt; auto|]. split; cbn [new_slot spsl shash].
    + rewrite dist_nxt by (auto; lia). lia.
    + right. rewrite prd_nxt by auto. split; [exact Hocc|]. rewrite <- Ecur. lia.
Qed.

Lemma probe_present_no_ovf t i q :
  TI H t -> i < length (arena t) -> q < cap t -> sid (nth q (tbl t) empty_slot) = Some i ->
  len t <= psl_max ->
  let e := nth i (arena t) 0%N in
  forall n fuel pos, pos < cap t ->
    dist (cap t) (home (cap t) (H e)) pos + n = dist (cap t) (home (cap t) (H e)) q ->
    probe fuel t (H e) e false pos (dist (cap t) (home (cap t) (H e)) pos) <> PslOverflow.
Proof.
  intros HTI Hi Hq Hsq Hsmall e. pose proof (TI_pays_length H t HTI) as Hpl.
  pose proof HTI as (Hc & Hlen & HRH & Hperm & Hh & Hnd & Hl & Hlt).
  assert (Hoq : occupied (nth q (tbl t) empty_slot) = true) by (unfold occupied; rewrite Hsq; reflexivity).
  assert (Hhq : shash (nth q (tbl t) empty_slot) = H e).
  { apply Hh. apply In_pays. exists q. split; [lia|auto]. }
  pose proof (home_lt (cap t) (H e) Hc) as Hhe.
  assert (Hpq : spsl (nth q (tbl t) empty_slot) = dist (cap t) (home (cap t) (H e)) q).
  { destruct (HRH q Hq Hoq) as [Hd _]. rewrite Hd, Hhq. reflexivity. }
  pose proof (dist_lt _ _ q Hhe Hq) as Hdq.
  induction n as [|n IH]; intros fuel pos Hpos Hd; (destruct fuel as [|fuel]; [discriminate|]).
  - assert (pos = q) by (apply (dist_inj (cap t) (home (cap t) (H e))); auto; lia). subst pos.
    cbn [probe]. rewrite Hsq, Hhq, N.eqb_refl. fold e. rewrite N.eqb_refl. discriminate.
  - destruct (path _ _ _ q HRH Hhe Hq Hoq Hpq (S n) pos Hpos Hd) as [Hop Hge].
    pose proof (psl_lt_count _ _ pos Hc Hlen HRH Hpos Hop) as Hpc.
    cbn [probe]. rewrite (mod_nxt _ pos Hpos).
    remember (nth pos (tbl t) empty_slot) as cur eqn:Ecur.
    destruct (sid cur) as [id'|] eqn:Hsid; [|discriminate].
    destruct (N.eqb (H e) (shash cur) && (false || N.eqb (nth id' (arena t) 0%N) e)); [discriminate|].
    destruct (Nat.ltb_spec (spsl cur) (dist (cap t) (home (cap t) (H e)) pos)) as [Hlt'|_]; [lia|].
    destruct (Nat.leb_spec psl_max (dist (cap t) (home (cap t) (H e)) pos)) as [Hov|_]; [lia|].
    assert (Hdn : dist (cap t) (home (cap t) (H e)) (nxt (cap t) pos) = S (dist (cap t) (home (cap t) (H e)) pos))
      by (apply dist_nxt; auto; lia).
    rewrite <- Hdn. apply IH; [apply nxt_lt; auto|lia].
Qed.

Lemma goi_no_ovf t e : TI H t ->
  (In e (arena t) -> len t <= psl_max) -> (~ In e (arena t) -> len t + 1 <= psl_max) ->
  get_or_insert_by_hash true t (H e) e false <> PslOverflow.
Proof.
  intros HTI Hs1 Hs2. unfold get_or_insert_by_hash.
  assert (Hsmall : len t <= psl_max).
  { destruct (in_dec N.eq_dec e (arena t)) as [Hin|Hnin]; [auto|specialize (Hs2 Hnin); lia]. }
  assert (Hpre : (if needs_grow t then grow true t else Ok t) <> PslOverflow /\
                 forall t1, (if needs_grow t then grow true t else Ok t) = Ok t1 ->
                   TI H t1 /\ S (len t1) < cap t1 /\ arena t1 = arena t /\ len t1 = len t).
  { destruct (needs_grow t) eqn:Eg.
    - split; [apply TI_grow_no_ovf; auto|]. intros t1 E.
      destruct (TI_grow H t HTI) as [_ Hres].
      destruct (Hres t1 E) as (HTI1 & Ha & Hl & Hh & Hc).
      destruct HTI as (_ & _ & _ & _ & _ & _ & _ & Hlt).
      split; [exact HTI1|]. split; [lia|]. split; assumption.
    - split; [discriminate|]. intros t1 E. injection E as <-.
      unfold needs_grow in Eg. apply Nat.ltb_ge in Eg.
      split; [exact HTI|]. split; [|auto]. destruct HTI as (Hc & _).
      unfold load_num, load_den in Eg. lia. }
  destruct Hpre as [Hno1 Hres1].
  destruct (if needs_grow t then grow true t else Ok t) as [t1| |]; [|congruence|discriminate].
  destruct (Hres1 t1 eq_refl) as (HTI1 & Hload & Ha & Hlen1). rewrite <- Ha in Hs1, Hs2. rewrite <- Hlen1 in Hs1, Hs2.
  pose proof HTI1 as (Hc & Hlen & HRH & Hperm & Hh & Hnd & Hl & Hlt).
  pose proof (home_lt (cap t1) (H e) Hc) as Hhe.
  destruct (in_dec N.eq_dec e (arena t1)) as [Hin|Hnin].
  - destruct (In_nth _ _ 0%N Hin) as (i & Hi & Ee).
    destruct (TI_stored H t1 i HTI1 Hi) as (q & Hq & Hsq & _).
    pose proof (probe_present_no_ovf t1 i q HTI1 Hi Hq Hsq (Hs1 Hin)) as Hpp. cbv zeta in Hpp. rewrite Ee in Hpp.
    specialize (Hpp (dist (cap t1) (home (cap t1) (H e)) q) (S (cap t1)) (home (cap t1) (H e))).
    rewrite dist_refl in Hpp. apply Hpp; auto.
  - destruct (TI_free H t1 HTI1) as (f & Hf & Hfree).
    apply (probe_absent_no_ovf t1 e f HTI1 Hnin (Hs2 Hnin) Hf Hfree); auto.
    split; [|left; reflexivity]. cbn [new_slot spsl shash]. rewrite dist_refl. reflexivity.
Qed.

Lemma nodup_length_ext (l1 l2 : list N) : (forall x, In x l1 <-> In x l2) ->
  length (nodup N.eq_dec l1) = length (nodup N.eq_dec l2).
Proof.
  intros Hx. apply Permutation_length. apply NoDup_Permutation; try apply NoDup_nodup.
  intros x. rewrite !nodup_In. apply Hx.
Qed.

Lemma run_no_ovf : forall es t, TI H t ->
  length (nodup N.eq_dec (arena t ++ es)) <= psl_max -> run true H t es <> PslOverflow.
Proof.
  induction es as [|e r IH]; intros t HTI Hsmall; [discriminate|].
  cbn [run]. destruct (goi_spec H t e HTI) as [Hnf1 Hres1].
  pose proof HTI as (_ & _ & _ & _ & _ & Hnd & Hl & _).
  assert (Hno1 : get_or_insert_by_hash true t (H e) e false <> PslOverflow).
  { apply goi_no_ovf; auto.
    - intros _. rewrite Hl. etransitivity; [|exact Hsmall].
      apply NoDup_incl_length; [exact Hnd|]. intros x Hx. apply nodup_In. apply in_or_app. auto.
    - intros Hnin. rewrite Hl. etransitivity; [|exact Hsmall].
      replace (length (arena t) + 1) with (length (e :: arena t)) by (simpl; lia).
      apply NoDup_incl_length; [constructor; assumption|].
      intros x [<-|Hx]; apply nodup_In; apply in_or_app; [right; left; reflexivity|auto]. }
  destruct (get_or_insert_by_hash true t (H e) e false) as [[id t1]| |]; [|congruence|congruence].
  destruct (Hres1 id t1 eq_refl) as (HTI1 & Hid & Hnth & Hcase).
  assert (Hno2 : run true H t1 r <> PslOverflow).
  { apply IH; [exact HTI1|]. rewrite (nodup_length_ext _ (arena t ++ e :: r)); [exact Hsmall|].
    intros x. rewrite !in_app_iff. cbn [In].
    destruct Hcase as [(Hine & Ha & _)|(Hnine & Ha & _)]; rewrite Ha.
    - split; [tauto|]. intros [Hx|[<-|Hx]]; auto.
    - rewrite in_app_iff. cbn [In]. tauto. }
  destruct (run true H t1 r) as [[ids2 t2]| |]; congruence.
Qed.

End NoOverflow.

(* below 256 distinct elements the guard is vacuous: every call returns *)
Theorem rh_total_small : forall (H : N -> N) (c : nat) (es : list N),
  1 <= c -> length (nodup N.eq_dec es) <= psl_max ->
  exists ids t', run true H (new_table c) es = Ok (ids, t').
Proof.
  intros H c es Hc Hsmall.
  pose proof (run_no_ovf H es (new_table c) (TI_new H c Hc) Hsmall) as Hno.
  pose proof (rh_never_out_of_fuel H c es Hc) as Hnf.
  destruct (run true H (new_table c) es) as [[ids t']| |]; [eauto|congruence|congruence].
Qed.
