(* C02, store layer: the robin-hood unique table refines "finite set with stable identities
   over an append-only arena".  See DESIGN.md §3 C02 (P). *)
From Coq Require Import Bool NArith List Lia Arith Permutation.
Import ListNotations.
From RsddV Require Import Base.Util Generated.Constants Model.RobinHood.

(* ------------------------------------------------------------------------------------- *)
(* cyclic arithmetic on [0, c): successor, predecessor, distance -- explicit case forms  *)

Definition nxt (c p : nat) : nat := if Nat.eqb (S p) c then 0 else S p.
Definition prd (c p : nat) : nat := if Nat.eqb p 0 then c - 1 else p - 1.
(* number of steps from h forward to p *)
Definition dist (c h p : nat) : nat := if Nat.leb h p then p - h else p + c - h.

Ltac cyc :=
  unfold nxt, prd, dist in *;
  repeat match goal with
         | |- context [Nat.eqb ?a ?b] => destruct (Nat.eqb_spec a b)
         | |- context [Nat.leb ?a ?b] => destruct (Nat.leb_spec a b)
         | H : context [Nat.eqb ?a ?b] |- _ => destruct (Nat.eqb_spec a b)
         | H : context [Nat.leb ?a ?b] |- _ => destruct (Nat.leb_spec a b)
         end; try lia.

Lemma mod_nxt c p : p < c -> (p + 1) mod c = nxt c p.
Proof.
  intros Hp. unfold nxt. destruct (Nat.eqb_spec (S p) c) as [E|E].
  - replace (p + 1) with c by lia. apply Nat.mod_same. lia.
  - rewrite Nat.mod_small by lia. lia.
Qed.

Lemma nxt_lt c p : p < c -> nxt c p < c.            Proof. intros; cyc. Qed.
Lemma prd_lt c p : p < c -> prd c p < c.            Proof. intros; cyc. Qed.
Lemma nxt_prd c p : p < c -> nxt c (prd c p) = p.   Proof. intros; cyc. Qed.
Lemma prd_nxt c p : p < c -> prd c (nxt c p) = p.   Proof. intros; cyc. Qed.
Lemma dist_lt c h p : h < c -> p < c -> dist c h p < c.   Proof. intros; cyc. Qed.
Lemma dist_refl c h : dist c h h = 0.               Proof. cyc. Qed.
Lemma dist_0 c h p : h < c -> p < c -> dist c h p = 0 -> p = h.   Proof. intros; cyc. Qed.
Lemma dist_inj c h p q : h < c -> p < c -> q < c -> dist c h p = dist c h q -> p = q.
Proof. intros; cyc. Qed.
Lemma dist_nxt c h p : h < c -> p < c -> dist c h p + 1 < c -> dist c h (nxt c p) = S (dist c h p).
Proof. intros; cyc. Qed.
Lemma dist_prd c h p : h < c -> p < c -> p <> h -> dist c h (prd c p) = dist c h p - 1 /\ 0 < dist c h p.
Proof. intros; cyc. Qed.
Lemma dist_from_nxt c p f : p < c -> f < c -> p <> f -> dist c (nxt c p) f = dist c p f - 1 /\ 0 < dist c p f.
Proof. intros; cyc. Qed.
Lemma prd_self c p : p < c -> prd c p = p -> c = 1.   Proof. intros; cyc. Qed.
Lemma dist_nxt_self c p : p < c -> dist c (nxt c p) p = c - 1.   Proof. intros; cyc. Qed.

Lemma home_lt c h : 1 <= c -> home c h < c.
Proof.
  intros Hc. unfold home.
  assert (Hn : (N.of_nat c <> 0)%N) by lia.
  pose proof (N.mod_upper_bound h _ Hn). lia.
Qed.

(* ------------------------------------------------------------------------------------- *)
(* contents of a slot array: the (arena id, hash) pairs of the occupied slots            *)

Definition pays1 (s : slot) : list (nat * N) :=
  match sid s with Some i => [(i, shash s)] | None => [] end.
Definition pays (v : list slot) : list (nat * N) := flat_map pays1 v.

Lemma pays_set_nth v p s : p < length v ->
  Permutation (pays1 s ++ pays v) (pays1 (nth p v empty_slot) ++ pays (set_nth v p s)).
Proof.
  revert p; induction v as [|x v IH]; intros [|p] Hp; simpl in *; try lia.
  - rewrite !app_assoc. apply Permutation_app_tail. apply Permutation_app_comm.
  - etransitivity; [apply Permutation_app_swap_app|].
    etransitivity; [|apply Permutation_app_swap_app].
    apply Permutation_app_head. apply IH. lia.
Qed.

Lemma In_pays v i h :
  In (i, h) (pays v) <->
  exists p, p < length v /\ sid (nth p v empty_slot) = Some i /\ shash (nth p v empty_slot) = h.
Proof.
  unfold pays. rewrite in_flat_map. split.
  - intros (x & Hx & Hin). destruct (In_nth _ _ empty_slot Hx) as (p & Hp & E).
    exists p. rewrite E. unfold pays1 in Hin. destruct (sid x) as [j|]; simpl in Hin; [|tauto].
    destruct Hin as [Hin|[]]. injection Hin as -> ->. auto.
  - intros (p & Hp & Hi & Hh). exists (nth p v empty_slot). split; [apply nth_In; exact Hp|].
    unfold pays1. rewrite Hi, Hh. left; reflexivity.
Qed.

Lemma pays_repeat_empty c : pays (repeat empty_slot c) = [].
Proof. induction c as [|c IH]; simpl; auto. Qed.

Lemma exists_free v : length (pays v) < length v ->
  exists f, f < length v /\ occupied (nth f v empty_slot) = false.
Proof.
  induction v as [|x v IH]; simpl; [lia|]. intros Hl.
  destruct (occupied x) eqn:Ex.
  - unfold occupied in Ex. unfold pays1 in Hl. destruct (sid x); [|discriminate].
    simpl in Hl. destruct IH as (f & Hf & Ef); [lia|]. exists (S f). split; [lia|exact Ef].
  - exists 0. split; [lia|exact Ex].
Qed.

Lemma pays1_occupied s : occupied s = false -> pays1 s = [].
Proof. unfold occupied, pays1. destruct (sid s); [discriminate|reflexivity]. Qed.

Lemma pays1_bump s : pays1 (bump s) = pays1 s.
Proof. reflexivity. Qed.

(* ------------------------------------------------------------------------------------- *)
(* the robin-hood invariant, in local form                                               *)

(* slot content [s] is in order at position [p] of [v]: (i) its psl is its cyclic distance
   from its home slot; (ii') unless it sits at home, its predecessor is occupied by an entry
   at most one step "richer" (smaller psl). *)
Definition slot_ok (c : nat) (v : list slot) (p : nat) (s : slot) : Prop :=
  spsl s = dist c (home c (shash s)) p /\
  (spsl s = 0 \/
   (occupied (nth (prd c p) v empty_slot) = true /\ spsl s <= S (spsl (nth (prd c p) v empty_slot)))).

Definition RHloc (c : nat) (v : list slot) : Prop :=
  forall p, p < c -> occupied (nth p v empty_slot) = true -> slot_ok c v p (nth p v empty_slot).

Lemma RHloc_empty c : RHloc c (repeat empty_slot c).
Proof.
  intros p Hp Ho. rewrite nth_repeat_lt in Ho. destruct (Nat.ltb p c); discriminate.
Qed.

(* overwriting a slot by an entry that is in order there and not richer than the incumbent *)
Lemma RHloc_set_nth c v p s :
  length v = c -> p < c -> RHloc c v -> occupied s = true -> slot_ok c v p s ->
  (occupied (nth p v empty_slot) = true -> spsl (nth p v empty_slot) <= spsl s) ->
  RHloc c (set_nth v p s).
Proof.
  intros Hlen Hp HRH Hs [Hd Hpred] Hinc q Hq Hoq.
  destruct (Nat.eq_dec q p) as [->|Hqp].
  - rewrite nth_set_nth_eq by lia. split; [exact Hd|].
    destruct (Nat.eq_dec (prd c p) p) as [Epp|Npp].
    + left. rewrite Hd. pose proof (prd_self c p Hp Epp) as ->.
      assert (p = 0) by lia. subst p. pose proof (home_lt 1 (shash s) (le_n 1)).
      replace (home 1 (shash s)) with 0 by lia. reflexivity.
    + rewrite nth_set_nth_neq by auto. exact Hpred.
  - rewrite nth_set_nth_neq in * by auto.
    destruct (HRH q Hq Hoq) as [Hd' Hpred']. split; [exact Hd'|].
    destruct Hpred' as [Hz|[Hop Hle]]; [left; exact Hz|]. right.
    destruct (Nat.eq_dec (prd c q) p) as [Epq|Npq].
    + rewrite Epq in *. rewrite nth_set_nth_eq by lia. split; [exact Hs|].
      specialize (Hinc Hop). lia.
    + rewrite nth_set_nth_neq by auto. split; assumption.
Qed.

(* a free slot bounds every psl: an entry at q has travelled less than the distance from any
   free slot to q.  In particular every psl is < c - 1, so bumping never wraps around. *)
Lemma free_bound c v f : RHloc c v -> f < c -> occupied (nth f v empty_slot) = false ->
  forall q, q < c -> occupied (nth q v empty_slot) = true -> spsl (nth q v empty_slot) < dist c f q.
Proof.
  intros HRH Hf Hfree.
  assert (G : forall n q, dist c f q = n -> q < c -> occupied (nth q v empty_slot) = true ->
                          spsl (nth q v empty_slot) < n).
  { induction n as [|n IH]; intros q Hd Hq Hoq.
    - apply dist_0 in Hd; auto. subst q. congruence.
    - destruct (HRH q Hq Hoq) as [_ [Hz|[Hop Hle]]]; [lia|].
      assert (Hne : q <> f) by (intros ->; rewrite dist_refl in Hd; discriminate).
      destruct (dist_prd c f q Hf Hq Hne) as [Hdp _].
      specialize (IH (prd c q) ltac:(lia) (prd_lt c q Hq) Hop). lia. }
  intros q Hq Hoq. eapply G; eauto.
Qed.

Lemma free_bound_nowrap c v f : RHloc c v -> f < c -> occupied (nth f v empty_slot) = false ->
  forall q, q < c -> occupied (nth q v empty_slot) = true -> spsl (nth q v empty_slot) + 2 <= c.
Proof.
  intros HRH Hf Hfree q Hq Hoq.
  pose proof (free_bound c v f HRH Hf Hfree q Hq Hoq). pose proof (dist_lt c f q Hf Hq). lia.
Qed.

(* ------------------------------------------------------------------------------------- *)
(* propagate: carrying an entry [s] that is in order at [p] forward to the first free slot *)

Lemma occupied_bump s : occupied (bump s) = occupied s.
Proof. reflexivity. Qed.

Lemma propagate_ok c f : 1 <= c -> f < c ->
  forall fuel v s p,
  length v = c -> p < c -> RHloc c v -> occupied s = true -> slot_ok c v p s ->
  occupied (nth f v empty_slot) = false -> dist c p f < fuel ->
  propagate fuel v c s p <> OutOfFuel /\
  forall w, propagate fuel v c s p = Ok w ->
    length w = c /\ RHloc c w /\ Permutation (pays1 s ++ pays v) (pays w).
Proof.
  intros Hc Hf. induction fuel as [|n IH]; intros v s p Hlen Hp HRH Hs Hok Hfree Hfuel; [lia|].
  cbn [propagate]. rewrite (mod_nxt c p Hp).
  remember (nth p v empty_slot) as cur eqn:Ecur. destruct (occupied cur) eqn:Hocc.
  - assert (Hpf : p <> f) by (intros ->; congruence).
    destruct (dist_from_nxt c p f Hp Hf Hpf) as [Hdn Hdpos].
    assert (Hnw : spsl cur + 2 <= c).
    { rewrite Ecur. apply (free_bound_nowrap c v f HRH Hf Hfree p Hp). rewrite <- Ecur. exact Hocc. }
    assert (Hcd : spsl cur = dist c (home c (shash cur)) p).
    { rewrite Ecur. apply (HRH p Hp). rewrite <- Ecur. exact Hocc. }
    destruct Hok as [Hsd Hsp].
    pose proof (home_lt c (shash cur) Hc) as Hhc. pose proof (home_lt c (shash s) Hc) as Hhs.
    pose proof (pays_set_nth v p s ltac:(lia)) as Hpset. rewrite <- Ecur in Hpset.
    destruct (Nat.ltb_spec (spsl cur) (spsl s)) as [Hlt|Hge].
    + (* swap: s takes the slot, the incumbent travels on *)
      destruct (Nat.leb psl_max (spsl cur)); [split; [discriminate|intros w E; discriminate]|].
      assert (HRH' : RHloc c (set_nth v p s)).
      { apply RHloc_set_nth; auto; [split; auto|]. rewrite <- Ecur. lia. }
      destruct (IH (set_nth v p s) (bump cur) (nxt c p)) as [Hnf Hres].
      * rewrite length_set_nth; auto.
      * apply nxt_lt; auto.
      * exact HRH'.
      * exact Hocc.
      * split.
        -- cbn [bump spsl shash]. rewrite dist_nxt by (auto; lia). lia.
        -- right. rewrite prd_nxt by auto. rewrite nth_set_nth_eq by lia.
           split; [exact Hs|]. cbn [bump spsl]. lia.
      * rewrite nth_set_nth_neq by auto. exact Hfree.
      * lia.
      * split; [exact Hnf|]. intros w E. destruct (Hres w E) as (Hl & Hr & Hperm).
        split; [exact Hl|]. split; [exact Hr|]. rewrite pays1_bump in Hperm.
        etransitivity; [exact Hpset|exact Hperm].
    + (* no swap: s travels on *)
      destruct (Nat.leb psl_max (spsl s)); [split; [discriminate|intros w E; discriminate]|].
      destruct (IH v (bump s) (nxt c p)) as [Hnf Hres]; auto.
      * apply nxt_lt; auto.
      * split.
        -- cbn [bump spsl shash]. rewrite dist_nxt by (auto; lia). lia.
        -- right. rewrite prd_nxt by auto. rewrite <- Ecur.
           split; [exact Hocc|]. cbn [bump spsl]. lia.
      * lia.
  - split; [discriminate|]. intros w E. injection E as <-.
    pose proof (pays_set_nth v p s ltac:(lia)) as Hpset. rewrite <- Ecur in Hpset.
    rewrite (pays1_occupied cur Hocc) in Hpset. simpl in Hpset.
    split; [rewrite length_set_nth; auto|]. split; [|exact Hpset].
    apply RHloc_set_nth; auto. rewrite <- Ecur, Hocc. discriminate.
Qed.

(* propagate never looks at a slot that lies cyclically behind the first free slot *)
Definition res_map {A B} (g : A -> B) (r : res A) : res B :=
  match r with Ok a => Ok (g a) | PslOverflow => PslOverflow | OutOfFuel => OutOfFuel end.

Lemma set_nth_comm {A} (l : list A) i j x y : i <> j ->
  set_nth (set_nth l i x) j y = set_nth (set_nth l j y) i x.
Proof.
  revert i j; induction l as [|z l IH]; intros [|i] [|j] Hne; simpl; auto; try lia.
  f_equal. apply IH. lia.
Qed.

Lemma propagate_comm c f q y : f < c -> q < c ->
  forall fuel v s p, length v = c -> p < c -> occupied (nth f v empty_slot) = false ->
  dist c p f < dist c p q ->
  propagate fuel (set_nth v q y) c s p = res_map (fun w => set_nth w q y) (propagate fuel v c s p).
Proof.
  intros Hf Hq. induction fuel as [|n IH]; intros v s p Hlen Hp Hfree Hd; [reflexivity|].
  assert (Hpq : p <> q) by (intros ->; rewrite dist_refl in Hd; lia).
  cbn [propagate]. rewrite (mod_nxt c p Hp). rewrite nth_set_nth_neq by auto.
  destruct (occupied (nth p v empty_slot)) eqn:Hocc.
  - assert (Hpf : p <> f) by (intros ->; congruence).
    destruct (dist_from_nxt c p f Hp Hf Hpf) as [Hdn Hdpos].
    destruct (dist_from_nxt c p q Hp Hq Hpq) as [Hdq _].
    destruct (Nat.ltb (spsl (nth p v empty_slot)) (spsl s)).
    + destruct (Nat.leb psl_max (spsl (nth p v empty_slot))); [reflexivity|].
      rewrite (set_nth_comm v q p y s) by auto. apply IH.
      * rewrite length_set_nth; auto.
      * apply nxt_lt; auto.
      * rewrite nth_set_nth_neq by auto. exact Hfree.
      * lia.
    + destruct (Nat.leb psl_max (spsl s)); [reflexivity|].
      apply IH; auto. { apply nxt_lt; auto. } lia.
  - cbn [res_map]. rewrite (set_nth_comm v q p y s) by auto. reflexivity.
Qed.

(* get_or_insert's "rich slot" case: propagate the incumbent from its own slot, then overwrite *)
Lemma propagate_then_overwrite c v f pos new :
  1 <= c -> length v = c -> RHloc c v -> f < c -> occupied (nth f v empty_slot) = false ->
  pos < c -> occupied (nth pos v empty_slot) = true -> occupied new = true ->
  slot_ok c v pos new -> spsl (nth pos v empty_slot) < spsl new ->
  propagate (S c) v c (nth pos v empty_slot) pos <> OutOfFuel /\
  forall w, propagate (S c) v c (nth pos v empty_slot) pos = Ok w ->
    length (set_nth w pos new) = c /\ RHloc c (set_nth w pos new) /\
    Permutation (pays1 new ++ pays v) (pays (set_nth w pos new)).
Proof.
  intros Hc Hlen HRH Hf Hfree Hpos Hocc Hnew Hok Hlt.
  remember (nth pos v empty_slot) as cur eqn:Ecur.
  cbn [propagate]. rewrite (mod_nxt c pos Hpos). rewrite <- Ecur, Hocc, Nat.ltb_irrefl.
  destruct (Nat.leb psl_max (spsl cur)); [split; [discriminate|intros w E; discriminate]|].
  assert (Hpf : pos <> f) by (intros ->; congruence).
  assert (Hnw : spsl cur + 2 <= c).
  { rewrite Ecur. apply (free_bound_nowrap c v f HRH Hf Hfree pos Hpos). rewrite <- Ecur. exact Hocc. }
  assert (Hcd : spsl cur = dist c (home c (shash cur)) pos).
  { rewrite Ecur. apply (HRH pos Hpos). rewrite <- Ecur. exact Hocc. }
  pose proof (home_lt c (shash cur) Hc) as Hhc.
  set (v0 := set_nth v pos new).
  assert (Hcomm : propagate c v0 c (bump cur) (nxt c pos)
                  = res_map (fun w => set_nth w pos new) (propagate c v c (bump cur) (nxt c pos))).
  { apply (propagate_comm c f pos new Hf Hpos); auto. { apply nxt_lt; auto. }
    rewrite dist_nxt_self by auto.
    pose proof (dist_lt c (nxt c pos) f (nxt_lt c pos Hpos) Hf).
    assert (dist c (nxt c pos) f <> c - 1).
    { intros E. rewrite <- (dist_nxt_self c pos Hpos) in E.
      apply dist_inj in E; auto. apply nxt_lt; auto. }
    lia. }
  destruct (propagate_ok c f Hc Hf c v0 (bump cur) (nxt c pos)) as [Hnf Hres].
  - unfold v0. rewrite length_set_nth; auto.
  - apply nxt_lt; auto.
  - unfold v0. apply RHloc_set_nth; auto. rewrite <- Ecur. lia.
  - exact Hocc.
  - split.
    + cbn [bump spsl shash]. rewrite dist_nxt by (auto; lia). lia.
    + right. rewrite prd_nxt by auto. unfold v0. rewrite nth_set_nth_eq by lia.
      split; [exact Hnew|]. cbn [bump spsl]. lia.
  - unfold v0. rewrite nth_set_nth_neq by auto. exact Hfree.
  - apply dist_lt; auto. apply nxt_lt; auto.
  - rewrite Hcomm in Hnf, Hres.
    pose proof (pays_set_nth v pos new ltac:(lia)) as Hpset. rewrite <- Ecur in Hpset. fold v0 in Hpset.
    destruct (propagate c v c (bump cur) (nxt c pos)) as [w| |]; cbn [res_map] in *.
    + split; [discriminate|]. intros w' E. injection E as <-.
      destruct (Hres _ eq_refl) as (Hl & Hr & Hperm). split; [exact Hl|]. split; [exact Hr|].
      rewrite pays1_bump in Hperm. etransitivity; [exact Hpset|exact Hperm].
    + split; [discriminate|intros w' E; discriminate].
    + congruence.
Qed.

(* ------------------------------------------------------------------------------------- *)
(* grow (the repaired one): robin-hood insertion of every stored entry into an empty table *)

Lemma fold_grow_err fixed c l (e : res (list slot)) :
  (forall v, e <> Ok v) -> fold_left (grow_step fixed c) l e = e.
Proof.
  intros He. induction l as [|x l IH]; [reflexivity|]. simpl.
  destruct e as [v| |]; [exfalso; eapply He; reflexivity|exact IH|exact IH].
Qed.

Lemma grow_fold c : 1 <= c -> forall l acc,
  length acc = c -> RHloc c acc -> length (pays acc) + length (pays l) < c ->
  fold_left (grow_step true c) l (Ok acc) <> OutOfFuel /\
  forall w, fold_left (grow_step true c) l (Ok acc) = Ok w ->
    length w = c /\ RHloc c w /\ Permutation (pays l ++ pays acc) (pays w).
Proof.
  intros Hc. induction l as [|x l IH]; intros acc Hlen HRH Hcnt.
  - simpl. split; [discriminate|]. intros w E. injection E as <-. auto.
  - cbn [fold_left grow_step].
    change (pays (x :: l)) with (pays1 x ++ pays l) in *. rewrite app_length in Hcnt.
    destruct (occupied x) eqn:Hox.
    + destruct (exists_free acc) as (f & Hf & Hfree); [lia|]. rewrite Hlen in Hf.
      set (s0 := {| sid := sid x; shash := shash x; spsl := 0 |}).
      assert (Hp1 : pays1 s0 = pays1 x) by reflexivity.
      destruct (propagate_ok c f Hc Hf (S c) acc s0 (home c (shash x))) as [Hnf Hres]; auto.
      * apply home_lt; auto.
      * split; [|left; reflexivity]. cbn [s0 spsl shash]. rewrite dist_refl. reflexivity.
      * pose proof (dist_lt c (home c (shash x)) f (home_lt c _ Hc) Hf). lia.
      * destruct (propagate (S c) acc c s0 (home c (shash x))) as [acc'| |] eqn:E.
        -- destruct (Hres _ eq_refl) as (Hl & Hr & Hperm). rewrite Hp1 in Hperm.
           pose proof (Permutation_length Hperm) as Hpl. rewrite app_length in Hpl.
           destruct (IH acc' Hl Hr ltac:(lia)) as [Hnf' Hres']. split; [exact Hnf'|].
           intros w Ew. destruct (Hres' w Ew) as (Hl' & Hr' & Hperm').
           split; [exact Hl'|]. split; [exact Hr'|].
           etransitivity; [|exact Hperm']. rewrite <- app_assoc.
           etransitivity; [apply Permutation_app_swap_app|].
           apply Permutation_app_head. exact Hperm.
        -- rewrite fold_grow_err by discriminate. split; [discriminate|intros w Ew; discriminate].
        -- congruence.
    + rewrite (pays1_occupied x Hox) in *. simpl in *. apply IH; auto.
Qed.

Lemma next_pow2_ge n : n <= next_pow2 n.
Proof.
  unfold next_pow2. destruct (le_lt_dec n 1) as [Hle|Hgt].
  - pose proof (Nat.pow_nonzero 2 (Nat.log2_up n)). lia.
  - apply Nat.log2_up_spec. lia.
Qed.

(* ------------------------------------------------------------------------------------- *)
(* the table invariant, for an arbitrary hash function on elements                       *)

Section WithHash.
Variable H : N -> N.   (* any hash function: all collision patterns *)

Definition TI (t : table) : Prop :=
  1 <= cap t /\ length (tbl t) = cap t /\ RHloc (cap t) (tbl t) /\
  Permutation (map fst (pays (tbl t))) (seq 0 (length (arena t))) /\
  (forall i h, In (i, h) (pays (tbl t)) -> h = H (nth i (arena t) 0%N)) /\
  NoDup (arena t) /\ len t = length (arena t) /\ len t < cap t.

Lemma TI_new c : 1 <= c -> TI (new_table c).
Proof.
  intros Hc. unfold TI, new_table; cbn [tbl cap len arena].
  rewrite pays_repeat_empty, repeat_length. simpl.
  split; [exact Hc|]. split; [reflexivity|]. split; [apply RHloc_empty|]. split; [constructor|].
  split; [intros i h []|]. split; [constructor|]. split; [reflexivity|lia].
Qed.

Lemma TI_id_lt t i h : TI t -> In (i, h) (pays (tbl t)) -> i < length (arena t).
Proof.
  intros (_ & _ & _ & Hperm & _) Hin.
  assert (Hi : In i (map fst (pays (tbl t)))) by (apply (in_map fst) in Hin; exact Hin).
  apply (Permutation_in _ Hperm) in Hi. apply in_seq in Hi. lia.
Qed.

Lemma TI_stored t i : TI t -> i < length (arena t) ->
  exists q, q < cap t /\ sid (nth q (tbl t) empty_slot) = Some i /\
            shash (nth q (tbl t) empty_slot) = H (nth i (arena t) 0%N).
Proof.
  intros HTI Hi. pose proof HTI as (_ & Hlen & _ & Hperm & Hh & _).
  assert (Hin : In i (map fst (pays (tbl t)))).
  { apply (Permutation_in _ (Permutation_sym Hperm)). apply in_seq. lia. }
  apply in_map_iff in Hin. destruct Hin as ([i' h] & Ei & Hin). simpl in Ei. subst i'.
  pose proof (Hh _ _ Hin) as ->. apply In_pays in Hin. destruct Hin as (q & Hq & Hs & Hsh).
  exists q. rewrite Hlen in Hq. auto.
Qed.

Lemma TI_pays_length t : TI t -> length (pays (tbl t)) = len t.
Proof.
  intros (_ & _ & _ & Hperm & _ & _ & Hl & _).
  apply Permutation_length in Hperm. rewrite map_length, seq_length in Hperm. lia.
Qed.

Lemma TI_free t : TI t -> exists f, f < cap t /\ occupied (nth f (tbl t) empty_slot) = false.
Proof.
  intros HTI. pose proof (TI_pays_length t HTI). destruct HTI as (_ & Hlen & _ & _ & _ & _ & _ & Hlt).
  rewrite <- Hlen. apply exists_free. lia.
Qed.

Lemma TI_grow t : TI t ->
  grow true t <> OutOfFuel /\
  forall t', grow true t = Ok t' ->
    TI t' /\ arena t' = arena t /\ len t' = len t /\ hits t' = hits t /\ cap t + 1 <= cap t'.
Proof.
  intros HTI. pose proof (TI_pays_length t HTI) as Hpl.
  destruct HTI as (Hc & Hlen & HRH & Hperm & Hh & Hnd & Hl & Hlt).
  unfold grow. pose proof (next_pow2_ge (cap t + 1)) as Hge.
  set (c' := next_pow2 (cap t + 1)) in *.
  destruct (grow_fold c' ltac:(lia) (tbl t) (repeat empty_slot c')) as [Hnf Hres].
  - apply repeat_length.
  - apply RHloc_empty.
  - rewrite pays_repeat_empty. simpl. lia.
  - destruct (fold_left (grow_step true c') (tbl t) (Ok (repeat empty_slot c'))) as [w| |].
    + split; [discriminate|]. intros t' E. injection E as <-. cbn [tbl cap len arena hits].
      destruct (Hres _ eq_refl) as (Hl' & Hr' & Hperm'). rewrite pays_repeat_empty, app_nil_r in Hperm'.
      repeat split; auto; try lia.
      * etransitivity; [apply Permutation_map; apply Permutation_sym; exact Hperm'|exact Hperm].
      * intros i h Hin. apply Hh. apply (Permutation_in _ (Permutation_sym Hperm')). exact Hin.
    + split; [discriminate|intros t' E; discriminate].
    + congruence.
Qed.

(* a new element enters: any in-order array holding the old entries plus the new one *)
Lemma TI_insert t e v' :
  TI t -> S (len t) < cap t -> ~ In e (arena t) ->
  length v' = cap t -> RHloc (cap t) v' ->
  Permutation ((length (arena t), H e) :: pays (tbl t)) (pays v') ->
  TI {| tbl := v'; cap := cap t; len := S (len t); hits := hits t; arena := arena t ++ [e] |}.
Proof.
  intros HTI Hload Hnin Hlen' HRH' Hperm'.
  assert (Hidlt : forall i h, In (i, h) (pays (tbl t)) -> i < length (arena t)) by (intros; eapply TI_id_lt; eauto).
  destruct HTI as (Hc & Hlen & HRH & Hperm & Hh & Hnd & Hl & Hlt).
  unfold TI; cbn [tbl cap len arena]. rewrite app_length. cbn [length].
  split; [exact Hc|]. split; [exact Hlen'|]. split; [exact HRH'|]. split; [|split; [|split; [|split]]].
  - replace (length (arena t) + 1) with (S (length (arena t))) by lia. rewrite seq_S. cbn [plus].
    etransitivity; [apply Permutation_map; apply Permutation_sym; exact Hperm'|]. cbn [map fst].
    etransitivity; [apply perm_skip; exact Hperm|]. apply Permutation_cons_append.
  - intros i h Hin. apply (Permutation_in _ (Permutation_sym Hperm')) in Hin. destruct Hin as [E|Hin].
    + injection E as <- <-. rewrite app_nth2 by lia. rewrite Nat.sub_diag. reflexivity.
    + rewrite app_nth1 by (eapply Hidlt; eauto). apply Hh. exact Hin.
  - apply (Permutation_NoDup (Permutation_cons_append (arena t) e)). constructor; assumption.
  - lia.
  - exact Hload.
Qed.
