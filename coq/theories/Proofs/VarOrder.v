(* Proofs about the VarOrder model: well-formedness of new / linear / new_last. *)
From Coq Require Import Bool List Lia Arith Permutation.
Import ListNotations.
From RsddV Require Import Base.Util Model.VarOrder.

Lemma nth_error_nth_lt {A} (l : list A) i d : i < length l -> nth_error l i = Some (nth i l d).
Proof.
  revert i; induction l as [|x t IH]; intros [|i] H; simpl in *; try lia; auto. apply IH; lia.
Qed.


Lemma new_loop_spec : forall o i v,
  (forall x, In x o -> x < length v) ->
  exists v', new_loop o i v = Some v' /\ length v' = length v /\
    (forall x, ~ In x o -> nth x v' 0 = nth x v 0) /\
    (NoDup o -> forall k, k < length o -> nth (nth k o 0) v' 0 = i + k).
Proof.
  induction o as [|x t IH]; intros i v Hb.
  - exists v. simpl. repeat split; auto. intros _ k Hk. simpl in Hk. lia.
  - simpl. assert (Hx : x < length v) by (apply Hb; left; auto).
    apply Nat.ltb_lt in Hx. rewrite Hx. apply Nat.ltb_lt in Hx.
    destruct (IH (S i) (set_nth v x i)) as (v' & E & L & Hout & Hin).
    { intros y Hy. rewrite length_set_nth. apply Hb. right; auto. }
    exists v'. split; [exact E|]. split; [rewrite L; apply length_set_nth|]. split.
    + intros y Hy. rewrite Hout by (intro; apply Hy; right; auto).
      apply nth_set_nth_neq. intro; subst; apply Hy; left; auto.
    + intros Hnd k Hk. inversion Hnd as [|? ? Hnx Hnd']; subst.
      destruct k as [|k]; simpl.
      * rewrite Hout by exact Hnx. rewrite nth_set_nth_eq by exact Hx. lia.
      * simpl in Hk. rewrite Hin by (auto; lia). lia.
Qed.


Lemma new_loop_none : forall o i v, (exists x, In x o /\ length v <= x) -> new_loop o i v = None.
Proof.
  induction o as [|y t IH]; intros i v (x & Hin & Hx); simpl in *; [tauto|].
  destruct (y <? length v) eqn:E; auto. apply Nat.ltb_lt in E.
  apply IH. destruct Hin as [->|Hin]; [lia|]. exists x. rewrite length_set_nth. auto.
Qed.


(* VarOrder::new on a permutation of 0..n-1 succeeds and yields mutually inverse maps *)
Theorem order_new_wf : forall o n, Permutation o (seq 0 n) ->
  exists r, order_new o = Some r /\ wf_order r /\ pos_to_var r = o /\ num_vars r = n.
Proof.
  intros o n HP.
  assert (Hlen : length o = n) by (rewrite (Permutation_length HP); apply seq_length).
  assert (Hnd : NoDup o) by (eapply Permutation_NoDup; [apply Permutation_sym; exact HP|apply seq_NoDup]).
  assert (Hb : forall x, In x o <-> x < n).
  { intros x. split; intros H.
    - apply (Permutation_in _ HP), in_seq in H. lia.
    - apply (Permutation_in _ (Permutation_sym HP)), in_seq. lia. }
  destruct (new_loop_spec o 0 (repeat 0 (length o))) as (v & E & L & _ & Hin).
  { intros x Hx. rewrite repeat_length, Hlen. apply Hb; auto. }
  rewrite repeat_length in L. unfold order_new. rewrite E.
  eexists; split; [reflexivity|]. split; [|split; [reflexivity|unfold num_vars; simpl; lia]].
  unfold wf_order, get, var_at_level; simpl. split; [exact L|]. split.
  - intros x Hx. rewrite Hlen in Hx. apply Hb in Hx. destruct (In_nth _ _ 0 Hx) as (k & Hk & Ek).
    exists k. rewrite (nth_error_nth_lt v x 0) by (rewrite L, Hlen; apply Hb; auto).
    rewrite <- Ek at 1. rewrite Hin by auto. simpl. split; [reflexivity|]. split; [exact Hk|].
    rewrite (nth_error_nth_lt o k 0) by exact Hk. rewrite Ek; reflexivity.
  - intros p Hp. exists (nth p o 0). rewrite (nth_error_nth_lt o p 0) by exact Hp.
    split; [reflexivity|]. assert (Hlt : nth p o 0 < n) by (apply Hb, nth_In; exact Hp).
    split; [lia|]. rewrite (nth_error_nth_lt v _ 0) by lia. rewrite Hin by auto. reflexivity.
Qed.


(* the guard is real: a label outside 0..len-1 makes the code panic *)
Theorem order_new_panics : forall o x, In x o -> length o <= x -> order_new o = None.
Proof.
  intros o x Hin Hx. unfold order_new. rewrite new_loop_none; auto.
  exists x. rewrite repeat_length. auto.
Qed.


Theorem linear_wf : forall n, exists r, linear_order n = Some r /\ wf_order r /\ num_vars r = n /\
  (forall v, v < n -> get r v = Some v /\ var_at_level r v = Some v).
Proof.
  intros n. destruct (order_new_wf (seq 0 n) n (Permutation_refl _)) as (r & E & W & P & N).
  exists r. split; [exact E|]. split; [exact W|]. split; [exact N|].
  intros v Hv. assert (Hl : var_at_level r v = Some v).
  { unfold var_at_level. rewrite P, (nth_error_nth_lt _ _ 0) by (rewrite seq_length; lia).
    rewrite seq_nth by lia. reflexivity. }
  split; [|exact Hl]. destruct W as (_ & _ & W3). rewrite P, seq_length in W3.
  destruct (W3 v Hv) as (x & E1 & _ & E2). rewrite Hl in E1. inversion E1; subst. exact E2.
Qed.


Lemma nth_error_app_l {A} (l l' : list A) i : i < length l -> nth_error (l ++ l') i = nth_error l i.
Proof. intros H. apply nth_error_app1; auto. Qed.

(* new_last keeps well-formedness, keeps every old position and level, puts the new label last *)
Theorem new_last_wf : forall r, wf_order r ->
  let n := num_vars r in
  let r' := fst (new_last r) in
  wf_order r' /\ snd (new_last r) = n /\ num_vars r' = S n /\
  (forall v, v < n -> get r' v = get r v /\ var_at_level r' v = var_at_level r v) /\
  get r' n = Some n /\ var_at_level r' n = Some n.
Proof.
  intros r (L & W2 & W3). unfold num_vars. rewrite L. cbn zeta.
  set (n := length (pos_to_var r)) in *.
  assert (Eg : forall v, v < n -> get (fst (new_last r)) v = get r v).
  { intros v Hv. unfold get, new_last; simpl. apply nth_error_app_l. lia. }
  assert (El : forall v, v < n -> var_at_level (fst (new_last r)) v = var_at_level r v).
  { intros v Hv. unfold var_at_level, new_last; simpl. apply nth_error_app_l. fold n. lia. }
  assert (Egn : get (fst (new_last r)) n = Some n).
  { unfold get, new_last; simpl. fold n. rewrite nth_error_app2 by lia. rewrite L, Nat.sub_diag. reflexivity. }
  assert (Eln : var_at_level (fst (new_last r)) n = Some n).
  { unfold var_at_level, new_last; simpl. fold n. rewrite nth_error_app2 by (fold n; lia).
    fold n. rewrite Nat.sub_diag. reflexivity. }
  split; [|split; [reflexivity|split; [|split; [|split]]]]; auto.
  - unfold wf_order. assert (Ln : length (pos_to_var (fst (new_last r))) = S n).
    { unfold new_last; simpl. rewrite app_length; simpl. fold n. lia. }
    rewrite Ln. split; [unfold new_last; simpl; rewrite app_length; simpl; lia|]. split.
    + intros v Hv. destruct (Nat.eq_dec v n) as [->|Hne].
      * exists n. auto.
      * destruct (W2 v ltac:(lia)) as (p & E1 & Hp & E2). exists p.
        rewrite Eg, El by lia. auto.
    + intros p Hp. destruct (Nat.eq_dec p n) as [->|Hne].
      * exists n. auto.
      * destruct (W3 p ltac:(lia)) as (v & E1 & Hv & E2). exists v.
        rewrite Eg, El by lia. auto.
  - unfold new_last; simpl. rewrite app_length; simpl. lia.
Qed.


(* on a well-formed order [lt] is the strict order of positions and it is total on labels < n *)
Theorem lt_total : forall r a b, wf_order r -> a < num_vars r -> b < num_vars r ->
  exists pa pb, get r a = Some pa /\ get r b = Some pb /\ lt r a b = Some (pa <? pb) /\
                (pa = pb <-> a = b).
Proof.
  intros r a b (L & W2 & _) Ha Hb. unfold num_vars in *. rewrite L in *.
  destruct (W2 a Ha) as (pa & Ea & _ & Ia). destruct (W2 b Hb) as (pb & Eb & _ & Ib).
  exists pa, pb. unfold lt. rewrite Ea, Eb. repeat split; auto.
  - intros ->. rewrite Ia in Ib. inversion Ib; auto.
  - intros ->. rewrite Ea in Eb. inversion Eb; auto.
Qed.


(* first_essential returns, among the items that have a variable, one whose position is minimal *)
Theorem first_essential_min : forall {T} (var : T -> option nat) r a b c v,
  first_essential var r a b c = Some v ->
  (var a = Some v \/ var b = Some v \/ var c = Some v) /\
  forall pv, get r v = Some pv ->
    forall x w pw, In x [a; b; c] -> var x = Some w -> get r w = Some pw -> pv <= pw.
Proof.
  intros T var r a b c v. unfold first_essential, first.
  destruct (var a) as [va|] eqn:Ea; destruct (var b) as [vb|] eqn:Eb; destruct (var c) as [vc|] eqn:Ec;
    repeat (rewrite ?Ea, ?Eb, ?Ec;
      match goal with
      | |- context [match get r ?x with _ => _ end] => let E := fresh "G" in destruct (get r x) eqn:E
      | |- context [if ?x <? ?y then _ else _] => let E := fresh "C" in destruct (x <? y) eqn:E;
          [apply Nat.ltb_lt in E|apply Nat.ltb_ge in E]
      end); rewrite ?Ea, ?Eb, ?Ec; try discriminate.
  all: intros Hv; try discriminate.
  all: try (inversion Hv; subst).
  all: try (split; [tauto|]).
  all: repeat match goal with H : Some _ = Some _ |- _ => inversion H; subst; clear H end.
  all: try (intros pv Epv x w pw [<-|[<-|[<-|[]]]] Ex Ew;
            try congruence;
            repeat match goal with
            | H1 : ?f = Some ?u, H2 : ?f = Some ?w |- _ => rewrite H1 in H2; inversion H2; subst; clear H2
            end; lia).
Qed.
