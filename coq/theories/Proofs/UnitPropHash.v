(* C09 — the residual hash: cur_hash is the product (mod 2^128) of the weights of the removed
   literal occurrences, and under the guard "product of all weights < 2^128" equal hashes mean
   identical residual formulas. *)
From Coq Require Import Bool NArith List Arith Lia Permutation.
Import ListNotations.
From RsddV Require Import Base.Util Model.UnitProp.
From RsddV Require Import Proofs.UnitProp Proofs.UnitPropFix.
Local Open Scope N_scope.

(* ---------- finite products ---------- *)
Fixpoint prodf {A} (f : A -> N) (l : list A) : N :=
  match l with [] => 1 | x :: t => f x * prodf f t end.

Lemma prodf_app {A} (f : A -> N) l1 l2 : prodf f (l1 ++ l2) = prodf f l1 * prodf f l2.
Proof. induction l1 as [|x t IH]; cbn [prodf app]; [ring|rewrite IH; ring]. Qed.

Lemma prodf_ext {A} (f g : A -> N) l : (forall x, In x l -> f x = g x) -> prodf f l = prodf g l.
Proof.
  induction l as [|x t IH]; intros H; cbn [prodf]; [reflexivity|].
  rewrite (H x (or_introl eq_refl)), IH; [reflexivity|]. intros y Hy. apply H. right. exact Hy.
Qed.

Lemma prodf_mul {A} (f g : A -> N) l : prodf (fun x => f x * g x) l = prodf f l * prodf g l.
Proof. induction l as [|x t IH]; cbn [prodf]; [ring|rewrite IH; ring]. Qed.

Lemma prodf_one {A} (l : list A) : prodf (fun _ => 1) l = 1.
Proof. induction l as [|x t IH]; cbn [prodf]; [reflexivity|rewrite IH; ring]. Qed.

Lemma prodf_swap {A B} (f : A -> B -> N) la lb :
  prodf (fun a => prodf (fun b => f a b) lb) la = prodf (fun b => prodf (fun a => f a b) la) lb.
Proof.
  induction la as [|a t IH]; cbn [prodf].
  - rewrite prodf_one. reflexivity.
  - rewrite IH, <- prodf_mul. reflexivity.
Qed.

Lemma prodf_filter {A} (p : A -> bool) (g : A -> N) l :
  prodf g (filter p l) = prodf (fun x => if p x then g x else 1) l.
Proof.
  induction l as [|x t IH]; cbn [prodf filter]; [reflexivity|]. destruct (p x); cbn [prodf]; rewrite IH; ring.
Qed.

(* indicator products *)
Lemma prodf_indicator_none {A} (t : A -> bool) (k : A -> N) l :
  (forall x, In x l -> t x = false) -> prodf (fun x => if t x then k x else 1) l = 1.
Proof.
  intros H. rewrite (prodf_ext _ (fun _ => 1)); [apply prodf_one|]. intros x Hx. rewrite (H x Hx). reflexivity.
Qed.

(* changing one index of a product over a range *)
Lemma prodf_seq_update (g g' : nat -> N) (ci : nat) (k : N) : forall n a,
  (forall j, j <> ci -> g' j = g j) -> g' ci = g ci * k -> (a <= ci < a + n)%nat ->
  prodf g' (seq a n) = prodf g (seq a n) * k.
Proof.
  induction n as [|n IH]; intros a Hoth Hci Hr; [lia|]. cbn [seq prodf].
  destruct (Nat.eq_dec a ci) as [->|Hne].
  - rewrite Hci. rewrite (prodf_ext g' g); [ring|]. intros j Hj. apply in_seq in Hj. apply Hoth. lia.
  - rewrite (Hoth a Hne), (IH (S a) Hoth Hci ltac:(lia)). ring.
Qed.

(* ---------- arithmetic modulo 2^128 ---------- *)
Lemma two128_nz : two128 <> 0.
Proof. unfold two128. apply N.pow_nonzero. discriminate. Qed.

Lemma wmul_mod X b : wrapping_mul (X mod two128) b = (X * b) mod two128.
Proof. unfold wrapping_mul. apply N.mul_mod_idemp_l. exact two128_nz. Qed.

(* a fold of conditional wrapping multiplications *)
Lemma fold_wmul {A} (skip : A -> bool) (g : A -> N) l : forall X,
  fold_left (fun h x => if skip x then h else wrapping_mul h (g x)) l (X mod two128) =
  (X * prodf (fun x => if skip x then 1 else g x) l) mod two128.
Proof.
  induction l as [|x t IH]; intros X; cbn [fold_left prodf].
  - rewrite N.mul_1_r. reflexivity.
  - destruct (skip x).
    + rewrite IH. f_equal. ring.
    + rewrite wmul_mod, IH. f_equal. ring.
Qed.

(* generic fold: every step multiplies (mod 2^128) by a known factor or is skipped *)
Lemma fold_factor {A} (skip : A -> bool) (F : A -> N -> N) (g : A -> N) l :
  (forall x X, F x (X mod two128) = (X * g x) mod two128) -> forall X,
  fold_left (fun h x => if skip x then h else F x h) l (X mod two128) =
  (X * prodf (fun x => if skip x then 1 else g x) l) mod two128.
Proof.
  intros HF. induction l as [|x t IH]; intros X; cbn [fold_left prodf].
  - rewrite N.mul_1_r. reflexivity.
  - destruct (skip x).
    + rewrite IH. f_equal. ring.
    + rewrite HF, IH. f_equal. ring.
Qed.

(* ---------- the removed occurrences and their product ---------- *)
Definition removed (m : pmodel) (wc : wclause) (x : lit * N) : bool := wc_sat m wc || lit_false m (fst x).
Definition Rcl (m : pmodel) (wc : wclause) : N := prodf (fun x => if removed m wc x then snd x else 1) wc.
Definition Pall (cl : list wclause) (m : pmodel) : N :=
  prodf (fun ci => Rcl m (nth ci cl [])) (seq 0 (length cl)).

Definition Uw (top : pmodel) (wc : wclause) : N :=
  prodf (fun x => if pm_is_set top (lvar (fst x)) then 1 else snd x) wc.
Fixpoint flw (v : nat) (wc : wclause) : N :=
  match wc with
  | [] => 1
  | x :: t => if Nat.eqb (lvar (fst x)) v then snd x else flw v t
  end.

Lemma mul_unset_spec top wc X : mul_unset top wc (X mod two128) = (X * Uw top wc) mod two128.
Proof.
  unfold mul_unset, Uw.
  apply (fold_wmul (fun x => pm_is_set top (lvar (fst x))) snd wc X).
Qed.

Lemma mul_first_label_spec v wc X : mul_first_label v wc (X mod two128) = (X * flw v wc) mod two128.
Proof.
  induction wc as [|x t IH]; cbn [mul_first_label flw].
  - rewrite N.mul_1_r. reflexivity.
  - destruct (Nat.eqb (lvar (fst x)) v); [apply wmul_mod|exact IH].
Qed.

(* ---------- phase 2 (newly satisfied clauses) ---------- *)
Section PHASE2.
Variable cl : list wclause.
Variable top : pmodel.
Variable set0 : list bool.
Variable X : N.

Definition A2 (set : list bool) : N :=
  prodf (fun ci => if nth ci set false && negb (nth ci set0 false) then Uw top (nth ci cl []) else 1)
        (seq 0 (length cl)).
Definition I2 (acc : N * list bool) : Prop :=
  fst acc = (X * A2 (snd acc)) mod two128 /\ length (snd acc) = length cl /\
  (forall j, nth j set0 false = true -> nth j (snd acc) false = true).

Lemma I2_clause acc ci : I2 acc -> (ci < length cl)%nat -> I2 (case2_clause cl top acc ci).
Proof.
  destruct acc as [h set]. intros [Hh [Hlen Hsub]] Hci. simpl in Hh, Hlen, Hsub. unfold case2_clause.
  destruct (nth ci set false) eqn:E.
  - split; [exact Hh|split; assumption].
  - assert (H0 : nth ci set0 false = false).
    { destruct (nth ci set0 false) eqn:E0; [|reflexivity]. rewrite (Hsub ci E0) in E. discriminate. }
    split; [|split].
    + cbn [fst snd]. rewrite Hh, mul_unset_spec. f_equal. rewrite <- N.mul_assoc. f_equal.
      unfold A2. symmetry. apply prodf_seq_update with (ci := ci).
      * intros j Hj. rewrite nth_set_nth_neq by congruence. reflexivity.
      * rewrite nth_set_nth_eq by lia. rewrite E, H0. cbn [andb negb]. ring.
      * lia.
    + cbn [snd]. rewrite length_set_nth. exact Hlen.
    + cbn [snd]. intros j Hj. destruct (Nat.eq_dec ci j) as [->|Hne].
      * rewrite nth_set_nth_eq by lia. reflexivity.
      * rewrite nth_set_nth_neq by exact Hne. apply Hsub. exact Hj.
Qed.

Lemma I2_fold cis : forall acc, I2 acc -> Forall (fun ci => (ci < length cl)%nat) cis ->
  I2 (fold_left (case2_clause cl top) cis acc).
Proof.
  induction cis as [|ci t IH]; intros acc HI Hall; cbn [fold_left]; [exact HI|].
  inversion Hall; subst. apply IH; [apply I2_clause; assumption|assumption].
Qed.

Lemma I2_lits diff : forall acc, I2 acc -> I2 (fold_left (case2_lit cl top) diff acc).
Proof.
  induction diff as [|l t IH]; intros acc HI; cbn [fold_left]; [exact HI|].
  apply IH. unfold case2_lit. apply I2_fold; [exact HI|].
  apply Forall_forall. intros ci Hci. apply in_containing in Hci. tauto.
Qed.

Lemma A2_init : A2 set0 = 1.
Proof.
  unfold A2. rewrite (prodf_ext _ (fun _ => 1)); [apply prodf_one|].
  intros ci _. destruct (nth ci set0 false); reflexivity.
Qed.
End PHASE2.

(* ---------- phase 3 (newly false literals in clauses that stay unsatisfied) ---------- *)
Definition B3 (cl : list wclause) (set : list bool) (diff : list lit) : N :=
  prodf (fun l => prodf (fun ci => if nth ci set false then 1 else flw (lvar l) (nth ci cl []))
                        (containing cl (lneg l))) diff.

Lemma case3_lit_spec cl set l X :
  case3_lit cl set (X mod two128) l =
  (X * prodf (fun ci => if nth ci set false then 1 else flw (lvar l) (nth ci cl [])) (containing cl (lneg l)))
    mod two128.
Proof.
  unfold case3_lit.
  apply (fold_factor (fun ci => nth ci set false) (fun ci h => mul_first_label (lvar l) (nth ci cl []) h)
                     (fun ci => flw (lvar l) (nth ci cl []))).
  intros ci Y. apply mul_first_label_spec.
Qed.

Lemma phase3_spec cl set diff X :
  fold_left (case3_lit cl set) diff (X mod two128) = (X * B3 cl set diff) mod two128.
Proof.
  unfold B3.
  pose proof (fold_factor (fun _ : lit => false) (fun l h => case3_lit cl set h l)
               (fun l => prodf (fun ci => if nth ci set false then 1 else flw (lvar l) (nth ci cl []))
                               (containing cl (lneg l))) diff
               (fun l Y => case3_lit_spec cl set l Y) X) as H.
  cbv beta in H. exact H.
Qed.

(* the whole update: the new hash is the old one times A2 * B3 *)
Lemma update_hash_spec cl top nm X :
  ss_hash top = X mod two128 -> length (ss_sat top) = length cl ->
  let r := update_hash_and_sat_set cl top nm in
  fst r = (X * A2 cl (ss_model top) (ss_sat top) (snd r)
             * B3 cl (snd r) (pm_difference nm (ss_model top))) mod two128.
Proof.
  intros Hh Hlen. unfold update_hash_and_sat_set.
  pose proof (I2_lits cl (ss_model top) (ss_sat top) X (pm_difference nm (ss_model top))
                (ss_hash top, ss_sat top)) as HI.
  destruct (fold_left (case2_lit cl (ss_model top)) (pm_difference nm (ss_model top)) (ss_hash top, ss_sat top))
    as [h set] eqn:E.
  destruct HI as [Hh2 _].
  { split; [|split; [exact Hlen|auto]]. cbn [fst snd]. rewrite A2_init, N.mul_1_r. exact Hh. }
  cbn [fst snd] in *. rewrite Hh2, phase3_spec. reflexivity.
Qed.

(* ---------- regrouping phase 3 by clause ---------- *)
Definition Fc (diff : list lit) (wc : wclause) : N :=
  prodf (fun l => if wc_has (lneg l) wc then flw (lvar l) wc else 1) diff.

Lemma B3_by_clause cl set diff :
  B3 cl set diff = prodf (fun ci => if nth ci set false then 1 else Fc diff (nth ci cl [])) (seq 0 (length cl)).
Proof.
  unfold B3, containing, Fc.
  rewrite (prodf_ext _ (fun l => prodf (fun ci => if wc_has (lneg l) (nth ci cl [])
                                   then (if nth ci set false then 1 else flw (lvar l) (nth ci cl [])) else 1)
                                  (seq 0 (length cl)))).
  2:{ intros l _. apply prodf_filter. }
  rewrite prodf_swap. apply prodf_ext. intros ci _. destruct (nth ci set false).
  - rewrite (prodf_ext _ (fun _ => 1)); [apply prodf_one|]. intros l _. destruct (wc_has _ _); reflexivity.
  - reflexivity.
Qed.

(* ---------- one clause ---------- *)
Definition labels_distinct (wc : wclause) : Prop := NoDup (map (fun x => lvar (fst x)) wc).
Definition mem_lit (t : lit) (l : list lit) : bool := existsb (lit_eqb t) l.

Lemma mem_lit_in t l : mem_lit t l = true <-> In t l.
Proof.
  unfold mem_lit. rewrite existsb_exists. split.
  - intros [x [Hx He]]. apply lit_eqb_eq in He. subst. exact Hx.
  - intros H. exists t. split; [exact H|apply lit_eqb_eq; reflexivity].
Qed.

Lemma lit_eqb_refl t : lit_eqb t t = true.
Proof. apply lit_eqb_eq. reflexivity. Qed.

Lemma lit_eqb_neq a b : a <> b -> lit_eqb a b = false.
Proof. intros H. destruct (lit_eqb a b) eqn:E; [|reflexivity]. apply lit_eqb_eq in E. contradiction. Qed.

(* product of an indicator of one value over a duplicate-free list *)
Lemma prodf_point (t : lit) (k : N) l : NoDup l ->
  prodf (fun x => if lit_eqb t x then k else 1) l = if mem_lit t l then k else 1.
Proof.
  induction l as [|x r IH]; intros Hnd; cbn [prodf mem_lit existsb]; [reflexivity|].
  inversion Hnd as [|? ? Hni Hnd']; subst. fold (mem_lit t r). destruct (lit_eqb t x) eqn:E.
  - apply lit_eqb_eq in E. subst x. cbn [orb].
    rewrite (prodf_indicator_none (lit_eqb t) (fun _ => k)); [ring|].
    intros y Hy. apply lit_eqb_neq. intros ->. contradiction.
  - cbn [orb]. rewrite IH by exact Hnd'. ring.
Qed.

(* the occurrences of literal t in a clause with pairwise distinct labels *)
Lemma prodf_occ t wc : labels_distinct wc ->
  prodf (fun x => if lit_eqb (fst x) t then snd x else 1) wc = if wc_has t wc then flw (lvar t) wc else 1.
Proof.
  unfold labels_distinct. induction wc as [|x r IH]; intros Hnd; [reflexivity|].
  cbn [map] in Hnd. inversion Hnd as [|? ? Hni Hnd']; subst.
  cbn [prodf]. unfold wc_has. cbn [existsb flw]. fold (wc_has t r).
  destruct (lit_eqb (fst x) t) eqn:E.
  - apply lit_eqb_eq in E. rewrite (proj2 (lit_eqb_eq t (fst x)) (eq_sym E)). cbn [orb].
    rewrite E, Nat.eqb_refl.
    rewrite (prodf_indicator_none (fun y => lit_eqb (fst y) t) snd); [ring|].
    intros y Hy. apply lit_eqb_neq. intros Hx. apply Hni. apply in_map_iff. exists y. split; [|exact Hy].
    rewrite Hx, <- E. reflexivity.
  - rewrite (lit_eqb_neq t (fst x)) by (intros ->; rewrite lit_eqb_refl in E; discriminate). cbn [orb].
    rewrite IH by exact Hnd'. destruct (wc_has t r) eqn:Eh; [|ring].
    destruct (Nat.eqb_spec (lvar (fst x)) (lvar t)) as [Hv|Hv]; [|ring].
    exfalso. apply Hni. apply wc_has_in, in_map_iff in Eh. destruct Eh as [y [Hy Hyr]].
    apply in_map_iff. exists y. split; [rewrite Hy; symmetry; exact Hv|exact Hyr].
Qed.

Lemma Fc_by_occ diff wc : labels_distinct wc -> NoDup diff ->
  Fc diff wc = prodf (fun x => if mem_lit (lneg (fst x)) diff then snd x else 1) wc.
Proof.
  intros Hl Hnd. unfold Fc.
  rewrite (prodf_ext _ (fun l => prodf (fun x => if lit_eqb (fst x) (lneg l) then snd x else 1) wc)).
  2:{ intros l _. rewrite prodf_occ by exact Hl. rewrite lvar_lneg. reflexivity. }
  rewrite prodf_swap. apply prodf_ext. intros x _. rewrite <- (prodf_point (lneg (fst x)) (snd x) diff Hnd).
  apply prodf_ext. intros l _.
  destruct (lit_eqb (fst x) (lneg l)) eqn:E.
  - apply lit_eqb_eq in E. rewrite E, lneg_involutive, lit_eqb_refl. reflexivity.
  - rewrite lit_eqb_neq; [reflexivity|]. intros Hx. rewrite <- Hx, lneg_involutive, lit_eqb_refl in E. discriminate.
Qed.

Lemma lit_true_lneg m l : lit_true m (lneg l) = lit_false m l.
Proof.
  destruct l as [v p]. unfold lit_true, lit_false, lneg, lvar, lpol. simpl.
  destruct (pm_get m v) as [x|]; [|reflexivity]. destruct p, x; reflexivity.
Qed.

Lemma lit_false_le m m' l : pm_le m m' -> lit_false m l = true -> lit_false m' l = true.
Proof. rewrite <- !lit_true_lneg. apply lit_true_le. Qed.

Lemma not_true_false_set m l : lit_true m l = false ->
  pm_is_set m (lvar l) = lit_false m l.
Proof.
  unfold lit_true, lit_false, pm_is_set. destruct (pm_get m (lvar l)) as [x|]; [|reflexivity].
  intros H. rewrite H. reflexivity.
Qed.

Lemma wc_sat_false_all m wc x : wc_sat m wc = false -> In x wc -> lit_true m (fst x) = false.
Proof.
  unfold wc_sat. intros H Hx. destruct (lit_true m (fst x)) eqn:E; [|reflexivity].
  assert (existsb (fun y => lit_true m (fst y)) wc = true) by (apply existsb_exists; exists x; auto). congruence.
Qed.

Lemma nodup_app {A} (l1 l2 : list A) :
  NoDup l1 -> NoDup l2 -> (forall y, In y l1 -> In y l2 -> False) -> NoDup (l1 ++ l2).
Proof.
  induction l1 as [|x t IH]; intros H1 H2 Hd; [exact H2|]. cbn [app]. inversion H1; subst. constructor.
  - intros Hx. apply in_app_or in Hx. destruct Hx as [Hx|Hx]; [contradiction|]. apply (Hd x); [left; reflexivity|exact Hx].
  - apply IH; [assumption|assumption|]. intros y Hy1 Hy2. apply (Hd y); [right; exact Hy1|exact Hy2].
Qed.

Lemma clause_update old new wc :
  pm_le old new -> labels_distinct wc ->
  Rcl old wc * (if wc_sat new wc && negb (wc_sat old wc) then Uw old wc else 1)
             * (if wc_sat new wc then 1 else Fc (pm_difference new old) wc) = Rcl new wc.
Proof.
  intros Hle Hl. unfold Rcl, removed. destruct (wc_sat old wc) eqn:Eo.
  - assert (En : wc_sat new wc = true).
    { rewrite wc_sat_clause_sat in *. eapply clause_sat_le; eauto. }
    rewrite En. cbn [andb negb orb]. ring.
  - destruct (wc_sat new wc) eqn:En; cbn [andb negb orb].
    + rewrite N.mul_1_r. unfold Uw. rewrite <- prodf_mul. apply prodf_ext. intros x Hx.
      rewrite (not_true_false_set old (fst x) (wc_sat_false_all _ _ _ Eo Hx)).
      destruct (lit_false old (fst x)); ring.
    + rewrite N.mul_1_r. rewrite Fc_by_occ; [|exact Hl|].
      * rewrite <- prodf_mul. apply prodf_ext. intros x Hx.
        destruct (mem_lit (lneg (fst x)) (pm_difference new old)) eqn:Em.
        -- apply mem_lit_in, in_pm_difference in Em. rewrite !lit_true_lneg in Em. destruct Em as [H1 H2].
           rewrite H1, H2. ring.
        -- destruct (lit_false old (fst x)) eqn:Efo.
           ++ rewrite (lit_false_le _ _ _ Hle Efo). ring.
           ++ destruct (lit_false new (fst x)) eqn:Efn; [|ring]. exfalso.
              assert (Hin : In (lneg (fst x)) (pm_difference new old))
                by (apply in_pm_difference; rewrite !lit_true_lneg; auto).
              apply mem_lit_in in Hin. congruence.
      * (* NoDup of PartialModel::difference *)
        unfold pm_difference, pm_diff_pol.
        assert (Hinj : forall (p : bool) (l : list nat), NoDup l -> NoDup (map (fun v : nat => (v, p)) l)).
        { intros p l Hnd. induction Hnd as [|y r Hni Hnd IH]; cbn [map]; constructor; [|exact IH].
          intros Hx. apply in_map_iff in Hx. destruct Hx as [z [Hz Hzr]]. injection Hz as ->. contradiction. }
        apply nodup_app.
        -- apply Hinj, NoDup_filter, seq_NoDup.
        -- apply Hinj, NoDup_filter, seq_NoDup.
        -- intros y H1 H2. apply in_map_iff in H1. apply in_map_iff in H2.
           destruct H1 as [a [Ha _]], H2 as [b [Hb _]]. rewrite <- Ha in Hb. discriminate.
Qed.

(* ---------- the update maintains "hash = product of the removed occurrences" ---------- *)
Lemma update_hash_Pall cl top nm :
  set_inv cl top -> pm_le (ss_model top) nm -> Forall labels_distinct cl ->
  ss_hash top = Pall cl (ss_model top) mod two128 ->
  fst (update_hash_and_sat_set cl top nm) = Pall cl nm mod two128.
Proof.
  intros Hsi Hle Hld Hh. pose proof (update_set_inv cl top nm Hsi Hle) as [Hlen2 Hnth2].
  destruct Hsi as [Hlen0 Hnth0]. cbn [ss_sat ss_model] in Hlen2, Hnth2.
  rewrite (update_hash_spec cl top nm _ Hh Hlen0). f_equal.
  rewrite B3_by_clause. unfold Pall, A2. rewrite <- !prodf_mul. apply prodf_ext. intros ci Hci.
  apply in_seq in Hci. assert (Hc : (ci < length cl)%nat) by lia.
  rewrite (Hnth2 ci Hc), (Hnth0 ci Hc). apply clause_update; [exact Hle|].
  eapply Forall_forall in Hld; [exact Hld|]. apply nth_In. exact Hc.
Qed.

Lemma Pall_new cl n : Pall cl (pm_new n) = 1.
Proof.
  unfold Pall. rewrite (prodf_ext _ (fun _ => 1)); [apply prodf_one|]. intros ci _.
  unfold Rcl. rewrite (prodf_ext _ (fun _ => 1)); [apply prodf_one|]. intros x _.
  assert (Hf : forall l, lit_true (pm_new n) l = false /\ lit_false (pm_new n) l = false).
  { intros l. unfold lit_true, lit_false, pm_get, pm_new. rewrite nth_repeat_lt. destruct (Nat.ltb _ _); auto. }
  unfold removed. assert (Hs : wc_sat (pm_new n) (nth ci cl []) = false).
  { unfold wc_sat. destruct (existsb _ _) eqn:E; [|reflexivity]. apply existsb_exists in E.
    destruct E as [y [_ Hy]]. rewrite (proj1 (Hf _)) in Hy. discriminate. }
  rewrite Hs, (proj2 (Hf _)). reflexivity.
Qed.

(* ---------- the normalised clauses have pairwise distinct labels ---------- *)
Section GSORT.
Variable A : Type.
Variable le : A -> A -> bool.
Hypothesis le_total : forall a b, le a b = false -> le b a = true.
Hypothesis le_trans : forall a b c, le a b = true -> le b c = true -> le a c = true.

Fixpoint gsorted (l : list A) : Prop :=
  match l with [] => True | x :: t => (forall y, In y t -> le x y = true) /\ gsorted t end.

Lemma gsorted_insert x l : gsorted l -> gsorted (insert_by le x l).
Proof.
  induction l as [|z t IH]; intros Hs; cbn [insert_by].
  - split; [intros y []|exact I].
  - destruct Hs as [Hz Ht]. destruct (le x z) eqn:E.
    + split; [|split; assumption]. intros y [<-|Hy]; [exact E|]. eapply le_trans; [exact E|apply Hz; exact Hy].
    + split; [|apply IH; exact Ht]. intros y Hy. apply in_insert_by in Hy.
      destruct Hy as [->|Hy]; [apply le_total; exact E|apply Hz; exact Hy].
Qed.

Lemma gsorted_sort l : gsorted (sort_by le l).
Proof. unfold sort_by. induction l as [|x t IH]; cbn [fold_right]; [exact I|apply gsorted_insert; exact IH]. Qed.
End GSORT.

Lemma lit_le_total a b : lit_le a b = false -> lit_le b a = true.
Proof.
  unfold lit_le. destruct (lpol a), (lpol b); try discriminate; try reflexivity;
    intros H; apply Nat.leb_gt in H; apply Nat.leb_le; lia.
Qed.
Lemma lit_le_trans a b c : lit_le a b = true -> lit_le b c = true -> lit_le a c = true.
Proof.
  unfold lit_le. destruct (lpol a), (lpol b), (lpol c); try discriminate; try reflexivity;
    intros H1 H2; apply Nat.leb_le in H1; apply Nat.leb_le in H2; apply Nat.leb_le; lia.
Qed.
Lemma lit_le_antisym a b : lit_le a b = true -> lit_le b a = true -> a = b.
Proof.
  unfold lit_le. destruct a as [v p], b as [v' p']. unfold lpol, lvar. simpl.
  destruct p, p'; try discriminate; intros H1 H2; apply Nat.leb_le in H1; apply Nat.leb_le in H2;
    f_equal; lia.
Qed.

Lemma nodup_dedup_sorted : forall c, gsorted lit lit_le c -> NoDup (dedup c).
Proof.
  induction c as [|x t IH]; intros Hs; [constructor|]. destruct Hs as [Hx Ht]. rewrite dedup_cons.
  destruct t as [|z t']; [constructor; [intros []|constructor]|].
  destruct (lit_eqb x z) eqn:E; [apply IH; exact Ht|].
  constructor; [|apply IH; exact Ht]. intros Hin. apply (proj1 (in_dedup _ _)) in Hin.
  assert (Hxz : x <> z) by (intros ->; rewrite lit_eqb_refl in E; discriminate).
  destruct Hin as [->|Hin]; [congruence|]. apply Hxz. apply lit_le_antisym.
  - apply Hx. left. reflexivity.
  - destruct Ht as [Hz _]. apply Hz. exact Hin.
Qed.

Lemma norm_clause_labels c : tautological (norm_clause c) = false ->
  NoDup (map lvar (norm_clause c)).
Proof.
  intros Ht. assert (Hnd : NoDup (norm_clause c)).
  { unfold norm_clause. apply nodup_dedup_sorted. apply gsorted_sort; [apply lit_le_total|apply lit_le_trans]. }
  set (d := norm_clause c) in *.
  assert (Hno : forall x y, In x d -> In y d -> lvar x = lvar y -> x = y).
  { intros x y Hx Hy Hv. destruct x as [v p], y as [v' p']. unfold lvar in Hv. simpl in Hv. subst v'.
    destruct (Bool.bool_dec p p') as [->|Hp]; [reflexivity|]. exfalso.
    unfold tautological in Ht. assert (existsb (fun l => existsb (lit_eqb (lneg l)) d) d = true); [|congruence].
    apply existsb_exists. exists (v, p). split; [exact Hx|]. apply existsb_exists. exists (v, p').
    split; [exact Hy|]. apply lit_eqb_eq. unfold lneg. simpl. f_equal. destruct p, p'; try reflexivity; congruence. }
  clear Ht. induction d as [|x t IH]; [constructor|]. inversion Hnd; subst. cbn [map]. constructor.
  - intros Hin. apply in_map_iff in Hin. destruct Hin as [y [Hv Hy]].
    assert (x = y) by (apply Hno; [left; reflexivity|right; exact Hy|symmetry; exact Hv]). subst. contradiction.
  - apply IH; [assumption|]. intros a b Ha Hb. apply Hno; right; assumption.
Qed.

Lemma weigh_clause_labels c st : labels_distinct (fst (weigh_clause c st)) <-> NoDup (map lvar c).
Proof.
  unfold labels_distinct. rewrite <- (weigh_clause_fst c st) at 2. rewrite map_map. reflexivity.
Qed.

Lemma weigh_labels : forall L st, Forall (fun c => NoDup (map lvar c)) L -> Forall labels_distinct (weigh L st).
Proof.
  induction L as [|c t IH]; intros st H; cbn [weigh]; [constructor|]. inversion H; subst.
  pose proof (weigh_clause_labels c st) as Hw. destruct (weigh_clause c st) as [wc st1]. cbn [fst] in Hw.
  constructor; [apply Hw; assumption|apply IH; assumption].
Qed.

Lemma sat_clauses_labels cls : Forall labels_distinct (sat_clauses_of cls).
Proof.
  unfold sat_clauses_of. apply weigh_labels. apply Forall_forall. intros c Hc. apply filter_In in Hc.
  destruct Hc as [Hin Ht]. apply in_map_iff in Hin. destruct Hin as [c0 [<- _]].
  apply norm_clause_labels. apply negb_true_iff in Ht. exact Ht.
Qed.

(* ---------- along every valid history ---------- *)
Definition hash_inv (s : solver) : Prop :=
  Forall (fun st => ss_hash st = Pall (s_clauses s) (ss_model st) mod two128) (s_stack s).

Lemma hash_inv_reach pinned cls nvars s0 s ds :
  sat_new pinned cls nvars = NewSome s0 -> reaches pinned s0 s ds -> hash_inv s.
Proof.
  intros Hn Hr. revert s ds Hr. apply reach_ind.
  - pose proof (flag_inv_reach pinned cls nvars s0 s0 [] Hn (ex_intro _ [] eq_refl)) as [Hf Hcl].
    unfold sat_new in Hn.
    destruct (up_new pinned cls nvars (up_fuel nvars cls)) as [|w [state|]]; try discriminate.
    set (bot := mkSS (pm_new nvars) 1%N (repeat false (length (sat_clauses_of cls)))) in *.
    assert (Hb : ss_hash bot = Pall (sat_clauses_of cls) (ss_model bot) mod two128).
    { cbn [bot ss_hash ss_model]. rewrite Pall_new. reflexivity. }
    pose proof (update_hash_Pall (sat_clauses_of cls) bot state (set_inv_bottom _ _) (pm_le_new _ _)
                  (sat_clauses_labels cls) Hb) as Hu.
    destruct (update_hash_and_sat_set (sat_clauses_of cls) bot state) as [h set]. injection Hn as <-.
    unfold hash_inv. cbn [s_stack s_clauses ss_hash ss_model fst] in *.
    constructor; [exact Hu|constructor; [exact Hb|constructor]].
  - intros s ds a s' r Hr Hh Hd Hres.
    destruct (sound_inv_reach _ _ _ _ _ _ Hn Hr) as [Hc [Hw Hs]].
    destruct (flag_inv_reach _ _ _ _ _ _ Hn Hr) as [Hf Hcl].
    destruct (sat_decide_push _ _ _ _ _ Hd Hres) as [w' [nm [Hl [Ed [-> _]]]]].
    rewrite Hc in Ed. apply (proj1 (up_basic pinned cls _)) in Ed; [|exact Hw].
    destruct Ed as [_ [Hm _]]. destruct (Hm nm eq_refl) as [_ Hle].
    unfold hash_inv in *. cbn [s_stack s_clauses]. constructor; [|exact Hh]. cbn [ss_hash ss_model].
    destruct (stack_sound_top _ _ _ Hs) as [t [rest [Est _]]].
    assert (Etop : top_state s = t) by (unfold top_state; rewrite Est; reflexivity).
    unfold flag_inv in Hf. rewrite Est in Hf, Hh. inversion Hf; subst. inversion Hh; subst.
    apply update_hash_Pall; try assumption. rewrite Hcl. apply sat_clauses_labels.
  - intros s ds a s' Hr Hh Hd. destruct (sat_decide_unsat _ _ _ _ Hd) as [w' [_ [_ ->]]]. exact Hh.
  - intros s d ds Hr Hh. unfold hash_inv in *. cbn [sat_pop s_stack s_clauses].
    destruct (s_stack s); [constructor|]. inversion Hh; assumption.
Qed.

(* cur_hash is the product, modulo 2^128, of the weights of the removed literal occurrences:
   all occurrences of the satisfied clauses and the false literals of the others *)
Theorem hash_is_product pinned cls nvars s0 s ds :
  sat_new pinned cls nvars = NewSome s0 -> reaches pinned s0 s ds ->
  sat_cur_hash s = Pall (s_clauses s) (ss_model (top_state s)) mod two128.
Proof.
  intros Hn Hr. pose proof (hash_inv_reach _ _ _ _ _ _ Hn Hr) as Hh.
  destruct (sound_inv_reach _ _ _ _ _ _ Hn Hr) as [_ [_ Hs]].
  destruct (stack_sound_top _ _ _ Hs) as [t [rest [Est _]]].
  unfold sat_cur_hash, top_state. unfold hash_inv in Hh. rewrite Est in *. inversion Hh; assumption.
Qed.

(* ---------- primes ---------- *)
Definition Nprime (p : N) : Prop := 1 < p /\ forall d, (d | p) -> d = 1 \/ d = p.

Lemma Nprime_euclid p a b : Nprime p -> (p | a * b) -> (p | a) \/ (p | b).
Proof.
  intros [Hp Hd] H. destruct (Hd (N.gcd p a) (N.gcd_divide_l p a)) as [Hg|Hg].
  - right. apply (N.gauss p a b H Hg).
  - left. rewrite <- Hg. apply N.gcd_divide_r.
Qed.

Lemma no_div_spec : forall fuel d n, no_div fuel d n = true ->
  forall k, d <= k -> k < d + N.of_nat fuel -> k * k <= n -> n mod k <> 0.
Proof.
  induction fuel as [|f IH]; intros d n H k Hdk Hk Hkk; [simpl in Hk; lia|].
  cbn [no_div] in H. destruct (n <? d * d) eqn:E1.
  - apply N.ltb_lt in E1. assert (d * d <= k * k) by (apply N.mul_le_mono; assumption). lia.
  - destruct (n mod d =? 0) eqn:E2; [discriminate|]. apply N.eqb_neq in E2.
    destruct (N.eq_dec k d) as [->|Hne]; [exact E2|].
    apply (IH (d + 1) n H k); [lia| |exact Hkk]. rewrite Nat2N.inj_succ in Hk. lia.
Qed.

Lemma is_prime_correct n : is_prime n = true -> Nprime n.
Proof.
  unfold is_prime. intros H. apply andb_true_iff in H. destruct H as [H2 Hnd]. apply N.leb_le in H2.
  split; [lia|]. intros e [q Hq].
  destruct (N.eq_dec e 1) as [He1|He1]; [left; exact He1|].
  destruct (N.eq_dec e n) as [Hen|Hen]; [right; exact Hen|]. exfalso.
  assert (He0 : e <> 0) by (intros ->; lia).
  assert (Hq0 : q <> 0) by (intros ->; lia).
  assert (Hq1 : q <> 1) by (intros ->; lia).
  assert (Hspec := no_div_spec (N.to_nat n) 2 n Hnd). rewrite N2Nat.id in Hspec.
  destruct (N.le_ge_cases e q) as [Hle|Hle].
  - apply (Hspec e); [lia| |subst n; apply N.mul_le_mono_r; exact Hle|].
    + assert (e <= n) by (subst n; nia). lia.
    + apply N.mod_divide; [exact He0|]. exists q. exact Hq.
  - apply (Hspec q); [lia| |subst n; apply N.mul_le_mono_l; exact Hle|].
    + assert (q <= n) by (subst n; nia). lia.
    + apply N.mod_divide; [exact Hq0|]. exists e. rewrite Hq. ring.
Qed.

Lemma next_prime_spec : forall fuel c, let p := next_prime fuel c in p = 0 \/ (is_prime p = true /\ c <= p).
Proof.
  induction fuel as [|f IH]; intros c; cbn [next_prime]; [left; reflexivity|].
  destruct (is_prime c) eqn:E; [right; split; [exact E|lia]|].
  destruct (IH (c + 1)) as [H|[H1 H2]]; [left; exact H|right; split; [exact H1|lia]].
Qed.

(* the weights handed out from stream state st to st' *)
Inductive incr : N -> list N -> N -> Prop :=
| incr_nil st : incr st [] st
| incr_cons st p ws st' : (p = 0 \/ (is_prime p = true /\ st <= p)) -> incr (p + 1) ws st' -> incr st (p :: ws) st'.

Lemma incr_app st ws1 st1 ws2 st2 : incr st ws1 st1 -> incr st1 ws2 st2 -> incr st (ws1 ++ ws2) st2.
Proof. induction 1; intros H2; cbn [app]; [exact H2|constructor; auto]. Qed.

Lemma weigh_clause_incr : forall c st, incr st (map snd (fst (weigh_clause c st))) (snd (weigh_clause c st)).
Proof.
  induction c as [|l t IH]; intros st; cbn [weigh_clause]; [constructor|].
  unfold prime_next. set (p := next_prime (N.to_nat st + 2) st).
  specialize (IH (p + 1)). destruct (weigh_clause t (p + 1)) as [r st2]. cbn [fst snd map] in *.
  constructor; [apply next_prime_spec|exact IH].
Qed.

Definition all_weights (cl : list wclause) : list N := map snd (concat cl).

Lemma weigh_incr : forall L st, exists st', incr st (all_weights (weigh L st)) st'.
Proof.
  induction L as [|c t IH]; intros st; cbn [weigh]; [exists st; constructor|].
  pose proof (weigh_clause_incr c st) as Hc. destruct (weigh_clause c st) as [wc st1]. cbn [fst snd] in Hc.
  destruct (IH st1) as [st' Ht]. exists st'. unfold all_weights in *. cbn [concat]. rewrite map_app.
  eapply incr_app; eauto.
Qed.

Lemma incr_primes st ws st' : incr st ws st' -> Forall (fun w => w <> 0) ws ->
  Forall Nprime ws /\ Forall (fun w => st <= w) ws /\ NoDup ws.
Proof.
  induction 1 as [st|st p ws st' Hp Hi IH]; intros Hnz; [repeat split; constructor|].
  inversion Hnz as [|? ? Hp0 Hnz']; subst. destruct Hp as [Hp|[Hpp Hle]]; [contradiction|].
  destruct (IH Hnz') as [H1 [H2 H3]]. split; [|split].
  - constructor; [apply is_prime_correct; exact Hpp|exact H1].
  - constructor; [exact Hle|]. eapply Forall_impl; [|exact H2]. intros a Ha. cbv beta in Ha. lia.
  - constructor; [|exact H3]. intros Hin. eapply Forall_forall in H2; [|exact Hin]. cbv beta in H2. lia.
Qed.

(* ---------- sub-products of distinct primes ---------- *)
Definition prodsel (bs : list bool) (ws : list N) : N :=
  prodf (fun bw : bool * N => if fst bw then snd bw else 1) (combine bs ws).

Lemma prime_div_prodsel p : Nprime p -> forall ws bs, Forall Nprime ws -> (p | prodsel bs ws) -> In p ws.
Proof.
  intros Hp. induction ws as [|q t IH]; intros bs Hall Hd.
  - exfalso. unfold prodsel in Hd. destruct bs; cbn [combine prodf] in Hd; apply N.divide_1_r in Hd; destruct Hp; lia.
  - destruct bs as [|b bs]; [exfalso; unfold prodsel in Hd; cbn [combine prodf] in Hd; apply N.divide_1_r in Hd; destruct Hp; lia|].
    unfold prodsel in Hd. cbn [combine prodf fst snd] in Hd. inversion Hall as [|? ? Hq Hall']; subst.
    apply (Nprime_euclid p _ _ Hp) in Hd. destruct Hd as [Hd|Hd].
    + destruct b.
      * destruct Hq as [_ Hq]. destruct (Hq p Hd) as [H1|H1]; [destruct Hp; lia|left; symmetry; exact H1].
      * apply N.divide_1_r in Hd. destruct Hp; lia.
    + right. apply (IH bs Hall' Hd).
Qed.

Lemma prodsel_inj : forall ws bs1 bs2, Forall Nprime ws -> NoDup ws ->
  length bs1 = length ws -> length bs2 = length ws -> prodsel bs1 ws = prodsel bs2 ws -> bs1 = bs2.
Proof.
  induction ws as [|p t IH]; intros bs1 bs2 Hall Hnd H1 H2 He.
  - destruct bs1, bs2; try discriminate. reflexivity.
  - destruct bs1 as [|a r1], bs2 as [|b r2]; try discriminate.
    inversion Hall as [|? ? Hp Hall']; subst. inversion Hnd as [|? ? Hni Hnd']; subst.
    cbn [length] in H1, H2. unfold prodsel in He. cbn [combine prodf fst snd] in He.
    fold (prodsel r1 t) in He. fold (prodsel r2 t) in He.
    assert (Hp0 : p <> 0) by (destruct Hp; lia).
    destruct a, b.
    + apply N.mul_cancel_l in He; [|exact Hp0]. f_equal. apply IH; auto.
    + exfalso. apply Hni. apply (prime_div_prodsel p Hp t r2 Hall'). exists (prodsel r1 t).
      rewrite N.mul_1_l in He. rewrite <- He. ring.
    + exfalso. apply Hni. apply (prime_div_prodsel p Hp t r1 Hall'). exists (prodsel r2 t).
      rewrite N.mul_1_l in He. rewrite He. ring.
    + rewrite !N.mul_1_l in He. f_equal. apply IH; auto.
Qed.

Lemma prodsel_le : forall ws bs, Forall (fun w => w <> 0) ws -> prodsel bs ws <= prodf (fun w => w) ws.
Proof.
  induction ws as [|p t IH]; intros bs Hnz.
  - unfold prodsel. destruct bs; cbn [combine prodf]; lia.
  - inversion Hnz as [|? ? Hp Hnz']; subst. destruct bs as [|b bs].
    + unfold prodsel. cbn [combine prodf]. specialize (IH [] Hnz'). unfold prodsel in IH. cbn [combine prodf] in IH. nia.
    + unfold prodsel. cbn [combine prodf fst snd]. fold (prodsel bs t). specialize (IH bs Hnz').
      destruct b; [apply N.mul_le_mono_l; exact IH|]. rewrite N.mul_1_l. nia.
Qed.

(* ---------- the product over a flat list of occurrences ---------- *)
Lemma prodf_map {A B} (h : A -> B) (g : B -> N) l : prodf g (map h l) = prodf (fun x => g (h x)) l.
Proof. induction l as [|x t IH]; cbn [map prodf]; [reflexivity|rewrite IH; reflexivity]. Qed.

Lemma prodf_seq_nth {A} (f : A -> N) d l : prodf (fun i => f (nth i l d)) (seq 0 (length l)) = prodf f l.
Proof.
  induction l as [|x t IH]; [reflexivity|]. cbn [length seq prodf nth].
  rewrite <- seq_shift, prodf_map. cbn [nth]. rewrite IH. reflexivity.
Qed.

Definition occs (cl : list wclause) (m : pmodel) : list (bool * N) :=
  concat (map (fun wc => map (fun x => (removed m wc x, snd x)) wc) cl).
Definition sel (cl : list wclause) (m : pmodel) : list bool := map fst (occs cl m).

Lemma combine_fst_snd {A B} (l : list (A * B)) : combine (map fst l) (map snd l) = l.
Proof. induction l as [|[a b] t IH]; cbn [map combine fst snd]; [reflexivity|rewrite IH; reflexivity]. Qed.

Lemma occs_weights cl m : map snd (occs cl m) = all_weights cl.
Proof.
  unfold occs, all_weights. induction cl as [|wc t IH]; [reflexivity|]. cbn [map concat].
  rewrite !map_app, IH, map_map. reflexivity.
Qed.

Lemma Pall_flat cl m : Pall cl m = prodsel (sel cl m) (all_weights cl).
Proof.
  unfold Pall. rewrite (prodf_seq_nth (Rcl m) [] cl). unfold prodsel, sel.
  rewrite <- (occs_weights cl m), combine_fst_snd. unfold occs.
  induction cl as [|wc t IH]; [reflexivity|]. cbn [prodf map concat]. rewrite prodf_app, <- IH. f_equal.
  unfold Rcl. rewrite prodf_map. reflexivity.
Qed.

Lemma sel_length cl m : length (sel cl m) = length (all_weights cl).
Proof. unfold sel. rewrite <- (occs_weights cl m), !map_length. reflexivity. Qed.

Lemma prodf_nonzero (ws : list N) : prodf (fun w => w) ws <> 0 -> Forall (fun w => w <> 0) ws.
Proof.
  induction ws as [|p t IH]; intros H; [constructor|]. cbn [prodf] in H.
  constructor; [intros ->; apply H; reflexivity|apply IH; intros Hx; apply H; rewrite Hx; ring].
Qed.

(* equal hashes under the guard => the same occurrences are removed *)
Lemma equal_hash_equal_sel cl st st' m1 m2 :
  incr st (all_weights cl) st' ->
  0 < prodf (fun w => w) (all_weights cl) < two128 ->
  Pall cl m1 mod two128 = Pall cl m2 mod two128 -> sel cl m1 = sel cl m2.
Proof.
  intros Hi [Hpos Hlt] He. assert (Hnz : Forall (fun w => w <> 0) (all_weights cl)) by (apply prodf_nonzero; lia).
  destruct (incr_primes _ _ _ Hi Hnz) as [Hpr [_ Hnd]].
  rewrite !Pall_flat in He.
  rewrite !N.mod_small in He by (eapply N.le_lt_trans; [apply prodsel_le; exact Hnz|exact Hlt]).
  eapply prodsel_inj; eauto using sel_length.
Qed.

(* ---------- from the removed occurrences to the residual formula ---------- *)
Definition residual (cl : list wclause) (m : pmodel) : list (option clause) :=
  map (fun wc => if wc_sat m wc then None else Some (remaining m (map fst wc))) cl.
Definition no_falsified (cl : list wclause) (m : pmodel) : Prop :=
  forall wc, In wc cl -> wc_sat m wc = false -> exists x, In x wc /\ lit_false m (fst x) = false.

Lemma app_eq_length {A} (l1 l2 r1 r2 : list A) :
  l1 ++ r1 = l2 ++ r2 -> length l1 = length l2 -> l1 = l2 /\ r1 = r2.
Proof.
  revert l2. induction l1 as [|x t IH]; intros [|y u] H Hl; try discriminate; [auto|].
  cbn [app] in H. injection H as -> H. destruct (IH u H) as [-> ->]; [simpl in Hl; lia|auto].
Qed.

Lemma concat_map_inj {A B} (f g : A -> list B) l :
  (forall x, length (f x) = length (g x)) -> concat (map f l) = concat (map g l) ->
  forall x, In x l -> f x = g x.
Proof.
  intros Hlen. induction l as [|a t IH]; intros H x Hx; [destruct Hx|]. cbn [map concat] in H.
  apply app_eq_length in H; [|apply Hlen]. destruct H as [H1 H2].
  destruct Hx as [<-|Hx]; [exact H1|apply IH; assumption].
Qed.

Lemma sel_eq_residual cl m1 m2 :
  no_falsified cl m1 -> no_falsified cl m2 -> sel cl m1 = sel cl m2 -> residual cl m1 = residual cl m2.
Proof.
  intros Hn1 Hn2 Hs. unfold sel, occs in Hs. rewrite !concat_map, !map_map in Hs.
  assert (Hcl : forall wc, In wc cl -> map (removed m1 wc) wc = map (removed m2 wc) wc).
  { intros wc Hwc.
    pose proof (concat_map_inj (fun wc => map fst (map (fun x => (removed m1 wc x, snd x)) wc))
                               (fun wc => map fst (map (fun x => (removed m2 wc x, snd x)) wc)) cl) as Hc.
    cbv beta in Hc. assert (Hc' := Hc (fun x => ltac:(rewrite !map_length; reflexivity)) Hs wc Hwc).
    rewrite !map_map in Hc'. cbn [fst] in Hc'. exact Hc'. }
  unfold residual. apply map_ext_in. intros wc Hwc.
  pose proof (ext_in_map (Hcl wc Hwc)) as Hr. unfold removed in Hr.
  destruct (wc_sat m1 wc) eqn:E1, (wc_sat m2 wc) eqn:E2; cbn [orb] in Hr.
  - reflexivity.
  - exfalso. destruct (Hn2 wc Hwc E2) as [x [Hx Hf]]. rewrite <- (Hr x Hx) in Hf. discriminate.
  - exfalso. destruct (Hn1 wc Hwc E1) as [x [Hx Hf]]. rewrite (Hr x Hx) in Hf. discriminate.
  - f_equal. unfold remaining. apply filter_ext_in. intros y Hy. apply in_map_iff in Hy.
    destruct Hy as [x [<- Hx]]. unfold lit_unset.
    rewrite (not_true_false_set m1 (fst x) (wc_sat_false_all _ _ _ E1 Hx)).
    rewrite (not_true_false_set m2 (fst x) (wc_sat_false_all _ _ _ E2 Hx)). rewrite (Hr x Hx). reflexivity.
Qed.

(* reachable states of the repaired code have no falsified clause (the fix-point theorem) *)
Lemma fixpoint_no_falsified cls m : fixpoint_ok cls m = true -> no_falsified (sat_clauses_of cls) m.
Proof.
  intros Hf wc Hwc Hs. unfold sat_clauses_of in Hwc.
  set (L := filter (fun c => negb (tautological c)) (map norm_clause cls)) in *.
  assert (HL : In (map fst wc) L) by (rewrite <- (weigh_fst L 2%N); apply in_map; exact Hwc).
  apply filter_In in HL. destruct HL as [Hin _]. apply in_map_iff in Hin. destruct Hin as [c [Hn Hc]].
  unfold fixpoint_ok in Hf. rewrite forallb_forall in Hf. specialize (Hf c Hc). unfold clause_quiet in Hf.
  rewrite wc_sat_clause_sat, <- Hn, clause_sat_norm in Hs. rewrite Hs in Hf. cbn [orb] in Hf.
  apply Nat.leb_le in Hf. destruct (remaining m c) as [|u r] eqn:Er; [simpl in Hf; lia|].
  assert (Hu : In u (remaining m c)) by (rewrite Er; left; reflexivity).
  apply remaining_in in Hu. destruct Hu as [Huc Huu].
  assert (Hun : In u (map fst wc)) by (rewrite <- Hn; apply in_norm_clause; exact Huc).
  apply in_map_iff in Hun. destruct Hun as [x [Hx Hxw]]. exists x. split; [exact Hxw|].
  rewrite Hx. apply unset_not_false. exact Huu.
Qed.

Lemma sat_clauses_incr cls : exists st', incr 2 (all_weights (sat_clauses_of cls)) st'.
Proof. unfold sat_clauses_of. apply weigh_incr. Qed.

(* ---------- hash_injective ---------- *)
Theorem hash_injective nvars cls s0 s1 ds1 s2 ds2 :
  lits_in_range nvars cls -> rem_adj_ok cls ->
  sat_new false cls nvars = NewSome s0 ->
  0 < prodf (fun w => w) (all_weights (s_clauses s0)) < two128 ->
  reaches false s0 s1 ds1 -> reaches false s0 s2 ds2 ->
  sat_cur_hash s1 = sat_cur_hash s2 ->
  residual (s_clauses s0) (ss_model (top_state s1)) = residual (s_clauses s0) (ss_model (top_state s2)).
Proof.
  intros Hrange Hadj Hn Hg Hr1 Hr2 He.
  destruct (flag_inv_reach _ _ _ _ _ _ Hn (ex_intro _ [] eq_refl)) as [_ Hc0].
  destruct (flag_inv_reach _ _ _ _ _ _ Hn Hr1) as [_ Hc1].
  destruct (flag_inv_reach _ _ _ _ _ _ Hn Hr2) as [_ Hc2].
  rewrite (hash_is_product _ _ _ _ _ _ Hn Hr1), (hash_is_product _ _ _ _ _ _ Hn Hr2), Hc1, Hc2 in He.
  rewrite Hc0 in *. destruct (sat_clauses_incr cls) as [st' Hi].
  apply sel_eq_residual.
  - apply fixpoint_no_falsified. eapply up_fixpoint; eauto.
  - apply fixpoint_no_falsified. eapply up_fixpoint; eauto.
  - eapply equal_hash_equal_sel; eauto.
Qed.

Theorem hash_injective_raw raw s0 s1 ds1 s2 ds2 :
  solver_of_raw false raw = NewSome s0 ->
  0 < prodf (fun w => w) (all_weights (s_clauses s0)) < two128 ->
  reaches false s0 s1 ds1 -> reaches false s0 s2 ds2 ->
  sat_cur_hash s1 = sat_cur_hash s2 ->
  residual (s_clauses s0) (ss_model (top_state s1)) = residual (s_clauses s0) (ss_model (top_state s2)).
Proof.
  unfold solver_of_raw. intros Hn. eapply hash_injective; eauto; [apply cnf_num_vars_range|apply cnf_new_adj_ok].
Qed.

(* the converse needs no guard: identical removed occurrences give equal hashes *)
Theorem equal_sel_equal_hash pinned cls nvars s0 s1 ds1 s2 ds2 :
  sat_new pinned cls nvars = NewSome s0 -> reaches pinned s0 s1 ds1 -> reaches pinned s0 s2 ds2 ->
  sel (s_clauses s0) (ss_model (top_state s1)) = sel (s_clauses s0) (ss_model (top_state s2)) ->
  sat_cur_hash s1 = sat_cur_hash s2.
Proof.
  intros Hn Hr1 Hr2 Hs.
  destruct (flag_inv_reach _ _ _ _ _ _ Hn (ex_intro _ [] eq_refl)) as [_ Hc0].
  destruct (flag_inv_reach _ _ _ _ _ _ Hn Hr1) as [_ Hc1].
  destruct (flag_inv_reach _ _ _ _ _ _ Hn Hr2) as [_ Hc2].
  rewrite (hash_is_product _ _ _ _ _ _ Hn Hr1), (hash_is_product _ _ _ _ _ _ Hn Hr2), Hc1, Hc2.
  rewrite Hc0 in Hs. rewrite !Pall_flat, Hs. reflexivity.
Qed.
