(* C11 -- SemanticSddBuilder, the UNCONDITIONAL half: on pointers satisfying the semantic invariant
   [swf] the builder's hash (cached_semantic_hash: complement = negate, decision node = sum of
   prime * sub) is the defining sum over the models of the denoted function.  Hence equal
   functions have equal hashes and a negated function has the negated hash, whatever else
   collides: sdd_eq never judges two equal functions different, and get_or_insert never inserts a
   second node for a function (or the negation of a function) that is already stored.
   No injectivity hypothesis in this file. *)
From Coq Require Import Bool NArith List Lia Arith Permutation.
Import ListNotations.
From RsddV Require Import Base.Bdd Base.Util Model.Wmc Model.SddVtree Model.SddOps Model.Semirings Model.SemHash
  Model.SddSemBuilder.
From RsddV Require Import Proofs.Semirings Proofs.Wmc Proofs.SemHash Proofs.SemHashSdd Proofs.SddBase Proofs.SddVtree
  Proofs.SddWmc Proofs.SddInv Proofs.SddLoops Proofs.SddSemBuilderBase.

Section Hash.
Variable t : vtree.
Hypothesis ND : NoDup (vleaves t).
Variable P : N.
Hypothesis OK : ff_ok P.
Variable w : wmap.
Hypothesis WR : wrange P w.
Variable vars : list var.
Hypothesis NDV : NoDup vars.
Hypothesis INC : incl (vleaves t) vars.
Variable x : asg.

Local Open Scope N_scope.
Let HP : 1 < P. Proof. destruct OK; assumption. Qed.

Notation H := (shash P w).
Notation F f := (fhash P w vars f x).
Notation swf := (swf t).
Notation sokl := (sokl t).

(* ---- constants and literals ---- *)
Lemma fhash_true : F (fun _ => true) = 1.
Proof.
  rewrite <- (fhash_ext P OK w WR vars (fun a => xorb false (den BT a)) (fun _ => true) x) by reflexivity.
  rewrite <- (hash_is_sum P OK w WR BT false vars x); [reflexivity | exact I | exact NDV | intros v []].
Qed.
Lemma fhash_false : F (fun _ => false) = 0.
Proof.
  rewrite <- (fhash_ext P OK w WR vars (fun a => xorb false (den BF a)) (fun _ => false) x) by reflexivity.
  rewrite <- (hash_is_sum P OK w WR BF false vars x); [reflexivity | exact I | exact NDV | intros v []].
Qed.
Lemma fhash_lit v pol : In v vars -> F (sden (SVar v pol)) = if pol then swh w v else swl w v.
Proof.
  intros Hv. destruct pol.
  - rewrite <- (fhash_ext P OK w WR vars (fun a => xorb false (den (BN false v BF BT) a)) (sden (SVar v true)) x).
    + rewrite <- (hash_is_sum P OK w WR (BN false v BF BT) false vars x).
      * unfold zhash_c. cbn [wmc_c xorb sr_add sr_mul zp_ops]. rewrite N.mul_0_r, N.mul_1_r.
        rewrite (N.mod_small 0) by lia. rewrite N.add_0_l, N.mod_mod by lia. apply N.mod_small. apply (swh_lt P OK w WR).
      * simpl. tauto.
      * exact NDV.
      * intros u Hu. simpl in Hu. destruct Hu as [<-|[]]. exact Hv.
    + intros a. simpl. destruct (a v); reflexivity.
  - rewrite <- (fhash_ext P OK w WR vars (fun a => xorb false (den (BN false v BT BF) a)) (sden (SVar v false)) x).
    + rewrite <- (hash_is_sum P OK w WR (BN false v BT BF) false vars x).
      * unfold zhash_c. cbn [wmc_c xorb sr_add sr_mul zp_ops]. rewrite N.mul_0_r, N.mul_1_r.
        rewrite (N.mod_small 0) by lia. rewrite N.add_0_r, N.mod_mod by lia. apply N.mod_small. apply (swl_lt P OK w WR).
      * simpl. tauto.
      * exact NDV.
      * intros u Hu. simpl in Hu. destruct Hu as [<-|[]]. exact Hv.
    + intros a. simpl. destruct (a v); reflexivity.
Qed.

(* ---- a decision node ---- *)
Definition fpairs (els : list elem) : list ((asg -> bool) * (asg -> bool)) :=
  map (fun e => (sden (fst e), sden (snd e))) els.

Lemma den_pairs_fpairs els a : den_pairs (fpairs els) a = den_els els a.
Proof. unfold den_pairs, fpairs, den_els. induction els as [|[p s] r IH]; [reflexivity|]. cbn [map existsb fst snd]. rewrite IH. reflexivity. Qed.

Lemma cnt_pos_in els p s a : In (p, s) els -> sden p a = true -> (1 <= cnt els a)%nat.
Proof.
  induction els as [|[q u] r IH]; intros Hin Hp; [destruct Hin|]. rewrite cnt_cons.
  destruct Hin as [[= -> ->]|Hin]; [rewrite Hp; lia | specialize (IH Hin Hp); lia].
Qed.

Lemma excl_primes_fpairs els : excl els -> excl_primes (fpairs els).
Proof.
  induction els as [|[p s] r IH]; intros Hex; [exact I|]. cbn [fpairs map fst snd excl_primes]. split.
  - intros q u Hin a. unfold fpairs in Hin. apply in_map_iff in Hin. destruct Hin as ([q' u'] & [= <- <-] & Hin).
    cbn [fst]. specialize (Hex a). rewrite cnt_cons in Hex.
    destruct (sden p a) eqn:Ep; [|reflexivity]. destruct (sden q' a) eqn:Eq; [|reflexivity].
    pose proof (cnt_pos_in r q' u' a Hin Eq). lia.
  - apply IH. intros a. specialize (Hex a). rewrite cnt_cons in Hex. lia.
Qed.

Fixpoint raw_sum (els : list elem) : N :=
  match els with
  | [] => 0
  | (pr, sb) :: r => mulP P (H pr) (H sb) + raw_sum r
  end.

Lemma shash_or c i els : H (SOr c i els) = cneg P c (raw_sum els mod P).
Proof. reflexivity. Qed.

Lemma zsum_raw els :
  Forall (fun e : elem => H (fst e) = F (sden (fst e)) /\ H (snd e) = F (sden (snd e))) els ->
  zsum_pairs P w vars (fpairs els) x = raw_sum els mod P.
Proof.
  induction 1 as [|[p s] r [Hp Hs] _ IH]; cbn [fpairs map fst snd zsum_pairs raw_sum].
  - rewrite N.mod_small by lia. reflexivity.
  - cbn [fst snd] in Hp, Hs. fold (fpairs r). rewrite IH. unfold mulP. rewrite Hp, Hs.
    rewrite N.add_mod_idemp_r by lia. reflexivity.
Qed.

Lemma lr_disjoint l r off v : occurs t 0 (VNode l r) off -> In v (vleaves l) -> ~ In v (vleaves r).
Proof.
  intros Ho Hl Hr. pose proof (occurs_nodup t 0 _ off ND Ho) as N'. simpl in N'.
  destruct (NoDup_app_split _ _ N') as (_ & _ & Hd). exact (Hd v Hl Hr).
Qed.

Lemma node_hash l r off els : occurs t 0 (VNode l r) off -> sokl l r els -> part els ->
  Forall (fun e : elem => H (fst e) = F (sden (fst e)) /\ H (snd e) = F (sden (snd e))) els ->
  raw_sum els mod P = F (den_els els).
Proof.
  intros Ho Hok Hp HI. rewrite <- (zsum_raw els HI).
  rewrite <- (fhash_sdd_node P OK w WR vars (fpairs els) x NDV).
  - apply (fhash_ext P OK w WR). intros a. apply den_pairs_fpairs.
  - apply excl_primes_fpairs. apply part_excl. exact Hp.
  - intros p s Hin. unfold fpairs in Hin. apply in_map_iff in Hin. destruct Hin as ([p' s'] & [= <- <-] & Hin).
    cbn [fst snd]. destruct (sokl_in t l r els p' s' Hok Hin) as (_ & _ & Dp & Ds).
    split; [intros a a' E; apply sden_ext; exact E|]. split; [intros a a' E; apply sden_ext; exact E|].
    intros v _. destruct (in_dec N.eq_dec v (vleaves l)) as [Hl|Hl].
    + right. apply Ds. eapply lr_disjoint; eauto.
    + left. apply Dp. exact Hl.
Qed.

Lemma cneg_fhash c (f g : asg -> bool) h : h = F f -> (forall a, g a = xorb c (f a)) -> cneg P c h = F g.
Proof.
  intros -> E. destruct c; cbn [cneg].
  - rewrite (fhash_ext P OK w WR vars g (fun a => negb (f a)) x) by (intros a; rewrite E; reflexivity).
    rewrite (fhash_neg P OK w WR). reflexivity.
  - apply (fhash_ext P OK w WR). intros a. rewrite E. destruct (f a); reflexivity.
Qed.

(* MAIN (unconditional): the builder's hash of a well-formed pointer is the defining sum *)
Theorem shash_is_sum : forall p, swf p -> H p = F (sden p).
Proof.
  induction p as [| |v b|c lb i lo hi IHlo IHhi|c i els IH] using sdd_ind'; intros Wp.
  - rewrite (shash_ST P OK w). symmetry. apply fhash_true.
  - rewrite (shash_SF P OK w). symmetry. apply fhash_false.
  - inversion Wp as [| |? ? Hv| |]; subst. rewrite fhash_lit by (apply INC; exact Hv). reflexivity.
  - inversion Wp as [| | |l r off c0 lbl0 lo0 hi0 Ho Hl Wlo Whi Dlo Dhi|]; subst.
    assert (HvT : In lb (vleaves t)) by (eapply occurs_leaves; [exact Ho|]; simpl; apply in_or_app; auto).
    set (els := [(SVar lb false, lo); (SVar lb true, hi)]).
    assert (Hok : sokl l r els).
    { apply sokl_cons. split; [constructor; exact HvT|]. split; [exact Wlo|]. split; [apply dep_var; exact Hl|]. split; [exact Dlo|].
      apply sokl_cons. split; [constructor; exact HvT|]. split; [exact Whi|]. split; [apply dep_var; exact Hl|]. split; [exact Dhi|].
      constructor. }
    assert (Hp : part els).
    { intros a. unfold cnt, els. simpl. destruct (a lb); reflexivity. }
    assert (HI : Forall (fun e : elem => H (fst e) = F (sden (fst e)) /\ H (snd e) = F (sden (snd e))) els).
    { constructor; [split; [symmetry; apply (fhash_lit lb false); apply INC; exact HvT | apply IHlo; exact Wlo]|].
      constructor; [split; [symmetry; apply (fhash_lit lb true); apply INC; exact HvT | apply IHhi; exact Whi]|]. constructor. }
    pose proof (node_hash l r off els Ho Hok Hp HI) as E.
    cbn [SddSemBuilder.shash]. apply (cneg_fhash c (den_els els)).
    + rewrite <- E. unfold els. cbn [raw_sum SddSemBuilder.shash]. unfold mulP. rewrite N.add_0_r.
      rewrite (N.mul_comm (H lo)), (N.mul_comm (H hi)). reflexivity.
    + intros a. unfold den_els, els. simpl. destruct (a lb), (sden hi a), (sden lo a); reflexivity.
  - inversion Wp as [| | | |l r off c0 els0 Ho Hok Hp]; subst.
    assert (HI : Forall (fun e : elem => H (fst e) = F (sden (fst e)) /\ H (snd e) = F (sden (snd e))) els).
    { unfold SddSemBuilderBase.sokl in Hok. rewrite Forall_forall in *. intros e He.
      destruct (IH e He) as [I1 I2]. destruct (Hok e He) as (W1 & W2 & _). auto. }
    rewrite shash_or. apply (cneg_fhash c (den_els els)).
    + apply (node_hash l r off els Ho Hok Hp HI).
    + intros a. apply sden_or.
Qed.
End Hash.

(* ---- consequences, stated without the auxiliary variable list ---- *)
Section Never.
Variable t : vtree.
Hypothesis ND : NoDup (vleaves t).
Variable P : N.
Hypothesis OK : ff_ok P.
Variable w : wmap.
Hypothesis WR : wrange P w.
Notation H := (shash P w).
Notation swf := (swf t).

Theorem shash_denotational p q : swf p -> swf q -> (forall a, sden p a = sden q a) -> H p = H q.
Proof.
  intros Wp Wq E.
  rewrite (shash_is_sum t ND P OK w WR (vleaves t) ND (incl_refl _) asg0 p Wp).
  rewrite (shash_is_sum t ND P OK w WR (vleaves t) ND (incl_refl _) asg0 q Wq).
  apply (fhash_ext P OK w WR). exact E.
Qed.

Theorem shash_denotational_neg p q : swf p -> swf q -> (forall a, sden p a = negb (sden q a)) -> H p = negP P (H q).
Proof.
  intros Wp Wq E. rewrite <- (shash_sneg P OK w WR). apply shash_denotational; auto using swf_sneg.
  intros a. rewrite sden_sneg. apply E.
Qed.

(* sdd_eq never judges two equal functions different: no hypothesis on collisions *)
Theorem eqS_never_splits a b st : swf a -> swf b -> (forall x, sden a x = sden b x) ->
  eqS H a b st = Ok (true, st, [EPtr a; EPtr b]).
Proof. intros Wa Wb E. unfold eqS. rewrite (shash_denotational a b Wa Wb E), N.eqb_refl. reflexivity. Qed.

(* every stored node is well formed and filed under its own hash *)
Definition store_wf (st : sst) : Prop :=
  forall h p, tbl_get (s_tbl st) h = Some p -> H p = h /\ swf p.

(* get_or_insert never stores a second node for a function that is stored already, nor for the
   negation of one: the request is answered from the tables, which do not change *)
Theorem get_or_insert_never_splits n st h p : store_wf st -> swf n ->
  tbl_get (s_tbl st) h = Some p ->
  ((forall a, sden p a = sden n a) \/ (forall a, sden p a = negb (sden n a))) ->
  exists r, get_or_insert P H n st = Ok (r, st, [EReq n]).
Proof.
  intros Hst Wn Hg E. destruct (Hst h p Hg) as [Hh Wp]. unfold get_or_insert, check_hash_and_neg.
  destruct (get_shared st (H n)) as [r|] eqn:E1; [eexists; reflexivity|].
  destruct (get_shared st (negP P (H n))) as [r|] eqn:E2; [eexists; reflexivity|].
  exfalso. destruct E as [E|E].
  - pose proof (shash_denotational p n Wp Wn E) as Ep. rewrite <- Ep, Hh in E1.
    unfold get_shared in E1. destruct (N.eqb h 0); [discriminate|]. destruct (N.eqb h 1); [discriminate|]. congruence.
  - pose proof (shash_denotational_neg p n Wp Wn E) as Ep. rewrite <- Ep, Hh in E2.
    unfold get_shared in E2. destruct (N.eqb h 0); [discriminate|]. destruct (N.eqb h 1); [discriminate|]. congruence.
Qed.
End Never.
