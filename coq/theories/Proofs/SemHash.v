(* C11: semantic hashing is denotational.  Proofs about Model/SemHash.v.

   Three layers:
   (1) the hash as coded ([hash_m]: option N, u128 arithmetic with panics, both build modes);
   (2) the same fold / the defining sum in plain integer arithmetic modulo P ([zhash_c], [fhash]);
   (3) the ring Z/P as a type ([zp P] = residues below P) on which the semiring laws hold
       unconditionally, so that C07's theorems (stated for any commutative semiring) apply.
   P is NOT assumed prime anywhere (U32_TINY = 1000001 = 101 * 9901 is not): ring laws only. *)
From Coq Require Import Bool NArith List Lia Arith Eqdep_dec.
Import ListNotations.
From RsddV Require Import Base.Bdd Model.Wmc Proofs.Wmc Model.Semirings Proofs.Semirings Model.SemHash
  Proofs.SemHashSdd Generated.Constants.

Local Open Scope N_scope.

(* ===================================================================================== *)
(* generic facts about the fold and the defining sum, for any commutative semiring           *)
Section Generic.
Variable S : Type.
Variable add mul : S -> S -> S.
Variable zero one : S.
Hypothesis add_comm : forall a b, add a b = add b a.
Hypothesis add_assoc : forall a b c, add (add a b) c = add a (add b c).
Hypothesis mul_one_r : forall a, mul a one = a.
Hypothesis add_zero_r : forall a, add a zero = a.
Hypothesis distr_l : forall a b c, mul a (add b c) = add (mul a b) (mul a c).
Variable wlo whi : var -> S.
Hypothesis w_norm : forall v, add (wlo v) (whi v) = one.

Notation wmc_c := (wmc_c S add mul zero one wlo whi).
Notation wmc_spec := (wmc_spec S add mul zero one wlo whi).

Lemma add_swap4 a b c d : add (add a b) (add c d) = add (add a c) (add b d).
Proof. rewrite !add_assoc. f_equal. rewrite <- !add_assoc. f_equal. apply add_comm. Qed.

(* the fold of a pointer and of its complement add up to one: EVERY diagram (no freeness) *)
Lemma wmc_c_compl p : forall c, add (wmc_c (negb c) p) (wmc_c c p) = one.
Proof.
  induction p as [| |c' v lo IHlo hi IHhi]; intros c.
  - destruct c; simpl; [|rewrite add_comm]; apply add_zero_r.
  - destruct c; simpl; [rewrite add_comm|]; apply add_zero_r.
  - cbn [Wmc.wmc_c]. replace (xorb (negb c) c') with (negb (xorb c c')) by (destruct c, c'; reflexivity).
    rewrite add_swap4, <- !distr_l, IHlo, IHhi, !mul_one_r. apply w_norm.
Qed.

(* the fold of the negated pointer is the complemented fold *)
Lemma wmc_c_neg p c : wmc_c c (neg p) = wmc_c (negb c) p.
Proof.
  destruct p as [| |c' v lo hi]; simpl; try (destruct c; reflexivity).
  replace (xorb c (negb c')) with (xorb (negb c) c') by (destruct c, c'; reflexivity). reflexivity.
Qed.

(* the defining sum of a function and of its negation add up to one *)
Lemma wmc_spec_compl vars f : forall x,
  add (wmc_spec vars (fun a => negb (f a)) x) (wmc_spec vars f x) = one.
Proof.
  induction vars as [|v vs IH]; intros x; simpl.
  - destruct (f x); simpl; [rewrite add_comm|]; apply add_zero_r.
  - rewrite add_swap4, <- !distr_l, !IH, !mul_one_r. apply w_norm.
Qed.
End Generic.

(* ===================================================================================== *)
(* Z/P as a type                                                                            *)
Definition zp (P : N) : Type := { x : N | (x <? P) = true }.

Lemma zp_eq P (a b : zp P) : proj1_sig a = proj1_sig b -> a = b.
Proof.
  destruct a as [a Ha], b as [b Hb]; simpl. intros ->. f_equal.
  apply UIP_dec. apply Bool.bool_dec.
Qed.

Lemma zp_lt P (a : zp P) : proj1_sig a < P.
Proof. destruct a as [a Ha]; simpl. apply N.ltb_lt. exact Ha. Qed.

Section ZP.
Variable P : N.
Hypothesis HP : 1 < P.

Lemma mod_ltb x : (x mod P <? P) = true.
Proof. apply N.ltb_lt. apply N.mod_lt. lia. Qed.

Definition zmk (x : N) : zp P := exist _ (x mod P) (mod_ltb x).
Definition zadd (a b : zp P) : zp P := zmk (proj1_sig a + proj1_sig b).
Definition zmul (a b : zp P) : zp P := zmk (proj1_sig a * proj1_sig b).
Definition z0 : zp P := zmk 0.
Definition z1 : zp P := zmk 1.

Lemma zmk_val x : proj1_sig (zmk x) = x mod P. Proof. reflexivity. Qed.
Lemma zmk_small x : x < P -> proj1_sig (zmk x) = x.
Proof. intros H. cbn [proj1_sig zadd zmul zmk z0 z1]. apply N.mod_small. exact H. Qed.

Lemma zadd_comm a b : zadd a b = zadd b a.
Proof. apply zp_eq. cbn [proj1_sig zadd zmul zmk z0 z1]. f_equal. lia. Qed.
Lemma zadd_assoc a b c : zadd (zadd a b) c = zadd a (zadd b c).
Proof.
  apply zp_eq. cbn [proj1_sig zadd zmul zmk z0 z1]. rewrite N.add_mod_idemp_l, N.add_mod_idemp_r by lia. f_equal. lia.
Qed.
Lemma zmul_comm a b : zmul a b = zmul b a.
Proof. apply zp_eq. cbn [proj1_sig zadd zmul zmk z0 z1]. f_equal. lia. Qed.
Lemma zmul_assoc a b c : zmul (zmul a b) c = zmul a (zmul b c).
Proof.
  apply zp_eq. cbn [proj1_sig zadd zmul zmk z0 z1]. rewrite N.mul_mod_idemp_l, N.mul_mod_idemp_r by lia. f_equal. lia.
Qed.
Lemma zmul_one_r a : zmul a z1 = a.
Proof.
  apply zp_eq. cbn [proj1_sig zadd zmul zmk z0 z1]. rewrite (N.mod_small 1) by lia. rewrite N.mul_1_r.
  apply N.mod_small. apply zp_lt.
Qed.
Lemma zadd_zero_r a : zadd a z0 = a.
Proof.
  apply zp_eq. cbn [proj1_sig zadd zmul zmk z0 z1]. rewrite (N.mod_small 0) by lia. rewrite N.add_0_r.
  apply N.mod_small. apply zp_lt.
Qed.
Lemma zmul_zero_r a : zmul a z0 = z0.
Proof.
  apply zp_eq. cbn [proj1_sig zadd zmul zmk z0 z1]. rewrite (N.mod_small 0) by lia. rewrite N.mul_0_r. reflexivity.
Qed.
Lemma zdistr_l a b c : zmul a (zadd b c) = zadd (zmul a b) (zmul a c).
Proof.
  apply zp_eq. cbn [proj1_sig zadd zmul zmk z0 z1]. rewrite N.mul_mod_idemp_r by lia. rewrite <- N.add_mod by lia. f_equal. lia.
Qed.
End ZP.

(* ===================================================================================== *)
(* weights                                                                                  *)

(* the weight map as total functions; the default (1,0) is never reached under [vars_in] *)
Definition wl (w : wmap) (v : var) : N := fst (nth (N.to_nat v) w (1, 0)).
Definition wh (w : wmap) (v : var) : N := snd (nth (N.to_nat v) w (1, 0)).

(* every variable tested by p has an entry in the map (otherwise var_weight panics) *)
Definition vars_in (p : bdd) (w : wmap) : Prop := forall v, In v (support p) -> (N.to_nat v < length w)%nat.

(* residues with low + high = 1 (mod P) *)
Definition wrange (P : N) (w : wmap) : Prop :=
  forall lh, In lh w -> fst lh < P /\ snd lh < P /\ (fst lh + snd lh) mod P = 1.

Lemma w_lo_in w v : (N.to_nat v < length w)%nat -> w_lo w v = Some (wl w v).
Proof.
  intros H. unfold w_lo, wl. destruct (nth_error w (N.to_nat v)) as [lh|] eqn:E.
  - rewrite (nth_error_nth _ _ _ E). reflexivity.
  - apply nth_error_None in E. lia.
Qed.
Lemma w_hi_in w v : (N.to_nat v < length w)%nat -> w_hi w v = Some (wh w v).
Proof.
  intros H. unfold w_hi, wh. destruct (nth_error w (N.to_nat v)) as [lh|] eqn:E.
  - rewrite (nth_error_nth _ _ _ E). reflexivity.
  - apply nth_error_None in E. lia.
Qed.

Lemma wrange_total P w : 1 < P -> wrange P w ->
  forall v, wl w v < P /\ wh w v < P /\ (wl w v + wh w v) mod P = 1.
Proof.
  intros HP R v. unfold wl, wh.
  destruct (Nat.lt_ge_cases (N.to_nat v) (length w)) as [L|L].
  - apply R. apply nth_In. exact L.
  - rewrite nth_overflow by exact L. cbn [fst snd]. repeat split; try lia. apply N.mod_small. lia.
Qed.

(* (P - h + 1) + h = 1 in Z/P: what create_semantic_hash_map establishes *)
Lemma low_high_sum P h : 1 < P -> h < P -> ((P - h + 1) mod P + h) mod P = 1.
Proof.
  intros HP Hh. rewrite N.add_mod_idemp_l by lia.
  replace (P - h + 1 + h) with (1 + 1 * P) by lia. rewrite N.mod_add by lia. apply N.mod_small. lia.
Qed.

Lemma weights_ok_range P w : 1 < P -> weights_ok P w = true -> wrange P w.
Proof.
  intros HP H lh Hin. unfold weights_ok in H. rewrite forallb_forall in H. specialize (H lh Hin).
  unfold weight_ok in H. apply andb_true_iff in H. destruct H as [H H3].
  apply andb_true_iff in H. destruct H as [H1 H2].
  apply N.leb_le in H1. apply N.ltb_lt in H2. apply N.eqb_eq in H3.
  repeat split.
  - rewrite H3. apply N.mod_lt. lia.
  - exact H2.
  - rewrite H3. apply low_high_sum; assumption.
Qed.

(* the weights as coded: l = FiniteField::new(P - h + 1) is the same expression as h.negate() *)
Lemma weights_sum_one_gen m P h : ff_ok P -> 2 <= h -> h < P ->
  exists l, ff_negate m P h = Some l /\ l = P - h + 1 /\ 2 <= l /\ l < P /\ ff_add m P l h = Some 1.
Proof.
  intros [HP HP2] H2 Hh. exists (P - h + 1).
  rewrite ff_negate_exact_gen by assumption. unfold zp_sub.
  assert (E : (1 + P - h) mod P = P - h + 1).
  { replace (1 + P - h) with (P - h + 1) by lia. apply N.mod_small. lia. }
  rewrite E. repeat split; try lia.
  rewrite ff_add_exact_gen by lia. f_equal.
  replace (P - h + 1 + h) with (1 + 1 * P) by lia. rewrite N.mod_add by lia. apply N.mod_small. lia.
Qed.

(* ===================================================================================== *)
(* layer 2: fold and defining sum in integer arithmetic modulo P                           *)
Definition zhash_c (P : N) (w : wmap) (c : bool) (p : bdd) : N :=
  wmc_c N (sr_add (zp_ops P)) (sr_mul (zp_ops P)) 0 1 (wl w) (wh w) c p.
Definition zhash (P : N) (w : wmap) (p : bdd) : N := zhash_c P w false p.
(* sum over all assignments of [vars] of [f a] * prod of the chosen literal weights, mod P *)
Definition fhash (P : N) (w : wmap) (vars : list var) (f : asg -> bool) (x : asg) : N :=
  wmc_spec N (sr_add (zp_ops P)) (sr_mul (zp_ops P)) 0 1 (wl w) (wh w) vars f x.

Section Layers.
Variable m : mode.
Variable P : N.
Hypothesis OK : ff_ok P.
Variable w : wmap.
Hypothesis WR : wrange P w.

Let HP : 1 < P. Proof. destruct OK; assumption. Qed.
Let HP2 : 2 * P <= u128. Proof. destruct OK; assumption. Qed.

Notation zl := (fun v => zmk P HP (wl w v)).
Notation zh := (fun v => zmk P HP (wh w v)).
Notation swmc_c := (wmc_c (zp P) (zadd P HP) (zmul P HP) (z0 P HP) (z1 P HP) zl zh).
Notation swmc_spec := (wmc_spec (zp P) (zadd P HP) (zmul P HP) (z0 P HP) (z1 P HP) zl zh).

Lemma wl_lt v : wl w v < P. Proof. apply (wrange_total P w HP WR v). Qed.
Lemma wh_lt v : wh w v < P. Proof. apply (wrange_total P w HP WR v). Qed.

Lemma z_norm v : zadd P HP (zl v) (zh v) = z1 P HP.
Proof.
  apply zp_eq. cbn [proj1_sig zadd zmul zmk z0 z1]. rewrite <- N.add_mod by lia.
  destruct (wrange_total P w HP WR v) as (_ & _ & E). rewrite E. symmetry. apply N.mod_small. lia.
Qed.

(* (3) -> (2): projecting the fold / the sum over the type Z/P gives the integer versions *)
Lemma swmc_c_proj p : forall c, proj1_sig (swmc_c c p) = zhash_c P w c p.
Proof.
  induction p as [| |c' v lo IHlo hi IHhi]; intros c.
  - destruct c; unfold zhash_c; cbn [Wmc.wmc_c proj1_sig zadd zmul zmk z0 z1]; apply N.mod_small; lia.
  - destruct c; unfold zhash_c; cbn [Wmc.wmc_c proj1_sig zadd zmul zmk z0 z1]; apply N.mod_small; lia.
  - unfold zhash_c. cbn [Wmc.wmc_c]. fold (zhash_c P w (xorb c c') lo). fold (zhash_c P w (xorb c c') hi).
    rewrite <- IHlo, <- IHhi. cbn [proj1_sig zadd zmul zmk z0 z1].
    rewrite (N.mod_small (wl w v)) by apply wl_lt. rewrite (N.mod_small (wh w v)) by apply wh_lt.
    reflexivity.
Qed.

Lemma swmc_spec_proj vars f : forall x, proj1_sig (swmc_spec vars f x) = fhash P w vars f x.
Proof.
  induction vars as [|v vs IH]; intros x.
  - unfold fhash; cbn [Wmc.wmc_spec]. destruct (f x); cbn [proj1_sig zadd zmul zmk z0 z1]; apply N.mod_small; lia.
  - unfold fhash. cbn [Wmc.wmc_spec]. fold (fhash P w vs f (upd x v false)). fold (fhash P w vs f (upd x v true)).
    rewrite <- !IH. cbn [proj1_sig zadd zmul zmk z0 z1].
    rewrite (N.mod_small (wl w v)) by apply wl_lt. rewrite (N.mod_small (wh w v)) by apply wh_lt.
    reflexivity.
Qed.

Lemma zhash_c_lt c p : zhash_c P w c p < P.
Proof. rewrite <- swmc_c_proj. apply zp_lt. Qed.
Lemma fhash_lt vars f x : fhash P w vars f x < P.
Proof. rewrite <- swmc_spec_proj. apply zp_lt. Qed.

(* (1) -> (2): the operations as coded never panic and compute the fold modulo P *)
Lemma hash_c_exact p : vars_in p w -> forall c, hash_c m P w c p = Some (zhash_c P w c p).
Proof.
  induction p as [| |c' v lo IHlo hi IHhi]; intros V c.
  - unfold hash_c, zhash_c. cbn [Wmc.wmc_c]. destruct c; [apply ff_zero_ok | apply ff_one_ok]; lia.
  - unfold hash_c, zhash_c. cbn [Wmc.wmc_c]. destruct c; [apply ff_one_ok | apply ff_zero_ok]; lia.
  - assert (Vv : (N.to_nat v < length w)%nat) by (apply V; simpl; auto).
    assert (Vlo : vars_in lo w) by (intros u Hu; apply V; simpl; right; apply in_or_app; auto).
    assert (Vhi : vars_in hi w) by (intros u Hu; apply V; simpl; right; apply in_or_app; auto).
    unfold hash_c. cbn [Wmc.wmc_c]. fold (hash_c m P w (xorb c c') lo). fold (hash_c m P w (xorb c c') hi).
    rewrite (IHlo Vlo), (IHhi Vhi), (w_lo_in _ _ Vv), (w_hi_in _ _ Vv).
    unfold hmul, hadd. cbn [bind].
    rewrite !ff_mul_exact_gen by (try apply wl_lt; try apply wh_lt; try apply zhash_c_lt; lia).
    cbn [bind]. rewrite ff_add_exact_gen by (try (apply N.mod_lt; lia); lia).
    reflexivity.
Qed.

(* ---- hash_neg ---- *)
Lemma zhash_c_compl p c : (zhash_c P w (negb c) p + zhash_c P w c p) mod P = 1.
Proof.
  rewrite <- !swmc_c_proj.
  pose proof (wmc_c_compl (zp P) (zadd P HP) (zmul P HP) (z0 P HP) (z1 P HP)
               (zadd_comm P HP) (zadd_assoc P HP) (zmul_one_r P HP) (zadd_zero_r P HP) (zdistr_l P HP)
               zl zh z_norm p c) as E.
  apply (f_equal (@proj1_sig _ _)) in E. cbn [proj1_sig zadd zmul zmk z0 z1] in E. rewrite E. apply N.mod_small. lia.
Qed.

Lemma one_minus_unique a b : a < P -> b < P -> (a + b) mod P = 1 -> a = zp_sub P 1 b.
Proof. intros Ha Hb E. rewrite <- E. symmetry. apply zp_add_sub; assumption. Qed.

Lemma zhash_c_negb p c : zhash_c P w (negb c) p = zp_sub P 1 (zhash_c P w c p).
Proof. apply one_minus_unique; try apply zhash_c_lt. apply zhash_c_compl. Qed.

Lemma zhash_c_neg p c : zhash_c P w c (neg p) = zhash_c P w (negb c) p.
Proof. unfold zhash_c. apply wmc_c_neg. Qed.

Lemma support_neg p : support (neg p) = support p.
Proof. destruct p; reflexivity. Qed.
Lemma vars_in_neg p : vars_in p w -> vars_in (neg p) w.
Proof. unfold vars_in. rewrite support_neg. auto. Qed.
Lemma free_neg p : free_bdd p -> free_bdd (neg p).
Proof. destruct p; simpl; auto. Qed.

Theorem hash_neg p : vars_in p w ->
  hash_m m P w (neg p) = hneg m P (hash_m m P w p) /\
  hash_m m P w (neg p) = Some (zp_sub P 1 (zhash P w p)).
Proof.
  intros V. unfold hash_m. rewrite (hash_c_exact (neg p) (vars_in_neg p V)), (hash_c_exact p V).
  unfold hneg. cbn [bind]. rewrite ff_negate_exact_gen by (try apply zhash_c_lt; assumption).
  rewrite zhash_c_neg. change (negb false) with (negb false). rewrite (zhash_c_negb p false). auto.
Qed.

(* ---- hash_is_wmc / defining sum ---- *)
Theorem hash_is_sum p c vars x : free_bdd p -> NoDup vars -> incl (support p) vars ->
  zhash_c P w c p = fhash P w vars (fun a => xorb c (den p a)) x.
Proof.
  intros F ND I. rewrite <- swmc_c_proj, <- swmc_spec_proj. f_equal.
  apply (wmc_free_correct (zp P) (zadd P HP) (zmul P HP) (z0 P HP) (z1 P HP)
           (zadd_comm P HP) (zadd_assoc P HP) (zmul_assoc P HP) (zmul_comm P HP) (zmul_one_r P HP)
           (zdistr_l P HP) zl zh z_norm); assumption.
Qed.

(* ---- hash_denotational ---- *)
Theorem zhash_denotational p q : free_bdd p -> free_bdd q -> (forall a, den p a = den q a) ->
  zhash P w p = zhash P w q.
Proof.
  intros Fp Fq E. unfold zhash.
  set (vars := nodup N.eq_dec (support p ++ support q)).
  assert (ND : NoDup vars) by apply NoDup_nodup.
  assert (Ip : incl (support p) vars) by (intros u Hu; apply nodup_In; apply in_or_app; auto).
  assert (Iq : incl (support q) vars) by (intros u Hu; apply nodup_In; apply in_or_app; auto).
  rewrite (hash_is_sum p false vars (fun _ => false) Fp ND Ip).
  rewrite (hash_is_sum q false vars (fun _ => false) Fq ND Iq).
  rewrite <- !swmc_spec_proj. f_equal.
  apply (wmc_spec_local (zp P) (zadd P HP) (zmul P HP) (z0 P HP) (z1 P HP)). intros a _. rewrite E. reflexivity.
Qed.

Theorem hash_denotational p q : free_bdd p -> free_bdd q -> vars_in p w -> vars_in q w ->
  (forall a, den p a = den q a) -> hash_m m P w p = hash_m m P w q.
Proof.
  intros Fp Fq Vp Vq E. unfold hash_m. rewrite (hash_c_exact p Vp), (hash_c_exact q Vq).
  f_equal. apply (zhash_denotational p q Fp Fq E).
Qed.

Theorem hash_denotational_neg p q : free_bdd p -> free_bdd q -> vars_in p w -> vars_in q w ->
  (forall a, den p a = negb (den q a)) -> hash_m m P w p = hneg m P (hash_m m P w q).
Proof.
  intros Fp Fq Vp Vq E. destruct (hash_neg q Vq) as [<- _].
  apply hash_denotational; auto using free_neg, vars_in_neg. intros a. rewrite den_neg. apply E.
Qed.

(* ---- the function-level hash: negation, locality ---- *)
Lemma fhash_neg vars f x : fhash P w vars (fun a => negb (f a)) x = zp_sub P 1 (fhash P w vars f x).
Proof.
  apply one_minus_unique; try apply fhash_lt.
  rewrite <- !swmc_spec_proj.
  pose proof (wmc_spec_compl (zp P) (zadd P HP) (zmul P HP) (z0 P HP) (z1 P HP)
               (zadd_comm P HP) (zadd_assoc P HP) (zmul_one_r P HP) (zadd_zero_r P HP) (zdistr_l P HP)
               zl zh z_norm vars f x) as E.
  apply (f_equal (@proj1_sig _ _)) in E. cbn [proj1_sig zadd zmul zmk z0 z1] in E. rewrite E. apply N.mod_small. lia.
Qed.

Lemma fhash_ext vars f g x : (forall a, f a = g a) -> fhash P w vars f x = fhash P w vars g x.
Proof.
  intros E. rewrite <- !swmc_spec_proj. f_equal.
  apply (wmc_spec_local (zp P) (zadd P HP) (zmul P HP) (z0 P HP) (z1 P HP)). intros a _. apply E.
Qed.

(* ---- the hash of an SDD decision node, on functions: sum_i H(prime_i) * H(sub_i) ---- *)
Fixpoint zsum_pairs (vars : list var) (els : list ((asg -> bool) * (asg -> bool))) (x : asg) : N :=
  match els with
  | [] => 0
  | (p, s) :: r => ((fhash P w vars p x * fhash P w vars s x) mod P + zsum_pairs vars r x) mod P
  end.

Theorem fhash_sdd_node vars els x : NoDup vars -> excl_primes els ->
  (forall p s, In (p, s) els -> ext_fun p /\ ext_fun s /\ forall v, In v vars -> ignores p v \/ ignores s v) ->
  fhash P w vars (den_pairs els) x = zsum_pairs vars els x.
Proof.
  intros ND EX WF. rewrite <- swmc_spec_proj.
  rewrite (sdd_node_hash (zp P) (zadd P HP) (zmul P HP) (z0 P HP) (z1 P HP)
             (zadd_comm P HP) (zadd_assoc P HP) (zmul_assoc P HP) (zmul_comm P HP) (zmul_one_r P HP)
             (zmul_zero_r P HP) (zadd_zero_r P HP) (zdistr_l P HP) zl zh z_norm vars els ND EX WF x).
  clear EX WF. induction els as [|[p s] r IH]; cbn [sum_pairs zsum_pairs].
  - cbn [proj1_sig z0 zmk]. apply N.mod_small. lia.
  - cbn [proj1_sig zadd zmul zmk]. rewrite IH, !swmc_spec_proj. reflexivity.
Qed.

(* negate is an involution on residues, and never fixes a value unless 2x = 1 *)
Lemma zp_sub_one_invol a : a < P -> zp_sub P 1 (zp_sub P 1 a) = a.
Proof.
  intros Ha. symmetry. apply one_minus_unique; try assumption; try (apply zp_sub_lt; lia).
  rewrite N.add_comm. apply zp_sub_add; lia.
Qed.

(* ---- cached_hash_eq ---- *)
(* a cache state is sound for (P, w): every stored value is the hash of its node in (P, w) *)
Definition cache_sound (s : hcache) : Prop :=
  forall v lo hi h, hc_get (BN false v lo hi) s = Some h -> h = zhash P w (BN false v lo hi).
Definition cache_le (s s' : hcache) : Prop := forall k h, hc_get k s = Some h -> hc_get k s' = Some h.

Lemma cache_sound_nil : cache_sound [].
Proof. intros v lo hi h H. discriminate. Qed.

Lemma bdd_eqb_refl k : bdd_eqb k k = true.
Proof. apply bdd_eqb_eq. reflexivity. Qed.

Lemma zhash_node v lo hi :
  zhash P w (BN false v lo hi) = ((wl w v * zhash P w lo) mod P + (wh w v * zhash P w hi) mod P) mod P.
Proof. reflexivity. Qed.

Theorem cached_hash_eq p : vars_in p w -> forall s, cache_sound s ->
  exists s', cached_hash m P w p s = Some (zhash P w p, s') /\ cache_sound s' /\ cache_le s s'.
Proof.
  induction p as [| |c v lo IHlo hi IHhi]; intros V s CS.
  - exists s. cbn [cached_hash]. rewrite ff_new_ok by lia. rewrite N.mod_small by lia. cbn [option_map].
    split; [reflexivity|]. split; [assumption|]. intros k h H; exact H.
  - exists s. cbn [cached_hash]. rewrite ff_new_ok by lia. rewrite N.mod_small by lia. cbn [option_map].
    split; [reflexivity|]. split; [assumption|]. intros k h H; exact H.
  - assert (Vv : (N.to_nat v < length w)%nat) by (apply V; simpl; auto).
    assert (Vlo : vars_in lo w) by (intros u Hu; apply V; simpl; right; apply in_or_app; auto).
    assert (Vhi : vars_in hi w) by (intros u Hu; apply V; simpl; right; apply in_or_app; auto).
    (* the regular pointer first *)
    assert (R : exists s', (match hc_get (BN false v lo hi) s with
                | Some h => option_map (fun r => (r, s)) (ff_new P h)
                | None =>
                  bind (w_lo w v) (fun lw => bind (w_hi w v) (fun hw =>
                  bind (cached_hash m P w lo s) (fun ls =>
                  bind (ff_mul m P (fst ls) lw) (fun a =>
                  bind (cached_hash m P w hi (snd ls)) (fun hs =>
                  bind (ff_mul m P (fst hs) hw) (fun b =>
                  bind (ff_add m P a b) (fun r => Some (r, hc_set (BN false v lo hi) r (snd hs)))))))))
                end) = Some (zhash P w (BN false v lo hi), s') /\ cache_sound s' /\ cache_le s s').
    { destruct (hc_get (BN false v lo hi) s) as [h|] eqn:G.
      - exists s. rewrite (CS _ _ _ _ G). rewrite ff_new_ok by lia.
        rewrite N.mod_small by apply zhash_c_lt. cbn [option_map].
        split; [reflexivity|]. split; [assumption|]. intros k h' H; exact H.
      - destruct (IHlo Vlo s CS) as (s1 & E1 & CS1 & L1).
        destruct (IHhi Vhi s1 CS1) as (s2 & E2 & CS2 & L2).
        rewrite (w_lo_in _ _ Vv), (w_hi_in _ _ Vv). cbn [bind]. rewrite E1. cbn [bind fst snd].
        rewrite ff_mul_exact_gen by (try apply wl_lt; try apply zhash_c_lt; lia). cbn [bind].
        rewrite E2. cbn [bind fst snd].
        rewrite ff_mul_exact_gen by (try apply wh_lt; try apply zhash_c_lt; lia). cbn [bind].
        rewrite ff_add_exact_gen by (try (apply N.mod_lt; lia); lia). cbn [bind].
        assert (EQ : ((zhash P w lo * wl w v) mod P + (zhash P w hi * wh w v) mod P) mod P
                     = zhash P w (BN false v lo hi)).
        { rewrite zhash_node. rewrite (N.mul_comm (zhash P w lo)), (N.mul_comm (zhash P w hi)). reflexivity. }
        rewrite EQ. eexists. split; [reflexivity|]. split.
        + intros v' lo' hi' h H. unfold hc_set in H. cbn [hc_get] in H.
          destruct (bdd_eqb (BN false v' lo' hi') (BN false v lo hi)) eqn:B.
          * apply bdd_eqb_eq in B. rewrite B. congruence.
          * apply CS2. exact H.
        + intros k h H. unfold hc_set. cbn [hc_get].
          destruct (bdd_eqb k (BN false v lo hi)) eqn:B.
          * (* the node was absent from s: contradiction with G *)
            apply bdd_eqb_eq in B. subst k. congruence.
          * apply L2. apply L1. exact H. }
    destruct R as (s' & ER & CS' & L'). exists s'.
    cbn [cached_hash]. rewrite ER. destruct c.
    + cbn [bind fst snd]. rewrite ff_negate_exact_gen by (try apply zhash_c_lt; assumption).
      cbn [option_map]. split; [|split; assumption]. do 2 f_equal.
      (* negate (hash of the regular pointer) = the fold of the complemented pointer *)
      symmetry. change (BN true v lo hi) with (neg (BN false v lo hi)).
      unfold zhash. rewrite zhash_c_neg. apply (zhash_c_negb (BN false v lo hi) false).
    + split; [reflexivity|split; assumption].
Qed.

(* a sequence of queries on diagrams sharing nodes *)
Theorem cached_hashes_eq ps : (forall p, In p ps -> vars_in p w) -> forall s, cache_sound s ->
  exists s', cached_hashes m P w ps s = Some (map (zhash P w) ps, s') /\ cache_sound s' /\ cache_le s s'.
Proof.
  induction ps as [|p r IH]; intros V s CS.
  - exists s. simpl. split; [reflexivity|]. split; [assumption|]. intros k h H; exact H.
  - destruct (cached_hash_eq p (V p (or_introl eq_refl)) s CS) as (s1 & E1 & CS1 & L1).
    destruct (IH (fun q Hq => V q (or_intror Hq)) s1 CS1) as (s2 & E2 & CS2 & L2).
    exists s2. cbn [cached_hashes]. rewrite E1. cbn [bind fst snd]. rewrite E2. cbn [bind fst snd map].
    split; [reflexivity|]. split; [assumption|]. intros k h H. apply L2, L1, H.
Qed.

(* ---- the node-identification test ---- *)
Lemma hash_match_spec a b : a < P -> b < P ->
  hash_match m P (Some a) (Some b) = true <-> (a = b \/ a = zp_sub P 1 b).
Proof.
  intros Ha Hb. unfold hash_match. rewrite ff_negate_exact_gen by assumption.
  rewrite orb_true_iff, !N.eqb_eq. tauto.
Qed.
End Layers.

(* ===================================================================================== *)
(* identification by hash                                                                   *)
Definition feq (f g : asg -> bool) : Prop := forall a, f a = g a.
Definition fnot (f : asg -> bool) : asg -> bool := fun a => negb (f a).

Section Identify.
Variable m : mode.
Variable P : N.
Hypothesis OK : ff_ok P.
Variable w : wmap.
Hypothesis WR : wrange P w.

(* equal functions are never judged different -- neither by the equality test on hashes (sdd_eq)
   nor by the table lookup under the hash and under the negated hash *)
Theorem semantic_never_splits p q : free_bdd p -> free_bdd q -> vars_in p w -> vars_in q w ->
  (feq (den p) (den q) -> hash_m m P w p = hash_m m P w q) /\
  (feq (den p) (fnot (den q)) -> hash_m m P w p = hneg m P (hash_m m P w q)) /\
  (feq (den p) (den q) \/ feq (den p) (fnot (den q)) ->
   hash_match m P (hash_m m P w p) (hash_m m P w q) = true).
Proof.
  intros Fp Fq Vp Vq.
  assert (A : feq (den p) (den q) -> hash_m m P w p = hash_m m P w q)
    by (intros E; apply (hash_denotational m P OK w WR); assumption).
  assert (B : feq (den p) (fnot (den q)) -> hash_m m P w p = hneg m P (hash_m m P w q))
    by (intros E; apply (hash_denotational_neg m P OK w WR); assumption).
  split; [exact A|]. split; [exact B|].
  intros [E|E].
  - rewrite (A E). unfold hash_m. rewrite (hash_c_exact m P OK w WR q Vq).
    apply (hash_match_spec m P OK); try apply (zhash_c_lt P OK w WR). left; reflexivity.
  - rewrite (B E). unfold hash_m, hneg. rewrite (hash_c_exact m P OK w WR q Vq). cbn [bind].
    destruct OK as [HP HP2]. rewrite ff_negate_exact_gen by (try apply (zhash_c_lt P (conj HP HP2) w WR); assumption).
    apply (hash_match_spec m P (conj HP HP2)); try apply (zhash_c_lt P (conj HP HP2) w WR).
    + apply zp_sub_lt; lia.
    + right; reflexivity.
Qed.

(* CONDITIONAL correctness of identification by hash, on diagrams: if the hash is injective on
   a negation-closed set D of diagrams (those an execution touches), then "same hash or negated
   hash" decides "same function or negated function" on D.  The case hash p = negate (hash q)
   needs hash_neg: negate (hash q) is the hash of the diagram neg q, which is in D. *)
Theorem semantic_correct_if_injective (D : bdd -> Prop) :
  (forall p, D p -> free_bdd p /\ vars_in p w) ->
  (forall p, D p -> D (neg p)) ->
  (forall p q, D p -> D q -> hash_m m P w p = hash_m m P w q -> feq (den p) (den q)) ->
  forall p q, D p -> D q ->
  (hash_m m P w p = hash_m m P w q <-> feq (den p) (den q)) /\
  (hash_m m P w p = hneg m P (hash_m m P w q) <-> feq (den p) (fnot (den q))) /\
  (hash_match m P (hash_m m P w p) (hash_m m P w q) = true <->
   (feq (den p) (den q) \/ feq (den p) (fnot (den q)))).
Proof.
  intros WF CL INJ p q Dp Dq.
  destruct (WF p Dp) as [Fp Vp]. destruct (WF q Dq) as [Fq Vq].
  destruct (semantic_never_splits p q Fp Fq Vp Vq) as (A & B & C).
  assert (N1 : hash_m m P w p = hneg m P (hash_m m P w q) -> feq (den p) (fnot (den q))).
  { intros E. destruct (hash_neg m P OK w WR q Vq) as [E' _]. rewrite <- E' in E.
    intros a. rewrite (INJ p (neg q) Dp (CL q Dq) E a). apply den_neg. }
  split; [split; [apply INJ; assumption | exact A]|].
  split; [split; [exact N1 | exact B]|].
  split; [|exact C].
  intros H. unfold hash_m in H. rewrite (hash_c_exact m P OK w WR p Vp), (hash_c_exact m P OK w WR q Vq) in H.
  apply (hash_match_spec m P OK) in H; try apply (zhash_c_lt P OK w WR).
  destruct H as [H|H].
  - left. apply INJ; try assumption. unfold hash_m.
    rewrite (hash_c_exact m P OK w WR p Vp), (hash_c_exact m P OK w WR q Vq). f_equal. exact H.
  - right. apply N1. unfold hash_m, hneg.
    rewrite (hash_c_exact m P OK w WR p Vp), (hash_c_exact m P OK w WR q Vq). cbn [bind].
    destruct OK as [HP HP2]. rewrite ff_negate_exact_gen by (try apply (zhash_c_lt P (conj HP HP2) w WR); assumption).
    f_equal. exact H.
Qed.

(* the same on FUNCTIONS (representation-free: any structure whose hash is the defining sum --
   free BDDs by hash_is_sum; SDDs by the correspondence): [fhash] over a fixed variable list *)
Variable vars : list var.
Variable x : asg.
Notation Hf f := (fhash P w vars f x).

Theorem semantic_correct_if_injective_fn (F : (asg -> bool) -> Prop) :
  (forall f, F f -> F (fnot f)) ->
  (forall f g, F f -> F g -> Hf f = Hf g -> feq f g) ->
  forall f g, F f -> F g ->
  (Hf f = Hf g <-> feq f g) /\
  (Hf f = zp_sub P 1 (Hf g) <-> feq f (fnot g)) /\
  (hash_match m P (Some (Hf f)) (Some (Hf g)) = true <-> (feq f g \/ feq f (fnot g))).
Proof.
  intros CL INJ f g Ff Fg.
  assert (A : Hf f = Hf g <-> feq f g).
  { split; [apply INJ; assumption | intros E; apply (fhash_ext P OK w WR); exact E]. }
  assert (B : Hf f = zp_sub P 1 (Hf g) <-> feq f (fnot g)).
  { rewrite <- (fhash_neg P OK w WR vars g x). split.
    - apply INJ; auto. apply (CL g Fg).
    - intros E. apply (fhash_ext P OK w WR). exact E. }
  split; [exact A|]. split; [exact B|].
  rewrite (hash_match_spec m P OK) by apply (fhash_lt P OK w WR). rewrite A, B. tauto.
Qed.
End Identify.

(* ===================================================================================== *)
(* outside the property: the node caches do not record the field or the map                *)
Lemma cache_reused_with_other_field :
  let p := BN false 0 BF BT in                      (* the variable x0 *)
  let w1 := [(prime_U32_TINY - 4, 5)] in let w2 := [(prime_U32_SMALL - 6, 7)] in
  weights_ok prime_U32_TINY w1 = true /\ weights_ok prime_U32_SMALL w2 = true /\
  exists s, cached_hash Checked prime_U32_TINY w1 p [] = Some (5, s) /\
            cached_hash Checked prime_U32_SMALL w2 p s = Some (5, s) /\
            hash_m Checked prime_U32_SMALL w2 p = Some 7.
Proof.
  cbv zeta. split; [vm_compute; reflexivity|]. split; [vm_compute; reflexivity|].
  eexists. split; [vm_compute; reflexivity|]. split; vm_compute; reflexivity.
Qed.

Lemma cache_reused_with_other_map :
  let p := BN false 0 BF BT in
  let w1 := [(prime_U32_TINY - 4, 5)] in let w2 := [(prime_U32_TINY - 6, 7)] in
  weights_ok prime_U32_TINY w1 = true /\ weights_ok prime_U32_TINY w2 = true /\
  exists s, cached_hash Checked prime_U32_TINY w1 p [] = Some (5, s) /\
            cached_hash Checked prime_U32_TINY w2 p s = Some (5, s) /\
            hash_m Checked prime_U32_TINY w2 p = Some 7.
Proof.
  cbv zeta. split; [vm_compute; reflexivity|]. split; [vm_compute; reflexivity|].
  eexists. split; [vm_compute; reflexivity|]. split; vm_compute; reflexivity.
Qed.

(* the unconditional claim cannot hold: a ring with P elements cannot separate more than P
   functions; concretely, for a modulus with zero divisors (U32_TINY = 101 * 9901) two different
   functions already collide for admissible weights *)
Lemma u32_tiny_not_prime : prime_U32_TINY = 101 * 9901.
Proof. reflexivity. Qed.

(* injectivity is not a theorem when the weights are inputs: with the zero divisors of
   Z/1000001, x0 /\ x1 hashes like False for the admissible high weights 101 and 9901 *)
Lemma hash_not_injective_tiny :
  let P := prime_U32_TINY in
  let w := [(P - 101 + 1, 101); (P - 9901 + 1, 9901)] in
  let p := BN false 0 BF (BN false 1 BF BT) in
  weights_ok P w = true /\ free_bdd p /\ vars_in p w /\ vars_in BF w /\
  hash_m Checked P w p = hash_m Checked P w BF /\ den p (fun _ => true) <> den BF (fun _ => true).
Proof.
  cbv zeta. split; [vm_compute; reflexivity|].
  split; [simpl; intuition discriminate|].
  split; [intros v Hv; simpl in Hv; destruct Hv as [<-|[<-|[]]]; simpl; lia|].
  split; [intros v []|].
  split; [vm_compute; reflexivity | simpl; discriminate].
Qed.

(* ---- wrappers: every exported prime, weights accepted by the model's check ---- *)
Lemma exported_ok_range P w : In P exported_primes -> weights_ok P w = true -> ff_ok P /\ wrange P w.
Proof.
  intros HP HW. pose proof (exported_primes_ok P HP) as OK. split; [exact OK|].
  destruct OK as [H1 _]. apply weights_ok_range; assumption.
Qed.

Lemma hash_is_sum_m m P w p vars x : ff_ok P -> wrange P w -> vars_in p w ->
  free_bdd p -> NoDup vars -> incl (support p) vars ->
  hash_m m P w p = Some (fhash P w vars (den p) x) /\ fhash P w vars (den p) x < P.
Proof.
  intros OK WR V F ND I. split; [|apply (fhash_lt P OK w WR)].
  unfold hash_m. rewrite (hash_c_exact m P OK w WR p V). f_equal.
  rewrite (hash_is_sum P OK w WR p false vars x F ND I).
  apply (fhash_ext P OK w WR). intros a. destruct (den p a); reflexivity.
Qed.
