(* C11: semantic hashing is denotational.  Proofs about Model/SemHash.v.

   Three layers:
   (1) the hash as coded ([hash_m]: option N, u128 arithmetic with panics, both build modes);
   (2) the same fold / the defining sum in plain integer arithmetic modulo P ([zhash_c], [fhash]);
   (3) the ring Z/P as a type ([zp P] = residues below P) on which the semiring laws hold
       unconditionally, so that C07's theorems (stated for any commutative semiring) apply.
   P is NOT assumed prime anywhere (U32_TINY = 1000001 = 101 * 9901 is not): ring laws only. *)
From Coq Require Import Bool NArith List Lia Arith Eqdep_dec.
Import ListNotations.
From RsddV Require Import Base.Bdd Model.Wmc Proofs.Wmc Model.Semirings Proofs.Semirings Model.SemHash
  Generated.Constants.

Local Open Scope N_scope.

(* ===================================================================================== *)
(* generic facts about the fold and the defining sum, for any commutative semiring           *)
Section Generic.
Variable S : Type.
Variable add mul : S -> S -> S.
Variable zero one : S.
Hypothesis add_comm : forall a b, add a b = add b a.
Hypothesis add_assoc : forall a b c, add (add a b) c = add a (add b c).
Hypothesis mul_one_r : forall a, mul a one = a.
Hypothesis add_zero_r : forall a, add a zero = a.
Hypothesis distr_l : forall a b c, mul a (add b c) = add (mul a b) (mul a c).
Variable wlo whi : var -> S.
Hypothesis w_norm : forall v, add (wlo v) (whi v) = one.

Notation wmc_c := (wmc_c S add mul zero one wlo whi).
Notation wmc_spec := (wmc_spec S add mul zero one wlo whi).

Lemma add_swap4 a b c d : add (add a b) (add c d) = add (add a c) (add b d).
Proof. rewrite !add_assoc. f_equal. rewrite <- !add_assoc. f_equal. apply add_comm. Qed.

(* the fold of a pointer and of its complement add up to one: EVERY diagram (no freeness) *)
Lemma wmc_c_compl p : forall c, add (wmc_c (negb c) p) (wmc_c c p) = one.
Proof.
  induction p as [| |c' v lo IHlo hi IHhi]; intros c.
  - destruct c; simpl; [|rewrite add_comm]; apply add_zero_r.
  - destruct c; simpl; [rewrite add_comm|]; apply add_zero_r.
  - cbn [Wmc.wmc_c]. replace (xorb (negb c) c') with (negb (xorb c c')) by (destruct c, c'; reflexivity).
    rewrite add_swap4, <- !distr_l, IHlo, IHhi, !mul_one_r. apply w_norm.
Qed.

(* the fold of the negated pointer is the complemented fold *)
Lemma wmc_c_neg p c : wmc_c c (neg p) = wmc_c (negb c) p.
Proof.
  destruct p as [| |c' v lo hi]; simpl; try (destruct c; reflexivity).
  replace (xorb c (negb c')) with (xorb (negb c) c') by (destruct c, c'; reflexivity). reflexivity.
Qed.

(* the defining sum of a function and of its negation add up to one *)
Lemma wmc_spec_compl vars f : forall x,
  add (wmc_spec vars (fun a => negb (f a)) x) (wmc_spec vars f x) = one.
Proof.
  induction vars as [|v vs IH]; intros x; simpl.
  - destruct (f x); simpl; [rewrite add_comm|]; apply add_zero_r.
  - rewrite add_swap4, <- !distr_l, !IH, !mul_one_r. apply w_norm.
Qed.
End Generic.

(* ===================================================================================== *)
(* Z/P as a type                                                                            *)
Definition zp (P : N) : Type := { x : N | (x <? P) = true }.

Lemma zp_eq P (a b : zp P) : proj1_sig a = proj1_sig b -> a = b.
Proof.
  destruct a as [a Ha], b as [b Hb]; simpl. intros ->. f_equal.
  apply UIP_dec. apply Bool.bool_dec.
Qed.

Lemma zp_lt P (a : zp P) : proj1_sig a < P.
Proof. destruct a as [a Ha]; simpl. apply N.ltb_lt. exact Ha. Qed.

Section ZP.
Variable P : N.
Hypothesis HP : 1 < P.

Lemma mod_ltb x : (x mod P <? P) = true.
Proof. apply N.ltb_lt. apply N.mod_lt. lia. Qed.

Definition zmk (x : N) : zp P := exist _ (x mod P) (mod_ltb x).
Definition zadd (a b : zp P) : zp P := zmk (proj1_sig a + proj1_sig b).
Definition zmul (a b : zp P) : zp P := zmk (proj1_sig a * proj1_sig b).
Definition z0 : zp P := zmk 0.
Definition z1 : zp P := zmk 1.

Lemma zmk_val x : proj1_sig (zmk x) = x mod P. Proof. reflexivity. Qed.
Lemma zmk_small x : x < P -> proj1_sig (zmk x) = x.
Proof. intros H. simpl. apply N.mod_small. exact H. Qed.

Lemma zadd_comm a b : zadd a b = zadd b a.
Proof. apply zp_eq. simpl. f_equal. lia. Qed.
Lemma zadd_assoc a b c : zadd (zadd a b) c = zadd a (zadd b c).
Proof.
  apply zp_eq. simpl. rewrite N.add_mod_idemp_l, N.add_mod_idemp_r by lia. f_equal. lia.
Qed.
Lemma zmul_comm a b : zmul a b = zmul b a.
Proof. apply zp_eq. simpl. f_equal. lia. Qed.
Lemma zmul_assoc a b c : zmul (zmul a b) c = zmul a (zmul b c).
Proof.
  apply zp_eq. simpl. rewrite N.mul_mod_idemp_l, N.mul_mod_idemp_r by lia. f_equal. lia.
Qed.
Lemma zmul_one_r a : zmul a z1 = a.
Proof.
  apply zp_eq. simpl. rewrite (N.mod_small 1) by lia. rewrite N.mul_1_r.
  apply N.mod_small. apply zp_lt.
Qed.
Lemma zadd_zero_r a : zadd a z0 = a.
Proof.
  apply zp_eq. simpl. rewrite (N.mod_small 0) by lia. rewrite N.add_0_r.
  apply N.mod_small. apply zp_lt.
Qed.
Lemma zdistr_l a b c : zmul a (zadd b c) = zadd (zmul a b) (zmul a c).
Proof.
  apply zp_eq. simpl. rewrite N.mul_mod_idemp_r by lia. rewrite <- N.add_mod by lia. f_equal. lia.
Qed.
End ZP.

(* ===================================================================================== *)
(* weights                                                                                  *)

(* the weight map as total functions; the default (1,0) is never reached under [vars_in] *)
Definition wl (w : wmap) (v : var) : N := fst (nth (N.to_nat v) w (1, 0)).
Definition wh (w : wmap) (v : var) : N := snd (nth (N.to_nat v) w (1, 0)).

(* every variable tested by p has an entry in the map (otherwise var_weight panics) *)
Definition vars_in (p : bdd) (w : wmap) : Prop := forall v, In v (support p) -> (N.to_nat v < length w)%nat.

(* residues with low + high = 1 (mod P) *)
Definition wrange (P : N) (w : wmap) : Prop :=
  forall lh, In lh w -> fst lh < P /\ snd lh < P /\ (fst lh + snd lh) mod P = 1.

Lemma w_lo_in w v : (N.to_nat v < length w)%nat -> w_lo w v = Some (wl w v).
Proof.
  intros H. unfold w_lo, wl. destruct (nth_error w (N.to_nat v)) as [lh|] eqn:E.
  - rewrite (nth_error_nth _ _ _ E). reflexivity.
  - apply nth_error_None in E. lia.
Qed.
Lemma w_hi_in w v : (N.to_nat v < length w)%nat -> w_hi w v = Some (wh w v).
Proof.
  intros H. unfold w_hi, wh. destruct (nth_error w (N.to_nat v)) as [lh|] eqn:E.
  - rewrite (nth_error_nth _ _ _ E). reflexivity.
  - apply nth_error_None in E. lia.
Qed.

Lemma wrange_total P w : 1 < P -> wrange P w ->
  forall v, wl w v < P /\ wh w v < P /\ (wl w v + wh w v) mod P = 1.
Proof.
  intros HP R v. unfold wl, wh.
  destruct (Nat.lt_ge_cases (N.to_nat v) (length w)) as [L|L].
  - apply R. apply nth_In. exact L.
  - rewrite nth_overflow by exact L. simpl. repeat split; try lia. apply N.mod_small. lia.
Qed.

(* (P - h + 1) + h = 1 in Z/P: what create_semantic_hash_map establishes *)
Lemma low_high_sum P h : 1 < P -> h < P -> ((P - h + 1) mod P + h) mod P = 1.
Proof.
  intros HP Hh. rewrite N.add_mod_idemp_l by lia.
  replace (P - h + 1 + h) with (1 + 1 * P) by lia. rewrite N.mod_add by lia. apply N.mod_small. lia.
Qed.

Lemma weights_ok_range P w : 1 < P -> weights_ok P w = true -> wrange P w.
Proof.
  intros HP H lh Hin. unfold weights_ok in H. rewrite forallb_forall in H. specialize (H lh Hin).
  unfold weight_ok in H. apply andb_true_iff in H. destruct H as [H H3].
  apply andb_true_iff in H. destruct H as [H1 H2].
  apply N.leb_le in H1. apply N.ltb_lt in H2. apply N.eqb_eq in H3.
  repeat split.
  - rewrite H3. apply N.mod_lt. lia.
  - exact H2.
  - rewrite H3. apply low_high_sum; assumption.
Qed.

(* the weights as coded: l = FiniteField::new(P - h + 1) is the same expression as h.negate() *)
Lemma weights_sum_one_gen m P h : ff_ok P -> 2 <= h -> h < P ->
  exists l, ff_negate m P h = Some l /\ l = P - h + 1 /\ 2 <= l /\ l < P /\ ff_add m P l h = Some 1.
Proof.
  intros [HP HP2] H2 Hh. exists (P - h + 1).
  rewrite ff_negate_exact_gen by assumption. unfold zp_sub.
  assert (E : (1 + P - h) mod P = P - h + 1).
  { replace (1 + P - h) with (P - h + 1) by lia. apply N.mod_small. lia. }
  rewrite E. repeat split; try lia.
  rewrite ff_add_exact_gen by lia. f_equal.
  replace (P - h + 1 + h) with (1 + 1 * P) by lia. rewrite N.mod_add by lia. apply N.mod_small. lia.
Qed.

(* ===================================================================================== *)
(* layer 2: fold and defining sum in integer arithmetic modulo P                           *)
Definition zhash_c (P : N) (w : wmap) (c : bool) (p : bdd) : N :=
  wmc_c N (sr_add (zp_ops P)) (sr_mul (zp_ops P)) 0 1 (wl w) (wh w) c p.
Definition zhash (P : N) (w : wmap) (p : bdd) : N := zhash_c P w false p.
(* sum over all assignments of [vars] of [f a] * prod of the chosen literal weights, mod P *)
Definition fhash (P : N) (w : wmap) (vars : list var) (f : asg -> bool) (x : asg) : N :=
  wmc_spec N (sr_add (zp_ops P)) (sr_mul (zp_ops P)) 0 1 (wl w) (wh w) vars f x.

Section Layers.
Variable m : mode.
Variable P : N.
Hypothesis OK : ff_ok P.
Variable w : wmap.
Hypothesis WR : wrange P w.

Let HP : 1 < P. Proof. destruct OK; assumption. Qed.
Let HP2 : 2 * P <= u128. Proof. destruct OK; assumption. Qed.

Notation zl := (fun v => zmk P HP (wl w v)).
Notation zh := (fun v => zmk P HP (wh w v)).
Notation swmc_c := (wmc_c (zp P) (zadd P HP) (zmul P HP) (z0 P HP) (z1 P HP) zl zh).
Notation swmc_spec := (wmc_spec (zp P) (zadd P HP) (zmul P HP) (z0 P HP) (z1 P HP) zl zh).

Lemma wl_lt v : wl w v < P. Proof. apply (wrange_total P w HP WR v). Qed.
Lemma wh_lt v : wh w v < P. Proof. apply (wrange_total P w HP WR v). Qed.

Lemma z_norm v : zadd P HP (zl v) (zh v) = z1 P HP.
Proof.
  apply zp_eq. simpl. rewrite <- N.add_mod by lia.
  destruct (wrange_total P w HP WR v) as (_ & _ & E). rewrite E. symmetry. apply N.mod_small. lia.
Qed.

(* (3) -> (2): projecting the fold / the sum over the type Z/P gives the integer versions *)
Lemma swmc_c_proj p : forall c, proj1_sig (swmc_c c p) = zhash_c P w c p.
Proof.
  induction p as [| |c' v lo IHlo hi IHhi]; intros c.
  - destruct c; simpl; apply N.mod_small; lia.
  - destruct c; simpl; apply N.mod_small; lia.
  - unfold zhash_c. cbn [Wmc.wmc_c]. fold (zhash_c P w (xorb c c') lo). fold (zhash_c P w (xorb c c') hi).
    rewrite <- IHlo, <- IHhi. simpl.
    rewrite (N.mod_small (wl w v)) by apply wl_lt. rewrite (N.mod_small (wh w v)) by apply wh_lt.
    reflexivity.
Qed.

Lemma swmc_spec_proj vars f : forall x, proj1_sig (swmc_spec vars f x) = fhash P w vars f x.
Proof.
  induction vars as [|v vs IH]; intros x.
  - simpl. destruct (f x); simpl; apply N.mod_small; lia.
  - unfold fhash. cbn [Wmc.wmc_spec]. fold (fhash P w vs f (upd x v false)). fold (fhash P w vs f (upd x v true)).
    rewrite <- !IH. simpl.
    rewrite (N.mod_small (wl w v)) by apply wl_lt. rewrite (N.mod_small (wh w v)) by apply wh_lt.
    reflexivity.
Qed.

Lemma zhash_c_lt c p : zhash_c P w c p < P.
Proof. rewrite <- swmc_c_proj. apply zp_lt. Qed.
Lemma fhash_lt vars f x : fhash P w vars f x < P.
Proof. rewrite <- swmc_spec_proj. apply zp_lt. Qed.

(* (1) -> (2): the operations as coded never panic and compute the fold modulo P *)
Lemma hash_c_exact p : vars_in p w -> forall c, hash_c m P w c p = Some (zhash_c P w c p).
Proof.
  induction p as [| |c' v lo IHlo hi IHhi]; intros V c.
  - unfold hash_c. simpl. destruct c; [apply ff_zero_ok | apply ff_one_ok]; lia.
  - unfold hash_c. simpl. destruct c; [apply ff_one_ok | apply ff_zero_ok]; lia.
  - assert (Vv : (N.to_nat v < length w)%nat) by (apply V; simpl; auto).
    assert (Vlo : vars_in lo w) by (intros u Hu; apply V; simpl; right; apply in_or_app; auto).
    assert (Vhi : vars_in hi w) by (intros u Hu; apply V; simpl; right; apply in_or_app; auto).
    unfold hash_c. cbn [Wmc.wmc_c]. fold (hash_c m P w (xorb c c') lo). fold (hash_c m P w (xorb c c') hi).
    rewrite (IHlo Vlo), (IHhi Vhi), (w_lo_in _ _ Vv), (w_hi_in _ _ Vv).
    unfold hmul, hadd. cbn [bind].
    rewrite !ff_mul_exact_gen by (try apply wl_lt; try apply wh_lt; try apply zhash_c_lt; lia).
    cbn [bind]. rewrite ff_add_exact_gen by (try (apply N.mod_lt; lia); lia).
    reflexivity.
Qed.

(* ---- hash_neg ---- *)
Lemma zhash_c_compl p c : (zhash_c P w (negb c) p + zhash_c P w c p) mod P = 1.
Proof.
  rewrite <- !swmc_c_proj.
  pose proof (wmc_c_compl (zp P) (zadd P HP) (zmul P HP) (z0 P HP) (z1 P HP)
               (zadd_comm P HP) (zadd_assoc P HP) (zmul_one_r P HP) (zadd_zero_r P HP) (zdistr_l P HP)
               zl zh z_norm p c) as E.
  apply (f_equal (@proj1_sig _ _)) in E. simpl in E. rewrite E. apply N.mod_small. lia.
Qed.

Lemma one_minus_unique a b : a < P -> b < P -> (a + b) mod P = 1 -> a = zp_sub P 1 b.
Proof. intros Ha Hb E. rewrite <- E. symmetry. apply zp_add_sub; assumption. Qed.

Lemma zhash_c_negb p c : zhash_c P w (negb c) p = zp_sub P 1 (zhash_c P w c p).
Proof. apply one_minus_unique; try apply zhash_c_lt. apply zhash_c_compl. Qed.

Lemma zhash_c_neg p c : zhash_c P w c (neg p) = zhash_c P w (negb c) p.
Proof. unfold zhash_c. apply wmc_c_neg. Qed.

Lemma support_neg p : support (neg p) = support p.
Proof. destruct p; reflexivity. Qed.
Lemma vars_in_neg p : vars_in p w -> vars_in (neg p) w.
Proof. unfold vars_in. rewrite support_neg. auto. Qed.
Lemma free_neg p : free_bdd p -> free_bdd (neg p).
Proof. destruct p; simpl; auto. Qed.

Theorem hash_neg p : vars_in p w ->
  hash_m m P w (neg p) = hneg m P (hash_m m P w p) /\
  hash_m m P w (neg p) = Some (zp_sub P 1 (zhash P w p)).
Proof.
  intros V. unfold hash_m. rewrite (hash_c_exact (neg p) (vars_in_neg p V)), (hash_c_exact p V).
  unfold hneg. cbn [bind]. rewrite ff_negate_exact_gen by (try apply zhash_c_lt; assumption).
  rewrite zhash_c_neg. change (negb false) with (negb false). rewrite (zhash_c_negb p false). auto.
Qed.

(* ---- hash_is_wmc / defining sum ---- *)
Theorem hash_is_sum p c vars x : free_bdd p -> NoDup vars -> incl (support p) vars ->
  zhash_c P w c p = fhash P w vars (fun a => xorb c (den p a)) x.
Proof.
  intros F ND I. rewrite <- swmc_c_proj, <- swmc_spec_proj. f_equal.
  apply (wmc_free_correct (zp P) (zadd P HP) (zmul P HP) (z0 P HP) (z1 P HP)
           (zadd_comm P HP) (zadd_assoc P HP) (zmul_assoc P HP) (zmul_comm P HP) (zmul_one_r P HP)
           (zdistr_l P HP) zl zh z_norm); assumption.
Qed.

(* ---- hash_denotational ---- *)
Theorem zhash_denotational p q : free_bdd p -> free_bdd q -> (forall a, den p a = den q a) ->
  zhash P w p = zhash P w q.
Proof.
  intros Fp Fq E. unfold zhash.
  set (vars := nodup N.eq_dec (support p ++ support q)).
  assert (ND : NoDup vars) by apply NoDup_nodup.
  assert (Ip : incl (support p) vars) by (intros u Hu; apply nodup_In; apply in_or_app; auto).
  assert (Iq : incl (support q) vars) by (intros u Hu; apply nodup_In; apply in_or_app; auto).
  rewrite (hash_is_sum p false vars (fun _ => false) Fp ND Ip).
  rewrite (hash_is_sum q false vars (fun _ => false) Fq ND Iq).
  rewrite <- !swmc_spec_proj. f_equal.
  apply (wmc_spec_local (zp P) (zadd P HP) (zmul P HP) (z0 P HP) (z1 P HP)). intros a _. rewrite E. reflexivity.
Qed.

Theorem hash_denotational p q : free_bdd p -> free_bdd q -> vars_in p w -> vars_in q w ->
  (forall a, den p a = den q a) -> hash_m m P w p = hash_m m P w q.
Proof.
  intros Fp Fq Vp Vq E. unfold hash_m. rewrite (hash_c_exact p Vp), (hash_c_exact q Vq).
  f_equal. apply (zhash_denotational p q Fp Fq E).
Qed.

Theorem hash_denotational_neg p q : free_bdd p -> free_bdd q -> vars_in p w -> vars_in q w ->
  (forall a, den p a = negb (den q a)) -> hash_m m P w p = hneg m P (hash_m m P w q).
Proof.
  intros Fp Fq Vp Vq E. destruct (hash_neg q Vq) as [<- _].
  apply hash_denotational; auto using free_neg, vars_in_neg. intros a. rewrite den_neg. apply E.
Qed.

(* ---- the function-level hash: negation, locality ---- *)
Lemma fhash_neg vars f x : fhash P w vars (fun a => negb (f a)) x = zp_sub P 1 (fhash P w vars f x).
Proof.
  apply one_minus_unique; try apply fhash_lt.
  rewrite <- !swmc_spec_proj.
  pose proof (wmc_spec_compl (zp P) (zadd P HP) (zmul P HP) (z0 P HP) (z1 P HP)
               (zadd_comm P HP) (zadd_assoc P HP) (zmul_one_r P HP) (zadd_zero_r P HP) (zdistr_l P HP)
               zl zh z_norm vars f x) as E.
  apply (f_equal (@proj1_sig _ _)) in E. simpl in E. rewrite E. apply N.mod_small. lia.
Qed.

Lemma fhash_ext vars f g x : (forall a, f a = g a) -> fhash P w vars f x = fhash P w vars g x.
Proof.
  intros E. rewrite <- !swmc_spec_proj. f_equal.
  apply (wmc_spec_local (zp P) (zadd P HP) (zmul P HP) (z0 P HP) (z1 P HP)). intros a _. apply E.
Qed.

(* negate is an involution on residues, and never fixes a value unless 2x = 1 *)
Lemma zp_sub_one_invol a : a < P -> zp_sub P 1 (zp_sub P 1 a) = a.
Proof.
  intros Ha. symmetry. apply one_minus_unique; try assumption; try (apply zp_sub_lt; lia).
  rewrite N.add_comm. apply zp_sub_add; lia.
Qed.

(* ---- cached_hash_eq ---- *)
(* a cache state is sound for (P, w): every stored value is the hash of its node in (P, w) *)
Definition cache_sound (s : hcache) : Prop :=
  forall v lo hi h, hc_get (BN false v lo hi) s = Some h -> h = zhash P w (BN false v lo hi).
Definition cache_le (s s' : hcache) : Prop := forall k h, hc_get k s = Some h -> hc_get k s' = Some h.

Lemma cache_sound_nil : cache_sound [].
Proof. intros v lo hi h H. discriminate. Qed.

Lemma bdd_eqb_refl k : bdd_eqb k k = true.
Proof. apply bdd_eqb_eq. reflexivity. Qed.

Lemma zhash_node v lo hi :
  zhash P w (BN false v lo hi) = ((wl w v * zhash P w lo) mod P + (wh w v * zhash P w hi) mod P) mod P.
Proof. reflexivity. Qed.

Theorem cached_hash_eq p : vars_in p w -> forall s, cache_sound s ->
  exists s', cached_hash m P w p s = Some (zhash P w p, s') /\ cache_sound s' /\ cache_le s s'.
Proof.
  induction p as [| |c v lo IHlo hi IHhi]; intros V s CS.
  - exists s. simpl. rewrite ff_new_ok by lia. rewrite N.mod_small by lia. simpl.
    split; [reflexivity|]. split; [assumption|]. intros k h H; exact H.
  - exists s. simpl. rewrite ff_new_ok by lia. rewrite N.mod_small by lia. simpl.
    split; [reflexivity|]. split; [assumption|]. intros k h H; exact H.
  - assert (Vv : (N.to_nat v < length w)%nat) by (apply V; simpl; auto).
    assert (Vlo : vars_in lo w) by (intros u Hu; apply V; simpl; right; apply in_or_app; auto).
    assert (Vhi : vars_in hi w) by (intros u Hu; apply V; simpl; right; apply in_or_app; auto).
    (* the regular pointer first *)
    assert (R : exists s', (match hc_get (BN false v lo hi) s with
                | Some h => option_map (fun r => (r, s)) (ff_new P h)
                | None =>
                  bind (w_lo w v) (fun lw => bind (w_hi w v) (fun hw =>
                  bind (cached_hash m P w lo s) (fun ls =>
                  bind (ff_mul m P (fst ls) lw) (fun a =>
                  bind (cached_hash m P w hi (snd ls)) (fun hs =>
                  bind (ff_mul m P (fst hs) hw) (fun b =>
                  bind (ff_add m P a b) (fun r => Some (r, hc_set (BN false v lo hi) r (snd hs)))))))))
                end) = Some (zhash P w (BN false v lo hi), s') /\ cache_sound s' /\ cache_le s s').
    { destruct (hc_get (BN false v lo hi) s) as [h|] eqn:G.
      - exists s. rewrite (CS _ _ _ _ G). rewrite ff_new_ok by lia.
        rewrite N.mod_small by apply zhash_c_lt. simpl.
        split; [reflexivity|]. split; [assumption|]. intros k h' H; exact H.
      - destruct (IHlo Vlo s CS) as (s1 & E1 & CS1 & L1).
        destruct (IHhi Vhi s1 CS1) as (s2 & E2 & CS2 & L2).
        rewrite (w_lo_in _ _ Vv), (w_hi_in _ _ Vv). cbn [bind]. rewrite E1. cbn [bind fst snd].
        rewrite ff_mul_exact_gen by (try apply wl_lt; try apply zhash_c_lt; lia). cbn [bind].
        rewrite E2. cbn [bind fst snd].
        rewrite ff_mul_exact_gen by (try apply wh_lt; try apply zhash_c_lt; lia). cbn [bind].
        rewrite ff_add_exact_gen by (try (apply N.mod_lt; lia); lia). cbn [bind].
        assert (EQ : ((zhash P w lo * wl w v) mod P + (zhash P w hi * wh w v) mod P) mod P
                     = zhash P w (BN false v lo hi)).
        { rewrite zhash_node. rewrite (N.mul_comm (zhash P w lo)), (N.mul_comm (zhash P w hi)). reflexivity. }
        rewrite EQ. eexists. split; [reflexivity|]. split.
        + intros v' lo' hi' h H. unfold hc_set in H. cbn [hc_get] in H.
          destruct (bdd_eqb (BN false v' lo' hi') (BN false v lo hi)) eqn:B.
          * apply bdd_eqb_eq in B. rewrite B. congruence.
          * apply CS2. exact H.
        + intros k h H. unfold hc_set. cbn [hc_get].
          destruct (bdd_eqb k (BN false v lo hi)) eqn:B.
          * (* the node was absent from s: contradiction with G *)
            apply bdd_eqb_eq in B. subst k. congruence.
          * apply L2. apply L1. exact H. }
    destruct R as (s' & ER & CS' & L'). exists s'.
    cbn [cached_hash]. rewrite ER. destruct c.
    + cbn [bind fst snd]. rewrite ff_negate_exact_gen by (try apply zhash_c_lt; assumption).
      simpl. split; [|split; assumption]. do 2 f_equal.
      (* negate (hash of the regular pointer) = the fold of the complemented pointer *)
      symmetry. change (BN true v lo hi) with (neg (BN false v lo hi)).
      unfold zhash. rewrite zhash_c_neg. apply (zhash_c_negb (BN false v lo hi) false).
    + split; [reflexivity|split; assumption].
Qed.

(* a sequence of queries on diagrams sharing nodes *)
Theorem cached_hashes_eq ps : (forall p, In p ps -> vars_in p w) -> forall s, cache_sound s ->
  exists s', cached_hashes m P w ps s = Some (map (zhash P w) ps, s') /\ cache_sound s' /\ cache_le s s'.
Proof.
  induction ps as [|p r IH]; intros V s CS.
  - exists s. simpl. split; [reflexivity|]. split; [assumption|]. intros k h H; exact H.
  - destruct (cached_hash_eq p (V p (or_introl eq_refl)) s CS) as (s1 & E1 & CS1 & L1).
    destruct (IH (fun q Hq => V q (or_intror Hq)) s1 CS1) as (s2 & E2 & CS2 & L2).
    exists s2. cbn [cached_hashes]. rewrite E1. cbn [bind fst snd]. rewrite E2. cbn [bind fst snd map].
    split; [reflexivity|]. split; [assumption|]. intros k h H. apply L2, L1, H.
Qed.

(* ---- the node-identification test ---- *)
Lemma hash_match_spec a b : a < P -> b < P ->
  hash_match m P (Some a) (Some b) = true <-> (a = b \/ a = zp_sub P 1 b).
Proof.
  intros Ha Hb. unfold hash_match. rewrite ff_negate_exact_gen by assumption.
  rewrite orb_true_iff, !N.eqb_eq. tauto.
Qed.
End Layers.
