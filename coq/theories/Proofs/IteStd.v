From Coq Require Import Bool NArith List Lia Arith.
Import ListNotations.
From RsddV Require Import Base.Bdd Model.IteStd.

Section S.
Variable order : bdd -> bdd -> bool.
Ltac eqs :=
  repeat match goal with
  | H : bdd_eqb _ _ = true |- _ => apply bdd_eqb_eq in H; subst
  | H : _ && _ = true |- _ => apply andb_true_iff in H; destruct H
  | H : is_true ?x = true |- _ => destruct x; try discriminate H; clear H
  | H : is_false ?x = true |- _ => destruct x; try discriminate H; clear H
  end.

Lemma intro_consts_sound f g h a :
  let '(f', g', h') := intro_consts f g h in
  ite_ (den f' a) (den g' a) (den h' a) = ite_ (den f a) (den g a) (den h a).
Proof.
  unfold intro_consts.
  destruct (bdd_eqb f h) eqn:E1; [eqs; simpl; destruct (den h a), (den g a); reflexivity|].
  destruct (bdd_eqb f (neg h)) eqn:E2; [eqs; simpl; rewrite den_neg; destruct (den h a), (den g a); reflexivity|].
  destruct (bdd_eqb f (neg g)) eqn:E3; [eqs; simpl; rewrite den_neg; destruct (den h a), (den g a); reflexivity|].
  reflexivity.
Qed.

Lemma terminal_sound f g h r a :
  terminal f g h = Some r -> den r a = ite_ (den f a) (den g a) (den h a).
Proof.
  unfold terminal.
  destruct (is_true f) eqn:E1; [intros [= <-]; eqs; reflexivity|].
  destruct (is_false f) eqn:E2; [intros [= <-]; eqs; reflexivity|].
  destruct (is_true g && is_false h) eqn:E3; [intros [= <-]; eqs; simpl; destruct (den f a); reflexivity|].
  destruct (is_false g && is_true h) eqn:E4; [intros [= <-]; eqs; simpl; rewrite den_neg; destruct (den f a); reflexivity|].
  destruct (bdd_eqb h g) eqn:E5; [intros [= <-]; eqs; destruct (den f a); reflexivity|].
  discriminate.
Qed.

Lemma reorder_sound f g h a :
  let '(f', g', h') := reorder order f g h in
  ite_ (den f' a) (den g' a) (den h' a) = ite_ (den f a) (den g a) (den h a).
Proof.
  unfold reorder.
  destruct (is_true g && order h f) eqn:E1; [eqs; simpl; destruct (den f a), (den h a); reflexivity|].
  destruct (is_false h && order g f) eqn:E2; [eqs; simpl; destruct (den f a), (den g a); reflexivity|].
  destruct (is_true h && order g f) eqn:E3; [eqs; simpl; rewrite !den_neg; destruct (den f a), (den g a); reflexivity|].
  destruct (is_false g && order h f) eqn:E4; [eqs; simpl; rewrite !den_neg; destruct (den f a), (den h a); reflexivity|].
  destruct (bdd_eqb g (neg h) && order g f) eqn:E5; [eqs; simpl; rewrite !den_neg; destruct (den f a), (den h a); reflexivity|].
  reflexivity.
Qed.

Lemma std_neg_sound f g h a :
  den_ite (std_neg f g h) a = ite_ (den f a) (den g a) (den h a).
Proof.
  unfold std_neg.
  destruct (is_neg f && negb (is_neg h)); [simpl; rewrite den_neg; destruct (den f a), (den g a), (den h a); reflexivity|].
  destruct (negb (is_neg f) && is_neg g); [simpl; rewrite !den_neg; destruct (den f a), (den g a), (den h a); reflexivity|].
  destruct (is_neg f && is_neg h); [simpl; rewrite !den_neg; destruct (den f a), (den g a), (den h a); reflexivity|].
  reflexivity.
Qed.

Theorem ite_std_sound f g h a :
  den_ite (ite_new order f g h) a = ite_ (den f a) (den g a) (den h a).
Proof.
  unfold ite_new.
  pose proof (intro_consts_sound f g h a) as H1.
  destruct (intro_consts f g h) as [[f1 g1] h1].
  destruct (terminal f1 g1 h1) eqn:T.
  - simpl. rewrite (terminal_sound _ _ _ _ a T). exact H1.
  - pose proof (reorder_sound f1 g1 h1 a) as H2.
    destruct (reorder order f1 g1 h1) as [[f2 g2] h2].
    rewrite std_neg_sound. congruence.
Qed.
End S.
