(* DTree::from_cnf: leaves, variable sets, cutsets; VTree::from_dtree: every variable once. *)
From Coq Require Import Bool List Lia Arith Permutation.
Import ListNotations.
From RsddV Require Import Base.Util Model.VarOrder Model.VTree Model.DTree Proofs.VTreeBase Proofs.VTreeTrav Proofs.VTree.

(* ---------- VarSet ---------- *)
Fixpoint sorted (s : list nat) : Prop :=
  match s with [] => True | x :: t => (forall y, In y t -> x < y) /\ sorted t end.

Lemma mem_In x s : mem x s = true <-> In x s.
Proof.
  unfold mem. rewrite existsb_exists. split.
  - intros (y & Hy & E). apply Nat.eqb_eq in E. subst; auto.
  - intros H. exists x. split; auto. apply Nat.eqb_refl.
Qed.

Lemma vs_insert_In x s y : In y (vs_insert x s) <-> y = x \/ In y s.
Proof.
  induction s as [|z t IH]; simpl; [intuition|].
  destruct (x <? z) eqn:E1; simpl; [intuition|].
  destruct (x =? z) eqn:E2; simpl.
  - apply Nat.eqb_eq in E2. subst. intuition.
  - rewrite IH. intuition.
Qed.

Lemma vs_insert_sorted x s : sorted s -> sorted (vs_insert x s).
Proof.
  induction s as [|z t IH]; simpl; intros H; [split; auto; intros y []|].
  destruct H as (Hz & Ht). destruct (x <? z) eqn:E1.
  - apply Nat.ltb_lt in E1. simpl. repeat split; auto. intros y [<-|Hy]; auto. specialize (Hz y Hy). lia.
  - apply Nat.ltb_ge in E1. destruct (x =? z) eqn:E2; [simpl; auto|].
    apply Nat.eqb_neq in E2. simpl. split; auto.
    intros y Hy. apply vs_insert_In in Hy. destruct Hy as [->|Hy]; [lia|auto].
Qed.

Lemma sorted_NoDup s : sorted s -> NoDup s.
Proof.
  induction s as [|x t IH]; simpl; intros H; constructor.
  - intros Hin. destruct H as (H & _). specialize (H x Hin). lia.
  - apply IH. tauto.
Qed.

Lemma sorted_filter f s : sorted s -> sorted (filter f s).
Proof.
  induction s as [|x t IH]; simpl; auto. intros (Hx & Ht). destruct (f x); simpl; auto.
  split; auto. intros y Hy. apply filter_In in Hy. apply Hx. tauto.
Qed.

Lemma vs_union_In a b y : In y (vs_union a b) <-> In y a \/ In y b.
Proof.
  unfold vs_union. induction b as [|x t IH]; simpl; [intuition|].
  rewrite vs_insert_In, IH. intuition.
Qed.
Lemma vs_union_sorted a b : sorted a -> sorted (vs_union a b).
Proof. unfold vs_union. induction b; simpl; auto. intros H. apply vs_insert_sorted; auto. Qed.

Lemma vs_inter_In a b y : In y (vs_inter a b) <-> In y a /\ In y b.
Proof. unfold vs_inter. rewrite filter_In, mem_In. tauto. Qed.
Lemma vs_minus_In a b y : In y (vs_minus a b) <-> In y a /\ ~ In y b.
Proof.
  unfold vs_minus. rewrite filter_In, negb_true_iff. split; intros (H1 & H2); split; auto.
  - intros Hin. apply mem_In in Hin. congruence.
  - destruct (mem y b) eqn:E; auto. exfalso. apply H2, mem_In; auto.
Qed.

(* ---------- leaves are preserved by every step ---------- *)
Lemma leaves_init_vars t : leaves (init_vars t) = leaves t.
Proof. induction t; simpl; auto. congruence. Qed.
Lemma leaves_gen_cutset t : forall a, leaves (gen_cutset a t) = leaves t.
Proof. induction t as [|l IHl r IHr]; intros a; simpl; auto. rewrite IHl, IHr. reflexivity. Qed.

Lemma half_bounds n : 2 <= n -> 1 <= n / 2 /\ n / 2 < n.
Proof.
  intros H. split.
  - apply Nat.div_le_lower_bound; lia.
  - apply Nat.div_lt; lia.
Qed.

Lemma balanced_eq f a b rest : balanced (S f) (a :: b :: rest) =
  let ts := a :: b :: rest in
  let h := length ts / 2 in
  match balanced f (firstn h ts), balanced f (skipn h ts) with
  | Some l, Some r => Some (DNode l r [] []) | _, _ => None end.
Proof. reflexivity. Qed.

Lemma balanced_total : forall f ts, ts <> [] -> length ts <= f -> exists t, balanced f ts = Some t.
Proof.
  induction f as [|f IH]; intros ts Hne Hlen.
  - destruct ts; simpl in *; [congruence|lia].
  - destruct ts as [|a [|b rest]]; [congruence|simpl; eauto|].
    rewrite balanced_eq. cbv zeta. set (ts := a :: b :: rest) in *.
    destruct (half_bounds (length ts)) as (H1 & H2); [simpl; lia|].
    destruct (IH (firstn (length ts / 2) ts)) as (l & El).
    { intros E. apply (f_equal (@length _)) in E. rewrite firstn_length in E. simpl length at 3 in E. lia. }
    { rewrite firstn_length. lia. }
    destruct (IH (skipn (length ts / 2) ts)) as (r & Er).
    { intros E. apply (f_equal (@length _)) in E. rewrite skipn_length in E. simpl length at 3 in E. lia. }
    { rewrite skipn_length. lia. }
    rewrite El, Er. eauto.
Qed.

(* a property of trees that holds for every input of [balanced] and is kept by joining *)
Lemma balanced_ind (P : dtree -> Prop) :
  (forall l r, P l -> P r -> P (DNode l r [] [])) ->
  forall f ts t, Forall P ts -> balanced f ts = Some t -> P t.
Proof.
  intros Hnode. induction f as [|f IH]; intros ts t HP H; [discriminate|].
  destruct ts as [|a [|b rest]]; [discriminate| |].
  - inversion H; subst. inversion HP; auto.
  - rewrite balanced_eq in H. cbv zeta in H. set (ts := a :: b :: rest) in *.
    destruct (balanced f (firstn _ ts)) as [l|] eqn:El; [|discriminate].
    destruct (balanced f (skipn _ ts)) as [r|] eqn:Er; [|discriminate].
    inversion H; subst. apply Hnode.
    + eapply IH; [|exact El]. apply Forall_forall. intros x Hx. rewrite Forall_forall in HP.
      apply HP. eapply In_firstn. exact Hx.
    + eapply IH; [|exact Er]. apply Forall_forall. intros x Hx. rewrite Forall_forall in HP.
      apply HP. eapply In_skipn. exact Hx.
Qed.

Lemma balanced_leaves : forall f ts t, balanced f ts = Some t -> leaves t = flat_map leaves ts.
Proof.
  induction f as [|f IH]; intros ts t H; [discriminate|].
  destruct ts as [|a [|b rest]]; [discriminate| |].
  - inversion H; subst. simpl. rewrite app_nil_r. reflexivity.
  - rewrite balanced_eq in H. cbv zeta in H. set (ts := a :: b :: rest) in *.
    destruct (balanced f (firstn _ ts)) as [l|] eqn:El; [|discriminate].
    destruct (balanced f (skipn _ ts)) as [r|] eqn:Er; [|discriminate].
    inversion H; subst. simpl. rewrite (IH _ _ El), (IH _ _ Er). rewrite <- (flat_map_app leaves).
    rewrite firstn_skipn. reflexivity.
Qed.

Lemma partition_perm {A} (f : A -> bool) l t s : partition f l = (t, s) -> Permutation l (t ++ s).
Proof.
  revert t s. induction l as [|x l IH]; intros t s H; simpl in H.
  - inversion H. constructor.
  - destruct (partition f l) as [t' s'] eqn:E. specialize (IH t' s' eq_refl).
    destruct (f x); inversion H; subst.
    + simpl. constructor. exact IH.
    + apply Permutation_cons_app. exact IH.
Qed.

Lemma partition_In {A} (f : A -> bool) l t s x : partition f l = (t, s) -> In x (t ++ s) -> In x l.
Proof.
  intros H Hin. eapply Permutation_in; [apply Permutation_sym; eapply partition_perm; exact H|exact Hin].
Qed.

Lemma flat_map_perm {A B} (g : A -> list B) l l' : Permutation l l' -> Permutation (flat_map g l) (flat_map g l').
Proof.
  induction 1; simpl; auto.
  - apply Permutation_app_head; auto.
  - rewrite !app_assoc. apply Permutation_app_tail. apply Permutation_app_comm.
  - eapply Permutation_trans; eauto.
Qed.

(* the invariant of the forest kept by the elimination loop *)
Section Step.
  Variable P : dtree -> Prop.
  Hypothesis P_node : forall l r, P l -> P r -> P (DNode l r [] []).
  Hypothesis P_init : forall t, P t -> P (init_vars t).

  Lemma step_inv st o st' : st <> [] -> Forall P st -> from_cnf_step st o = Some st' ->
    st' <> [] /\ Forall P st' /\ Permutation (flat_map leaves st') (flat_map leaves st).
  Proof.
    intros Hne HP H. unfold from_cnf_step in H.
    destruct (partition (fun t => mem o (get_vars t)) st) as [t s] eqn:Ep.
    pose proof (partition_perm _ _ _ _ Ep) as Hperm.
    assert (HPts : Forall P (t ++ s)).
    { apply Forall_forall. intros x Hx. rewrite Forall_forall in HP. apply HP. eapply partition_In; eauto. }
    apply Forall_app in HPts. destruct HPts as (HPt & HPs).
    destruct t as [|t0 t'].
    - inversion H; subst. simpl in Hperm. split.
      + intros ->. apply Permutation_sym, Permutation_nil in Hperm. congruence.
      + split; auto. apply flat_map_perm. apply Permutation_sym. exact Hperm.
    - destruct (balanced (length (t0 :: t')) (t0 :: t')) as [nt|] eqn:Eb; [|discriminate].
      inversion H; subst. split; [destruct s; discriminate|]. split.
      + apply Forall_app. split; auto. constructor; auto. apply P_init.
        eapply (balanced_ind P P_node); [exact HPt|exact Eb].
      + rewrite flat_map_app. simpl. rewrite app_nil_r, leaves_init_vars.
        rewrite (balanced_leaves _ _ _ Eb).
        eapply Permutation_trans; [apply Permutation_app_comm|]. rewrite <- (flat_map_app leaves).
        apply flat_map_perm. apply Permutation_sym. exact Hperm.
  Qed.

  Lemma step_total st o : st <> [] -> exists st', from_cnf_step st o = Some st'.
  Proof.
    intros Hne. unfold from_cnf_step.
    destruct (partition (fun t => mem o (get_vars t)) st) as [t s] eqn:Ep.
    destruct t as [|t0 t']; [eauto|].
    destruct (balanced_total (length (t0 :: t')) (t0 :: t')) as (nt & E); [discriminate|lia|].
    rewrite E. eauto.
  Qed.

  Lemma loop_inv : forall elim st, st <> [] -> Forall P st ->
    exists st', elim_loop elim st = Some st' /\ st' <> [] /\ Forall P st' /\
                Permutation (flat_map leaves st') (flat_map leaves st).
  Proof.
    induction elim as [|o rest IH]; intros st Hne HP; simpl.
    - exists st. auto.
    - destruct (step_total st o Hne) as (s1 & E1). rewrite E1.
      destruct (step_inv st o s1 Hne HP E1) as (Hne1 & HP1 & Hp1).
      destruct (IH s1 Hne1 HP1) as (st' & E & Hne' & HP' & Hp'). exists st'.
      repeat split; auto. eapply Permutation_trans; eauto.
  Qed.
End Step.

(* ---------- the invariant: every leaf's variable set is sorted and below its clause ---------- *)
Fixpoint lpre (t : dtree) : Prop :=
  match t with
  | DLeaf cl _ v => sorted v /\ forall x, In x v -> In x (clause_vars cl)
  | DNode l r _ _ => lpre l /\ lpre r
  end.

Lemma fold_insert_In cl : forall v y,
  In y (fold_left (fun s (x : lit) => vs_insert (fst x) s) cl v) <-> In y v \/ In y (clause_vars cl).
Proof.
  induction cl as [|a cl IH]; intros v y; simpl; [intuition|].
  rewrite IH, vs_insert_In. intuition.
Qed.
Lemma fold_insert_sorted cl : forall v, sorted v -> sorted (fold_left (fun s (x : lit) => vs_insert (fst x) s) cl v).
Proof. induction cl as [|a cl IH]; intros v H; simpl; auto. apply IH. apply vs_insert_sorted; auto. Qed.

Lemma lpre_init t : lpre t -> lpre (init_vars t).
Proof.
  induction t as [cl c v|l IHl r IHr c v]; simpl.
  - intros (Hs & Hsub). split; [apply fold_insert_sorted; auto|].
    intros x Hx. apply fold_insert_In in Hx. destruct Hx; auto.
  - intros (Hl & Hr). auto.
Qed.

Lemma lpre_leaf_of cl : lpre (leaf_of cl).
Proof. apply lpre_init. simpl. split; auto. intros x []. Qed.

(* ---------- vars ---------- *)
(* the [vars] field of every node is what the comment in dtree.rs promises *)
Fixpoint vars_ok (t : dtree) : Prop :=
  match t with
  | DLeaf cl _ v => forall x, In x v <-> In x (clause_vars cl)
  | DNode l r _ v => (forall x, In x v <-> In x (get_vars l) \/ In x (get_vars r)) /\ vars_ok l /\ vars_ok r
  end.
Fixpoint vsorted (t : dtree) : Prop :=
  match t with
  | DLeaf _ _ v => sorted v
  | DNode l r _ v => sorted v /\ vsorted l /\ vsorted r
  end.

Lemma vsorted_get t : vsorted t -> sorted (get_vars t).
Proof. destruct t; simpl; tauto. Qed.

Lemma init_vars_ok t : lpre t -> vars_ok (init_vars t) /\ vsorted (init_vars t).
Proof.
  induction t as [cl c v|l IHl r IHr c v]; simpl.
  - intros (Hs & Hsub). split; [|apply fold_insert_sorted; auto].
    intros x. rewrite fold_insert_In. intuition.
  - intros (Hl & Hr). destruct (IHl Hl) as (Ol & Sl). destruct (IHr Hr) as (Or & Sr).
    split; [split; auto; intros x; apply vs_union_In|].
    split; auto. apply vs_union_sorted. apply vsorted_get; auto.
Qed.

Lemma tvars_node l r c v x : In x (tvars (DNode l r c v)) <-> In x (tvars l) \/ In x (tvars r).
Proof. unfold tvars. simpl. rewrite flat_map_app, in_app_iff. tauto. Qed.

Lemma vars_ok_tvars t : vars_ok t -> forall x, In x (get_vars t) <-> In x (tvars t).
Proof.
  induction t as [cl c v|l IHl r IHr c v]; simpl.
  - intros H x. unfold tvars. simpl. rewrite app_nil_r. apply H.
  - intros (H & Hl & Hr) x. rewrite tvars_node, H, (IHl Hl), (IHr Hr). tauto.
Qed.

Lemma get_vars_gen t a : get_vars (gen_cutset a t) = get_vars t.
Proof. destruct t; reflexivity. Qed.

Lemma vars_ok_gen t : forall a, vars_ok t -> vars_ok (gen_cutset a t).
Proof.
  induction t as [cl c v|l IHl r IHr c v]; intros a; simpl; auto.
  intros (H & Hl & Hr). rewrite !get_vars_gen. auto.
Qed.

Lemma tvars_gen t a : tvars (gen_cutset a t) = tvars t.
Proof. unfold tvars. rewrite leaves_gen_cutset. reflexivity. Qed.

(* ---------- cutsets ---------- *)
(* cutset(n) = (vars(l) /\ vars(r)) \ ancestors' cutsets;  for a leaf vars \ ancestors' cutsets;
   [anc] is the union of the cutsets above, variable sets are recomputed from the clauses *)
Fixpoint cut_ok (anc : nat -> Prop) (t : dtree) : Prop :=
  match t with
  | DLeaf cl c _ => forall x, In x c <-> In x (clause_vars cl) /\ ~ anc x
  | DNode l r c _ =>
    (forall x, In x c <-> In x (tvars l) /\ In x (tvars r) /\ ~ anc x) /\
    cut_ok (fun x => anc x \/ In x c) l /\ cut_ok (fun x => anc x \/ In x c) r
  end.
Fixpoint cuts_nodup (t : dtree) : Prop :=
  match t with
  | DLeaf _ c _ => NoDup c
  | DNode l r c _ => NoDup c /\ cuts_nodup l /\ cuts_nodup r
  end.

Lemma NoDup_filter {A} (f : A -> bool) l : NoDup l -> NoDup (filter f l).
Proof.
  induction 1 as [|x t Hn Hd IH]; simpl; [constructor|].
  destruct (f x); auto. constructor; auto. rewrite filter_In. tauto.
Qed.

Lemma gen_cutset_ok t : vars_ok t -> vsorted t -> forall a (ancP : nat -> Prop),
  (forall x, In x a <-> ancP x) -> cut_ok ancP (gen_cutset a t) /\ cuts_nodup (gen_cutset a t).
Proof.
  induction t as [cl c v|l IHl r IHr c v]; simpl.
  - intros Hv Hs a ancP Ha. split.
    + intros x. rewrite vs_minus_In, Hv, Ha. tauto.
    + apply NoDup_filter. apply sorted_NoDup; auto.
  - intros (Hv & Hl & Hr) (Hs & Sl & Sr) a ancP Ha.
    set (my := vs_minus (vs_inter (get_vars l) (get_vars r)) a).
    assert (Hmy : forall x, In x my <-> In x (tvars l) /\ In x (tvars r) /\ ~ ancP x).
    { intros x. unfold my. rewrite vs_minus_In, vs_inter_In, Ha.
      rewrite (vars_ok_tvars l Hl), (vars_ok_tvars r Hr). tauto. }
    assert (Ha' : forall x, In x (vs_union a my) <-> ancP x \/ In x my).
    { intros x. rewrite vs_union_In, Ha. tauto. }
    destruct (IHl Hl Sl (vs_union a my) _ Ha') as (Cl & Nl).
    destruct (IHr Hr Sr (vs_union a my) _ Ha') as (Cr & Nr).
    rewrite !tvars_gen. split; [split; [exact Hmy|split; assumption]|split; [|split; assumption]].
    unfold my, vs_minus, vs_inter. apply NoDup_filter, NoDup_filter. apply sorted_NoDup, vsorted_get; auto.
Qed.

(* every variable below a node that is not cut above it lies in exactly one cutset *)
Lemma cuts_partition t : forall anc, cut_ok anc t -> cuts_nodup t ->
  NoDup (cuts t) /\ forall x, In x (cuts t) <-> In x (tvars t) /\ ~ anc x.
Proof.
  induction t as [cl c v|l IHl r IHr c v]; intros anc; simpl.
  - intros H ND. split; auto. intros x. unfold tvars; simpl. rewrite app_nil_r. apply H.
  - intros (Hc & Cl & Cr) (NDc & Nl & Nr).
    destruct (IHl _ Cl Nl) as (NDl & Il). destruct (IHr _ Cr Nr) as (NDr & Ir). split.
    + apply NoDup_app_intro; [auto| |].
      * apply NoDup_app_intro; auto. intros x Hx Hy. apply Il in Hx. apply Ir in Hy.
        destruct Hx as (Hx1 & Hx2). destruct Hy as (Hy1 & _). apply Hx2. right. apply Hc. tauto.
      * intros x Hx Hy. apply in_app_or in Hy. destruct Hy as [Hy|Hy]; [apply Il in Hy|apply Ir in Hy]; tauto.
    + intros x. rewrite !in_app_iff, Il, Ir, tvars_node, Hc.
      split.
      * intros [H|[H|H]]; tauto.
      * intros (Hor & Hn).
        destruct (in_dec Nat.eq_dec x (tvars l)) as [Hl|Hl];
          destruct (in_dec Nat.eq_dec x (tvars r)) as [Hr|Hr]; tauto.
Qed.

(* ---------- from_dtree ---------- *)
Lemma from_dtree_flatten t :
  match from_dtree t with Some v => flatten v = cuts t | None => cuts t = [] end.
Proof.
  induction t as [cl c v|l IHl r IHr c v]; simpl.
  - destruct c as [|x c]; auto.
    destruct (right_linear_c_total (x :: c) None) as (t & E); [left; discriminate|].
    rewrite E. rewrite (right_linear_c_flatten _ _ _ E). apply app_nil_r.
  - destruct (from_dtree l) as [lv|], (from_dtree r) as [rv|].
    + destruct (right_linear_c_total c (Some (VNode lv rv))) as (t & E); [right; discriminate|].
      rewrite E, (right_linear_c_flatten _ _ _ E). simpl. rewrite IHl, IHr. reflexivity.
    + destruct (right_linear_c_total c (Some lv)) as (t & E); [right; discriminate|].
      rewrite E, (right_linear_c_flatten _ _ _ E). rewrite IHl, IHr, app_nil_r. reflexivity.
    + destruct (right_linear_c_total c (Some rv)) as (t & E); [right; discriminate|].
      rewrite E, (right_linear_c_flatten _ _ _ E). rewrite IHl, IHr. reflexivity.
    + rewrite IHl, IHr. destruct c as [|x c]; auto.
      destruct (right_linear_c_total (x :: c) None) as (t & E); [left; discriminate|].
      rewrite E, (right_linear_c_flatten _ _ _ E). rewrite !app_nil_r. reflexivity.
Qed.

(* ---------- the theorems about from_cnf ---------- *)
Lemma from_cnf_inv cls elim : cls <> [] ->
  exists st res, elim_loop elim (map leaf_of cls) = Some st /\ balanced (length st) st = Some res /\
    from_cnf cls elim = Some (gen_cutset [] (init_vars res)) /\ lpre res /\
    Permutation (leaves res) cls.
Proof.
  intros Hne.
  destruct (loop_inv lpre (fun l r Hl Hr => conj Hl Hr) lpre_init elim (map leaf_of cls))
    as (st & E & Hne' & HP & Hperm).
  { destruct cls; [congruence|discriminate]. }
  { apply Forall_forall. intros x Hx. apply in_map_iff in Hx. destruct Hx as (cl & <- & _). apply lpre_leaf_of. }
  destruct (balanced_total (length st) st Hne' (le_n _)) as (res & Eb).
  exists st, res. unfold from_cnf, from_cnf_gen. rewrite E, Eb. repeat split; auto.
  - eapply balanced_ind; [|exact HP|exact Eb]. intros l r Hl Hr. split; auto.
  - rewrite (balanced_leaves _ _ _ Eb). eapply Permutation_trans; [exact Hperm|].
    rewrite flat_map_concat_map, map_map. unfold leaf_of. simpl.
    rewrite <- flat_map_concat_map. clear. induction cls; simpl; auto.
Qed.

(* guard: the empty clause list makes the code panic (assert in balanced) *)
Theorem from_cnf_empty_panics elim : from_cnf [] elim = None.
Proof.
  unfold from_cnf, from_cnf_gen. simpl.
  assert (H : elim_loop elim [] = Some []).
  { induction elim as [|o rest IH]; simpl; auto. }
  rewrite H. reflexivity.
Qed.

Theorem dtree_leaves cls elim : cls <> [] ->
  exists d, from_cnf cls elim = Some d /\ Permutation (leaves d) cls.
Proof.
  intros Hne. destruct (from_cnf_inv cls elim Hne) as (st & res & _ & _ & E & _ & Hp).
  eexists. split; [exact E|]. rewrite leaves_gen_cutset, leaves_init_vars. exact Hp.
Qed.

Theorem dtree_vars cls elim d : from_cnf cls elim = Some d ->
  vars_ok d /\ forall x, In x (get_vars d) <-> exists cl, In cl cls /\ In x (clause_vars cl).
Proof.
  intros H. destruct cls as [|c0 cls']; [rewrite from_cnf_empty_panics in H; discriminate|].
  destruct (from_cnf_inv (c0 :: cls') elim ltac:(discriminate)) as (st & res & _ & _ & E & Hl & Hp).
  rewrite E in H. inversion H; subst d. destruct (init_vars_ok res Hl) as (Ho & _).
  split; [apply vars_ok_gen; auto|].
  intros x. rewrite get_vars_gen, (vars_ok_tvars _ Ho). unfold tvars. rewrite leaves_init_vars.
  rewrite in_flat_map. split; intros (cl & Hc & Hx); exists cl; split; auto.
  - eapply Permutation_in; eauto.
  - eapply Permutation_in; [apply Permutation_sym|]; eauto.
Qed.

Theorem dtree_cutset cls elim d : from_cnf cls elim = Some d ->
  cut_ok (fun _ => False) d /\ cuts_nodup d.
Proof.
  intros H. destruct cls as [|c0 cls']; [rewrite from_cnf_empty_panics in H; discriminate|].
  destruct (from_cnf_inv (c0 :: cls') elim ltac:(discriminate)) as (st & res & _ & _ & E & Hl & Hp).
  rewrite E in H. inversion H; subst d. destruct (init_vars_ok res Hl) as (Ho & Hs).
  apply gen_cutset_ok; auto. intros x. simpl. tauto.
Qed.

Theorem vtree_of_dtree_leaves cls elim d : from_cnf cls elim = Some d ->
  match from_dtree d with
  | Some vt => NoDup (flatten vt) /\
               forall x, In x (flatten vt) <-> exists cl, In cl cls /\ In x (clause_vars cl)
  | None => forall cl, In cl cls -> clause_vars cl = []
  end.
Proof.
  intros H. destruct (dtree_cutset _ _ _ H) as (Hc & Hn).
  destruct (cuts_partition d _ Hc Hn) as (ND & Hin).
  assert (Htv : forall x, In x (tvars d) <-> exists cl, In cl cls /\ In x (clause_vars cl)).
  { destruct (dtree_vars _ _ _ H) as (Ho & Hg). intros x. rewrite <- Hg. symmetry. apply vars_ok_tvars; auto. }
  pose proof (from_dtree_flatten d) as Hf. destruct (from_dtree d) as [vt|].
  - rewrite Hf. split; auto. intros x. rewrite Hin, Htv. tauto.
  - intros cl Hcl. destruct (clause_vars cl) as [|x xs] eqn:E; auto. exfalso.
    assert (Hx : In x (cuts d)). { apply Hin. split; auto. apply Htv. exists cl. rewrite E. simpl; auto. }
    rewrite Hf in Hx. exact Hx.
Qed.

(* ---------- the code before the repair: the joining nodes kept empty variable sets ---------- *)
Theorem dtree_vars_refuted_pinned :
  exists cls elim d, from_cnf_gen true cls elim = Some d /\ ~ vars_ok d.
Proof.
  exists [[(0, true)]; [(1, true)]], [0; 1].
  eexists. split; [vm_compute; reflexivity|].
  simpl. intros (H & _). destruct (H 0) as (_ & H0). simpl in H0. tauto.
Qed.
