(* Character level of the DIMACS round trip (property C17): the text Cnf::to_dimacs prints is
   lexed into exactly the token stream the token-level theorems start from. *)
From Coq Require Import Ascii Decimal DecimalFacts DecimalPos PArith NArith ZArith List Lia.
Import ListNotations.
From RsddV Require Import Model.Serialize Model.SerializeText Proofs.Serialize.
From RsddV Require Model.CnfUtil.
Local Open Scope char_scope.

Lemma option_map_app_nil {A} (x : option (list A)) : option_map (@List.app A []) x = x.
Proof. destruct x; reflexivity. Qed.

Lemma option_map_app_app {A} (a b : list A) x :
  option_map (@List.app A a) (option_map (@List.app A b) x) = option_map (@List.app A (a ++ b)%list) x.
Proof. destruct x; cbn; [rewrite List.app_assoc|]; reflexivity. Qed.

(* scan_nat consumes the digits of d and accumulates exactly Pos.of_uint_acc *)
Lemma lex_digits d : forall acc rest,
  lex_chars (chars_of_uint d ++ rest) (Some acc) = lex_chars rest (Some (Pos.of_uint_acc d acc)).
Proof. induction d; intros acc rest; cbn; try reflexivity; apply IHd. Qed.

(* the decimal text of a positive number has no leading zero *)
Lemma to_uint_head p : Pos.to_uint p = nzhead (Pos.to_uint p).
Proof.
  pose proof (Unsigned.to_of (Pos.to_uint p)) as H. rewrite Unsigned.of_to in H. cbn [N.to_uint] in H.
  rewrite H at 1. apply unorm_nzhead. intros E. apply unorm_0 in E. rewrite E in H.
  exact (Unsigned.to_uint_nonzero p H).
Qed.

Lemma lex_pos p rest : lex_chars (pos_text p ++ rest) None = lex_chars rest (Some p).
Proof.
  unfold pos_text. pose proof (Unsigned.of_to p) as Hof. pose proof (to_uint_head p) as Hh.
  destruct (Pos.to_uint p) as [|d|d|d|d|d|d|d|d|d|d] eqn:E.
  - discriminate.
  - exfalso. exact (nzhead_nonzero _ _ (eq_sym Hh)).
  - cbn in Hof |- *. rewrite option_map_app_nil, lex_digits. congruence.
  - cbn in Hof |- *. rewrite option_map_app_nil, lex_digits. congruence.
  - cbn in Hof |- *. rewrite option_map_app_nil, lex_digits. congruence.
  - cbn in Hof |- *. rewrite option_map_app_nil, lex_digits. congruence.
  - cbn in Hof |- *. rewrite option_map_app_nil, lex_digits. congruence.
  - cbn in Hof |- *. rewrite option_map_app_nil, lex_digits. congruence.
  - cbn in Hof |- *. rewrite option_map_app_nil, lex_digits. congruence.
  - cbn in Hof |- *. rewrite option_map_app_nil, lex_digits. congruence.
  - cbn in Hof |- *. rewrite option_map_app_nil, lex_digits. congruence.
Qed.

(* a literal followed by a blank *)
Lemma lex_lit z rest : z <> 0%Z ->
  lex_chars (int_text z ++ " " :: rest) None = option_map (@List.app tok (lex_int z)) (lex_chars rest None).
Proof.
  intros Hz. destruct z as [|p|p]; [congruence| |].
  - cbn [int_text lex_int]. rewrite lex_pos. reflexivity.
  - cbn [int_text lex_int app]. cbn [lex_chars digit_step is_ws digit_start Ascii.eqb Bool.eqb].
    cbn. rewrite lex_pos. cbn. destruct (lex_chars rest None); reflexivity.
Qed.

Lemma lex_body zs : forall rest, Forall (fun z => z <> 0%Z) zs ->
  lex_chars (join_blank (map int_text zs) ++ " " :: "0" :: rest) None =
  option_map (@List.app tok (lex_ints zs ++ [TZero])%list) (lex_chars rest None).
Proof.
  induction zs as [|z zs IH]; intros rest Hnz.
  - cbn. destruct (lex_chars rest None); reflexivity.
  - inversion Hnz as [|? ? Hz Hzs]; subst. destruct zs as [|z' zs'].
    + cbn [map join_blank]. rewrite lex_lit by exact Hz. cbn.
      destruct (lex_chars rest None); cbn; [rewrite List.app_nil_r, <- List.app_assoc|]; reflexivity.
    + change (join_blank (map int_text (z :: z' :: zs')))
        with (int_text z ++ " " :: join_blank (map int_text (z' :: zs'))).
      rewrite <- List.app_assoc. rewrite <- List.app_comm_cons.
      rewrite lex_lit by exact Hz. rewrite IH by exact Hzs. rewrite option_map_app_app.
      unfold lex_ints. cbn [flat_map]. rewrite <- !List.app_assoc. reflexivity.
Qed.

Lemma lex_clause c rest :
  lex_chars (clause_text c ++ rest) None =
  option_map (@List.app tok (lex_ints (print_clause c))) (lex_chars rest None).
Proof.
  unfold clause_text, print_clause. rewrite <- List.app_comm_cons. cbn [lex_chars digit_step is_ws]. cbn.
  rewrite option_map_app_nil, <- List.app_assoc. cbn [app].
  rewrite <- (map_map z_of_lit int_text). rewrite lex_body.
  - rewrite lex_ints_app. reflexivity.
  - apply Forall_forall. intros z Hz. apply in_map_iff in Hz. destruct Hz as (l & <- & _). apply z_of_lit_nonzero.
Qed.

(* the text printed by Cnf::to_dimacs lexes into the integer tokens of the printed lines *)
Theorem to_dimacs_text_lex cs :
  lex_chars (to_dimacs_text cs) None = Some (lex_ints (concat (print_dimacs cs))).
Proof.
  unfold to_dimacs_text, print_dimacs. induction cs as [|c cs IH]; [reflexivity|].
  cbn [map concat]. rewrite lex_clause, IH. cbn. rewrite lex_ints_app. reflexivity.
Qed.

(* character-level round trip: lex the printed text, put a problem line in front, parse *)
Theorem dimacs_roundtrip_chars cs nv nc :
  match lex_chars (to_dimacs_text (CnfUtil.clauses (CnfUtil.cnf_new cs))) None with
  | Some body => cnf_from_dimacs (header nv nc ++ body) = POk (CnfUtil.cnf_new cs)
  | None => False
  end.
Proof. rewrite to_dimacs_text_lex. apply dimacs_roundtrip. Qed.
