(* Node construction at one vtree node (VNode l r) occurring in the builder's vtree at offset off:
   unique_bdd, unique_or, canonicalize (with and without compression) and the four apply cases,
   relative to a recursive call that is correct strictly below the node. *)
From Coq Require Import Bool NArith List Lia Arith Permutation.
Import ListNotations.
From RsddV Require Import Base.Bdd Base.Util Model.SddVtree Model.SddOps Proofs.SddBase.
From RsddV Require Import Proofs.SddVtree Proofs.SddInv Proofs.SddLoops.

(* the "BinarySDD in disguise" test at the head of unique_or *)
Definition bdd_shape (node : list elem) : option (bool * sdd * var * sdd) :=
  match node with
  | [(SVar _ polarity, s0); (SVar label _, s1)] => Some (polarity, s0, label, s1)
  | _ => None
  end.

Lemma unique_or_unfold node table :
  unique_or node table =
  match bdd_shape node with
  | Some (polarity, s0, label, s1) =>
    Ok (unique_bdd label (if negb polarity then s0 else s1) (if polarity then s0 else s1) table)
  | None =>
    match sort_els node with
    | [] => Panic
    | (p0, s0) :: rest =>
      if s_is_neg s0 || s_is_false s0 || s_is_neg_var s0
      then Ok (SOr true table (map (fun e => (fst e, sneg (snd e))) ((p0, s0) :: rest)))
      else Ok (SOr false table ((p0, s0) :: rest))
    end
  end.
Proof.
  destruct node as [|[p0 s0] [|[p1 s1] [|e2 rest]]]; try reflexivity;
    destruct p0; try reflexivity; destruct p1; reflexivity.
Qed.

Definition asg0 : asg := fun _ => false.

Lemma is_leaf_inv u : is_leaf u = true -> exists v, u = VLeaf v.
Proof. destruct u; [eauto|discriminate]. Qed.

Section Node.
Variable t : vtree.
Hypothesis ND : NoDup (vleaves t).
Variable cm : bool.
Variables l r : vtree.
Variable off : nat.
Hypothesis Ho : occurs t 0 (VNode l r) off.
Variable andf : sdd -> sdd -> res sdd.
Notation m := (off + vsize l).
Notation Up := (under l off).
Notation Us := (under r (S m)).
Notation U := (under (VNode l r) off).
Hypothesis GP : good andf Up.
Hypothesis GS : good andf Us.
Notation okl := (okl Up Us).

Lemma NP p : Up p -> Up (sneg p). Proof. apply under_sneg. Qed.
Lemma NS p : Us p -> Us (sneg p). Proof. apply under_sneg. Qed.
Lemma CS p : s_is_const p = true -> Us p. Proof. apply under_const. Qed.

(* ---- unique_bdd ---- *)
Lemma unique_bdd_spec lbl lo hi : In lbl (vleaves l) -> Us lo -> Us hi ->
  U (unique_bdd lbl lo hi m) /\
  forall a, sden (unique_bdd lbl lo hi m) a = if a lbl then sden hi a else sden lo a.
Proof.
  intros Hl Hlo Hhi. unfold unique_bdd.
  destruct (sdd_eqb hi lo) eqn:E1.
  { apply sdd_eqb_eq in E1. subst. split; [apply U_R; auto|]. intros a. destruct (a lbl); reflexivity. }
  destruct (s_is_false hi && s_is_true lo) eqn:E2.
  { apply andb_true_iff in E2. destruct E2 as [A B]. apply s_is_false_eq in A. apply s_is_true_eq in B. subst.
    split; [apply U_Var; simpl; apply in_or_app; auto|]. intros a. simpl. destruct (a lbl); reflexivity. }
  destruct (s_is_true hi && s_is_false lo) eqn:E3.
  { apply andb_true_iff in E3. destruct E3 as [A B]. apply s_is_true_eq in A. apply s_is_false_eq in B. subst.
    split; [apply U_Var; simpl; apply in_or_app; auto|]. intros a. simpl. destruct (a lbl); reflexivity. }
  destruct (s_is_neg hi || s_is_false hi || s_is_neg_var hi).
  - split; [apply U_Bdd; auto using under_sneg|]. intros a. simpl. rewrite !sden_sneg.
    destruct (a lbl), (sden hi a), (sden lo a); reflexivity.
  - split; [apply U_Bdd; auto|]. intros a. simpl. destruct (a lbl), (sden hi a), (sden lo a); reflexivity.
Qed.

(* ---- primes below a leaf ---- *)
Definition upd (a : asg) (v : var) (b : bool) : asg := fun x => if N.eqb x v then b else a x.

Lemma leaf_prime_cases v p : under (VLeaf v) off p -> (exists a, sden p a = true) ->
  p = ST \/ exists pol, p = SVar v pol.
Proof.
  intros H [a Ha]. apply under_leaf_inv in H. destruct H as [->|[->|H]]; auto. discriminate.
Qed.

Lemma leaf_count v (els : list elem) :
  Forall (fun e => fst e = ST \/ exists pol, fst e = SVar v pol) els ->
  length els <= cnt els (upd asg0 v true) + cnt els (upd asg0 v false).
Proof.
  induction 1 as [|[p s] rest Hp Hr IH]; simpl; [lia|]. rewrite !cnt_cons. simpl in Hp.
  destruct Hp as [->|[pol ->]]; simpl; [lia|].
  unfold upd at 1 3. rewrite N.eqb_refl. destruct pol; simpl; lia.
Qed.

Lemma leaf_shape v node : l = VLeaf v -> okl node -> satl node -> part node ->
  (exists s, node = [(ST, s)]) \/ bdd_shape node <> None.
Proof.
  intros El Hok Hs Hp.
  assert (Hc : Forall (fun e : elem => fst e = ST \/ exists pol, fst e = SVar v pol) node).
  { unfold SddInv.okl, satl in *. rewrite Forall_forall in *. intros e He.
    destruct (Hok e He) as [H1 _]. rewrite El in H1. apply (leaf_prime_cases v _ H1). apply Hs; auto. }
  pose proof (leaf_count v node Hc) as Hl. rewrite !Hp in Hl.
  destruct node as [|[p0 s0] [|[p1 s1] [|e2 rest]]]; simpl in Hl; try lia.
  - specialize (Hp asg0). discriminate.
  - inversion Hc as [|? ? H0 _]; subst. simpl in H0. destruct H0 as [->|[pol ->]]; eauto.
    exfalso. specialize (Hp (upd asg0 v (negb pol))). unfold cnt in Hp. simpl in Hp.
    unfold upd in Hp. rewrite N.eqb_refl in Hp. destruct pol; discriminate.
  - right. inversion Hc as [|? ? H0 Hc']; subst. inversion Hc' as [|? ? H1 _]; subst. simpl in H0, H1.
    destruct H0 as [->|[pol0 ->]]; destruct H1 as [->|[pol1 ->]]; simpl; try discriminate; exfalso.
    + specialize (Hp asg0). discriminate.
    + specialize (Hp (upd asg0 v pol1)). unfold cnt in Hp. simpl in Hp.
      unfold upd in Hp. rewrite N.eqb_refl in Hp. destruct pol1; discriminate.
    + specialize (Hp (upd asg0 v pol0)). unfold cnt in Hp. simpl in Hp.
      unfold upd in Hp. rewrite N.eqb_refl in Hp. destruct pol0; discriminate.
Qed.

(* a partition made of two literals is x, !x *)
Lemma two_lits_partition x p0 s0 y p1 s1 : part [(SVar x p0, s0); (SVar y p1, s1)] -> x = y /\ p1 = negb p0.
Proof.
  intros Hp. destruct (N.eqb_spec x y) as [->|Hn].
  - split; auto. specialize (Hp (upd asg0 y p0)). unfold cnt in Hp. simpl in Hp.
    unfold upd in Hp. rewrite N.eqb_refl in Hp. destruct p0, p1; simpl in *; auto; discriminate.
  - exfalso. specialize (Hp (upd (upd asg0 x p0) y p1)). unfold cnt in Hp. simpl in Hp.
    unfold upd in Hp. rewrite N.eqb_refl in Hp.
    destruct (N.eqb_spec x y); [contradiction|]. rewrite N.eqb_refl in Hp.
    destruct p0, p1; discriminate.
Qed.

(* ---- unique_or ---- *)
Lemma unique_or_spec node : okl node -> part node -> (is_leaf l = true -> bdd_shape node <> None) ->
  exists x, unique_or node m = Ok x /\ U x /\ forall a, sden x a = den_els node a.
Proof.
  intros Hok Hp Hleaf. rewrite unique_or_unfold.
  destruct (bdd_shape node) as [[[[pol s0] label] s1]|] eqn:Es.
  - assert (En : exists x p1, node = [(SVar x pol, s0); (SVar label p1, s1)]).
    { clear -Es. destruct node as [|[p0 t0] [|[p1 t1] [|e2 rest]]]; try discriminate;
        destruct p0; try discriminate; destruct p1; try discriminate.
      simpl in Es. injection Es as <- <- <- <-. eauto. }
    destruct En as (x & p1 & ->). destruct (two_lits_partition _ _ _ _ _ _ Hp) as [-> ->].
    apply okl_cons in Hok. destruct Hok as (H0 & Hs0 & Hok). apply okl_cons in Hok. destruct Hok as (_ & Hs1 & _).
    apply under_var_in in H0.
    eexists. split; [reflexivity|].
    destruct (unique_bdd_spec label (if negb pol then s0 else s1) (if pol then s0 else s1) H0) as [K1 K2];
      try (destruct pol; auto; fail).
    split; [exact K1|]. intros a. rewrite K2. unfold den_els. simpl.
    destruct pol; simpl; destruct (a label), (sden s0 a), (sden s1 a); reflexivity.
  - assert (Hl : is_leaf l = false) by (destruct (is_leaf l); auto; exfalso; apply Hleaf; auto).
    pose proof (sort_els_perm node) as P.
    destruct (sort_els node) as [|[p0 s0] rest] eqn:Esort.
    { apply Permutation_nil in P. subst node. specialize (Hp asg0). discriminate. }
    assert (Hok' : okl ((p0, s0) :: rest)) by (eapply okl_perm; [symmetry; exact P | exact Hok]).
    assert (Hp' : part ((p0, s0) :: rest)) by (intros a; transitivity (cnt node a); [apply cnt_perm; exact P | apply Hp]).
    assert (Hd : forall a, den_els ((p0, s0) :: rest) a = den_els node a) by (intros a; apply den_els_perm; exact P).
    destruct (s_is_neg s0 || s_is_false s0 || s_is_neg_var s0).
    + eexists. split; [reflexivity|]. split.
      * apply U_Or; auto.
        -- rewrite Forall_map. eapply Forall_impl; [|exact Hok'].
           intros [p s] [A B]. simpl. auto using under_sneg.
        -- intros a. change (cnt (adjsubs true ((p0, s0) :: rest)) a = 1). rewrite cnt_adjsubs. apply Hp'.
      * intros a. rewrite sden_or. change (map _ ((p0, s0) :: rest)) with (negsubs ((p0, s0) :: rest)).
        rewrite den_negsubs by apply Hp'. rewrite Hd. destruct (den_els node a); reflexivity.
    + eexists. split; [reflexivity|]. split.
      * apply U_Or; auto.
      * intros a. rewrite sden_or. rewrite Hd. destruct (den_els node a); reflexivity.
Qed.

(* ---- canonicalize ---- *)
Lemma base_case_spec node x : canonicalize_base_case node = Some x -> okl node -> part node ->
  U x /\ forall a, sden x a = den_els node a.
Proof.
  intros E Hok Hp. destruct node as [|[p0 s0] [|[p1 s1] [|e2 rest]]]; simpl in E.
  - specialize (Hp asg0). discriminate.
  - apply okl_cons in Hok. destruct Hok as (H0 & Hs0 & _).
    destruct (s_is_true p0) eqn:T0.
    + injection E as <-. apply s_is_true_eq in T0. subst. split; [apply U_R; auto|].
      intros a. unfold den_els. simpl. destruct (sden s0 a); reflexivity.
    + destruct (s_is_false s0) eqn:F0; [|discriminate]. injection E as <-.
      apply s_is_false_eq in F0; subst. split; [constructor|].
      intros a. unfold den_els; simpl. rewrite andb_false_r. reflexivity.
  - apply okl_cons in Hok. destruct Hok as (H0 & Hs0 & Hok). apply okl_cons in Hok. destruct Hok as (H1 & Hs1 & _).
    destruct (s_is_true s0 && s_is_false s1) eqn:A.
    + injection E as <-. apply andb_true_iff in A. destruct A as [A B].
      apply s_is_true_eq in A. apply s_is_false_eq in B. subst. split; [apply U_L; auto|].
      intros a. unfold den_els. simpl. destruct (sden p0 a), (sden p1 a); reflexivity.
    + destruct (s_is_false s0 && s_is_true s1) eqn:B; [|discriminate]. injection E as <-.
      apply andb_true_iff in B. destruct B as [B C].
      apply s_is_false_eq in B. apply s_is_true_eq in C. subst. split; [apply U_L; auto|].
      intros a. unfold den_els. simpl. destruct (sden p0 a), (sden p1 a); reflexivity.
  - discriminate.
Qed.

Lemma leaf_base_or_shape node : is_leaf l = true -> okl node -> satl node -> part node ->
  canonicalize_base_case node = None -> bdd_shape node <> None.
Proof.
  intros Hl Hok Hs Hp Hb. destruct (is_leaf_inv _ Hl) as [v Ev].
  destruct (leaf_shape v node Ev Hok Hs Hp) as [[s ->]|H]; auto. discriminate.
Qed.

Lemma canonicalize_spec node : okl node -> part node -> (is_leaf l = true -> satl node) ->
  exists x, canonicalize cm andf node m = Ok x /\ U x /\ forall a, sden x a = den_els node a.
Proof.
  intros Hok Hp Hleaf. unfold canonicalize.
  destruct (canonicalize_base_case node) as [x|] eqn:Eb.
  { exists x. split; [reflexivity|]. apply (base_case_spec node x Eb Hok Hp). }
  destruct cm.
  - destruct (compress_spec andf Up Us GP NP node Hok (part_excl _ Hp)) as (v & Ev & K1 & K2 & K3 & K4).
    rewrite Ev. cbn [bind].
    assert (Hpv : part v) by (intros a; rewrite K2; apply Hp).
    destruct (canonicalize_base_case v) as [x|] eqn:Ebv.
    + exists x. split; [reflexivity|]. destruct (base_case_spec v x Ebv K1 Hpv) as [A B].
      split; auto. intros a. rewrite B. apply K3.
    + destruct (unique_or_spec v K1 Hpv) as (x & Ex & Ux & Dx).
      * intros Hl. apply leaf_base_or_shape; auto.
      * exists x. split; [exact Ex|]. split; auto. intros a. rewrite Dx. apply K3.
  - apply unique_or_spec; auto. intros Hl. apply leaf_base_or_shape; auto.
Qed.

Lemma leaf_nonF_satl node : is_leaf l = true -> okl node -> nonF node -> satl node.
Proof.
  intros Hl Hok Hn. destruct (is_leaf_inv _ Hl) as [v Ev].
  unfold SddInv.okl, nonF, satl in *. rewrite Forall_forall in *. intros e He.
  destruct (Hok e He) as [H _]. specialize (Hn e He). rewrite Ev in H.
  apply under_leaf_inv in H. destruct H as [E|[E|[pol E]]]; try rewrite E.
  - exists asg0. reflexivity.
  - congruence.
  - exists (upd asg0 v pol). simpl. unfold upd. rewrite N.eqb_refl. apply eqb_reflx.
Qed.

(* ---- the node at m in the builder's vtree ---- *)
Lemma node_at_m : node_at t m = Some (VNode l r).
Proof. apply (node_at_from_occurs t 0 l r off Ho). Qed.
Lemma right_linear_m : is_right_linear (node_at t m) = is_leaf l.
Proof. rewrite node_at_m. destruct l; reflexivity. Qed.

(* ---- and_indep ---- *)
Lemma and_indep_spec a b : Up a -> Us b -> s_is_const a = false ->
  exists x, and_indep t a b m = Ok x /\ U x /\ sem_and x a b.
Proof.
  intros Ha Hb NC. unfold and_indep. rewrite right_linear_m.
  destruct (is_leaf l) eqn:El.
  - destruct (is_leaf_inv _ El) as [v Ev]. assert (Hv : In v (vleaves l)) by (rewrite Ev; simpl; auto).
    rewrite Ev in Ha. apply under_leaf_inv in Ha.
    destruct Ha as [->|[->|[pol ->]]]; try discriminate.
    destruct pol.
    + eexists. split; [reflexivity|].
      destruct (unique_bdd_spec v SF b) as [K1 K2]; [auto | constructor | auto |].
      split; auto. intros a. rewrite K2. simpl. destruct (a v); reflexivity.
    + eexists. split; [reflexivity|].
      destruct (unique_bdd_spec v b SF) as [K1 K2]; [auto | auto | constructor |].
      split; auto. intros a. rewrite K2. simpl. destruct (a v); reflexivity.
  - destruct (unique_or_spec [(a, b); (sneg a, SF)]) as (x & Ex & Ux & Dx).
    + apply okl_cons. repeat split; auto. apply okl_cons. repeat split; auto using under_sneg; constructor.
    + intros s. unfold cnt. simpl. rewrite sden_sneg. destruct (sden a s); reflexivity.
    + congruence.
    + exists x. repeat split; auto. intros s. rewrite Dx. unfold den_els. simpl.
      rewrite andb_false_r, !orb_false_r. reflexivity.
Qed.

(* ---- and_sub_desc ---- *)
Lemma and_sub_desc_spec x d : at_node l r off x -> Us d ->
  exists y, and_sub_desc cm andf x d = Ok y /\ U y /\ sem_and y x d.
Proof.
  intros [(c & lbl & lo & hi & -> & H1 & H2 & H3)|(c & els & -> & H1 & H2 & H3)] Hd.
  - cbn [and_sub_desc].
    destruct (GS (adj c lo) d (under_adj _ _ c _ H2) Hd) as (l' & El & Ul & Sl).
    destruct (GS (adj c hi) d (under_adj _ _ c _ H3) Hd) as (h' & Eh & Uh & Sh).
    rewrite El. cbn [bind]. rewrite Eh. cbn [bind].
    eexists. split; [reflexivity|]. destruct (unique_bdd_spec lbl l' h' H1 Ul Uh) as [K1 K2].
    split; auto. intros a. rewrite K2, Sl, Sh, !sden_adj. simpl.
    destruct c, (a lbl), (sden hi a), (sden lo a), (sden d a); reflexivity.
  - cbn [and_sub_desc]. change (map (fun e : sdd * sdd => (fst e, adj c (snd e))) els) with (adjsubs c els).
    assert (Hok : okl (adjsubs c els)).
    { unfold SddInv.okl, adjsubs. rewrite Forall_map. eapply Forall_impl; [|exact H2].
      intros [p s] [A B]. simpl. auto using under_adj. }
    destruct (sub_desc_loop_spec andf Up Us GS d Hd _ Hok) as (v & Ev & K1 & K2 & K3 & K4).
    rewrite Ev. cbn [bind].
    destruct (canonicalize_spec v K1) as (y & Ey & Uy & Dy).
    + intros a. rewrite K3, cnt_adjsubs. apply H3.
    + congruence.
    + exists y. repeat split; auto. intros a. rewrite Dy, K4, sden_or, den_adjsubs by apply H3. reflexivity.
Qed.

(* ---- and_prime_desc ---- *)
Lemma and_prime_desc_spec x d : at_node l r off x -> Up d ->
  exists y, and_prime_desc t cm andf x d = Ok y /\ U y /\ sem_and y x d.
Proof.
  intros Hx Hd. destruct (at_node_view _ _ _ _ Hx) as (els & Ee & Hok & Hp & Hden).
  unfold and_prime_desc. rewrite Ee.
  destruct (prime_desc_loop_spec andf Up Us GP GS NP CS d Hd els Hok) as (o & Eo & HO).
  rewrite Eo. cbn [bind]. destruct o as [v|].
  - destruct HO as (K1 & K2 & K3 & K4). rewrite (vidx_at_node t l r off x Hx).
    destruct (canonicalize_spec v K1) as (y & Ey & Uy & Dy).
    + intros a. rewrite K3. apply Hp.
    + intros Hl. apply leaf_nonF_satl; auto.
    + exists y. repeat split; auto. intros a. rewrite Dy, K4, Hden. reflexivity.
  - exists ST. repeat split; [constructor|]. intros a. destruct (HO a) as [A B]. rewrite Hden, A, B. reflexivity.
Qed.

(* ---- and_cartesian ---- *)
Lemma and_cartesian_general x y : at_node l r off x -> at_node l r off y -> is_leaf l = false ->
  exists z,
    match adj_elems x, adj_elems y with
    | Some aels, Some bels =>
      bind (cartesian_loop andf aels bels) (fun o =>
      match o with None => Ok ST | Some r => canonicalize cm andf r m end)
    | _, _ => Panic
    end = Ok z /\ U z /\ sem_and z x y.
Proof.
  intros Hx Hy Hl.
  destruct (at_node_view _ _ _ _ Hx) as (aels & Ea & Hoka & Hpa & Hdena).
  destruct (at_node_view _ _ _ _ Hy) as (bels & Eb & Hokb & Hpb & Hdenb).
  rewrite Ea, Eb.
  destruct (cartesian_loop_spec andf Up Us GP GS bels Hokb Hpb aels Hoka) as (o & Eo & HO).
  rewrite Eo. cbn [bind]. destruct o as [v|].
  - destruct HO as (K1 & K2 & K3 & _).
    destruct (canonicalize_spec v K1) as (z & Ez & Uz & Dz).
    + intros a. rewrite K2. apply Hpa.
    + congruence.
    + exists z. repeat split; auto. intros a. rewrite Dz, K3, Hdena, Hdenb. reflexivity.
  - exists ST. repeat split; [constructor|]. intros a. destruct (HO a) as [A B]. rewrite Hdena, Hdenb, A, B. reflexivity.
Qed.

Lemma and_cartesian_spec x y : at_node l r off x -> at_node l r off y ->
  exists z, and_cartesian t cm andf x y m = Ok z /\ U z /\ sem_and z x y.
Proof.
  intros Hx Hy. unfold and_cartesian. rewrite right_linear_m.
  destruct (is_leaf l) eqn:El.
  - destruct Hx as [(c & lbl & lo & hi & -> & H1 & H2 & H3)|(c & els & -> & H1 & _)]; [|congruence].
    destruct Hy as [(c' & lbl' & lo' & hi' & -> & H1' & H2' & H3')|(c' & els' & -> & H1' & _)]; [|congruence].
    cbn [slow shigh].
    destruct (GS _ _ (under_adj _ _ c _ H2) (under_adj _ _ c' _ H2')) as (l' & El' & Ul & Sl).
    destruct (GS _ _ (under_adj _ _ c _ H3) (under_adj _ _ c' _ H3')) as (h' & Eh' & Uh & Sh).
    unfold adj in El', Eh'. rewrite El'. cbn [bind]. rewrite Eh'. cbn [bind].
    eexists. split; [reflexivity|]. destruct (unique_bdd_spec lbl l' h' H1 Ul Uh) as [K1 K2].
    split; auto. intros a. rewrite K2, Sl, Sh, !sden_adj.
    assert (lbl' = lbl).
    { destruct (is_leaf_inv _ El) as [v Ev]. rewrite Ev in H1, H1'. simpl in H1, H1'.
      destruct H1 as [<-|[]]. destruct H1' as [<-|[]]. reflexivity. }
    subst lbl'. simpl.
    destruct c, c', (a lbl), (sden hi a), (sden lo a), (sden hi' a), (sden lo' a); reflexivity.
  - destruct (and_cartesian_general x y Hx Hy El) as (z & Ez & Hz).
    exists z. split; [|exact Hz]. rewrite <- Ez. destruct x; reflexivity.
Qed.

End Node.
