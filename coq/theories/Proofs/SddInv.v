(* The invariant of the SDD builder in both configurations ("vtree-respecting with partitioned
   primes"), as a predicate on unfoldings, and its structural lemmas.

   [under u off p]: p is a constant, a literal of a leaf of u, or a decision node normalised for an
   internal node (VNode l r) of u, whose primes are [under l], whose subs are [under r] and whose
   primes form a partition (exactly one holds under every assignment).  [off] is the in-order
   index of the first node of u, so that the node's own index is off' + vsize l.  General (SddOr)
   nodes never sit at a vtree node whose left child is a leaf: there the builder always produces
   a BinarySDD, and and_cartesian relies on it (b.low() panics otherwise). *)
From Coq Require Import Bool NArith List Lia Arith Permutation.
Import ListNotations.
From RsddV Require Import Base.Bdd Base.Util Model.SddVtree Model.SddOps Proofs.SddBase Proofs.SddVtree.

Definition is_leaf (t : vtree) : bool := match t with VLeaf _ => true | _ => false end.

Inductive under : vtree -> nat -> sdd -> Prop :=
| U_T u off : under u off ST
| U_F u off : under u off SF
| U_Var u off v pol : In v (vleaves u) -> under u off (SVar v pol)
| U_Bdd l r off c lbl lo hi :
    In lbl (vleaves l) -> under r (S (off + vsize l)) lo -> under r (S (off + vsize l)) hi ->
    under (VNode l r) off (SBdd c lbl (off + vsize l) lo hi)
| U_Or l r off c els :
    is_leaf l = false ->
    Forall (fun e => under l off (fst e) /\ under r (S (off + vsize l)) (snd e)) els ->
    part els ->
    under (VNode l r) off (SOr c (off + vsize l) els)
| U_L l r off p : under l off p -> under (VNode l r) off p
| U_R l r off p : under r (S (off + vsize l)) p -> under (VNode l r) off p.

(* element lists with primes in one class and subs in another *)
Definition okl (Up Us : sdd -> Prop) (els : list elem) : Prop :=
  Forall (fun e => Up (fst e) /\ Us (snd e)) els.

(* p is a decision node normalised for exactly the root of (VNode l r) *)
Definition at_node (l r : vtree) (off : nat) (p : sdd) : Prop :=
  (exists c lbl lo hi, p = SBdd c lbl (off + vsize l) lo hi /\ In lbl (vleaves l) /\
      under r (S (off + vsize l)) lo /\ under r (S (off + vsize l)) hi) \/
  (exists c els, p = SOr c (off + vsize l) els /\ is_leaf l = false /\
      okl (under l off) (under r (S (off + vsize l))) els /\ part els).

Lemma under_sneg u off p : under u off p -> under u off (sneg p).
Proof.
  induction 1; simpl; try (constructor; auto; fail).
Qed.

Lemma under_adj u off c p : under u off p -> under u off (adj c p).
Proof. destruct c; simpl; auto using under_sneg. Qed.

Lemma under_const u off p : s_is_const p = true -> under u off p.
Proof. destruct p; simpl; try discriminate; constructor. Qed.

Lemma under_leaf_inv v off p : under (VLeaf v) off p -> p = ST \/ p = SF \/ exists pol, p = SVar v pol.
Proof.
  intros H. inversion H; subst; auto.
  simpl in *. destruct H0 as [->|[]]. eauto.
Qed.

Lemma under_node_inv l r off p : under (VNode l r) off p -> s_is_const p = false ->
  at_node l r off p \/ under l off p \/ under r (S (off + vsize l)) p.
Proof.
  intros H NC. inversion H; subst; try discriminate; auto.
  - simpl in H0. apply in_app_or in H0. destruct H0; [right; left | right; right]; constructor; auto.
  - left. left. eauto 10.
  - left. right. exists c, els. auto.
Qed.

Lemma at_node_under l r off p : at_node l r off p -> under (VNode l r) off p.
Proof.
  intros [(c & lbl & lo & hi & -> & H1 & H2 & H3)|(c & els & -> & H1 & H2 & H3)]; constructor; auto.
Qed.

Lemma at_node_nonconst l r off p : at_node l r off p -> s_is_const p = false.
Proof. intros [(c & lbl & lo & hi & -> & _)|(c & els & -> & _)]; reflexivity. Qed.

(* ---- index ranges ---- *)
Section Ranges.
Variable t : vtree.
Hypothesis ND : NoDup (vleaves t).

Lemma vidx_range u : forall off p, occurs t 0 u off -> under u off p -> s_is_const p = false ->
  off <= vidx t p < off + vsize u.
Proof.
  induction u as [v|l IHl r IHr]; intros off p Ho H NC.
  - apply under_leaf_inv in H. destruct H as [->|[->|[pol ->]]]; try discriminate.
    simpl. apply (var_index_under t (VLeaf v) off v ND Ho). simpl; auto.
  - destruct (under_node_inv _ _ _ _ H NC) as [Ha|[Hl|Hr]].
    + destruct Ha as [(c & lbl & lo & hi & -> & _)|(c & els & -> & _)]; simpl;
        pose proof (vsize_pos r); lia.
    + specialize (IHl off p (occurs_left _ _ _ _ _ Ho) Hl NC). simpl. lia.
    + specialize (IHr _ p (occurs_right _ _ _ _ _ Ho) Hr NC). simpl. lia.
Qed.

Lemma vidx_at_node l r off p : at_node l r off p -> vidx t p = off + vsize l.
Proof. intros [(c & lbl & lo & hi & -> & _)|(c & els & -> & _)]; reflexivity. Qed.
End Ranges.

(* ---- the element view of a node ---- *)
Lemma cnt_bdd_elems lbl lo hi a : cnt [(SVar lbl true, hi); (SVar lbl false, lo)] a = 1.
Proof. unfold cnt. simpl. destruct (a lbl); reflexivity. Qed.

Lemma at_node_view l r off p : at_node l r off p ->
  exists els, adj_elems p = Some els /\ okl (under l off) (under r (S (off + vsize l))) els /\
              part els /\ forall a, sden p a = den_els els a.
Proof.
  intros [(c & lbl & lo & hi & -> & H1 & H2 & H3)|(c & els & -> & H1 & H2 & H3)].
  - eexists. split; [reflexivity|]. simpl. split; [|split].
    + repeat constructor; simpl; auto using under_adj.
    + intros a. apply cnt_bdd_elems.
    + intros a. unfold den_els. simpl. rewrite !sden_adj.
      destruct c, (a lbl), (sden hi a), (sden lo a); reflexivity.
  - exists (adjsubs (s_is_neg (SOr c (off + vsize l) els)) els). split; [reflexivity|].
    split; [|split].
    + unfold okl, adjsubs. rewrite Forall_map. eapply Forall_impl; [|exact H2].
      intros [p s] [Hp Hs]. simpl. split; auto using under_adj.
    + intros a. rewrite cnt_adjsubs. apply H3.
    + intros a. rewrite sden_or, den_adjsubs by apply H3. destruct c; reflexivity.
Qed.

Lemma under_var_in u off v pol : under u off (SVar v pol) -> In v (vleaves u).
Proof.
  intros H. remember (SVar v pol) as p eqn:E. induction H; try discriminate.
  - injection E as -> ->. auto.
  - simpl. apply in_or_app. auto.
  - simpl. apply in_or_app. auto.
Qed.

(* ---- moving between a sub-vtree and the vtree that contains it ---- *)
Lemma under_lift u : forall off u' off' p, occurs u off u' off' -> under u' off' p -> under u off p.
Proof.
  induction u as [v|l IHl r IHr]; intros off u' off' p Ho H; simpl in Ho.
  - destruct Ho as [[<- <-]|[]]. exact H.
  - destruct Ho as [[<- <-]|[Ho|Ho]]; [exact H | apply U_L | apply U_R]; eauto.
Qed.

(* a decision node below u is normalised for exactly one internal node of u *)
Lemma under_locate u : forall off p, under u off p -> s_is_const p = false -> (forall v b, p <> SVar v b) ->
  exists l r off', occurs u off (VNode l r) off' /\ at_node l r off' p.
Proof.
  induction u as [v|l IHl r IHr]; intros off p H NC NV.
  - apply under_leaf_inv in H. destruct H as [->|[->|[pol ->]]]; try discriminate. exfalso. eapply NV; eauto.
  - destruct (under_node_inv _ _ _ _ H NC) as [Ha|[Hl|Hr]].
    + exists l, r, off. split; [apply occurs_refl | exact Ha].
    + destruct (IHl off p Hl NC NV) as (l' & r' & off' & Ho & Ha).
      exists l', r', off'. split; auto. simpl. right. left. exact Ho.
    + destruct (IHr _ p Hr NC NV) as (l' & r' & off' & Ho & Ha).
      exists l', r', off'. split; auto. simpl. right. right. exact Ho.
Qed.
