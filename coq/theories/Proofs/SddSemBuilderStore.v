(* C11 -- SemanticSddBuilder, store layer (CONDITIONAL on injectivity):
   sdd_eq, get_or_insert_bdd / get_or_insert_sdd (lookup by hash and by negated hash), the apply
   cache keyed by the product of two hashes, unique_bdd and unique_or, under the hypotheses
     D : a negation-closed set of pointers containing PtrFalse on which the hash is injective
         up to denotation,
     K : a set of operand pairs containing (True, True) and (False, False) on which the product
         key is injective up to the denoted conjunction,
   for every run whose ghost events lie in D (pointers) and K (pairs).
   The product key needs its own hypothesis: hash(a) * hash(b) is NOT the hash of a /\ b when a
   and b share variables (and_cartesian), so injectivity of the hash on functions says nothing
   about two different pairs with the same product -- nor about a product that happens to be 0
   or 1, which app_cache_get answers with PtrFalse / PtrTrue. *)
From Coq Require Import Bool NArith List Lia Arith Permutation.
Import ListNotations.
From RsddV Require Import Base.Bdd Base.Util Model.SddVtree Model.SddOps Model.Semirings Model.SemHash
  Model.SddSemBuilder.
From RsddV Require Import Proofs.Semirings Proofs.Wmc Proofs.SemHash Proofs.SemHashSdd Proofs.SddBase Proofs.SddVtree
  Proofs.SddWmc Proofs.SddInv Proofs.SddLoops Proofs.SddSemBuilderBase.

Section Store.
Variable t : vtree.
Variable P : N.
Hypothesis OK : ff_ok P.
Variable w : wmap.
Hypothesis WR : wrange P w.
Notation H := (shash P w).
Variable D : sdd -> Prop.
Variable K : sdd -> sdd -> Prop.
Hypothesis Dneg : forall p, D p -> D (sneg p).
Hypothesis DF : D SF.
Hypothesis Dinj : forall p q, D p -> D q -> shash P w p = shash P w q -> forall a, sden p a = sden q a.
Hypothesis KT : K ST ST.
Hypothesis KF : K SF SF.
Hypothesis Kinj : forall a b a' b', K a b -> K a' b' -> app_key P H a b = app_key P H a' b' ->
  forall x, sden a x && sden b x = sden a' x && sden b' x.

Notation swf := (swf t).
Notation sokl := (sokl t).

Definition evok (e : ev) : Prop := match e with EPtr p | EReq p => D p | EPair a b => K a b end.
Notation sp := (sp evok).

Lemma DT : D ST. Proof. apply (Dneg SF DF). Qed.

(* every stored node is a well-formed member of D filed under its own hash; every apply-cache
   entry is a well-formed pointer denoting the conjunction of a pair of K with that key *)
Definition inv (st : sst) : Prop :=
  (forall h p, tbl_get (s_tbl st) h = Some p -> H p = h /\ D p /\ swf p) /\
  (forall h x, tbl_get (s_app st) h = Some x ->
     exists a b, K a b /\ app_key P H a b = h /\ swf x /\ sem_and x a b).

Lemma inv_empty : inv sst_empty.
Proof. split; intros h x E; discriminate. Qed.

(* ---- sdd_eq, is_true, is_false ---- *)
Lemma eqS_sp a b st :
  sp (eqS H a b) st (fun r s => s = st /\ (r = true -> forall x, sden a x = sden b x)).
Proof.
  intros r st' l E L. unfold eqS in E. injection E as <- <- <-.
  inversion L as [|? ? Da L']; subst. inversion L' as [|? ? Db _]; subst. simpl in Da, Db.
  split; [reflexivity|]. intros Hr. apply N.eqb_eq in Hr. apply Dinj; assumption.
Qed.
Lemma is_trueS_sp a st : sp (is_trueS H a) st (fun r s => s = st /\ (r = true -> forall x, sden a x = true)).
Proof. eapply sp_mono; [apply eqS_sp|]. intros r s [-> Hr]. split; auto. Qed.
Lemma is_falseS_sp a st : sp (is_falseS H a) st (fun r s => s = st /\ (r = true -> forall x, sden a x = false)).
Proof. eapply sp_mono; [apply eqS_sp|]. intros r s [-> Hr]. split; auto. Qed.
Lemma eqS_pure a b st : sp (eqS H a b) st (fun _ s => s = st).
Proof. eapply sp_mono; [apply eqS_sp|]. intros r s [-> _]. reflexivity. Qed.

(* ---- the node tables ---- *)
Lemma get_shared_sound st h p : inv st -> get_shared st h = Some p -> H p = h /\ D p /\ swf p.
Proof.
  intros [It _] E. unfold get_shared in E.
  destruct (N.eqb_spec h 0) as [->|H0].
  { injection E as <-. split; [apply (shash_SF P OK w)|]. split; [exact DF | constructor]. }
  destruct (N.eqb_spec h 1) as [->|H1].
  { injection E as <-. split; [apply (shash_ST P OK w)|]. split; [exact DT | constructor]. }
  apply It. exact E.
Qed.

(* (a) get_or_insert: the returned pointer denotes the requested node *)
Lemma get_or_insert_sp n st : inv st -> swf n ->
  sp (get_or_insert P H n) st (fun r s => inv s /\ swf r /\ forall a, sden r a = sden n a).
Proof.
  intros Hinv Wn r st' l E L. unfold get_or_insert in E.
  assert (Dn : D n).
  { destruct (check_hash_and_neg P st (H n)); injection E as _ _ <-; inversion L; subst; assumption. }
  unfold check_hash_and_neg in E.
  destruct (get_shared st (H n)) as [p|] eqn:E1.
  { injection E as <- <- _. destruct (get_shared_sound st _ p Hinv E1) as (Hp & Dp & Wp).
    split; [exact Hinv|]. split; [exact Wp|]. apply Dinj; assumption. }
  destruct (get_shared st (negP P (H n))) as [p|] eqn:E2.
  { injection E as <- <- _. destruct (get_shared_sound st _ p Hinv E2) as (Hp & Dp & Wp).
    split; [exact Hinv|]. split; [apply swf_sneg; exact Wp|]. apply Dinj; auto.
    rewrite (shash_sneg P OK w WR), Hp. apply (negP_invol P OK). apply (shash_lt P OK w WR). }
  injection E as <- <- _. split; [|split; [exact Wn | reflexivity]].
  destruct Hinv as [It Ia]. split; [|exact Ia].
  intros h p. cbn [s_tbl tbl_get]. destruct (N.eqb_spec (H n) h) as [<-|Hn].
  - intros [= <-]. auto.
  - apply It.
Qed.

(* ---- the apply cache ---- *)
Lemma app_cache_get_sp a b st : inv st ->
  sp (app_cache_get P H a b) st (fun r s => s = st /\ forall x, r = Some x -> swf x /\ sem_and x a b).
Proof.
  intros [_ Ia] r st' l E L. unfold app_cache_get in E. injection E as <- <- <-.
  inversion L as [|? ? Kab _]; subst. simpl in Kab.
  split; [reflexivity|]. intros x Hx.
  destruct (app_key_consts P OK w) as [K1 K0].
  destruct (N.eqb_spec (app_key P H a b) 0) as [E0|N0].
  { injection Hx as <-. split; [constructor|]. intros s.
    rewrite (Kinj a b SF SF Kab KF) by (rewrite K0; exact E0). reflexivity. }
  destruct (N.eqb_spec (app_key P H a b) 1) as [E1|N1].
  { injection Hx as <-. split; [constructor|]. intros s.
    rewrite (Kinj a b ST ST Kab KT) by (rewrite K1; exact E1). reflexivity. }
  destruct (Ia _ _ Hx) as (a' & b' & Kab' & Ek & Wx & Sx). split; [exact Wx|].
  intros s. rewrite Sx. symmetry. apply (Kinj a b a' b' Kab Kab'). symmetry. exact Ek.
Qed.

Lemma app_cache_insert_sp a b r st : inv st -> swf r -> sem_and r a b ->
  sp (app_cache_insert P H a b r) st (fun _ s => inv s).
Proof.
  intros Hinv Wr Sr u st' l E L. unfold app_cache_insert in E. injection E as _ <- <-.
  inversion L as [|? ? Kab _]; subst. simpl in Kab.
  destruct (N.ltb 1 (app_key P H a b)); [|exact Hinv].
  destruct Hinv as [It Ia]. split; [exact It|].
  intros h x. cbn [s_app tbl_get]. destruct (N.eqb_spec (app_key P H a b) h) as [<-|Hn].
  - intros [= <-]. exists a, b. auto.
  - apply Ia.
Qed.

(* ---- unique_bdd ---- *)
Section AtNode.
Variables l r : vtree.
Variable off : nat.
Hypothesis Ho : occurs t 0 (VNode l r) off.
Notation m := (off + vsize l).

Lemma in_left_leaves v : In v (vleaves l) -> In v (vleaves t).
Proof. intros Hv. eapply occurs_leaves; [exact Ho|]. simpl. apply in_or_app. auto. Qed.

Lemma unique_bdd_sp lbl lo hi st : inv st -> In lbl (vleaves l) -> swf lo -> swf hi ->
  dep (vleaves r) lo -> dep (vleaves r) hi ->
  sp (unique_bdd P H lbl lo hi m) st
     (fun x s => inv s /\ swf x /\ forall a, sden x a = if a lbl then sden hi a else sden lo a).
Proof.
  intros Hinv Hl Wlo Whi Dlo Dhi. unfold unique_bdd.
  eapply sp_seq; [apply eqS_sp|]. intros e s1 [-> He]. destruct e.
  { apply sp_ret. split; [exact Hinv|]. split; [exact Whi|]. intros a. rewrite (He eq_refl a). destruct (a lbl); reflexivity. }
  eapply sp_seq; [apply sp_andM; [apply is_falseS_sp | apply is_trueS_sp]|]. intros c1 s1 [-> H1]. destruct c1.
  { apply sp_ret. destruct (H1 eq_refl) as [A B]. split; [exact Hinv|]. split; [constructor; apply in_left_leaves; exact Hl|].
    intros a. simpl. rewrite A, B. destruct (a lbl); reflexivity. }
  eapply sp_seq; [apply sp_andM; [apply is_trueS_sp | apply is_falseS_sp]|]. intros c2 s1 [-> H2]. destruct c2.
  { apply sp_ret. destruct (H2 eq_refl) as [A B]. split; [exact Hinv|]. split; [constructor; apply in_left_leaves; exact Hl|].
    intros a. simpl. rewrite A, B. destruct (a lbl); reflexivity. }
  eapply sp_seq.
  { apply sp_orM; [intros x s' l0 E _; injection E as _ <- _; reflexivity|].
    apply sp_orM; [apply eqS_pure | intros x s' l0 E _; injection E as _ <- _; reflexivity]. }
  intros c3 s1 ->. destruct c3.
  - eapply sp_seq.
    { apply get_or_insert_sp; [exact Hinv|]. apply (W_Bdd t l r off); auto using swf_sneg, dep_sneg. }
    intros x s1 (I1 & Wx & Sx). apply sp_ret. split; [exact I1|]. split; [apply swf_sneg; exact Wx|].
    intros a. rewrite sden_sneg, Sx. simpl. rewrite !sden_sneg. destruct (a lbl), (sden hi a), (sden lo a); reflexivity.
  - eapply sp_mono.
    { apply get_or_insert_sp; [exact Hinv|]. apply (W_Bdd t l r off); auto. }
    intros x s1 (I1 & Wx & Sx). split; [exact I1|]. split; [exact Wx|].
    intros a. rewrite Sx. simpl. destruct (a lbl), (sden hi a), (sden lo a); reflexivity.
Qed.

(* ---- unique_or (= canonicalize) ---- *)
Lemma part_negsubs els : part els -> part (map (fun e : elem => (fst e, sneg (snd e))) els).
Proof. intros Hp a. change (cnt (adjsubs true els) a = 1). rewrite cnt_adjsubs. apply Hp. Qed.

Lemma unique_or_sp node st : inv st -> sokl l r node -> part node ->
  sp (unique_or P H node m) st (fun x s => inv s /\ swf x /\ forall a, sden x a = den_els node a).
Proof.
  intros Hinv Hok Hp. unfold unique_or.
  destruct (bdd_shape node) as [[[[pol s0] label] s1]|] eqn:Es.
  - assert (En : exists x p1, node = [(SVar x pol, s0); (SVar label p1, s1)]).
    { clear -Es. destruct node as [|[p0 t0] [|[p1 t1] [|e2 rest]]]; try discriminate;
        destruct p0; try discriminate; destruct p1; try discriminate.
      simpl in Es. injection Es as <- <- <- <-. eauto. }
    destruct En as (x & p1 & ->). destruct (two_lits_part _ _ _ _ _ _ Hp) as [-> ->].
    apply sokl_cons in Hok. destruct Hok as (W0 & Ws0 & D0 & Ds0 & Hok).
    apply sokl_cons in Hok. destruct Hok as (_ & Ws1 & _ & Ds1 & _).
    apply dep_var_inv in D0.
    eapply sp_mono.
    { apply (unique_bdd_sp label (if negb pol then s0 else s1) (if pol then s0 else s1) st Hinv D0);
        destruct pol; assumption. }
    intros y s (I1 & Wy & Sy). split; [exact I1|]. split; [exact Wy|].
    intros a. rewrite Sy. unfold den_els. simpl.
    destruct pol; simpl; destruct (a label), (sden s0 a), (sden s1 a); reflexivity.
  - pose proof (sort_els_perm node) as Pm.
    destruct (sort_els node) as [|[p0 s0] rest] eqn:Esort; [apply sp_panic|].
    assert (Hok' : sokl l r ((p0, s0) :: rest)) by (eapply sokl_perm; [symmetry; exact Pm | exact Hok]).
    assert (Hp' : part ((p0, s0) :: rest)) by (intros a; transitivity (cnt node a); [apply cnt_perm; exact Pm | apply Hp]).
    assert (Hd : forall a, den_els ((p0, s0) :: rest) a = den_els node a) by (intros a; apply den_els_perm; exact Pm).
    eapply sp_seq.
    { apply sp_orM; [intros x s' l0 E _; injection E as _ <- _; reflexivity|].
      apply sp_orM; [apply eqS_pure | intros x s' l0 E _; injection E as _ <- _; reflexivity]. }
    intros c s1 ->. destruct c.
    + eapply sp_seq.
      { apply get_or_insert_sp; [exact Hinv|]. apply (W_Or t l r off); [exact Ho | | apply part_negsubs; exact Hp'].
        exact (sokl_adjsubs t l r true _ Hok'). }
      intros x s1 (I1 & Wx & Sx). apply sp_ret. split; [exact I1|]. split; [apply swf_sneg; exact Wx|].
      intros a. rewrite sden_sneg, Sx, sden_or. change (map _ ((p0, s0) :: rest)) with (negsubs ((p0, s0) :: rest)).
      rewrite den_negsubs by apply Hp'. rewrite Hd. destruct (den_els node a); reflexivity.
    + eapply sp_mono.
      { apply get_or_insert_sp; [exact Hinv|]. apply (W_Or t l r off); [exact Ho | exact Hok' | exact Hp']. }
      intros x s1 (I1 & Wx & Sx). split; [exact I1|]. split; [exact Wx|].
      intros a. rewrite Sx, sden_or, Hd. destruct (den_els node a); reflexivity.
Qed.
End AtNode.
End Store.
