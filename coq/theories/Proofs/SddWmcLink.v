(* C07S: the link to the builder (C03): every pool entry of every operation program satisfies the
   invariant the counting theorem needs, in both compression modes -- so the counting / evaluation
   theorems apply to every result of the model run the correspondence drives. *)
From Coq Require Import Bool NArith List Lia Arith Permutation.
Import ListNotations.
From RsddV Require Import Base.Bdd Model.SddVtree Model.SddOps.
From RsddV Require Import Proofs.SddBase Proofs.SddVtree Proofs.SddInv Proofs.SddAnd Proofs.SddProg.

Lemma run_prog_under t cm ops : NoDup (vleaves t) -> Forall (op_wf t) ops ->
  exists pool, run_prog t cm ops = Ok pool /\ Forall (under t 0) pool.
Proof.
  intros ND Hw. unfold run_prog.
  assert (CS : cache_sound t no_cache) by (intros a b x H; discriminate).
  destruct (run_ok_u t ND cm no_cache CS (S (vheight t)) (Nat.lt_succ_diag_r _) ops [] [] [])
    as (pool & ic & E & Hp & _); try constructor; auto.
  exists pool. split.
  { transitivity (bind (Ok (pool, ic)) (fun st : list sdd * itecache => Ok (fst st))); [|reflexivity].
    f_equal. exact E. }
  clear E. induction Hp as [|p f pool spec [Hu _] _ IH]; constructor; auto.
Qed.

Lemma Forall_nth_in {A} (P : A -> Prop) l i d : Forall P l -> i < length l -> P (nth i l d).
Proof. intros H Hi. rewrite Forall_forall in H. apply H. apply nth_In. exact Hi. Qed.
