(* C09 — fuel sufficiency: with the fuel [up_fuel] that the solver passes, UnitPropagate::decide
   never runs out of fuel (both the pinned and the repaired replacement-watch test). *)
From Coq Require Import Bool NArith List Arith Lia Permutation.
Import ListNotations.
From RsddV Require Import Base.Util Model.UnitProp.
From RsddV Require Import Proofs.UnitProp Proofs.UnitPropFix.

Fixpoint total (ll : list (list nat)) : nat :=
  match ll with [] => 0 | l :: t => length l + total t end.
Definition T (w : watches) : nat := total (wpos w) + total (wneg w).

(* potential: every unassigned variable carries K plus the lengths of its two watch lists *)
Fixpoint phi (K : nat) (m : pmodel) (wp wn : list (list nat)) : nat :=
  match m, wp, wn with
  | x :: m', p :: wp', n :: wn' =>
      (match x with None => K + length p + length n | Some _ => 0 end) + phi K m' wp' wn'
  | _, _, _ => 0
  end.
Definition Phi (K : nat) (m : pmodel) (w : watches) : nat := phi K m (wpos w) (wneg w).

Lemma total_set_nth ll : forall v x, v < length ll ->
  total (set_nth ll v x) + length (nth v ll []) = total ll + length x.
Proof.
  induction ll as [|l t IH]; intros [|v] x H; simpl in *; try lia. specialize (IH v x ltac:(lia)). lia.
Qed.

Lemma nth_le_total ll : forall v, length (nth v ll []) <= total ll.
Proof.
  induction ll as [|l t IH]; intros [|v]; simpl; try lia. specialize (IH v). lia.
Qed.

Lemma phi_set_model K : forall m wp wn v b,
  v < length m -> v < length wp -> v < length wn -> nth v m None = None ->
  phi K (set_nth m v (Some b)) wp wn + K + length (nth v wp []) + length (nth v wn []) = phi K m wp wn.
Proof.
  induction m as [|x m IH]; intros [|p wp] [|n wn] [|v] b H1 H2 H3 H4; simpl in *; try lia.
  - subst x. lia.
  - specialize (IH wp wn v b ltac:(lia) ltac:(lia) ltac:(lia) H4). destruct x; lia.
Qed.

Lemma phi_set_wp K : forall m wp wn v x, v < length m -> v < length wp -> v < length wn ->
  match nth v m None with
  | Some _ => phi K m (set_nth wp v x) wn = phi K m wp wn
  | None => phi K m (set_nth wp v x) wn + length (nth v wp []) = phi K m wp wn + length x
  end.
Proof.
  induction m as [|y m IH]; intros [|p wp] [|n wn] [|v] x H1 H2 H3; simpl in *; try lia.
  - destruct y; lia.
  - specialize (IH wp wn v x ltac:(lia) ltac:(lia) ltac:(lia)). destruct (nth v m None); destruct y; lia.
Qed.

Lemma phi_set_wn K : forall m wp wn v x, v < length m -> v < length wp -> v < length wn ->
  match nth v m None with
  | Some _ => phi K m wp (set_nth wn v x) = phi K m wp wn
  | None => phi K m wp (set_nth wn v x) + length (nth v wn []) = phi K m wp wn + length x
  end.
Proof.
  induction m as [|y m IH]; intros [|p wp] [|n wn] [|v] x H1 H2 H3; simpl in *; try lia.
  - destruct y; lia.
  - specialize (IH wp wn v x ltac:(lia) ltac:(lia) ltac:(lia)). destruct (nth v m None); destruct y; lia.
Qed.

Lemma phi_bound K : forall m wp wn, phi K m wp wn <= length m * K + total wp + total wn.
Proof.
  induction m as [|y m IH]; intros [|p wp] [|n wn]; simpl; try lia.
  specialize (IH wp wn). destruct y; lia.
Qed.

Definition lens (nvars : nat) (w : watches) (m : pmodel) : Prop :=
  length (wpos w) = nvars /\ length (wneg w) = nvars /\ length m = nvars.

Lemma T_put nvars w m l x : lens nvars w m -> lvar l < nvars ->
  T (wl_put w l x) + length (wl_get w l) = T w + length x.
Proof.
  intros [H1 [H2 _]] Hl. unfold T, wl_put, wl_get. destruct (lpol l); simpl.
  - pose proof (total_set_nth (wpos w) (lvar l) x ltac:(lia)). lia.
  - pose proof (total_set_nth (wneg w) (lvar l) x ltac:(lia)). lia.
Qed.

Lemma len_le_T w l : length (wl_get w l) <= T w.
Proof.
  unfold T, wl_get. destruct (lpol l).
  - pose proof (nth_le_total (wpos w) (lvar l)). lia.
  - pose proof (nth_le_total (wneg w) (lvar l)). lia.
Qed.

Lemma Phi_put_set K nvars w m l x : lens nvars w m -> lvar l < nvars ->
  pm_is_set m (lvar l) = true -> Phi K m (wl_put w l x) = Phi K m w.
Proof.
  intros [H1 [H2 H3]] Hl Hs. unfold Phi, wl_put, pm_is_set, pm_get in *.
  destruct (nth (lvar l) m None) eqn:E; [|discriminate]. destruct (lpol l); simpl.
  - pose proof (phi_set_wp K m (wpos w) (wneg w) (lvar l) x ltac:(lia) ltac:(lia) ltac:(lia)) as H.
    rewrite E in H. exact H.
  - pose proof (phi_set_wn K m (wpos w) (wneg w) (lvar l) x ltac:(lia) ltac:(lia) ltac:(lia)) as H.
    rewrite E in H. exact H.
Qed.

Lemma Phi_put_unset K nvars w m l x : lens nvars w m -> lvar l < nvars ->
  pm_get m (lvar l) = None -> Phi K m (wl_put w l x) + length (wl_get w l) = Phi K m w + length x.
Proof.
  intros [H1 [H2 H3]] Hl Hs. unfold Phi, wl_put, wl_get, pm_get in *. destruct (lpol l); simpl.
  - pose proof (phi_set_wp K m (wpos w) (wneg w) (lvar l) x ltac:(lia) ltac:(lia) ltac:(lia)) as H.
    rewrite Hs in H. exact H.
  - pose proof (phi_set_wn K m (wpos w) (wneg w) (lvar l) x ltac:(lia) ltac:(lia) ltac:(lia)) as H.
    rewrite Hs in H. exact H.
Qed.

Lemma Phi_set K nvars w m v b : lens nvars w m -> v < nvars -> pm_get m v = None ->
  Phi K (pm_set m v b) w + K + length (nth v (wpos w) []) + length (nth v (wneg w) []) = Phi K m w.
Proof.
  intros [H1 [H2 H3]] Hv Hn. unfold Phi, pm_set. apply phi_set_model; try lia. exact Hn.
Qed.

Lemma lens_put nvars w m l x : lens nvars w m -> lens nvars (wl_put w l x) m.
Proof. intros [H1 [H2 H3]]. destruct (wl_put_lengths w l x) as [H4 H5]. unfold lens. lia. Qed.

Lemma swap_remove_length l i : i < length l -> S (length (swap_remove l i)) = length l.
Proof.
  intros H. destruct (swap_remove_spec l i H) as [Hp _]. apply Permutation_length in Hp. exact Hp.
Qed.

Lemma pm_is_set_le m m' v : pm_le m m' -> pm_is_set m v = true -> pm_is_set m' v = true.
Proof.
  unfold pm_is_set. intros Hle H. destruct (pm_get m v) as [x|] eqn:E; [|discriminate].
  rewrite (Hle _ _ E). reflexivity.
Qed.

Lemma nth_nonempty_in (cls : list clause) ci : nth ci cls [] <> [] -> In (nth ci cls []) cls.
Proof.
  intros H. destruct (Nat.lt_ge_cases ci (length cls)) as [Hlt|Hge]; [apply nth_In; exact Hlt|].
  rewrite nth_overflow in H by exact Hge. congruence.
Qed.

Section FUEL.
Variable pinned : bool.
Variable nvars : nat.
Variable cls : list clause.
Variable K : nat.
Hypothesis Hrange : lits_in_range nvars cls.

Definition dpost (w : watches) (m : pmodel) (except : option lit) (extra : nat) (w' : watches) (r : option pmodel) : Prop :=
  lens nvars w' m /\ T w' = T w /\
  (forall l, pm_is_set m (lvar l) = true -> Some l <> except -> wl_get w' l = wl_get w l) /\
  (forall m', r = Some m' -> length m' = nvars /\ Phi K m' w' <= Phi K m w + extra /\ pm_le m m').

Lemma fuel_enough : forall fuel,
  (forall w m a, lens nvars w m -> lvar a < nvars -> T w < K -> Phi K m w + 1 <= fuel ->
     exists w' r, up_decide pinned cls fuel w m a = URes w' r /\ dpost w m None 0 w' r) /\
  (forall w m a idx, lens nvars w m -> lvar a < nvars -> T w < K -> pm_is_set m (lvar a) = true ->
     idx <= length (wl_get w (lneg a)) ->
     2 * (length (wl_get w (lneg a)) - idx) + Phi K m w + 1 <= fuel ->
     exists w' r, up_loop pinned cls fuel w m a idx = URes w' r /\
       dpost w m (Some (lneg a)) (length (wl_get w (lneg a)) - idx) w' r).
Proof.
  induction fuel as [|f [IHd IHl]]; [split; intros; lia|]. split.
  - intros w m a HL Ha HT Hf. rewrite up_decide_S.
    destruct (pm_get m (lvar a)) as [x|] eqn:E.
    + exists w. destruct (Bool.eqb x (lpol a)); eexists; (split; [reflexivity|]);
        (split; [exact HL|split; [reflexivity|split; [intros; reflexivity|]]]).
      * intros m' Hr. injection Hr as <-. destruct HL as [_ [_ HL]]. split; [exact HL|split; [lia|apply pm_le_refl]].
      * intros m' Hr. discriminate.
    + set (m1 := pm_set m (lvar a) (lpol a)).
      assert (HL1 : lens nvars w m1).
      { destruct HL as [H1 [H2 H3]]. unfold lens, m1, pm_set. rewrite length_set_nth. auto. }
      assert (Hs1 : pm_is_set m1 (lvar a) = true).
      { unfold pm_is_set, m1. rewrite pm_get_set_same; [reflexivity|]. destruct HL as [_ [_ H3]]. lia. }
      pose proof (Phi_set K nvars w m (lvar a) (lpol a) HL Ha E) as HP. fold m1 in HP.
      assert (Hwl : length (wl_get w (lneg a)) <= length (nth (lvar a) (wpos w) []) + length (nth (lvar a) (wneg w) [])).
      { unfold wl_get. rewrite lvar_lneg. destruct (lpol (lneg a)); lia. }
      pose proof (len_le_T w (lneg a)) as HlT.
      destruct (IHl w m1 a 0 HL1 Ha HT Hs1 ltac:(lia) ltac:(lia)) as [w' [r [Hrun [HL' [HT' [Hfr Hm']]]]]].
      exists w', r. split; [exact Hrun|]. split; [|split; [exact HT'|split]].
      * destruct HL' as [H1 [H2 _]]. destruct HL as [_ [_ H3]]. unfold lens. auto.
      * intros l Hl _. apply Hfr.
        -- eapply pm_is_set_le; [apply pm_le_set; exact E|exact Hl].
        -- intros Hx. injection Hx as ->. unfold pm_is_set in Hl. rewrite lvar_lneg, E in Hl. discriminate.
      * intros m' Hr. destruct (Hm' m' Hr) as [Hlen [HPhi Hle]]. split; [exact Hlen|split; [lia|]].
        eapply pm_le_trans; [apply pm_le_set; exact E|exact Hle].
  - intros w m a idx HL Ha HT Hsa Hidx Hf. rewrite up_loop_S. cbv zeta.
    set (la := lneg a) in *. set (wl := wl_get w la) in *.
    destruct (Nat.leb (length wl) idx) eqn:Eidx.
    { exists w, (Some m). split; [reflexivity|]. split; [exact HL|split; [reflexivity|split; [intros; reflexivity|]]].
      intros m' Hr. injection Hr as <-. destruct HL as [_ [_ HL]]. split; [exact HL|split; [lia|apply pm_le_refl]]. }
    apply Nat.leb_gt in Eidx. set (ci := nth idx wl 0) in *. set (c := nth ci cls []) in *.
    destruct (clause_sat m c) eqn:Esat.
    { destruct (IHl w m a (S idx) HL Ha HT Hsa ltac:(fold la; fold wl; lia) ltac:(fold la; fold wl; lia))
        as [w' [r [Hrun [HL' [HT' [Hfr Hm']]]]]]. fold la in Hfr, Hm'. fold wl in Hm'.
      exists w', r. split; [exact Hrun|]. split; [exact HL'|split; [exact HT'|split; [exact Hfr|]]].
      intros m' Hr. destruct (Hm' m' Hr) as [Hlen [HPhi Hle]]. split; [exact Hlen|split; [lia|exact Hle]]. }
    destruct (remaining m c) as [|u [|second rest]] eqn:Erem.
    + exists w, None. split; [reflexivity|]. split; [exact HL|split; [reflexivity|split; [intros; reflexivity|]]].
      intros m' Hr. discriminate.
    + assert (Hu : In u (remaining m c)) by (rewrite Erem; left; reflexivity).
      apply remaining_in in Hu. destruct Hu as [Huc Huu].
      assert (Hcin : In c cls) by (apply nth_nonempty_in; intros Hx; fold c in Hx; rewrite Hx in Huc; destruct Huc).
      assert (Hur : lvar u < nvars) by (eapply Hrange; eauto).
      destruct (IHd w m u HL Hur HT ltac:(lia)) as [w1 [r1 [Hrun1 [HL1 [HT1 [Hfr1 Hm1]]]]]].
      rewrite Hrun1. destruct r1 as [m1|].
      * destruct (Hm1 m1 eq_refl) as [Hlen1 [HPhi1 Hle1]].
        assert (Hla1 : wl_get w1 la = wl) by (apply Hfr1; [unfold la; rewrite lvar_lneg; exact Hsa|discriminate]).
        assert (HL1' : lens nvars w1 m1) by (destruct HL1 as [H1 [H2 _]]; unfold lens; auto).
        destruct (IHl w1 m1 a (S idx) HL1' Ha ltac:(lia) (pm_is_set_le _ _ _ Hle1 Hsa)
                    ltac:(fold la; rewrite Hla1; lia) ltac:(fold la; rewrite Hla1; lia))
          as [w' [r [Hrun [HL' [HT' [Hfr Hm']]]]]]. fold la in Hfr, Hm'. rewrite Hla1 in Hm'.
        exists w', r. split; [exact Hrun|]. split; [|split; [lia|split]].
        -- destruct HL' as [H1 [H2 _]]. destruct HL as [_ [_ H3]]. unfold lens. auto.
        -- intros l Hl Hx. rewrite Hfr; [apply Hfr1; [exact Hl|discriminate]|eapply pm_is_set_le; eauto|exact Hx].
        -- intros m' Hr. destruct (Hm' m' Hr) as [Hlen [HPhi Hle]].
           split; [exact Hlen|split; [lia|eapply pm_le_trans; eauto]].
      * exists w1, None. split; [reflexivity|]. split; [exact HL1|split; [exact HT1|split]].
        -- intros l Hl _. apply Hfr1; [exact Hl|discriminate].
        -- intros m' Hr. discriminate.
    + set (consulted := if pinned then (lvar u, lpol a) else u).
      set (nl := if mem_nat ci (wl_get w consulted) then second else u).
      assert (Hnl : In nl c /\ lit_unset m nl = true).
      { assert (Hu : In u (remaining m c)) by (rewrite Erem; left; reflexivity).
        assert (Hs : In second (remaining m c)) by (rewrite Erem; right; left; reflexivity).
        apply remaining_in in Hu. apply remaining_in in Hs. unfold nl. destruct (mem_nat ci _); assumption. }
      destruct Hnl as [Hnlc Hnlu].
      assert (Hcin : In c cls) by (apply nth_nonempty_in; intros Hx; fold c in Hx; rewrite Hx in Hnlc; destruct Hnlc).
      assert (Hnlr : lvar nl < nvars) by (eapply Hrange; eauto).
      assert (Hnlnone : pm_get m (lvar nl) = None).
      { unfold lit_unset, pm_is_set in Hnlu. destruct (pm_get m (lvar nl)); [discriminate|reflexivity]. }
      assert (Hlar : lvar la < nvars) by (unfold la; rewrite lvar_lneg; exact Ha).
      assert (Hlaset : pm_is_set m (lvar la) = true) by (unfold la; rewrite lvar_lneg; exact Hsa).
      assert (Hne : nl <> la).
      { intros Hx. rewrite Hx in Hnlnone. unfold pm_is_set in Hlaset. rewrite Hnlnone in Hlaset. discriminate. }
      set (w1 := wl_put w la (swap_remove wl idx)).
      set (w2 := wl_push w1 nl ci).
      assert (HLa : lens nvars w1 m) by (apply lens_put; exact HL).
      assert (HLb : lens nvars w2 m) by (apply lens_put; exact HLa).
      pose proof (swap_remove_length wl idx Eidx) as Hsw.
      pose proof (T_put nvars w m la (swap_remove wl idx) HL Hlar) as HT1. fold w1 wl in HT1.
      pose proof (T_put nvars w1 m nl (wl_get w1 nl ++ [ci]) HLa Hnlr) as HT2.
      change (wl_put w1 nl (wl_get w1 nl ++ [ci])) with w2 in HT2. rewrite app_length in HT2. simpl in HT2.
      pose proof (Phi_put_set K nvars w m la (swap_remove wl idx) HL Hlar Hlaset) as HP1. fold w1 in HP1.
      pose proof (Phi_put_unset K nvars w1 m nl (wl_get w1 nl ++ [ci]) HLa Hnlr Hnlnone) as HP2.
      change (wl_put w1 nl (wl_get w1 nl ++ [ci])) with w2 in HP2. rewrite app_length in HP2. simpl in HP2.
      assert (Hg2a : wl_get w2 la = swap_remove wl idx).
      { unfold w2, wl_push. rewrite wl_get_put_other by exact Hne. unfold w1. apply wl_get_put_same.
        - destruct HL as [H1 _]. lia.
        - destruct HL as [_ [H2 _]]. lia. }
      assert (Hg2o : forall l, l <> la -> l <> nl -> wl_get w2 l = wl_get w l).
      { intros l H1 H2. unfold w2, wl_push. rewrite wl_get_put_other by congruence.
        unfold w1. apply wl_get_put_other. congruence. }
      destruct (IHl w2 m a idx HLb Ha ltac:(lia) Hsa ltac:(fold la; rewrite Hg2a; lia) ltac:(fold la; rewrite Hg2a; lia))
        as [w' [r [Hrun [HL' [HT' [Hfr Hm']]]]]]. fold la in Hfr, Hm'. rewrite Hg2a in Hm'.
      exists w', r. split; [exact Hrun|]. split; [exact HL'|split; [lia|split]].
      * intros l Hl Hx. rewrite Hfr by assumption. apply Hg2o; [congruence|].
        intros ->. unfold pm_is_set in Hl. rewrite Hnlnone in Hl. discriminate.
      * intros m' Hr. destruct (Hm' m' Hr) as [Hlen [HPhi Hle]]. split; [exact Hlen|split; [lia|exact Hle]].
Qed.
End FUEL.

(* ---------- solver level ---------- *)
Lemma T_push nvars w m l ci : lens nvars w m -> lvar l < nvars -> T (wl_push w l ci) = S (T w).
Proof.
  intros HL Hl. pose proof (T_put nvars w m l (wl_get w l ++ [ci]) HL Hl) as H.
  rewrite app_length in H. simpl in H. unfold wl_push. lia.
Qed.

Lemma scan_T nvars m : forall rest idx w implied w' imp',
  (forall c l, In c rest -> In l c -> lvar l < nvars) -> lens nvars w m ->
  up_new_scan rest idx w implied = Some (w', imp') ->
  lens nvars w' m /\ T w' <= T w + 2 * length rest /\
  (forall l, In l imp' -> In l implied \/ exists c, In c rest /\ In l c).
Proof.
  induction rest as [|c rest IH]; intros idx w implied w' imp' Hr HL H; simpl in H.
  - injection H as <- <-. split; [exact HL|split; [lia|auto]].
  - destruct c as [|l0 [|l1 r]]; [discriminate| |].
    + destruct (IH _ _ _ _ _ (fun c l Hc Hl => Hr c l (or_intror Hc) Hl) HL H) as [H1 [H2 H3]].
      split; [exact H1|split; [simpl; lia|]]. intros l Hl. destruct (H3 l Hl) as [Hx|[c [Hc Hlc]]].
      * apply in_app_or in Hx. destruct Hx as [Hx|[<-|[]]]; [left; exact Hx|].
        right. exists [l0]. split; [left; reflexivity|left; reflexivity].
      * right. exists c. split; [right; exact Hc|exact Hlc].
    + assert (Hr0 : lvar l0 < nvars) by (apply (Hr (l0 :: l1 :: r)); [left; reflexivity|left; reflexivity]).
      assert (Hr1 : lvar l1 < nvars) by (apply (Hr (l0 :: l1 :: r)); [left; reflexivity|right; left; reflexivity]).
      assert (HL1 : lens nvars (wl_push w l1 idx) m) by (apply lens_put; exact HL).
      assert (HL2 : lens nvars (wl_push (wl_push w l1 idx) l0 idx) m) by (apply lens_put; exact HL1).
      pose proof (T_push nvars w m l1 idx HL Hr1) as HT1.
      pose proof (T_push nvars _ m l0 idx HL1 Hr0) as HT2.
      destruct (IH _ _ _ _ _ (fun c l Hc Hl => Hr c l (or_intror Hc) Hl) HL2 H) as [H1 [H2 H3]].
      split; [exact H1|split; [simpl; lia|]]. intros l Hl. destruct (H3 l Hl) as [Hx|[c [Hc Hlc]]]; [left; exact Hx|].
      right. exists c. split; [right; exact Hc|exact Hlc].
Qed.

Lemma total_repeat n : total (repeat [] n) = 0.
Proof. induction n; simpl; auto. Qed.

Definition KK (cls : list clause) : nat := 2 * length cls + 1.

Lemma up_fuel_enough nvars cls w m :
  lens nvars w m -> T w <= 2 * length cls -> Phi (KK cls) m w + 1 <= up_fuel nvars cls.
Proof.
  intros [H1 [H2 H3]] HT. unfold Phi. pose proof (phi_bound (KK cls) m (wpos w) (wneg w)) as Hb.
  unfold T in HT. unfold up_fuel, KK in *. rewrite H3 in Hb. nia.
Qed.

Section FUEL_SOLVER.
Variable pinned : bool.
Variable nvars : nat.
Variable cls : list clause.
Hypothesis Hrange : lits_in_range nvars cls.

Lemma decide_returns w m a :
  lens nvars w m -> T w <= 2 * length cls -> lvar a < nvars ->
  exists w' r, up_decide pinned cls (up_fuel nvars cls) w m a = URes w' r /\
    lens nvars w' m /\ T w' <= 2 * length cls /\ (forall m', r = Some m' -> length m' = nvars).
Proof.
  intros HL HT Ha.
  destruct (proj1 (fuel_enough pinned nvars cls (KK cls) Hrange (up_fuel nvars cls)) w m a HL Ha
              ltac:(unfold KK; lia) (up_fuel_enough nvars cls w m HL HT)) as [w' [r [Hrun [HL' [HT' [_ Hm]]]]]].
  exists w', r. split; [exact Hrun|split; [exact HL'|split; [lia|]]]. intros m' Hr. apply (Hm m' Hr).
Qed.

Lemma units_return : forall implied w m,
  lens nvars w m -> T w <= 2 * length cls -> (forall l, In l implied -> lvar l < nvars) ->
  exists w' r, up_new_units pinned cls (up_fuel nvars cls) w m implied = URes w' r /\
    (forall m', r = Some m' -> lens nvars w' m' /\ T w' <= 2 * length cls).
Proof.
  induction implied as [|i rest IH]; intros w m HL HT Hir; cbn [up_new_units].
  - exists w, (Some m). split; [reflexivity|]. intros m' Hr. injection Hr as <-. auto.
  - destruct (decide_returns w m i HL HT (Hir i (or_introl eq_refl))) as [w1 [r1 [Hrun [HL1 [HT1 Hm1]]]]].
    rewrite Hrun. destruct r1 as [m1|].
    + assert (HL1' : lens nvars w1 m1).
      { destruct HL1 as [H1 [H2 _]]. unfold lens. rewrite (Hm1 m1 eq_refl). auto. }
      apply IH; [exact HL1'|exact HT1|intros l Hl; apply Hir; right; exact Hl].
    + exists w1, None. split; [reflexivity|]. intros m' Hr. discriminate.
Qed.

Definition fuel_inv (s : solver) : Prop :=
  s_cnf s = cls /\ s_nvars s = nvars /\ length (wpos (s_w s)) = nvars /\ length (wneg (s_w s)) = nvars /\
  T (s_w s) <= 2 * length cls /\ Forall (fun st => length (ss_model st) = nvars) (s_stack s).

Lemma up_new_returns :
  exists w' r, up_new pinned cls nvars (up_fuel nvars cls) = URes w' r /\
    (forall m', r = Some m' -> lens nvars w' m' /\ T w' <= 2 * length cls).
Proof.
  unfold up_new. set (w0 := mkW (repeat [] nvars) (repeat [] nvars)).
  assert (HL0 : lens nvars w0 (pm_new nvars)) by (unfold lens, w0, pm_new; simpl; rewrite !repeat_length; auto).
  assert (HT0 : T w0 = 0) by (unfold T, w0; simpl; rewrite total_repeat; reflexivity).
  destruct (up_new_scan cls 0 w0 []) as [[w implied]|] eqn:Es.
  - destruct (scan_T nvars (pm_new nvars) cls 0 w0 [] w implied (fun c l Hc Hl => Hrange c l Hc Hl) HL0 Es)
      as [HL [HT Himp]].
    apply units_return; [exact HL|rewrite HT0 in HT; exact HT|].
    intros l Hl. destruct (Himp l Hl) as [[]|[c [Hc Hlc]]]. eapply Hrange; eauto.
  - exists (mkW [] []), None. split; [reflexivity|]. intros m' Hr. discriminate.
Qed.

Theorem sat_new_no_out_of_fuel : sat_new pinned cls nvars <> NewOutOfFuel.
Proof.
  unfold sat_new. destruct up_new_returns as [w' [r [Hrun _]]]. rewrite Hrun.
  destruct r as [state|]; [|discriminate]. destruct (update_hash_and_sat_set _ _ state). discriminate.
Qed.

Lemma sat_new_fuel_inv s0 : sat_new pinned cls nvars = NewSome s0 -> fuel_inv s0.
Proof.
  unfold sat_new. destruct up_new_returns as [w' [r [Hrun Hm]]]. rewrite Hrun.
  destruct r as [state|]; [|discriminate]. destruct (Hm state eq_refl) as [[H1 [H2 H3]] HT].
  destruct (update_hash_and_sat_set _ _ state) as [h set]. intros H. injection H as <-.
  unfold fuel_inv. simpl. repeat split; auto.
  constructor; [exact H3|constructor; [simpl; apply repeat_length|constructor]].
Qed.

Lemma fuel_inv_decide s a s' r : fuel_inv s -> s_stack s <> [] ->
  sat_decide pinned s a = (s', r) -> r <> DOutOfFuel /\ fuel_inv s'.
Proof.
  intros [Hc [Hnv [H1 [H2 [HT Hall]]]]] Hne Hd. apply sat_decide_cases in Hd.
  destruct Hd as [[-> [-> _]]|[Hl Hd]].
  { split; [discriminate|]. unfold fuel_inv. repeat split; assumption. }
  assert (Htop : length (ss_model (top_state s)) = nvars).
  { unfold top_state. destruct (s_stack s) as [|t rest]; [congruence|]. inversion Hall; subst. assumption. }
  rewrite Hc, Hnv in Hd. rewrite Hnv in Hl.
  destruct (decide_returns (s_w s) (ss_model (top_state s)) a (conj H1 (conj H2 Htop)) HT Hl)
    as [w' [r' [Hrun [[H1' [H2' _]] [HT' Hm']]]]].
  rewrite Hrun in Hd. destruct r' as [nm|].
  - cbv zeta in Hd. destruct Hd as [-> ->]. split; [destruct (Nat.eqb _ _); discriminate|].
    unfold fuel_inv. simpl. repeat split; auto.
  - destruct Hd as [-> ->]. split; [discriminate|]. unfold fuel_inv. simpl. repeat split; auto.
Qed.

Lemma fuel_inv_reach s0 s ds :
  sat_new pinned cls nvars = NewSome s0 -> reaches pinned s0 s ds ->
  fuel_inv s /\ length (s_stack s) = length ds + 2.
Proof.
  intros Hn Hr. revert s ds Hr. apply run_track_ind.
  - split; [apply sat_new_fuel_inv; exact Hn|]. unfold sat_new in Hn.
    destruct (up_new pinned cls nvars (up_fuel nvars cls)) as [|w [state|]]; try discriminate.
    destruct (update_hash_and_sat_set _ _ state). injection Hn as <-. reflexivity.
  - intros s ds a s' r [Hf Hlen] Hd Hres.
    assert (Hne : s_stack s <> []) by (intros Hx; rewrite Hx in Hlen; simpl in Hlen; lia).
    destruct (fuel_inv_decide s a s' r Hf Hne Hd) as [_ Hf']. split; [exact Hf'|].
    destruct (sat_decide_push _ _ _ _ _ Hd Hres) as [w' [nm [_ [_ [-> _]]]]]. simpl. lia.
  - intros s ds a s' [Hf Hlen] Hd.
    assert (Hne : s_stack s <> []) by (intros Hx; rewrite Hx in Hlen; simpl in Hlen; lia).
    destruct (fuel_inv_decide s a s' DUNSAT Hf Hne Hd) as [_ Hf']. split; [exact Hf'|].
    destruct (sat_decide_unsat _ _ _ _ Hd) as [w' [_ [_ ->]]]. simpl. exact Hlen.
  - intros s d ds [[Hc [Hnv [H1 [H2 [HT Hall]]]]] Hlen]. split.
    + unfold fuel_inv. simpl. repeat split; auto. destruct (s_stack s); [constructor|]. inversion Hall; assumption.
    + simpl in *. destruct (s_stack s); simpl in *; lia.
Qed.

(* no decide on a reachable state runs out of fuel *)
Theorem decide_no_out_of_fuel s0 s ds a :
  sat_new pinned cls nvars = NewSome s0 -> reaches pinned s0 s ds ->
  snd (sat_decide pinned s a) <> DOutOfFuel.
Proof.
  intros Hn Hr. destruct (fuel_inv_reach _ _ _ Hn Hr) as [Hf Hlen].
  assert (Hne : s_stack s <> []) by (intros Hx; rewrite Hx in Hlen; simpl in Hlen; lia).
  destruct (sat_decide pinned s a) as [s' r] eqn:Ed. simpl.
  apply (fuel_inv_decide s a s' r Hf Hne Ed).
Qed.

(* a history can only be invalid because it pops without a matching successful decide or decides
   a label >= num_vars: never because of fuel *)
Theorem history_fails_only_by_guard s0 s ds o :
  sat_new pinned cls nvars = NewSome s0 -> reaches pinned s0 s ds ->
  run_track pinned s ds [o] = None ->
  (o = Pop /\ ds = []) \/ (exists a, o = Decide a /\ nvars <= lvar a).
Proof.
  intros Hn Hr H. destruct o as [a|]; simpl in H.
  - right. exists a. split; [reflexivity|].
    pose proof (decide_no_out_of_fuel s0 s ds a Hn Hr) as Hno.
    destruct (fuel_inv_reach _ _ _ Hn Hr) as [[_ [Hnv _]] _].
    destruct (sat_decide pinned s a) as [s' r] eqn:Ed. simpl in Hno.
    destruct r; try discriminate; [congruence|].
    apply sat_decide_cases in Ed. destruct Ed as [[_ [_ Hx]]|[Hl Hd]]; [lia|].
    destruct (up_decide pinned (s_cnf s) _ (s_w s) _ a) as [|w' [nm|]].
    + destruct Hd; discriminate.
    + cbv zeta in Hd. destruct Hd as [_ Hd]. destruct (Nat.eqb _ _) in Hd; discriminate.
    + destruct Hd; discriminate.
  - left. destruct ds; [auto|discriminate].
Qed.
End FUEL_SOLVER.

Theorem raw_no_out_of_fuel pinned raw : solver_of_raw pinned raw <> NewOutOfFuel.
Proof. unfold solver_of_raw. apply sat_new_no_out_of_fuel. apply cnf_num_vars_range. Qed.
